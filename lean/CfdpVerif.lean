import CfdpVerif.Model.Tracker
import CfdpVerif.Lemmas.Tracker
import CfdpVerif.Props.C18
