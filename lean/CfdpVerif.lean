import CfdpVerif.Model.Tracker
import CfdpVerif.Model.Checksum
import CfdpVerif.Lemmas.Tracker
import CfdpVerif.Lemmas.Checksum
import CfdpVerif.Props.C18
import CfdpVerif.Props.C09
