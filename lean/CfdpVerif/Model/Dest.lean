import CfdpVerif.Model.Common
/-
Model of `cfdppy.handler.dest.DestHandler` (dest.py:283-1169), one definition per Python method,
same order of effects, same places where an exception can be raised.  The monad is
`EStateM Err DestSt`: `throw` keeps every mutation made so far (Python semantics).
-/
namespace Cfdp.Dest

open Cfdp
open Cfdp.Route (Dir Mode Kind)

inductive DStep where
  | IDLE | TRANSACTION_START | WAITING_FOR_METADATA | RECEIVING_FILE_DATA
  | RECV_FILE_DATA_WITH_CHECK_LIMIT_HANDLING | SENDING_EOF_ACK_PDU | WAITING_FOR_MISSING_DATA
  | TRANSFER_COMPLETION | SENDING_FINISHED_PDU | WAITING_FOR_FINISHED_ACK
  deriving Repr, DecidableEq, Inhabited

/-- `_DestFieldWrapper` with `_DestFileParams`, `_AckedModeParams`, `_PositiveAckProcedureParams` -/
structure Params where
  tid : Option Tid := none
  remoteCfg : Option RemoteCfg := none
  checkTimer : Option Timer := none
  checkCount : Nat := 0
  closure : Bool := false
  cksType : Nat := 15
  fin : FinishedParams := ⟨ccNoError, dcIncomplete, fsUnreported, none⟩
  canceled : Bool := false
  conf : Hdr := Hdr.empty
  -- fp
  progress : Nat := 0
  crc32 : List UInt8 := []
  fileSize : Option Nat := none
  fileName : String := "."
  fileSizeEof : Option Nat := none
  metadataOnly : Bool := false
  -- acked_params
  trk : Tracker.T := []
  metadataMissing : Bool := false
  lastStart : Nat := 0
  lastEnd : Nat := 0
  deferredActive : Bool := false
  procTimer : Option Timer := none
  nakCounter : Nat := 0
  -- positive_ack_params
  ackTimer : Option Timer := none
  ackCounter : Nat := 0
  deriving Repr

structure DestSt where
  state : CfdpState := .idle
  step : DStep := .IDLE
  numReady : Nat := 0
  p : Params := {}
  queue : List Pdu := []
  -- environment owned by the handler's collaborators
  fs : Fs := []
  faults : List (Nat × Nat) := defaultFaultTable
  rejects : List FsErr := []           -- injected failures of the next write_data calls
  -- outputs of the current call (cleared by the driver) and the append-only ghost logs
  inds : List Ind := []
  flts : List FaultCb := []
  deriving Repr

abbrev DM := EStateM Err DestSt

/-- immutable environment of a call -/
structure Env where
  cfg : LocalCfg
  now : Nat

def modP (f : Params → Params) : DM Unit := modify fun s => { s with p := f s.p }
def getP : DM Params := do return (← get).p

def assertThat (b : Bool) : DM Unit := if b then pure () else throw .assertionError

/-- `transmission_mode` property: `None` when idle -/
def transmissionMode : DM (Option Mode) := do
  let s ← get
  return if s.state = .idle then none else some s.p.conf.mode

def addPacket (pdu : Pdu) : DM Unit :=
  modify fun s => { s with queue := s.queue ++ [pdu], numReady := s.numReady + 1 }

def emitInd (i : Ind) : DM Unit := modify fun s => { s with inds := s.inds ++ [i] }

/-! PDU constructors of `spacepackets` (they copy the config and force the direction) -/
def mkNak (h : Hdr) (sos eos : Nat) (reqs : List (Nat × Nat)) : Pdu :=
  .nak { h with dir := .toSend } sos eos reqs
def mkAck (h : Hdr) (ofDir cond tstat : Nat) : Pdu :=
  .ack { h with dir := if ofDir = dtFinished then .toRecv else .toSend } ofDir cond tstat
def mkFin (h : Hdr) (p : FinishedParams) : Pdu := .fin { h with dir := .toSend } p

def resetInternal (clearQueue : Bool) : DM Unit :=
  modify fun s => { s with p := {}, state := .idle, step := .IDLE,
                           queue := if clearQueue then [] else s.queue }

def abandonTransaction : DM Unit := resetInternal false

/-- `_notice_of_cancellation` (dest.py): a fault declared while the Finished (cancel) PDU is being
transferred abandons the transaction; returns whether the declaration goes on to report the fault -/
def noticeOfCancellation (cond : Nat) : DM Bool := do
  let s ← get
  if s.p.canceled && s.step = .WAITING_FOR_FINISHED_ACK then
    match s.p.tid with
    | none => throw .assertionError
    | some tid =>
      modify fun s => { s with flts := s.flts ++ [⟨fhAbandon, tid, s.p.fin.cond, s.p.progress⟩] }
      abandonTransaction
      return false
  else
    modify fun s => { s with step := .TRANSFER_COMPLETION,
                             p := { s.p with fin := { s.p.fin with cond := cond }, canceled := true } }
    return true

/-- `_declare_fault` (dest.py:1141-1155) -/
def declareFault (cond : Nat) : DM Nat := do
  let s ← get
  let fh := s.faults.lookup cond
  let tid := s.p.tid
  let progress := s.p.progress
  match tid with
  | none => throw .assertionError
  | some tid =>
    match fh with
    | none => throw .valueError
    | some fh =>
      let goOn ← if fh = fhCancel then noticeOfCancellation cond
                 else if fh = fhAbandon then do abandonTransaction; pure true
                 else pure true
      if goOn then
        -- report_fault: dispatches on the table again
        modify fun s => { s with flts := s.flts ++ [⟨fh, tid, cond, progress⟩] }
      return fh

def triggerNoticeOfCompletionCanceled (cond : Nat) (floc : EntityId) : DM Unit :=
  modP fun p => { p with canceled := true, fin := { p.fin with cond := cond, floc := some floc } }

/-- `_checksum_verify` (dest.py:1038-1058) -/
def markComplete : DM Unit :=
  modP fun p => { p with fin := { p.fin with deliv := dcComplete, cond := ccNoError } }

def checksumVerify : DM Bool := do
  let s ← get
  let p := s.p
  if p.cksType = 15 || p.metadataOnly then
    markComplete
    pure true
  else
    match Fs.calcChecksum s.fs (Checksum.CksType.ofNat p.cksType) p.fileName p.progress 4096 with
    | .error e =>
      if e.isOsError then
        -- `except OSError`: a file which can not be read matches nothing
        let _ ← declareFault ccChecksumFailure
        pure false
      else throw (Err.ofFs e)
    | .ok crc =>
      if crc = p.crc32 then
        markComplete
        pure true
      else
        let _ ← declareFault ccChecksumFailure
        pure false

def prepareEofAckPacket : DM Unit := do
  let p ← getP
  addPacket (mkAck p.conf dtEof p.fin.cond tsActive)

def fileTransferCompleteTransition : DM Unit := do
  match ← transmissionMode with
  | some .unack => modify fun s => { s with step := .TRANSFER_COMPLETION }
  | some .ack =>
    prepareEofAckPacket
    modify fun s => { s with step := .SENDING_EOF_ACK_PDU }
  | none => pure ()

def startCheckLimitHandling (env : Env) : DM Unit := do
  modify fun s => { s with step := .RECV_FILE_DATA_WITH_CHECK_LIMIT_HANDLING }
  let p ← getP
  assertThat p.remoteCfg.isSome
  modP fun p => { p with checkTimer := some ⟨env.now, env.cfg.chkMs⟩, checkCount := 0 }

/-- `_init_vfs_handling` (dest.py:729-743) -/
def initVfsHandling (sourceBaseName : String) : DM Unit := do
  let s ← get
  let name := if Fs.isDir s.fs s.p.fileName then Fs.joinPath s.p.fileName sourceBaseName
              else s.p.fileName
  modP fun p => { p with fileName := name }
  if Fs.exists' s.fs name then
    match Fs.truncateFile s.fs name with
    | .error e => throw (Err.ofFs e)     -- only PermissionError is caught by the Python
    | .ok fs' =>
      modify fun s => { s with fs := fs' }
      modP fun p => { p with fin := { p.fin with fstat := fsRetained } }
  else
    let r := Fs.createFile s.fs name
    if r.1 ≠ Fs.CREATE_SUCCESS then
      -- `raise PermissionError` / `except PermissionError`
      modP fun p => { p with fin := { p.fin with fstat := fsDiscardedRejection } }
      let _ ← declareFault ccFilestoreRejection
    else
      modify fun s => { s with fs := r.2 }
      modP fun p => { p with fin := { p.fin with fstat := fsRetained } }

/-- `_handle_metadata_packet` (dest.py:686-727) -/
def handleMetadataPacket (h : Hdr) (closure : Bool) (cks size : Nat) (sname dname : Option String)
    (msgs : Option (List Msg)) : DM Unit := do
  modP fun p => { p with cksType := cks, closure := closure, metadataMissing := false }
  match dname, sname with
  | some d, some _ => modP fun p => { p with fileName := d }
  | _, _ => modP fun p => { p with metadataOnly := true, fin := { p.fin with deliv := dcComplete } }
  modP fun p => { p with fileSize := some size }
  let p ← getP
  if p.remoteCfg.isNone then throw .noRemoteEntityCfg
  else if !p.metadataOnly then
    modify fun s => { s with step := .RECEIVING_FILE_DATA }
    initVfsHandling (Fs.baseName (sname.getD ""))
    if (← get).state = .idle then pure ()       -- the transaction was abandoned
    else
      let p ← getP
      emitInd (.mdRecv p.tid h.src (if sname.isNone then none else some size) sname dname msgs)
  else
    modify fun s => { s with step := .TRANSFER_COMPLETION }
    let p ← getP
    emitInd (.mdRecv p.tid h.src (if sname.isNone then none else some size) sname dname msgs)

/-- `_common_first_packet_handler` (dest.py:672-684) -/
def commonFirstPacketHandler (env : Env) (h : Hdr) : DM Unit := do
  let s ← get
  if s.state ≠ .idle then pure ()
  else
    let rc := lookupRemote env.cfg.remotes h.src.val
    modP fun p => { p with conf := { h with dir := .toSend }, tid := some ⟨h.src, h.seq⟩, remoteCfg := rc }
    modify fun s => { s with state := .busy }

def startTransaction (env : Env) (h : Hdr) (closure : Bool) (cks size : Nat)
    (sname dname : Option String) (msgs : Option (List Msg)) : DM Unit := do
  let s ← get
  if s.state ≠ .idle then pure ()
  else
    modP fun _ => {}
    commonFirstPacketHandler env h
    handleMetadataPacket h closure cks size sname dname msgs

def commonFirstPacketNotMetadataPduHandler (env : Env) (h : Hdr) : DM Unit := do
  modP fun _ => {}
  commonFirstPacketHandler env h
  modify fun s => { s with step := .WAITING_FOR_METADATA, p := { s.p with metadataMissing := true } }

/-- `_handle_fd_without_previous_metadata` (dest.py:628-664) -/
def handleFdWithoutPreviousMetadata (first : Bool) (off : Nat) (data : List UInt8) : DM Unit := do
  modP fun p => { p with progress := off + data.length }
  if data.length > 0 then
    let start := if first then 0 else off
    modP fun p => { p with trk := Tracker.add p.trk (start, p.progress),
                           lastStart := p.progress, lastEnd := p.progress }
  let p ← getP
  match p.remoteCfg with
  | none => throw .assertionError
  | some rc =>
    if rc.imm then
      let segs := (if first then [(0, 0)] else []) ++ (if data.length > 0 then [(0, p.progress)] else [])
      if segs.length > 0 then
        addPacket (mkNak p.conf 0 p.progress segs)

/-- `_handle_eof_without_previous_metadata` (dest.py:596-612) -/
def handleEofWithoutPreviousMetadata (env : Env) (cond : Nat) (cks : List UInt8) (size : Nat) : DM Unit := do
  modP fun p => { p with progress := size, fileSizeEof := some size, crc32 := cks,
                         metadataMissing := true }
  if size > 0 then
    modP fun p => { p with trk := Tracker.add [] (0, size) }
  if env.cfg.indEofRecv then
    match (← getP).tid with
    | none => throw .assertionError
    | some tid => emitInd (.eofRecv tid)
  if cond ≠ ccNoError then
    -- EOF (cancel): cancel response procedure, the remote entity is the fault location
    match (← getP).remoteCfg with
    | none => throw .assertionError
    | some rc =>
      triggerNoticeOfCompletionCanceled cond rc.entityId
      modP fun p => { p with fin := { p.fin with deliv := dcIncomplete } }
  prepareEofAckPacket
  modify fun s => { s with step := .SENDING_EOF_ACK_PDU }

/-- `_lost_segment_handling` (dest.py:867-892) -/
def lostSegmentHandling (off len : Nat) : DM Unit := do
  let p ← getP
  if off > p.lastEnd then
    modP fun p => { p with trk := Tracker.add p.trk (p.lastEnd, off) }
    match p.remoteCfg with
    | none => throw .assertionError
    | some rc =>
      if rc.imm then addPacket (mkNak p.conf 0 (off + len) [(p.lastEnd, off)])
  if off ≥ p.lastEnd then
    modP fun p => { p with lastStart := off, lastEnd := off + len }
  let p ← getP
  if off + len ≤ p.lastStart then
    match Tracker.remove p.trk off (off + len) with
    | .valueError => pure ()        -- `except ValueError: pass`
    | .ok _ t => modP fun p => { p with trk := t }

/-- `vfs.write_data` including the harness's injected rejections -/
def vfsWriteData (name : String) (data : List UInt8) (off : Nat) : DM (Option FsErr) := do
  let s ← get
  match s.rejects with
  | e :: _ =>
    modify fun s => { s with rejects := s.rejects.tail }
    pure (some e)
  | [] =>
    match Fs.writeData s.fs name data off with
    | .error e => pure (some e)
    | .ok fs' =>
      modify fun s => { s with fs := fs' }
      pure none

/-- `_handle_fd_pdu`, part 1: the File-Segment-Recv indication -/
def fdIndication (env : Env) (off len : Nat) : DM Unit := do
  if env.cfg.indSegRecv then
    emitInd (.segRecv (← getP).tid off len)

/-- `_handle_fd_pdu`, part 2: lost segment detection (acknowledged mode) -/
def fdLostSegments (off len : Nat) : DM Unit := do
  if (← transmissionMode) = some .ack then
    lostSegmentHandling off len

/-- `offset + len(file_data) > file_size_eof` when the EOF PDU was already received -/
def sizeErrOf (fse : Option Nat) (endOff : Nat) : Bool :=
  match fse with
  | some f => decide (endOff > f)
  | none => false

/-- `_handle_fd_pdu`, part 4: everything after the `write_data` call (`r` = the exception it raised) -/
def fdAfterWrite (off : Nat) (data : List UInt8) (r : Option FsErr) : DM Unit := do
  match r with
  | some e =>
    if e = .fileNotFound || e = .permission then
      if (← getP).fin.fstat ≠ fsRetained then
        modP fun p => { p with fin := { p.fin with fstat := fsDiscardedRejection } }
        let _ ← declareFault ccFilestoreRejection
    else throw (Err.ofFs e)
  | none =>
    modP fun p => { p with fin := { p.fin with fstat := fsRetained } }
    let p ← getP
    if sizeErrOf p.fileSizeEof (off + data.length) then
      let fh ← declareFault ccFileSizeError
      if fh ≠ fhIgnore then pure ()
      else modP fun p => { p with progress := max (off + data.length) p.progress }
    else modP fun p => { p with progress := max (off + data.length) p.progress }

/-- `_handle_fd_pdu`, part 3: `self.user.vfs.write_data(self._params.fp.file_name, data, offset)` -/
def fdWrite (off : Nat) (data : List UInt8) : DM (Option FsErr) := do
  let p ← getP
  vfsWriteData p.fileName data off

/-- `_handle_fd_pdu` (dest.py:816-855) -/
def handleFdPdu (env : Env) (off : Nat) (data : List UInt8) : DM Unit := do
  fdIndication env off data.length
  fdLostSegments off data.length
  let r ← fdWrite off data
  fdAfterWrite off data r

/-- second half of `_handle_no_error_eof`: the checksum verification of unacknowledged mode -/
def noErrorEofVerify (env : Env) : DM Bool := do
  if (← transmissionMode) = some .unack then
    let ok ← checksumVerify
    if !ok then
      -- `get_fault_handler(FILE_CHECKSUM_FAILURE) != IGNORE_ERROR` (the verification declared it)
      if (← get).faults.lookup ccChecksumFailure ≠ some fhIgnore then pure false
      else
        startCheckLimitHandling env
        pure false
    else pure true
  else pure true

/-- `_handle_no_error_eof` (dest.py:986-1016) -/
def handleNoErrorEof (env : Env) : DM Bool := do
  let p ← getP
  let fse := p.fileSizeEof.getD 0
  if p.progress > fse then
    let fh ← declareFault ccFileSizeError
    if fh ≠ fhIgnore then pure false
    else noErrorEofVerify env
  else
    if p.progress < fse && (← transmissionMode) = some .ack then
      modP fun p => { p with trk := Tracker.add p.trk (p.progress, fse) }
    noErrorEofVerify env

/-- `_handle_eof_pdu` (dest.py:962-984) -/
def handleEofPdu (env : Env) (cond : Nat) (cks : List UInt8) (size : Nat) : DM Unit := do
  modP fun p => { p with crc32 := cks, fileSizeEof := some size }
  if env.cfg.indEofRecv then
    match (← getP).tid with
    | none => throw .assertionError
    | some tid => emitInd (.eofRecv tid)
  if cond = ccNoError then
    let regular ← handleNoErrorEof env
    if !regular then pure ()
    else fileTransferCompleteTransition
  else
    match (← getP).remoteCfg with
    | none => throw .attributeError
    | some rc =>
      triggerNoticeOfCompletionCanceled cond rc.entityId
      modP fun p => { p with progress := size, fin := { p.fin with deliv := dcIncomplete } }
      fileTransferCompleteTransition

def handleFdOrEofPdu (env : Env) (pdu : Pdu) : DM Unit :=
  match pdu with
  | .fd _ off data => handleFdPdu env off data
  | .eof _ cond cks size _ => handleEofPdu env cond cks size
  | _ => pure ()

def resetNakActivityParameters (env : Env) : DM Unit := do
  match (← getP).procTimer with
  | none => throw .assertionError
  | some t => modP fun p => { p with nakCounter := 0, procTimer := some (t.reset env.now) }

def handleWaitingForMissingMetadata (env : Env) (pkt : Option Pdu) : DM Unit := do
  match pkt with
  | none => pure ()
  | some (.fd _ off data) =>
    if (← getP).fileSizeEof.isSome then pure ()
    else handleFdWithoutPreviousMetadata true off data
  | some (.md h closure cks size sname dname msgs) =>
    handleMetadataPacket h closure cks size sname dname msgs
    if (← getP).deferredActive then
      resetNakActivityParameters env
      if (← get).step = .RECEIVING_FILE_DATA then
        modify fun s => { s with step := .WAITING_FOR_MISSING_DATA }
  | some (.eof _ cond cks size _) =>
    handleEofWithoutPreviousMetadata env cond cks size
    if (← getP).deferredActive then resetNakActivityParameters env
  | some _ => pure ()

/-- the request-splitting loop of `_deferred_lost_segment_handling`: returns the NAK PDUs to queue
and the remaining requests -/
def splitReqs (conf : Hdr) (eos maxSegs : Nat) :
    List (Nat × Nat) → List (Nat × Nat) → List Pdu → List (Nat × Nat) × List Pdu
  | [], cur, out => (cur, out)
  | r :: rest, cur, out =>
    if cur.length ≥ maxSegs then splitReqs conf eos maxSegs rest [r] (out ++ [mkNak conf 0 eos cur])
    else splitReqs conf eos maxSegs rest (cur ++ [r]) out

def addPackets (pdus : List Pdu) : DM Unit :=
  modify fun s => { s with queue := s.queue ++ pdus, numReady := s.numReady + pdus.length }

/-- the NAK PDUs of one (re-)issue of the deferred procedure -/
def nakSequence (conf : Hdr) (fse maxSegs : Nat) (metadataMissing : Bool) (trk : Tracker.T) : List Pdu :=
  let init := if metadataMissing then [(0, 0)] else []
  let r := splitReqs conf fse maxSegs trk init []
  r.2 ++ (if r.1.length > 0 then [mkNak conf 0 fse r.1] else [])

/-- `_deferred_lost_segment_handling` (dest.py:894-960) -/
def deferredLostSegmentHandling (env : Env) : DM Unit := do
  let p ← getP
  if !p.deferredActive then pure ()
  else if p.canceled then pure ()       -- cancelled by the handling of the PDU just received
  else
    match p.remoteCfg, p.fileSizeEof with
    | none, _ => throw .assertionError
    | _, none => throw .assertionError
    | some rc, some fse =>
      if p.trk.length = 0 && !p.metadataMissing then
        let _ ← checksumVerify
        if (← get).state = .idle then pure ()       -- the transaction was abandoned
        else modify fun s => { s with step := .TRANSFER_COMPLETION, p := { s.p with deferredActive := false } }
      else
        match p.procTimer with
        | none =>
          -- first issuance: the timer is created, the activity counter is not incremented
          modP fun p => { p with procTimer := some ⟨env.now, rc.nakMs⟩ }
          match maxSegReqs rc.maxPkt p.conf with
          | none => throw .valueError
          | some maxSegs => addPackets (nakSequence p.conf fse maxSegs p.metadataMissing p.trk)
        | some t =>
          if t.busy env.now then pure ()
          else if p.nakCounter + 1 = rc.nakLim then
            let _ ← declareFault ccNakLimit
          else
            match maxSegReqs rc.maxPkt p.conf with
            | none => throw .valueError
            | some maxSegs =>
              addPackets (nakSequence p.conf fse maxSegs p.metadataMissing p.trk)
              modP fun p => { p with nakCounter := p.nakCounter + 1,
                                     procTimer := p.procTimer.map (·.reset env.now) }

/-- `_start_deferred_lost_segment_handling` (dest.py:1018-1027) -/
def startDeferredLostSegmentHandling (env : Env) : DM Unit := do
  let p ← getP
  modify fun s => { s with step := if p.metadataMissing then .WAITING_FOR_METADATA
                                   else .WAITING_FOR_MISSING_DATA }
  match p.fileSizeEof with
  | none => throw .typeError
  | some fse =>
    modP fun p => { p with deferredActive := true, trk := Tracker.coalesce p.trk,
                           lastStart := fse, lastEnd := fse }
    deferredLostSegmentHandling env

/-- `_fsm_advancement_after_packets_were_sent` (dest.py:557-570) -/
def fsmAdvancementAfterPacketsWereSent (env : Env) : DM Unit := do
  let s ← get
  if s.queue.length > 0 then throw .unretrievedPdus
  else if s.step = .SENDING_EOF_ACK_PDU then
    if !s.p.canceled && (s.p.trk.length > 0 || s.p.metadataMissing) then
      startDeferredLostSegmentHandling env
    else if !s.p.canceled then
      let _ ← checksumVerify
      if (← get).state = .idle then pure ()         -- the transaction was abandoned
      else modify fun s => { s with step := .TRANSFER_COMPLETION }
    else modify fun s => { s with step := .TRANSFER_COMPLETION }

/-- `_check_limit_handling` (dest.py:1128-1139) -/
def checkLimitHandling (env : Env) : DM Unit := do
  let p ← getP
  match p.checkTimer, p.remoteCfg with
  | none, _ => throw .assertionError
  | _, none => throw .assertionError
  | some t, some rc =>
    if t.timedOut env.now then
      if ← checksumVerify then
        fileTransferCompleteTransition
      else if (← get).state = .idle then pure ()     -- the transaction was abandoned
      else
        let p ← getP
        if p.checkCount + 1 ≥ rc.chkLim then
          let _ ← declareFault ccCheckLimit
        else
          modP fun p => { p with checkCount := p.checkCount + 1,
                                 checkTimer := p.checkTimer.map (·.reset env.now) }

/-- `_notice_of_completion` (dest.py:1084-1102) -/
def noticeOfCompletion (env : Env) : DM Unit := do
  let s ← get
  if s.p.canceled then
    match s.p.remoteCfg with
    | none => throw .assertionError
    | some rc =>
      if rc.disp && s.p.fin.deliv = dcIncomplete then
        modify fun s => { s with fs := (Fs.deleteFile s.fs s.p.fileName).2,
                                 p := { s.p with fin := { s.p.fin with fstat := fsDiscardedDeliberately } } }
  if env.cfg.indFinished then
    let p ← getP
    emitInd (.finished p.tid p.fin)

/-- `_handle_transfer_completion` (dest.py:857-865) -/
def handleTransferCompletion (env : Env) : DM Unit := do
  noticeOfCompletion env
  let m ← transmissionMode
  if (m = some .unack && (← getP).closure) || m = some .ack then
    modify fun s => { s with step := .SENDING_FINISHED_PDU }
  else
    resetInternal false

/-- `_prepare_finished_pdu` (dest.py:1104-1115) -/
def prepareFinishedPdu : DM Unit := do
  let s ← get
  if s.numReady > 0 then throw .unretrievedPdus
  else addPacket (mkFin s.p.conf s.p.fin)

def startPositiveAckProcedure (env : Env) : DM Unit := do
  match (← getP).remoteCfg with
  | none => throw .assertionError
  | some rc => modP fun p => { p with ackTimer := some ⟨env.now, rc.ackMs⟩, ackCounter := 0 }

/-- `_handle_finished_pdu_sent` (dest.py:618-626) -/
def handleFinishedPduSent (env : Env) : DM Unit := do
  let s ← get
  if s.state = .busy && (← transmissionMode) = some .ack then
    startPositiveAckProcedure env
    modify fun s => { s with step := .WAITING_FOR_FINISHED_ACK }
  else
    resetInternal false

/-- the re-send branch of `_handle_positive_ack_procedures` -/
def resendFinished (env : Env) : DM Unit := do
  match (← getP).ackTimer with
  | none => throw .attributeError          -- `ack_timer.reset()` on a reset parameter block
  | some t =>
    modP fun p => { p with ackTimer := some (t.reset env.now), ackCounter := p.ackCounter + 1 }
    prepareFinishedPdu

/-- `_handle_positive_ack_procedures` (dest.py).  `recurse` is the nested `self.state_machine()`
call. -/
def handlePositiveAckProcedures (env : Env) (recurse : DM Unit) : DM Unit := do
  let p ← getP
  match p.ackTimer, p.remoteCfg with
  | none, _ => throw .assertionError
  | _, none => throw .assertionError
  | some t, some rc =>
    if t.timedOut env.now then
      if p.ackCounter + 1 ≥ rc.ackLim then
        let fh ← declareFault ccPositiveAckLimit
        if (← get).state = .idle then pure ()
        else if fh = fhCancel then recurse
        else resendFinished env
      else resendFinished env

/-- `_handle_waiting_for_finished_ack` (dest.py:771-791) -/
def handleWaitingForFinishedAck (env : Env) (pkt : Option Pdu) (recurse : DM Unit) : DM Unit :=
  match pkt with
  | some (.eof ..) => prepareEofAckPacket        -- the ACK of the EOF was lost: acknowledge again
  | some (.ack ..) => resetInternal false
  | _ => handlePositiveAckProcedures env recurse

/-! `__non_idle_fsm` (dest.py:526-555) is a sequence of independent `if`s; written as a chain of
tail functions (`fsmFromX` = the rest of the method from the test of step X on). -/

def fsmFromWaitingForFinishedAck (env : Env) (pkt : Option Pdu) (recurse : DM Unit) : DM Unit := do
  if (← get).step = .WAITING_FOR_FINISHED_ACK then handleWaitingForFinishedAck env pkt recurse

def fsmFromSendingFinishedPdu (env : Env) (pkt : Option Pdu) (recurse : DM Unit) : DM Unit := do
  if (← get).step = .SENDING_FINISHED_PDU then
    if (← get).numReady > 0 then pure ()
    else
      prepareFinishedPdu
      handleFinishedPduSent env
      fsmFromWaitingForFinishedAck env pkt recurse
  else fsmFromWaitingForFinishedAck env pkt recurse

def fsmFromTransferCompletion (env : Env) (pkt : Option Pdu) (recurse : DM Unit) : DM Unit := do
  if (← get).step = .TRANSFER_COMPLETION then handleTransferCompletion env
  fsmFromSendingFinishedPdu env pkt recurse

def fsmFromWaitingForMissingData (env : Env) (pkt : Option Pdu) (recurse : DM Unit) : DM Unit := do
  if (← get).step = .WAITING_FOR_MISSING_DATA then
    match pkt with
    | some (.fd _ off data) =>
      handleFdPdu env off data
      if (← getP).deferredActive then resetNakActivityParameters env
    | some (.eof ..) => prepareEofAckPacket      -- the ACK of the EOF was lost: acknowledge again
    | _ => pure ()
    deferredLostSegmentHandling env
  fsmFromTransferCompletion env pkt recurse

def fsmFromCheckLimit (env : Env) (pkt : Option Pdu) (recurse : DM Unit) : DM Unit := do
  if (← get).step = .RECV_FILE_DATA_WITH_CHECK_LIMIT_HANDLING then checkLimitHandling env
  fsmFromWaitingForMissingData env pkt recurse

def fsmFromWaitingForMetadata (env : Env) (pkt : Option Pdu) (recurse : DM Unit) : DM Unit := do
  if (← get).step = .WAITING_FOR_METADATA then
    handleWaitingForMissingMetadata env pkt
    deferredLostSegmentHandling env
  fsmFromCheckLimit env pkt recurse

def fsmFromReceiving (env : Env) (pkt : Option Pdu) (recurse : DM Unit) : DM Unit := do
  let st := (← get).step
  if (st = .RECEIVING_FILE_DATA || st = .RECV_FILE_DATA_WITH_CHECK_LIMIT_HANDLING) then
    match pkt with
    | some pdu => handleFdOrEofPdu env pdu
    | none => pure ()
  fsmFromWaitingForMetadata env pkt recurse

/-- `__non_idle_fsm` (dest.py:526-555) -/
def nonIdleFsm (env : Env) (pkt : Option Pdu) (recurse : DM Unit) : DM Unit := do
  fsmAdvancementAfterPacketsWereSent env
  fsmFromReceiving env pkt recurse

/-- `_handle_first_packet_not_metadata_pdu` (dest.py:580-590) -/
def handleFirstPacketNotMetadataPdu (pdu : Pdu) : DM Unit := do
  if pdu.hdr.mode = .unack then throw .pduIgnoredForDest
  match pdu with
  | .fd .. => pure ()
  | .eof .. => pure ()
  | _ => throw .pduIgnoredForDest

/-- `_check_inserted_packet` (dest.py:433-455) -/
def checkInsertedPacket (env : Env) (pdu : Pdu) : DM Unit := do
  let h := pdu.hdr
  if h.dir ≠ .toRecv then throw .invalidPduDirection
  if h.dst.val ≠ env.cfg.entityId.val then throw .invalidDestinationId
  if (lookupRemote env.cfg.remotes h.src.val).isNone then throw .noRemoteEntityCfg
  if Route.getPacketDestination pdu.kind = .source then throw .invalidPduForDest
  let s ← get
  let isMd := match pdu with | .md .. => true | _ => false
  if s.state = .idle && !isMd then handleFirstPacketNotMetadataPdu pdu
  let isAckOrPrompt := match pdu with | .ack .. => true | .pr .. => true | _ => false
  if isAckOrPrompt && s.state = .busy && (← transmissionMode) = some .unack then
    throw .pduIgnoredForDest

/-- `__idle_fsm` (dest.py:506-524) -/
def idleFsm (env : Env) (pkt : Option Pdu) : DM Unit :=
  match pkt with
  | none => pure ()
  | some (.fd h off data) => do
    commonFirstPacketNotMetadataPduHandler env h
    handleFdWithoutPreviousMetadata true off data
  | some (.eof h cond cks size _) => do
    commonFirstPacketNotMetadataPduHandler env h
    handleEofWithoutPreviousMetadata env cond cks size
  | some (.md h closure cks size sname dname msgs) =>
    startTransaction env h closure cks size sname dname msgs
  | some _ => throw .valueError

/-- body of `state_machine` with the nested call given as a parameter -/
def stateMachineWith (env : Env) (pkt : Option Pdu) (recurse : DM Unit) : DM Unit := do
  match pkt with
  | some pdu => checkInsertedPacket env pdu
  | none => pure ()
  if (← get).state = .idle then
    idleFsm env pkt
    if (← get).numReady > 0 then pure ()
    else if (← get).state = .busy then nonIdleFsm env pkt recurse
  else nonIdleFsm env pkt recurse

/-- `state_machine(packet)` (dest.py:397-431).  The Python recursion in the positive-ACK procedure
is unrolled twice; a third nested call (only possible with a zero timer interval) is reported as
`recursionError`. -/
def stateMachine (env : Env) (pkt : Option Pdu) : DM Unit :=
  stateMachineWith env pkt
    (stateMachineWith env none (stateMachineWith env none (throw .recursionError)))

/-- `get_next_packet` (dest.py:457-462) -/
def getNextPacket : DM (Option Pdu) := do
  let s ← get
  match s.queue with
  | [] => pure none
  | pdu :: _ =>
    modify fun s => { s with queue := s.queue.tail, numReady := s.numReady - 1 }
    pure (some pdu)

/-- `cancel_request` (dest.py:464-491) -/
def cancelRequest (env : Env) (tid : Tid) : DM Bool := do
  let s ← get
  if s.state = .idle then pure false
  else if s.numReady > 0 then throw .unretrievedPdus
  else
    match s.p.tid with
    | some t =>
      if t.src.val = tid.src.val && t.seq.val = tid.seq.val then
        triggerNoticeOfCompletionCanceled ccCancelRequest env.cfg.entityId
        modify fun s => { s with step := .TRANSFER_COMPLETION }
        pure true
      else pure false
    | none => pure false

/-- `reset()` -/
def reset : DM Unit := resetInternal false

end Cfdp.Dest
