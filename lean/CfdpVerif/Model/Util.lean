/-! Text helpers of the driver (hex, key=value). No proofs depend on these. -/
namespace Cfdp.Util

def hexDigit (n : Nat) : Char :=
  if n < 10 then Char.ofNat (48 + n) else Char.ofNat (87 + n)

def hexOfBytes (b : List UInt8) : String :=
  String.ofList (b.flatMap fun x => [hexDigit (x.toNat / 16), hexDigit (x.toNat % 16)])

def hexOrDash (b : List UInt8) : String := if b.isEmpty then "-" else hexOfBytes b

def hexVal (c : Char) : Option Nat :=
  if '0' ≤ c ∧ c ≤ '9' then some (c.toNat - 48)
  else if 'a' ≤ c ∧ c ≤ 'f' then some (c.toNat - 87)
  else if 'A' ≤ c ∧ c ≤ 'F' then some (c.toNat - 55)
  else none

def bytesOfHexChars : List Char → Option (List UInt8)
  | [] => some []
  | [_] => none
  | a :: b :: t => do
    let x ← hexVal a
    let y ← hexVal b
    let r ← bytesOfHexChars t
    pure (UInt8.ofNat (x * 16 + y) :: r)

def bytesOfHex (s : String) : Option (List UInt8) :=
  if s == "-" then some [] else bytesOfHexChars s.toList

def words (line : String) : List String :=
  (line.trimAscii.toString.splitOn " ").filter (· ≠ "")

/-- value of `key=` among tokens -/
def kvGet (toks : List String) (key : String) : Option String :=
  match toks.find? (fun t => t.startsWith (key ++ "=")) with
  | some t => some ((t.drop (key.length + 1)).toString)
  | none => none

def kvNat (toks : List String) (key : String) : Option Nat :=
  (kvGet toks key).bind String.toNat?

end Cfdp.Util
