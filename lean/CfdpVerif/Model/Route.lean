/-
Model of `cfdppy.handler.common.get_packet_destination` (common.py:19-58) and the vocabulary of
the regenerated finite tables (`Gen/Tables.lean`, written by `harness/tables.py`).
-/
namespace Cfdp.Route

inductive Kind where
  | md | fd | eof | fin | ackeof | ackfin | nak | ka | pr
  deriving Repr, DecidableEq

inductive Dir where
  | toRecv | toSend
  deriving Repr, DecidableEq

inductive Mode where
  | ack | unack
  deriving Repr, DecidableEq

/-- the finite PDU configuration space of C20 -/
structure Key where
  kind : Kind
  dir : Dir
  mode : Mode
  crc : Bool
  large : Bool
  idw : Nat
  deriving Repr, DecidableEq

inductive PacketDest where
  | source | dest
  deriving Repr, DecidableEq

/-- `get_packet_destination(packet)`: decided by PDU type, directive type and — for ACK — the
acknowledged directive; the direction flag and all other header fields play no role. -/
def getPacketDestination : Kind → PacketDest
  | .fd => .dest
  | .md => .dest
  | .eof => .dest
  | .pr => .dest
  | .fin => .source
  | .nak => .source
  | .ka => .source
  | .ackeof => .source
  | .ackfin => .dest

/-- outcome classes of a `state_machine(pdu)` call as recorded by the translator -/
inductive Verdict where
  | ok
  | InvalidPduDirection | InvalidPduForSourceHandler | InvalidPduForDestHandler
  | PduIgnoredForSource | PduIgnoredForDest | InvalidDestinationId | InvalidSourceId
  | InvalidTransactionSeqNum | NoRemoteEntityCfgFound | InvalidNakPdu | UnretrievedPdusToBeSent
  | SourceFileDoesNotExist | ChecksumNotImplemented | FsmNotCalledAfterPacketInsertion
  | internal     -- any exception class that is not one of the library's own
  deriving Repr, DecidableEq

def Verdict.isProtocolException : Verdict → Bool
  | .ok => false
  | .internal => false
  | _ => true

inductive SrcStep where
  | IDLE | PUT | SENDING_METADATA | SENDING_FILE_DATA | RETRANSMITTING | WAITING_FOR_EOF_ACK
  | WAITING_FOR_FINISHED | SENDING_ACK_OF_FINISHED
  deriving Repr, DecidableEq

inductive DstStep where
  | IDLE | RECEIVING_FILE_DATA | RECV_FILE_DATA_WITH_CHECK_LIMIT_HANDLING | SENDING_EOF_ACK_PDU
  | WAITING_FOR_METADATA | WAITING_FOR_MISSING_DATA | TRANSFER_COMPLETION | WAITING_FOR_FINISHED_ACK
  deriving Repr, DecidableEq

def allKinds : List Kind := [.md, .fd, .eof, .fin, .ackeof, .ackfin, .nak, .ka, .pr]
def allDirs : List Dir := [.toRecv, .toSend]
def allModes : List Mode := [.ack, .unack]
def allWidths : List Nat := [1, 2, 4, 8]

/-- the complete key space, in the translator's enumeration order -/
def allKeys : List Key :=
  allKinds.flatMap fun k => allDirs.flatMap fun d => allModes.flatMap fun m =>
    [false, true].flatMap fun c => [false, true].flatMap fun l => allWidths.map fun w =>
      ⟨k, d, m, c, l, w⟩

end Cfdp.Route
