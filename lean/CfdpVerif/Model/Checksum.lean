/-
Model of the checksum routines: `NativeFilestore.calculate_checksum` / `verify_checksum`
(filestore.py:166-177, 333-375) and `calc_modular_checksum` (crc.py).

A file is its content `List UInt8`.  `read data off n` is `file.seek(off); file.read(n)`
(short at the end of the file).  The CRC of `crcmod` (`PredefinedCrc("crc32")`, `"crc32c"`) is
modelled as the standard bitwise reflected CRC with init/xorout `0xFFFFFFFF`; that the table
driven `crcmod` computes the same function is validated by the correspondence check, not proved.
-/
namespace Cfdp.Checksum

abbrev Bytes := List UInt8

inductive CksType where
  | modular | crc32Prox1 | crc32c | crc32 | null | other (n : Nat)
  deriving Repr, DecidableEq

def CksType.ofNat : Nat → CksType
  | 0 => .modular | 1 => .crc32Prox1 | 2 => .crc32c | 3 => .crc32 | 15 => .null | n => .other n

def CksType.toNat : CksType → Nat
  | .modular => 0 | .crc32Prox1 => 1 | .crc32c => 2 | .crc32 => 3 | .null => 15 | .other n => n

inductive Err where
  | valueError | checksumNotImplemented
  deriving Repr, DecidableEq

/-- reflected polynomials -/
def polyCrc32 : UInt32 := 0xEDB88320
def polyCrc32c : UInt32 := 0x82F63B78

def bitStep (poly : UInt32) (c : UInt32) : UInt32 :=
  if c &&& 1 = 1 then (c >>> 1) ^^^ poly else c >>> 1

def byteStep (poly : UInt32) (c : UInt32) (b : UInt8) : UInt32 :=
  let c := c ^^^ b.toUInt32
  bitStep poly (bitStep poly (bitStep poly (bitStep poly
    (bitStep poly (bitStep poly (bitStep poly (bitStep poly c)))))))

/-- `crc_obj.update(data)` on the raw register -/
def update (poly : UInt32) (c : UInt32) (data : Bytes) : UInt32 := data.foldl (byteStep poly) c

def be32 (x : UInt32) : Bytes :=
  [(x >>> 24).toUInt8, (x >>> 16).toUInt8, (x >>> 8).toUInt8, x.toUInt8]

/-- `crc_obj.digest()` after feeding `data` to a fresh object: the CRC of `data` -/
def crcOf (poly : UInt32) (data : Bytes) : Bytes := be32 (update poly 0xFFFFFFFF data ^^^ 0xFFFFFFFF)

/-- `bytes_io.seek(off); bytes_io.read(n)` -/
def read (data : Bytes) (off n : Nat) : Bytes := (data.drop off).take n

/-- the `while current_offset < size_to_verify` loop of `calculate_checksum`; `fuel` bounds the
number of iterations (`size` suffices when `seg ≥ 1`, see `Lemmas/Checksum.lean`). -/
def chunkLoop (poly : UInt32) (data : Bytes) (size seg : Nat) : Nat → Nat → UInt32 → UInt32
  | 0, _, c => c
  | fuel + 1, cur, c =>
    if cur < size then
      let readLen := min seg (size - cur)
      let c' := if readLen > 0 then update poly c (read data cur readLen) else c
      chunkLoop poly data size seg fuel (cur + readLen) c'
    else c

def crcChunked (poly : UInt32) (data : Bytes) (size seg : Nat) : Bytes :=
  be32 (chunkLoop poly data size seg size 0 0xFFFFFFFF ^^^ 0xFFFFFFFF)

/-- `int.from_bytes(chunk.ljust(4, b"\0"), "big")` for a chunk of at most 4 bytes -/
def wordBE (chunk : Bytes) : Nat :=
  (chunk.getD 0 0).toNat * 16777216 + (chunk.getD 1 0).toNat * 65536 +
  (chunk.getD 2 0).toNat * 256 + (chunk.getD 3 0).toNat

/-- the read loop of `calc_modular_checksum(file, size_to_verify)`: `rest` is the unread part of
the file, `remaining` the bytes still to cover. -/
def modLoop : Nat → Bytes → Nat → Nat → Nat
  | 0, _, _, acc => acc
  | fuel + 1, rest, remaining, acc =>
    let chunk := rest.take (min 4 remaining)
    if chunk.isEmpty then acc
    else modLoop fuel (rest.drop chunk.length) (remaining - chunk.length) (acc + wordBE chunk)

def natBE32 (n : Nat) : Bytes :=
  [UInt8.ofNat (n / 16777216 % 256), UInt8.ofNat (n / 65536 % 256), UInt8.ofNat (n / 256 % 256),
   UInt8.ofNat (n % 256)]

def modular (data : Bytes) (size : Nat) : Bytes :=
  natBE32 (modLoop (data.length + 1) data size 0 % 4294967296)

/-- `NativeFilestore.calculate_checksum(type, file, size_to_verify, segment_len)` for an existing
file with content `data` -/
def calcChecksum (t : CksType) (data : Bytes) (size seg : Nat) : Except Err Bytes :=
  match t with
  | .null => .ok [0, 0, 0, 0]
  | .modular => .ok (modular data size)
  | .crc32 => if seg = 0 then .error .valueError else .ok (crcChunked polyCrc32 data size seg)
  | .crc32c => if seg = 0 then .error .valueError else .ok (crcChunked polyCrc32c data size seg)
  | _ => if seg = 0 then .error .valueError else .error .checksumNotImplemented

/-- `verify_checksum(checksum, type, file, size_to_verify, segment_len)` -/
def verify (cks : Bytes) (t : CksType) (data : Bytes) (size seg : Nat) : Except Err Bool :=
  match calcChecksum t data size seg with
  | .ok r => .ok (r == cks)
  | .error e => .error e

end Cfdp.Checksum
