/-
Model of `cfdppy.handler.dest.LostSegmentTracker` (dest.py:146-217).

The Python object is a `dict` start -> end which is re-sorted by key after every mutation
(`dict(sorted(items))`), so its observable value is a finite map listed in ascending key order.
`T` is that listing.  Every operation below is the map operation the Python performs, in the
order it performs it; `remove` returns `valueError` exactly where the Python raises (before any
mutation was made).
-/
namespace Cfdp.Tracker

abbrev Seg := Nat × Nat
abbrev T := List Seg

/-- `d.update({k: v}); d = dict(sorted(d.items()))` on a key-sorted listing. -/
def add : T → Seg → T
  | [], x => [x]
  | y :: t, x =>
    if x.1 < y.1 then x :: y :: t
    else if x.1 = y.1 then x :: t
    else y :: add t x

/-- `d.pop(k)` (keys are unique). -/
def erase : T → Nat → T
  | [], _ => []
  | y :: t, k => if y.1 = k then t else y :: erase t k

/-- `d.get(k)`. -/
def lookup : T → Nat → Option Nat
  | [], _ => none
  | y :: t, k => if y.1 = k then some y.2 else lookup t k

/-- first item with `seg_start < a < seg_end` (the `for … break` loop of `remove_lost_segment`). -/
def findContaining : T → Nat → Option Seg
  | [], _ => none
  | y :: t, a => if y.1 < a ∧ a < y.2 then some y else findContaining t a

inductive RemoveRes where
  | ok (changed : Bool) (t : T)
  | valueError
  deriving Repr, DecidableEq

/-- `remove_lost_segment((a, b))`. -/
def remove (t : T) (a b : Nat) : RemoveRes :=
  if a = b then .ok false t                    -- `segment_to_remove[1] - segment_to_remove[0] == 0`
  else
    match lookup t a with
    | some e =>
      if b > e then .valueError
      else if b = e then .ok true (erase t a)
      else .ok true (add (erase t a) (b, e))
    | none =>
      match findContaining t a with
      | none => .ok false t
      | some se =>
        if b > se.2 then .valueError
        else if b = se.2 then .ok true (add t (se.1, a))
        else .ok true (add (add t (se.1, a)) (b, se.2))

/-- the merge loop of `coalesce_lost_segments`, `(cs, ce)` being `current_start, current_end`. -/
def coalesceGo (cs ce : Nat) : T → T
  | [] => [(cs, ce)]
  | y :: t => if y.1 = ce then coalesceGo cs y.2 t else (cs, ce) :: coalesceGo y.1 y.2 t

/-- `coalesce_lost_segments()`.  The Python loop also visits the first item (appending it a second
time to `merged_segments`); `dict(merged_segments)` then keeps one entry for that key, which is the
value computed here. -/
def coalesce : T → T
  | [] => []
  | x :: t => coalesceGo x.1 x.2 t

def reset (_ : T) : T := []

def numLostSegments (t : T) : Nat := t.length

end Cfdp.Tracker
