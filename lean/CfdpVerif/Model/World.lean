import CfdpVerif.Model.Dest
import CfdpVerif.Model.Source
/-
A Python process: any number of source and destination handlers, each with its own local
configuration, fault table, filestore; sequence number providers that handlers may share; one
virtual clock.  `exec` is one op of the line protocol.
-/
namespace Cfdp.World

open Cfdp

inductive HKind where
  | src | dst
  deriving Repr, DecidableEq

structure Handler where
  name : String
  kind : HKind
  cfg : LocalCfg
  prov : String := ""
  src : Source.SrcSt := {}
  dst : Dest.DestSt := {}
  deriving Repr

structure World where
  now : Nat := 0
  provs : List (String × Source.SeqProv) := []
  handlers : List Handler := []
  deriving Repr

inductive Op where
  | put (h : String) (req : Source.PutReq)
  | sm (h : String) (pdu : Option Pdu)
  | get (h : String)
  | cancel (h : String) (tid : Tid)
  | reset (h : String)
  | tick (ms : Nat)
  | setHandler (h : String) (cond code : Nat)
  | reject (h : String) (n : Nat) (e : FsErr)
  deriving Repr

/-- the handler an op is addressed to (`tick` addresses the clock) -/
def Op.handler : Op → Option String
  | .put h _ | .sm h _ | .get h | .cancel h _ | .reset h | .setHandler h _ _ | .reject h _ _ => some h
  | .tick _ => none

inductive Ret where
  | none | bool (b : Bool) | pdu (p : Option Pdu) | now (n : Nat)
  deriving Repr

structure Result where
  exc : Option Err := none
  ret : Ret := .none
  deriving Repr

def findHandler (w : World) (n : String) : Option Handler := w.handlers.find? (·.name == n)

def setHandlerSt (w : World) (h : Handler) : World :=
  { w with handlers := w.handlers.map fun x => if x.name == h.name then h else x }

def getProv (w : World) (n : String) : Source.SeqProv := (w.provs.lookup n).getD {}

def setProv (w : World) (n : String) (p : Source.SeqProv) : World :=
  { w with provs := w.provs.map fun e => if e.1 == n then (n, p) else e }

/-- run a source-handler action with the shared provider copied in and out -/
def runSrc {α : Type} (w : World) (h : Handler) (act : Source.Env → Source.SM α) :
    World × (Except Err α) :=
  let s0 := { h.src with prov := getProv w h.prov }
  match act ⟨h.cfg, w.now⟩ s0 with
  | .ok a s => (setProv (setHandlerSt w { h with src := s }) h.prov s.prov, .ok a)
  | .error e s => (setProv (setHandlerSt w { h with src := s }) h.prov s.prov, .error e)

def runDst {α : Type} (w : World) (h : Handler) (act : Dest.Env → Dest.DM α) :
    World × (Except Err α) :=
  match act ⟨h.cfg, w.now⟩ h.dst with
  | .ok a s => (setHandlerSt w { h with dst := s }, .ok a)
  | .error e s => (setHandlerSt w { h with dst := s }, .error e)

def resOf {α : Type} (r : Except Err α) (f : α → Ret) : Result :=
  match r with
  | .ok a => { ret := f a }
  | .error e => { exc := some e }

/-- one op of the line protocol; `none` = unknown handler / op not applicable -/
def exec (w : World) (op : Op) : Option (World × Result) :=
  match op with
  | .tick ms => some ({ w with now := w.now + ms }, { ret := .now (w.now + ms) })
  | .put n req => do
    let h ← findHandler w n
    match h.kind with
    | .src => let (w', r) := runSrc w h fun env => Source.putRequest env req
              some (w', resOf r .bool)
    | .dst => none
  | .sm n pdu => do
    let h ← findHandler w n
    match h.kind with
    | .src => let (w', r) := runSrc w h fun env => Source.stateMachine env pdu
              some (w', resOf r fun _ => .none)
    | .dst => let (w', r) := runDst w h fun env => Dest.stateMachine env pdu
              some (w', resOf r fun _ => .none)
  | .get n => do
    let h ← findHandler w n
    match h.kind with
    | .src => let (w', r) := runSrc w h fun _ => Source.getNextPacket
              some (w', resOf r .pdu)
    | .dst => let (w', r) := runDst w h fun _ => Dest.getNextPacket
              some (w', resOf r .pdu)
  | .cancel n tid => do
    let h ← findHandler w n
    match h.kind with
    | .src => let (w', r) := runSrc w h fun env => Source.cancelRequest env tid
              some (w', resOf r .bool)
    | .dst => let (w', r) := runDst w h fun env => Dest.cancelRequest env tid
              some (w', resOf r .bool)
  | .reset n => do
    let h ← findHandler w n
    match h.kind with
    | .src => let (w', r) := runSrc w h fun _ => Source.reset
              some (w', resOf r fun _ => .none)
    | .dst => let (w', r) := runDst w h fun _ => Dest.reset
              some (w', resOf r fun _ => .none)
  | .setHandler n cond code => do
    let h ← findHandler w n
    match h.kind with
    | .src =>
      match setFaultHandler h.src.faults cond code with
      | some t => some (setHandlerSt w { h with src := { h.src with faults := t } }, {})
      | none => some (w, { exc := some .valueError })
    | .dst =>
      match setFaultHandler h.dst.faults cond code with
      | some t => some (setHandlerSt w { h with dst := { h.dst with faults := t } }, {})
      | none => some (w, { exc := some .valueError })
  | .reject n k e => do
    let h ← findHandler w n
    match h.kind with
    | .dst => some (setHandlerSt w { h with dst := { h.dst with rejects := h.dst.rejects ++ List.replicate k e } }, {})
    | .src => some (w, {})

end Cfdp.World
