import CfdpVerif.Model.Pdu
import CfdpVerif.Model.Fs
import CfdpVerif.Model.Tracker
/-
Vocabulary shared by the two handler models: exceptions, timers, configuration, indications,
fault callbacks, fault-handler table (mib.py:25-134).
-/
namespace Cfdp

open Cfdp.Route (Dir Mode Kind)

/-- Every exception class that can leave a public handler call.  The first block is the library's
own protocol exceptions (`cfdppy.exceptions`); the second the internal errors C10 forbids; the
third the OS errors a filestore may raise. -/
inductive Err where
  | unretrievedPdus | invalidPduDirection | invalidDestinationId | invalidSourceId
  | invalidTransactionSeqNum | noRemoteEntityCfg | invalidPduForSource | invalidPduForDest
  | pduIgnoredForSource | pduIgnoredForDest | invalidNakPdu | sourceFileDoesNotExist
  | checksumNotImplemented
  | assertionError | attributeError | typeError | keyError | valueError | structError
  | recursionError
  | fileNotFoundError | permissionError | isADirectoryError | notADirectoryError
  deriving Repr, DecidableEq, Inhabited

def Err.isProtocol : Err → Bool
  | .unretrievedPdus | .invalidPduDirection | .invalidDestinationId | .invalidSourceId
  | .invalidTransactionSeqNum | .noRemoteEntityCfg | .invalidPduForSource | .invalidPduForDest
  | .pduIgnoredForSource | .pduIgnoredForDest | .invalidNakPdu | .sourceFileDoesNotExist
  | .checksumNotImplemented => true
  | _ => false

def Err.ofFs : FsErr → Err
  | .fileNotFound => .fileNotFoundError
  | .permission => .permissionError
  | .isADirectory => .isADirectoryError
  | .notADirectory => .notADirectoryError
  | .valueError => .valueError
  | .checksumNotImplemented => .checksumNotImplemented

inductive CfdpState where
  | idle | busy
  deriving Repr, DecidableEq, Inhabited

/-- `spacepackets.countdown.Countdown` on the virtual clock (integer milliseconds) -/
structure Timer where
  start : Nat
  timeout : Nat
  deriving Repr, DecidableEq

def Timer.timedOut (t : Timer) (now : Nat) : Bool := now - t.start ≥ t.timeout
def Timer.busy (t : Timer) (now : Nat) : Bool := !t.timedOut now
def Timer.reset (t : Timer) (now : Nat) : Timer := { t with start := now }

/-- `RemoteEntityCfg` (mib.py:162-260) with the intervals in integer milliseconds -/
structure RemoteCfg where
  entityId : EntityId
  maxSeg : Option Nat
  maxPkt : Nat
  closure : Bool
  crc : Bool
  mode : Mode
  cks : Nat
  ackMs : Nat
  ackLim : Nat
  chkLim : Nat
  disp : Bool
  imm : Bool
  nakMs : Nat
  nakLim : Nat
  deriving Repr, DecidableEq

/-- `RemoteEntityCfgTable.get_cfg`: lookup by entity id *value* -/
def lookupRemote (tbl : List RemoteCfg) (idVal : Nat) : Option RemoteCfg :=
  tbl.find? fun r => r.entityId.val == idVal

/-- `LocalEntityCfg` + `IndicationCfg` + the check timer provider's interval -/
structure LocalCfg where
  entityId : EntityId
  indEofSent : Bool
  indEofRecv : Bool
  indSegRecv : Bool
  indFinished : Bool
  remotes : List RemoteCfg
  chkMs : Nat
  deriving Repr

/-- user indications (`CfdpUserBase` callbacks) -/
inductive Ind where
  | tx (tid : Tid) (orig : Option Tid)
  | eofSent (tid : Tid)
  | finished (tid : Option Tid) (p : FinishedParams)
  | mdRecv (tid : Option Tid) (srcId : EntityId) (size : Option Nat) (sname dname : Option String)
      (msgs : Option (List Msg))
  | segRecv (tid : Option Tid) (off len : Nat)
  | eofRecv (tid : Tid)
  deriving Repr, DecidableEq

/-- fault handler callbacks (`DefaultFaultHandlerBase.*_cb`): kind is the `FaultHandlerCode` -/
structure FaultCb where
  kind : Nat
  tid : Tid
  cond : Nat
  progress : Nat
  deriving Repr, DecidableEq

/-- `DefaultFaultHandlerBase._handler_dict` as constructed (mib.py:57-71) -/
def defaultFaultTable : List (Nat × Nat) :=
  [(15, fhCancel), (1, fhCancel), (2, fhCancel), (3, fhCancel), (5, fhIgnore), (6, fhCancel),
   (4, fhCancel), (7, fhCancel), (8, fhCancel), (10, fhCancel), (11, fhIgnore)]

/-- `set_handler`: `none` is the `ValueError` for a condition outside the table -/
def setFaultHandler (tbl : List (Nat × Nat)) (cond code : Nat) : Option (List (Nat × Nat)) :=
  if (tbl.lookup cond).isSome then
    some (tbl.map fun e => if e.1 = cond then (cond, code) else e)
  else none

end Cfdp
