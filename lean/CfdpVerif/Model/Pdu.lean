import CfdpVerif.Model.Route
import CfdpVerif.Model.Checksum
/-
Abstract syntax of the CFDP PDUs as used by the handlers (the `spacepackets` classes), and their
`packet_len`.  Byte-level encodings are not modelled.
-/
namespace Cfdp

open Cfdp.Route (Dir Mode Kind)

abbrev Bytes := List UInt8

/-- `UnsignedByteField`: value and byte width (`ByteFieldEmpty` is `⟨0, 0⟩`). -/
structure EntityId where
  val : Nat
  width : Nat
  deriving Repr, DecidableEq, Inhabited

/-- `TransactionId` -/
structure Tid where
  src : EntityId
  seq : EntityId
  deriving Repr, DecidableEq, Inhabited

/-- the fields of `PduConfig` the handlers read or write (segmentation control is constant) -/
structure Hdr where
  dir : Dir
  mode : Mode
  crc : Bool
  large : Bool
  src : EntityId
  dst : EntityId
  seq : EntityId
  deriving Repr, DecidableEq

/-- `PduConfig.empty()` -/
def Hdr.empty : Hdr := ⟨.toRecv, .ack, false, false, ⟨0, 0⟩, ⟨0, 0⟩, ⟨0, 0⟩⟩

instance : Inhabited Hdr := ⟨Hdr.empty⟩

/-- messages to user, as far as the handlers look into them -/
inductive Msg where
  | orig (sv sw qv qw : Nat)     -- reserved CFDP message: originating transaction id
  | proxyPutResp                 -- reserved CFDP message: proxy put response
  | plain (b : Bytes)            -- anything else
  deriving Repr, DecidableEq

/-- encoded length of the TLV -/
def Msg.tlvLen : Msg → Nat
  | .orig _ sw _ qw => 2 + (4 + 1 + 1 + sw + qw)
  | .proxyPutResp => 2 + 6
  | .plain b => 2 + b.length

/-- condition codes (`spacepackets.cfdp.ConditionCode`) -/
def ccNoError : Nat := 0
def ccPositiveAckLimit : Nat := 1
def ccFilestoreRejection : Nat := 4
def ccChecksumFailure : Nat := 5
def ccFileSizeError : Nat := 6
def ccNakLimit : Nat := 7
def ccCheckLimit : Nat := 10
def ccCancelRequest : Nat := 15

/-- `DeliveryCode`, `FileStatus`, `TransactionStatus`, `FaultHandlerCode`, `DirectiveType` -/
def dcComplete : Nat := 0
def dcIncomplete : Nat := 1
def fsDiscardedDeliberately : Nat := 0
def fsDiscardedRejection : Nat := 1
def fsRetained : Nat := 2
def fsUnreported : Nat := 3
def tsActive : Nat := 1
def fhCancel : Nat := 1
def fhSuspend : Nat := 2
def fhIgnore : Nat := 3
def fhAbandon : Nat := 4
def dtEof : Nat := 4
def dtFinished : Nat := 5

structure FinishedParams where
  cond : Nat
  deliv : Nat
  fstat : Nat
  floc : Option EntityId
  deriving Repr, DecidableEq

inductive Pdu where
  | md (h : Hdr) (closure : Bool) (cks : Nat) (size : Nat) (sname dname : Option String)
       (msgs : Option (List Msg))
  | fd (h : Hdr) (off : Nat) (data : Bytes)
  | eof (h : Hdr) (cond : Nat) (cks : Bytes) (size : Nat) (floc : Option EntityId)
  | fin (h : Hdr) (p : FinishedParams)
  | ack (h : Hdr) (ofDir : Nat) (cond : Nat) (tstat : Nat)
  | nak (h : Hdr) (sos eos : Nat) (reqs : List (Nat × Nat))
  | ka (h : Hdr) (prog : Nat)
  | pr (h : Hdr) (resp : Nat)
  deriving Repr, DecidableEq

def Pdu.hdr : Pdu → Hdr
  | .md h .. | .fd h .. | .eof h .. | .fin h .. | .ack h .. | .nak h .. | .ka h .. | .pr h .. => h

def Pdu.setHdr (p : Pdu) (h : Hdr) : Pdu :=
  match p with
  | .md _ a b c d e f => .md h a b c d e f
  | .fd _ a b => .fd h a b
  | .eof _ a b c d => .eof h a b c d
  | .fin _ a => .fin h a
  | .ack _ a b c => .ack h a b c
  | .nak _ a b c => .nak h a b c
  | .ka _ a => .ka h a
  | .pr _ a => .pr h a

/-- PDU kind in the vocabulary of the routing tables -/
def Pdu.kind : Pdu → Kind
  | .md .. => .md | .fd .. => .fd | .eof .. => .eof | .fin .. => .fin
  | .ack _ ofDir _ _ => if ofDir = dtEof then .ackeof else .ackfin
  | .nak .. => .nak | .ka .. => .ka | .pr .. => .pr

def Pdu.isFileData : Pdu → Bool
  | .fd .. => true
  | _ => false

/-- `PduConfig.header_len()` -/
def Hdr.len (h : Hdr) : Nat := 4 + h.src.width + h.dst.width + h.seq.width

def Hdr.fss (h : Hdr) : Nat := if h.large then 8 else 4
def Hdr.crcLen (h : Hdr) : Nat := if h.crc then 2 else 0

def lvLen (s : Option String) : Nat :=
  match s with
  | none => 1
  | some s => 1 + s.utf8ByteSize

def flocLen (f : Option EntityId) : Nat :=
  match f with
  | none => 0
  | some e => 2 + e.width

/-- `packet_len` of the `spacepackets` PDU classes -/
def Pdu.packetLen : Pdu → Nat
  | .md h _ _ _ sname dname msgs =>
    h.len + 1 + 1 + h.fss + lvLen sname + lvLen dname +
      ((msgs.getD []).map Msg.tlvLen).sum + h.crcLen
  | .fd h _ data => h.len + h.fss + data.length + h.crcLen
  | .eof h _ _ _ floc => h.len + 1 + 1 + 4 + h.fss + flocLen floc + h.crcLen
  | .fin h p => h.len + 1 + 1 + flocLen p.floc + h.crcLen
  | .ack h .. => h.len + 1 + 2 + h.crcLen
  | .nak h _ _ reqs => h.len + 1 + 2 * h.fss + reqs.length * (2 * h.fss) + h.crcLen
  | .ka h _ => h.len + 1 + h.fss + h.crcLen
  | .pr h _ => h.len + 1 + 1 + h.crcLen

/-- `get_max_seg_reqs_for_max_packet_size_and_pdu_cfg`; `none` is the `ValueError` -/
def maxSegReqs (maxPkt : Nat) (h : Hdr) : Option Nat :=
  let base := h.len + 1 + h.crcLen + 2 * h.fss
  if maxPkt < base then none else some ((maxPkt - base) / (2 * h.fss))

/-- `get_max_file_seg_len_for_max_packet_len_and_pdu_cfg`; `none` is the `ValueError` -/
def maxFileSegLen (h : Hdr) (maxPkt : Nat) : Option Nat :=
  let sub := h.len + h.fss + h.crcLen
  if maxPkt < sub then none else some (maxPkt - sub)

/-- `acknowledge_inactive_eof_pdu(eof_pdu, status)` (dest.py:259-280): `none` is the `ValueError`
for the active status; a non-EOF argument is outside the function's domain. -/
def acknowledgeInactiveEof (p : Pdu) (status : Nat) : Option Pdu :=
  match p with
  | .eof h cond _ _ _ =>
    if status = tsActive then none
    else some (.ack { h with dir := .toSend } dtEof cond status)
  | _ => none

end Cfdp
