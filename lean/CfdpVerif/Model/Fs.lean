import CfdpVerif.Model.Checksum
/-
Reference file system: the documented semantics of the `VirtualFilestore` interface
(filestore.py:27-177) as implemented by `NativeFilestore` (filestore.py:180-331) on a POSIX host.
A store is a finite map from absolute posix paths to nodes, listed in ascending path order; the
root directory `/` always exists and is not listed.
-/
namespace Cfdp

abbrev Bytes' := List UInt8

inductive Node where
  | file (data : List UInt8)
  | dir
  deriving Repr, DecidableEq

abbrev Fs := List (String × Node)

inductive FsErr where
  | fileNotFound | permission | isADirectory | notADirectory | valueError | checksumNotImplemented
  deriving Repr, DecidableEq

/-- the exceptions of the `OSError` family -/
def FsErr.isOsError : FsErr → Bool
  | .fileNotFound | .permission | .isADirectory | .notADirectory => true
  | _ => false

namespace Fs

def get : Fs → String → Option Node
  | [], _ => none
  | (q, n) :: t, p => if q = p then some n else get t p

def set : Fs → String → Node → Fs
  | [], p, n => [(p, n)]
  | (q, m) :: t, p, n =>
    if p < q then (p, n) :: (q, m) :: t
    else if p = q then (p, n) :: t
    else (q, m) :: set t p n

def del : Fs → String → Fs
  | [], _ => []
  | (q, m) :: t, p => if q = p then t else (q, m) :: del t p

/-- `Path(p).parent.as_posix()` for a normalised absolute path -/
def parentOf (p : String) : String :=
  let parts := p.splitOn "/"
  let init := parts.dropLast
  let r := "/".intercalate init
  if r = "" then "/" else r

/-- `Path(p).name` -/
def baseName (p : String) : String := (p.splitOn "/").getLast!

/-- `Path(d).joinpath(b).as_posix()` -/
def joinPath (d b : String) : String := if d = "/" then "/" ++ b else d ++ "/" ++ b

def isDir (fs : Fs) (p : String) : Bool := p = "/" || fs.get p = some .dir

def exists' (fs : Fs) (p : String) : Bool := p = "/" || (fs.get p).isSome

def parentIsDir (fs : Fs) (p : String) : Bool := isDir fs (parentOf p)

/-- does any listed path lie strictly below directory `p`? -/
def hasChildren (fs : Fs) (p : String) : Bool := fs.any fun e => e.1.startsWith (p ++ "/")

/-! ### operations of the interface.  Status codes are `FilestoreResponseStatusCode` values. -/

def CREATE_SUCCESS : Nat := 0x00
def CREATE_NOT_ALLOWED : Nat := 0x01
def DELETE_SUCCESS : Nat := 0x10
def DELETE_FILE_DOES_NOT_EXIST : Nat := 0x11
def DELETE_NOT_ALLOWED : Nat := 0x1F
def RENAME_SUCCESS : Nat := 0x20
def RENAME_OLD_FILE_DOES_NOT_EXIST : Nat := 0x21
def RENAME_NEW_FILE_DOES_EXIST : Nat := 0x22
def RENAME_NOT_ALLOWED : Nat := 0x23
def RENAME_NOT_PERFORMED : Nat := 0x2F
def REPLACE_SUCCESS : Nat := 0x40
def REPLACE_FILE_NAME_ONE_TO_BE_REPLACED_DOES_NOT_EXIST : Nat := 0x41
def REPLACE_FILE_NAME_TWO_REPLACE_SOURCE_NOT_EXIST : Nat := 0x42
def REPLACE_NOT_ALLOWED : Nat := 0x43
def CREATE_DIR_SUCCESS : Nat := 0x50
def CREATE_DIR_CAN_NOT_BE_CREATED : Nat := 0x51
def REMOVE_DIR_SUCCESS : Nat := 0x60
def REMOVE_DIR_DOES_NOT_EXIST : Nat := 0x61
def REMOVE_DIR_NOT_ALLOWED : Nat := 0x62

/-- `create_file`: refuses an existing name; the OS refuses a missing parent directory. -/
def createFile (fs : Fs) (p : String) : Nat × Fs :=
  if exists' fs p then (CREATE_NOT_ALLOWED, fs)
  else if !parentIsDir fs p then (CREATE_NOT_ALLOWED, fs)
  else (CREATE_SUCCESS, fs.set p (.file []))

def deleteFile (fs : Fs) (p : String) : Nat × Fs :=
  if !exists' fs p then (DELETE_FILE_DOES_NOT_EXIST, fs)
  else if isDir fs p then (DELETE_NOT_ALLOWED, fs)
  else (DELETE_SUCCESS, fs.del p)

def truncateFile (fs : Fs) (p : String) : Except FsErr Fs :=
  match fs.get p with
  | none => if p = "/" then .error .isADirectory else .error .fileNotFound
  | some .dir => .error .isADirectory
  | some (.file _) => .ok (fs.set p (.file []))

def fileSize (fs : Fs) (p : String) : Except FsErr Nat :=
  match fs.get p with
  | none => .error .fileNotFound
  | some .dir => .ok 4096
  | some (.file d) => .ok d.length

/-- `open(file, "r+b"); seek(offset); write(data)`: a gap is zero-filled, a zero-length write
changes nothing (in particular it does not extend the file). -/
def writeBytes (old : List UInt8) (data : List UInt8) (off : Nat) : List UInt8 :=
  if data.isEmpty then old
  else
    let padded := if off > old.length then old ++ List.replicate (off - old.length) 0 else old
    padded.take off ++ data ++ padded.drop (off + data.length)

def writeData (fs : Fs) (p : String) (data : List UInt8) (off : Nat) : Except FsErr Fs :=
  match fs.get p with
  | none => if p = "/" then .error .isADirectory else .error .fileNotFound
  | some .dir => .error .isADirectory
  | some (.file d) => .ok (fs.set p (.file (writeBytes d data off)))

def readData (fs : Fs) (p : String) (off : Nat) (len : Option Nat) : Except FsErr (List UInt8) :=
  match fs.get p with
  | none => if p = "/" then .error .isADirectory else .error .fileNotFound
  | some .dir => .error .isADirectory
  | some (.file d) => .ok ((d.drop off).take (len.getD d.length))

def calcChecksum (fs : Fs) (t : Checksum.CksType) (p : String) (size seg : Nat) :
    Except FsErr (List UInt8) :=
  if t = .null then .ok [0, 0, 0, 0]
  else match fs.get p with
    | none => if p = "/" then .error .isADirectory else .error .fileNotFound
    | some .dir => .error .isADirectory
    | some (.file d) =>
      match Checksum.calcChecksum t d size seg with
      | .ok r => .ok r
      | .error .valueError => .error .valueError
      | .error .checksumNotImplemented => .error .checksumNotImplemented

def renameFile (fs : Fs) (old new : String) : Nat × Fs :=
  if isDir fs old || isDir fs new then (RENAME_NOT_PERFORMED, fs)
  else if !exists' fs old then (RENAME_OLD_FILE_DOES_NOT_EXIST, fs)
  else if exists' fs new then (RENAME_NEW_FILE_DOES_EXIST, fs)
  else match fs.get old with
    | some n => (RENAME_SUCCESS, (fs.del old).set new n)
    | none => (RENAME_OLD_FILE_DOES_NOT_EXIST, fs)

def replaceFile (fs : Fs) (replaced source : String) : Nat × Fs :=
  if isDir fs replaced || isDir fs source then (REPLACE_NOT_ALLOWED, fs)
  else if !exists' fs replaced then (REPLACE_FILE_NAME_ONE_TO_BE_REPLACED_DOES_NOT_EXIST, fs)
  else if !exists' fs source then (REPLACE_FILE_NAME_TWO_REPLACE_SOURCE_NOT_EXIST, fs)
  else match fs.get source with
    | some n => (REPLACE_SUCCESS, (fs.del source).set replaced n)
    | none => (REPLACE_FILE_NAME_TWO_REPLACE_SOURCE_NOT_EXIST, fs)

def createDirectory (fs : Fs) (p : String) : Nat × Fs :=
  if exists' fs p then (CREATE_DIR_CAN_NOT_BE_CREATED, fs)
  else (CREATE_DIR_SUCCESS, fs.set p .dir)

def removeDirectory (fs : Fs) (p : String) (recursive : Bool) : Nat × Fs :=
  if !exists' fs p then (REMOVE_DIR_DOES_NOT_EXIST, fs)
  else if !isDir fs p then (REMOVE_DIR_NOT_ALLOWED, fs)
  else if recursive then
    (REMOVE_DIR_SUCCESS, Fs.del (List.filter (fun e => !(e.1.startsWith (p ++ "/"))) fs) p)
  else if hasChildren fs p then (REMOVE_DIR_NOT_ALLOWED, fs)
  else (REMOVE_DIR_SUCCESS, fs.del p)

/-! The two operations where the host refuses for a reason the interface has no status code for
(the parent directory of the new name does not exist): `os.mkdir` / `Path.rename` raise
`FileNotFoundError` (or `NotADirectoryError` when the parent is a regular file). -/

def parentErr (fs : Fs) (p : String) : Option FsErr :=
  if parentIsDir fs p then none
  else if exists' fs (parentOf p) then some .notADirectory else some .fileNotFound

def createDirectoryE (fs : Fs) (p : String) : Except FsErr (Nat × Fs) :=
  if exists' fs p then .ok (createDirectory fs p)
  else match parentErr fs p with
    | some e => .error e
    | none => .ok (createDirectory fs p)

def renameFileE (fs : Fs) (old new : String) : Except FsErr (Nat × Fs) :=
  let r := renameFile fs old new
  if r.1 = RENAME_SUCCESS then
    match parentErr fs new with
    | some e => .error e
    | none => .ok r
  else .ok r

end Fs
end Cfdp
