import CfdpVerif.Model.Common
/-
Model of `cfdppy.handler.source.SourceHandler` (source.py:205-997), one definition per Python
method, in `EStateM Err SrcSt` (exceptions keep the mutations made so far).
-/
namespace Cfdp.Source

open Cfdp
open Cfdp.Route (Dir Mode Kind)

inductive SStep where
  | IDLE | TRANSACTION_START | SENDING_METADATA | SENDING_FILE_DATA | RETRANSMITTING | SENDING_EOF
  | WAITING_FOR_EOF_ACK | WAITING_FOR_FINISHED | SENDING_ACK_OF_FINISHED | NOTICE_OF_COMPLETION
  deriving Repr, DecidableEq, Inhabited

/-- `PutRequest` as far as the handler reads it -/
structure PutReq where
  destId : EntityId
  src : Option String
  dst : Option String
  mode : Option Mode
  closure : Option Bool
  msgs : Option (List Msg)
  deriving Repr, DecidableEq

def PutReq.metadataOnly (r : PutReq) : Bool := r.src.isNone && r.dst.isNone

/-- `_TransferFieldWrapper` with `_SourceFileParams` -/
structure Params where
  tid : Option Tid := none
  checkTimer : Option Timer := none
  ackTimer : Option Timer := none
  ackCounter : Nat := 0
  condCodeEof : Option Nat := none
  finishedParams : Option FinishedParams := none
  remoteCfg : Option RemoteCfg := none
  closure : Bool := false
  conf : Hdr := Hdr.empty
  progress : Nat := 0
  segmentLen : Nat := 0
  fileSize : Nat := 0
  emptyFile : Bool := false
  metadataOnly : Bool := false
  deriving Repr

/-- sequence number provider (`ProvidesSeqCount`), possibly shared between handlers -/
structure SeqProv where
  bits : Nat := 16
  next : Nat := 0
  deriving Repr, DecidableEq

structure SrcSt where
  state : CfdpState := .idle
  step : SStep := .IDLE
  /-- `_num_packets_ready`: `put_request` zeroes it without clearing the queue, so it can go negative -/
  numReady : Int := 0
  p : Params := {}
  /-- `_AckedModeParams.step_before_retransmission`: survives `reset()` -/
  stepBefore : Option SStep := none
  putReq : Option PutReq := none
  queue : List Pdu := []
  fs : Fs := []
  faults : List (Nat × Nat) := defaultFaultTable
  prov : SeqProv := {}
  inds : List Ind := []
  flts : List FaultCb := []
  deriving Repr

abbrev SM := EStateM Err SrcSt

structure Env where
  cfg : LocalCfg
  now : Nat

def modP (f : Params → Params) : SM Unit := modify fun s => { s with p := f s.p }
def getP : SM Params := do return (← get).p

def transmissionMode : SM (Option Mode) := do
  let s ← get
  return if s.state = .idle then none else some s.p.conf.mode

def addPacket (pdu : Pdu) : SM Unit :=
  modify fun s => { s with queue := s.queue ++ [pdu], numReady := s.numReady + 1 }

def emitInd (i : Ind) : SM Unit := modify fun s => { s with inds := s.inds ++ [i] }

def mkMd (h : Hdr) (closure : Bool) (cks size : Nat) (sname dname : Option String)
    (msgs : Option (List Msg)) : Pdu := .md { h with dir := .toRecv } closure cks size sname dname msgs
def mkFd (h : Hdr) (off : Nat) (data : List UInt8) : Pdu := .fd { h with dir := .toRecv } off data
def mkEof (h : Hdr) (cond : Nat) (cks : List UInt8) (size : Nat) : Pdu :=
  .eof { h with dir := .toRecv } cond cks size none
def mkAck (h : Hdr) (ofDir cond tstat : Nat) : Pdu :=
  .ack { h with dir := if ofDir = dtFinished then .toRecv else .toSend } ofDir cond tstat

/-- `_reset_internal` / `_TransferFieldWrapper.reset` (source.py:188-197, 485-493) -/
def resetInternal (clearQueue : Bool) : SM Unit :=
  modify fun s => { s with step := .IDLE, state := .idle, p := {},
                           queue := if clearQueue then [] else s.queue }

def abandonTransaction : SM Unit := resetInternal true

/-- loop body of `_check_for_originating_id`: the last originating-id message wins -/
def origStep (acc : Option Tid) (m : Msg) : Option Tid :=
  match m with
  | .orig sv sw qv qw => some (Tid.mk ⟨sv, sw⟩ ⟨qv, qw⟩)
  | _ => acc

/-- `_check_for_originating_id` (source.py:544-568) -/
def checkForOriginatingId (msgs : Option (List Msg)) : Option Tid :=
  match msgs with
  | none => none
  | some l =>
    let orig := l.foldl origStep none
    let resp := l.any fun m => m == .proxyPutResp
    if !resp then orig else none

/-- `_checksum_calculation` (source.py:987-997) -/
def checksumCalculation (size : Nat) : SM (List UInt8) := do
  let s ← get
  match s.putReq with
  | none => throw .assertionError
  | some req =>
    if s.p.metadataOnly then pure [0, 0, 0, 0]
    else
      match req.src, s.p.remoteCfg with
      | none, _ => throw .assertionError
      | _, none => throw .assertionError
      | some src, some rc =>
        match Fs.calcChecksum s.fs (Checksum.CksType.ofNat rc.cks) src size s.p.segmentLen with
        | .ok r => pure r
        | .error e => throw (Err.ofFs e)

/-- `_prepare_eof_pdu` (source.py:914-926) -/
def prepareEofPdu (env : Env) (cks : List UInt8) : SM Unit := do
  let p ← getP
  match p.condCodeEof with
  | none => throw .assertionError
  | some cond =>
    if cks.length ≠ 4 then throw .valueError
    addPacket (mkEof p.conf cond cks p.progress)
    if env.cfg.indEofSent then
      match p.tid with
      | none => throw .assertionError
      | some tid => emitInd (.eofSent tid)

def startPositiveAckProcedure (env : Env) : SM Unit := do
  match (← getP).remoteCfg with
  | none => throw .assertionError
  | some rc =>
    modify fun s => { s with step := .WAITING_FOR_EOF_ACK }
    modP fun p => { p with ackTimer := some ⟨env.now, rc.ackMs⟩, ackCounter := 0 }

/-- `_handle_eof_sent` (source.py:825-841) -/
def handleEofSent (env : Env) (cancelEof : Bool) : SM Unit := do
  if (← transmissionMode) = some .ack then
    startPositiveAckProcedure env
  else if cancelEof then
    resetInternal false
  else
    let p ← getP
    if p.closure then
      if p.remoteCfg.isNone then throw .assertionError
      else
        modP fun p => { p with checkTimer := some ⟨env.now, env.cfg.chkMs⟩ }
        modify fun s => { s with step := .WAITING_FOR_FINISHED }
    else
      modify fun s => { s with step := .NOTICE_OF_COMPLETION }

/-- is an EOF (cancel) exchange in progress?  (`cond_code_eof` set and not No error) -/
def cancelInProgress (p : Params) : Option Nat :=
  match p.condCodeEof with
  | some c => if c ≠ ccNoError then some c else none
  | none => none

/-- `_notice_of_cancellation` (source.py:954-976): returns whether the fault declaration goes on
to report the fault -/
def noticeOfCancellation (env : Env) (cond : Nat) : SM Bool := do
  let p ← getP
  match cancelInProgress p with
  | some c =>
    match p.tid with
    | none => throw .assertionError
    | some tid =>
      modify fun s => { s with flts := s.flts ++ [⟨fhAbandon, tid, c, p.progress⟩] }
      abandonTransaction
      pure false
  | none =>
    modP fun p => { p with condCodeEof := some cond }
    let cks ← checksumCalculation (← getP).progress
    prepareEofPdu env cks
    handleEofSent env true
    pure true

/-- `_declare_fault` (source.py:938-952) -/
def declareFault (env : Env) (cond : Nat) : SM Unit := do
  let s ← get
  let fh := s.faults.lookup cond
  let progress := s.p.progress
  match s.p.tid with
  | none => throw .assertionError
  | some tid =>
    let goOn ← if fh = some fhCancel then noticeOfCancellation env cond
               else if fh = some fhAbandon then do abandonTransaction; pure true
               else pure true
    if goOn then
      match fh with
      | none => throw .valueError
      | some code => modify fun s => { s with flts := s.flts ++ [⟨code, tid, cond, progress⟩] }

/-- `_prepare_metadata_pdu` (source.py:632-667) -/
def prepareMetadataPdu : SM Unit := do
  let s ← get
  match s.putReq with
  | none => throw .assertionError
  | some req =>
    let p := s.p
    let msgs := some (req.msgs.getD [])
    if req.metadataOnly then
      if p.remoteCfg.isNone then throw .assertionError
      addPacket (mkMd p.conf p.closure 15 0 none none msgs)
    else
      match p.remoteCfg with
      | none => throw .assertionError
      | some rc =>
        -- `source_file.as_posix()` / `dest_file.as_posix()` of a request that names only one of them
        match req.src with
        | none => throw .attributeError
        | some src =>
          match req.dst with
          | none => throw .attributeError
          | some dst => addPacket (mkMd p.conf p.closure rc.cks p.fileSize (some src) (some dst) msgs)

/-- `_prepare_file_data_pdu` (source.py:898-912) -/
def prepareFileDataPdu (off len : Nat) : SM Unit := do
  let s ← get
  match s.putReq with
  | none => throw .assertionError
  | some req =>
    match req.src with
    | none => throw .assertionError
    | some src =>
      match Fs.readData s.fs src off (some len) with
      | .error e => throw (Err.ofFs e)
      | .ok data => addPacket (mkFd s.p.conf off data)

/-- the `read_len` computed by `_prepare_progressing_file_data_pdu` -/
def readLen (p : Params) : Nat :=
  if p.fileSize < p.segmentLen then p.fileSize
  else if p.progress + p.segmentLen > p.fileSize then p.fileSize - p.progress
  else p.segmentLen

/-- `_prepare_progressing_file_data_pdu` (source.py:883-896) -/
def prepareProgressingFileDataPdu : SM Unit := do
  let p ← getP
  prepareFileDataPdu p.progress (readLen p)
  modP fun p => { p with progress := p.progress + readLen p }

/-- the `while missing_chunk_len > 0` loop of `_handle_segment_req`; fuel = the missing length -/
def segmentChunks (segLen : Nat) : Nat → Nat → Nat → SM Unit
  | 0, _, missing => if missing > 0 then throw .recursionError else pure ()
  | fuel + 1, cur, missing =>
    if missing > 0 then do
      let chunk := min missing segLen
      prepareFileDataPdu cur chunk
      segmentChunks segLen fuel (cur + chunk) (missing - chunk)
    else pure ()

/-- `_handle_segment_req` (source.py:711-728) -/
def handleSegmentReq (req : Nat × Nat) : SM Unit := do
  if req.1 = 0 && req.2 = 0 then
    prepareMetadataPdu
  else
    let p ← getP
    if req.2 < req.1 then throw .invalidNakPdu
    if req.1 > p.progress then throw .invalidNakPdu
    if req.2 > p.progress then throw .invalidNakPdu
    segmentChunks p.segmentLen (req.2 - req.1) req.1 (req.2 - req.1)

/-- the `for segment_req in nak_pdu.segment_requests` loop -/
def handleSegmentReqs : List (Nat × Nat) → SM Unit
  | [] => pure ()
  | r :: rest => do
    handleSegmentReq r
    handleSegmentReqs rest

/-- `__handle_retransmission` (source.py:698-709) -/
def handleRetransmission (pkt : Option Pdu) : SM Bool := do
  match pkt with
  | some (.nak _ _ _ reqs) =>
    handleSegmentReqs reqs
    modify fun s => { s with stepBefore := some s.step, step := .RETRANSMITTING }
    pure true
  | _ => pure false

/-- `_handle_positive_ack_procedures` (source.py:755-770) -/
def handlePositiveAckProcedures (env : Env) : SM Unit := do
  let p ← getP
  match p.ackTimer, p.remoteCfg with
  | none, _ => throw .assertionError
  | _, none => throw .assertionError
  | some t, some rc =>
    if t.timedOut env.now then
      if p.ackCounter + 1 ≥ rc.ackLim then
        declareFault env ccPositiveAckLimit
      else
        modP fun p => { p with ackTimer := some (t.reset env.now), ackCounter := p.ackCounter + 1 }
        let cks ← checksumCalculation p.progress
        prepareEofPdu env cks

/-- `_handle_waiting_for_ack` (source.py:730-753) -/
def handleWaitingForAck (env : Env) (pkt : Option Pdu) : SM Unit := do
  if ← handleRetransmission pkt then pure ()
  else
    match pkt with
    | some (.fin ..) =>
      -- the receiver has seen the EOF (its ACK was lost): the Finished PDU is handled in the next step
      modify fun s => { s with step := .WAITING_FOR_FINISHED }
    | some (.ack _ ofDir _ _) =>
      if ofDir = dtEof then modify fun s => { s with step := .WAITING_FOR_FINISHED }
    | some (.fd ..) => throw .attributeError     -- `to_ack_pdu` of a File Data holder; never admitted
    | _ => handlePositiveAckProcedures env

/-- `_handle_wait_for_finish` (source.py:772-791) -/
def handleWaitForFinish (env : Env) (pkt : Option Pdu) : SM Unit := do
  let retrans ← if (← transmissionMode) = some .ack then handleRetransmission pkt else pure false
  if retrans then pure () else
  match pkt with
  | some (.fin _ fp) =>
    modP fun p => { p with finishedParams := some fp }
    if (← transmissionMode) = some .ack then
      addPacket (mkAck (← getP).conf dtFinished fp.cond tsActive)
      modify fun s => { s with step := .SENDING_ACK_OF_FINISHED }
    else
      modify fun s => { s with step := .NOTICE_OF_COMPLETION }
  | _ =>
    match (← getP).checkTimer with
    | some t => if t.timedOut env.now then declareFault env ccCheckLimit
    | none => pure ()

/-- `_notice_of_completion` (source.py:793-809) -/
def noticeOfCompletion (env : Env) : SM Unit := do
  if env.cfg.indFinished then
    let p ← getP
    match p.tid with
    | none => throw .assertionError
    | some tid =>
      let fp := p.finishedParams.getD ⟨ccNoError, dcComplete, fsUnreported, none⟩
      modP fun p => { p with finishedParams := some fp }
      emitInd (.finished (some tid) fp)
  resetInternal false

/-- `_sending_file_data_fsm` (source.py:669-696) -/
def sendingFileDataFsm (pkt : Option Pdu) : SM Bool := do
  let retrans ← if (← transmissionMode) = some .ack then handleRetransmission pkt else pure false
  if retrans then pure true
  else
    let p ← getP
    if !p.metadataOnly && p.progress < p.fileSize then
      prepareProgressingFileDataPdu
      pure true
    else
      if p.emptyFile then
        modP fun p => { p with condCodeEof := some ccNoError }
        modify fun s => { s with step := .SENDING_EOF }
      else if p.metadataOnly then
        if p.closure || (← transmissionMode) = some .ack then
          modify fun s => { s with step := .WAITING_FOR_FINISHED }
        else modify fun s => { s with step := .NOTICE_OF_COMPLETION }
      pure false

/-- `_calculate_max_file_seg_len` (source.py:618-628): `none` is the `ValueError` of
`get_max_file_seg_len_for_max_packet_len_and_pdu_cfg` -/
def segLenOf (rc : RemoteCfg) (conf : Hdr) : Option Nat :=
  match maxFileSegLen conf rc.maxPkt with
  | none => none
  | some derived =>
    match rc.maxSeg with
    | some m => if m < derived then some m else some derived
    | none => some derived

/-- `_get_next_transfer_seq_num` on the provider: the value handed out and the provider afterwards -/
def provWrap (bits : Nat) : Nat := if bits = 8 then 256 else if bits = 16 then 65536 else 4294967296

/-- `_transaction_start` (source.py:530-542) with `_prepare_file_params`, `_prepare_pdu_conf`,
`_get_next_transfer_seq_num`, `_calculate_max_file_seg_len` -/
def transactionStart (env : Env) : SM Unit := do
  let s ← get
  match s.putReq with
  | none => throw .attributeError
  | some req =>
    let orig := checkForOriginatingId req.msgs
    -- _prepare_file_params
    if req.metadataOnly then
      modP fun p => { p with metadataOnly := true }
    else
      match req.src with
      | none => throw .assertionError
      | some src =>
        if !Fs.exists' s.fs src then throw .sourceFileDoesNotExist
        match Fs.fileSize s.fs src with
        | .error e => throw (Err.ofFs e)
        | .ok size =>
          if size = 0 then modP fun p => { p with emptyFile := true }
          else modP fun p => { p with fileSize := size }
    -- _prepare_pdu_conf
    let p ← getP
    match p.remoteCfg with
    | none => throw .assertionError
    | some rc =>
      let large := if !p.metadataOnly then decide (p.fileSize > 4294967295) else p.conf.large
      let w := max env.cfg.entityId.width req.destId.width
      let newConf : Hdr := { p.conf with large := large, src := ⟨env.cfg.entityId.val, w⟩, dst := ⟨req.destId.val, w⟩, crc := rc.crc, dir := .toRecv }
      modP fun p => { p with conf := newConf }
      -- _get_next_transfer_seq_num
      let s ← get
      let next := s.prov.next
      modify fun s => { s with prov := { s.prov with next := (s.prov.next + 1) % provWrap s.prov.bits } }
      if !(s.prov.bits = 8 || s.prov.bits = 16 || s.prov.bits = 32) then throw .valueError
      modP fun p => { p with conf := { p.conf with seq := ⟨next, s.prov.bits / 8⟩ } }
      -- _calculate_max_file_seg_len
      let p ← getP
      match segLenOf rc p.conf with
      | none => throw .valueError
      | some seg =>
        modP fun p => { p with segmentLen := seg }
        let tid : Tid := ⟨env.cfg.entityId, (← getP).conf.seq⟩
        modP fun p => { p with tid := some tid }
        emitInd (.tx tid orig)

/-- `_fsm_advancement_after_packets_were_sent` (source.py:811-823) -/
def fsmAdvancementAfterPacketsWereSent : SM Unit := do
  let s ← get
  if s.queue.length > 0 then throw .unretrievedPdus
  else match s.step with
  | .SENDING_METADATA => modify fun s => { s with step := .SENDING_FILE_DATA }
  | .RETRANSMITTING =>
    match s.stepBefore with
    | none => throw .assertionError
    | some st => modify fun s => { s with step := st }
  | .SENDING_FILE_DATA =>
    if s.p.progress = s.p.fileSize then
      modify fun s => { s with step := .SENDING_EOF, p := { s.p with condCodeEof := some ccNoError } }
  | .SENDING_ACK_OF_FINISHED => modify fun s => { s with step := .NOTICE_OF_COMPLETION }
  | _ => pure ()

/-! `_fsm_non_idle` (source.py:499-526) is a sequence of independent `if`s, some of which return
early.  It is written here as a chain of tail functions (`fsmFromX` = the rest of the method from
the test of step X on), which is the same control flow without duplicated continuations. -/

def fsmFromNoticeOfCompletion (env : Env) : SM Unit := do
  if (← get).step = .NOTICE_OF_COMPLETION then noticeOfCompletion env

def fsmFromWaitingForFinished (env : Env) (pkt : Option Pdu) : SM Unit := do
  if (← get).step = .WAITING_FOR_FINISHED then handleWaitForFinish env pkt
  fsmFromNoticeOfCompletion env

def fsmFromWaitingForEofAck (env : Env) (pkt : Option Pdu) : SM Unit := do
  if (← get).step = .WAITING_FOR_EOF_ACK then handleWaitingForAck env pkt
  fsmFromWaitingForFinished env pkt

def fsmFromSendingEof (env : Env) (pkt : Option Pdu) : SM Unit := do
  if (← get).step = .SENDING_EOF then
    let cks ← checksumCalculation (← getP).fileSize
    prepareEofPdu env cks
    handleEofSent env false
  fsmFromWaitingForEofAck env pkt

def fsmFromSendingFileData (env : Env) (pkt : Option Pdu) : SM Unit := do
  if (← get).step = .SENDING_FILE_DATA then
    if ← sendingFileDataFsm pkt then pure ()
    else fsmFromSendingEof env pkt
  else fsmFromSendingEof env pkt

/-- `_fsm_non_idle` -/
def fsmNonIdle (env : Env) (pkt : Option Pdu) : SM Unit := do
  fsmAdvancementAfterPacketsWereSent
  if (← get).putReq.isNone then pure ()
  else do
    if (← get).step = .IDLE then modify fun s => { s with step := .TRANSACTION_START }
    if (← get).step = .TRANSACTION_START then
      transactionStart env
      modify fun s => { s with step := .SENDING_METADATA }
    if (← get).step = .SENDING_METADATA then prepareMetadataPdu
    else fsmFromSendingFileData env pkt

/-- `_check_inserted_packet` (source.py:383-428) -/
def checkInsertedPacket (env : Env) (pdu : Pdu) : SM Unit := do
  let h := pdu.hdr
  let s ← get
  if h.dir ≠ .toSend then throw .invalidPduDirection
  if h.src.val ≠ env.cfg.entityId.val then throw .invalidSourceId
  match s.p.remoteCfg with
  | none => throw .noRemoteEntityCfg
  | some rc =>
    if h.dst.val ≠ rc.entityId.val then throw .invalidDestinationId
    if h.seq.val ≠ s.p.conf.seq.val then throw .invalidTransactionSeqNum
    if Route.getPacketDestination pdu.kind = .dest then throw .invalidPduForSource
    let k := pdu.kind
    if s.p.conf.mode = .unack && (k = .ka || k = .nak) then throw .pduIgnoredForSource
    if k ≠ .nak then
      if s.step = .WAITING_FOR_EOF_ACK && !(k = .ackeof || k = .ackfin || k = .fin) then
        throw .pduIgnoredForSource
      if s.step = .WAITING_FOR_FINISHED && k ≠ .fin then throw .pduIgnoredForSource

/-- `state_machine(packet)` (source.py:441-479) -/
def stateMachine (env : Env) (pkt : Option Pdu) : SM Unit := do
  match pkt with
  | some pdu => checkInsertedPacket env pdu
  | none => pure ()
  if (← get).state = .idle then pure ()
  else fsmNonIdle env pkt

/-- `put_request` (source.py:308-356) -/
def putRequest (env : Env) (req : PutReq) : SM Bool := do
  let s ← get
  if s.state ≠ .idle then pure false
  else
    modify fun s => { s with putReq := some req }
    if req.src.isSome && !Fs.exists' s.fs (req.src.getD "") then throw .sourceFileDoesNotExist
    else
      let rc := lookupRemote env.cfg.remotes req.destId.val
      modP fun p => { p with remoteCfg := rc }
      match rc with
      | none => throw .noRemoteEntityCfg
      | some rc =>
        modP fun p => { p with conf := { p.conf with dst := req.destId } }
        modify fun s => { s with numReady := 0, state := .busy }
        -- _setup_transmission_params
        modP fun p => { p with conf := { p.conf with mode := req.mode.getD rc.mode }, closure := req.closure.getD rc.closure }
        pure true

/-- `cancel_request` (source.py:358-381) -/
def cancelRequest (env : Env) (tid : Tid) : SM Bool := do
  let s ← get
  if s.state = .idle then pure false
  else if s.numReady > 0 then throw .unretrievedPdus
  else
    match s.p.tid with
    | some t =>
      if t.src.val = tid.src.val && t.seq.val = tid.seq.val then
        let _ ← noticeOfCancellation env ccCancelRequest
        pure true
      else pure false
    | none => pure false

/-- `get_next_packet` (source.py:430-435) -/
def getNextPacket : SM (Option Pdu) := do
  let s ← get
  match s.queue with
  | [] => pure none
  | pdu :: _ =>
    modify fun s => { s with queue := s.queue.tail, numReady := s.numReady - 1 }
    pure (some pdu)

/-- `reset()` -/
def reset : SM Unit := resetInternal true

end Cfdp.Source
