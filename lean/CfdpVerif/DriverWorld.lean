import CfdpVerif.Model.World
import CfdpVerif.Model.Util
/-!
Text side of the world driver: parsing of header lines / ops / PDUs and canonical printing.
Must print exactly what `harness/world.py` prints for the real handlers.
-/
namespace Cfdp.DriverWorld

open Cfdp Cfdp.World Cfdp.Util
open Cfdp.Route (Dir Mode Kind)

/-! ### parsing -/

def parseId (s : String) : Option EntityId :=
  match s.splitOn "/" with
  | [v, w] => do pure ⟨← v.toNat?, ← w.toNat?⟩
  | _ => none

def parseOptStr (s : String) : Option String := if s == "-" then none else some s

def parseMsg (t : String) : Option Msg :=
  if t == "r" then some .proxyPutResp
  else if t.startsWith "o" then
    match ((t.drop 1).toString).splitOn "." with
    | [a, b, c, d] => do pure (.orig (← a.toNat?) (← b.toNat?) (← c.toNat?) (← d.toNat?))
    | _ => none
  else if t.startsWith "x" then (bytesOfHex ((t.drop 1).toString)).map .plain
  else none

def parseMsgs (s : String) : Option (Option (List Msg)) :=
  if s == "-" then some none
  else (s.splitOn ";").mapM parseMsg |>.map some

def parseReqs (s : String) : Option (List (Nat × Nat)) :=
  if s == "-" then some []
  else (s.splitOn ",").mapM fun r =>
    match r.splitOn "-" with
    | [a, b] => do pure (← a.toNat?, ← b.toNat?)
    | _ => none

def parseMode (s : String) : Option Mode :=
  if s == "A" then some .ack else if s == "U" then some .unack else none

def parseHdr (t : List String) : Option Hdr := do
  let dir := (kvGet t "dir").getD "R"
  let mode ← parseMode (← kvGet t "mode")
  let crc := (kvGet t "crc").getD "0" == "1"
  let large := (kvGet t "large").getD "0" == "1"
  let src ← parseId (← kvGet t "src")
  let dst ← parseId (← kvGet t "dst")
  let seq ← parseId (← kvGet t "seq")
  pure ⟨if dir == "R" then .toRecv else .toSend, mode, crc, large, src, dst, seq⟩

def parseFloc (t : List String) : Option (Option EntityId) :=
  match kvGet t "floc" with
  | none => some none
  | some "-" => some none
  | some s => (parseId s).map some

/-- `pdu KIND k=v ...` (after the constructor forced its direction, the header's `dir=` wins —
the harness sets the direction flag after construction) -/
def parsePdu (t : List String) : Option Pdu :=
  match t with
  | kind :: rest => do
    let h ← parseHdr rest
    match kind with
    | "md" =>
      let msgs ← parseMsgs ((kvGet rest "msgs").getD "-")
      pure (.md h ((← kvGet rest "closure") == "1") (← kvNat rest "cks") (← kvNat rest "size")
        (parseOptStr (← kvGet rest "sname")) (parseOptStr (← kvGet rest "dname")) msgs)
    | "fd" => pure (.fd h (← kvNat rest "off") (← bytesOfHex (← kvGet rest "data")))
    | "eof" =>
      pure (.eof h (← kvNat rest "cond") (← bytesOfHex (← kvGet rest "cks")) (← kvNat rest "size")
        (← parseFloc rest))
    | "fin" =>
      pure (.fin h ⟨← kvNat rest "cond", ← kvNat rest "deliv", ← kvNat rest "fstat", ← parseFloc rest⟩)
    | "ack" => pure (.ack h (← kvNat rest "of") (← kvNat rest "cond") (← kvNat rest "tstat"))
    | "nak" => pure (.nak h (← kvNat rest "sos") (← kvNat rest "eos") (← parseReqs ((kvGet rest "reqs").getD "-")))
    | "ka" => pure (.ka h (← kvNat rest "prog"))
    | "pr" => pure (.pr h (← kvNat rest "resp"))
    | _ => none
  | [] => none

def condOfName (s : String) : Option Nat :=
  match s with
  | "NO_ERROR" => some 0 | "POSITIVE_ACK_LIMIT_REACHED" => some 1
  | "KEEP_ALIVE_LIMIT_REACHED" => some 2 | "INVALID_TRANSMISSION_MODE" => some 3
  | "FILESTORE_REJECTION" => some 4 | "FILE_CHECKSUM_FAILURE" => some 5
  | "FILE_SIZE_ERROR" => some 6 | "NAK_LIMIT_REACHED" => some 7 | "INACTIVITY_DETECTED" => some 8
  | "CHECK_LIMIT_REACHED" => some 10 | "UNSUPPORTED_CHECKSUM_TYPE" => some 11
  | "SUSPEND_REQUEST_RECEIVED" => some 14 | "CANCEL_REQUEST_RECEIVED" => some 15
  | _ => none

def fhOfName (s : String) : Option Nat :=
  match s with
  | "CANCEL" => some fhCancel | "SUSPEND" => some fhSuspend | "IGNORE" => some fhIgnore
  | "ABANDON" => some fhAbandon | _ => none

def parsePair (s : String) : Option (Nat × Nat) :=
  match s.splitOn "/" with
  | [a, b] => do pure (← a.toNat?, ← b.toNat?)
  | _ => none

def parseRemote (t : List String) : Option RemoteCfg := do
  let id ← parseId (← kvGet t "id")
  let maxSeg := match kvGet t "maxseg" with
    | some "-" => none
    | some s => s.toNat?
    | none => none
  let (ackMs, ackLim) ← parsePair ((kvGet t "ack").getD "1000/2")
  let (nakMs, nakLim) ← parsePair ((kvGet t "nak").getD "1000/2")
  pure {
    entityId := id, maxSeg := maxSeg, maxPkt := (kvNat t "maxpkt").getD 64,
    closure := (kvGet t "closure").getD "0" == "1", crc := (kvGet t "crc").getD "0" == "1",
    mode := if (kvGet t "mode").getD "U" == "A" then .ack else .unack,
    cks := (kvNat t "cks").getD 3, ackMs := ackMs, ackLim := ackLim,
    chkLim := (kvNat t "chklim").getD 2, disp := (kvGet t "disp").getD "0" == "1",
    imm := (kvGet t "imm").getD "1" == "1", nakMs := nakMs, nakLim := nakLim }

def fsOf (h : Handler) : Fs := match h.kind with | .src => h.src.fs | .dst => h.dst.fs
def setFs (h : Handler) (fs : Fs) : Handler :=
  match h.kind with
  | .src => { h with src := { h.src with fs := fs } }
  | .dst => { h with dst := { h.dst with fs := fs } }

/-- header line (`P`, `H`, `R`, `F`, `file`, `dir`, `clock`); `none` = malformed -/
def header (w : World) (t : List String) : Option World :=
  match t with
  | ["P", n, bits, nxt] => do
    pure { w with provs := w.provs ++ [(n, ⟨← bits.toNat?, ← nxt.toNat?⟩)] }
  | "H" :: name :: kind :: rest => do
    let id ← parseId (← kvGet rest "id")
    let ind := ((kvGet rest "ind").getD "1111").toList
    let b (i : Nat) := ind.getD i '1' == '1'
    let cfg : LocalCfg := { entityId := id, indEofSent := b 0, indEofRecv := b 1, indSegRecv := b 2,
                            indFinished := b 3, remotes := [], chkMs := (kvNat rest "chkms").getD 1000 }
    let k ← if kind == "src" then some HKind.src else if kind == "dst" then some HKind.dst else none
    pure { w with handlers := w.handlers ++ [{ name := name, kind := k, cfg := cfg,
                                               prov := (kvGet rest "seqp").getD "" }] }
  | "R" :: name :: rest => do
    let h ← findHandler w name
    let rc ← parseRemote rest
    -- add_config refuses a second entry for the same entity id value
    let remotes := if (lookupRemote h.cfg.remotes rc.entityId.val).isSome then h.cfg.remotes
                   else h.cfg.remotes ++ [rc]
    pure (setHandlerSt w { h with cfg := { h.cfg with remotes := remotes } })
  | "F" :: name :: rest => do
    let h ← findHandler w name
    let tbl0 := match h.kind with | .src => h.src.faults | .dst => h.dst.faults
    let tbl ← rest.foldlM (fun tbl tok =>
      match tok.splitOn "=" with
      | [c, f] => do setFaultHandler tbl (← condOfName c) (← fhOfName f)
      | _ => none) tbl0
    pure (setHandlerSt w (match h.kind with
      | .src => { h with src := { h.src with faults := tbl } }
      | .dst => { h with dst := { h.dst with faults := tbl } }))
  | ["file", name, path, hex] => do
    let h ← findHandler w name
    let d ← bytesOfHex hex
    pure (setHandlerSt w (setFs h ((fsOf h).set path (.file d))))
  | ["dir", name, path] => do
    let h ← findHandler w name
    pure (setHandlerSt w (setFs h ((fsOf h).set path .dir)))
  | ["rm", name, path] => do         -- the user deletes a file behind the handler's back
    let h ← findHandler w name
    pure (setHandlerSt w (setFs h ((fsOf h).del path)))
  | ["clock", ms] => do pure { w with now := ← ms.toNat? }
  | _ => none

def parseOp (t : List String) : Option Op :=
  match t with
  | ["tick", ms] => do pure (.tick (← ms.toNat?))
  | "put" :: h :: rest => do
    let dest ← parseId (← kvGet rest "dest")
    let mode := match (kvGet rest "mode").getD "-" with
      | "A" => some Mode.ack | "U" => some Mode.unack | _ => none
    let closure := match (kvGet rest "closure").getD "-" with
      | "1" => some true | "0" => some false | _ => none
    let msgs ← parseMsgs ((kvGet rest "msgs").getD "-")
    pure (.put h ⟨dest, parseOptStr (← kvGet rest "src"), parseOptStr (← kvGet rest "dst"), mode,
                  closure, msgs⟩)
  | ["sm", h, "-"] => some (.sm h none)
  | "sm" :: h :: "pdu" :: rest => do pure (.sm h (some (← parsePdu rest)))
  | ["get", h] => some (.get h)
  | ["cancel", h, a, b] => do pure (.cancel h ⟨← parseId a, ← parseId b⟩)
  | ["reset", h] => some (.reset h)
  | ["sethandler", h, c, f] => do pure (.setHandler h (← condOfName c) (← fhOfName f))
  | ["reject", h, n, e] => do
    let err ← if e == "PermissionError" then some FsErr.permission
              else if e == "FileNotFoundError" then some FsErr.fileNotFound else none
    pure (.reject h (← n.toNat?) err)
  | _ => none

/-! ### printing -/

def showId (e : EntityId) : String := s!"{e.val}/{e.width}"
def showTid (t : Tid) : String := s!"{showId t.src}:{showId t.seq}"
def showOptTid (t : Option Tid) : String := match t with | some t => showTid t | none => "None"
def showOptStr (s : Option String) : String := s.getD "-"
def b01 (b : Bool) : String := if b then "1" else "0"

def showMsg : Msg → String
  | .orig a b c d => s!"o{a}.{b}.{c}.{d}"
  | .proxyPutResp => "r"
  | .plain b => "x" ++ hexOfBytes b

def showHdr (h : Hdr) : String :=
  s!"dir={if h.dir = .toRecv then "R" else "S"} mode={if h.mode = .ack then "A" else "U"} " ++
  s!"crc={b01 h.crc} large={b01 h.large} src={showId h.src} dst={showId h.dst} seq={showId h.seq}"

def showFloc (f : Option EntityId) : String := match f with | some e => showId e | none => "-"

def showPdu (p : Pdu) : String :=
  let ln := s!" len={p.packetLen}"
  match p with
  | .md h closure cks size sname dname msgs =>
    let m := match msgs with
      | none => "-"
      | some [] => "-"
      | some l => ";".intercalate (l.map showMsg)
    s!"md {showHdr h} closure={b01 closure} cks={cks} size={size} sname={showOptStr sname} " ++
    s!"dname={showOptStr dname} msgs={m}" ++ ln
  | .fd h off data => s!"fd {showHdr h} off={off} data={hexOrDash data}" ++ ln
  | .eof h cond cks size floc =>
    s!"eof {showHdr h} cond={cond} cks={hexOfBytes cks} size={size} floc={showFloc floc}" ++ ln
  | .fin h fp =>
    s!"fin {showHdr h} cond={fp.cond} deliv={fp.deliv} fstat={fp.fstat} floc={showFloc fp.floc}" ++ ln
  | .ack h o c t => s!"ack {showHdr h} of={o} cond={c} tstat={t}" ++ ln
  | .nak h sos eos reqs =>
    let r := if reqs.isEmpty then "-" else ",".intercalate (reqs.map fun x => s!"{x.1}-{x.2}")
    s!"nak {showHdr h} sos={sos} eos={eos} reqs={r}" ++ ln
  | .ka h prog => s!"ka {showHdr h} prog={prog}" ++ ln
  | .pr h resp => s!"pr {showHdr h} resp={resp}" ++ ln

def showInd : Ind → String
  | .tx tid orig => s!"tx({showTid tid};{match orig with | some o => showTid o | none => "-"})"
  | .eofSent tid => s!"eofsent({showTid tid})"
  | .finished tid fp => s!"finished({showOptTid tid};{fp.cond};{fp.deliv};{fp.fstat})"
  | .mdRecv tid srcId size sname dname msgs =>
    let m := match msgs with
      | none => "-"
      | some l => "[" ++ ";".intercalate (l.map showMsg) ++ "]"
    s!"mdrecv({showOptTid tid};{showId srcId};{match size with | some n => toString n | none => "-"};" ++
    s!"{showOptStr sname};{showOptStr dname};{m})"
  | .segRecv tid off len => s!"segrecv({showOptTid tid};{off};{len})"
  | .eofRecv tid => s!"eofrecv({showTid tid})"

def showFlt (f : FaultCb) : String :=
  let k := if f.kind = fhCancel then "cancel" else if f.kind = fhSuspend then "suspend"
           else if f.kind = fhIgnore then "ignore" else "abandon"
  s!"{k}({showTid f.tid};{f.cond};{f.progress})"

def showFs (fs : Fs) : String :=
  if fs.isEmpty then "-" else
  ",".intercalate (fs.map fun e => match e.2 with
    | .dir => e.1 ++ "/"
    | .file d => e.1 ++ ":" ++ hexOrDash d)

def showErr : Err → String
  | .unretrievedPdus => "UnretrievedPdusToBeSent" | .invalidPduDirection => "InvalidPduDirection"
  | .invalidDestinationId => "InvalidDestinationId" | .invalidSourceId => "InvalidSourceId"
  | .invalidTransactionSeqNum => "InvalidTransactionSeqNum"
  | .noRemoteEntityCfg => "NoRemoteEntityCfgFound"
  | .invalidPduForSource => "InvalidPduForSourceHandler"
  | .invalidPduForDest => "InvalidPduForDestHandler" | .pduIgnoredForSource => "PduIgnoredForSource"
  | .pduIgnoredForDest => "PduIgnoredForDest" | .invalidNakPdu => "InvalidNakPdu"
  | .sourceFileDoesNotExist => "SourceFileDoesNotExist"
  | .checksumNotImplemented => "ChecksumNotImplemented"
  | .assertionError => "AssertionError" | .attributeError => "AttributeError"
  | .typeError => "TypeError" | .keyError => "KeyError" | .valueError => "ValueError"
  | .structError => "error" | .recursionError => "RecursionError"
  | .fileNotFoundError => "FileNotFoundError" | .permissionError => "PermissionError"
  | .isADirectoryError => "IsADirectoryError" | .notADirectoryError => "NotADirectoryError"

def showDStep : Dest.DStep → String
  | .IDLE => "IDLE" | .TRANSACTION_START => "TRANSACTION_START"
  | .WAITING_FOR_METADATA => "WAITING_FOR_METADATA" | .RECEIVING_FILE_DATA => "RECEIVING_FILE_DATA"
  | .RECV_FILE_DATA_WITH_CHECK_LIMIT_HANDLING => "RECV_FILE_DATA_WITH_CHECK_LIMIT_HANDLING"
  | .SENDING_EOF_ACK_PDU => "SENDING_EOF_ACK_PDU" | .WAITING_FOR_MISSING_DATA => "WAITING_FOR_MISSING_DATA"
  | .TRANSFER_COMPLETION => "TRANSFER_COMPLETION" | .SENDING_FINISHED_PDU => "SENDING_FINISHED_PDU"
  | .WAITING_FOR_FINISHED_ACK => "WAITING_FOR_FINISHED_ACK"

def showSStep : Source.SStep → String
  | .IDLE => "IDLE" | .TRANSACTION_START => "TRANSACTION_START"
  | .SENDING_METADATA => "SENDING_METADATA" | .SENDING_FILE_DATA => "SENDING_FILE_DATA"
  | .RETRANSMITTING => "RETRANSMITTING" | .SENDING_EOF => "SENDING_EOF"
  | .WAITING_FOR_EOF_ACK => "WAITING_FOR_EOF_ACK" | .WAITING_FOR_FINISHED => "WAITING_FOR_FINISHED"
  | .SENDING_ACK_OF_FINISHED => "SENDING_ACK_OF_FINISHED"
  | .NOTICE_OF_COMPLETION => "NOTICE_OF_COMPLETION"

def showState (s : CfdpState) : String := match s with | .idle => "IDLE" | .busy => "BUSY"

def joinOrDash (l : List String) : String := if l.isEmpty then "-" else ",".intercalate l

/-- the status part of an output line; `lastFs` is the snapshot printed last for this handler -/
def status (h : Handler) (lastFs : String) : String × String :=
  let snap := showFs (fsOf h)
  let fsTxt := if snap == lastFs then "same" else snap
  match h.kind with
  | .src =>
    let s := h.src
    (s!"st={showState s.state}/{showSStep s.step} rdy={s.numReady} prog={s.p.progress} " ++
     s!"fsz={s.p.fileSize} tid={match s.p.tid with | some t => showTid t | none => "-"} " ++
     s!"ctr=0/0/{s.p.ackCounter} def=0 | ind={joinOrDash (s.inds.map showInd)} | " ++
     s!"flt={joinOrDash (s.flts.map showFlt)} | fs={fsTxt}", snap)
  | .dst =>
    let s := h.dst
    (s!"st={showState s.state}/{showDStep s.step} rdy={s.numReady} prog={s.p.progress} " ++
     s!"fsz={match s.p.fileSize with | some n => toString n | none => "-"} " ++
     s!"tid={match s.p.tid with | some t => showTid t | none => "-"} " ++
     s!"ctr={s.p.checkCount}/{s.p.nakCounter}/{s.p.ackCounter} def={b01 s.p.deferredActive} | " ++
     s!"ind={joinOrDash (s.inds.map showInd)} | flt={joinOrDash (s.flts.map showFlt)} | fs={fsTxt}", snap)

def clearOutputs (h : Handler) : Handler :=
  { h with src := { h.src with inds := [], flts := [] }, dst := { h.dst with inds := [], flts := [] } }

def opHandler : Op → Option String
  | .put h _ | .sm h _ | .get h | .cancel h _ | .reset h | .setHandler h _ _ | .reject h _ _ => some h
  | .tick _ => none

structure DSt where
  w : World := {}
  lastFs : List (String × String) := []

def showRet : Ret → String
  | .none => "-"
  | .bool b => if b then "true" else "false"
  | .pdu none => "None"
  | .pdu (some p) => "[" ++ showPdu p ++ "]"
  | .now n => toString n

/-- one line of a world script (without the `W` prefix) -/
def stepLine (d : DSt) (t : List String) : DSt × String :=
  match t with
  | ["new"] => ({}, "ok")
  | ["go"] =>
    let last := d.w.handlers.map fun h => (h.name, showFs (fsOf h))
    ({ d with lastFs := last }, "ok go")
  | _ =>
    match t.head? with
    | some k =>
      if k == "P" || k == "H" || k == "R" || k == "F" || k == "file" || k == "dir" || k == "rm" || k == "clock" then
        match header d.w t with
        | some w => ({ d with w := w }, "ok")
        | none => (d, "bad-op")
      else
        match parseOp t with
        | none => (d, "bad-op")
        | some op =>
          match exec d.w op with
          | none => (d, "bad-op")
          | some (w, r) =>
            match op with
            | .tick _ => ({ d with w := w }, s!"ok now={w.now}")
            | _ =>
              match (opHandler op).bind (findHandler w) with
              | none => (d, "bad-op")
              | some h =>
                let (st, snap) := status h ((d.lastFs.lookup h.name).getD "-")
                let w' := setHandlerSt w (clearOutputs h)
                let last := (d.lastFs.filter (·.1 != h.name)) ++ [(h.name, snap)]
                let pre := match r.exc with
                  | some e => "exc " ++ showErr e
                  | none => "ok ret=" ++ showRet r.ret
                ({ w := w', lastFs := last }, pre ++ " " ++ st)
    | none => (d, "")

end Cfdp.DriverWorld
