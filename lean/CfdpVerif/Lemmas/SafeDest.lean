import CfdpVerif.Model.Dest
import CfdpVerif.Lemmas.StdDo
/-!
C10, destination handler: **no internal error, from every reachable state, for every PDU**.

`DInv` is an invariant of the destination state machine (`DInv init`, preserved by every public
call whether it returns or raises); from a state satisfying it no public call raises an assertion,
attribute, type, key, value or struct error.  Proved with the `Std.Do` verification-condition
generator (`mvcgen`) on the `EStateM` model: one Hoare triple per model method, small helpers
inlined, the generated conditions closed by `grind`.
-/
open Std.Do

set_option mvcgen.warning false
set_option linter.unusedSimpArgs false
set_option linter.unusedVariables false

namespace Cfdp

def Err.isInternal : Err → Bool
  | .assertionError | .attributeError | .typeError | .keyError | .valueError | .structError => true
  | _ => false

@[simp] theorem idle_iff_not_busy (x : CfdpState) : x = .idle ↔ ¬ x = .busy := by cases x <;> simp

namespace Dest.Safe
open Cfdp.Dest

/-- every condition the handler declares has an entry in the fault handler table -/
def FaultsOk (t : List (Nat × Nat)) : Prop :=
  t.lookup ccChecksumFailure ≠ none ∧ t.lookup ccFilestoreRejection ≠ none ∧
  t.lookup ccFileSizeError ≠ none ∧ t.lookup ccNakLimit ≠ none ∧ t.lookup ccCheckLimit ≠ none ∧
  t.lookup ccPositiveAckLimit ≠ none

/-- the invariant without its clause about the NAK timer (the deferred procedure is entered
without the timer and creates it) -/
def Core (s : DestSt) : Prop :=
  FaultsOk s.faults ∧
  (¬ s.state = .busy → s.step = .IDLE ∧ s.p.deferredActive = false) ∧
  (s.state = .busy → s.p.tid ≠ none ∧ s.p.remoteCfg ≠ none ∧
     ∀ rc, s.p.remoteCfg = some rc → maxSegReqs rc.maxPkt s.p.conf ≠ none) ∧
  (s.p.deferredActive = true → s.p.fileSizeEof ≠ none) ∧
  (s.step = .RECV_FILE_DATA_WITH_CHECK_LIMIT_HANDLING → s.p.checkTimer ≠ none ∧ s.p.fileSizeEof ≠ none) ∧
  (s.step = .WAITING_FOR_FINISHED_ACK → s.p.ackTimer ≠ none) ∧
  (s.step = .SENDING_EOF_ACK_PDU → s.p.fileSizeEof ≠ none) ∧
  (∀ e ∈ s.rejects, (Err.ofFs e).isInternal = false)

def TimerOk (s : DestSt) : Prop := s.p.deferredActive = true → s.p.procTimer ≠ none

/-- the invariant -/
def DInv (s : DestSt) : Prop := Core s ∧ TimerOk s

/-- postcondition "`Q` holds afterwards, and if the call raised, it was no internal error" -/
abbrev Good {α : Type} (Q : DestSt → Prop) : PostCond α (.except Err (.arg DestSt .pure)) :=
  post⟨fun _ s => ⌜Q s⌝, fun e s => ⌜Q s ∧ e.isInternal = false⌝⟩

theorem calc_4096 (t : Checksum.CksType) (d : List UInt8) (n : Nat) :
    Checksum.calcChecksum t d n 4096 ≠ .error .valueError := by
  unfold Checksum.calcChecksum
  cases t <;> simp

@[grind →] theorem calc_not_value (fs : Fs) (t : Checksum.CksType) (p : String) (n : Nat) (e : FsErr)
    (h : Fs.calcChecksum fs t p n 4096 = .error e) : (Err.ofFs e).isInternal = false := by
  unfold Fs.calcChecksum at h
  split at h
  · simp at h
  · split at h
    · split at h <;> simp at h <;> subst h <;> rfl
    · simp at h; subst h; rfl
    · rename_i d _
      have := calc_4096 t d n
      split at h
      · simp at h
      · simp_all
      · simp at h; subst h; rfl

@[grind →] theorem trunc_not_value (fs : Fs) (p : String) (e : FsErr) (h : Fs.truncateFile fs p = .error e) :
    (Err.ofFs e).isInternal = false := by
  unfold Fs.truncateFile at h
  split at h
  · split at h <;> simp at h <;> subst h <;> rfl
  · simp at h; subst h; rfl
  · simp at h

@[grind →] theorem write_not_value (fs : Fs) (p : String) (d : List UInt8) (o : Nat) (e : FsErr)
    (h : Fs.writeData fs p d o = .error e) : (Err.ofFs e).isInternal = false := by
  unfold Fs.writeData at h
  split at h
  · split at h <;> simp at h <;> subst h <;> rfl
  · simp at h; subst h; rfl
  · simp at h

/-- what a fault declaration that neither cancels nor abandons leaves unchanged -/
def Same (s0 s : DestSt) : Prop :=
  s.state = s0.state ∧ s.step = s0.step ∧ s.p.fileSizeEof = s0.p.fileSizeEof ∧
  s.p.checkTimer = s0.p.checkTimer ∧ s.p.ackTimer = s0.p.ackTimer ∧ s.p.conf = s0.p.conf ∧
  s.p.remoteCfg = s0.p.remoteCfg ∧ s.p.tid = s0.p.tid

syntax "dsafe" : tactic
macro_rules
  | `(tactic| dsafe) => `(tactic| all_goals (
      simp +zetaDelta only [DInv, Core, TimerOk, FaultsOk, Same, idle_iff_not_busy, Classical.not_not, ne_eq, Option.map_eq_none_iff, fhCancel, fhIgnore, fhAbandon, fhSuspend, Option.isSome_eq_false_iff,
        Option.isNone_iff_eq_none, Option.isSome_iff_ne_none, Option.not_isSome_iff_eq_none] at *; grind [Err.isInternal]))

theorem declareFault_spec (cond : Nat) (s0 : DestSt) :
    ⦃fun s => ⌜s = s0 ∧ Core s ∧ s.state = .busy⌝⦄ declareFault cond
    ⦃post⟨fun fh s => ⌜Core s ∧ (TimerOk s0 → TimerOk s) ∧ s.faults = s0.faults ∧
                        s0.faults.lookup cond = some fh ∧ (fh ≠ fhCancel → fh ≠ fhAbandon → Same s0 s)⌝,
          fun e s => ⌜Core s ∧ (TimerOk s0 → TimerOk s) ∧
                       (e.isInternal = false ∨ s0.faults.lookup cond = none)⌝⟩⦄ := by
  mvcgen [declareFault, noticeOfCancellation, abandonTransaction, resetInternal]
  dsafe

theorem checksumVerify_spec (s0 : DestSt) :
    ⦃fun s => ⌜s = s0 ∧ Core s ∧ s.state = .busy⌝⦄ checksumVerify
    ⦃post⟨fun r s => ⌜Core s ∧ (TimerOk s0 → TimerOk s) ∧ s.faults = s0.faults ∧
                       ((r = true ∨ s0.faults.lookup ccChecksumFailure = some fhIgnore) → Same s0 s)⌝,
          fun e s => ⌜Core s ∧ (TimerOk s0 → TimerOk s) ∧ e.isInternal = false⌝⟩⦄ := by
  mvcgen [checksumVerify, markComplete, declareFault, noticeOfCancellation, abandonTransaction, resetInternal,
    getP, modP]
  dsafe

theorem initVfsHandling_spec (b : String) :
    ⦃fun s => ⌜DInv s ∧ s.state = .busy⌝⦄ initVfsHandling b ⦃Good DInv⦄ := by
  mvcgen [initVfsHandling, declareFault, noticeOfCancellation, abandonTransaction, resetInternal, getP, modP]
  dsafe

theorem handleMetadataPacket_spec (h : Hdr) (closure : Bool) (cks size : Nat) (sname dname : Option String)
    (msgs : Option (List Msg)) :
    ⦃fun s => ⌜DInv s ∧ s.state = .busy⌝⦄ handleMetadataPacket h closure cks size sname dname msgs
    ⦃Good DInv⦄ := by
  mvcgen [handleMetadataPacket, getP, modP, emitInd, initVfsHandling_spec]
  dsafe

theorem handleFdWithoutPreviousMetadata_spec (first : Bool) (off : Nat) (data : List UInt8) :
    ⦃fun s => ⌜DInv s ∧ s.state = .busy⌝⦄ handleFdWithoutPreviousMetadata first off data ⦃Good DInv⦄ := by
  mvcgen [handleFdWithoutPreviousMetadata, getP, modP, addPacket]
  dsafe

theorem handleEofWithoutPreviousMetadata_spec (env : Env) (cond : Nat) (cks : List UInt8) (size : Nat) :
    ⦃fun s => ⌜DInv s ∧ s.state = .busy⌝⦄ handleEofWithoutPreviousMetadata env cond cks size ⦃Good DInv⦄ := by
  mvcgen [handleEofWithoutPreviousMetadata, getP, modP, addPacket, emitInd, triggerNoticeOfCompletionCanceled,
    prepareEofAckPacket]
  dsafe

theorem lostSegmentHandling_spec (off len : Nat) :
    ⦃fun s => ⌜DInv s ∧ s.state = .busy⌝⦄ lostSegmentHandling off len
    ⦃Good (fun s => DInv s ∧ s.state = .busy)⦄ := by
  mvcgen [lostSegmentHandling, getP, modP, addPacket]
  dsafe

theorem fdAfterWrite_spec (off : Nat) (data : List UInt8) (r : Option FsErr)
    (hr : ∀ e, r = some e → e = .fileNotFound ∨ e = .permission ∨ (Err.ofFs e).isInternal = false) :
    ⦃fun s => ⌜DInv s ∧ s.state = .busy⌝⦄ fdAfterWrite off data r ⦃Good DInv⦄ := by
  mvcgen [fdAfterWrite, sizeErrOf, getP, modP, declareFault_spec]
  dsafe

theorem vfsWriteData_spec (name : String) (data : List UInt8) (off : Nat) :
    ⦃fun s => ⌜DInv s ∧ s.state = .busy⌝⦄ vfsWriteData name data off
    ⦃post⟨fun r s => ⌜DInv s ∧ s.state = .busy ∧ ∀ e, r = some e →
              e = .fileNotFound ∨ e = .permission ∨ (Err.ofFs e).isInternal = false⌝,
          fun e s => ⌜DInv s ∧ e.isInternal = false⌝⟩⦄ := by
  mvcgen [vfsWriteData]
  dsafe

theorem handleFdPdu_spec (env : Env) (off : Nat) (data : List UInt8) :
    ⦃fun s => ⌜DInv s ∧ s.state = .busy⌝⦄ handleFdPdu env off data ⦃Good DInv⦄ := by
  mvcgen [handleFdPdu, fdIndication, fdLostSegments, fdWrite, transmissionMode, getP, emitInd,
    lostSegmentHandling_spec, vfsWriteData_spec, fdAfterWrite_spec]
  dsafe

theorem noErrorEofVerify_spec (env : Env) (s0 : DestSt) :
    ⦃fun s => ⌜s = s0 ∧ DInv s ∧ s.state = .busy ∧ s.p.fileSizeEof ≠ none⌝⦄ noErrorEofVerify env
    ⦃post⟨fun r s => ⌜DInv s ∧ (r = true → s.state = .busy ∧ s.p.fileSizeEof ≠ none)⌝,
          fun e s => ⌜DInv s ∧ e.isInternal = false⌝⟩⦄ := by
  mvcgen [noErrorEofVerify, transmissionMode, startCheckLimitHandling, assertThat, getP, modP,
    checksumVerify_spec]
  dsafe

theorem handleNoErrorEof_spec (env : Env) :
    ⦃fun s => ⌜DInv s ∧ s.state = .busy ∧ s.p.fileSizeEof ≠ none⌝⦄ handleNoErrorEof env
    ⦃post⟨fun r s => ⌜DInv s ∧ (r = true → s.state = .busy ∧ s.p.fileSizeEof ≠ none)⌝,
          fun e s => ⌜DInv s ∧ e.isInternal = false⌝⟩⦄ := by
  mvcgen [handleNoErrorEof, transmissionMode, getP, modP, declareFault_spec, noErrorEofVerify_spec]
  dsafe

theorem handleEofPdu_spec (env : Env) (cond : Nat) (cks : List UInt8) (size : Nat) :
    ⦃fun s => ⌜DInv s ∧ s.state = .busy⌝⦄ handleEofPdu env cond cks size ⦃Good DInv⦄ := by
  mvcgen [handleEofPdu, fileTransferCompleteTransition, prepareEofAckPacket, addPacket,
    triggerNoticeOfCompletionCanceled, transmissionMode, getP, modP, emitInd, handleNoErrorEof_spec]
  dsafe

theorem handleFdOrEofPdu_spec (env : Env) (pdu : Pdu) :
    ⦃fun s => ⌜DInv s ∧ s.state = .busy⌝⦄ handleFdOrEofPdu env pdu ⦃Good DInv⦄ := by
  mvcgen [handleFdOrEofPdu, handleFdPdu_spec, handleEofPdu_spec]
  dsafe

theorem handleWaitingForMissingMetadata_spec (env : Env) (pkt : Option Pdu) :
    ⦃fun s => ⌜DInv s ∧ s.state = .busy⌝⦄ handleWaitingForMissingMetadata env pkt ⦃Good DInv⦄ := by
  mvcgen [handleWaitingForMissingMetadata, resetNakActivityParameters, getP, modP,
    handleFdWithoutPreviousMetadata_spec, handleMetadataPacket_spec, handleEofWithoutPreviousMetadata_spec]
  dsafe

theorem deferredLostSegmentHandling_spec (env : Env) :
    ⦃fun s => ⌜Core s ∧ (TimerOk s ∨
        (s.p.canceled = false ∧ (s.p.trk.length ≠ 0 ∨ s.p.metadataMissing = true)))⌝⦄
    deferredLostSegmentHandling env ⦃Good DInv⦄ := by
  mvcgen [deferredLostSegmentHandling, getP, modP, addPackets, checksumVerify_spec, declareFault_spec]
  dsafe

theorem coalesceGo_ne_nil (cs ce : Nat) (t : Tracker.T) : Tracker.coalesceGo cs ce t ≠ [] := by
  induction t generalizing cs ce with
  | nil => simp [Tracker.coalesceGo]
  | cons y t ih =>
    unfold Tracker.coalesceGo
    split
    · exact ih _ _
    · simp

@[grind →] theorem coalesce_length (t : Tracker.T) (h : (Tracker.coalesce t).length = 0) : t.length = 0 := by
  cases t with
  | nil => rfl
  | cons x t =>
    simp only [Tracker.coalesce] at h
    exact absurd (List.eq_nil_of_length_eq_zero h) (coalesceGo_ne_nil _ _ _)

theorem startDeferredLostSegmentHandling_spec (env : Env) :
    ⦃fun s => ⌜DInv s ∧ s.state = .busy ∧ s.p.fileSizeEof ≠ none ∧ s.p.canceled = false ∧
               (s.p.trk.length ≠ 0 ∨ s.p.metadataMissing = true)⌝⦄
    startDeferredLostSegmentHandling env ⦃Good DInv⦄ := by
  mvcgen [startDeferredLostSegmentHandling, getP, modP, deferredLostSegmentHandling_spec]
  dsafe

theorem fsmAdvancementAfterPacketsWereSent_spec (env : Env) :
    ⦃fun s => ⌜DInv s⌝⦄ fsmAdvancementAfterPacketsWereSent env ⦃Good DInv⦄ := by
  mvcgen [fsmAdvancementAfterPacketsWereSent, startDeferredLostSegmentHandling_spec, checksumVerify_spec]
  dsafe

theorem checkLimitHandling_spec (env : Env) :
    ⦃fun s => ⌜DInv s ∧ s.step = .RECV_FILE_DATA_WITH_CHECK_LIMIT_HANDLING⌝⦄ checkLimitHandling env
    ⦃Good DInv⦄ := by
  mvcgen [checkLimitHandling, fileTransferCompleteTransition, prepareEofAckPacket, addPacket, transmissionMode,
    getP, modP, checksumVerify_spec, declareFault_spec]
  dsafe

theorem handleTransferCompletion_spec (env : Env) :
    ⦃fun s => ⌜DInv s ∧ s.step = .TRANSFER_COMPLETION⌝⦄ handleTransferCompletion env ⦃Good DInv⦄ := by
  mvcgen [handleTransferCompletion, noticeOfCompletion, transmissionMode, resetInternal, getP, emitInd]
  dsafe

theorem prepareFinishedPdu_spec :
    ⦃fun s => ⌜DInv s ∧ s.step = .SENDING_FINISHED_PDU⌝⦄ prepareFinishedPdu
    ⦃Good (fun s => DInv s ∧ s.step = .SENDING_FINISHED_PDU)⦄ := by
  mvcgen [prepareFinishedPdu, addPacket]
  dsafe

theorem handleFinishedPduSent_spec (env : Env) :
    ⦃fun s => ⌜DInv s ∧ s.step = .SENDING_FINISHED_PDU⌝⦄ handleFinishedPduSent env ⦃Good DInv⦄ := by
  mvcgen [handleFinishedPduSent, startPositiveAckProcedure, transmissionMode, resetInternal, getP, modP]
  dsafe

theorem handlePositiveAckProcedures_spec (env : Env) (recurse : DM Unit)
    (hr : ⦃fun s => ⌜DInv s⌝⦄ recurse ⦃Good DInv⦄) :
    ⦃fun s => ⌜DInv s ∧ s.step = .WAITING_FOR_FINISHED_ACK⌝⦄ handlePositiveAckProcedures env recurse
    ⦃Good DInv⦄ := by
  mvcgen [handlePositiveAckProcedures, declareFault, noticeOfCancellation, abandonTransaction, resetInternal,
    resendFinished, prepareFinishedPdu, getP, modP, addPacket, hr]
  dsafe

theorem handleWaitingForFinishedAck_spec (env : Env) (pkt : Option Pdu) (recurse : DM Unit)
    (hr : ⦃fun s => ⌜DInv s⌝⦄ recurse ⦃Good DInv⦄) :
    ⦃fun s => ⌜DInv s ∧ s.step = .WAITING_FOR_FINISHED_ACK⌝⦄ handleWaitingForFinishedAck env pkt recurse
    ⦃Good DInv⦄ := by
  have hp := handlePositiveAckProcedures_spec env recurse hr
  mvcgen [handleWaitingForFinishedAck, prepareEofAckPacket, addPacket, resetInternal, getP, hp]
  dsafe

/-! the `if step == …` chain of `__non_idle_fsm` -/

theorem fsmFromWaitingForFinishedAck_spec (env : Env) (pkt : Option Pdu) (recurse : DM Unit)
    (hr : ⦃fun s => ⌜DInv s⌝⦄ recurse ⦃Good DInv⦄) :
    ⦃fun s => ⌜DInv s⌝⦄ fsmFromWaitingForFinishedAck env pkt recurse ⦃Good DInv⦄ := by
  have h1 := handleWaitingForFinishedAck_spec env pkt recurse hr
  mvcgen [fsmFromWaitingForFinishedAck, h1]
  dsafe

theorem fsmFromSendingFinishedPdu_spec (env : Env) (pkt : Option Pdu) (recurse : DM Unit)
    (hr : ⦃fun s => ⌜DInv s⌝⦄ recurse ⦃Good DInv⦄) :
    ⦃fun s => ⌜DInv s⌝⦄ fsmFromSendingFinishedPdu env pkt recurse ⦃Good DInv⦄ := by
  have h1 := fsmFromWaitingForFinishedAck_spec env pkt recurse hr
  mvcgen [fsmFromSendingFinishedPdu, h1, prepareFinishedPdu_spec, handleFinishedPduSent_spec]
  dsafe

theorem fsmFromTransferCompletion_spec (env : Env) (pkt : Option Pdu) (recurse : DM Unit)
    (hr : ⦃fun s => ⌜DInv s⌝⦄ recurse ⦃Good DInv⦄) :
    ⦃fun s => ⌜DInv s⌝⦄ fsmFromTransferCompletion env pkt recurse ⦃Good DInv⦄ := by
  have h1 := fsmFromSendingFinishedPdu_spec env pkt recurse hr
  mvcgen [fsmFromTransferCompletion, h1, handleTransferCompletion_spec]
  dsafe

theorem fsmFromWaitingForMissingData_spec (env : Env) (pkt : Option Pdu) (recurse : DM Unit)
    (hr : ⦃fun s => ⌜DInv s⌝⦄ recurse ⦃Good DInv⦄) :
    ⦃fun s => ⌜DInv s⌝⦄ fsmFromWaitingForMissingData env pkt recurse ⦃Good DInv⦄ := by
  have h1 := fsmFromTransferCompletion_spec env pkt recurse hr
  mvcgen [fsmFromWaitingForMissingData, h1, handleFdPdu_spec, resetNakActivityParameters, prepareEofAckPacket,
    addPacket, getP, modP, deferredLostSegmentHandling_spec]
  dsafe

theorem fsmFromCheckLimit_spec (env : Env) (pkt : Option Pdu) (recurse : DM Unit)
    (hr : ⦃fun s => ⌜DInv s⌝⦄ recurse ⦃Good DInv⦄) :
    ⦃fun s => ⌜DInv s⌝⦄ fsmFromCheckLimit env pkt recurse ⦃Good DInv⦄ := by
  have h1 := fsmFromWaitingForMissingData_spec env pkt recurse hr
  mvcgen [fsmFromCheckLimit, h1, checkLimitHandling_spec]
  dsafe

theorem fsmFromWaitingForMetadata_spec (env : Env) (pkt : Option Pdu) (recurse : DM Unit)
    (hr : ⦃fun s => ⌜DInv s⌝⦄ recurse ⦃Good DInv⦄) :
    ⦃fun s => ⌜DInv s⌝⦄ fsmFromWaitingForMetadata env pkt recurse ⦃Good DInv⦄ := by
  have h1 := fsmFromCheckLimit_spec env pkt recurse hr
  mvcgen [fsmFromWaitingForMetadata, h1, handleWaitingForMissingMetadata_spec, deferredLostSegmentHandling_spec]
  dsafe

theorem fsmFromReceiving_spec (env : Env) (pkt : Option Pdu) (recurse : DM Unit)
    (hr : ⦃fun s => ⌜DInv s⌝⦄ recurse ⦃Good DInv⦄) :
    ⦃fun s => ⌜DInv s⌝⦄ fsmFromReceiving env pkt recurse ⦃Good DInv⦄ := by
  have h1 := fsmFromWaitingForMetadata_spec env pkt recurse hr
  mvcgen [fsmFromReceiving, h1, handleFdOrEofPdu_spec]
  dsafe

theorem nonIdleFsm_spec (env : Env) (pkt : Option Pdu) (recurse : DM Unit)
    (hr : ⦃fun s => ⌜DInv s⌝⦄ recurse ⦃Good DInv⦄) :
    ⦃fun s => ⌜DInv s⌝⦄ nonIdleFsm env pkt recurse ⦃Good DInv⦄ := by
  have h1 := fsmFromReceiving_spec env pkt recurse hr
  mvcgen [nonIdleFsm, h1, fsmAdvancementAfterPacketsWereSent_spec]
  dsafe

/-- the header of an inbound PDU is one the handler can answer: its source is a configured remote
entity and a NAK PDU with that header (large-file flag, CRC flag, id widths) and one segment
request fits the remote entity's maximum packet length.  (`maxSegReqs … = none` is the listed
finding `nak-base-exceeds-max-packet-len`.) -/
def HdrOk (env : Env) (h : Hdr) : Prop :=
  lookupRemote env.cfg.remotes h.src.val ≠ none ∧
  ∀ rc, lookupRemote env.cfg.remotes h.src.val = some rc →
    maxSegReqs rc.maxPkt { h with dir := .toSend } ≠ none

/-- what the admission check guarantees about a PDU handed to the idle state machine -/
def IdleAdm (env : Env) : Option Pdu → Prop
  | none => True
  | some (.md h ..) => HdrOk env h
  | some (.fd h ..) => HdrOk env h
  | some (.eof h ..) => HdrOk env h
  | some _ => False

theorem idleFsm_spec (env : Env) (pkt : Option Pdu) :
    ⦃fun s => ⌜DInv s ∧ ¬ s.state = .busy ∧ IdleAdm env pkt⌝⦄ idleFsm env pkt ⦃Good DInv⦄ := by
  mvcgen [idleFsm, startTransaction, commonFirstPacketNotMetadataPduHandler, commonFirstPacketHandler, modP,
    handleMetadataPacket_spec, handleFdWithoutPreviousMetadata_spec, handleEofWithoutPreviousMetadata_spec]
  all_goals (simp only [IdleAdm, HdrOk] at *)
  dsafe

/-- `Fits env pkt`: a NAK PDU with the inbound PDU's header and one segment request fits the
maximum packet length configured for its sender (hypothesis of the theorem; violated exactly by
the configurations of the listed finding) -/
def Fits (env : Env) (pkt : Option Pdu) : Prop :=
  ∀ pdu, pkt = some pdu → ∀ rc, lookupRemote env.cfg.remotes pdu.hdr.src.val = some rc →
    maxSegReqs rc.maxPkt { pdu.hdr with dir := .toSend } ≠ none

theorem checkInsertedPacket_spec (env : Env) (pdu : Pdu) (hf : Fits env (some pdu)) (s0 : DestSt) :
    ⦃fun s => ⌜s = s0⌝⦄ checkInsertedPacket env pdu
    ⦃post⟨fun _ s => ⌜s = s0 ∧ (¬ s0.state = .busy → IdleAdm env (some pdu))⌝,
          fun e s => ⌜s = s0 ∧ e.isInternal = false⌝⟩⦄ := by
  mvcgen [checkInsertedPacket, handleFirstPacketNotMetadataPdu, transmissionMode]
  all_goals (try simp only [Fits] at hf)
  all_goals (try (cases pdu <;> simp_all +zetaDelta [IdleAdm, HdrOk, Pdu.hdr, Err.isInternal]))

theorem stateMachineWith_spec (env : Env) (pkt : Option Pdu) (recurse : DM Unit) (hf : Fits env pkt)
    (hr : ⦃fun s => ⌜DInv s⌝⦄ recurse ⦃Good DInv⦄) :
    ⦃fun s => ⌜DInv s⌝⦄ stateMachineWith env pkt recurse ⦃Good DInv⦄ := by
  have h1 := nonIdleFsm_spec env pkt recurse hr
  mvcgen [stateMachineWith, h1, checkInsertedPacket_spec, idleFsm_spec]
  all_goals (subst_vars; simp_all [IdleAdm])


theorem stateMachine_spec (env : Env) (pkt : Option Pdu) (hf : Fits env pkt) :
    ⦃fun s => ⌜DInv s⌝⦄ stateMachine env pkt ⦃Good DInv⦄ := by
  unfold stateMachine
  have fitsNone : Fits env none := by intro pdu h; cases h
  have h0 : ⦃fun s => ⌜DInv s⌝⦄ (throw .recursionError : DM Unit) ⦃Good DInv⦄ := by
    mvcgen
    all_goals simp_all [Err.isInternal]
  exact stateMachineWith_spec env pkt _ hf
    (stateMachineWith_spec env none _ fitsNone (stateMachineWith_spec env none _ fitsNone h0))

theorem getNextPacket_spec : ⦃fun s => ⌜DInv s⌝⦄ getNextPacket ⦃Good DInv⦄ := by
  mvcgen [getNextPacket]
  dsafe

theorem cancelRequest_spec (env : Env) (tid : Tid) : ⦃fun s => ⌜DInv s⌝⦄ cancelRequest env tid ⦃Good DInv⦄ := by
  mvcgen [cancelRequest, triggerNoticeOfCompletionCanceled, modP]
  dsafe

theorem reset_spec : ⦃fun s => ⌜DInv s⌝⦄ reset ⦃Good DInv⦄ := by
  mvcgen [reset, resetInternal]
  dsafe

end Dest.Safe
end Cfdp
