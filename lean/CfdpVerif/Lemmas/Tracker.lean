import CfdpVerif.Model.Tracker
/-!
Helper lemmas for C18: the tracker as an interval set.
-/
namespace Cfdp.Tracker

/-- Well-formedness relative to a lower bound: ranges ascending, non-empty, non-overlapping
(`e ≤ s'` for consecutive ranges), and all at or above `lo`. -/
def WFfrom (lo : Nat) : T → Prop
  | [] => True
  | x :: t => lo ≤ x.1 ∧ x.1 < x.2 ∧ WFfrom x.2 t

/-- Strict separation (`e < s'`): what `coalesce` establishes. -/
def SepFrom (lo : Nat) : T → Prop
  | [] => True
  | x :: t => lo < x.1 ∧ x.1 < x.2 ∧ SepFrom x.2 t

abbrev WF (t : T) : Prop := WFfrom 0 t

/-- the set of bytes denoted by the listing -/
def den (t : T) (x : Nat) : Prop := ∃ p ∈ t, p.1 ≤ x ∧ x < p.2

@[simp] theorem den_nil (x : Nat) : den [] x ↔ False := by simp [den]

@[simp] theorem den_cons (p : Seg) (t : T) (x : Nat) :
    den (p :: t) x ↔ (p.1 ≤ x ∧ x < p.2) ∨ den t x := by
  simp [den]

theorem WFfrom_mono {lo lo' : Nat} {t : T} (h : WFfrom lo t) (hl : lo' ≤ lo) : WFfrom lo' t := by
  cases t with
  | nil => trivial
  | cons x t => exact ⟨Nat.le_trans hl h.1, h.2.1, h.2.2⟩

theorem den_ge_of_WFfrom {lo : Nat} {t : T} (h : WFfrom lo t) {x : Nat} (hx : den t x) :
    lo ≤ x := by
  induction t generalizing lo with
  | nil => simp at hx
  | cons p t ih =>
    obtain ⟨h1, h2, h3⟩ := h
    rcases (den_cons p t x).1 hx with hx | hx
    · omega
    · have := ih h3 hx; omega

/-! ### add -/

theorem add_spec {lo : Nat} {t : T} {a b : Nat} (h : WFfrom lo t) (hab : a < b) (hlo : lo ≤ a)
    (hdisj : ∀ x, a ≤ x → x < b → ¬ den t x) :
    WFfrom lo (add t (a, b)) ∧ ∀ x, den (add t (a, b)) x ↔ (den t x ∨ (a ≤ x ∧ x < b)) := by
  induction t generalizing lo with
  | nil => simp [add, WFfrom, hab, hlo]
  | cons p t ih =>
    obtain ⟨h1, h2, h3⟩ := h
    have hp : ∀ x, a ≤ x → x < b → ¬ (p.1 ≤ x ∧ x < p.2) := fun x hx1 hx2 hc =>
      hdisj x hx1 hx2 ((den_cons p t x).2 (Or.inl hc))
    have ht : ∀ x, a ≤ x → x < b → ¬ den t x := fun x hx1 hx2 hc =>
      hdisj x hx1 hx2 ((den_cons p t x).2 (Or.inr hc))
    unfold add
    simp only
    split
    · -- a < p.1 : must have b ≤ p.1
      rename_i hlt
      have hb : b ≤ p.1 := by
        rcases Nat.lt_or_ge p.1 b with hc | hc
        · exact absurd ⟨Nat.le_refl _, h2⟩ (hp p.1 (Nat.le_of_lt hlt) hc)
        · exact hc
      refine ⟨⟨hlo, hab, hb, h2, h3⟩, ?_⟩
      intro x; simp only [den_cons]; grind
    · rename_i hnlt
      split
      · -- a = p.1 : impossible, a would be in den
        rename_i heq
        have heq' : a = p.1 := heq
        exact absurd ⟨by omega, by omega⟩ (hp a (Nat.le_refl _) hab)
      · rename_i hne
        have hgt : p.1 < a := by
          have : ¬ a = p.1 := hne
          have : ¬ a < p.1 := hnlt
          omega
        -- a ≥ p.2 since a ∉ [p.1,p.2)
        have hge : p.2 ≤ a := by
          rcases Nat.lt_or_ge a p.2 with hc | hc
          · exact absurd ⟨Nat.le_of_lt hgt, hc⟩ (hp a (Nat.le_refl _) hab)
          · exact hc
        obtain ⟨ih1, ih2⟩ := ih h3 hge ht
        refine ⟨⟨h1, h2, ih1⟩, ?_⟩
        intro x; simp only [den_cons, ih2]; grind

/-! ### lookup / erase / findContaining -/

theorem lookup_none_of_lt {lo : Nat} {t : T} {k : Nat} (h : WFfrom lo t) (hk : k < lo) :
    lookup t k = none := by
  induction t generalizing lo with
  | nil => rfl
  | cons p t ih =>
    obtain ⟨h1, h2, h3⟩ := h
    unfold lookup
    have : ¬ p.1 = k := by omega
    simp only [this, if_false]
    exact ih h3 (by omega)

theorem findContaining_none_of_le {lo : Nat} {t : T} {a : Nat} (h : WFfrom lo t) (ha : a ≤ lo) :
    findContaining t a = none := by
  induction t generalizing lo with
  | nil => rfl
  | cons p t ih =>
    obtain ⟨h1, h2, h3⟩ := h
    unfold findContaining
    have : ¬ (p.1 < a ∧ a < p.2) := by omega
    simp only [this, if_false]
    exact ih h3 (by omega)

theorem erase_of_lt {lo : Nat} {t : T} {k : Nat} (h : WFfrom lo t) (hk : k < lo) :
    erase t k = t := by
  induction t generalizing lo with
  | nil => rfl
  | cons p t ih =>
    obtain ⟨h1, h2, h3⟩ := h
    unfold erase
    have : ¬ p.1 = k := by omega
    simp only [this, if_false]
    rw [ih h3 (by omega)]

/-- if `a` lies in no tracked range then neither dictionary probe of `remove` hits -/
theorem probes_none {lo : Nat} {t : T} {a : Nat} (h : WFfrom lo t) (ha : ¬ den t a) :
    lookup t a = none ∧ findContaining t a = none := by
  induction t generalizing lo with
  | nil => exact ⟨rfl, rfl⟩
  | cons p t ih =>
    obtain ⟨h1, h2, h3⟩ := h
    have hp : ¬ (p.1 ≤ a ∧ a < p.2) := fun hc => ha ((den_cons p t a).2 (Or.inl hc))
    have ht : ¬ den t a := fun hc => ha ((den_cons p t a).2 (Or.inr hc))
    obtain ⟨i1, i2⟩ := ih h3 ht
    unfold lookup findContaining
    have e1 : ¬ p.1 = a := by omega
    have e2 : ¬ (p.1 < a ∧ a < p.2) := by omega
    simp only [e1, e2, if_false]
    exact ⟨i1, i2⟩

theorem mem_ge_of_WFfrom {lo : Nat} {t : T} (h : WFfrom lo t) {q : Seg} (hq : q ∈ t) :
    lo ≤ q.1 ∧ q.1 < q.2 := by
  induction t generalizing lo with
  | nil => simp at hq
  | cons p t ih =>
    obtain ⟨h1, h2, h3⟩ := h
    rcases List.mem_cons.1 hq with rfl | hq
    · exact ⟨h1, h2⟩
    · have := ih h3 hq; omega

theorem findContaining_mem {t : T} {a : Nat} {se : Seg} (h : findContaining t a = some se) :
    se ∈ t ∧ se.1 < a ∧ a < se.2 := by
  induction t with
  | nil => simp [findContaining] at h
  | cons p t ih =>
    unfold findContaining at h
    split at h
    · simp only [Option.some.injEq] at h; subst h; rename_i hc; exact ⟨List.mem_cons_self, hc⟩
    · have := ih h; exact ⟨List.mem_cons_of_mem _ this.1, this.2⟩

def RemoveRes.consHead (p : Seg) : RemoveRes → RemoveRes
  | .ok c t => .ok c (p :: t)
  | .valueError => .valueError

theorem add_cons_skip (p : Seg) (u : T) (k v : Nat) (hk : p.1 < k) :
    add (p :: u) (k, v) = p :: add u (k, v) := by
  have h1 : ¬ k < p.1 := by omega
  have h2 : ¬ k = p.1 := by omega
  simp [add, h1, h2]

/-- a removal that starts at or after the end of the head range does not look at the head -/
theorem remove_cons_skip {lo : Nat} {p : Seg} {t : T} {a b : Nat} (h : WFfrom lo (p :: t))
    (hpa : p.2 ≤ a) (hab : a < b) :
    remove (p :: t) a b = (remove t a b).consHead p := by
  obtain ⟨h1, h2, h3⟩ := h
  have hne : ¬ a = b := by omega
  have hk : ¬ p.1 = a := by omega
  have hc : ¬ (p.1 < a ∧ a < p.2) := by omega
  have hlk : lookup (p :: t) a = lookup t a := by simp [lookup, hk]
  have hfc : findContaining (p :: t) a = findContaining t a := by simp [findContaining, hc]
  have her : erase (p :: t) a = p :: erase t a := by simp [erase, hk]
  unfold remove
  simp only [hne, if_false, hlk, hfc, her]
  cases hl : lookup t a with
  | some e' =>
    simp only
    split
    · rfl
    · split
      · rfl
      · rw [add_cons_skip p _ b e' (by omega)]; rfl
  | none =>
    simp only
    cases hf : findContaining t a with
    | none => rfl
    | some se =>
      simp only
      have hm := findContaining_mem hf
      have hse := mem_ge_of_WFfrom h3 hm.1
      split
      · rfl
      · split
        · rw [add_cons_skip p _ se.1 a (by omega)]; rfl
        · rw [add_cons_skip p _ se.1 a (by omega), add_cons_skip p _ b se.2 (by omega)]; rfl

/-! ### the full contract of `remove` for a range starting inside a tracked range -/

/-- `(s,e)` is tracked, `s ≤ a < e`, `a < b`. Then: `b ≤ e` removes exactly `[a,b)`;
`b > e` is refused. -/
theorem remove_inside {lo : Nat} {t : T} {s e a b : Nat} (h : WFfrom lo t) (hm : (s, e) ∈ t)
    (hsa : s ≤ a) (hae : a < e) (hab : a < b) :
    (e < b → remove t a b = .valueError) ∧
    (b ≤ e → ∃ t', remove t a b = .ok true t' ∧ WFfrom lo t' ∧
        ∀ x, den t' x ↔ (den t x ∧ ¬ (a ≤ x ∧ x < b))) := by
  induction t generalizing lo with
  | nil => simp at hm
  | cons p t ih =>
    obtain ⟨h1, h2, h3⟩ := h
    have hne : ¬ a = b := by omega
    rcases List.mem_cons.1 hm with hpe | hmt
    · -- the head is the containing range
      subst hpe
      simp only at h1 h2 h3
      by_cases hkey : s = a
      · -- exact key hit
        subst hkey
        have hl : lookup ((s, e) :: t) s = some e := by simp [lookup]
        have her : erase ((s, e) :: t) s = t := by simp [erase]
        refine ⟨fun hb => ?_, fun hb => ?_⟩
        · simp [remove, hne, hl, hb]
        · by_cases hbe : b = e
          · subst hbe
            refine ⟨t, by simp [remove, hne, hl, her], WFfrom_mono h3 (by omega), ?_⟩
            intro x; simp only [den_cons]
            constructor
            · intro hx
              have := den_ge_of_WFfrom h3 hx
              exact ⟨Or.inr hx, by omega⟩
            · rintro ⟨hx | hx, hn⟩
              · omega
              · exact hx
          · have hlt : b < e := by omega
            have hng : ¬ b > e := by omega
            have hadd := add_spec (lo := b) (t := t) (a := b) (b := e)
              (WFfrom_mono h3 (by omega)) hlt (Nat.le_refl _)
              (fun x hx1 hx2 hc => by have := den_ge_of_WFfrom h3 hc; omega)
            refine ⟨add t (b, e), by simp [remove, hne, hl, her, hng, hbe], ?_, ?_⟩
            · exact WFfrom_mono hadd.1 (by omega)
            · intro x; simp only [den_cons, hadd.2]
              constructor
              · rintro (hx | hx)
                · have := den_ge_of_WFfrom h3 hx
                  exact ⟨Or.inr hx, by omega⟩
                · exact ⟨Or.inl (by omega), by omega⟩
              · rintro ⟨hx | hx, hn⟩
                · exact Or.inr (by omega)
                · exact Or.inl hx
      · -- s < a : found by the loop, not by the key probe
        have hsa' : s < a := by omega
        have hl : lookup ((s, e) :: t) a = none := by
          simp only [lookup, hkey, if_false]
          exact lookup_none_of_lt h3 hae
        have hf : findContaining ((s, e) :: t) a = some (s, e) := by
          simp [findContaining, hsa', hae]
        refine ⟨fun hb => ?_, fun hb => ?_⟩
        · simp [remove, hne, hl, hf, hb]
        · have hadd1 : add ((s, e) :: t) (s, a) = (s, a) :: t := by simp [add]
          by_cases hbe : b = e
          · subst hbe
            refine ⟨(s, a) :: t, by simp [remove, hne, hl, hf, hadd1], ?_, ?_⟩
            · exact ⟨h1, hsa', WFfrom_mono h3 (by simp only; omega)⟩
            · intro x; simp only [den_cons]
              constructor
              · rintro (hx | hx)
                · exact ⟨Or.inl (by omega), by omega⟩
                · have := den_ge_of_WFfrom h3 hx
                  exact ⟨Or.inr hx, by omega⟩
              · rintro ⟨hx | hx, hn⟩
                · exact Or.inl (by omega)
                · exact Or.inr hx
          · have hlt : b < e := by omega
            have hng : ¬ b > e := by omega
            have hadd := add_spec (lo := b) (t := t) (a := b) (b := e)
              (WFfrom_mono h3 (by omega)) hlt (Nat.le_refl _)
              (fun x hx1 hx2 hc => by have := den_ge_of_WFfrom h3 hc; omega)
            have hadd2 : add ((s, a) :: t) (b, e) = (s, a) :: add t (b, e) := by
              have : ¬ b < s := by omega
              have : ¬ b = s := by omega
              simp [add, *]
            refine ⟨(s, a) :: add t (b, e),
              by simp [remove, hne, hl, hf, hadd1, hadd2, hng, hbe], ?_, ?_⟩
            · exact ⟨h1, hsa', WFfrom_mono hadd.1 (by simp only; omega)⟩
            · intro x; simp only [den_cons, hadd.2]
              constructor
              · rintro (hx | hx | hx)
                · exact ⟨Or.inl (by omega), by omega⟩
                · have := den_ge_of_WFfrom h3 hx
                  exact ⟨Or.inr hx, by omega⟩
                · exact ⟨Or.inl (by omega), by omega⟩
              · rintro ⟨hx | hx, hn⟩
                · omega
                · exact Or.inr (Or.inl hx)
    · -- the containing range is in the tail
      have hge : p.2 ≤ s := by
        have : den t s := ⟨(s, e), hmt, Nat.le_refl _, by simp only; omega⟩
        exact den_ge_of_WFfrom h3 this
      obtain ⟨ihV, ihO⟩ := ih h3 hmt
      have hskip := remove_cons_skip (lo := lo) (p := p) (t := t) (a := a) (b := b)
        ⟨h1, h2, h3⟩ (by omega) hab
      refine ⟨fun hb => ?_, fun hb => ?_⟩
      · rw [hskip, ihV hb]; rfl
      · obtain ⟨t', ht', hwf', hden'⟩ := ihO hb
        refine ⟨p :: t', by rw [hskip, ht']; rfl, ⟨h1, h2, hwf'⟩, ?_⟩
        intro x; simp only [den_cons, hden']
        constructor
        · rintro (hx | hx)
          · exact ⟨Or.inl hx, by omega⟩
          · exact ⟨Or.inr hx.1, hx.2⟩
        · rintro ⟨hx | hx, hn⟩
          · exact Or.inl hx
          · exact Or.inr ⟨hx, hn⟩

/-! ### removals that touch nothing -/

theorem remove_empty (t : T) (a : Nat) : remove t a a = .ok false t := by simp [remove]

theorem remove_untouched {lo : Nat} {t : T} {a b : Nat} (h : WFfrom lo t) (ha : ¬ den t a) :
    remove t a b = .ok false t := by
  obtain ⟨h1, h2⟩ := probes_none h ha
  unfold remove
  split
  · rfl
  · simp [h1, h2]

/-! ### coalesce -/

def StrictFrom (lo : Nat) : T → Prop
  | [] => True
  | x :: t => lo < x.1 ∧ x.1 < x.2 ∧ StrictFrom x.2 t

/-- no two consecutive ranges touch or overlap -/
def Separated : T → Prop
  | [] => True
  | [_] => True
  | x :: y :: t => x.2 < y.1 ∧ Separated (y :: t)

theorem WFfrom_of_StrictFrom {lo : Nat} {t : T} (h : StrictFrom lo t) : WFfrom lo t := by
  induction t generalizing lo with
  | nil => trivial
  | cons p t ih => exact ⟨Nat.le_of_lt h.1, h.2.1, ih h.2.2⟩

theorem Separated_cons_of_StrictFrom {p : Seg} {t : T} (h : StrictFrom p.2 t) :
    Separated (p :: t) := by
  induction t generalizing p with
  | nil => trivial
  | cons q t ih => exact ⟨h.1, ih h.2.2⟩

theorem coalesceGo_spec {cs ce : Nat} {t : T} (hc : cs < ce) (h : WFfrom ce t) :
    ∃ ce' rest, coalesceGo cs ce t = (cs, ce') :: rest ∧ ce ≤ ce' ∧ StrictFrom ce' rest ∧
      ∀ x, den ((cs, ce') :: rest) x ↔ ((cs ≤ x ∧ x < ce) ∨ den t x) := by
  induction t generalizing cs ce with
  | nil => exact ⟨ce, [], rfl, Nat.le_refl _, trivial, by intro x; simp⟩
  | cons p t ih =>
    obtain ⟨h1, h2, h3⟩ := h
    unfold coalesceGo
    split
    · rename_i heq
      obtain ⟨ce', rest, e1, e2, e3, e4⟩ := ih (cs := cs) (ce := p.2) (by omega) h3
      refine ⟨ce', rest, e1, by omega, e3, ?_⟩
      intro x; rw [e4]; simp only [den_cons]
      constructor
      · rintro (hx | hx)
        · by_cases hxx : x < ce
          · exact Or.inl ⟨hx.1, hxx⟩
          · exact Or.inr (Or.inl ⟨by omega, hx.2⟩)
        · exact Or.inr (Or.inr hx)
      · rintro (hx | hx | hx)
        · exact Or.inl ⟨hx.1, by omega⟩
        · exact Or.inl ⟨by omega, hx.2⟩
        · exact Or.inr hx
    · rename_i hne
      obtain ⟨ce', rest, e1, e2, e3, e4⟩ := ih (cs := p.1) (ce := p.2) h2 h3
      refine ⟨ce, (p.1, ce') :: rest, by rw [e1], Nat.le_refl _, ⟨by omega, by simp only; omega, e3⟩, ?_⟩
      intro x
      have := e4 x
      simp only [den_cons] at this ⊢
      rw [this]

theorem coalesce_spec {lo : Nat} {t : T} (h : WFfrom lo t) :
    WFfrom lo (coalesce t) ∧ Separated (coalesce t) ∧ ∀ x, den (coalesce t) x ↔ den t x := by
  cases t with
  | nil => exact ⟨trivial, trivial, fun x => Iff.rfl⟩
  | cons p t =>
    obtain ⟨h1, h2, h3⟩ := h
    obtain ⟨ce', rest, e1, e2, e3, e4⟩ := coalesceGo_spec h2 h3
    show WFfrom lo (coalesceGo p.1 p.2 t) ∧ Separated (coalesceGo p.1 p.2 t) ∧
      ∀ x, den (coalesceGo p.1 p.2 t) x ↔ den (p :: t) x
    rw [e1]
    refine ⟨⟨h1, by simp only; omega, WFfrom_of_StrictFrom e3⟩, Separated_cons_of_StrictFrom e3, ?_⟩
    intro x; rw [e4]; simp only [den_cons]

/-- coalescing an already separated listing changes nothing -/
theorem coalesceGo_of_strict {cs ce : Nat} {t : T} (h : StrictFrom ce t) :
    coalesceGo cs ce t = (cs, ce) :: t := by
  induction t generalizing cs ce with
  | nil => rfl
  | cons p t ih =>
    obtain ⟨h1, h2, h3⟩ := h
    unfold coalesceGo
    have : ¬ p.1 = ce := by omega
    simp only [this, if_false]
    rw [ih h3]

end Cfdp.Tracker
