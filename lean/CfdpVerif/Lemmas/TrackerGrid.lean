import CfdpVerif.Props.C18
import CfdpVerif.Model.Dest
/-!
C06: the lost-segment listing on a segment grid.  Helper definitions and lemmas for the every-history
theorems of `Props/C06.lean`: where the boundaries of a listing come from (`Bounds`), the effect of
`_lost_segment_handling` and of the EOF on (last start, last end, listing) as pure functions
(`TS.tile`, `TS.eof`), and the invariant `TInv` with its preservation by every tile arrival and by the EOF.
-/
set_option linter.unusedSimpArgs false
set_option linter.unusedVariables false

namespace Cfdp.Tracker
/-! ### where the boundaries of a listing come from -/

/-- every boundary of the listing satisfies `P` -/
def Bounds (P : Nat → Prop) (t : T) : Prop := ∀ r ∈ t, P r.1 ∧ P r.2

theorem mem_add {t : T} {x r : Seg} (h : r ∈ add t x) : r = x ∨ r ∈ t := by
  induction t with
  | nil => simp [add] at h; exact Or.inl h
  | cons y t ih =>
    unfold add at h
    split at h
    · simp at h; rcases h with h | h | h
      · exact Or.inl h
      · exact Or.inr (by simp [h])
      · exact Or.inr (by simp [h])
    · split at h
      · simp at h; rcases h with h | h
        · exact Or.inl h
        · exact Or.inr (by simp [h])
      · simp at h; rcases h with h | h
        · exact Or.inr (by simp [h])
        · rcases ih h with h | h
          · exact Or.inl h
          · exact Or.inr (by simp [h])

theorem mem_erase {t : T} {k : Nat} {r : Seg} (h : r ∈ erase t k) : r ∈ t := by
  induction t with
  | nil => simp [erase] at h
  | cons y t ih =>
    unfold erase at h
    split at h
    · exact List.mem_cons_of_mem _ h
    · simp at h; rcases h with h | h
      · simp [h]
      · exact List.mem_cons_of_mem _ (ih h)

theorem lookup_mem {t : T} {k e : Nat} (h : lookup t k = some e) : (k, e) ∈ t := by
  induction t with
  | nil => simp [lookup] at h
  | cons y t ih =>
    unfold lookup at h
    split at h
    · rename_i hk
      simp at h
      have : y = (k, e) := by cases y; simp at hk h ⊢; exact ⟨hk, h⟩
      simp [this]
    · exact List.mem_cons_of_mem _ (ih h)

theorem Bounds.add {P : Nat → Prop} {t : T} {x : Seg} (h : Bounds P t) (h1 : P x.1) (h2 : P x.2) :
    Bounds P (Tracker.add t x) := by
  intro r hr
  rcases mem_add hr with rfl | hr
  · exact ⟨h1, h2⟩
  · exact h r hr

theorem Bounds.erase {P : Nat → Prop} {t : T} {k : Nat} (h : Bounds P t) : Bounds P (Tracker.erase t k) :=
  fun r hr => h r (mem_erase hr)

theorem Bounds.remove {P : Nat → Prop} {t t' : T} {a b : Nat} {c : Bool} (h : Bounds P t) (ha : P a) (hb : P b)
    (hr : Tracker.remove t a b = .ok c t') : Bounds P t' := by
  unfold Tracker.remove at hr
  split at hr
  · cases hr; exact h
  · split at hr
    · rename_i e he
      have hm := h _ (lookup_mem he)
      split at hr
      · cases hr
      · split at hr
        · cases hr; exact h.erase
        · cases hr; exact Bounds.add (x := (b, e)) h.erase hb hm.2
    · split at hr
      · cases hr; exact h
      · rename_i se hse
        have hm := h _ (findContaining_mem hse).1
        split at hr
        · cases hr
        · split at hr
          · cases hr; exact Bounds.add (x := (se.1, a)) h hm.1 ha
          · cases hr; exact Bounds.add (x := (b, se.2)) (Bounds.add (x := (se.1, a)) h hm.1 ha) hb hm.2

theorem Bounds.coalesceGo {P : Nat → Prop} {t : T} {cs ce : Nat} (h : Bounds P t) (h1 : P cs) (h2 : P ce) :
    Bounds P (Tracker.coalesceGo cs ce t) := by
  induction t generalizing cs ce with
  | nil => intro r hr; simp [Tracker.coalesceGo] at hr; subst hr; exact ⟨h1, h2⟩
  | cons y t ih =>
    have hy := h y List.mem_cons_self
    have ht : Bounds P t := fun r hr => h r (List.mem_cons_of_mem _ hr)
    unfold Tracker.coalesceGo
    split
    · exact ih ht h1 hy.2
    · intro r hr
      simp at hr
      rcases hr with rfl | hr
      · exact ⟨h1, h2⟩
      · exact ih ht hy.1 hy.2 r hr

theorem Bounds.coalesce {P : Nat → Prop} {t : T} (h : Bounds P t) : Bounds P (Tracker.coalesce t) := by
  cases t with
  | nil => exact h
  | cons y t =>
    have hy := h y List.mem_cons_self
    exact Bounds.coalesceGo (fun r hr => h r (List.mem_cons_of_mem _ hr)) hy.1 hy.2

end Cfdp.Tracker

namespace Cfdp.C06
open Cfdp Cfdp.Dest Cfdp.Tracker

/-! ## The tracker is exactly what is missing — for every arrival history on a segment grid -/

/-- the three fields `_lost_segment_handling` works on -/
structure TS where
  ls : Nat
  le : Nat
  trk : Tracker.T
  deriving DecidableEq, Repr

/-- effect of `_lost_segment_handling` for a File Data PDU covering `[a, b)` -/
def TS.tile (s : TS) (a b : Nat) : TS :=
  let trk1 := if a > s.le then Tracker.add s.trk (s.le, a) else s.trk
  let ls1 := if a ≥ s.le then a else s.ls
  let le1 := if a ≥ s.le then b else s.le
  if b ≤ ls1 then
    match Tracker.remove trk1 a b with
    | .valueError => ⟨ls1, le1, trk1⟩
    | .ok _ t => ⟨ls1, le1, t⟩
  else ⟨ls1, le1, trk1⟩

/-- effect of the EOF (No error) with file size `fse` in acknowledged mode: the tail becomes lost,
the listing is coalesced, the in-order marker jumps to the end -/
def TS.eof (s : TS) (fse : Nat) : TS :=
  ⟨fse, fse, Tracker.coalesce (if s.le < fse then Tracker.add s.trk (s.le, fse) else s.trk)⟩

/-- on the segment grid of a file of `size` bytes: a multiple of the segment length, or the end -/
def OnGrid (seg size x : Nat) : Prop := seg ∣ x ∨ x = size

/-- `[a, b)` is a tile of the grid -/
def Tile (seg size a b : Nat) : Prop := seg ∣ a ∧ a < size ∧ b = min (a + seg) size

/-- byte `x` arrived in one of the PDUs of the history -/
def covered (h : List (Nat × Nat)) (x : Nat) : Prop := ∃ q ∈ h, q.1 ≤ x ∧ x < q.2

theorem covered_append (h : List (Nat × Nat)) (a b x : Nat) :
    covered (h ++ [(a, b)]) x ↔ covered h x ∨ (a ≤ x ∧ x < b) := by
  simp only [covered, List.mem_append, List.mem_singleton]
  constructor
  · rintro ⟨q, hq | hq, h1, h2⟩
    · exact Or.inl ⟨q, hq, h1, h2⟩
    · subst hq; exact Or.inr ⟨h1, h2⟩
  · rintro (⟨q, hq, h1, h2⟩ | ⟨h1, h2⟩)
    · exact ⟨q, Or.inl hq, h1, h2⟩
    · exact ⟨(a, b), Or.inr rfl, h1, h2⟩

/-- the invariant: the listing is well-formed, its boundaries lie on the grid, and it denotes exactly
the bytes below the in-order marker that no PDU of the history `h` delivered -/
structure TInv (seg size : Nat) (h : List (Nat × Nat)) (s : TS) : Prop where
  wf : WF s.trk
  grid : Bounds (OnGrid seg size) s.trk
  exact : ∀ x, den s.trk x ↔ (x < s.le ∧ ¬ covered h x)
  hle : ∀ q ∈ h, q.2 ≤ s.le
  lsle : s.ls ≤ s.le
  last : ∀ x, s.ls ≤ x → x < s.le → covered h x
  leGrid : OnGrid seg size s.le
  leSize : s.le ≤ size
  overlap : ∀ a b, Tile seg size a b → a < s.le → s.ls < b → a = s.ls ∧ b = s.le

theorem TInv.init (seg size : Nat) : TInv seg size [] ⟨0, 0, []⟩ where
  wf := trivial
  grid := fun r hr => by simp at hr
  exact := fun x => by simp
  hle := fun q hq => by simp at hq
  lsle := Nat.le_refl _
  last := fun x h1 h2 => by simp at h2
  leGrid := Or.inl (Nat.dvd_zero _)
  leSize := Nat.zero_le _
  overlap := fun a b _ h => by simp at h

theorem Tile.lt {seg size a b : Nat} (hs : 0 < seg) (h : Tile seg size a b) : a < b := by
  obtain ⟨_, h2, rfl⟩ := h; omega

theorem Tile.le_size {seg size a b : Nat} (h : Tile seg size a b) : b ≤ size := by
  obtain ⟨_, _, rfl⟩ := h; omega

theorem Tile.onGrid_end {seg size a b : Nat} (h : Tile seg size a b) : OnGrid seg size b := by
  obtain ⟨h1, _, rfl⟩ := h
  by_cases hc : a + seg ≤ size
  · rw [Nat.min_eq_left hc]; exact Or.inl (Nat.dvd_add h1 (Nat.dvd_refl _))
  · rw [Nat.min_eq_right (by omega)]; exact Or.inr rfl

/-- a multiple of `seg` strictly above another multiple is at least one segment above -/
theorem dvd_gap {seg a e : Nat} (ha : seg ∣ a) (he : seg ∣ e) (h : a < e) : a + seg ≤ e := by
  obtain ⟨i, rfl⟩ := ha
  obtain ⟨j, rfl⟩ := he
  have : i < j := Nat.lt_of_mul_lt_mul_left h
  calc seg * i + seg = seg * (i + 1) := by rw [Nat.mul_add, Nat.mul_one]
    _ ≤ seg * j := Nat.mul_le_mul_left _ this

theorem Tile.eq_of_overlap {seg size a b a' b' : Nat} (h : Tile seg size a b) (h' : Tile seg size a' b')
    (h1 : a' < b) (h2 : a < b') : a' = a ∧ b' = b := by
  obtain ⟨d, _, rfl⟩ := h
  obtain ⟨d', _, rfl⟩ := h'
  have e : a' = a := by
    rcases Nat.lt_trichotomy a a' with hlt | heq | hgt
    · have := dvd_gap d d' hlt; omega
    · exact heq.symm
    · have := dvd_gap d' d hgt; omega
  subst e; exact ⟨rfl, rfl⟩

/-- a tile lies inside one range of a grid-aligned listing or touches none of its bytes -/
theorem tile_in_or_out {seg size a b : Nat} {t : T} (hs : 0 < seg) (hT : Tile seg size a b)
    (hg : Bounds (OnGrid seg size) t) :
    (∃ s e, (s, e) ∈ t ∧ s ≤ a ∧ a < b ∧ b ≤ e) ∨ (a ≤ b ∧ ∀ x, a ≤ x → x < b → ¬ den t x) := by
  have hab := hT.lt hs
  by_cases hd : den t a
  · obtain ⟨r, hr, h1, h2⟩ := hd
    refine Or.inl ⟨r.1, r.2, hr, h1, hab, ?_⟩
    rcases (hg r hr).2 with he | he
    · have := dvd_gap hT.1 he h2
      obtain ⟨_, _, rfl⟩ := hT; omega
    · rw [he]; exact hT.le_size
  · refine Or.inr ⟨Nat.le_of_lt hab, ?_⟩
    intro x hx1 hx2 ⟨r, hr, h1, h2⟩
    by_cases hra : r.1 ≤ a
    · exact hd ⟨r, hr, hra, by omega⟩
    · have hb := hT.le_size
      rcases (hg r hr).1 with he | he
      · have := dvd_gap hT.1 he (by omega)
        obtain ⟨_, _, rfl⟩ := hT; omega
      · omega

/-- removal of a tile from a grid-aligned well-formed listing: never refused, the result is
well-formed, grid-aligned and denotes the difference -/
theorem remove_tile {seg size a b : Nat} {t : T} (hs : 0 < seg) (hT : Tile seg size a b) (hw : WF t)
    (hg : Bounds (OnGrid seg size) t) :
    ∃ c t', Tracker.remove t a b = .ok c t' ∧ WF t' ∧ Bounds (OnGrid seg size) t' ∧
      ∀ x, den t' x ↔ (den t x ∧ ¬ (a ≤ x ∧ x < b)) := by
  have hpre := tile_in_or_out hs hT hg
  obtain ⟨t', hstep, hw', hd'⟩ := C18.step_refines (op := .remove a b) hw hpre
  simp only [C18.step] at hstep
  cases hr : Tracker.remove t a b with
  | valueError => rw [hr] at hstep; simp at hstep
  | ok c t'' =>
    rw [hr] at hstep
    simp at hstep; subst hstep
    exact ⟨c, t'', rfl, hw', Bounds.remove hg (Or.inl hT.1) hT.onGrid_end hr, hd'⟩

/-- **One File Data PDU.**  A tile arrives — new, a duplicate, out of order, a retransmission —: the
invariant holds for the history extended by it. -/
theorem TInv.tile {seg size : Nat} {h : List (Nat × Nat)} {s : TS} {a b : Nat} (hs : 0 < seg)
    (hi : TInv seg size h s) (hT : Tile seg size a b) : TInv seg size (h ++ [(a, b)]) (s.tile a b) := by
  have hab := hT.lt hs
  have hbs := hT.le_size
  rcases Nat.lt_trichotomy s.le a with hlt | heq | hgt
  · -- a gap opens
    have hst : s.tile a b = ⟨a, b, Tracker.add s.trk (s.le, a)⟩ := by
      simp [TS.tile, hlt, Nat.le_of_lt hlt, Nat.not_le.mpr hab]
    rw [hst]
    have hdisj : ∀ x, s.le ≤ x → x < a → ¬ den s.trk x := fun x h1 _ hd => by
      have := ((hi.exact x).1 hd).1; omega
    obtain ⟨hw', hd'⟩ := C18.C18_add_refines hi.wf hlt hdisj
    refine ⟨hw', Bounds.add (x := (s.le, a)) hi.grid hi.leGrid (Or.inl hT.1), ?_, ?_, Nat.le_of_lt hab, ?_,
      hT.onGrid_end, hbs, ?_⟩
    · intro x
      rw [hd', covered_append, hi.exact]
      constructor
      · rintro (⟨h1, h2⟩ | ⟨h1, h2⟩)
        · exact ⟨by simp only; omega, fun hc => hc.elim h2 (fun hc => by omega)⟩
        · refine ⟨by simp only; omega, fun hc => hc.elim (fun ⟨q, hq, q1, q2⟩ => ?_) (fun hc => by omega)⟩
          have := hi.hle q hq; omega
      · rintro ⟨h1, h2⟩
        by_cases hx : x < s.le
        · exact Or.inl ⟨hx, fun hc => h2 (Or.inl hc)⟩
        · exact Or.inr ⟨by omega, Nat.lt_of_not_le fun hc => h2 (Or.inr ⟨hc, h1⟩)⟩
    · intro q hq
      simp at hq
      rcases hq with hq | hq
      · have := hi.hle q hq; simp only; omega
      · subst hq; exact Nat.le_refl _
    · intro x h1 h2; rw [covered_append]; exact Or.inr ⟨h1, h2⟩
    · intro a' b' hT' h1 h2; exact hT.eq_of_overlap hT' h1 h2
  · -- in order
    have hst : s.tile a b = ⟨a, b, s.trk⟩ := by
      simp [TS.tile, heq, Nat.not_le.mpr hab]
    rw [hst]
    refine ⟨hi.wf, hi.grid, ?_, ?_, Nat.le_of_lt hab, ?_, hT.onGrid_end, hbs, ?_⟩
    · intro x
      rw [covered_append, hi.exact]
      constructor
      · rintro ⟨h1, h2⟩
        exact ⟨by simp only; omega, fun hc => hc.elim h2 (fun hc => by omega)⟩
      · rintro ⟨h1, h2⟩
        exact ⟨Nat.lt_of_not_le fun hc => h2 (Or.inr ⟨by omega, h1⟩), fun hc => h2 (Or.inl hc)⟩
    · intro q hq
      simp at hq
      rcases hq with hq | hq
      · have := hi.hle q hq; simp only; omega
      · subst hq; exact Nat.le_refl _
    · intro x h1 h2; rw [covered_append]; exact Or.inr ⟨h1, h2⟩
    · intro a' b' hT' h1 h2; exact hT.eq_of_overlap hT' h1 h2
  · -- below the in-order marker
    by_cases hb : b ≤ s.ls
    · obtain ⟨c, t', hr, hw', hg', hd'⟩ := remove_tile hs hT hi.wf hi.grid
      have hst : s.tile a b = ⟨s.ls, s.le, t'⟩ := by
        simp [TS.tile, Nat.not_lt.mpr (Nat.le_of_lt hgt), Nat.not_le.mpr hgt, hb, hr]
      rw [hst]
      refine ⟨hw', hg', ?_, ?_, hi.lsle, ?_, hi.leGrid, hi.leSize, hi.overlap⟩
      · intro x
        rw [hd', covered_append, hi.exact]
        constructor
        · rintro ⟨⟨h1, h2⟩, h3⟩; exact ⟨h1, fun hc => hc.elim h2 h3⟩
        · rintro ⟨h1, h2⟩; exact ⟨⟨h1, fun hc => h2 (Or.inl hc)⟩, fun hc => h2 (Or.inr hc)⟩
      · intro q hq
        simp at hq
        rcases hq with hq | hq
        · exact hi.hle q hq
        · subst hq; have := hi.lsle; simp only; omega
      · intro x h1 h2; rw [covered_append]; exact Or.inl (hi.last x h1 h2)
    · -- the tile the marker stands on, again
      obtain ⟨e1, e2⟩ := hi.overlap a b hT hgt (by omega)
      have hst : s.tile a b = s := by
        simp [TS.tile, Nat.not_lt.mpr (Nat.le_of_lt hgt), Nat.not_le.mpr hgt, hb]
      rw [hst]
      refine ⟨hi.wf, hi.grid, ?_, ?_, hi.lsle, ?_, hi.leGrid, hi.leSize, hi.overlap⟩
      · intro x
        rw [covered_append, hi.exact]
        constructor
        · rintro ⟨h1, h2⟩
          refine ⟨h1, fun hc => hc.elim h2 (fun hc => h2 (hi.last x (by omega) (by omega)))⟩
        · rintro ⟨h1, h2⟩; exact ⟨h1, fun hc => h2 (Or.inl hc)⟩
      · intro q hq
        simp at hq
        rcases hq with hq | hq
        · exact hi.hle q hq
        · subst hq; simp only; omega
      · intro x h1 h2; rw [covered_append]; exact Or.inl (hi.last x h1 h2)

/-- **The EOF.**  With the file size equal to the grid's size the tail beyond the in-order marker
becomes lost, the listing is coalesced, and the invariant holds with the marker at the end. -/
theorem TInv.eof {seg size : Nat} {h : List (Nat × Nat)} {s : TS} (hi : TInv seg size h s) :
    TInv seg size h (s.eof size) := by
  have hsz : OnGrid seg size size := Or.inr rfl
  have key : ∀ t, WF t → Bounds (OnGrid seg size) t → (∀ x, den t x ↔ (x < size ∧ ¬ covered h x)) →
      TInv seg size h ⟨size, size, Tracker.coalesce t⟩ := by
    intro t hw hg hd
    obtain ⟨c1, _, c3⟩ := C18.C18_coalesce hw
    refine ⟨c1, hg.coalesce, fun x => by rw [c3, hd], fun q hq => Nat.le_trans (hi.hle q hq) hi.leSize,
      Nat.le_refl _, fun x h1 h2 => by simp only at h1 h2; omega, hsz, Nat.le_refl _, ?_⟩
    intro a b hT h1 h2
    have := hT.le_size
    simp only at h2; omega
  unfold TS.eof
  by_cases hlt : s.le < size
  · simp only [hlt, if_true]
    have hdisj : ∀ x, s.le ≤ x → x < size → ¬ den s.trk x := fun x h1 _ hd => by
      have := ((hi.exact x).1 hd).1; omega
    obtain ⟨hw', hd'⟩ := C18.C18_add_refines hi.wf hlt hdisj
    refine key _ hw' (Bounds.add (x := (s.le, size)) hi.grid hi.leGrid hsz) ?_
    intro x
    rw [hd', hi.exact]
    constructor
    · rintro (⟨h1, h2⟩ | ⟨h1, h2⟩)
      · exact ⟨by omega, h2⟩
      · refine ⟨h2, fun ⟨q, hq, q1, q2⟩ => ?_⟩
        have := hi.hle q hq; omega
    · rintro ⟨h1, h2⟩
      by_cases hx : x < s.le
      · exact Or.inl ⟨hx, h2⟩
      · exact Or.inr ⟨by omega, h1⟩
  · simp only [hlt, if_false]
    have : s.le = size := by have := hi.leSize; omega
    refine key _ hi.wf hi.grid ?_
    intro x; rw [hi.exact, this]

/-- the PDUs of a history, applied in order -/
def TS.tiles (s : TS) (h : List (Nat × Nat)) : TS := h.foldl (fun s q => s.tile q.1 q.2) s

theorem TInv.tiles {seg size : Nat} (hs : 0 < seg) (h2 : List (Nat × Nat)) :
    ∀ {h : List (Nat × Nat)} {s : TS}, TInv seg size h s → (∀ q ∈ h2, Tile seg size q.1 q.2) →
      TInv seg size (h ++ h2) (s.tiles h2) := by
  induction h2 with
  | nil => intro h s hi _; simpa [TS.tiles] using hi
  | cons q h2 ih =>
    intro h s hi hT
    have h1 := hi.tile hs (hT q List.mem_cons_self)
    have := ih h1 (fun r hr => hT r (List.mem_cons_of_mem _ hr))
    simpa [TS.tiles, List.append_assoc] using this

theorem TS.tile_marker_of_lt (s : TS) {a b : Nat} (h : a < s.le) :
    (s.tile a b).le = s.le ∧ (s.tile a b).ls = s.ls := by
  have h1 : ¬ a > s.le := by omega
  have h2 : ¬ a ≥ s.le := by omega
  unfold TS.tile
  simp only [h1, h2, if_false]
  split
  · split <;> exact ⟨rfl, rfl⟩
  · exact ⟨rfl, rfl⟩

theorem TS.tiles_marker_of_full {seg size : Nat} (h2 : List (Nat × Nat)) (hT : ∀ q ∈ h2, Tile seg size q.1 q.2) :
    ∀ (s : TS), s.le = size → (s.tiles h2).le = size := by
  induction h2 with
  | nil => intro s h; exact h
  | cons q h2 ih =>
    intro s h
    have hq := hT q List.mem_cons_self
    have := (s.tile_marker_of_lt (a := q.1) (b := q.2) (by rw [h]; exact hq.2.1)).1
    simpa [TS.tiles] using ih (fun r hr => hT r (List.mem_cons_of_mem _ hr)) (s.tile q.1 q.2) (by rw [this, h])

end Cfdp.C06
