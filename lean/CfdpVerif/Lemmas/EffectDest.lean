import CfdpVerif.Model.Dest
import CfdpVerif.Lemmas.StdDo
import CfdpVerif.Lemmas.PathFrameDest
import CfdpVerif.Props.C17
import CfdpVerif.Props.C03
/-!
C05, destination handler: **what one call can do to a file** (write model), for every state and input.
-/
open Std.Do

set_option mvcgen.warning false
set_option linter.unusedSimpArgs false
set_option linter.unusedVariables false
set_option linter.unusedTactic false

namespace Cfdp.Dest.Effect
open Cfdp Cfdp.Dest

/-- the packet is a File Data PDU with this offset and payload -/
def IsFd (pk : Option Pdu) (off : Nat) (data : List UInt8) : Prop := ∃ h, pk = some (.fd h off data)

/-- the packet is a Metadata PDU -/
def IsMd (pk : Option Pdu) : Prop := ∃ h cl c sz sn dn m, pk = some (.md h cl c sz sn dn m)

/-- **The write model of one call.**  `o` is what the filestore had at a path when the call began and
`pk` the packet handed to the call; `v` is what it may have there afterwards: the same; nothing (the
file was deleted — cancel disposition —, or never existed); the old content with the payload of this
call's File Data PDU written at its offset (`Fs.writeBytes`: gaps zero-filled, C17); an empty file
(this call's Metadata PDU created or truncated it). -/
def Allowed (o : Option Node) (pk : Option Pdu) (v : Option Node) : Prop :=
  v = o ∨ v = none ∨
  (∃ old off data, IsFd pk off data ∧ o = some (.file old) ∧ v = some (.file (Fs.writeBytes old data off))) ∨
  (IsMd pk ∧ v = some (.file []))

def PE (p : String) (o : Option Node) (pk : Option Pdu) (s : DestSt) : Prop :=
  Fs.C17.WF s.fs ∧ Allowed o pk (s.fs.get p)

abbrev Keeps {α : Type} (Q : DestSt → Prop) : PostCond α (.except Err (.arg DestSt .pure)) :=
  post⟨fun _ s => ⌜Q s⌝, fun _ s => ⌜Q s⌝⟩

theorem isFd_not_md {pk : Option Pdu} {off : Nat} {data : List UInt8} (h1 : IsFd pk off data) (h2 : IsMd pk) : False := by
  obtain ⟨h, e1⟩ := h1
  obtain ⟨h', cl, c, sz, sn, dn, m, e2⟩ := h2
  rw [e1] at e2; cases e2

theorem isFd_inj {pk : Option Pdu} {off off' : Nat} {data data' : List UInt8} (h1 : IsFd pk off data)
    (h2 : IsFd pk off' data') : off = off' ∧ data = data' := by
  obtain ⟨h, e1⟩ := h1
  obtain ⟨h', e2⟩ := h2
  rw [e1] at e2; cases e2; exact ⟨rfl, rfl⟩

/-! ### the filestore operations, seen from one path -/

theorem writeData_eff (fs fs' : Fs) (n p : String) (o : Option Node) (pk : Option Pdu) (d : List UInt8) (off : Nat)
    (h : Fs.writeData fs n d off = .ok fs') (hw : Fs.C17.WF fs) (hA : Allowed o pk (fs.get p)) (hp : IsFd pk off d) :
    Fs.C17.WF fs' ∧ Allowed o pk (fs'.get p) := by
  unfold Fs.writeData at h
  split at h
  · split at h <;> simp at h
  · simp at h
  · rename_i c hc
    simp at h; subst h
    refine ⟨Fs.C17.set_wf _ _ _ hw, ?_⟩
    by_cases hn : p = n
    · subst hn
      rw [Fs.C17.get_set_same]
      rw [hc] at hA
      rcases hA with hA | hA | ⟨old, off', data', hf, ho, hv⟩ | ⟨hm, hv⟩
      · exact Or.inr (Or.inr (Or.inl ⟨c, off, d, hp, hA.symm, rfl⟩))
      · cases hA
      · obtain ⟨e1, e2⟩ := isFd_inj hp hf
        subst e1; subst e2
        simp at hv; subst hv
        rw [C03.C03_duplicate_write_idempotent]
        exact Or.inr (Or.inr (Or.inl ⟨old, off, d, hp, ho, rfl⟩))
      · exact absurd hm (fun hm => isFd_not_md hp hm)
    · rw [Fs.C17.get_set_other _ _ _ _ hn]; exact hA

theorem truncateFile_eff (fs fs' : Fs) (n p : String) (o : Option Node) (pk : Option Pdu)
    (h : Fs.truncateFile fs n = .ok fs') (hw : Fs.C17.WF fs) (hA : Allowed o pk (fs.get p)) (hp : IsMd pk) :
    Fs.C17.WF fs' ∧ Allowed o pk (fs'.get p) := by
  unfold Fs.truncateFile at h
  split at h
  · split at h <;> simp at h
  · simp at h
  · simp at h; subst h
    refine ⟨Fs.C17.set_wf _ _ _ hw, ?_⟩
    by_cases hn : p = n
    · subst hn; rw [Fs.C17.get_set_same]; exact Or.inr (Or.inr (Or.inr ⟨hp, rfl⟩))
    · rw [Fs.C17.get_set_other _ _ _ _ hn]; exact hA

theorem createFile_eff (fs : Fs) (n p : String) (o : Option Node) (pk : Option Pdu)
    (hw : Fs.C17.WF fs) (hA : Allowed o pk (fs.get p)) (hp : IsMd pk) :
    Fs.C17.WF (Fs.createFile fs n).2 ∧ Allowed o pk ((Fs.createFile fs n).2.get p) := by
  unfold Fs.createFile
  split
  · exact ⟨hw, hA⟩
  · split
    · exact ⟨hw, hA⟩
    · refine ⟨Fs.C17.set_wf _ _ _ hw, ?_⟩
      by_cases hn : p = n
      · subst hn; rw [Fs.C17.get_set_same]; exact Or.inr (Or.inr (Or.inr ⟨hp, rfl⟩))
      · rw [Fs.C17.get_set_other _ _ _ _ hn]; exact hA

theorem deleteFile_eff (fs : Fs) (n p : String) (o : Option Node) (pk : Option Pdu)
    (hw : Fs.C17.WF fs) (hA : Allowed o pk (fs.get p)) :
    Fs.C17.WF (Fs.deleteFile fs n).2 ∧ Allowed o pk ((Fs.deleteFile fs n).2.get p) := by
  unfold Fs.deleteFile
  split
  · exact ⟨hw, hA⟩
  · split
    · exact ⟨hw, hA⟩
    · refine ⟨Fs.C17.del_wf _ _ hw, ?_⟩
      by_cases hn : p = n
      · subst hn; rw [Fs.C17.get_del_same _ _ hw]; exact Or.inr (Or.inl rfl)
      · rw [Fs.C17.get_del_other _ _ _ hn]; exact hA

syntax "peff" : tactic
macro_rules
  | `(tactic| peff) => `(tactic| all_goals (
      simp +zetaDelta only [PE] at *;
      grind (splits := 40) [writeData_eff, truncateFile_eff, createFile_eff, deleteFile_eff]))

theorem declareFault_spec (p : String) (o : Option Node) (pk : Option Pdu) (cond : Nat) :
    ⦃fun s => ⌜PE p o pk s⌝⦄ declareFault cond ⦃Keeps (PE p o pk)⦄ := by
  mvcgen [declareFault, noticeOfCancellation, abandonTransaction, resetInternal]
  peff

theorem checksumVerify_spec (p : String) (o : Option Node) (pk : Option Pdu) :
    ⦃fun s => ⌜PE p o pk s⌝⦄ checksumVerify ⦃Keeps (PE p o pk)⦄ := by
  have h1 := declareFault_spec p o pk
  mvcgen [checksumVerify, markComplete, getP, modP, h1]
  peff

theorem initVfsHandling_spec (p : String) (o : Option Node) (pk : Option Pdu) (b : String) (hm : IsMd pk) :
    ⦃fun s => ⌜PE p o pk s⌝⦄ initVfsHandling b ⦃Keeps (PE p o pk)⦄ := by
  have h1 := declareFault_spec p o pk
  mvcgen [initVfsHandling, getP, modP, h1]
  peff

theorem handleMetadataPacket_spec (p : String) (o : Option Node) (pk : Option Pdu) (h : Hdr) (closure : Bool) (cks size : Nat) (sname dname : Option String) (msgs : Option (List Msg)) (hm : IsMd pk) :
    ⦃fun s => ⌜PE p o pk s⌝⦄ handleMetadataPacket h closure cks size sname dname msgs ⦃Keeps (PE p o pk)⦄ := by
  have h1 := initVfsHandling_spec p o pk
  mvcgen [handleMetadataPacket, getP, modP, emitInd, h1]
  peff

theorem handleFdWithoutPreviousMetadata_spec (p : String) (o : Option Node) (pk : Option Pdu) (first : Bool) (off : Nat) (data : List UInt8) :
    ⦃fun s => ⌜PE p o pk s⌝⦄ handleFdWithoutPreviousMetadata first off data ⦃Keeps (PE p o pk)⦄ := by
  mvcgen [handleFdWithoutPreviousMetadata, getP, modP, addPacket]
  peff

theorem handleEofWithoutPreviousMetadata_spec (p : String) (o : Option Node) (pk : Option Pdu) (env : Env) (cond : Nat) (cks : List UInt8) (size : Nat) :
    ⦃fun s => ⌜PE p o pk s⌝⦄ handleEofWithoutPreviousMetadata env cond cks size ⦃Keeps (PE p o pk)⦄ := by
  mvcgen [handleEofWithoutPreviousMetadata, getP, modP, addPacket, emitInd, triggerNoticeOfCompletionCanceled, prepareEofAckPacket]
  peff

theorem lostSegmentHandling_spec (p : String) (o : Option Node) (pk : Option Pdu) (off len : Nat) :
    ⦃fun s => ⌜PE p o pk s⌝⦄ lostSegmentHandling off len ⦃Keeps (PE p o pk)⦄ := by
  mvcgen [lostSegmentHandling, getP, modP, addPacket]
  peff

theorem fdAfterWrite_spec (p : String) (o : Option Node) (pk : Option Pdu) (off : Nat) (data : List UInt8) (r : Option FsErr) :
    ⦃fun s => ⌜PE p o pk s⌝⦄ fdAfterWrite off data r ⦃Keeps (PE p o pk)⦄ := by
  have h1 := declareFault_spec p o pk
  mvcgen [fdAfterWrite, sizeErrOf, getP, modP, h1]
  peff

theorem fdWrite_spec (p : String) (o : Option Node) (pk : Option Pdu) (off : Nat) (data : List UInt8) (hf : IsFd pk off data) :
    ⦃fun s => ⌜PE p o pk s⌝⦄ fdWrite off data ⦃Keeps (PE p o pk)⦄ := by
  mvcgen [fdWrite, vfsWriteData, getP]
  peff

theorem handleFdPdu_spec (p : String) (o : Option Node) (pk : Option Pdu) (env : Env) (off : Nat) (data : List UInt8) (hf : IsFd pk off data) :
    ⦃fun s => ⌜PE p o pk s⌝⦄ handleFdPdu env off data ⦃Keeps (PE p o pk)⦄ := by
  have h1 := lostSegmentHandling_spec p o pk
  have h2 := fdWrite_spec p o pk off data hf
  have h3 := fdAfterWrite_spec p o pk
  mvcgen [handleFdPdu, fdIndication, fdLostSegments, transmissionMode, getP, emitInd, h1, h2, h3]
  peff

theorem noErrorEofVerify_spec (p : String) (o : Option Node) (pk : Option Pdu) (env : Env) :
    ⦃fun s => ⌜PE p o pk s⌝⦄ noErrorEofVerify env ⦃Keeps (PE p o pk)⦄ := by
  have h1 := checksumVerify_spec p o pk
  mvcgen [noErrorEofVerify, transmissionMode, startCheckLimitHandling, assertThat, getP, modP, h1]
  peff

theorem handleNoErrorEof_spec (p : String) (o : Option Node) (pk : Option Pdu) (env : Env) :
    ⦃fun s => ⌜PE p o pk s⌝⦄ handleNoErrorEof env ⦃Keeps (PE p o pk)⦄ := by
  have h1 := declareFault_spec p o pk
  have h2 := noErrorEofVerify_spec p o pk
  mvcgen [handleNoErrorEof, transmissionMode, getP, modP, h1, h2]
  peff

theorem handleEofPdu_spec (p : String) (o : Option Node) (pk : Option Pdu) (env : Env) (cond : Nat) (cks : List UInt8) (size : Nat) :
    ⦃fun s => ⌜PE p o pk s⌝⦄ handleEofPdu env cond cks size ⦃Keeps (PE p o pk)⦄ := by
  have h1 := handleNoErrorEof_spec p o pk
  mvcgen [handleEofPdu, fileTransferCompleteTransition, prepareEofAckPacket, addPacket, triggerNoticeOfCompletionCanceled, transmissionMode, getP, modP, emitInd, h1]
  peff

theorem handleFdOrEofPdu_spec (p : String) (o : Option Node) (pk : Option Pdu) (env : Env) (pdu : Pdu) (hp : pk = some pdu) :
    ⦃fun s => ⌜PE p o pk s⌝⦄ handleFdOrEofPdu env pdu ⦃Keeps (PE p o pk)⦄ := by
  have h2 := handleEofPdu_spec p o pk
  cases pdu with
  | fd h off data =>
    have h1 := handleFdPdu_spec p o pk env off data ⟨h, hp⟩
    mvcgen [handleFdOrEofPdu, h1, h2]
    peff
  | _ =>
    mvcgen [handleFdOrEofPdu, h2]
    peff

theorem handleWaitingForMissingMetadata_spec (p : String) (o : Option Node) (pk : Option Pdu) (env : Env) (pkt : Option Pdu) (hpk : ∀ pdu, pkt = some pdu → pk = some pdu) :
    ⦃fun s => ⌜PE p o pk s⌝⦄ handleWaitingForMissingMetadata env pkt ⦃Keeps (PE p o pk)⦄ := by
  have h1 := handleFdWithoutPreviousMetadata_spec p o pk
  have h3 := handleEofWithoutPreviousMetadata_spec p o pk
  cases pkt with
  | none =>
    mvcgen [handleWaitingForMissingMetadata, resetNakActivityParameters, getP, modP, h1, h3]
    peff
  | some pdu =>
    cases pdu with
    | md h cl c sz sn dn m =>
      have h2 := handleMetadataPacket_spec p o pk h cl c sz sn dn m ⟨h, cl, c, sz, sn, dn, m, hpk _ rfl⟩
      mvcgen [handleWaitingForMissingMetadata, resetNakActivityParameters, getP, modP, h1, h2, h3]
      peff
    | _ =>
      mvcgen [handleWaitingForMissingMetadata, resetNakActivityParameters, getP, modP, h1, h3]
      peff

theorem deferredLostSegmentHandling_spec (p : String) (o : Option Node) (pk : Option Pdu) (env : Env) :
    ⦃fun s => ⌜PE p o pk s⌝⦄ deferredLostSegmentHandling env ⦃Keeps (PE p o pk)⦄ := by
  have h1 := checksumVerify_spec p o pk
  have h2 := declareFault_spec p o pk
  mvcgen [deferredLostSegmentHandling, getP, modP, addPackets, h1, h2]
  peff

theorem startDeferredLostSegmentHandling_spec (p : String) (o : Option Node) (pk : Option Pdu) (env : Env) :
    ⦃fun s => ⌜PE p o pk s⌝⦄ startDeferredLostSegmentHandling env ⦃Keeps (PE p o pk)⦄ := by
  have h1 := deferredLostSegmentHandling_spec p o pk
  mvcgen [startDeferredLostSegmentHandling, getP, modP, h1]
  peff

theorem fsmAdvancementAfterPacketsWereSent_spec (p : String) (o : Option Node) (pk : Option Pdu) (env : Env) :
    ⦃fun s => ⌜PE p o pk s⌝⦄ fsmAdvancementAfterPacketsWereSent env ⦃Keeps (PE p o pk)⦄ := by
  have h1 := startDeferredLostSegmentHandling_spec p o pk
  have h2 := checksumVerify_spec p o pk
  mvcgen [fsmAdvancementAfterPacketsWereSent, h1, h2]
  peff

theorem checkLimitHandling_spec (p : String) (o : Option Node) (pk : Option Pdu) (env : Env) :
    ⦃fun s => ⌜PE p o pk s⌝⦄ checkLimitHandling env ⦃Keeps (PE p o pk)⦄ := by
  have h1 := checksumVerify_spec p o pk
  have h2 := declareFault_spec p o pk
  mvcgen [checkLimitHandling, fileTransferCompleteTransition, prepareEofAckPacket, addPacket, transmissionMode, getP, modP, h1, h2]
  peff

theorem handleTransferCompletion_spec (p : String) (o : Option Node) (pk : Option Pdu) (env : Env) :
    ⦃fun s => ⌜PE p o pk s⌝⦄ handleTransferCompletion env ⦃Keeps (PE p o pk)⦄ := by
  mvcgen [handleTransferCompletion, noticeOfCompletion, transmissionMode, resetInternal, getP, emitInd]
  peff

theorem prepareFinishedPdu_spec (p : String) (o : Option Node) (pk : Option Pdu) :
    ⦃fun s => ⌜PE p o pk s⌝⦄ prepareFinishedPdu ⦃Keeps (PE p o pk)⦄ := by
  mvcgen [prepareFinishedPdu, addPacket]
  peff

theorem handleFinishedPduSent_spec (p : String) (o : Option Node) (pk : Option Pdu) (env : Env) :
    ⦃fun s => ⌜PE p o pk s⌝⦄ handleFinishedPduSent env ⦃Keeps (PE p o pk)⦄ := by
  mvcgen [handleFinishedPduSent, startPositiveAckProcedure, transmissionMode, resetInternal, getP, modP]
  peff

theorem handlePositiveAckProcedures_spec (p : String) (o : Option Node) (pk : Option Pdu) (env : Env) (recurse : DM Unit) (hr : ⦃fun s => ⌜PE p o pk s⌝⦄ recurse ⦃Keeps (PE p o pk)⦄) :
    ⦃fun s => ⌜PE p o pk s⌝⦄ handlePositiveAckProcedures env recurse ⦃Keeps (PE p o pk)⦄ := by
  have h1 := declareFault_spec p o pk
  mvcgen [handlePositiveAckProcedures, resendFinished, prepareFinishedPdu, getP, modP, addPacket, hr, h1]
  peff

theorem handleWaitingForFinishedAck_spec (p : String) (o : Option Node) (pk : Option Pdu) (env : Env) (pkt : Option Pdu) (recurse : DM Unit) (hr : ⦃fun s => ⌜PE p o pk s⌝⦄ recurse ⦃Keeps (PE p o pk)⦄) :
    ⦃fun s => ⌜PE p o pk s⌝⦄ handleWaitingForFinishedAck env pkt recurse ⦃Keeps (PE p o pk)⦄ := by
  have hp := handlePositiveAckProcedures_spec p o pk env recurse hr
  mvcgen [handleWaitingForFinishedAck, prepareEofAckPacket, addPacket, resetInternal, getP, hp]
  peff

theorem fsmFromWaitingForFinishedAck_spec (p : String) (o : Option Node) (pk : Option Pdu) (env : Env) (pkt : Option Pdu) (recurse : DM Unit) (hr : ⦃fun s => ⌜PE p o pk s⌝⦄ recurse ⦃Keeps (PE p o pk)⦄) :
    ⦃fun s => ⌜PE p o pk s⌝⦄ fsmFromWaitingForFinishedAck env pkt recurse ⦃Keeps (PE p o pk)⦄ := by
  have h1 := handleWaitingForFinishedAck_spec p o pk env pkt recurse hr
  mvcgen [fsmFromWaitingForFinishedAck, h1]
  peff

theorem fsmFromSendingFinishedPdu_spec (p : String) (o : Option Node) (pk : Option Pdu) (env : Env) (pkt : Option Pdu) (recurse : DM Unit) (hr : ⦃fun s => ⌜PE p o pk s⌝⦄ recurse ⦃Keeps (PE p o pk)⦄) :
    ⦃fun s => ⌜PE p o pk s⌝⦄ fsmFromSendingFinishedPdu env pkt recurse ⦃Keeps (PE p o pk)⦄ := by
  have h1 := fsmFromWaitingForFinishedAck_spec p o pk env pkt recurse hr
  have h2 := prepareFinishedPdu_spec p o pk
  have h3 := handleFinishedPduSent_spec p o pk
  mvcgen [fsmFromSendingFinishedPdu, h1, h2, h3]
  peff

theorem fsmFromTransferCompletion_spec (p : String) (o : Option Node) (pk : Option Pdu) (env : Env) (pkt : Option Pdu) (recurse : DM Unit) (hr : ⦃fun s => ⌜PE p o pk s⌝⦄ recurse ⦃Keeps (PE p o pk)⦄) :
    ⦃fun s => ⌜PE p o pk s⌝⦄ fsmFromTransferCompletion env pkt recurse ⦃Keeps (PE p o pk)⦄ := by
  have h1 := fsmFromSendingFinishedPdu_spec p o pk env pkt recurse hr
  have h2 := handleTransferCompletion_spec p o pk
  mvcgen [fsmFromTransferCompletion, h1, h2]
  peff

theorem fsmFromWaitingForMissingData_spec (p : String) (o : Option Node) (pk : Option Pdu) (env : Env) (pkt : Option Pdu) (recurse : DM Unit) (hr : ⦃fun s => ⌜PE p o pk s⌝⦄ recurse ⦃Keeps (PE p o pk)⦄) (hpk : ∀ pdu, pkt = some pdu → pk = some pdu) :
    ⦃fun s => ⌜PE p o pk s⌝⦄ fsmFromWaitingForMissingData env pkt recurse ⦃Keeps (PE p o pk)⦄ := by
  have h1 := fsmFromTransferCompletion_spec p o pk env pkt recurse hr
  have h3 := deferredLostSegmentHandling_spec p o pk
  cases pkt with
  | none =>
    mvcgen [fsmFromWaitingForMissingData, h1, h3, resetNakActivityParameters, prepareEofAckPacket, addPacket, getP, modP]
    peff
  | some pdu =>
    cases pdu with
    | fd h off data =>
      have h2 := handleFdPdu_spec p o pk env off data ⟨h, hpk _ rfl⟩
      mvcgen [fsmFromWaitingForMissingData, h1, h2, h3, resetNakActivityParameters, prepareEofAckPacket, addPacket,
        getP, modP]
      peff
    | _ =>
      mvcgen [fsmFromWaitingForMissingData, h1, h3, resetNakActivityParameters, prepareEofAckPacket, addPacket,
        getP, modP]
      peff

theorem fsmFromCheckLimit_spec (p : String) (o : Option Node) (pk : Option Pdu) (env : Env) (pkt : Option Pdu) (recurse : DM Unit) (hr : ⦃fun s => ⌜PE p o pk s⌝⦄ recurse ⦃Keeps (PE p o pk)⦄) (hpk : ∀ pdu, pkt = some pdu → pk = some pdu) :
    ⦃fun s => ⌜PE p o pk s⌝⦄ fsmFromCheckLimit env pkt recurse ⦃Keeps (PE p o pk)⦄ := by
  have h1 := fsmFromWaitingForMissingData_spec p o pk env pkt recurse hr hpk
  have h2 := checkLimitHandling_spec p o pk
  mvcgen [fsmFromCheckLimit, h1, h2]
  peff

theorem fsmFromWaitingForMetadata_spec (p : String) (o : Option Node) (pk : Option Pdu) (env : Env) (pkt : Option Pdu) (recurse : DM Unit) (hr : ⦃fun s => ⌜PE p o pk s⌝⦄ recurse ⦃Keeps (PE p o pk)⦄) (hpk : ∀ pdu, pkt = some pdu → pk = some pdu) :
    ⦃fun s => ⌜PE p o pk s⌝⦄ fsmFromWaitingForMetadata env pkt recurse ⦃Keeps (PE p o pk)⦄ := by
  have h1 := fsmFromCheckLimit_spec p o pk env pkt recurse hr hpk
  have h2 := handleWaitingForMissingMetadata_spec p o pk env pkt hpk
  have h3 := deferredLostSegmentHandling_spec p o pk
  mvcgen [fsmFromWaitingForMetadata, h1, h2, h3]
  peff

theorem fsmFromReceiving_spec (p : String) (o : Option Node) (pk : Option Pdu) (env : Env) (pkt : Option Pdu) (recurse : DM Unit) (hr : ⦃fun s => ⌜PE p o pk s⌝⦄ recurse ⦃Keeps (PE p o pk)⦄) (hpk : ∀ pdu, pkt = some pdu → pk = some pdu) :
    ⦃fun s => ⌜PE p o pk s⌝⦄ fsmFromReceiving env pkt recurse ⦃Keeps (PE p o pk)⦄ := by
  have h1 := fsmFromWaitingForMetadata_spec p o pk env pkt recurse hr hpk
  cases pkt with
  | none =>
    mvcgen [fsmFromReceiving, h1]
    peff
  | some pdu =>
    have h2 := handleFdOrEofPdu_spec p o pk env pdu (hpk _ rfl)
    mvcgen [fsmFromReceiving, h1, h2]
    peff

theorem nonIdleFsm_spec (p : String) (o : Option Node) (pk : Option Pdu) (env : Env) (pkt : Option Pdu) (recurse : DM Unit) (hr : ⦃fun s => ⌜PE p o pk s⌝⦄ recurse ⦃Keeps (PE p o pk)⦄) (hpk : ∀ pdu, pkt = some pdu → pk = some pdu) :
    ⦃fun s => ⌜PE p o pk s⌝⦄ nonIdleFsm env pkt recurse ⦃Keeps (PE p o pk)⦄ := by
  have h1 := fsmFromReceiving_spec p o pk env pkt recurse hr hpk
  have h2 := fsmAdvancementAfterPacketsWereSent_spec p o pk
  mvcgen [nonIdleFsm, h1, h2]
  peff

theorem idleFsm_spec (p : String) (o : Option Node) (pk : Option Pdu) (env : Env) (pkt : Option Pdu) (hpk : ∀ pdu, pkt = some pdu → pk = some pdu) :
    ⦃fun s => ⌜PE p o pk s⌝⦄ idleFsm env pkt ⦃Keeps (PE p o pk)⦄ := by
  have h1 := handleFdWithoutPreviousMetadata_spec p o pk
  have h3 := handleEofWithoutPreviousMetadata_spec p o pk
  cases pkt with
  | none =>
    mvcgen [idleFsm, startTransaction, commonFirstPacketNotMetadataPduHandler, commonFirstPacketHandler, modP, h1, h3]
    peff
  | some pdu =>
    cases pdu with
    | md h cl c sz sn dn m =>
      have h2 := handleMetadataPacket_spec p o pk h cl c sz sn dn m ⟨h, cl, c, sz, sn, dn, m, hpk _ rfl⟩
      mvcgen [idleFsm, startTransaction, commonFirstPacketNotMetadataPduHandler, commonFirstPacketHandler, modP,
        h1, h2, h3]
      peff
    | _ =>
      mvcgen [idleFsm, startTransaction, commonFirstPacketNotMetadataPduHandler, commonFirstPacketHandler, modP,
        h1, h3]
      peff

theorem checkInsertedPacket_spec (p : String) (o : Option Node) (pk : Option Pdu) (env : Env) (pdu : Pdu) :
    ⦃fun s => ⌜PE p o pk s⌝⦄ checkInsertedPacket env pdu ⦃Keeps (PE p o pk)⦄ := by
  mvcgen [checkInsertedPacket, handleFirstPacketNotMetadataPdu, transmissionMode]
  peff

theorem stateMachineWith_spec (p : String) (o : Option Node) (pk : Option Pdu) (env : Env) (pkt : Option Pdu) (recurse : DM Unit) (hr : ⦃fun s => ⌜PE p o pk s⌝⦄ recurse ⦃Keeps (PE p o pk)⦄) (hpk : ∀ pdu, pkt = some pdu → pk = some pdu) :
    ⦃fun s => ⌜PE p o pk s⌝⦄ stateMachineWith env pkt recurse ⦃Keeps (PE p o pk)⦄ := by
  have h1 := nonIdleFsm_spec p o pk env pkt recurse hr hpk
  have h2 := checkInsertedPacket_spec p o pk env
  have h3 := idleFsm_spec p o pk env pkt hpk
  mvcgen [stateMachineWith, h1, h2, h3]
  peff

theorem stateMachine_spec (p : String) (o : Option Node) (env : Env) (pkt : Option Pdu) :
    ⦃fun s => ⌜PE p o pkt s⌝⦄ stateMachine env pkt ⦃Keeps (PE p o pkt)⦄ := by
  unfold stateMachine
  have pkNone : ∀ pdu, (none : Option Pdu) = some pdu → pkt = some pdu := by intro pdu hh; cases hh
  have h0 : ⦃fun s => ⌜PE p o pkt s⌝⦄ (throw .recursionError : DM Unit) ⦃Keeps (PE p o pkt)⦄ := by
    mvcgen
  exact stateMachineWith_spec p o pkt env pkt _
    (stateMachineWith_spec p o pkt env none _ (stateMachineWith_spec p o pkt env none _ h0 pkNone) pkNone)
    (fun _ h => h)

theorem getNextPacket_spec (p : String) (o : Option Node) (pk : Option Pdu) : ⦃fun s => ⌜PE p o pk s⌝⦄ getNextPacket ⦃Keeps (PE p o pk)⦄ := by
  mvcgen [getNextPacket]
  peff

theorem cancelRequest_spec (p : String) (o : Option Node) (pk : Option Pdu) (env : Env) (tid : Tid) :
    ⦃fun s => ⌜PE p o pk s⌝⦄ cancelRequest env tid ⦃Keeps (PE p o pk)⦄ := by
  mvcgen [cancelRequest, triggerNoticeOfCompletionCanceled, modP]
  peff

theorem reset_spec (p : String) (o : Option Node) (pk : Option Pdu) : ⦃fun s => ⌜PE p o pk s⌝⦄ reset ⦃Keeps (PE p o pk)⦄ := by
  mvcgen [reset, resetInternal]
  peff

end Cfdp.Dest.Effect
