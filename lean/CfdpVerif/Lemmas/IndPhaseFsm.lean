import CfdpVerif.Lemmas.InvDestPhaseN
import CfdpVerif.Lemmas.InvDestPhaseC
/-!
Receiver side of C15's causal order, the FSM level: from the generated preservation lemmas
(`InvDestPhaseN`: no Transaction-Finished before the completion; `InvDestPhaseC`: the completion phase is
closed and issues only Transaction-Finished) to statements about whole `state_machine` calls.
-/
set_option linter.unusedSimpArgs false
set_option linter.unusedVariables false

/-! ### glue: the FSM chain -/
namespace Cfdp.Dest.Phase
open Cfdp Cfdp.Dest

/-- in the completion phase the receiving part of the FSM does nothing: the chain reduces to its tail -/
theorem fsmFromReceiving_skip (env : Env) (pkt : Option Pdu) (r : DM Unit) (s : DestSt) (h : CS s.step) :
    fsmFromReceiving env pkt r s = fsmFromTransferCompletion env pkt r s := by
  rcases h with h | h | h | h <;>
  msimp [fsmFromReceiving, fsmFromWaitingForMetadata, fsmFromCheckLimit, fsmFromWaitingForMissingData, h]

theorem nonIdleFsm_skip (env : Env) (pkt : Option Pdu) (r : DM Unit) (s : DestSt) (h : CS s.step)
    (hq : s.queue.length = 0) :
    nonIdleFsm env pkt r s = fsmFromTransferCompletion env pkt r s := by
  have := fsmFromReceiving_skip env pkt r s h
  rcases h with h | h | h | h <;>
  msimp [nonIdleFsm, fsmAdvancementAfterPacketsWereSent, hq, h, this]

theorem nonIdleFsm_c (env : Env) (L0 : List Ind) (r : DM Unit) (hr : Preserves (Closed env L0) r)
    (pkt : Option Pdu) : Preserves (Closed env L0) (nonIdleFsm env pkt r) := by
  intro s hs
  by_cases hq : s.queue.length = 0
  · rw [nonIdleFsm_skip env pkt r s hs.2.2 hq]
    exact PhaseC.fsmFromTransferCompletion_c env L0 r hr pkt s hs
  · have : nonIdleFsm env pkt r s = .error .unretrievedPdus s := by
      have hq' : 0 < s.queue.length := by omega
      msimp [nonIdleFsm, fsmAdvancementAfterPacketsWereSent, hq']
    rw [this]; exact hs

/-- the nested call of the positive ACK procedure stays in the completion phase -/
theorem stateMachineWith_none_c (env : Env) (L0 : List Ind) (r : DM Unit) (hr : Preserves (Closed env L0) r) :
    Preserves (Closed env L0) (stateMachineWith env none r) := by
  intro s hs
  by_cases hi : s.state = .idle
  · have : stateMachineWith env none r s = .ok () s := by
      by_cases hn : 0 < s.numReady <;> msimp [stateMachineWith, hi, idleFsm, hn]
    rw [this]; exact hs
  · have : stateMachineWith env none r s = nonIdleFsm env none r s := by
      msimp [stateMachineWith, hi]
    rw [this]; exact nonIdleFsm_c env L0 r hr none s hs

theorem fsmFromTransferCompletion_ord (env : Env) (L0 : List Ind) (r : DM Unit)
    (hr : ∀ L, Preserves (Closed env L) r) (pkt : Option Pdu) :
    Triple (NoFin env L0) (fsmFromTransferCompletion env pkt r) (Ordered L0) := by
  intro s hs
  by_cases hc : CS s.step
  · have hcl : Closed env s.inds s := ⟨Ext.refl _, by simp [since], hc⟩
    exact ordered_of_noFin_closed hs (PhaseC.fsmFromTransferCompletion_c env s.inds r (hr _) pkt s hcl)
  · have : fsmFromTransferCompletion env pkt r s = .ok () s := by
      simp only [CS, not_or] at hc
      msimp [fsmFromTransferCompletion, fsmFromSendingFinishedPdu, fsmFromWaitingForFinishedAck, hc.2.1, hc.2.2.1,
        hc.2.2.2]
    rw [this]; exact hs.ordered

theorem Triple.pure' {ε σ α : Type} {P Q : σ → Prop} (a : α) (h : ∀ s, P s → Q s) :
    Triple P (pure a : EStateM ε σ α) Q := fun s hp => h s hp

theorem Triple.ite' {ε σ α : Type} {P Q : σ → Prop} {c : Prop} [Decidable c] {x y : EStateM ε σ α}
    (hx : c → Triple P x Q) (hy : ¬c → Triple P y Q) : Triple P (if c then x else y) Q := by
  split
  · exact hx ‹_›
  · exact hy ‹_›

/-- decompose `Triple NoFin (guarded part; next) Ordered` along bind / if / match: the guarded parts
preserve `NoFin` (lemmas given), the tail is closed by `hn` -/
syntax "chain_ord " term:max term:max " [" term,* "] " term : tactic
macro_rules
  | `(tactic| chain_ord $env $l0 [$ls,*] $hn) =>
    `(tactic| repeat' (first
        | (with_reducible exact $hn)
        | (with_reducible exact Triple.pure' _ (fun _ h => NoFin.ordered h))
        | ((with_reducible apply Triple.of_preserves); preserves_with [$ls,*]; done)
        | with_reducible refine Triple.bind (R := NoFin $env $l0) ?_ (fun _ h => NoFin.ordered h) (fun _ => ?_)
        | with_reducible refine Triple.ite' (fun _ => ?_) (fun _ => ?_)
        | split
        | (dsimp only; done)
        | dsimp only))

theorem fsmFromWaitingForMissingData_ord (env : Env) (L0 : List Ind) (r : DM Unit)
    (hr : ∀ L, Preserves (Closed env L) r) (pkt : Option Pdu) :
    Triple (NoFin env L0) (fsmFromWaitingForMissingData env pkt r) (Ordered L0) := by
  unfold fsmFromWaitingForMissingData
  chain_ord env L0 [PhaseN.handleFdPdu_n env L0, PhaseN.getP_n env L0, PhaseN.resetNak_n env L0,
    PhaseN.prepareEofAckPacket_n env L0, PhaseN.deferred_n env L0] (fsmFromTransferCompletion_ord env L0 r hr _)

theorem fsmFromCheckLimit_ord (env : Env) (L0 : List Ind) (r : DM Unit)
    (hr : ∀ L, Preserves (Closed env L) r) (pkt : Option Pdu) :
    Triple (NoFin env L0) (fsmFromCheckLimit env pkt r) (Ordered L0) := by
  unfold fsmFromCheckLimit
  chain_ord env L0 [PhaseN.checkLimitHandling_n env L0] (fsmFromWaitingForMissingData_ord env L0 r hr _)

theorem fsmFromWaitingForMetadata_ord (env : Env) (L0 : List Ind) (r : DM Unit)
    (hr : ∀ L, Preserves (Closed env L) r) (pkt : Option Pdu) :
    Triple (NoFin env L0) (fsmFromWaitingForMetadata env pkt r) (Ordered L0) := by
  unfold fsmFromWaitingForMetadata
  chain_ord env L0 [PhaseN.handleWaitingMd_n env L0 _, PhaseN.deferred_n env L0] (fsmFromCheckLimit_ord env L0 r hr _)

theorem fsmFromReceiving_ord (env : Env) (L0 : List Ind) (r : DM Unit)
    (hr : ∀ L, Preserves (Closed env L) r) (pkt : Option Pdu) :
    Triple (NoFin env L0) (fsmFromReceiving env pkt r) (Ordered L0) := by
  unfold fsmFromReceiving
  chain_ord env L0 [PhaseN.handleFdOrEofPdu_n env L0] (fsmFromWaitingForMetadata_ord env L0 r hr _)

theorem nonIdleFsm_ord (env : Env) (L0 : List Ind) (r : DM Unit)
    (hr : ∀ L, Preserves (Closed env L) r) (pkt : Option Pdu) :
    Triple (NoFin env L0) (nonIdleFsm env pkt r) (Ordered L0) := by
  unfold nonIdleFsm
  chain_ord env L0 [PhaseN.fsmAdvancement_n env L0] (fsmFromReceiving_ord env L0 r hr _)

theorem stateMachineWith_ord (env : Env) (L0 : List Ind) (r : DM Unit)
    (hr : ∀ L, Preserves (Closed env L) r) (pkt : Option Pdu) :
    Triple (NoFin env L0) (stateMachineWith env pkt r) (Ordered L0) := by
  unfold stateMachineWith
  chain_ord env L0 [PhaseN.checkInserted_n env L0, PhaseN.idleFsm_n env L0 _] (nonIdleFsm_ord env L0 r hr _)


/-- **Every call of the destination handler issues its indications in the order `non-Finished* Finished*`,
and a call that issues a Transaction-Finished indication leaves the handler in the completion phase (or
idle).** `L0` is the indication log before the call. -/
theorem stateMachine_ord (env : Env) (pkt : Option Pdu) (s : DestSt) :
    Ordered s.inds (stateOf (stateMachine env pkt s)) := by
  unfold stateMachine
  have h0 : ∀ L, Preserves (Closed env L) (throw Err.recursionError : DM Unit) := fun _ => Preserves.throw _
  have h1 := fun L => stateMachineWith_none_c env L _ (h0 L)
  have h2 := fun L => stateMachineWith_none_c env L _ (h1 L)
  exact stateMachineWith_ord env s.inds _ h2 pkt s ⟨Ext.refl _, by simp [since]⟩

/-- **In the completion phase a call issues nothing but Transaction-Finished indications and stays in the
phase** (until the handler is idle): whatever arrives — late File Data, a repeated EOF, a Metadata PDU —
no Metadata-Recv, File-Segment-Recv or EOF-Recv indication follows a Transaction-Finished one. -/
theorem stateMachine_closed (env : Env) (pkt : Option Pdu) (s : DestSt) (hb : s.state = .busy)
    (hc : CS s.step) : Closed env s.inds (stateOf (stateMachine env pkt s)) := by
  have h0 : Preserves (Closed env s.inds) (throw Err.recursionError : DM Unit) := Preserves.throw _
  have h1 := stateMachineWith_none_c env s.inds _ h0
  have h2 := stateMachineWith_none_c env s.inds _ h1
  have hs : Closed env s.inds s := ⟨Ext.refl _, by simp [since], hc⟩
  have hni : ¬ s.state = .idle := by simp [hb]
  unfold stateMachine
  cases pkt with
  | none =>
    have : stateMachineWith env none
        (stateMachineWith env none (stateMachineWith env none (throw Err.recursionError))) s =
        nonIdleFsm env none (stateMachineWith env none (stateMachineWith env none (throw Err.recursionError))) s := by
      msimp [stateMachineWith, hni]
    rw [this]; exact nonIdleFsm_c env s.inds _ h2 none s hs
  | some pdu =>
    have hro : stateOf (checkInsertedPacket env pdu s) = s := by
      have := PhaseC.getP_c env s.inds
      have hr : ReadOnly (checkInsertedPacket env pdu) := by
        unfold checkInsertedPacket handleFirstPacketNotMetadataPdu transmissionMode
        read_only
      exact hr s
    cases hck : checkInsertedPacket env pdu s with
    | error e s' =>
      have : s' = s := by rw [hck] at hro; exact hro
      subst this
      have : stateMachineWith env (some pdu)
          (stateMachineWith env none (stateMachineWith env none (throw Err.recursionError))) s' = .error e s' := by
        msimp [stateMachineWith, hck]
      rw [this]; exact hs
    | ok u s' =>
      have : s' = s := by rw [hck] at hro; exact hro
      subst this
      have : stateMachineWith env (some pdu)
          (stateMachineWith env none (stateMachineWith env none (throw Err.recursionError))) s' =
          nonIdleFsm env (some pdu)
            (stateMachineWith env none (stateMachineWith env none (throw Err.recursionError))) s' := by
        msimp [stateMachineWith, hck, hni]
      rw [this]; exact nonIdleFsm_c env s'.inds _ h2 (some pdu) s' hs

end Cfdp.Dest.Phase
