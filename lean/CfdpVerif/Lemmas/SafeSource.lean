import CfdpVerif.Model.Source
import CfdpVerif.Lemmas.SafeDest
/-!
C10, source handler: no internal error from any reachable state, for every PDU and API call.
Same method as `Lemmas/SafeDest.lean`.
-/
open Std.Do

set_option mvcgen.warning false
set_option linter.unusedSimpArgs false
set_option linter.unusedVariables false

namespace Cfdp.Source.Safe
open Cfdp Cfdp.Source

def FaultsOk (t : List (Nat × Nat)) : Prop :=
  t.lookup ccPositiveAckLimit ≠ none ∧ t.lookup ccCheckLimit ≠ none

/-- the put request is well formed: source and destination file name are given together -/
def ReqOk (r : PutReq) : Prop := (r.src = none ↔ r.dst = none)

/-- the handler is "in step `x`": in it, or re-transmitting with `x` as the step to return to -/
def InStep (s : SrcSt) (x : SStep) : Prop := s.step = x ∨ (s.step = .RETRANSMITTING ∧ s.stepBefore = some x)

def SInv (s : SrcSt) : Prop :=
  FaultsOk s.faults ∧
  (s.prov.bits = 8 ∨ s.prov.bits = 16 ∨ s.prov.bits = 32) ∧
  (¬ s.state = .busy → s.step = .IDLE ∧ s.p.metadataOnly = false) ∧
  (s.step = .IDLE ∨ s.step = .TRANSACTION_START → s.p.metadataOnly = true →
     ∀ r, s.putReq = some r → (r.src = none ∧ r.dst = none)) ∧
  (s.state = .busy → s.p.remoteCfg ≠ none ∧ ∀ r, s.putReq = some r → ReqOk r) ∧
  (s.step ≠ .IDLE → s.step ≠ .TRANSACTION_START →
     s.p.tid ≠ none ∧ 0 < s.p.segmentLen ∧ s.putReq ≠ none ∧
     ∀ r, s.putReq = some r → (s.p.metadataOnly = true ↔ (r.src = none ∧ r.dst = none))) ∧
  (s.step = .RETRANSMITTING → s.stepBefore = some .SENDING_FILE_DATA ∨
     s.stepBefore = some .WAITING_FOR_EOF_ACK ∨ s.stepBefore = some .WAITING_FOR_FINISHED) ∧
  (InStep s .WAITING_FOR_EOF_ACK → s.p.ackTimer ≠ none ∧ s.p.condCodeEof ≠ none) ∧
  (s.step = .SENDING_EOF → s.p.condCodeEof ≠ none) ∧
  (s.step = .IDLE ∨ s.step = .TRANSACTION_START → s.p.progress = 0 ∧ s.p.tid = none) ∧
  (s.p.metadataOnly = true → s.p.progress = 0)

abbrev Good {α : Type} (Q : SrcSt → Prop) : PostCond α (.except Err (.arg SrcSt .pure)) :=
  post⟨fun _ s => ⌜Q s⌝, fun e s => ⌜Q s ∧ e.isInternal = false⌝⟩

@[grind →] theorem calc_ok_len (fs : Fs) (t : Checksum.CksType) (p : String) (n seg : Nat) (r : List UInt8)
    (h : Fs.calcChecksum fs t p n seg = .ok r) : r.length = 4 := by
  unfold Fs.calcChecksum at h
  split at h
  · simp at h; subst h; rfl
  · split at h
    · split at h <;> simp at h
    · simp at h
    · rename_i d _
      split at h
      · rename_i r' hr
        simp at h; subst h
        unfold Checksum.calcChecksum at hr
        cases t <;> simp at hr
        all_goals (try (split at hr <;> simp at hr))
        all_goals (subst hr; simp [Checksum.modular, Checksum.natBE32, Checksum.crcChunked, Checksum.be32])
      · simp at h
      · simp at h

@[grind →] theorem calc_err_seg (fs : Fs) (t : Checksum.CksType) (p : String) (n seg : Nat) (e : FsErr)
    (h : Fs.calcChecksum fs t p n seg = .error e) (hs : 0 < seg) : (Err.ofFs e).isInternal = false := by
  unfold Fs.calcChecksum at h
  split at h
  · simp at h
  · split at h
    · split at h <;> simp at h <;> subst h <;> rfl
    · simp at h; subst h; rfl
    · rename_i d _
      split at h
      · simp at h
      · rename_i hr
        unfold Checksum.calcChecksum at hr
        cases t <;> simp at hr <;> omega
      · simp at h; subst h; rfl

@[grind →] theorem read_not_value (fs : Fs) (p : String) (o : Nat) (l : Option Nat) (e : FsErr)
    (h : Fs.readData fs p o l = .error e) : (Err.ofFs e).isInternal = false := by
  unfold Fs.readData at h
  split at h
  · split at h <;> simp at h <;> subst h <;> rfl
  · simp at h; subst h; rfl
  · simp at h

@[grind →] theorem size_not_value (fs : Fs) (p : String) (e : FsErr)
    (h : Fs.fileSize fs p = .error e) : (Err.ofFs e).isInternal = false := by
  unfold Fs.fileSize at h
  split at h <;> simp at h
  subst h; rfl

theorem not_none_ex {α : Type} (o : Option α) : (¬ o = none) ↔ ∃ x, o = some x := by
  cases o <;> simp

/-- facts about the transaction that the EOF / checksum helpers need -/
def Started (s : SrcSt) : Prop := s.state = .busy ∧ s.step ≠ .IDLE ∧ s.step ≠ .TRANSACTION_START

/-- the fields the invariant reads are unchanged (only PDUs were queued) -/
def Kept (s0 s : SrcSt) : Prop :=
  s.step = s0.step ∧ s.p = s0.p ∧ s.stepBefore = s0.stepBefore ∧ s.state = s0.state ∧
  s.putReq = s0.putReq ∧ s.faults = s0.faults ∧ s.prov = s0.prov ∧ s.fs = s0.fs

syntax "ssafe" : tactic
macro_rules
  | `(tactic| ssafe) => `(tactic| all_goals (
      simp +zetaDelta only [SInv, FaultsOk, InStep, ReqOk, Started, Kept, PutReq.metadataOnly, Bool.and_eq_true,
        idle_iff_not_busy, Classical.not_not, ne_eq,
        Option.map_eq_none_iff, fhCancel, fhIgnore, fhAbandon, fhSuspend, Option.isSome_eq_false_iff,
        Option.isNone_iff_eq_none, Option.isSome_iff_ne_none, Option.not_isSome_iff_eq_none] at *;
      grind (splits := 40) [Err.isInternal]))

theorem checksumCalculation_spec (size : Nat) (s0 : SrcSt) :
    ⦃fun s => ⌜s = s0 ∧ SInv s ∧ Started s⌝⦄ checksumCalculation size
    ⦃post⟨fun r s => ⌜s = s0 ∧ r.length = 4⌝, fun e s => ⌜s = s0 ∧ e.isInternal = false⌝⟩⦄ := by
  mvcgen [checksumCalculation]
  ssafe

/-- `prepareEofPdu`, then `handleEofSent`: used by the EOF step, the cancel notice and the re-send -/
theorem prepareEofPdu_spec (env : Env) (cks : List UInt8) (hc : cks.length = 4) (s0 : SrcSt) :
    ⦃fun s => ⌜s = s0 ∧ SInv s ∧ Started s ∧ s.p.condCodeEof ≠ none⌝⦄ prepareEofPdu env cks
    ⦃post⟨fun _ s => ⌜SInv s ∧ Started s ∧ s.step = s0.step ∧ s.p = s0.p ∧ s.stepBefore = s0.stepBefore⌝,
          fun e s => ⌜SInv s ∧ e.isInternal = false⌝⟩⦄ := by
  mvcgen [prepareEofPdu, getP, addPacket, emitInd]
  ssafe

theorem handleEofSent_spec (env : Env) (cancelEof : Bool) :
    ⦃fun s => ⌜SInv s ∧ Started s ∧ s.p.condCodeEof ≠ none⌝⦄ handleEofSent env cancelEof ⦃Good SInv⦄ := by
  mvcgen [handleEofSent, startPositiveAckProcedure, transmissionMode, resetInternal, getP, modP]
  ssafe

theorem noticeOfCancellation_spec (env : Env) (cond : Nat) :
    ⦃fun s => ⌜SInv s ∧ Started s⌝⦄ noticeOfCancellation env cond ⦃Good SInv⦄ := by
  mvcgen [noticeOfCancellation, cancelInProgress, abandonTransaction, resetInternal, getP, modP,
    checksumCalculation_spec, prepareEofPdu_spec, handleEofSent_spec]
  ssafe

theorem declareFault_spec (env : Env) (cond : Nat) (hc : cond = ccPositiveAckLimit ∨ cond = ccCheckLimit) :
    ⦃fun s => ⌜SInv s ∧ Started s⌝⦄ declareFault env cond ⦃Good SInv⦄ := by
  mvcgen [declareFault, abandonTransaction, resetInternal, noticeOfCancellation_spec]
  ssafe

theorem Kept.refl (s : SrcSt) : Kept s s := by simp [Kept]
theorem Kept.trans {a b c : SrcSt} (h1 : Kept a b) (h2 : Kept b c) : Kept a c := by
  simp only [Kept] at *; grind
theorem Kept.inv {a b : SrcSt} (h : Kept a b) (hi : SInv a) : SInv b := by
  simp only [Kept, SInv, FaultsOk, InStep, ReqOk] at *; grind
theorem Kept.started {a b : SrcSt} (h : Kept a b) (hi : Started a) : Started b := by
  simp only [Kept, Started] at *; grind

abbrev Keeps {α : Type} (s0 : SrcSt) : PostCond α (.except Err (.arg SrcSt .pure)) :=
  post⟨fun _ s => ⌜Kept s0 s⌝, fun e s => ⌜Kept s0 s ∧ e.isInternal = false⌝⟩

theorem prepareMetadataPdu_spec (s0 : SrcSt) :
    ⦃fun s => ⌜Kept s0 s ∧ SInv s0 ∧ Started s0⌝⦄ prepareMetadataPdu ⦃Keeps s0⦄ := by
  mvcgen [prepareMetadataPdu, addPacket]
  ssafe

theorem prepareFileDataPdu_spec (off len : Nat) (s0 : SrcSt) :
    ⦃fun s => ⌜Kept s0 s ∧ SInv s0 ∧ Started s0 ∧ s0.p.metadataOnly = false⌝⦄ prepareFileDataPdu off len
    ⦃Keeps s0⦄ := by
  mvcgen [prepareFileDataPdu, addPacket]
  ssafe

theorem prepareProgressingFileDataPdu_spec :
    ⦃fun s => ⌜SInv s ∧ Started s ∧ s.p.metadataOnly = false ∧ s.step = .SENDING_FILE_DATA⌝⦄
    prepareProgressingFileDataPdu ⦃Good SInv⦄ := by
  mvcgen [prepareProgressingFileDataPdu, getP, modP, prepareFileDataPdu_spec]
  ssafe

theorem segmentChunks_spec (segLen fuel cur missing : Nat) (s0 : SrcSt) :
    ⦃fun s => ⌜Kept s0 s ∧ SInv s0 ∧ Started s0 ∧ s0.p.metadataOnly = false⌝⦄
    segmentChunks segLen fuel cur missing ⦃Keeps s0⦄ := by
  induction fuel generalizing cur missing with
  | zero =>
    mvcgen [segmentChunks]
    all_goals simp_all [Err.isInternal]
  | succ n ih =>
    unfold segmentChunks
    mvcgen [prepareFileDataPdu_spec, ih]
    ssafe

theorem handleSegmentReq_spec (req : Nat × Nat) (s0 : SrcSt) :
    ⦃fun s => ⌜Kept s0 s ∧ SInv s0 ∧ Started s0⌝⦄ handleSegmentReq req ⦃Keeps s0⦄ := by
  mvcgen [handleSegmentReq, getP, prepareMetadataPdu_spec, segmentChunks_spec]
  ssafe

theorem handleSegmentReqs_spec (reqs : List (Nat × Nat)) (s0 : SrcSt) :
    ⦃fun s => ⌜Kept s0 s ∧ SInv s0 ∧ Started s0⌝⦄ handleSegmentReqs reqs ⦃Keeps s0⦄ := by
  induction reqs with
  | nil =>
    mvcgen [handleSegmentReqs]
    ssafe
  | cons r rest ih =>
    unfold handleSegmentReqs
    mvcgen [handleSegmentReq_spec, ih]
    ssafe

/-- `__handle_retransmission`: `true` = a NAK was served and the handler is now re-transmitting -/
theorem handleRetransmission_spec (pkt : Option Pdu) (s0 : SrcSt) :
    ⦃fun s => ⌜s = s0 ∧ SInv s ∧ Started s ∧ (s.step = .SENDING_FILE_DATA ∨ s.step = .WAITING_FOR_EOF_ACK ∨
                  s.step = .WAITING_FOR_FINISHED)⌝⦄
    handleRetransmission pkt
    ⦃post⟨fun r s => ⌜SInv s ∧ Started s ∧ (r = false → s = s0)⌝,
          fun e s => ⌜SInv s ∧ e.isInternal = false⌝⟩⦄ := by
  mvcgen [handleRetransmission, handleSegmentReqs_spec]
  ssafe

theorem handlePositiveAckProcedures_spec (env : Env) :
    ⦃fun s => ⌜SInv s ∧ Started s ∧ s.step = .WAITING_FOR_EOF_ACK⌝⦄ handlePositiveAckProcedures env
    ⦃Good SInv⦄ := by
  mvcgen [handlePositiveAckProcedures, getP, modP, declareFault_spec, checksumCalculation_spec,
    prepareEofPdu_spec]
  ssafe

/-- what the admission check guarantees: a File Data PDU is never handed to the source state machine -/
def NotFd : Option Pdu → Prop
  | some (.fd ..) => False
  | _ => True

theorem handleWaitingForAck_spec (env : Env) (pkt : Option Pdu) (hp : NotFd pkt) :
    ⦃fun s => ⌜SInv s ∧ Started s ∧ s.step = .WAITING_FOR_EOF_ACK⌝⦄ handleWaitingForAck env pkt
    ⦃Good SInv⦄ := by
  mvcgen [handleWaitingForAck, handleRetransmission_spec, handlePositiveAckProcedures_spec]
  all_goals (try simp only [NotFd] at hp)
  ssafe

theorem handleWaitForFinish_spec (env : Env) (pkt : Option Pdu) :
    ⦃fun s => ⌜SInv s ∧ Started s ∧ s.step = .WAITING_FOR_FINISHED⌝⦄ handleWaitForFinish env pkt
    ⦃Good SInv⦄ := by
  mvcgen [handleWaitForFinish, transmissionMode, getP, modP, addPacket, handleRetransmission_spec,
    declareFault_spec]
  ssafe

theorem noticeOfCompletion_spec (env : Env) :
    ⦃fun s => ⌜SInv s ∧ Started s⌝⦄ noticeOfCompletion env ⦃Good SInv⦄ := by
  mvcgen [noticeOfCompletion, resetInternal, getP, modP, emitInd]
  ssafe

theorem sendingFileDataFsm_spec (pkt : Option Pdu) :
    ⦃fun s => ⌜SInv s ∧ Started s ∧ s.step = .SENDING_FILE_DATA⌝⦄ sendingFileDataFsm pkt
    ⦃post⟨fun r s => ⌜SInv s ∧ (r = false → Started s)⌝, fun e s => ⌜SInv s ∧ e.isInternal = false⌝⟩⦄ := by
  mvcgen [sendingFileDataFsm, transmissionMode, getP, modP, handleRetransmission_spec,
    prepareProgressingFileDataPdu_spec]
  ssafe

/-- the segment length that `_calculate_max_file_seg_len` derives for the transaction about to
start exists and is positive, whatever the large-file flag turns out to be: the remote entity's
`max_packet_len` leaves room for a File Data PDU header and one byte of data (hypothesis of the
theorem; with a smaller `max_packet_len` the real code raises `ValueError` from `state_machine`) -/
def SegFitsAt (env : Env) (req : PutReq) (rc : RemoteCfg) (bits : Nat) : Prop :=
  ∀ (mode : Route.Mode) (large : Bool) (sv dv qv : Nat),
    ∃ n, segLenOf rc { dir := .toRecv, mode := mode, crc := rc.crc, large := large,
                       src := ⟨sv, max env.cfg.entityId.width req.destId.width⟩,
                       dst := ⟨dv, max env.cfg.entityId.width req.destId.width⟩,
                       seq := ⟨qv, bits / 8⟩ } = some n ∧ 0 < n

def SegFits (env : Env) (s : SrcSt) : Prop :=
  ∀ req rc, s.putReq = some req → s.p.remoteCfg = some rc → SegFitsAt env req rc s.prov.bits

theorem segFits_use {env : Env} {s : SrcSt} {req : PutReq} {rc : RemoteCfg} (h : SegFits env s)
    (h1 : s.putReq = some req) (h2 : s.p.remoteCfg = some rc) (mode : Route.Mode) (large : Bool)
    (sv dv qv : Nat) :
    segLenOf rc (⟨.toRecv, mode, rc.crc, large, ⟨sv, max env.cfg.entityId.width req.destId.width⟩,
                  ⟨dv, max env.cfg.entityId.width req.destId.width⟩, ⟨qv, s.prov.bits / 8⟩⟩ : Hdr) ≠ none ∧
    ∀ n, segLenOf rc (⟨.toRecv, mode, rc.crc, large, ⟨sv, max env.cfg.entityId.width req.destId.width⟩,
                  ⟨dv, max env.cfg.entityId.width req.destId.width⟩, ⟨qv, s.prov.bits / 8⟩⟩ : Hdr) = some n → 0 < n := by
  obtain ⟨n, hn, hpos⟩ := h req rc h1 h2 mode large sv dv qv
  constructor
  · rw [hn]; simp
  · intro m hm; rw [hn] at hm; cases hm; exact hpos

theorem transactionStart_spec (env : Env) :
    ⦃fun s => ⌜SInv s ∧ s.state = .busy ∧ s.step = .TRANSACTION_START ∧ s.putReq ≠ none ∧ SegFits env s⌝⦄
    transactionStart env
    ⦃post⟨fun _ s => ⌜SInv { s with step := .SENDING_METADATA } ∧ s.state = .busy⌝,
          fun e s => ⌜SInv s ∧ e.isInternal = false⌝⟩⦄ := by
  mvcgen [transactionStart, getP, modP, emitInd]
  all_goals (
      simp +zetaDelta only [SInv, FaultsOk, InStep, ReqOk, Started, Kept, PutReq.metadataOnly, Bool.and_eq_true,
        idle_iff_not_busy, Classical.not_not, ne_eq,
        Option.map_eq_none_iff, fhCancel, fhIgnore, fhAbandon, fhSuspend, Option.isSome_eq_false_iff,
        Option.isNone_iff_eq_none, Option.isSome_iff_ne_none, Option.not_isSome_iff_eq_none] at *;
      grind (splits := 40) [Err.isInternal, segFits_use])

theorem fsmAdvancementAfterPacketsWereSent_spec (s0 : SrcSt) :
    ⦃fun s => ⌜s = s0 ∧ SInv s ∧ s.state = .busy⌝⦄ fsmAdvancementAfterPacketsWereSent
    ⦃Good (fun s => SInv s ∧ s.state = .busy ∧ s.putReq = s0.putReq ∧ s.p.remoteCfg = s0.p.remoteCfg ∧
                     s.prov = s0.prov)⦄ := by
  mvcgen [fsmAdvancementAfterPacketsWereSent]
  ssafe

theorem fsmFromNoticeOfCompletion_spec (env : Env) :
    ⦃fun s => ⌜SInv s⌝⦄ fsmFromNoticeOfCompletion env
    ⦃Good SInv⦄ := by
  mvcgen [fsmFromNoticeOfCompletion, noticeOfCompletion_spec]
  ssafe

theorem fsmFromWaitingForFinished_spec (env : Env) (pkt : Option Pdu) :
    ⦃fun s => ⌜SInv s⌝⦄ fsmFromWaitingForFinished env pkt ⦃Good SInv⦄ := by
  mvcgen [fsmFromWaitingForFinished, handleWaitForFinish_spec, fsmFromNoticeOfCompletion_spec]
  ssafe

theorem fsmFromWaitingForEofAck_spec (env : Env) (pkt : Option Pdu) (hp : NotFd pkt) :
    ⦃fun s => ⌜SInv s⌝⦄ fsmFromWaitingForEofAck env pkt ⦃Good SInv⦄ := by
  have h1 := handleWaitingForAck_spec env pkt hp
  mvcgen [fsmFromWaitingForEofAck, h1, fsmFromWaitingForFinished_spec]
  ssafe

theorem fsmFromSendingEof_spec (env : Env) (pkt : Option Pdu) (hp : NotFd pkt) :
    ⦃fun s => ⌜SInv s⌝⦄ fsmFromSendingEof env pkt ⦃Good SInv⦄ := by
  have h1 := fsmFromWaitingForEofAck_spec env pkt hp
  mvcgen [fsmFromSendingEof, getP, h1, checksumCalculation_spec, prepareEofPdu_spec, handleEofSent_spec]
  ssafe

theorem fsmFromSendingFileData_spec (env : Env) (pkt : Option Pdu) (hp : NotFd pkt) :
    ⦃fun s => ⌜SInv s⌝⦄ fsmFromSendingFileData env pkt ⦃Good SInv⦄ := by
  have h1 := fsmFromSendingEof_spec env pkt hp
  mvcgen [fsmFromSendingFileData, h1, sendingFileDataFsm_spec]
  ssafe

theorem fsmNonIdle_spec (env : Env) (pkt : Option Pdu) (hp : NotFd pkt) :
    ⦃fun s => ⌜SInv s ∧ s.state = .busy ∧ SegFits env s⌝⦄ fsmNonIdle env pkt ⦃Good SInv⦄ := by
  have h1 := fsmFromSendingFileData_spec env pkt hp
  mvcgen [fsmNonIdle, h1, fsmAdvancementAfterPacketsWereSent_spec, transactionStart_spec,
    prepareMetadataPdu_spec]
  all_goals (simp only [SegFits] at *)
  ssafe

theorem checkInsertedPacket_spec (env : Env) (pdu : Pdu) (s0 : SrcSt) :
    ⦃fun s => ⌜s = s0⌝⦄ checkInsertedPacket env pdu
    ⦃post⟨fun _ s => ⌜s = s0 ∧ NotFd (some pdu)⌝, fun e s => ⌜s = s0 ∧ e.isInternal = false⌝⟩⦄ := by
  mvcgen [checkInsertedPacket]
  all_goals (try (cases pdu <;> simp_all +zetaDelta [NotFd, Pdu.kind, Route.getPacketDestination, Err.isInternal]))

theorem stateMachine_spec (env : Env) (pkt : Option Pdu) :
    ⦃fun s => ⌜SInv s ∧ SegFits env s⌝⦄ stateMachine env pkt ⦃Good SInv⦄ := by
  by_cases hp : NotFd pkt
  · have h1 := fsmNonIdle_spec env pkt hp
    mvcgen [stateMachine, h1, checkInsertedPacket_spec]
    all_goals (subst_vars; simp_all)
  · -- a File Data PDU: refused by the admission check
    cases pkt with
    | none => simp [NotFd] at hp
    | some pdu =>
      cases pdu <;> simp [NotFd] at hp
      mvcgen [stateMachine, checkInsertedPacket]
      all_goals (simp_all +zetaDelta [Pdu.kind, Route.getPacketDestination, Err.isInternal])

theorem putRequest_spec (env : Env) (req : PutReq) (hr : ReqOk req) :
    ⦃fun s => ⌜SInv s⌝⦄ putRequest env req ⦃Good SInv⦄ := by
  mvcgen [putRequest, modP]
  all_goals (simp only [ReqOk] at hr)
  ssafe

theorem cancelRequest_spec (env : Env) (tid : Tid) :
    ⦃fun s => ⌜SInv s⌝⦄ cancelRequest env tid ⦃Good SInv⦄ := by
  mvcgen [cancelRequest, noticeOfCancellation_spec]
  ssafe

theorem getNextPacket_spec : ⦃fun s => ⌜SInv s⌝⦄ getNextPacket ⦃Good SInv⦄ := by
  mvcgen [getNextPacket]
  ssafe

theorem reset_spec : ⦃fun s => ⌜SInv s⌝⦄ reset ⦃Good SInv⦄ := by
  mvcgen [reset, resetInternal]
  ssafe

end Cfdp.Source.Safe
