import Std.Do
import Std.Tactic.Do
import CfdpVerif.Lemmas.Monad
/-! Bridges between the `Std.Do` Hoare triples and the plain statements / combinators used elsewhere. -/
open Std.Do

namespace Cfdp

/-- a Hoare triple of `Std.Do` about an `EStateM` program, read back as a statement about the
result of running the program -/
theorem triple_elim {ε σ α : Type} (x : EStateM ε σ α) (P : σ → Prop) (Q : α → σ → Prop)
    (E : ε → σ → Prop)
    (h : ⦃fun s => ⌜P s⌝⦄ x ⦃post⟨fun a s => ⌜Q a s⌝, fun e s => ⌜E e s⌝⟩⦄) (s : σ) (hp : P s) :
    match x s with
    | .ok a s' => Q a s'
    | .error e s' => E e s' := by
  have := h s
  simp only [SPred.entails] at this
  have h2 := this hp
  simp [wp, PredTrans.apply] at h2
  unfold EStateM.run at h2
  cases hx : x s <;> simp [hx] at h2 ⊢ <;> exact h2

theorem preserves_of_triple {ε σ α : Type} {P : σ → Prop} {x : EStateM ε σ α}
    (h : ⦃fun s => ⌜P s⌝⦄ x ⦃post⟨fun _ s => ⌜P s⌝, fun _ s => ⌜P s⌝⟩⦄) : Preserves P x := by
  intro s hs
  have := triple_elim x P (fun _ s => P s) (fun _ s => P s) h s hs
  cases hx : x s <;> simp [hx, stateOf] at this ⊢ <;> exact this

theorem triple_of_preserves {ε σ α : Type} {P : σ → Prop} {x : EStateM ε σ α} (h : Preserves P x) :
    ⦃fun s => ⌜P s⌝⦄ x ⦃post⟨fun _ s => ⌜P s⌝, fun _ s => ⌜P s⌝⟩⦄ := by
  intro s
  simp only [SPred.entails]
  intro hs
  have := h s hs
  simp [wp, PredTrans.apply]
  unfold EStateM.run
  cases hx : x s <;> simp [hx, stateOf] at this ⊢ <;> exact this

end Cfdp
