import CfdpVerif.Model.Dest
import CfdpVerif.Lemmas.StdDo
import CfdpVerif.Lemmas.SafeDestC01
import CfdpVerif.Props.C17
/-!
C05, destination handler: **a path that no Metadata PDU names is never touched, for every history**.
-/
open Std.Do

set_option mvcgen.warning false
set_option linter.unusedSimpArgs false
set_option linter.unusedVariables false
set_option linter.unusedTactic false

namespace Cfdp.Dest.PathFrame
open Cfdp Cfdp.Dest

/-- the path `q` still has the content `v`, and it is not the destination path of the handler -/
def PF (q : String) (v : Option Node) (s : DestSt) : Prop := s.fs.get q = v ∧ s.p.fileName ≠ q

abbrev Keeps {α : Type} (Q : DestSt → Prop) : PostCond α (.except Err (.arg DestSt .pure)) :=
  post⟨fun _ s => ⌜Q s⌝, fun _ s => ⌜Q s⌝⟩

/-! ### the filestore operations change at most the path they are given -/

theorem writeData_frame (fs fs' : Fs) (p q : String) (d : List UInt8) (o : Nat)
    (h : Fs.writeData fs p d o = .ok fs') (hq : p ≠ q) : fs'.get q = fs.get q := by
  unfold Fs.writeData at h
  split at h
  · split at h <;> simp at h
  · simp at h
  · simp at h; subst h
    exact Fs.C17.get_set_other _ _ _ _ (Ne.symm hq)

theorem truncateFile_frame (fs fs' : Fs) (p q : String)
    (h : Fs.truncateFile fs p = .ok fs') (hq : p ≠ q) : fs'.get q = fs.get q := by
  unfold Fs.truncateFile at h
  split at h
  · split at h <;> simp at h
  · simp at h
  · simp at h; subst h
    exact Fs.C17.get_set_other _ _ _ _ (Ne.symm hq)

theorem createFile_frame (fs : Fs) (p q : String) (hq : p ≠ q) : (Fs.createFile fs p).2.get q = fs.get q := by
  unfold Fs.createFile
  split
  · rfl
  · split
    · rfl
    · exact Fs.C17.get_set_other _ _ _ _ (Ne.symm hq)

theorem deleteFile_frame (fs : Fs) (p q : String) (hq : p ≠ q) : (Fs.deleteFile fs p).2.get q = fs.get q := by
  unfold Fs.deleteFile
  split
  · rfl
  · split
    · rfl
    · exact Fs.C17.get_del_other _ _ _ (Ne.symm hq)

syntax "pframe" : tactic
macro_rules
  | `(tactic| pframe) => `(tactic| all_goals (
      simp +zetaDelta only [PF, ne_eq] at *;
      grind (splits := 40) [writeData_frame, truncateFile_frame, createFile_frame, deleteFile_frame]))

/-- destination names a Metadata PDU may carry without touching `q`: neither the name itself nor the
name joined with the source base name (the resolution when the name is a directory) is `q` -/
def NamesOk (q : String) (sname dname : Option String) : Prop :=
  ∀ d s, dname = some d → sname = some s → d ≠ q ∧ Fs.joinPath d (Fs.baseName s) ≠ q

theorem declareFault_spec (q : String) (v : Option Node) (hq : q ≠ ".") (cond : Nat) :
    ⦃fun s => ⌜PF q v s⌝⦄ declareFault cond ⦃Keeps (PF q v)⦄ := by
  mvcgen [declareFault, noticeOfCancellation, abandonTransaction, resetInternal]
  pframe

theorem checksumVerify_spec (q : String) (v : Option Node) (hq : q ≠ ".") :
    ⦃fun s => ⌜PF q v s⌝⦄ checksumVerify ⦃Keeps (PF q v)⦄ := by
  have h1 := declareFault_spec q v hq
  mvcgen [checksumVerify, markComplete, getP, modP, h1]
  pframe

theorem initVfsHandling_spec (q : String) (v : Option Node) (hq : q ≠ ".") (b : String) :
    ⦃fun s => ⌜s.fs.get q = v ∧ s.p.fileName ≠ q ∧ Fs.joinPath s.p.fileName b ≠ q⌝⦄ initVfsHandling b
    ⦃Keeps (PF q v)⦄ := by
  have h1 := declareFault_spec q v hq
  mvcgen [initVfsHandling, getP, modP, h1]
  pframe

theorem handleMetadataPacket_spec (q : String) (v : Option Node) (hq : q ≠ ".") (h : Hdr) (closure : Bool)
    (cks size : Nat) (sname dname : Option String) (msgs : Option (List Msg)) (hn : NamesOk q sname dname) :
    ⦃fun s => ⌜PF q v s⌝⦄ handleMetadataPacket h closure cks size sname dname msgs ⦃Keeps (PF q v)⦄ := by
  have h1 := initVfsHandling_spec q v hq
  mvcgen [handleMetadataPacket, getP, modP, emitInd, h1]
  all_goals (simp only [NamesOk] at hn)
  pframe

/-- the Metadata PDU (if the packet is one) names neither `q` nor a directory whose join with the source
base name is `q` -/
def MdOk (q : String) (pkt : Option Pdu) : Prop :=
  ∀ h cl c sz sn dn m, pkt = some (.md h cl c sz sn dn m) → NamesOk q sn dn

theorem handleFdWithoutPreviousMetadata_spec (q : String) (v : Option Node) (hq : q ≠ ".") (first : Bool) (off : Nat) (data : List UInt8) :
    ⦃fun s => ⌜PF q v s⌝⦄ handleFdWithoutPreviousMetadata first off data ⦃Keeps (PF q v)⦄ := by
  mvcgen [handleFdWithoutPreviousMetadata, getP, modP, addPacket]
  pframe

theorem handleEofWithoutPreviousMetadata_spec (q : String) (v : Option Node) (hq : q ≠ ".") (env : Env) (cond : Nat) (cks : List UInt8) (size : Nat) :
    ⦃fun s => ⌜PF q v s⌝⦄ handleEofWithoutPreviousMetadata env cond cks size ⦃Keeps (PF q v)⦄ := by
  mvcgen [handleEofWithoutPreviousMetadata, getP, modP, addPacket, emitInd, triggerNoticeOfCompletionCanceled, prepareEofAckPacket]
  pframe

theorem lostSegmentHandling_spec (q : String) (v : Option Node) (hq : q ≠ ".") (off len : Nat) :
    ⦃fun s => ⌜PF q v s⌝⦄ lostSegmentHandling off len ⦃Keeps (PF q v)⦄ := by
  mvcgen [lostSegmentHandling, getP, modP, addPacket]
  pframe

theorem fdAfterWrite_spec (q : String) (v : Option Node) (hq : q ≠ ".") (off : Nat) (data : List UInt8) (r : Option FsErr) :
    ⦃fun s => ⌜PF q v s⌝⦄ fdAfterWrite off data r ⦃Keeps (PF q v)⦄ := by
  have h1 := declareFault_spec q v hq
  mvcgen [fdAfterWrite, sizeErrOf, getP, modP, h1]
  pframe

theorem fdWrite_spec (q : String) (v : Option Node) (hq : q ≠ ".") (off : Nat) (data : List UInt8) :
    ⦃fun s => ⌜PF q v s⌝⦄ fdWrite off data ⦃Keeps (PF q v)⦄ := by
  mvcgen [fdWrite, vfsWriteData, getP]
  pframe

theorem handleFdPdu_spec (q : String) (v : Option Node) (hq : q ≠ ".") (env : Env) (off : Nat) (data : List UInt8) :
    ⦃fun s => ⌜PF q v s⌝⦄ handleFdPdu env off data ⦃Keeps (PF q v)⦄ := by
  have h1 := lostSegmentHandling_spec q v hq
  have h2 := fdWrite_spec q v hq
  have h3 := fdAfterWrite_spec q v hq
  mvcgen [handleFdPdu, fdIndication, fdLostSegments, transmissionMode, getP, emitInd, h1, h2, h3]
  pframe

theorem noErrorEofVerify_spec (q : String) (v : Option Node) (hq : q ≠ ".") (env : Env) :
    ⦃fun s => ⌜PF q v s⌝⦄ noErrorEofVerify env ⦃Keeps (PF q v)⦄ := by
  have h1 := checksumVerify_spec q v hq
  mvcgen [noErrorEofVerify, transmissionMode, startCheckLimitHandling, assertThat, getP, modP, h1]
  pframe

theorem handleNoErrorEof_spec (q : String) (v : Option Node) (hq : q ≠ ".") (env : Env) :
    ⦃fun s => ⌜PF q v s⌝⦄ handleNoErrorEof env ⦃Keeps (PF q v)⦄ := by
  have h1 := declareFault_spec q v hq
  have h2 := noErrorEofVerify_spec q v hq
  mvcgen [handleNoErrorEof, transmissionMode, getP, modP, h1, h2]
  pframe

theorem handleEofPdu_spec (q : String) (v : Option Node) (hq : q ≠ ".") (env : Env) (cond : Nat) (cks : List UInt8) (size : Nat) :
    ⦃fun s => ⌜PF q v s⌝⦄ handleEofPdu env cond cks size ⦃Keeps (PF q v)⦄ := by
  have h1 := handleNoErrorEof_spec q v hq
  mvcgen [handleEofPdu, fileTransferCompleteTransition, prepareEofAckPacket, addPacket, triggerNoticeOfCompletionCanceled, transmissionMode, getP, modP, emitInd, h1]
  pframe

theorem handleFdOrEofPdu_spec (q : String) (v : Option Node) (hq : q ≠ ".") (env : Env) (pdu : Pdu) :
    ⦃fun s => ⌜PF q v s⌝⦄ handleFdOrEofPdu env pdu ⦃Keeps (PF q v)⦄ := by
  have h1 := handleFdPdu_spec q v hq
  have h2 := handleEofPdu_spec q v hq
  mvcgen [handleFdOrEofPdu, h1, h2]
  pframe

theorem handleWaitingForMissingMetadata_spec (q : String) (v : Option Node) (hq : q ≠ ".") (env : Env) (pkt : Option Pdu) (hmd : MdOk q pkt) :
    ⦃fun s => ⌜PF q v s⌝⦄ handleWaitingForMissingMetadata env pkt ⦃Keeps (PF q v)⦄ := by
  have h1 := handleFdWithoutPreviousMetadata_spec q v hq
  have h3 := handleEofWithoutPreviousMetadata_spec q v hq
  cases pkt with
  | none =>
    mvcgen [handleWaitingForMissingMetadata, resetNakActivityParameters, getP, modP, h1, h3]
    pframe
  | some pdu =>
    cases pdu with
    | md h cl c sz sn dn m =>
      have h2 := handleMetadataPacket_spec q v hq h cl c sz sn dn m (hmd h cl c sz sn dn m rfl)
      mvcgen [handleWaitingForMissingMetadata, resetNakActivityParameters, getP, modP, h1, h2, h3]
      pframe
    | _ =>
      mvcgen [handleWaitingForMissingMetadata, resetNakActivityParameters, getP, modP, h1, h3]
      pframe

theorem deferredLostSegmentHandling_spec (q : String) (v : Option Node) (hq : q ≠ ".") (env : Env) :
    ⦃fun s => ⌜PF q v s⌝⦄ deferredLostSegmentHandling env ⦃Keeps (PF q v)⦄ := by
  have h1 := checksumVerify_spec q v hq
  have h2 := declareFault_spec q v hq
  mvcgen [deferredLostSegmentHandling, getP, modP, addPackets, h1, h2]
  pframe

theorem startDeferredLostSegmentHandling_spec (q : String) (v : Option Node) (hq : q ≠ ".") (env : Env) :
    ⦃fun s => ⌜PF q v s⌝⦄ startDeferredLostSegmentHandling env ⦃Keeps (PF q v)⦄ := by
  have h1 := deferredLostSegmentHandling_spec q v hq
  mvcgen [startDeferredLostSegmentHandling, getP, modP, h1]
  pframe

theorem fsmAdvancementAfterPacketsWereSent_spec (q : String) (v : Option Node) (hq : q ≠ ".") (env : Env) :
    ⦃fun s => ⌜PF q v s⌝⦄ fsmAdvancementAfterPacketsWereSent env ⦃Keeps (PF q v)⦄ := by
  have h1 := startDeferredLostSegmentHandling_spec q v hq
  have h2 := checksumVerify_spec q v hq
  mvcgen [fsmAdvancementAfterPacketsWereSent, h1, h2]
  pframe

theorem checkLimitHandling_spec (q : String) (v : Option Node) (hq : q ≠ ".") (env : Env) :
    ⦃fun s => ⌜PF q v s⌝⦄ checkLimitHandling env ⦃Keeps (PF q v)⦄ := by
  have h1 := checksumVerify_spec q v hq
  have h2 := declareFault_spec q v hq
  mvcgen [checkLimitHandling, fileTransferCompleteTransition, prepareEofAckPacket, addPacket, transmissionMode, getP, modP, h1, h2]
  pframe

theorem handleTransferCompletion_spec (q : String) (v : Option Node) (hq : q ≠ ".") (env : Env) :
    ⦃fun s => ⌜PF q v s⌝⦄ handleTransferCompletion env ⦃Keeps (PF q v)⦄ := by
  mvcgen [handleTransferCompletion, noticeOfCompletion, transmissionMode, resetInternal, getP, emitInd]
  pframe

theorem prepareFinishedPdu_spec (q : String) (v : Option Node) (hq : q ≠ ".") :
    ⦃fun s => ⌜PF q v s⌝⦄ prepareFinishedPdu ⦃Keeps (PF q v)⦄ := by
  mvcgen [prepareFinishedPdu, addPacket]
  pframe

theorem handleFinishedPduSent_spec (q : String) (v : Option Node) (hq : q ≠ ".") (env : Env) :
    ⦃fun s => ⌜PF q v s⌝⦄ handleFinishedPduSent env ⦃Keeps (PF q v)⦄ := by
  mvcgen [handleFinishedPduSent, startPositiveAckProcedure, transmissionMode, resetInternal, getP, modP]
  pframe

theorem handlePositiveAckProcedures_spec (q : String) (v : Option Node) (hq : q ≠ ".") (env : Env) (recurse : DM Unit) (hr : ⦃fun s => ⌜PF q v s⌝⦄ recurse ⦃Keeps (PF q v)⦄) :
    ⦃fun s => ⌜PF q v s⌝⦄ handlePositiveAckProcedures env recurse ⦃Keeps (PF q v)⦄ := by
  have h1 := declareFault_spec q v hq
  mvcgen [handlePositiveAckProcedures, resendFinished, prepareFinishedPdu, getP, modP, addPacket, hr, h1]
  pframe

theorem handleWaitingForFinishedAck_spec (q : String) (v : Option Node) (hq : q ≠ ".") (env : Env) (pkt : Option Pdu) (recurse : DM Unit) (hr : ⦃fun s => ⌜PF q v s⌝⦄ recurse ⦃Keeps (PF q v)⦄) :
    ⦃fun s => ⌜PF q v s⌝⦄ handleWaitingForFinishedAck env pkt recurse ⦃Keeps (PF q v)⦄ := by
  have hp := handlePositiveAckProcedures_spec q v hq env recurse hr
  mvcgen [handleWaitingForFinishedAck, prepareEofAckPacket, addPacket, resetInternal, getP, hp]
  pframe

theorem fsmFromWaitingForFinishedAck_spec (q : String) (v : Option Node) (hq : q ≠ ".") (env : Env) (pkt : Option Pdu) (recurse : DM Unit) (hr : ⦃fun s => ⌜PF q v s⌝⦄ recurse ⦃Keeps (PF q v)⦄) :
    ⦃fun s => ⌜PF q v s⌝⦄ fsmFromWaitingForFinishedAck env pkt recurse ⦃Keeps (PF q v)⦄ := by
  have h1 := handleWaitingForFinishedAck_spec q v hq env pkt recurse hr
  mvcgen [fsmFromWaitingForFinishedAck, h1]
  pframe

theorem fsmFromSendingFinishedPdu_spec (q : String) (v : Option Node) (hq : q ≠ ".") (env : Env) (pkt : Option Pdu) (recurse : DM Unit) (hr : ⦃fun s => ⌜PF q v s⌝⦄ recurse ⦃Keeps (PF q v)⦄) :
    ⦃fun s => ⌜PF q v s⌝⦄ fsmFromSendingFinishedPdu env pkt recurse ⦃Keeps (PF q v)⦄ := by
  have h1 := fsmFromWaitingForFinishedAck_spec q v hq env pkt recurse hr
  have h2 := prepareFinishedPdu_spec q v hq
  have h3 := handleFinishedPduSent_spec q v hq
  mvcgen [fsmFromSendingFinishedPdu, h1, h2, h3]
  pframe

theorem fsmFromTransferCompletion_spec (q : String) (v : Option Node) (hq : q ≠ ".") (env : Env) (pkt : Option Pdu) (recurse : DM Unit) (hr : ⦃fun s => ⌜PF q v s⌝⦄ recurse ⦃Keeps (PF q v)⦄) :
    ⦃fun s => ⌜PF q v s⌝⦄ fsmFromTransferCompletion env pkt recurse ⦃Keeps (PF q v)⦄ := by
  have h1 := fsmFromSendingFinishedPdu_spec q v hq env pkt recurse hr
  have h2 := handleTransferCompletion_spec q v hq
  mvcgen [fsmFromTransferCompletion, h1, h2]
  pframe

theorem fsmFromWaitingForMissingData_spec (q : String) (v : Option Node) (hq : q ≠ ".") (env : Env) (pkt : Option Pdu) (recurse : DM Unit) (hr : ⦃fun s => ⌜PF q v s⌝⦄ recurse ⦃Keeps (PF q v)⦄) :
    ⦃fun s => ⌜PF q v s⌝⦄ fsmFromWaitingForMissingData env pkt recurse ⦃Keeps (PF q v)⦄ := by
  have h1 := fsmFromTransferCompletion_spec q v hq env pkt recurse hr
  have h2 := handleFdPdu_spec q v hq
  have h3 := deferredLostSegmentHandling_spec q v hq
  mvcgen [fsmFromWaitingForMissingData, h1, h2, h3, resetNakActivityParameters, prepareEofAckPacket, addPacket, getP, modP]
  pframe

theorem fsmFromCheckLimit_spec (q : String) (v : Option Node) (hq : q ≠ ".") (env : Env) (pkt : Option Pdu) (recurse : DM Unit) (hr : ⦃fun s => ⌜PF q v s⌝⦄ recurse ⦃Keeps (PF q v)⦄) :
    ⦃fun s => ⌜PF q v s⌝⦄ fsmFromCheckLimit env pkt recurse ⦃Keeps (PF q v)⦄ := by
  have h1 := fsmFromWaitingForMissingData_spec q v hq env pkt recurse hr
  have h2 := checkLimitHandling_spec q v hq
  mvcgen [fsmFromCheckLimit, h1, h2]
  pframe

theorem fsmFromWaitingForMetadata_spec (q : String) (v : Option Node) (hq : q ≠ ".") (env : Env) (pkt : Option Pdu) (recurse : DM Unit) (hr : ⦃fun s => ⌜PF q v s⌝⦄ recurse ⦃Keeps (PF q v)⦄) (hmd : MdOk q pkt) :
    ⦃fun s => ⌜PF q v s⌝⦄ fsmFromWaitingForMetadata env pkt recurse ⦃Keeps (PF q v)⦄ := by
  have h1 := fsmFromCheckLimit_spec q v hq env pkt recurse hr
  have h2 := handleWaitingForMissingMetadata_spec q v hq env pkt hmd
  have h3 := deferredLostSegmentHandling_spec q v hq
  mvcgen [fsmFromWaitingForMetadata, h1, h2, h3]
  pframe

theorem fsmFromReceiving_spec (q : String) (v : Option Node) (hq : q ≠ ".") (env : Env) (pkt : Option Pdu) (recurse : DM Unit) (hr : ⦃fun s => ⌜PF q v s⌝⦄ recurse ⦃Keeps (PF q v)⦄) (hmd : MdOk q pkt) :
    ⦃fun s => ⌜PF q v s⌝⦄ fsmFromReceiving env pkt recurse ⦃Keeps (PF q v)⦄ := by
  have h1 := fsmFromWaitingForMetadata_spec q v hq env pkt recurse hr hmd
  have h2 := handleFdOrEofPdu_spec q v hq
  mvcgen [fsmFromReceiving, h1, h2]
  pframe

theorem nonIdleFsm_spec (q : String) (v : Option Node) (hq : q ≠ ".") (env : Env) (pkt : Option Pdu) (recurse : DM Unit) (hr : ⦃fun s => ⌜PF q v s⌝⦄ recurse ⦃Keeps (PF q v)⦄) (hmd : MdOk q pkt) :
    ⦃fun s => ⌜PF q v s⌝⦄ nonIdleFsm env pkt recurse ⦃Keeps (PF q v)⦄ := by
  have h1 := fsmFromReceiving_spec q v hq env pkt recurse hr hmd
  have h2 := fsmAdvancementAfterPacketsWereSent_spec q v hq
  mvcgen [nonIdleFsm, h1, h2]
  pframe

theorem idleFsm_spec (q : String) (v : Option Node) (hq : q ≠ ".") (env : Env) (pkt : Option Pdu) (hmd : MdOk q pkt) :
    ⦃fun s => ⌜PF q v s⌝⦄ idleFsm env pkt ⦃Keeps (PF q v)⦄ := by
  have h1 := handleFdWithoutPreviousMetadata_spec q v hq
  have h3 := handleEofWithoutPreviousMetadata_spec q v hq
  cases pkt with
  | none =>
    mvcgen [idleFsm, startTransaction, commonFirstPacketNotMetadataPduHandler, commonFirstPacketHandler, modP, h1, h3]
    pframe
  | some pdu =>
    cases pdu with
    | md h cl c sz sn dn m =>
      have h2 := handleMetadataPacket_spec q v hq h cl c sz sn dn m (hmd h cl c sz sn dn m rfl)
      mvcgen [idleFsm, startTransaction, commonFirstPacketNotMetadataPduHandler, commonFirstPacketHandler, modP,
        h1, h2, h3]
      pframe
    | _ =>
      mvcgen [idleFsm, startTransaction, commonFirstPacketNotMetadataPduHandler, commonFirstPacketHandler, modP,
        h1, h3]
      pframe

theorem checkInsertedPacket_spec (q : String) (v : Option Node) (hq : q ≠ ".") (env : Env) (pdu : Pdu) :
    ⦃fun s => ⌜PF q v s⌝⦄ checkInsertedPacket env pdu ⦃Keeps (PF q v)⦄ := by
  mvcgen [checkInsertedPacket, handleFirstPacketNotMetadataPdu, transmissionMode]
  pframe

theorem stateMachineWith_spec (q : String) (v : Option Node) (hq : q ≠ ".") (env : Env) (pkt : Option Pdu) (recurse : DM Unit) (hr : ⦃fun s => ⌜PF q v s⌝⦄ recurse ⦃Keeps (PF q v)⦄) (hmd : MdOk q pkt) :
    ⦃fun s => ⌜PF q v s⌝⦄ stateMachineWith env pkt recurse ⦃Keeps (PF q v)⦄ := by
  have h1 := nonIdleFsm_spec q v hq env pkt recurse hr hmd
  have h2 := checkInsertedPacket_spec q v hq env
  have h3 := idleFsm_spec q v hq env pkt hmd
  mvcgen [stateMachineWith, h1, h2, h3]
  pframe

theorem stateMachine_spec (q : String) (v : Option Node) (hq : q ≠ ".") (env : Env) (pkt : Option Pdu) (hmd : MdOk q pkt) :
    ⦃fun s => ⌜PF q v s⌝⦄ stateMachine env pkt ⦃Keeps (PF q v)⦄ := by
  unfold stateMachine
  have mdNone : MdOk q none := by intro h cl c sz sn dn m hh; cases hh
  have h0 : ⦃fun s => ⌜PF q v s⌝⦄ (throw .recursionError : DM Unit) ⦃Keeps (PF q v)⦄ := by
    mvcgen
  exact stateMachineWith_spec q v hq env pkt _
    (stateMachineWith_spec q v hq env none _ (stateMachineWith_spec q v hq env none _ h0 mdNone) mdNone) hmd

theorem getNextPacket_spec (q : String) (v : Option Node) (hq : q ≠ ".") : ⦃fun s => ⌜PF q v s⌝⦄ getNextPacket ⦃Keeps (PF q v)⦄ := by
  mvcgen [getNextPacket]
  pframe

theorem cancelRequest_spec (q : String) (v : Option Node) (hq : q ≠ ".") (env : Env) (tid : Tid) :
    ⦃fun s => ⌜PF q v s⌝⦄ cancelRequest env tid ⦃Keeps (PF q v)⦄ := by
  mvcgen [cancelRequest, triggerNoticeOfCompletionCanceled, modP]
  pframe

theorem reset_spec (q : String) (v : Option Node) (hq : q ≠ ".") : ⦃fun s => ⌜PF q v s⌝⦄ reset ⦃Keeps (PF q v)⦄ := by
  mvcgen [reset, resetInternal]
  pframe

end Cfdp.Dest.PathFrame
