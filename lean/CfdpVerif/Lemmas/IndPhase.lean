import CfdpVerif.Model.Dest
import CfdpVerif.Lemmas.Monad
/-!
Receiver side of C15's causal order: within a transaction nothing but Transaction-Finished follows a
Transaction-Finished indication.  Definitions shared by the generated preservation lemmas
(`Lemmas/InvDestPhaseN.lean`, `Lemmas/InvDestPhaseC.lean`).
-/
namespace Cfdp.Dest.Phase
open Cfdp Cfdp.Dest

def isFin : Ind → Bool
  | .finished .. => true
  | _ => false

/-- one indication against "a Transaction-Finished was seen": `none` = out of order -/
def phaseStep (seen : Bool) (i : Ind) : Option Bool :=
  if isFin i then some true else if seen then none else some false

/-- scan of a list of indications: were they `non-Finished* Finished*`, and was there a Finished -/
def scan (l : List Ind) : Option Bool :=
  l.foldl (fun acc i => acc.bind fun b => phaseStep b i) (some false)

theorem scan_snoc (l : List Ind) (i : Ind) : scan (l ++ [i]) = (scan l).bind fun b => phaseStep b i := by
  simp [scan, List.foldl_append]

@[simp] theorem scan_nil : scan [] = some false := rfl

/-- `l` extends `L0` -/
def Ext (L0 l : List Ind) : Prop := L0.length ≤ l.length ∧ l.take L0.length = L0

theorem Ext.refl (L0 : List Ind) : Ext L0 L0 := ⟨Nat.le_refl _, List.take_length⟩

theorem Ext.snoc {L0 l : List Ind} (h : Ext L0 l) (i : Ind) : Ext L0 (l ++ [i]) := by
  obtain ⟨h1, h2⟩ := h
  refine ⟨by simp; omega, ?_⟩
  rw [List.take_append_of_le_length h1, h2]

theorem drop_snoc {L0 l : List Ind} (h : Ext L0 l) (i : Ind) :
    (l ++ [i]).drop L0.length = l.drop L0.length ++ [i] := by
  rw [List.drop_append_of_le_length h.1]

/-- the steps from the completion on (and `IDLE`, where a finished transaction ends) -/
def CS (st : DStep) : Prop :=
  st = .IDLE ∨ st = .TRANSFER_COMPLETION ∨ st = .SENDING_FINISHED_PDU ∨ st = .WAITING_FOR_FINISHED_ACK

instance (st : DStep) : Decidable (CS st) := by unfold CS; infer_instance

/-- the indications issued since the log was `L0` -/
def since (L0 : List Ind) (s : DestSt) : List Ind := s.inds.drop L0.length

/-- no Transaction-Finished indication since `L0` -/
def NoFin (_ : Env) (L0 : List Ind) (s : DestSt) : Prop := Ext L0 s.inds ∧ scan (since L0 s) = some false

/-- the completion phase: nothing but Transaction-Finished indications since `L0`, and the step is one of `CS` -/
def Closed (_ : Env) (L0 : List Ind) (s : DestSt) : Prop :=
  Ext L0 s.inds ∧ (∀ i ∈ since L0 s, isFin i = true) ∧ CS s.step

/-- what every call guarantees: the indications since `L0` are `non-Finished* Finished*`, and if there is a
Finished among them the handler is in the completion phase (or idle) -/
def Ordered (L0 : List Ind) (s : DestSt) : Prop :=
  Ext L0 s.inds ∧ scan (since L0 s) ≠ none ∧ (scan (since L0 s) = some true → CS s.step)

theorem NoFin.ordered {env : Env} {L0 : List Ind} {s : DestSt} (h : NoFin env L0 s) : Ordered L0 s :=
  ⟨h.1, by rw [h.2]; simp, by rw [h.2]; simp⟩

theorem foldl_allFin (t : List Ind) (h : ∀ i ∈ t, isFin i = true) (b : Bool) :
    t.foldl (fun acc i => acc.bind fun b => phaseStep b i) (some b) = some (b || !t.isEmpty) := by
  induction t generalizing b with
  | nil => simp
  | cons x t ih =>
    have hx : isFin x = true := h x (by simp)
    have h1 : ((some b).bind fun b => phaseStep b x) = some true := by simp [phaseStep, hx]
    rw [List.foldl_cons, h1, ih (fun i hi => h i (by simp [hi])) true]
    simp

theorem scan_append_allFin (a t : List Ind) (b : Bool) (ha : scan a = some b) (h : ∀ i ∈ t, isFin i = true) :
    scan (a ++ t) = some (b || !t.isEmpty) := by
  unfold scan at ha ⊢
  rw [List.foldl_append, ha]
  exact foldl_allFin t h b

theorem Closed.ordered {env : Env} {L0 : List Ind} {s : DestSt} (h : Closed env L0 s) : Ordered L0 s := by
  obtain ⟨h1, h2, h3⟩ := h
  have := scan_append_allFin [] (since L0 s) false rfl h2
  simp only [List.nil_append] at this
  exact ⟨h1, by rw [this]; simp, fun _ => h3⟩

theorem Ext.append {L0 l : List Ind} (h : Ext L0 l) (t : List Ind) : Ext L0 (l ++ t) := by
  obtain ⟨h1, h2⟩ := h
  refine ⟨by simp; omega, ?_⟩
  rw [List.take_append_of_le_length h1, h2]

theorem Ext.eq_append {L0 l : List Ind} (h : Ext L0 l) : l = L0 ++ l.drop L0.length := by
  have := List.take_append_drop L0.length l
  rw [h.2] at this
  exact this.symm

/-- a call that ran without a Finished indication up to a state `s` in the completion phase, and from there
as the completion phase does: in order -/
theorem ordered_of_noFin_closed {env : Env} {L0 : List Ind} {s s' : DestSt} (hn : NoFin env L0 s)
    (hc : Closed env s.inds s') : Ordered L0 s' := by
  obtain ⟨e1, n2⟩ := hn
  obtain ⟨e2, c2, c3⟩ := hc
  have hs' : s'.inds = s.inds ++ since s.inds s' := e2.eq_append
  have hsince : since L0 s' = since L0 s ++ since s.inds s' := by
    show s'.inds.drop L0.length = _
    rw [hs', List.drop_append_of_le_length e1.1]
    rfl
  have hsc := scan_append_allFin (since L0 s) (since s.inds s') false n2 c2
  refine ⟨?_, ?_, fun _ => c3⟩
  · rw [hs']; exact e1.append _
  · rw [hsince, hsc]; simp

theorem emitInd_n (env : Env) (L0 : List Ind) (i : Ind) (h : isFin i = false) :
    Preserves (NoFin env L0) (emitInd i) := by
  unfold emitInd
  refine Preserves.modify (fun s hs => ?_)
  obtain ⟨h1, h2⟩ := hs
  refine ⟨h1.snoc i, ?_⟩
  simp only [since] at h2 ⊢
  rw [drop_snoc h1, scan_snoc, h2]
  simp [phaseStep, h]

theorem emitInd_c (env : Env) (L0 : List Ind) (i : Ind) (h : isFin i = true) :
    Preserves (Closed env L0) (emitInd i) := by
  unfold emitInd
  refine Preserves.modify (fun s hs => ?_)
  obtain ⟨h1, h2, h3⟩ := hs
  refine ⟨h1.snoc i, ?_, h3⟩
  simp only [since] at h2 ⊢
  rw [drop_snoc h1]
  intro j hj
  simp only [List.mem_append, List.mem_singleton] at hj
  rcases hj with hj | hj
  · exact h2 j hj
  · subst hj; exact h

theorem emitInd_md_n (env : Env) (L0 : List Ind) (t : Option Tid) (e : EntityId) (sz : Option Nat)
    (a b : Option String) (m : Option (List Msg)) :
    Preserves (NoFin env L0) (emitInd (.mdRecv t e sz a b m)) := emitInd_n env L0 _ rfl
theorem emitInd_seg_n (env : Env) (L0 : List Ind) (t : Option Tid) (o l : Nat) :
    Preserves (NoFin env L0) (emitInd (.segRecv t o l)) := emitInd_n env L0 _ rfl
theorem emitInd_eofRecv_n (env : Env) (L0 : List Ind) (t : Tid) :
    Preserves (NoFin env L0) (emitInd (.eofRecv t)) := emitInd_n env L0 _ rfl
theorem emitInd_fin_c (env : Env) (L0 : List Ind) (t : Option Tid) (p : FinishedParams) :
    Preserves (Closed env L0) (emitInd (.finished t p)) := emitInd_c env L0 _ rfl

end Cfdp.Dest.Phase
