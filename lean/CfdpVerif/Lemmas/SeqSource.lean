import CfdpVerif.Lemmas.InvSourceSeq
import CfdpVerif.Lemmas.StdDo
/-!
C19, source handler: what one `state_machine` call can do to the sequence number provider and to the
list of sequence numbers issued so far (relational specification, by `mvcgen` over the model).
-/
namespace Cfdp.Source.SeqRel
open Cfdp Cfdp.Source Cfdp.Source.Seq
open Std.Do
set_option mvcgen.warning false
set_option linter.unusedSimpArgs false
set_option linter.unusedVariables false

/-- nothing was drawn and nothing issued -/
def Same (pr0 : SeqProv) (l0 : List Nat) (p : SeqProv) (l : List Nat) : Prop := p = pr0 ∧ l = l0

/-- what one call can do to the provider and the issued numbers: nothing; draw the provider's next
value without starting a transaction (the start raised after the draw); or draw it and issue exactly
it -/
def Drawn (pr0 : SeqProv) (l0 : List Nat) (p : SeqProv) (l : List Nat) : Prop :=
  p.bits = pr0.bits ∧
  ((l = l0 ∧ (p.next = pr0.next ∨ p.next = (pr0.next + 1) % provWrap pr0.bits)) ∨
   (l = l0 ++ [pr0.next] ∧ p.next = (pr0.next + 1) % provWrap pr0.bits))

theorem Same.drawn {pr0 l0 p l} (h : Same pr0 l0 p l) : Drawn pr0 l0 p l := by
  obtain ⟨rfl, rfl⟩ := h
  exact ⟨rfl, .inl ⟨rfl, .inl rfl⟩⟩

abbrev Post {α : Type} (Q : SrcSt → Prop) : PostCond α (.except Err (.arg SrcSt .pure)) :=
  post⟨fun _ s => ⌜Q s⌝, fun _ s => ⌜Q s⌝⟩

theorem transactionStart_spec (env : Env) (pr0 : SeqProv) (l0 : List Nat) :
    ⦃fun s => ⌜Dep env (Same pr0 l0) s⌝⦄ transactionStart env ⦃Post (Dep env (Drawn pr0 l0))⦄ := by
  mvcgen [transactionStart, modP, getP, emitInd]
  all_goals (simp +zetaDelta only [Dep, Same, Drawn, txSeqs_append, txSeqs_tx] at *; grind)

theorem fsmNonIdle_spec (env : Env) (pkt : Option Pdu) (pr0 : SeqProv) (l0 : List Nat) :
    ⦃fun s => ⌜Dep env (Same pr0 l0) s⌝⦄ fsmNonIdle env pkt ⦃Post (Dep env (Drawn pr0 l0))⦄ := by
  have h1 := triple_of_preserves (fsmAdvancement_d env (Same pr0 l0))
  have h2 := transactionStart_spec env pr0 l0
  have h3 := triple_of_preserves (prepareMetadataPdu_d env (Drawn pr0 l0))
  have h4 := triple_of_preserves (fsmFromSendingFileData_d env (Drawn pr0 l0) pkt)
  mvcgen [fsmNonIdle, h1, h2, h3, h4]
  all_goals (simp +zetaDelta only [Dep] at *; first | assumption | exact Same.drawn ‹_› | grind [Same.drawn])

theorem stateMachine_spec (env : Env) (pkt : Option Pdu) (pr0 : SeqProv) (l0 : List Nat) :
    ⦃fun s => ⌜Dep env (Same pr0 l0) s⌝⦄ stateMachine env pkt ⦃Post (Dep env (Drawn pr0 l0))⦄ := by
  have h1 := fsmNonIdle_spec env pkt pr0 l0
  have h2 : ∀ pdu, ⦃fun s => ⌜Dep env (Same pr0 l0) s⌝⦄ checkInsertedPacket env pdu ⦃Post (Dep env (Same pr0 l0))⦄ :=
    fun pdu => triple_of_preserves (checkInserted_d env (Same pr0 l0) pdu)
  mvcgen [stateMachine, h1, h2]
  all_goals (simp +zetaDelta only [Dep] at *; first | assumption | exact Same.drawn ‹_› | grind [Same.drawn])

end Cfdp.Source.SeqRel
