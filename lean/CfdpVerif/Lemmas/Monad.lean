/-!
Proof infrastructure for the `EStateM` models: the monad operations unfold to functions
`σ → Result ε σ α`; `msimp` is the simp set that runs a model method on a symbolic state.
-/
namespace Cfdp

/-- an `if` between two state-passing programs, applied to a state -/
theorem ite_run {ε σ α : Type} (c : Prop) [Decidable c] (x y : EStateM ε σ α) (s : σ) :
    (if c then x else y) s = if c then x s else y s := by
  split <;> rfl

theorem dite_run {ε σ α : Type} (c : Prop) [Decidable c] (x : c → EStateM ε σ α)
    (y : ¬c → EStateM ε σ α) (s : σ) :
    (if h : c then x h else y h) s = if h : c then x h s else y h s := by
  split <;> rfl

end Cfdp

/-- `msimp [lemmas]`: simp with the `EStateM` plumbing unfolded -/
syntax "msimp" (" [" Lean.Parser.Tactic.simpLemma,* "]")? (" at " ident)? : tactic

macro_rules
  | `(tactic| msimp) =>
    `(tactic| simp [bind, EStateM.bind, get, getThe, MonadStateOf.get, EStateM.get, pure, EStateM.pure,
        set, MonadStateOf.set, EStateM.set, modify, modifyGet, MonadStateOf.modifyGet,
        EStateM.modifyGet, throw, throwThe, MonadExceptOf.throw, EStateM.throw, Cfdp.ite_run,
        Cfdp.dite_run])
  | `(tactic| msimp [$ls,*]) =>
    `(tactic| simp [bind, EStateM.bind, get, getThe, MonadStateOf.get, EStateM.get, pure, EStateM.pure,
        set, MonadStateOf.set, EStateM.set, modify, modifyGet, MonadStateOf.modifyGet,
        EStateM.modifyGet, throw, throwThe, MonadExceptOf.throw, EStateM.throw, Cfdp.ite_run,
        Cfdp.dite_run, $ls,*])
  | `(tactic| msimp at $h:ident) =>
    `(tactic| simp [bind, EStateM.bind, get, getThe, MonadStateOf.get, EStateM.get, pure, EStateM.pure,
        set, MonadStateOf.set, EStateM.set, modify, modifyGet, MonadStateOf.modifyGet,
        EStateM.modifyGet, throw, throwThe, MonadExceptOf.throw, EStateM.throw, Cfdp.ite_run,
        Cfdp.dite_run] at $h:ident)
  | `(tactic| msimp [$ls,*] at $h:ident) =>
    `(tactic| simp [bind, EStateM.bind, get, getThe, MonadStateOf.get, EStateM.get, pure, EStateM.pure,
        set, MonadStateOf.set, EStateM.set, modify, modifyGet, MonadStateOf.modifyGet,
        EStateM.modifyGet, throw, throwThe, MonadExceptOf.throw, EStateM.throw, Cfdp.ite_run,
        Cfdp.dite_run, $ls,*] at $h:ident)

namespace Cfdp

/-- result state of a model call, whether it returned or raised -/
def stateOf {ε σ α : Type} : EStateM.Result ε σ α → σ
  | .ok _ s => s
  | .error _ s => s

@[simp] theorem stateOf_ok {ε σ α : Type} (a : α) (s : σ) :
    stateOf (EStateM.Result.ok a s : EStateM.Result ε σ α) = s := rfl
@[simp] theorem stateOf_error {ε σ α : Type} (e : ε) (s : σ) :
    stateOf (EStateM.Result.error e s : EStateM.Result ε σ α) = s := rfl

/-- a program that never changes the state (whether it returns or raises) -/
def ReadOnly {ε σ α : Type} (x : EStateM ε σ α) : Prop := ∀ s, stateOf (x s) = s

theorem ReadOnly.pure {ε σ α : Type} (a : α) : ReadOnly (pure a : EStateM ε σ α) := fun _ => rfl
theorem ReadOnly.throw {ε σ α : Type} (e : ε) : ReadOnly (throw e : EStateM ε σ α) := fun _ => rfl
theorem ReadOnly.get {ε σ : Type} : ReadOnly (get : EStateM ε σ σ) := fun _ => rfl
theorem ReadOnly.bind {ε σ α β : Type} {x : EStateM ε σ α} {f : α → EStateM ε σ β}
    (hx : ReadOnly x) (hf : ∀ a, ReadOnly (f a)) : ReadOnly (x >>= f) := by
  intro s
  have h1 := hx s
  show stateOf (EStateM.bind x f s) = s
  unfold EStateM.bind
  cases h : x s with
  | ok a s' =>
    rw [h] at h1; simp at h1; subst h1
    exact hf a s'
  | error e s' =>
    rw [h] at h1; simp at h1; subst h1
    rfl
theorem ReadOnly.ite {ε σ α : Type} {c : Prop} [Decidable c] {x y : EStateM ε σ α}
    (hx : ReadOnly x) (hy : ReadOnly y) : ReadOnly (if c then x else y) := by
  split <;> assumption

/-- a read-only program that fails leaves the state it was started in -/
theorem ReadOnly.error_state {ε σ α : Type} {x : EStateM ε σ α} (h : ReadOnly x) {s s' : σ} {e : ε}
    (hx : x s = .error e s') : s' = s := by
  have := h s; rw [hx] at this; exact this

theorem ReadOnly.ok_state {ε σ α : Type} {x : EStateM ε σ α} (h : ReadOnly x) {s s' : σ} {a : α}
    (hx : x s = .ok a s') : s' = s := by
  have := h s; rw [hx] at this; exact this

end Cfdp

namespace Cfdp

/-- `x` preserves the state predicate `P`, whether it returns or raises -/
def Preserves {ε σ α : Type} (P : σ → Prop) (x : EStateM ε σ α) : Prop :=
  ∀ s, P s → P (stateOf (x s))

theorem Preserves.pure {ε σ α : Type} {P : σ → Prop} (a : α) : Preserves P (pure a : EStateM ε σ α) :=
  fun _ h => h
theorem Preserves.throw {ε σ α : Type} {P : σ → Prop} (e : ε) :
    Preserves P (throw e : EStateM ε σ α) := fun _ h => h
theorem Preserves.get {ε σ : Type} {P : σ → Prop} : Preserves P (get : EStateM ε σ σ) := fun _ h => h
theorem Preserves.of_readOnly {ε σ α : Type} {P : σ → Prop} {x : EStateM ε σ α} (h : ReadOnly x) :
    Preserves P x := fun s hp => by rw [h s]; exact hp
theorem Preserves.bind {ε σ α β : Type} {P : σ → Prop} {x : EStateM ε σ α} {f : α → EStateM ε σ β}
    (hx : Preserves P x) (hf : ∀ a, Preserves P (f a)) : Preserves P (x >>= f) := by
  intro s hp
  have h1 := hx s hp
  show P (stateOf (EStateM.bind x f s))
  unfold EStateM.bind
  cases h : x s with
  | ok a s' => rw [h] at h1; exact hf a s' h1
  | error e s' => rw [h] at h1; exact h1
theorem Preserves.ite {ε σ α : Type} {P : σ → Prop} {c : Prop} [Decidable c] {x y : EStateM ε σ α}
    (hx : c → Preserves P x) (hy : ¬c → Preserves P y) : Preserves P (if c then x else y) := by
  split
  · exact hx ‹_›
  · exact hy ‹_›
theorem Preserves.modify {ε σ : Type} {P : σ → Prop} {f : σ → σ} (h : ∀ s, P s → P (f s)) :
    Preserves P (modify f : EStateM ε σ Unit) := fun s hp => h s hp
theorem Preserves.set_of_get {ε σ : Type} {P : σ → Prop} (s' : σ) (h : P s') :
    Preserves P (set s' : EStateM ε σ Unit) := fun _ _ => h
end Cfdp

/-- discharge `ReadOnly prog` for programs made of `get`, `pure`, `throw`, `if`, `match`, `>>=` -/
macro "read_only" : tactic =>
  `(tactic| ((try dsimp only); repeat' (first
      | exact Cfdp.ReadOnly.pure _ | exact Cfdp.ReadOnly.throw _ | exact Cfdp.ReadOnly.get
      | refine Cfdp.ReadOnly.bind ?_ (fun _ => ?_) | apply Cfdp.ReadOnly.ite | split)))

/-- reduce `Preserves P prog` to the obligations at the state-changing primitives -/
macro "preserves_step" : tactic =>
  `(tactic| with_reducible first
      | exact Cfdp.Preserves.pure _ | exact Cfdp.Preserves.throw _ | exact Cfdp.Preserves.get
      | refine Cfdp.Preserves.bind ?_ (fun _ => ?_)
      | refine Cfdp.Preserves.ite (fun _ => ?_) (fun _ => ?_)
      | split)

/-- `preserves_with [callee lemmas]`: decompose `Preserves P prog` along bind / if / match, closing
calls by the given lemmas; obligations at `modify` are left as goals `P s → P (f s)` -/
syntax "preserves_with" " [" term,* "]" : tactic
macro_rules
  | `(tactic| preserves_with [$ls,*]) => do
    let base ← `(tactic| first | preserves_step | refine Cfdp.Preserves.modify (fun _ _ => ?_))
    let step ← ls.getElems.foldrM (fun l acc => `(tactic| first | (with_reducible apply $l; done) | ($acc:tactic))) base
    `(tactic| ((try dsimp only); repeat' ($step:tactic)))

namespace Cfdp

/-- Hoare triple on the result state (returned or raised): from `P` to `Q` -/
def Triple {ε σ α : Type} (P : σ → Prop) (x : EStateM ε σ α) (Q : σ → Prop) : Prop :=
  ∀ s, P s → Q (stateOf (x s))

theorem Triple.of_preserves {ε σ α : Type} {P : σ → Prop} {x : EStateM ε σ α} (h : Preserves P x) :
    Triple P x P := h

theorem Triple.bind {ε σ α β : Type} {P R Q : σ → Prop} {x : EStateM ε σ α} {f : α → EStateM ε σ β}
    (hx : Triple P x R) (hRQ : ∀ s, R s → Q s) (hf : ∀ a, Triple R (f a) Q) : Triple P (x >>= f) Q := by
  intro s hp
  have h1 := hx s hp
  show Q (stateOf (EStateM.bind x f s))
  unfold EStateM.bind
  cases h : x s with
  | ok a s' => rw [h] at h1; exact hf a s' h1
  | error e s' => rw [h] at h1; exact hRQ _ h1

theorem Triple.weaken {ε σ α : Type} {P P' Q Q' : σ → Prop} {x : EStateM ε σ α}
    (h : Triple P x Q) (hp : ∀ s, P' s → P s) (hq : ∀ s, Q s → Q' s) : Triple P' x Q' :=
  fun s hs => hq _ (h s (hp s hs))

end Cfdp
