/-!
Proof infrastructure for the `EStateM` models: the monad operations unfold to functions
`σ → Result ε σ α`; `msimp` is the simp set that runs a model method on a symbolic state.
-/
namespace Cfdp

/-- an `if` between two state-passing programs, applied to a state -/
theorem ite_run {ε σ α : Type} (c : Prop) [Decidable c] (x y : EStateM ε σ α) (s : σ) :
    (if c then x else y) s = if c then x s else y s := by
  split <;> rfl

theorem dite_run {ε σ α : Type} (c : Prop) [Decidable c] (x : c → EStateM ε σ α)
    (y : ¬c → EStateM ε σ α) (s : σ) :
    (if h : c then x h else y h) s = if h : c then x h s else y h s := by
  split <;> rfl

end Cfdp

/-- `msimp [lemmas]`: simp with the `EStateM` plumbing unfolded -/
syntax "msimp" (" [" Lean.Parser.Tactic.simpLemma,* "]")? (" at " ident)? : tactic

macro_rules
  | `(tactic| msimp) =>
    `(tactic| simp [bind, EStateM.bind, get, getThe, MonadStateOf.get, EStateM.get, pure, EStateM.pure,
        set, MonadStateOf.set, EStateM.set, modify, modifyGet, MonadStateOf.modifyGet,
        EStateM.modifyGet, throw, throwThe, MonadExceptOf.throw, EStateM.throw, Cfdp.ite_run,
        Cfdp.dite_run])
  | `(tactic| msimp [$ls,*]) =>
    `(tactic| simp [bind, EStateM.bind, get, getThe, MonadStateOf.get, EStateM.get, pure, EStateM.pure,
        set, MonadStateOf.set, EStateM.set, modify, modifyGet, MonadStateOf.modifyGet,
        EStateM.modifyGet, throw, throwThe, MonadExceptOf.throw, EStateM.throw, Cfdp.ite_run,
        Cfdp.dite_run, $ls,*])
  | `(tactic| msimp at $h:ident) =>
    `(tactic| simp [bind, EStateM.bind, get, getThe, MonadStateOf.get, EStateM.get, pure, EStateM.pure,
        set, MonadStateOf.set, EStateM.set, modify, modifyGet, MonadStateOf.modifyGet,
        EStateM.modifyGet, throw, throwThe, MonadExceptOf.throw, EStateM.throw, Cfdp.ite_run,
        Cfdp.dite_run] at $h:ident)
  | `(tactic| msimp [$ls,*] at $h:ident) =>
    `(tactic| simp [bind, EStateM.bind, get, getThe, MonadStateOf.get, EStateM.get, pure, EStateM.pure,
        set, MonadStateOf.set, EStateM.set, modify, modifyGet, MonadStateOf.modifyGet,
        EStateM.modifyGet, throw, throwThe, MonadExceptOf.throw, EStateM.throw, Cfdp.ite_run,
        Cfdp.dite_run, $ls,*] at $h:ident)
