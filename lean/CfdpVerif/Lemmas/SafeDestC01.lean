import CfdpVerif.Lemmas.SafeDest
/-!
C01, destination handler: **marked complete only while verified, for every history**.

`K s`: whenever the delivery code is Data-complete, the transaction is in one of the completion
steps and the destination file — as it is now — verifies against the checksum of the EOF PDU (or the
transfer is metadata-only / uses the null checksum).  `DK = DInv ∧ K` is preserved by every public
call of the receiver whether it returns or raises, from every state and for every PDU of any type
and content — hence for every schedule of losses, duplications, reorderings, delays, corruptions and
rejected writes.  Same method as `Lemmas/SafeDest.lean`.
-/
open Std.Do

set_option mvcgen.warning false
set_option linter.unusedSimpArgs false
set_option linter.unusedVariables false

namespace Cfdp.Dest.SafeC
open Cfdp Cfdp.Dest Cfdp.Dest.Safe

/-- the steps in which a transaction is being completed (no file data is accepted any more) -/
def InDone (st : DStep) : Prop :=
  st = .TRANSFER_COMPLETION ∨ st = .SENDING_FINISHED_PDU ∨ st = .WAITING_FOR_FINISHED_ACK

/-- the destination file, as it is now, verifies against the EOF checksum -/
def Verified (s : DestSt) : Prop :=
  s.p.metadataOnly = true ∨ s.p.cksType = 15 ∨
  Fs.calcChecksum s.fs (Checksum.CksType.ofNat s.p.cksType) s.p.fileName s.p.progress 4096 = .ok s.p.crc32

def Kw (s : DestSt) : Prop :=
  (s.step = .RECV_FILE_DATA_WITH_CHECK_LIMIT_HANDLING → s.p.conf.mode = .unack) ∧
  (s.p.fin.deliv = dcComplete → Verified s)

def K (s : DestSt) : Prop := Kw s ∧ (s.p.fin.deliv = dcComplete → InDone s.step)

def CoreK (s : DestSt) : Prop := Core s ∧ K s
def DK (s : DestSt) : Prop := DInv s ∧ K s

/-- what a fault declaration that neither cancels nor abandons leaves unchanged -/
def Same2 (s0 s : DestSt) : Prop :=
  Same s0 s ∧ s.p.fin.deliv = s0.p.fin.deliv ∧ s.fs = s0.fs ∧ s.p.fileName = s0.p.fileName ∧
  s.p.progress = s0.p.progress ∧ s.p.crc32 = s0.p.crc32 ∧ s.p.cksType = s0.p.cksType ∧
  s.p.metadataOnly = s0.p.metadataOnly

syntax "ksafe" : tactic
macro_rules
  | `(tactic| ksafe) => `(tactic| all_goals (
      simp +zetaDelta only [DK, CoreK, K, Kw, Verified, InDone, Same2, DInv, Core, TimerOk, FaultsOk, Same,
        idle_iff_not_busy, Classical.not_not, ne_eq, Option.map_eq_none_iff, fhCancel, fhIgnore, fhAbandon, fhSuspend,
        dcComplete, dcIncomplete,
        Option.isSome_eq_false_iff, Option.isNone_iff_eq_none, Option.isSome_iff_ne_none,
        Option.not_isSome_iff_eq_none] at *; grind (splits := 40) [Err.isInternal]))

theorem declareFault_spec (cond : Nat) (s0 : DestSt) :
    ⦃fun s => ⌜s = s0 ∧ CoreK s ∧ s.state = .busy⌝⦄ declareFault cond
    ⦃post⟨fun fh s => ⌜CoreK s ∧ (TimerOk s0 → TimerOk s) ∧ s.faults = s0.faults ∧
                        s0.faults.lookup cond = some fh ∧ (fh ≠ fhCancel → fh ≠ fhAbandon → Same2 s0 s) ∧
                        (s.p.fin.deliv = dcComplete → s0.p.fin.deliv = dcComplete)⌝,
          fun e s => ⌜CoreK s ∧ (TimerOk s0 → TimerOk s) ∧
                       (e.isInternal = false ∨ s0.faults.lookup cond = none)⌝⟩⦄ := by
  mvcgen [declareFault, noticeOfCancellation, abandonTransaction, resetInternal]
  ksafe

theorem checksumVerify_spec (s0 : DestSt) :
    ⦃fun s => ⌜s = s0 ∧ CoreK s ∧ s.state = .busy⌝⦄ checksumVerify
    ⦃post⟨fun r s => ⌜Core s ∧ Kw s ∧ (TimerOk s0 → TimerOk s) ∧ s.faults = s0.faults ∧
                       ((r = true ∨ s0.faults.lookup ccChecksumFailure = some fhIgnore) → Same s0 s) ∧
                       (r = false → K s ∧ (s.p.fin.deliv = dcComplete → s0.p.fin.deliv = dcComplete))⌝,
          fun e s => ⌜CoreK s ∧ (TimerOk s0 → TimerOk s) ∧ e.isInternal = false⌝⟩⦄ := by
  mvcgen [checksumVerify, markComplete, declareFault, noticeOfCancellation, abandonTransaction, resetInternal,
    getP, modP]
  ksafe

theorem initVfsHandling_spec (b : String) :
    ⦃fun s => ⌜DK s ∧ s.state = .busy ∧ ¬ InDone s.step⌝⦄ initVfsHandling b ⦃Good DK⦄ := by
  mvcgen [initVfsHandling, declareFault, noticeOfCancellation, abandonTransaction, resetInternal, getP, modP]
  ksafe

theorem handleMetadataPacket_spec (h : Hdr) (closure : Bool) (cks size : Nat) (sname dname : Option String)
    (msgs : Option (List Msg)) :
    ⦃fun s => ⌜DK s ∧ s.state = .busy ∧ ¬ InDone s.step⌝⦄ handleMetadataPacket h closure cks size sname dname msgs
    ⦃Good DK⦄ := by
  mvcgen [handleMetadataPacket, getP, modP, emitInd, initVfsHandling_spec]
  ksafe

theorem handleFdWithoutPreviousMetadata_spec (first : Bool) (off : Nat) (data : List UInt8) :
    ⦃fun s => ⌜DK s ∧ s.state = .busy ∧ ¬ InDone s.step⌝⦄ handleFdWithoutPreviousMetadata first off data ⦃Good DK⦄ := by
  mvcgen [handleFdWithoutPreviousMetadata, getP, modP, addPacket]
  ksafe

theorem handleEofWithoutPreviousMetadata_spec (env : Env) (cond : Nat) (cks : List UInt8) (size : Nat) :
    ⦃fun s => ⌜DK s ∧ s.state = .busy ∧ ¬ InDone s.step⌝⦄ handleEofWithoutPreviousMetadata env cond cks size ⦃Good DK⦄ := by
  mvcgen [handleEofWithoutPreviousMetadata, getP, modP, addPacket, emitInd, triggerNoticeOfCompletionCanceled,
    prepareEofAckPacket]
  ksafe

theorem lostSegmentHandling_spec (off len : Nat) :
    ⦃fun s => ⌜DK s ∧ s.state = .busy ∧ ¬ InDone s.step⌝⦄ lostSegmentHandling off len
    ⦃Good (fun s => DK s ∧ s.state = .busy ∧ ¬ InDone s.step)⦄ := by
  mvcgen [lostSegmentHandling, getP, modP, addPacket]
  ksafe

theorem fdAfterWrite_spec (off : Nat) (data : List UInt8) (r : Option FsErr)
    (hr : ∀ e, r = some e → e = .fileNotFound ∨ e = .permission ∨ (Err.ofFs e).isInternal = false) :
    ⦃fun s => ⌜DK s ∧ s.state = .busy ∧ ¬ InDone s.step⌝⦄ fdAfterWrite off data r ⦃Good DK⦄ := by
  mvcgen [fdAfterWrite, sizeErrOf, getP, modP, declareFault_spec]
  ksafe

theorem vfsWriteData_spec (name : String) (data : List UInt8) (off : Nat) :
    ⦃fun s => ⌜DK s ∧ s.state = .busy ∧ ¬ InDone s.step⌝⦄ vfsWriteData name data off
    ⦃post⟨fun r s => ⌜DK s ∧ s.state = .busy ∧ ¬ InDone s.step ∧ ∀ e, r = some e →
              e = .fileNotFound ∨ e = .permission ∨ (Err.ofFs e).isInternal = false⌝,
          fun e s => ⌜DK s ∧ e.isInternal = false⌝⟩⦄ := by
  mvcgen [vfsWriteData]
  ksafe

theorem handleFdPdu_spec (env : Env) (off : Nat) (data : List UInt8) :
    ⦃fun s => ⌜DK s ∧ s.state = .busy ∧ ¬ InDone s.step⌝⦄ handleFdPdu env off data ⦃Good DK⦄ := by
  mvcgen [handleFdPdu, fdIndication, fdLostSegments, fdWrite, transmissionMode, getP, emitInd,
    lostSegmentHandling_spec, vfsWriteData_spec, fdAfterWrite_spec]
  ksafe

theorem noErrorEofVerify_spec (env : Env) (s0 : DestSt) :
    ⦃fun s => ⌜s = s0 ∧ DK s ∧ s.state = .busy ∧ s.p.fileSizeEof ≠ none ∧ ¬ InDone s.step⌝⦄ noErrorEofVerify env
    ⦃post⟨fun r s => ⌜DInv s ∧ Kw s ∧ (r = false → K s) ∧
              (r = true → s.state = .busy ∧ s.p.fileSizeEof ≠ none ∧ ¬ InDone s.step ∧
                 (s.p.conf.mode = .ack → s.p.fin.deliv ≠ dcComplete))⌝,
          fun e s => ⌜DK s ∧ e.isInternal = false⌝⟩⦄ := by
  mvcgen [noErrorEofVerify, transmissionMode, startCheckLimitHandling, assertThat, getP, modP,
    checksumVerify_spec]
  ksafe

theorem handleNoErrorEof_spec (env : Env) :
    ⦃fun s => ⌜DK s ∧ s.state = .busy ∧ s.p.fileSizeEof ≠ none ∧ ¬ InDone s.step⌝⦄ handleNoErrorEof env
    ⦃post⟨fun r s => ⌜DInv s ∧ Kw s ∧ (r = false → K s) ∧
              (r = true → s.state = .busy ∧ s.p.fileSizeEof ≠ none ∧ ¬ InDone s.step ∧
                 (s.p.conf.mode = .ack → s.p.fin.deliv ≠ dcComplete))⌝,
          fun e s => ⌜DK s ∧ e.isInternal = false⌝⟩⦄ := by
  mvcgen [handleNoErrorEof, transmissionMode, getP, modP, declareFault_spec, noErrorEofVerify_spec]
  ksafe

theorem handleEofPdu_spec (env : Env) (cond : Nat) (cks : List UInt8) (size : Nat) :
    ⦃fun s => ⌜DK s ∧ s.state = .busy ∧ ¬ InDone s.step⌝⦄ handleEofPdu env cond cks size ⦃Good DK⦄ := by
  mvcgen [handleEofPdu, fileTransferCompleteTransition, prepareEofAckPacket, addPacket,
    triggerNoticeOfCompletionCanceled, transmissionMode, getP, modP, emitInd, handleNoErrorEof_spec]
  ksafe

theorem handleFdOrEofPdu_spec (env : Env) (pdu : Pdu) :
    ⦃fun s => ⌜DK s ∧ s.state = .busy ∧ ¬ InDone s.step⌝⦄ handleFdOrEofPdu env pdu ⦃Good DK⦄ := by
  mvcgen [handleFdOrEofPdu, handleFdPdu_spec, handleEofPdu_spec]
  ksafe

theorem handleWaitingForMissingMetadata_spec (env : Env) (pkt : Option Pdu) :
    ⦃fun s => ⌜DK s ∧ s.state = .busy ∧ ¬ InDone s.step⌝⦄ handleWaitingForMissingMetadata env pkt ⦃Good DK⦄ := by
  mvcgen [handleWaitingForMissingMetadata, resetNakActivityParameters, getP, modP,
    handleFdWithoutPreviousMetadata_spec, handleMetadataPacket_spec, handleEofWithoutPreviousMetadata_spec]
  ksafe

theorem deferredLostSegmentHandling_spec (env : Env) :
    ⦃fun s => ⌜CoreK s ∧ (TimerOk s ∨
        (s.p.canceled = false ∧ (s.p.trk.length ≠ 0 ∨ s.p.metadataMissing = true)))⌝⦄
    deferredLostSegmentHandling env ⦃Good DK⦄ := by
  mvcgen [deferredLostSegmentHandling, getP, modP, addPackets, checksumVerify_spec, declareFault_spec]
  ksafe

theorem startDeferredLostSegmentHandling_spec (env : Env) :
    ⦃fun s => ⌜DK s ∧ s.state = .busy ∧ s.p.fileSizeEof ≠ none ∧ s.p.canceled = false ∧ ¬ InDone s.step ∧
               (s.p.trk.length ≠ 0 ∨ s.p.metadataMissing = true)⌝⦄
    startDeferredLostSegmentHandling env ⦃Good DK⦄ := by
  mvcgen [startDeferredLostSegmentHandling, getP, modP, deferredLostSegmentHandling_spec]
  ksafe

theorem fsmAdvancementAfterPacketsWereSent_spec (env : Env) :
    ⦃fun s => ⌜DK s⌝⦄ fsmAdvancementAfterPacketsWereSent env ⦃Good DK⦄ := by
  mvcgen [fsmAdvancementAfterPacketsWereSent, startDeferredLostSegmentHandling_spec, checksumVerify_spec]
  ksafe

theorem checkLimitHandling_spec (env : Env) :
    ⦃fun s => ⌜DK s ∧ s.step = .RECV_FILE_DATA_WITH_CHECK_LIMIT_HANDLING⌝⦄ checkLimitHandling env
    ⦃Good DK⦄ := by
  mvcgen [checkLimitHandling, fileTransferCompleteTransition, prepareEofAckPacket, addPacket, transmissionMode,
    getP, modP, checksumVerify_spec, declareFault_spec]
  ksafe

theorem handleTransferCompletion_spec (env : Env) :
    ⦃fun s => ⌜DK s ∧ s.step = .TRANSFER_COMPLETION⌝⦄ handleTransferCompletion env ⦃Good DK⦄ := by
  mvcgen [handleTransferCompletion, noticeOfCompletion, transmissionMode, resetInternal, getP, emitInd]
  ksafe

theorem prepareFinishedPdu_spec :
    ⦃fun s => ⌜DK s ∧ s.step = .SENDING_FINISHED_PDU⌝⦄ prepareFinishedPdu
    ⦃Good (fun s => DK s ∧ s.step = .SENDING_FINISHED_PDU)⦄ := by
  mvcgen [prepareFinishedPdu, addPacket]
  ksafe

theorem handleFinishedPduSent_spec (env : Env) :
    ⦃fun s => ⌜DK s ∧ s.step = .SENDING_FINISHED_PDU⌝⦄ handleFinishedPduSent env ⦃Good DK⦄ := by
  mvcgen [handleFinishedPduSent, startPositiveAckProcedure, transmissionMode, resetInternal, getP, modP]
  ksafe

theorem handlePositiveAckProcedures_spec (env : Env) (recurse : DM Unit)
    (hr : ⦃fun s => ⌜DK s⌝⦄ recurse ⦃Good DK⦄) :
    ⦃fun s => ⌜DK s ∧ s.step = .WAITING_FOR_FINISHED_ACK⌝⦄ handlePositiveAckProcedures env recurse
    ⦃Good DK⦄ := by
  mvcgen [handlePositiveAckProcedures, declareFault, noticeOfCancellation, abandonTransaction, resetInternal,
    resendFinished, prepareFinishedPdu, getP, modP, addPacket, hr]
  ksafe

theorem handleWaitingForFinishedAck_spec (env : Env) (pkt : Option Pdu) (recurse : DM Unit)
    (hr : ⦃fun s => ⌜DK s⌝⦄ recurse ⦃Good DK⦄) :
    ⦃fun s => ⌜DK s ∧ s.step = .WAITING_FOR_FINISHED_ACK⌝⦄ handleWaitingForFinishedAck env pkt recurse
    ⦃Good DK⦄ := by
  have hp := handlePositiveAckProcedures_spec env recurse hr
  mvcgen [handleWaitingForFinishedAck, prepareEofAckPacket, addPacket, resetInternal, getP, hp]
  ksafe

/-! the `if step == …` chain of `__non_idle_fsm` -/

theorem fsmFromWaitingForFinishedAck_spec (env : Env) (pkt : Option Pdu) (recurse : DM Unit)
    (hr : ⦃fun s => ⌜DK s⌝⦄ recurse ⦃Good DK⦄) :
    ⦃fun s => ⌜DK s⌝⦄ fsmFromWaitingForFinishedAck env pkt recurse ⦃Good DK⦄ := by
  have h1 := handleWaitingForFinishedAck_spec env pkt recurse hr
  mvcgen [fsmFromWaitingForFinishedAck, h1]
  ksafe

theorem fsmFromSendingFinishedPdu_spec (env : Env) (pkt : Option Pdu) (recurse : DM Unit)
    (hr : ⦃fun s => ⌜DK s⌝⦄ recurse ⦃Good DK⦄) :
    ⦃fun s => ⌜DK s⌝⦄ fsmFromSendingFinishedPdu env pkt recurse ⦃Good DK⦄ := by
  have h1 := fsmFromWaitingForFinishedAck_spec env pkt recurse hr
  mvcgen [fsmFromSendingFinishedPdu, h1, prepareFinishedPdu_spec, handleFinishedPduSent_spec]
  ksafe

theorem fsmFromTransferCompletion_spec (env : Env) (pkt : Option Pdu) (recurse : DM Unit)
    (hr : ⦃fun s => ⌜DK s⌝⦄ recurse ⦃Good DK⦄) :
    ⦃fun s => ⌜DK s⌝⦄ fsmFromTransferCompletion env pkt recurse ⦃Good DK⦄ := by
  have h1 := fsmFromSendingFinishedPdu_spec env pkt recurse hr
  mvcgen [fsmFromTransferCompletion, h1, handleTransferCompletion_spec]
  ksafe

theorem fsmFromWaitingForMissingData_spec (env : Env) (pkt : Option Pdu) (recurse : DM Unit)
    (hr : ⦃fun s => ⌜DK s⌝⦄ recurse ⦃Good DK⦄) :
    ⦃fun s => ⌜DK s⌝⦄ fsmFromWaitingForMissingData env pkt recurse ⦃Good DK⦄ := by
  have h1 := fsmFromTransferCompletion_spec env pkt recurse hr
  mvcgen [fsmFromWaitingForMissingData, h1, handleFdPdu_spec, resetNakActivityParameters, prepareEofAckPacket,
    addPacket, getP, modP, deferredLostSegmentHandling_spec]
  ksafe

theorem fsmFromCheckLimit_spec (env : Env) (pkt : Option Pdu) (recurse : DM Unit)
    (hr : ⦃fun s => ⌜DK s⌝⦄ recurse ⦃Good DK⦄) :
    ⦃fun s => ⌜DK s⌝⦄ fsmFromCheckLimit env pkt recurse ⦃Good DK⦄ := by
  have h1 := fsmFromWaitingForMissingData_spec env pkt recurse hr
  mvcgen [fsmFromCheckLimit, h1, checkLimitHandling_spec]
  ksafe

theorem fsmFromWaitingForMetadata_spec (env : Env) (pkt : Option Pdu) (recurse : DM Unit)
    (hr : ⦃fun s => ⌜DK s⌝⦄ recurse ⦃Good DK⦄) :
    ⦃fun s => ⌜DK s⌝⦄ fsmFromWaitingForMetadata env pkt recurse ⦃Good DK⦄ := by
  have h1 := fsmFromCheckLimit_spec env pkt recurse hr
  mvcgen [fsmFromWaitingForMetadata, h1, handleWaitingForMissingMetadata_spec, deferredLostSegmentHandling_spec]
  ksafe

theorem fsmFromReceiving_spec (env : Env) (pkt : Option Pdu) (recurse : DM Unit)
    (hr : ⦃fun s => ⌜DK s⌝⦄ recurse ⦃Good DK⦄) :
    ⦃fun s => ⌜DK s⌝⦄ fsmFromReceiving env pkt recurse ⦃Good DK⦄ := by
  have h1 := fsmFromWaitingForMetadata_spec env pkt recurse hr
  mvcgen [fsmFromReceiving, h1, handleFdOrEofPdu_spec]
  ksafe

theorem nonIdleFsm_spec (env : Env) (pkt : Option Pdu) (recurse : DM Unit)
    (hr : ⦃fun s => ⌜DK s⌝⦄ recurse ⦃Good DK⦄) :
    ⦃fun s => ⌜DK s⌝⦄ nonIdleFsm env pkt recurse ⦃Good DK⦄ := by
  have h1 := fsmFromReceiving_spec env pkt recurse hr
  mvcgen [nonIdleFsm, h1, fsmAdvancementAfterPacketsWereSent_spec]
  ksafe

theorem idleFsm_spec (env : Env) (pkt : Option Pdu) :
    ⦃fun s => ⌜DK s ∧ ¬ s.state = .busy ∧ IdleAdm env pkt⌝⦄ idleFsm env pkt ⦃Good DK⦄ := by
  mvcgen [idleFsm, startTransaction, commonFirstPacketNotMetadataPduHandler, commonFirstPacketHandler, modP,
    handleMetadataPacket_spec, handleFdWithoutPreviousMetadata_spec, handleEofWithoutPreviousMetadata_spec]
  all_goals (simp only [IdleAdm, HdrOk] at *)
  ksafe

theorem checkInsertedPacket_spec (env : Env) (pdu : Pdu) (hf : Fits env (some pdu)) (s0 : DestSt) :
    ⦃fun s => ⌜s = s0⌝⦄ checkInsertedPacket env pdu
    ⦃post⟨fun _ s => ⌜s = s0 ∧ (¬ s0.state = .busy → IdleAdm env (some pdu))⌝,
          fun e s => ⌜s = s0 ∧ e.isInternal = false⌝⟩⦄ := by
  mvcgen [checkInsertedPacket, handleFirstPacketNotMetadataPdu, transmissionMode]
  all_goals (try simp only [Fits] at hf)
  all_goals (try (cases pdu <;> simp_all +zetaDelta [IdleAdm, HdrOk, Pdu.hdr, Err.isInternal]))

theorem stateMachineWith_spec (env : Env) (pkt : Option Pdu) (recurse : DM Unit) (hf : Fits env pkt)
    (hr : ⦃fun s => ⌜DK s⌝⦄ recurse ⦃Good DK⦄) :
    ⦃fun s => ⌜DK s⌝⦄ stateMachineWith env pkt recurse ⦃Good DK⦄ := by
  have h1 := nonIdleFsm_spec env pkt recurse hr
  mvcgen [stateMachineWith, h1, checkInsertedPacket_spec, idleFsm_spec]
  all_goals (subst_vars; simp_all [IdleAdm])


theorem stateMachine_spec (env : Env) (pkt : Option Pdu) (hf : Fits env pkt) :
    ⦃fun s => ⌜DK s⌝⦄ stateMachine env pkt ⦃Good DK⦄ := by
  unfold stateMachine
  have fitsNone : Fits env none := by intro pdu h; cases h
  have h0 : ⦃fun s => ⌜DK s⌝⦄ (throw .recursionError : DM Unit) ⦃Good DK⦄ := by
    mvcgen
    all_goals simp_all [Err.isInternal]
  exact stateMachineWith_spec env pkt _ hf
    (stateMachineWith_spec env none _ fitsNone (stateMachineWith_spec env none _ fitsNone h0))

theorem getNextPacket_spec : ⦃fun s => ⌜DK s⌝⦄ getNextPacket ⦃Good DK⦄ := by
  mvcgen [getNextPacket]
  ksafe

theorem cancelRequest_spec (env : Env) (tid : Tid) : ⦃fun s => ⌜DK s⌝⦄ cancelRequest env tid ⦃Good DK⦄ := by
  mvcgen [cancelRequest, triggerNoticeOfCompletionCanceled, modP]
  ksafe

theorem reset_spec : ⦃fun s => ⌜DK s⌝⦄ reset ⦃Good DK⦄ := by
  mvcgen [reset, resetInternal]
  ksafe


end Cfdp.Dest.SafeC
