import CfdpVerif.Model.Dest
import CfdpVerif.Lemmas.Monad
/-!
Invariant of the destination handler: the packets-ready counter equals the queue length, in every
state reachable by any sequence of public calls (`QInv`).  Proved function by function with the
`Preserves` combinators.
-/
set_option linter.unusedSimpArgs false

namespace Cfdp.Dest

def QInv (s : DestSt) : Prop := s.numReady = s.queue.length

macro "qinv" : tactic => `(tactic| all_goals (try simp_all [QInv]))

theorem addPacket_q (p : Pdu) : Preserves QInv (addPacket p) := by
  unfold addPacket; preserves_with []; qinv
theorem addPackets_q (p : List Pdu) : Preserves QInv (addPackets p) := by
  unfold addPackets; preserves_with []; qinv
theorem modP_q (f : Params → Params) : Preserves QInv (modP f) := by
  unfold modP; preserves_with []; qinv
theorem emitInd_q (i : Ind) : Preserves QInv (emitInd i) := by
  unfold emitInd; preserves_with []; qinv
theorem getP_q : Preserves QInv getP := by unfold getP; preserves_with []
theorem transmissionMode_q : Preserves QInv transmissionMode := by
  unfold transmissionMode; preserves_with []
theorem assertThat_q (b : Bool) : Preserves QInv (assertThat b) := by
  unfold assertThat; preserves_with []
theorem resetInternal_q : Preserves QInv (resetInternal false) := by
  unfold resetInternal; preserves_with []; qinv
theorem noticeOfCancellation_q (c : Nat) : Preserves QInv (noticeOfCancellation c) := by
  unfold noticeOfCancellation abandonTransaction
  preserves_with [resetInternal_q]; qinv
theorem declareFault_q (c : Nat) : Preserves QInv (declareFault c) := by
  unfold declareFault abandonTransaction
  preserves_with [resetInternal_q, noticeOfCancellation_q]; qinv
theorem trigger_q (c : Nat) (e : EntityId) : Preserves QInv (triggerNoticeOfCompletionCanceled c e) := by
  unfold triggerNoticeOfCompletionCanceled; exact modP_q _
theorem markComplete_q : Preserves QInv markComplete := by unfold markComplete; exact modP_q _
theorem checksumVerify_q : Preserves QInv checksumVerify := by
  unfold checksumVerify
  preserves_with [markComplete_q, declareFault_q]
theorem prepareEofAckPacket_q : Preserves QInv prepareEofAckPacket := by
  unfold prepareEofAckPacket; preserves_with [getP_q, addPacket_q]
theorem fileTransferCompleteTransition_q : Preserves QInv fileTransferCompleteTransition := by
  unfold fileTransferCompleteTransition
  preserves_with [transmissionMode_q, prepareEofAckPacket_q]; qinv
theorem startCheckLimitHandling_q (env : Env) : Preserves QInv (startCheckLimitHandling env) := by
  unfold startCheckLimitHandling
  preserves_with [getP_q, assertThat_q, modP_q]; qinv
theorem initVfsHandling_q (b : String) : Preserves QInv (initVfsHandling b) := by
  unfold initVfsHandling
  preserves_with [modP_q, declareFault_q]; qinv
theorem handleMetadataPacket_q (h : Hdr) (cl : Bool) (c sz : Nat) (sn dn : Option String)
    (m : Option (List Msg)) : Preserves QInv (handleMetadataPacket h cl c sz sn dn m) := by
  unfold handleMetadataPacket
  preserves_with [modP_q, getP_q, initVfsHandling_q, emitInd_q]; qinv
theorem commonFirstPacketHandler_q (env : Env) (h : Hdr) : Preserves QInv (commonFirstPacketHandler env h) := by
  unfold commonFirstPacketHandler
  preserves_with [modP_q]; qinv
theorem startTransaction_q (env : Env) (h : Hdr) (cl : Bool) (c sz : Nat) (sn dn : Option String)
    (m : Option (List Msg)) : Preserves QInv (startTransaction env h cl c sz sn dn m) := by
  unfold startTransaction
  preserves_with [modP_q, commonFirstPacketHandler_q, handleMetadataPacket_q]
theorem commonFirstNotMd_q (env : Env) (h : Hdr) :
    Preserves QInv (commonFirstPacketNotMetadataPduHandler env h) := by
  unfold commonFirstPacketNotMetadataPduHandler
  preserves_with [modP_q, commonFirstPacketHandler_q]; qinv
theorem handleFdWithoutMd_q (f : Bool) (o : Nat) (d : List UInt8) :
    Preserves QInv (handleFdWithoutPreviousMetadata f o d) := by
  unfold handleFdWithoutPreviousMetadata
  preserves_with [modP_q, getP_q, addPacket_q]
theorem handleEofWithoutMd_q (env : Env) (c : List UInt8) (sz : Nat) :
    Preserves QInv (handleEofWithoutPreviousMetadata env c sz) := by
  unfold handleEofWithoutPreviousMetadata
  preserves_with [modP_q, getP_q, emitInd_q, prepareEofAckPacket_q]; qinv
theorem lostSegmentHandling_q (o l : Nat) : Preserves QInv (lostSegmentHandling o l) := by
  unfold lostSegmentHandling
  preserves_with [modP_q, getP_q, addPacket_q]
theorem vfsWriteData_q (n : String) (d : List UInt8) (o : Nat) : Preserves QInv (vfsWriteData n d o) := by
  intro s hp
  unfold vfsWriteData
  cases hr : s.rejects with
  | cons e rest => msimp [hr]; simpa [QInv] using hp
  | nil =>
    cases hw : Fs.writeData s.fs n d o with
    | error e => msimp [hr, hw]; exact hp
    | ok fs' => msimp [hr, hw]; simpa [QInv] using hp
theorem handleFdPdu_q (env : Env) (o : Nat) (d : List UInt8) : Preserves QInv (handleFdPdu env o d) := by
  unfold handleFdPdu
  preserves_with [modP_q, getP_q, emitInd_q, transmissionMode_q, lostSegmentHandling_q, vfsWriteData_q,
    declareFault_q]
theorem noErrorEofVerify_q (env : Env) : Preserves QInv (noErrorEofVerify env) := by
  unfold noErrorEofVerify
  preserves_with [transmissionMode_q, checksumVerify_q, startCheckLimitHandling_q]
theorem handleNoErrorEof_q (env : Env) : Preserves QInv (handleNoErrorEof env) := by
  unfold handleNoErrorEof
  preserves_with [getP_q, declareFault_q, noErrorEofVerify_q, transmissionMode_q, modP_q]
theorem handleEofPdu_q (env : Env) (c : Nat) (k : List UInt8) (sz : Nat) :
    Preserves QInv (handleEofPdu env c k sz) := by
  unfold handleEofPdu
  preserves_with [modP_q, getP_q, emitInd_q, handleNoErrorEof_q, fileTransferCompleteTransition_q, trigger_q]
theorem handleFdOrEofPdu_q (env : Env) (p : Pdu) : Preserves QInv (handleFdOrEofPdu env p) := by
  unfold handleFdOrEofPdu
  preserves_with [handleFdPdu_q, handleEofPdu_q]
theorem resetNak_q (env : Env) : Preserves QInv (resetNakActivityParameters env) := by
  unfold resetNakActivityParameters
  preserves_with [getP_q, modP_q]
theorem handleWaitingMd_q (env : Env) (p : Option Pdu) :
    Preserves QInv (handleWaitingForMissingMetadata env p) := by
  unfold handleWaitingForMissingMetadata
  preserves_with [getP_q, handleFdWithoutMd_q, handleMetadataPacket_q, resetNak_q, handleEofWithoutMd_q]
  qinv
theorem deferred_q (env : Env) : Preserves QInv (deferredLostSegmentHandling env) := by
  unfold deferredLostSegmentHandling
  preserves_with [getP_q, modP_q, checksumVerify_q, addPackets_q, declareFault_q]; qinv
theorem startDeferred_q (env : Env) : Preserves QInv (startDeferredLostSegmentHandling env) := by
  unfold startDeferredLostSegmentHandling
  preserves_with [getP_q, modP_q, deferred_q]; qinv
theorem fsmAdvancement_q (env : Env) : Preserves QInv (fsmAdvancementAfterPacketsWereSent env) := by
  unfold fsmAdvancementAfterPacketsWereSent
  preserves_with [startDeferred_q, checksumVerify_q]; qinv
theorem checkLimitHandling_q (env : Env) : Preserves QInv (checkLimitHandling env) := by
  unfold checkLimitHandling
  preserves_with [getP_q, modP_q, checksumVerify_q, fileTransferCompleteTransition_q, declareFault_q]
theorem noticeOfCompletion_q (env : Env) : Preserves QInv (noticeOfCompletion env) := by
  unfold noticeOfCompletion
  preserves_with [getP_q, emitInd_q]; qinv
theorem handleTransferCompletion_q (env : Env) : Preserves QInv (handleTransferCompletion env) := by
  unfold handleTransferCompletion
  preserves_with [noticeOfCompletion_q, transmissionMode_q, getP_q, resetInternal_q]; qinv
theorem prepareFinishedPdu_q : Preserves QInv prepareFinishedPdu := by
  unfold prepareFinishedPdu
  preserves_with [addPacket_q]
theorem startPositiveAck_q (env : Env) : Preserves QInv (startPositiveAckProcedure env) := by
  unfold startPositiveAckProcedure
  preserves_with [getP_q, modP_q]
theorem handleFinishedPduSent_q (env : Env) : Preserves QInv (handleFinishedPduSent env) := by
  unfold handleFinishedPduSent
  preserves_with [transmissionMode_q, startPositiveAck_q, resetInternal_q]; qinv
theorem resendFinished_q (env : Env) : Preserves QInv (resendFinished env) := by
  unfold resendFinished
  preserves_with [getP_q, modP_q, prepareFinishedPdu_q]
theorem handlePositiveAck_q (env : Env) (r : DM Unit) (hr : Preserves QInv r) :
    Preserves QInv (handlePositiveAckProcedures env r) := by
  unfold handlePositiveAckProcedures
  preserves_with [getP_q, declareFault_q, resendFinished_q, hr]
theorem handleWaitingFinAck_q (env : Env) (r : DM Unit) (hr : Preserves QInv r) (p : Option Pdu) :
    Preserves QInv (handleWaitingForFinishedAck env p r) := by
  unfold handleWaitingForFinishedAck
  preserves_with [resetInternal_q, handlePositiveAck_q env r hr]
theorem fsmFromWaitingForFinishedAck_q (env : Env) (r : DM Unit) (hr : Preserves QInv r) (p : Option Pdu) :
    Preserves QInv (fsmFromWaitingForFinishedAck env p r) := by
  unfold fsmFromWaitingForFinishedAck
  preserves_with [handleWaitingFinAck_q env r hr]
theorem fsmFromSendingFinishedPdu_q (env : Env) (r : DM Unit) (hr : Preserves QInv r) (p : Option Pdu) :
    Preserves QInv (fsmFromSendingFinishedPdu env p r) := by
  unfold fsmFromSendingFinishedPdu
  preserves_with [prepareFinishedPdu_q, handleFinishedPduSent_q, fsmFromWaitingForFinishedAck_q env r hr]
theorem fsmFromTransferCompletion_q (env : Env) (r : DM Unit) (hr : Preserves QInv r) (p : Option Pdu) :
    Preserves QInv (fsmFromTransferCompletion env p r) := by
  unfold fsmFromTransferCompletion
  preserves_with [handleTransferCompletion_q, fsmFromSendingFinishedPdu_q env r hr]
theorem fsmFromWaitingForMissingData_q (env : Env) (r : DM Unit) (hr : Preserves QInv r) (p : Option Pdu) :
    Preserves QInv (fsmFromWaitingForMissingData env p r) := by
  unfold fsmFromWaitingForMissingData
  preserves_with [handleFdPdu_q, getP_q, resetNak_q, deferred_q, fsmFromTransferCompletion_q env r hr]
theorem fsmFromCheckLimit_q (env : Env) (r : DM Unit) (hr : Preserves QInv r) (p : Option Pdu) :
    Preserves QInv (fsmFromCheckLimit env p r) := by
  unfold fsmFromCheckLimit
  preserves_with [checkLimitHandling_q, fsmFromWaitingForMissingData_q env r hr]
theorem fsmFromWaitingForMetadata_q (env : Env) (r : DM Unit) (hr : Preserves QInv r) (p : Option Pdu) :
    Preserves QInv (fsmFromWaitingForMetadata env p r) := by
  unfold fsmFromWaitingForMetadata
  preserves_with [handleWaitingMd_q, deferred_q, fsmFromCheckLimit_q env r hr]
theorem fsmFromReceiving_q (env : Env) (r : DM Unit) (hr : Preserves QInv r) (p : Option Pdu) :
    Preserves QInv (fsmFromReceiving env p r) := by
  unfold fsmFromReceiving
  preserves_with [handleFdOrEofPdu_q, fsmFromWaitingForMetadata_q env r hr]
theorem nonIdleFsm_q (env : Env) (r : DM Unit) (hr : Preserves QInv r) (p : Option Pdu) :
    Preserves QInv (nonIdleFsm env p r) := by
  unfold nonIdleFsm
  preserves_with [fsmAdvancement_q, fsmFromReceiving_q env r hr]
theorem checkInserted_q (env : Env) (p : Pdu) : Preserves QInv (checkInsertedPacket env p) := by
  apply Preserves.of_readOnly
  unfold checkInsertedPacket handleFirstPacketNotMetadataPdu transmissionMode
  read_only
theorem idleFsm_q (env : Env) (p : Option Pdu) : Preserves QInv (idleFsm env p) := by
  unfold idleFsm
  preserves_with [commonFirstNotMd_q, handleFdWithoutMd_q, handleEofWithoutMd_q, startTransaction_q]
theorem stateMachineWith_q (env : Env) (r : DM Unit) (hr : Preserves QInv r) (p : Option Pdu) :
    Preserves QInv (stateMachineWith env p r) := by
  unfold stateMachineWith
  preserves_with [checkInserted_q, idleFsm_q, nonIdleFsm_q env r hr]
theorem stateMachine_q (env : Env) (p : Option Pdu) : Preserves QInv (stateMachine env p) := by
  unfold stateMachine
  apply stateMachineWith_q
  apply stateMachineWith_q
  apply stateMachineWith_q
  exact Preserves.throw _
theorem getNextPacket_q : Preserves QInv getNextPacket := by
  intro s hp
  unfold getNextPacket
  cases hq : s.queue with
  | nil => msimp [hq]; exact hp
  | cons a t => msimp [hq]; simp [QInv, hq] at hp ⊢; omega
theorem cancelRequest_q (env : Env) (t : Tid) : Preserves QInv (cancelRequest env t) := by
  unfold cancelRequest
  preserves_with [trigger_q]; qinv
theorem reset_q : Preserves QInv reset := resetInternal_q

end Cfdp.Dest
