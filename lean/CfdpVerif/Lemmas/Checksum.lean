import CfdpVerif.Model.Checksum
/-! Helper lemmas for C09. -/
namespace Cfdp.Checksum

theorem update_append (poly c : UInt32) (a b : Bytes) :
    update poly (update poly c a) b = update poly c (a ++ b) := by
  simp [update, List.foldl_append]

theorem update_nil (poly c : UInt32) : update poly c [] = c := rfl

theorem read_split (data : Bytes) (cur r n : Nat) (h : r ≤ n) :
    read data cur r ++ read data (cur + r) (n - r) = read data cur n := by
  unfold read
  have : n = r + (n - r) := by omega
  conv => rhs; rw [this, List.take_add]
  rw [List.drop_drop]

theorem read_zero (data : Bytes) (cur : Nat) : read data cur 0 = [] := by simp [read]

theorem chunkLoop_spec (poly : UInt32) (data : Bytes) (size seg : Nat) (hseg : 1 ≤ seg) :
    ∀ (fuel cur : Nat) (c : UInt32), size - cur ≤ fuel →
      chunkLoop poly data size seg fuel cur c = update poly c (read data cur (size - cur)) := by
  intro fuel
  induction fuel with
  | zero =>
    intro cur c h
    have : size - cur = 0 := by omega
    simp [chunkLoop, this, read_zero, update_nil]
  | succ fuel ih =>
    intro cur c h
    unfold chunkLoop
    split
    · rename_i hlt
      have hr : 0 < min seg (size - cur) := by omega
      simp only [hr, if_true]
      rw [ih _ _ (by omega), update_append]
      have : size - (cur + min seg (size - cur)) = (size - cur) - min seg (size - cur) := by omega
      rw [this, read_split _ _ _ _ (Nat.min_le_right _ _)]
    · rename_i hge
      have : size - cur = 0 := by omega
      simp [this, read_zero, update_nil]

theorem crcChunked_eq (poly : UInt32) (data : Bytes) (size seg : Nat) (hseg : 1 ≤ seg) :
    crcChunked poly data size seg = crcOf poly (data.take size) := by
  unfold crcChunked crcOf
  rw [chunkLoop_spec poly data size seg hseg size 0 _ (by omega)]
  simp [read]

/-- sum of the zero-padded big-endian 4-byte words of a byte string -/
def wordsSum (l : Bytes) : Nat :=
  if l.isEmpty then 0 else wordBE (l.take 4) + wordsSum (l.drop 4)
termination_by l.length
decreasing_by
  cases l with
  | nil => simp at *
  | cons a t => simp; omega

theorem wordsSum_nil : wordsSum [] = 0 := by
  unfold wordsSum; simp

theorem drop_min4 (L : Bytes) : L.drop (min 4 L.length) = L.drop 4 := by
  by_cases h4 : 4 ≤ L.length
  · have : min 4 L.length = 4 := by omega
    rw [this]
  · have hk : min 4 L.length = L.length := by omega
    rw [hk, List.drop_eq_nil_of_le (Nat.le_refl _), List.drop_eq_nil_of_le (by omega)]

theorem modLoop_spec :
    ∀ (fuel : Nat) (rest : Bytes) (remaining acc : Nat), (rest.take remaining).length < fuel →
      modLoop fuel rest remaining acc = acc + wordsSum (rest.take remaining) := by
  intro fuel
  induction fuel with
  | zero => intro rest remaining acc h; omega
  | succ fuel ih =>
    intro rest remaining acc h
    unfold modLoop
    have hchunk : rest.take (min 4 remaining) = (rest.take remaining).take 4 := by
      rw [List.take_take]
    simp only
    by_cases hemp : (rest.take (min 4 remaining)).isEmpty
    · simp only [hemp, if_true]
      have : (rest.take remaining) = [] := by
        rw [hchunk] at hemp
        have := List.isEmpty_iff.1 hemp
        cases hL : rest.take remaining with
        | nil => rfl
        | cons a t => rw [hL] at this; simp at this
      rw [this, wordsSum_nil]; rfl
    · simp only [hemp]
      have hne : ¬ (rest.take remaining).isEmpty := by
        intro hc
        apply hemp
        rw [hchunk]
        have := List.isEmpty_iff.1 hc
        rw [this]; rfl
      have hlen : (rest.take (min 4 remaining)).length = min 4 (rest.take remaining).length := by
        rw [hchunk, List.length_take]
      have hpos : 0 < (rest.take remaining).length := by
        cases hL : rest.take remaining with
        | nil => rw [hL] at hne; simp at hne
        | cons a t => simp
      have hdrop : (rest.drop (rest.take (min 4 remaining)).length).take
          (remaining - (rest.take (min 4 remaining)).length)
          = (rest.take remaining).drop 4 := by
        rw [hlen, ← List.drop_take]
        exact drop_min4 _
      rw [ih _ _ _ (by
        rw [hdrop, List.length_drop]; omega)]
      rw [hdrop, hchunk]
      conv => rhs; unfold wordsSum
      simp only [hne]
      simp [Nat.add_assoc]

theorem modular_eq (data : Bytes) (size : Nat) :
    modular data size = natBE32 (wordsSum (data.take size) % 4294967296) := by
  unfold modular
  rw [modLoop_spec _ _ _ _ (by rw [List.length_take]; omega)]
  simp

end Cfdp.Checksum
