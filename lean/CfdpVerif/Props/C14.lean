import CfdpVerif.Model.World
import CfdpVerif.Lemmas.Monad
import CfdpVerif.Lemmas.InvDestFaults
import CfdpVerif.Lemmas.InvSourceFaults
/-!
# C14 — declared faults take the effect configured in the fault-handler table

Model: `declareFault` of both handlers (`_declare_fault`, `_notice_of_cancellation`,
`_abandon_transaction`) and the table API `setFaultHandler` (`Model/Common.lean`).  The theorems hold
for every handler state and every condition code, i.e. for every declaration site.
-/
set_option linter.unusedSimpArgs false
set_option linter.unusedVariables false

namespace Cfdp.C14

open Cfdp

/-! ### the table -/

theorem lookup_map_set (tbl : List (Nat × Nat)) (cond code c : Nat) :
    (tbl.map fun e => if e.1 = cond then (cond, code) else e).lookup c =
      if c = cond then (tbl.lookup cond).map (fun _ => code) else tbl.lookup c := by
  induction tbl with
  | nil => simp
  | cons e t ih =>
    obtain ⟨k, v⟩ := e
    by_cases hk : k = cond
    · subst hk
      by_cases hc : c = k
      · subst hc; simp [List.lookup]
      · have : (c == k) = false := by simp [hc]
        simp [List.lookup, this, ih, hc]
    · by_cases hc : c = cond
      · subst hc
        have h1 : (c == k) = false := by simp; omega
        simp [List.lookup, hk, h1, ih]
      · by_cases hck : c = k
        · subst hck; simp [List.lookup, hk]
        · have h1 : (c == k) = false := by simp [hck]
          simp [List.lookup, hk, h1, ih, hc]

/-- `set_handler` refuses exactly the conditions that are not in the table and otherwise changes
exactly the entry of that condition -/
theorem C14_set_handler (tbl : List (Nat × Nat)) (cond code : Nat) :
    (tbl.lookup cond = none → setFaultHandler tbl cond code = none) ∧
    (∀ old, tbl.lookup cond = some old → ∃ t, setFaultHandler tbl cond code = some t ∧
       t.lookup cond = some code ∧ ∀ c, c ≠ cond → t.lookup c = tbl.lookup c) := by
  constructor
  · intro h; simp [setFaultHandler, h]
  · intro old h
    refine ⟨tbl.map fun e => if e.1 = cond then (cond, code) else e, by simp [setFaultHandler, h], ?_, ?_⟩
    · rw [lookup_map_set]; simp [h]
    · intro c hc; rw [lookup_map_set]; simp [hc]

/-- the conditions of the default table are exactly those of `DefaultFaultHandlerBase`; No-error,
Suspend-request-received and the reserved codes are refused -/
theorem C14_default_table_conditions :
    ∀ c < 16, (setFaultHandler defaultFaultTable c fhIgnore).isSome =
      decide (c ∈ [1, 2, 3, 4, 5, 6, 7, 8, 10, 11, 15]) := by
  decide

/-! ### receiver -/

/-- the cancel exchange of the receiver is in progress: the transaction is cancelled and the
Finished PDU awaits its acknowledgement -/
def Dest.inCancelExchange (d : Dest.DestSt) : Bool :=
  d.p.canceled && decide (d.step = .WAITING_FOR_FINISHED_ACK)

/-- **ignore / suspend**: exactly one callback of the configured kind with the transaction id, the
condition and the progress at declaration; the transaction is otherwise untouched -/
theorem C14_dest_ignore (d : Dest.DestSt) (cond fh : Nat) (t : Tid)
    (ht : d.p.tid = some t) (hfh : d.faults.lookup cond = some fh)
    (hk : fh ≠ fhCancel ∧ fh ≠ fhAbandon) :
    Dest.declareFault cond d = .ok fh { d with flts := d.flts ++ [⟨fh, t, cond, d.p.progress⟩] } := by
  msimp [Dest.declareFault, ht, hfh, hk.1, hk.2]

/-- **notice of cancellation**: one cancellation callback; the transaction is cancelled with that
condition code (which `C12_dest_notice_of_completion` / `C12_dest_finished_pdu` carry to the user
and the peer) and completes next -/
theorem C14_dest_cancel (d : Dest.DestSt) (cond : Nat) (t : Tid)
    (ht : d.p.tid = some t) (hfh : d.faults.lookup cond = some fhCancel)
    (hx : Dest.inCancelExchange d = false) :
    Dest.declareFault cond d =
      .ok fhCancel { d with step := .TRANSFER_COMPLETION,
                            p := { d.p with fin := { d.p.fin with cond := cond }, canceled := true },
                            flts := d.flts ++ [⟨fhCancel, t, cond, d.p.progress⟩] } := by
  simp [Dest.inCancelExchange] at hx
  by_cases hc : d.p.canceled = true
  · have hs := hx hc
    msimp [Dest.declareFault, ht, hfh, Dest.noticeOfCancellation, hc, hs]
  · have hc' : d.p.canceled = false := by simpa using hc
    msimp [Dest.declareFault, ht, hfh, Dest.noticeOfCancellation, hc']

/-- **abandon**: one abandoned callback; the handler is idle with a fresh parameter block (PDUs
already queued stay retrievable); nothing is reported to the peer -/
theorem C14_dest_abandon (d : Dest.DestSt) (cond : Nat) (t : Tid)
    (ht : d.p.tid = some t) (hfh : d.faults.lookup cond = some fhAbandon) :
    Dest.declareFault cond d =
      .ok fhAbandon { d with state := .idle, step := .IDLE, p := {},
                             flts := d.flts ++ [⟨fhAbandon, t, cond, d.p.progress⟩] } := by
  msimp [Dest.declareFault, ht, hfh, fhAbandon, fhCancel, Dest.abandonTransaction, Dest.resetInternal]

/-- **carve-out (C04)**: a fault mapped to cancellation that is declared while the Finished (cancel)
exchange is in progress abandons the transaction: exactly one callback — the abandoned one, with
the condition of the cancellation in progress — and the handler is idle -/
theorem C14_dest_fault_in_cancel_exchange (d : Dest.DestSt) (cond : Nat) (t : Tid)
    (ht : d.p.tid = some t) (hfh : d.faults.lookup cond = some fhCancel)
    (hx : Dest.inCancelExchange d = true) :
    Dest.declareFault cond d =
      .ok fhCancel { d with state := .idle, step := .IDLE, p := {},
                            flts := d.flts ++ [⟨fhAbandon, t, d.p.fin.cond, d.p.progress⟩] } := by
  simp [Dest.inCancelExchange] at hx
  msimp [Dest.declareFault, ht, hfh, Dest.noticeOfCancellation, hx.1, hx.2, Dest.abandonTransaction,
    Dest.resetInternal]

/-- a fault can only be declared for an active transaction: without a transaction id nothing is
reported (`AssertionError`), and a condition outside the table is a `ValueError` — no callback with
a missing id or unknown condition is ever issued -/
theorem C14_dest_no_callback_without_tid (d : Dest.DestSt) (cond : Nat) (h : d.p.tid = none) :
    Dest.declareFault cond d = .error .assertionError d := by
  msimp [Dest.declareFault, h]

/-! ### sender -/

theorem C14_source_ignore (env : Source.Env) (s : Source.SrcSt) (cond fh : Nat) (t : Tid)
    (ht : s.p.tid = some t) (hfh : s.faults.lookup cond = some fh)
    (hk : fh ≠ fhCancel ∧ fh ≠ fhAbandon) :
    Source.declareFault env cond s =
      .ok () { s with flts := s.flts ++ [⟨fh, t, cond, s.p.progress⟩] } := by
  msimp [Source.declareFault, ht, hfh, hk.1, hk.2]

theorem C14_source_abandon (env : Source.Env) (s : Source.SrcSt) (cond : Nat) (t : Tid)
    (ht : s.p.tid = some t) (hfh : s.faults.lookup cond = some fhAbandon) :
    Source.declareFault env cond s =
      .ok () { s with state := .idle, step := .IDLE, p := {}, queue := [],
                      flts := s.flts ++ [⟨fhAbandon, t, cond, s.p.progress⟩] } := by
  msimp [Source.declareFault, ht, hfh, fhAbandon, fhCancel, Source.abandonTransaction,
    Source.resetInternal]

/-- **carve-out (C04)** at the sender: a fault mapped to cancellation while the EOF (cancel) exchange
is in progress abandons: one abandoned callback with the first condition, idle, empty queue -/
theorem C14_source_fault_in_cancel_exchange (env : Source.Env) (s : Source.SrcSt) (cond c : Nat) (t : Tid)
    (ht : s.p.tid = some t) (hfh : s.faults.lookup cond = some fhCancel)
    (hx : Source.cancelInProgress s.p = some c) :
    Source.declareFault env cond s =
      .ok () { s with state := .idle, step := .IDLE, p := {}, queue := [],
                      flts := s.flts ++ [⟨fhAbandon, t, c, s.p.progress⟩] } := by
  msimp [Source.declareFault, ht, hfh, Source.noticeOfCancellation, hx, Source.getP,
    Source.abandonTransaction, Source.resetInternal]

/-- **notice of cancellation** at the sender: an EOF carrying the condition is queued for the peer
(`C12_source_cancel_eof` gives its fields) and exactly one cancellation callback is issued, with the
progress at declaration -/
theorem C14_source_cancel (env : Source.Env) (s s' : Source.SrcSt) (cond : Nat) (t : Tid)
    (ht : s.p.tid = some t) (hfh : s.faults.lookup cond = some fhCancel)
    (hn : Source.noticeOfCancellation env cond s = .ok true s') :
    Source.declareFault env cond s =
      .ok () { s' with flts := s'.flts ++ [⟨fhCancel, t, cond, s.p.progress⟩] } := by
  msimp [Source.declareFault, ht, hfh, hn]

theorem C14_source_no_callback_without_tid (env : Source.Env) (s : Source.SrcSt) (cond : Nat)
    (h : s.p.tid = none) : Source.declareFault env cond s = .error .assertionError s := by
  msimp [Source.declareFault, h]

/-- non-vacuity: the default table maps Positive-ACK-limit to cancellation and Checksum-failure to
ignore; `set_handler` changes one entry -/
example : defaultFaultTable.lookup ccPositiveAckLimit = some fhCancel ∧
    defaultFaultTable.lookup ccChecksumFailure = some fhIgnore ∧
    (setFaultHandler defaultFaultTable ccNakLimit fhAbandon).map (·.lookup ccNakLimit) = some (some fhAbandon) := by
  decide

/-! ### the table decides, for every history -/

/-- public calls of the receiver / of the sender (`put_request` included) -/
inductive DestCall where
  | sm (pkt : Option Pdu) | get | cancel (tid : Tid) | reset

def DestCall.run (env : Dest.Env) : DestCall → Dest.DestSt → Dest.DestSt
  | .sm pkt, s => stateOf (Dest.stateMachine env pkt s)
  | .get, s => stateOf (Dest.getNextPacket s)
  | .cancel t, s => stateOf (Dest.cancelRequest env t s)
  | .reset, s => stateOf (Dest.reset s)

inductive SrcCall where
  | put (req : Source.PutReq) | sm (pkt : Option Pdu) | get | cancel (tid : Tid) | reset

def SrcCall.run (env : Source.Env) : SrcCall → Source.SrcSt → Source.SrcSt
  | .put r, s => stateOf (Source.putRequest env r s)
  | .sm pkt, s => stateOf (Source.stateMachine env pkt s)
  | .get, s => stateOf (Source.getNextPacket s)
  | .cancel t, s => stateOf (Source.cancelRequest env t s)
  | .reset, s => stateOf (Source.reset s)

/-- **Receiver: the configured handler code decides, whatever happens.**  While the fault handler
table is `T`, after any sequence of `state_machine` (any PDU or none), `get_next_packet`,
`cancel_request` and `reset` calls — returning or raising — every fault callback that was delivered
is of the kind `T` configures for the condition it reports, or it is the abandon callback of the
cancellation-exchange rule; no other callback kind ever fires.  (Generated whole-FSM invariant,
`Lemmas/InvDestFaults.lean`.) -/
theorem C14_dest_callbacks_follow_table (env : Dest.Env) (T : List (Nat × Nat)) (calls : List DestCall)
    (s : Dest.DestSt) (h : Dest.Faults.FltsOk env T s) :
    Dest.Faults.FltsOk env T (calls.foldl (fun s c => c.run env s) s) := by
  induction calls generalizing s with
  | nil => exact h
  | cons c cs ih =>
    apply ih
    cases c with
    | sm pkt => exact Dest.Faults.stateMachine_c env T pkt s h
    | get => exact Dest.Faults.getNextPacket_c env T s h
    | cancel t => exact Dest.Faults.cancelRequest_c env T t s h
    | reset => exact Dest.Faults.reset_c env T s h

/-- per call, with the callback log cleared before it (as the driver does): every callback of this
call follows the table the handler has at the time of the call -/
theorem C14_dest_call_callbacks (env : Dest.Env) (pkt : Option Pdu) (s : Dest.DestSt) (hs : s.flts = []) :
    ∀ cb ∈ (stateOf (Dest.stateMachine env pkt s)).flts, Dest.Faults.Consistent s.faults cb := by
  have h0 : Dest.Faults.FltsOk env s.faults s := ⟨rfl, by simp [hs]⟩
  exact (Dest.Faults.stateMachine_c env s.faults pkt s h0).2

/-- **Sender: the configured handler code decides, whatever happens** (as for the receiver) -/
theorem C14_source_callbacks_follow_table (env : Source.Env) (T : List (Nat × Nat)) (calls : List SrcCall)
    (s : Source.SrcSt) (h : Source.Faults.FltsOk env T s) :
    Source.Faults.FltsOk env T (calls.foldl (fun s c => c.run env s) s) := by
  induction calls generalizing s with
  | nil => exact h
  | cons c cs ih =>
    apply ih
    cases c with
    | put r => exact Source.Faults.putRequest_c env T r s h
    | sm pkt => exact Source.Faults.stateMachine_c env T pkt s h
    | get => exact Source.Faults.getNextPacket_c env T s h
    | cancel t => exact Source.Faults.cancelRequest_c env T t s h
    | reset => exact Source.Faults.reset_c env T s h

theorem C14_source_call_callbacks (env : Source.Env) (pkt : Option Pdu) (s : Source.SrcSt) (hs : s.flts = []) :
    ∀ cb ∈ (stateOf (Source.stateMachine env pkt s)).flts, Source.Faults.Consistent s.faults cb := by
  have h0 : Source.Faults.FltsOk env s.faults s := ⟨rfl, by simp [hs]⟩
  exact (Source.Faults.stateMachine_c env s.faults pkt s h0).2

end Cfdp.C14
