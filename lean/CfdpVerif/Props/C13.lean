import CfdpVerif.Props.C14
/-!
# C13 — unacknowledged transfers tolerate EOF overtaking file data up to the check limit

Model: receiver `noErrorEofVerify` (second half of `_handle_no_error_eof`), `checkLimitHandling`,
`checksumVerify`; sender `handleWaitForFinish` (check timer of a closure request).
-/
set_option linter.unusedSimpArgs false
set_option linter.unusedVariables false

namespace Cfdp.C13

open Cfdp

/-- the receiver's stored file does not (yet) have the checksum announced by the EOF -/
def Mismatch (d : Dest.DestSt) (crc : List UInt8) : Prop :=
  d.p.cksType ≠ 15 ∧ d.p.metadataOnly = false ∧
  Fs.calcChecksum d.fs (Checksum.CksType.ofNat d.p.cksType) d.p.fileName d.p.progress 4096 = .ok crc ∧
  crc ≠ d.p.crc32

def Match (d : Dest.DestSt) : Prop :=
  d.p.cksType ≠ 15 ∧ d.p.metadataOnly = false ∧
  Fs.calcChecksum d.fs (Checksum.CksType.ofNat d.p.cksType) d.p.fileName d.p.progress 4096 = .ok d.p.crc32

/-- **EOF early ⇒ wait.**  Unacknowledged mode, EOF (No error) received while the file's checksum does
not match, Checksum-failure ignored (the default): the transaction is *not* finished; the receiver
enters check-limit handling with a fresh check timer and a zero check counter; the failure is
reported once. -/
theorem C13_eof_early_waits (env : Dest.Env) (d : Dest.DestSt) (crc : List UInt8) (t : Tid) (rc : RemoteCfg)
    (hb : d.state = .busy) (hm : d.p.conf.mode = .unack) (hmis : Mismatch d crc)
    (ht : d.p.tid = some t) (hrc : d.p.remoteCfg = some rc)
    (hfh : d.faults.lookup ccChecksumFailure = some fhIgnore) :
    Dest.noErrorEofVerify env d =
      .ok false { d with step := .RECV_FILE_DATA_WITH_CHECK_LIMIT_HANDLING,
                         p := { d.p with checkTimer := some ⟨env.now, env.cfg.chkMs⟩, checkCount := 0 },
                         flts := d.flts ++ [⟨fhIgnore, t, ccChecksumFailure, d.p.progress⟩] } := by
  obtain ⟨h1, h2, h3, h4⟩ := hmis
  have hd := C14.C14_dest_ignore d ccChecksumFailure fhIgnore t ht hfh (by decide)
  msimp [Dest.noErrorEofVerify, Dest.transmissionMode, hb, hm, Dest.checksumVerify, h1, h2, h3, h4, hd, hfh,
    Dest.startCheckLimitHandling, Dest.getP, hrc, Dest.assertThat, Dest.modP]

/-- a call before the check timer expires changes nothing (file data arriving in between is
written by `handleFdPdu`, which does not touch the timer or the counter) -/
theorem C13_no_early_check (env : Dest.Env) (d : Dest.DestSt) (tm : Timer) (rc : RemoteCfg)
    (htm : d.p.checkTimer = some tm) (hrc : d.p.remoteCfg = some rc) (hbusy : tm.timedOut env.now = false) :
    Dest.checkLimitHandling env d = .ok () d := by
  msimp [Dest.checkLimitHandling, Dest.getP, htm, hrc, hbusy]

/-- **Late data arrived.**  At an expiry at which the stored file has the announced checksum, the
transfer completes in that same call: delivery code Data-complete, condition No-error. -/
theorem C13_expiry_success (env : Dest.Env) (d : Dest.DestSt) (tm : Timer) (rc : RemoteCfg)
    (hb : d.state = .busy) (hm : d.p.conf.mode = .unack)
    (htm : d.p.checkTimer = some tm) (hrc : d.p.remoteCfg = some rc) (hexp : tm.timedOut env.now = true)
    (hok : Match d) :
    Dest.checkLimitHandling env d =
      .ok () { d with step := .TRANSFER_COMPLETION,
                      p := { d.p with fin := { d.p.fin with deliv := dcComplete, cond := ccNoError } } } := by
  obtain ⟨h1, h2, h3⟩ := hok
  msimp [Dest.checkLimitHandling, Dest.getP, htm, hrc, hexp, Dest.checksumVerify, h1, h2, h3,
    Dest.markComplete, Dest.modP, Dest.fileTransferCompleteTransition, Dest.transmissionMode, hb, hm]

/-- **Still incomplete, below the limit**: the counter grows by exactly one, the timer restarts;
no Check-limit fault -/
theorem C13_expiry_retry (env : Dest.Env) (d : Dest.DestSt) (tm : Timer) (rc : RemoteCfg) (crc : List UInt8)
    (t : Tid)
    (htm : d.p.checkTimer = some tm) (hrc : d.p.remoteCfg = some rc) (hexp : tm.timedOut env.now = true)
    (hmis : Mismatch d crc) (ht : d.p.tid = some t) (hb : d.state = .busy)
    (hfh : d.faults.lookup ccChecksumFailure = some fhIgnore)
    (hlim : d.p.checkCount + 1 < rc.chkLim) :
    Dest.checkLimitHandling env d =
      .ok () { d with p := { d.p with checkCount := d.p.checkCount + 1,
                                      checkTimer := some ⟨env.now, tm.timeout⟩ },
                      flts := d.flts ++ [⟨fhIgnore, t, ccChecksumFailure, d.p.progress⟩] } := by
  obtain ⟨h1, h2, h3, h4⟩ := hmis
  have hd := C14.C14_dest_ignore d ccChecksumFailure fhIgnore t ht hfh (by decide)
  have hl : ¬ rc.chkLim ≤ d.p.checkCount + 1 := by omega
  msimp [Dest.checkLimitHandling, Dest.getP, htm, hrc, hexp, Dest.checksumVerify, h1, h2, h3, h4, hd, hl,
    Dest.modP, Timer.reset, hb]

/-- **Still incomplete at the limit**: Check-limit-reached is declared — exactly at the expiry with
`counter + 1 ≥ limit`, i.e. the `limit`-th one (`C04_expiry_count`) -/
theorem C13_expiry_limit (env : Dest.Env) (d : Dest.DestSt) (tm : Timer) (rc : RemoteCfg) (crc : List UInt8)
    (t : Tid)
    (htm : d.p.checkTimer = some tm) (hrc : d.p.remoteCfg = some rc) (hexp : tm.timedOut env.now = true)
    (hmis : Mismatch d crc) (ht : d.p.tid = some t) (hb : d.state = .busy)
    (hfh : d.faults.lookup ccChecksumFailure = some fhIgnore)
    (hlim : d.p.checkCount + 1 ≥ rc.chkLim) :
    Dest.checkLimitHandling env d =
      (do let _ ← Dest.declareFault ccCheckLimit; pure ())
        { d with flts := d.flts ++ [(⟨fhIgnore, t, ccChecksumFailure, d.p.progress⟩ : FaultCb)] } := by
  obtain ⟨h1, h2, h3, h4⟩ := hmis
  have hd := C14.C14_dest_ignore d ccChecksumFailure fhIgnore t ht hfh (by decide)
  have hl : rc.chkLim ≤ d.p.checkCount + 1 := by omega
  msimp [Dest.checkLimitHandling, Dest.getP, htm, hrc, hexp, Dest.checksumVerify, h1, h2, h3, h4, hd, hl, hb]

/-- with the default table that fault cancels the transaction with condition Check-limit-reached
and delivery code Data-incomplete (the delivery code is only ever set to complete by a successful
verification): the transaction ends reporting incomplete data -/
theorem C13_limit_reports_incomplete (d : Dest.DestSt) (t : Tid)
    (ht : d.p.tid = some t) (hfh : d.faults.lookup ccCheckLimit = some fhCancel)
    (hx : C14.Dest.inCancelExchange d = false) (hinc : d.p.fin.deliv = dcIncomplete) :
    ∃ d', Dest.declareFault ccCheckLimit d = .ok fhCancel d' ∧ d'.step = .TRANSFER_COMPLETION ∧
      d'.p.canceled = true ∧ d'.p.fin.cond = ccCheckLimit ∧ d'.p.fin.deliv = dcIncomplete := by
  refine ⟨_, C14.C14_dest_cancel d ccCheckLimit t ht hfh hx, rfl, rfl, rfl, hinc⟩

/-- **Sender with closure.**  No Finished PDU before the check timer expires: Check-limit-reached is
declared (default table: the transaction is cancelled with an EOF (cancel), `Props/C12`, `C14`). -/
theorem C13_source_closure_timer (env : Source.Env) (s : Source.SrcSt) (tm : Timer)
    (hb : s.state = .busy) (hm : s.p.conf.mode = .unack)
    (htm : s.p.checkTimer = some tm) (hexp : tm.timedOut env.now = true) :
    Source.handleWaitForFinish env none s = Source.declareFault env ccCheckLimit s := by
  msimp [Source.handleWaitForFinish, Source.transmissionMode, hb, hm, Source.getP, htm, hexp]

theorem C13_source_closure_timer_running (env : Source.Env) (s : Source.SrcSt) (tm : Timer)
    (hb : s.state = .busy) (hm : s.p.conf.mode = .unack)
    (htm : s.p.checkTimer = some tm) (hexp : tm.timedOut env.now = false) :
    Source.handleWaitForFinish env none s = .ok () s := by
  msimp [Source.handleWaitForFinish, Source.transmissionMode, hb, hm, Source.getP, htm, hexp]

end Cfdp.C13
