import CfdpVerif.Props.C14
import CfdpVerif.Props.C03
/-!
# C13 — unacknowledged transfers tolerate EOF overtaking file data up to the check limit

Model: receiver `noErrorEofVerify` (second half of `_handle_no_error_eof`), `checkLimitHandling`,
`checksumVerify`; sender `handleWaitForFinish` (check timer of a closure request).

One-step contracts first; then WHOLE RUNS of the receiver model, for every file, segment length,
position of the late tile (any but the last), header configuration, CRC checksum type, check limit and
expiry times (unacknowledged mode, closure requested or not): `C13_late_data_completes` — Metadata, all tiles
but one, the EOF (no completion), any number of expiries below the limit (each only counts,
`C13_expiries_below_limit` by induction over the expiry times), the late tile, the next expiry:
complete, file byte-identical, one successful Transaction-Finished, idle — and
`C13_never_arrives_limit` — the first `limit − 1` expiries only count, the limit-th declares Check
limit reached, the transaction is cancelled and reported incomplete, idle.  The stored file with the
hole must not collide with the announced checksum (`MismatchOf`; a collision is a completed transfer,
which the property — and C01 — accept).
-/
set_option linter.unusedSimpArgs false
set_option linter.unusedVariables false

namespace Cfdp.C13

open Cfdp

/-- the receiver's stored file does not (yet) have the checksum announced by the EOF -/
def Mismatch (d : Dest.DestSt) (crc : List UInt8) : Prop :=
  d.p.cksType ≠ 15 ∧ d.p.metadataOnly = false ∧
  Fs.calcChecksum d.fs (Checksum.CksType.ofNat d.p.cksType) d.p.fileName d.p.progress 4096 = .ok crc ∧
  crc ≠ d.p.crc32

def Match (d : Dest.DestSt) : Prop :=
  d.p.cksType ≠ 15 ∧ d.p.metadataOnly = false ∧
  Fs.calcChecksum d.fs (Checksum.CksType.ofNat d.p.cksType) d.p.fileName d.p.progress 4096 = .ok d.p.crc32

/-- **EOF early ⇒ wait.**  Unacknowledged mode, EOF (No error) received while the file's checksum does
not match, Checksum-failure ignored (the default): the transaction is *not* finished; the receiver
enters check-limit handling with a fresh check timer and a zero check counter; the failure is
reported once. -/
theorem C13_eof_early_waits (env : Dest.Env) (d : Dest.DestSt) (crc : List UInt8) (t : Tid) (rc : RemoteCfg)
    (hb : d.state = .busy) (hm : d.p.conf.mode = .unack) (hmis : Mismatch d crc)
    (ht : d.p.tid = some t) (hrc : d.p.remoteCfg = some rc)
    (hfh : d.faults.lookup ccChecksumFailure = some fhIgnore) :
    Dest.noErrorEofVerify env d =
      .ok false { d with step := .RECV_FILE_DATA_WITH_CHECK_LIMIT_HANDLING,
                         p := { d.p with checkTimer := some ⟨env.now, env.cfg.chkMs⟩, checkCount := 0 },
                         flts := d.flts ++ [⟨fhIgnore, t, ccChecksumFailure, d.p.progress⟩] } := by
  obtain ⟨h1, h2, h3, h4⟩ := hmis
  have hd := C14.C14_dest_ignore d ccChecksumFailure fhIgnore t ht hfh (by decide)
  msimp [Dest.noErrorEofVerify, Dest.transmissionMode, hb, hm, Dest.checksumVerify, h1, h2, h3, h4, hd, hfh,
    Dest.startCheckLimitHandling, Dest.getP, hrc, Dest.assertThat, Dest.modP]

/-- a call before the check timer expires changes nothing (file data arriving in between is
written by `handleFdPdu`, which does not touch the timer or the counter) -/
theorem C13_no_early_check (env : Dest.Env) (d : Dest.DestSt) (tm : Timer) (rc : RemoteCfg)
    (htm : d.p.checkTimer = some tm) (hrc : d.p.remoteCfg = some rc) (hbusy : tm.timedOut env.now = false) :
    Dest.checkLimitHandling env d = .ok () d := by
  msimp [Dest.checkLimitHandling, Dest.getP, htm, hrc, hbusy]

/-- **Late data arrived.**  At an expiry at which the stored file has the announced checksum, the
transfer completes in that same call: delivery code Data-complete, condition No-error. -/
theorem C13_expiry_success (env : Dest.Env) (d : Dest.DestSt) (tm : Timer) (rc : RemoteCfg)
    (hb : d.state = .busy) (hm : d.p.conf.mode = .unack)
    (htm : d.p.checkTimer = some tm) (hrc : d.p.remoteCfg = some rc) (hexp : tm.timedOut env.now = true)
    (hok : Match d) :
    Dest.checkLimitHandling env d =
      .ok () { d with step := .TRANSFER_COMPLETION,
                      p := { d.p with fin := { d.p.fin with deliv := dcComplete, cond := ccNoError } } } := by
  obtain ⟨h1, h2, h3⟩ := hok
  msimp [Dest.checkLimitHandling, Dest.getP, htm, hrc, hexp, Dest.checksumVerify, h1, h2, h3,
    Dest.markComplete, Dest.modP, Dest.fileTransferCompleteTransition, Dest.transmissionMode, hb, hm]

/-- **Still incomplete, below the limit**: the counter grows by exactly one, the timer restarts;
no Check-limit fault -/
theorem C13_expiry_retry (env : Dest.Env) (d : Dest.DestSt) (tm : Timer) (rc : RemoteCfg) (crc : List UInt8)
    (t : Tid)
    (htm : d.p.checkTimer = some tm) (hrc : d.p.remoteCfg = some rc) (hexp : tm.timedOut env.now = true)
    (hmis : Mismatch d crc) (ht : d.p.tid = some t) (hb : d.state = .busy)
    (hfh : d.faults.lookup ccChecksumFailure = some fhIgnore)
    (hlim : d.p.checkCount + 1 < rc.chkLim) :
    Dest.checkLimitHandling env d =
      .ok () { d with p := { d.p with checkCount := d.p.checkCount + 1,
                                      checkTimer := some ⟨env.now, tm.timeout⟩ },
                      flts := d.flts ++ [⟨fhIgnore, t, ccChecksumFailure, d.p.progress⟩] } := by
  obtain ⟨h1, h2, h3, h4⟩ := hmis
  have hd := C14.C14_dest_ignore d ccChecksumFailure fhIgnore t ht hfh (by decide)
  have hl : ¬ rc.chkLim ≤ d.p.checkCount + 1 := by omega
  msimp [Dest.checkLimitHandling, Dest.getP, htm, hrc, hexp, Dest.checksumVerify, h1, h2, h3, h4, hd, hl,
    Dest.modP, Timer.reset, hb]

/-- **Still incomplete at the limit**: Check-limit-reached is declared — exactly at the expiry with
`counter + 1 ≥ limit`, i.e. the `limit`-th one (`C04_expiry_count`) -/
theorem C13_expiry_limit (env : Dest.Env) (d : Dest.DestSt) (tm : Timer) (rc : RemoteCfg) (crc : List UInt8)
    (t : Tid)
    (htm : d.p.checkTimer = some tm) (hrc : d.p.remoteCfg = some rc) (hexp : tm.timedOut env.now = true)
    (hmis : Mismatch d crc) (ht : d.p.tid = some t) (hb : d.state = .busy)
    (hfh : d.faults.lookup ccChecksumFailure = some fhIgnore)
    (hlim : d.p.checkCount + 1 ≥ rc.chkLim) :
    Dest.checkLimitHandling env d =
      (do let _ ← Dest.declareFault ccCheckLimit; pure ())
        { d with flts := d.flts ++ [(⟨fhIgnore, t, ccChecksumFailure, d.p.progress⟩ : FaultCb)] } := by
  obtain ⟨h1, h2, h3, h4⟩ := hmis
  have hd := C14.C14_dest_ignore d ccChecksumFailure fhIgnore t ht hfh (by decide)
  have hl : rc.chkLim ≤ d.p.checkCount + 1 := by omega
  msimp [Dest.checkLimitHandling, Dest.getP, htm, hrc, hexp, Dest.checksumVerify, h1, h2, h3, h4, hd, hl, hb]

/-- with the default table that fault cancels the transaction with condition Check-limit-reached
and delivery code Data-incomplete (the delivery code is only ever set to complete by a successful
verification): the transaction ends reporting incomplete data -/
theorem C13_limit_reports_incomplete (d : Dest.DestSt) (t : Tid)
    (ht : d.p.tid = some t) (hfh : d.faults.lookup ccCheckLimit = some fhCancel)
    (hx : C14.Dest.inCancelExchange d = false) (hinc : d.p.fin.deliv = dcIncomplete) :
    ∃ d', Dest.declareFault ccCheckLimit d = .ok fhCancel d' ∧ d'.step = .TRANSFER_COMPLETION ∧
      d'.p.canceled = true ∧ d'.p.fin.cond = ccCheckLimit ∧ d'.p.fin.deliv = dcIncomplete := by
  refine ⟨_, C14.C14_dest_cancel d ccCheckLimit t ht hfh hx, rfl, rfl, rfl, hinc⟩

/-- **Sender with closure.**  No Finished PDU before the check timer expires: Check-limit-reached is
declared (default table: the transaction is cancelled with an EOF (cancel), `Props/C12`, `C14`). -/
theorem C13_source_closure_timer (env : Source.Env) (s : Source.SrcSt) (tm : Timer)
    (hb : s.state = .busy) (hm : s.p.conf.mode = .unack)
    (htm : s.p.checkTimer = some tm) (hexp : tm.timedOut env.now = true) :
    Source.handleWaitForFinish env none s = Source.declareFault env ccCheckLimit s := by
  msimp [Source.handleWaitForFinish, Source.transmissionMode, hb, hm, Source.getP, htm, hexp]

theorem C13_source_closure_timer_running (env : Source.Env) (s : Source.SrcSt) (tm : Timer)
    (hb : s.state = .busy) (hm : s.p.conf.mode = .unack)
    (htm : s.p.checkTimer = some tm) (hexp : tm.timedOut env.now = false) :
    Source.handleWaitForFinish env none s = .ok () s := by
  msimp [Source.handleWaitForFinish, Source.transmissionMode, hb, hm, Source.getP, htm, hexp]

section WholeRuns
open Cfdp.Dest Cfdp.C02

/-! ## Whole runs of the receiver: EOF overtakes file data (unacknowledged mode, with or without closure) -/

/-- the stored content `G` does not have the checksum `crc` announced by the EOF -/
def MismatchOf (cks : Nat) (G crc : List UInt8) : Prop :=
  cks ≠ 15 ∧ ∃ c, Checksum.calcChecksum (Checksum.CksType.ofNat cks) G G.length 4096 = .ok c ∧ c ≠ crc

/-- receiver waiting in the check-limit procedure: EOF received, stored content `G`, check timer `tm`,
`c` expiries so far -/
structure CheckWait (d : DestSt) (dst : String) (G crc : List UInt8) (rc : RemoteCfg) (t : Tid) (cks : Nat)
    (tm : Timer) (c : Nat) (cl : Bool := false) : Prop where
  hbusy : d.state = .busy
  hstep : d.step = .RECV_FILE_DATA_WITH_CHECK_LIMIT_HANDLING
  hready : d.numReady = 0
  hqueue : d.queue = []
  hmode : d.p.conf.mode = .unack
  hname : d.p.fileName = dst
  hfile : d.fs.get dst = some (.file G)
  hprog : d.p.progress = G.length
  hcrc : d.p.crc32 = crc
  hfse : d.p.fileSizeEof = some G.length
  hrc : d.p.remoteCfg = some rc
  htid : d.p.tid = some t
  hrej : d.rejects = []
  hcks : d.p.cksType = cks
  hclosure : d.p.closure = cl
  hcancel : d.p.canceled = false
  hmo : d.p.metadataOnly = false
  hfin : d.p.fin = ⟨ccNoError, dcIncomplete, fsRetained, none⟩
  htm : d.p.checkTimer = some tm
  hcnt : d.p.checkCount = c
  hfh1 : d.faults.lookup ccChecksumFailure = some fhIgnore
  hfh2 : d.faults.lookup ccCheckLimit = some fhCancel

theorem mismatch_of (d : DestSt) (dst : String) (G crc : List UInt8) (cks : Nat)
    (hname : d.p.fileName = dst) (hfile : d.fs.get dst = some (.file G)) (hprog : d.p.progress = G.length)
    (hcks : d.p.cksType = cks) (hcrc : d.p.crc32 = crc) (hmo : d.p.metadataOnly = false)
    (hm : MismatchOf cks G crc) : ∃ c, Mismatch d c := by
  obtain ⟨h1, c, h2, h3⟩ := hm
  have hnull : Checksum.CksType.ofNat cks ≠ .null := by
    intro h
    simp [Checksum.CksType.ofNat] at h
    split at h <;> simp_all
  refine ⟨c, by rw [hcks]; exact h1, hmo, ?_, by rw [hcrc]; exact h3⟩
  rw [hcks, hname, hprog]
  simp [Fs.calcChecksum, hnull, hfile, h2]

def waitP (p : Params) (crc : List UInt8) (size now ms : Nat) : Params :=
  { p with crc32 := crc, fileSizeEof := some size, checkTimer := some ⟨now, ms⟩, checkCount := 0 }

/-- state after an EOF that arrived before all file data -/
def afterEofWait (env : Env) (d : DestSt) (t : Tid) (crc : List UInt8) (size : Nat) : DestSt :=
  { d with step := .RECV_FILE_DATA_WITH_CHECK_LIMIT_HANDLING, p := waitP d.p crc size env.now env.cfg.chkMs,
           inds := d.inds ++ (if env.cfg.indEofRecv then [.eofRecv t] else []),
           flts := d.flts ++ [⟨fhIgnore, t, ccChecksumFailure, d.p.progress⟩] }

/-- **EOF before all file data (whole call).**  The stored content has the EOF's size but not its
checksum: the call does not finish the transaction; the check timer is started, the counter is 0, the
checksum failure is reported once (ignored), nothing is queued -/
theorem C13_eof_call_waits (env : Env) (d : DestSt) (dst : String) (G crc : List UInt8) (rc : RemoteCfg) (t : Tid)
    (cks : Nat) (h : Hdr) (cl : Bool) (hr : Receiving d dst G rc t cks cl) (ha : Admissible env rc h)
    (hmis : MismatchOf cks G crc) (hchk : env.cfg.chkMs ≠ 0)
    (hfh1 : d.faults.lookup ccChecksumFailure = some fhIgnore) (hfh2 : d.faults.lookup ccCheckLimit = some fhCancel) :
    stateMachine env (some (.eof h ccNoError crc G.length none)) d = .ok () (afterEofWait env d t crc G.length) ∧
    CheckWait (afterEofWait env d t crc G.length) dst G crc rc t cks ⟨env.now, env.cfg.chkMs⟩ 0 cl := by
  obtain ⟨h1, c, h2, h3⟩ := hmis
  have hnull : Checksum.CksType.ofNat cks ≠ .null := by
    intro hh
    simp [Checksum.CksType.ofNat] at hh
    split at hh <;> simp_all
  have hc : Fs.calcChecksum d.fs (Checksum.CksType.ofNat cks) dst G.length 4096 = .ok c := by
    simp [Fs.calcChecksum, hnull, hr.hfile, h2]
  have hnlt : ¬ G.length < G.length := by omega
  have hpos : 0 < env.cfg.chkMs := by omega
  constructor
  · cases hi : env.cfg.indEofRecv <;>
    msimp [stateMachine, stateMachineWith, checkInsertedPacket, Pdu.hdr, ha.hdir, ha.hdst, ha.hsrc, Pdu.kind,
      Route.getPacketDestination, hr.hbusy, transmissionMode, hr.hmode, nonIdleFsm,
      fsmAdvancementAfterPacketsWereSent, hr.hqueue, hr.hstep, fsmFromReceiving, handleFdOrEofPdu, handleEofPdu,
      modP, hi, getP, hr.htid, emitInd, handleNoErrorEof, hr.hprog, hnlt, noErrorEofVerify, checksumVerify,
      hr.hcks, h1, hr.hmo, hr.hname, hc, h3, declareFault, hfh1, fhIgnore, fhCancel, fhAbandon,
      startCheckLimitHandling, assertThat, hr.hrc,
      fsmFromWaitingForMetadata, fsmFromCheckLimit, checkLimitHandling, Timer.timedOut, hchk, hpos,
      fsmFromWaitingForMissingData, fsmFromTransferCompletion,
      fsmFromSendingFinishedPdu, fsmFromWaitingForFinishedAck,
      afterEofWait, waitP, hr.hfin, ccNoError, dtEof]
  · exact
      { hbusy := hr.hbusy, hstep := rfl, hready := hr.hready, hqueue := hr.hqueue, hmode := hr.hmode,
        hname := hr.hname, hfile := hr.hfile, hprog := hr.hprog, hcrc := rfl, hfse := rfl, hrc := hr.hrc,
        htid := hr.htid, hrej := hr.hrej, hcks := hr.hcks, hclosure := hr.hclosure, hcancel := hr.hcancel,
        hmo := hr.hmo, hfin := hr.hfin, htm := rfl, hcnt := rfl, hfh1 := hfh1, hfh2 := hfh2 }

def retryP (p : Params) (now : Nat) (tm : Timer) : Params :=
  { p with checkCount := p.checkCount + 1, checkTimer := some ⟨now, tm.timeout⟩ }

def afterRetry (d : DestSt) (now : Nat) (tm : Timer) (t : Tid) : DestSt :=
  { d with p := retryP d.p now tm, flts := d.flts ++ [⟨fhIgnore, t, ccChecksumFailure, d.p.progress⟩] }

/-- **An expiry below the limit with the data still missing (whole call)**: the counter grows by
one, the timer restarts, the checksum failure is reported (ignored); nothing else happens -/
theorem C13_expiry_retry_call (env : Env) (d : DestSt) (dst : String) (G crc : List UInt8) (rc : RemoteCfg)
    (t : Tid) (cks : Nat) (tm : Timer) (c : Nat) (cl : Bool) (hr : CheckWait d dst G crc rc t cks tm c cl)
    (hmis : MismatchOf cks G crc) (hexp : tm.timedOut env.now = true) (hlim : c + 1 < rc.chkLim) :
    stateMachine env none d = .ok () (afterRetry d env.now tm t) ∧
    CheckWait (afterRetry d env.now tm t) dst G crc rc t cks ⟨env.now, tm.timeout⟩ (c + 1) cl := by
  obtain ⟨cc, hm⟩ := mismatch_of d dst G crc cks hr.hname hr.hfile hr.hprog hr.hcks hr.hcrc hr.hmo hmis
  have hcall := C13_expiry_retry env d tm rc cc t hr.htm hr.hrc hexp hm hr.htid hr.hbusy hr.hfh1
    (by rw [hr.hcnt]; exact hlim)
  constructor
  · unfold stateMachine
    generalize (stateMachineWith env none (stateMachineWith env none (throw Err.recursionError))) = rec
    msimp [stateMachineWith, hr.hbusy, nonIdleFsm, fsmAdvancementAfterPacketsWereSent, hr.hqueue, hr.hstep,
      fsmFromReceiving, fsmFromWaitingForMetadata, fsmFromCheckLimit, hcall, fsmFromWaitingForMissingData,
      fsmFromTransferCompletion, fsmFromSendingFinishedPdu, fsmFromWaitingForFinishedAck, afterRetry, retryP]
  · exact
      { hbusy := hr.hbusy, hstep := hr.hstep, hready := hr.hready, hqueue := hr.hqueue, hmode := hr.hmode,
        hname := hr.hname, hfile := hr.hfile, hprog := hr.hprog, hcrc := hr.hcrc, hfse := hr.hfse, hrc := hr.hrc,
        htid := hr.htid, hrej := hr.hrej, hcks := hr.hcks, hclosure := hr.hclosure, hcancel := hr.hcancel,
        hmo := hr.hmo, hfin := hr.hfin, htm := rfl, hcnt := by simp [afterRetry, retryP, hr.hcnt],
        hfh1 := hr.hfh1, hfh2 := hr.hfh2 }

/-- the receiver called at each of the given times (no PDU), nothing to retrieve -/
def checkRounds (cfg : LocalCfg) : List Nat → DestSt → Option DestSt
  | [], d => some d
  | t :: ts, d =>
    match stateMachine ⟨cfg, t⟩ none d with
    | .error _ _ => none
    | .ok _ d' => checkRounds cfg ts d'

/-- **Any number of expiries below the check limit, data still missing**: each one adds one to the
counter, restarts the timer and reports the checksum failure; file, queue, indications untouched -/
theorem C13_expiries_below_limit (cfg : LocalCfg) (dst : String) (G crc : List UInt8) (rc : RemoteCfg) (t : Tid)
    (cks : Nat) (cl : Bool) (hmis : MismatchOf cks G crc) :
    ∀ (times : List Nat) (d : DestSt) (tm : Timer) (c : Nat),
      CheckWait d dst G crc rc t cks tm c cl → C04.Expiring tm.timeout tm.start times → c + times.length < rc.chkLim →
      ∃ d', checkRounds cfg times d = some d' ∧
        CheckWait d' dst G crc rc t cks ⟨C04.lastOr tm.start times, tm.timeout⟩ (c + times.length) cl ∧
        d'.fs = d.fs ∧ d'.inds = d.inds ∧
        d'.flts = d.flts ++ List.replicate times.length ⟨fhIgnore, t, ccChecksumFailure, G.length⟩ ∧
        d'.p.conf = d.p.conf := by
  intro times
  induction times with
  | nil =>
    intro d tm c hr _ _
    exact ⟨d, rfl, by simpa [C04.lastOr] using hr, rfl, rfl, by simp, rfl⟩
  | cons x xs ih =>
    intro d tm c hr hexp hlim
    simp only [C04.Expiring] at hexp
    simp only [List.length_cons] at hlim
    obtain ⟨hcall, hW⟩ := C13_expiry_retry_call ⟨cfg, x⟩ d dst G crc rc t cks tm c cl hr hmis
      (by simp [Timer.timedOut]; exact hexp.1) (by omega)
    obtain ⟨d', hrest, hW', hfs, hin, hfl, hcf⟩ := ih (afterRetry d x tm t) ⟨x, tm.timeout⟩ (c + 1) hW hexp.2 (by omega)
    refine ⟨d', ?_, ?_, ?_, ?_, ?_, ?_⟩
    · simp only [checkRounds, hcall, hrest]
    · have : c + 1 + xs.length = c + (xs.length + 1) := by omega
      simpa [C04.lastOr, this] using hW'
    · rw [hfs]; rfl
    · rw [hin]; rfl
    · rw [hfl]
      simp [afterRetry, hr.hprog, List.replicate_succ]
    · rw [hcf]; rfl

def fillP (p : Params) (n : Nat) : Params := { p with progress := n }

/-- state after the late data arrived during the check-limit procedure (timer not expired) -/
def afterLate (d : DestSt) (dst : String) (F : List UInt8) (a n : Nat) (env : Env) (t : Tid) : DestSt :=
  { d with fs := d.fs.set dst (.file F), p := fillP d.p F.length,
           inds := d.inds ++ (if env.cfg.indSegRecv then [.segRecv (some t) a n] else []) }

/-- **The late File Data PDU arrives while the receiver waits** (timer running): it is stored — the
hole is filled —, nothing else changes; the verification happens at the next expiry -/
theorem C13_late_tile_call (env : Env) (d : DestSt) (dst : String) (F crc : List UInt8) (a b : Nat)
    (rc : RemoteCfg) (t : Tid) (cks : Nat) (tm : Timer) (c : Nat) (h : Hdr) (cl : Bool)
    (hr : CheckWait d dst (C03.holeFile F a b F.length) crc rc t cks tm c cl) (ha : Admissible env rc h)
    (hab : a < b) (hb : b ≤ F.length) (hrun : tm.timedOut env.now = false) :
    stateMachine env (some (.fd h a ((F.drop a).take (b - a)))) d = .ok () (afterLate d dst F a (b - a) env t) ∧
    CheckWait (afterLate d dst F a (b - a) env t) dst F crc rc t cks tm c cl := by
  have hlenG := C03.holeFile_length F a b F.length (by omega) hb (Nat.le_refl _)
  have hw := C03.write_fills_hole F a b hab hb
  have hdl : ((F.drop a).take (b - a)).length = b - a := by simp [List.length_take, List.length_drop]; omega
  have hprog : d.p.progress = F.length := by rw [hr.hprog, hlenG]
  have hfse : d.p.fileSizeEof = some F.length := by rw [hr.hfse, hlenG]
  have hnsz : ¬ a + (b - a) > F.length := by omega
  have hmax : max (a + (b - a)) F.length = F.length := by omega
  constructor
  · unfold stateMachine
    generalize (stateMachineWith env none (stateMachineWith env none (throw Err.recursionError))) = rec
    cases hi : env.cfg.indSegRecv <;>
    msimp [stateMachineWith, checkInsertedPacket, Pdu.hdr, ha.hdir, ha.hdst, ha.hsrc, Pdu.kind,
      Route.getPacketDestination, hr.hbusy, transmissionMode, hr.hmode, nonIdleFsm,
      fsmAdvancementAfterPacketsWereSent, hr.hqueue, hr.hstep, fsmFromReceiving, handleFdOrEofPdu, handleFdPdu,
      fdIndication, hi, getP, emitInd, hr.htid, fdLostSegments, fdWrite, vfsWriteData, hr.hrej, hr.hname,
      Fs.writeData, hr.hfile, hw, hdl, fdAfterWrite, sizeErrOf, modP, hfse, hprog, hnsz, hmax,
      fsmFromWaitingForMetadata,
      fsmFromCheckLimit, checkLimitHandling, hr.htm, hr.hrc, hrun, fsmFromWaitingForMissingData,
      fsmFromTransferCompletion, fsmFromSendingFinishedPdu,
      fsmFromWaitingForFinishedAck, afterLate, fillP, hr.hfin]
  · exact
      { hbusy := hr.hbusy, hstep := hr.hstep, hready := hr.hready, hqueue := hr.hqueue, hmode := hr.hmode,
        hname := hr.hname, hfile := by simp [afterLate, Fs.C17.get_set_same],
        hprog := rfl, hcrc := hr.hcrc,
        hfse := by show d.p.fileSizeEof = some F.length; exact hfse, hrc := hr.hrc,
        htid := hr.htid, hrej := hr.hrej, hcks := hr.hcks, hclosure := hr.hclosure, hcancel := hr.hcancel,
        hmo := hr.hmo, hfin := hr.hfin, htm := hr.htm, hcnt := hr.hcnt, hfh1 := hr.hfh1, hfh2 := hr.hfh2 }

/-- state after the expiry at which the file was complete: transaction finished, handler idle -/
def afterSuccess (env : Env) (d : DestSt) (t : Tid) (cl : Bool := false) : DestSt :=
  { d with state := .idle, step := .IDLE, p := {},
           queue := if cl then [mkFin d.p.conf ⟨ccNoError, dcComplete, fsRetained, none⟩] else [],
           numReady := if cl then 1 else 0,
           inds := d.inds ++ (if env.cfg.indFinished
             then [.finished (some t) ⟨ccNoError, dcComplete, fsRetained, none⟩] else []) }

/-- **The expiry after the late data arrived (whole call)**: the checksum matches; the transaction
completes in that call — Transaction-Finished (No error, Data complete, File retained) —, the handler
is idle, the file untouched; with closure requested exactly one Finished PDU with those values is queued -/
theorem C13_expiry_success_call (env : Env) (d : DestSt) (dst : String) (F crc : List UInt8) (rc : RemoteCfg)
    (t : Tid) (cks : Nat) (tm : Timer) (c : Nat) (cl : Bool) (hr : CheckWait d dst F crc rc t cks tm c cl)
    (hexp : tm.timedOut env.now = true) (hnull : cks ≠ 15)
    (hok : Checksum.calcChecksum (Checksum.CksType.ofNat cks) F F.length 4096 = .ok crc) :
    stateMachine env none d = .ok () (afterSuccess env d t cl) := by
  have hn : Checksum.CksType.ofNat cks ≠ .null := by
    intro hh
    simp [Checksum.CksType.ofNat] at hh
    split at hh <;> simp_all
  have hm : Match d := by
    refine ⟨by rw [hr.hcks]; exact hnull, hr.hmo, ?_⟩
    rw [hr.hcks, hr.hname, hr.hprog, hr.hcrc]
    simp [Fs.calcChecksum, hn, hr.hfile, hok]
  have hcall := C13_expiry_success env d tm rc hr.hbusy hr.hmode hr.htm hr.hrc hexp hm
  unfold stateMachine
  generalize (stateMachineWith env none (stateMachineWith env none (throw Err.recursionError))) = rec
  have hcl := hr.hclosure
  cases cl <;> cases hf : env.cfg.indFinished <;>
  msimp [stateMachineWith, hr.hbusy, nonIdleFsm, fsmAdvancementAfterPacketsWereSent, hr.hqueue, hr.hstep,
    fsmFromReceiving, fsmFromWaitingForMetadata, fsmFromCheckLimit, hcall, fsmFromWaitingForMissingData,
    fsmFromTransferCompletion, handleTransferCompletion, noticeOfCompletion, hr.hcancel, hf, getP, emitInd, hr.htid,
    transmissionMode, hr.hmode, hcl, resetInternal, fsmFromSendingFinishedPdu, hr.hready, prepareFinishedPdu, addPacket,
    handleFinishedPduSent, fsmFromWaitingForFinishedAck,
    afterSuccess, hr.hfin]

def limP (p : Params) : Params := { p with fin := { p.fin with cond := ccCheckLimit }, canceled := true }

def limitSt (d : DestSt) (t : Tid) : DestSt :=
  { d with step := .TRANSFER_COMPLETION, p := limP d.p,
           flts := d.flts ++ [⟨fhIgnore, t, ccChecksumFailure, d.p.progress⟩,
                              ⟨fhCancel, t, ccCheckLimit, d.p.progress⟩] }

/-- state after the expiry at which the check limit was reached: the transaction is cancelled with
Check-limit-reached, reported as incomplete, the handler is idle; with the disposition-on-cancellation
switch of the remote configuration the incomplete file is deleted -/
def afterLimit (env : Env) (d : DestSt) (t : Tid) (rc : RemoteCfg) (cl : Bool := false) : DestSt :=
  { d with state := .idle, step := .IDLE, p := {},
           queue := if cl then [mkFin d.p.conf ⟨ccCheckLimit, dcIncomplete,
             if rc.disp then fsDiscardedDeliberately else fsRetained, none⟩] else [],
           numReady := if cl then 1 else 0,
           fs := if rc.disp then (Fs.deleteFile d.fs d.p.fileName).2 else d.fs,
           inds := d.inds ++ (if env.cfg.indFinished
             then [.finished (some t) ⟨ccCheckLimit, dcIncomplete,
               if rc.disp then fsDiscardedDeliberately else fsRetained, none⟩] else []),
           flts := d.flts ++ [⟨fhIgnore, t, ccChecksumFailure, d.p.progress⟩,
                              ⟨fhCancel, t, ccCheckLimit, d.p.progress⟩] }

/-- **The expiry at which the counter reaches the limit, data still missing (whole call)**:
Check-limit-reached is declared, the (default) handler cancels the transaction, the user is told
(condition Check limit reached, Data incomplete), the handler is idle; with closure requested exactly
one Finished PDU with those values is queued -/
theorem C13_expiry_limit_call (env : Env) (d : DestSt) (dst : String) (G crc : List UInt8) (rc : RemoteCfg)
    (t : Tid) (cks : Nat) (tm : Timer) (c : Nat) (cl : Bool) (hr : CheckWait d dst G crc rc t cks tm c cl)
    (hmis : MismatchOf cks G crc) (hexp : tm.timedOut env.now = true) (hlim : c + 1 ≥ rc.chkLim) :
    stateMachine env none d = .ok () (afterLimit env d t rc cl) := by
  obtain ⟨cc, hm⟩ := mismatch_of d dst G crc cks hr.hname hr.hfile hr.hprog hr.hcks hr.hcrc hr.hmo hmis
  have hcall := C13_expiry_limit env d tm rc cc t hr.htm hr.hrc hexp hm hr.htid hr.hbusy hr.hfh1
    (by rw [hr.hcnt]; exact hlim)
  have hcan := C14.C14_dest_cancel
    { d with flts := d.flts ++ [(⟨fhIgnore, t, ccChecksumFailure, d.p.progress⟩ : FaultCb)] } ccCheckLimit t hr.htid
    hr.hfh2 (by simp [C14.Dest.inCancelExchange, hr.hcancel])
  have hboth : checkLimitHandling env d = .ok () (limitSt d t) := by
    rw [hcall]
    show (declareFault ccCheckLimit >>= fun _ => pure ()) _ = _
    simp only [bind, EStateM.bind, hcan]
    simp [limitSt, limP, pure, EStateM.pure]
  unfold stateMachine
  generalize (stateMachineWith env none (stateMachineWith env none (throw Err.recursionError))) = rec
  have hcl := hr.hclosure
  cases cl <;> cases hf : env.cfg.indFinished <;> cases hd : rc.disp <;>
  msimp [stateMachineWith, hr.hbusy, nonIdleFsm, fsmAdvancementAfterPacketsWereSent, hr.hqueue, hr.hstep,
    fsmFromReceiving, fsmFromWaitingForMetadata, fsmFromCheckLimit, hboth, limitSt, limP, fsmFromWaitingForMissingData,
    fsmFromTransferCompletion, handleTransferCompletion, noticeOfCompletion, hr.hrc, hd, hf, getP, emitInd, hr.htid,
    transmissionMode, hr.hmode, hcl, resetInternal, fsmFromSendingFinishedPdu, hr.hready, prepareFinishedPdu, addPacket,
    handleFinishedPduSent, fsmFromWaitingForFinishedAck,
    afterLimit, hr.hfin, dcIncomplete, hr.hname]

/-! ### the run up to the EOF: one File Data PDU is late -/

/-- state after a File Data PDU behind a gap (unacknowledged mode: no bookkeeping, a zero-filled hole) -/
def afterGapU (d : DestSt) (dst : String) (F : List UInt8) (a b m n : Nat) (env : Env) (t : Tid) : DestSt :=
  { d with fs := d.fs.set dst (.file (C03.holeFile F a b m)),
           p := { d.p with progress := m },
           inds := d.inds ++ (if env.cfg.indSegRecv then [.segRecv (some t) b n] else []) }

/-- **The tile after a missing one (unacknowledged mode)** is stored behind a zero-filled hole -/
theorem C13_gap_tile_unack (env : Env) (d : DestSt) (dst : String) (F : List UInt8) (a b n : Nat) (rc : RemoteCfg)
    (t : Tid) (cks : Nat) (h : Hdr) (cl : Bool) (hr : Receiving d dst (F.take a) rc t cks cl) (ha : Admissible env rc h)
    (hab : a < b) (hb : b < F.length) (hn : 0 < n) :
    stateMachine env (some (.fd h b ((F.drop b).take n))) d =
      .ok () (afterGapU d dst F a b (min (b + n) F.length) (min n (F.length - b)) env t) ∧
    Receiving (afterGapU d dst F a b (min (b + n) F.length) (min n (F.length - b)) env t) dst
      (C03.holeFile F a b (min (b + n) F.length)) rc t cks cl := by
  have hla : (F.take a).length = a := by simp [List.length_take]; omega
  have hw := C03.write_creates_hole F a b n hab hb hn
  have hdl : ((F.drop b).take n).length = min n (F.length - b) := by simp [List.length_take, List.length_drop]
  have hmin : b + min n (F.length - b) = min (b + n) F.length := by omega
  have hmax : max (b + min n (F.length - b)) a = min (b + n) F.length := by omega
  have hlenH := C03.holeFile_length F a b (min (b + n) F.length) (by omega) (by omega) (Nat.min_le_right _ _)
  constructor
  · cases hi : env.cfg.indSegRecv <;>
    msimp [stateMachine, stateMachineWith, checkInsertedPacket, Pdu.hdr, ha.hdir, ha.hdst, ha.hsrc, Pdu.kind,
      Route.getPacketDestination, hr.hbusy, transmissionMode, hr.hmode, nonIdleFsm,
      fsmAdvancementAfterPacketsWereSent, hr.hqueue, hr.hstep, fsmFromReceiving, handleFdOrEofPdu, handleFdPdu,
      fdIndication, hi, getP, emitInd, hr.htid, fdLostSegments, fdWrite, vfsWriteData, hr.hrej, hr.hname,
      Fs.writeData, hr.hfile, hw, hdl, fdAfterWrite, sizeErrOf, modP, hr.hnoEof, hr.hprog, hla, hmax, hmin,
      fsmFromWaitingForMetadata,
      fsmFromCheckLimit, fsmFromWaitingForMissingData, fsmFromTransferCompletion, fsmFromSendingFinishedPdu,
      fsmFromWaitingForFinishedAck, afterGapU, hr.hfin] <;> omega
  · exact { hbusy := hr.hbusy, hstep := hr.hstep, hready := hr.hready, hqueue := hr.hqueue, hmode := hr.hmode,
            hname := hr.hname, hfile := by simp [afterGapU, Fs.C17.get_set_same],
            hprog := by simp [afterGapU, hlenH], hnoEof := hr.hnoEof, hrc := hr.hrc, htid := hr.htid,
            hrej := hr.hrej, hcks := hr.hcks, hclosure := hr.hclosure, hcancel := hr.hcancel, hmo := hr.hmo,
            hflts := hr.hflts, hfin := hr.hfin }

theorem holeFile_append (F : List UInt8) (a b m n : Nat) (hab : a ≤ b) (hbm : b ≤ m) (hm : m < F.length) (hn : 0 < n) :
    C03.holeFile F a b m ++ (F.drop m).take n = C03.holeFile F a b (min (m + n) F.length) := by
  have hlen := C03.holeFile_length F a b m hab hbm (by omega)
  have hw := C03.write_extends_hole F a b m n hab hbm hm hn
  have hne : ((F.drop m).take n).isEmpty = false := by
    cases h : (F.drop m).take n with
    | nil =>
      have := congrArg List.length h
      simp [List.length_take, List.length_drop] at this; omega
    | cons _ _ => rfl
  rw [← hw]
  have h1 : (C03.holeFile F a b m).take m = C03.holeFile F a b m := List.take_of_length_le (by omega)
  have h2 : (C03.holeFile F a b m).drop (m + ((F.drop m).take n).length) = [] :=
    List.drop_of_length_le (by omega)
  simp only [Fs.writeBytes, hne, hlen, Nat.lt_irrefl, gt_iff_lt, ite_false, Bool.false_eq_true, h1, h2,
    List.append_nil]

/-- the tiles behind the hole, unacknowledged mode: `k` of them in order -/
theorem C13_tiles_behind_hole_unack (env : Env) (h : Hdr) (rc : RemoteCfg) (t : Tid) (cks : Nat) (dst : String)
    (cl : Bool) (F : List UInt8) (a b seg : Nat) (hab : a < b) (hseg : 0 < seg) (ha : Admissible env rc h) :
    ∀ (k m : Nat) (d : DestSt), b ≤ m → m ≤ F.length → (k = 0 ∨ m + (k - 1) * seg < F.length) →
      Receiving d dst (C03.holeFile F a b m) rc t cks cl →
      ∃ d', C03.feedSeg env h F seg k m d = some d' ∧
        Receiving d' dst (C03.holeFile F a b (min (m + k * seg) F.length)) rc t cks cl ∧
        (∀ q, q ≠ dst → d'.fs.get q = d.fs.get q) ∧
        d'.inds.filter isFinished = d.inds.filter isFinished ∧ d'.faults = d.faults ∧ d'.p.conf = d.p.conf := by
  intro k
  induction k with
  | zero =>
    intro m d hbm hm _ hr
    exact ⟨d, rfl, by simpa [Nat.min_eq_left hm] using hr, fun _ _ => rfl, rfl, rfl, rfl⟩
  | succ k ih =>
    intro m d hbm hmle hk hr
    have hmlt : m < F.length := by
      rcases hk with h0 | h0
      · omega
      · have : m ≤ m + (k + 1 - 1) * seg := Nat.le_add_right _ _
        omega
    have hlen := C03.holeFile_length F a b m (by omega) hbm hmle
    have hdata : (F.drop m).take seg ≠ [] := by
      intro h0
      have := congrArg List.length h0
      simp [List.length_take, List.length_drop] at this; omega
    obtain ⟨hcall, hr'⟩ := C02_tile env d dst (C03.holeFile F a b m) ((F.drop m).take seg) rc t cks h cl hr ha hdata
    rw [hlen] at hcall
    rw [holeFile_append F a b m seg (by omega) hbm hmlt hseg] at hr'
    have hk' : k = 0 ∨ min (m + seg) F.length + (k - 1) * seg < F.length := by
      by_cases h0 : k = 0
      · exact Or.inl h0
      · right
        have h1 := hk.resolve_left (by omega)
        simp only [Nat.add_sub_cancel] at h1
        have h2 : k = (k - 1) + 1 := by omega
        rw [h2, Nat.add_mul, Nat.one_mul] at h1
        have : min (m + seg) F.length ≤ m + seg := Nat.min_le_left _ _
        omega
    obtain ⟨d', hf, hR, hother, hfin, hfa, hcf⟩ := ih (min (m + seg) F.length) _ (by omega) (Nat.min_le_right _ _) hk' hr'
    refine ⟨d', ?_, ?_, ?_, ?_, ?_, ?_⟩
    · simp only [C03.feedSeg, hcall]; exact hf
    · have : min (min (m + seg) F.length + k * seg) F.length = min (m + (k + 1) * seg) F.length := by
        rw [Nat.add_mul, Nat.one_mul]; omega
      rw [← this]; exact hR
    · intro q hq
      rw [hother q hq]
      simp [afterTile, Fs.C17.get_set_other _ _ _ _ hq]
    · rw [hfin]
      simp only [afterTile]
      split <;> simp [isFinished]
    · rw [hfa]; rfl
    · rw [hcf]; rfl

theorem feed_keeps_faults (env : Env) (h : Hdr) (rc : RemoteCfg) (t : Tid) (cks : Nat) (dst : String) (cl : Bool)
    (ha : Admissible env rc h) :
    ∀ (cs : List (List UInt8)) (P : List UInt8) (d d' : DestSt), (∀ c ∈ cs, c ≠ []) →
      Receiving d dst P rc t cks cl → feed env h cs P.length d = some d' → d'.faults = d.faults := by
  intro cs
  induction cs with
  | nil => intro P d d' _ _ hf; simp [feed] at hf; rw [hf]
  | cons c cs ih =>
    intro P d d' hne hr hf
    have hc : c ≠ [] := hne c (by simp)
    obtain ⟨hcall, hr'⟩ := C02_tile env d dst P c rc t cks h cl hr ha hc
    simp only [feed, hcall] at hf
    have := ih (P ++ c) _ d' (fun x hx => hne x (by simp [hx])) hr' (by simpa using hf)
    rw [this]; rfl

/-- **The run up to the EOF with one File Data PDU missing** (unacknowledged mode, closure flag `cl`): the
receiver ends in the check-limit procedure with the timer started at the EOF call, counter 0, one
(ignored) checksum failure reported, no Transaction-Finished indication -/
theorem C13_run_to_wait (env : Env) (d0 : DestSt) (h : Hdr) (rc : RemoteCfg) (cks : Nat) (cl : Bool)
    (sname dname : String) (msgs : Option (List Msg)) (F crc : List UInt8)
    (cs1 : List (List UInt8)) (a b seg k : Nat)
    (ha : Admissible env rc h) (hchk : env.cfg.chkMs ≠ 0)
    (hidle : d0.state = .idle) (hq : d0.queue = []) (hr : d0.numReady = 0) (hrej : d0.rejects = [])
    (hfl : d0.flts = []) (hnd : Fs.isDir d0.fs dname = false)
    (hok : (∃ old, d0.fs.get dname = some (.file old)) ∨
           (Fs.exists' d0.fs dname = false ∧ Fs.parentIsDir d0.fs dname = true))
    (hfh1 : d0.faults.lookup ccChecksumFailure = some fhIgnore) (hfh2 : d0.faults.lookup ccCheckLimit = some fhCancel)
    (hcs1 : cs1.flatten = F.take a) (hne1 : ∀ c ∈ cs1, c ≠ [])
    (hseg : 0 < seg) (hb : b = a + seg) (hbF : b < F.length)
    (hk : min (b + seg) F.length + (k - 1) * seg < F.length ∨ k = 0)
    (hkend : F.length ≤ min (b + seg) F.length + k * seg)
    (hmis : MismatchOf cks (C03.holeFile F a b F.length) crc) :
    ∃ d1 d2 d3 d4 d5,
      stateMachine env (some (.md h cl cks F.length (some sname) (some dname) msgs)) d0 = .ok () d1 ∧
      feed env h cs1 0 d1 = some d2 ∧
      stateMachine env (some (.fd h b ((F.drop b).take seg))) d2 = .ok () d3 ∧
      C03.feedSeg env h F seg k (min (b + seg) F.length) d3 = some d4 ∧
      stateMachine env (some (.eof h ccNoError crc F.length none)) d4 = .ok () d5 ∧
      CheckWait d5 dname (C03.holeFile F a b F.length) crc rc ⟨h.src, h.seq⟩ cks ⟨env.now, env.cfg.chkMs⟩ 0 cl ∧
      (∀ q, q ≠ dname → d5.fs.get q = d0.fs.get q) ∧
      d5.inds.filter isFinished = d0.inds.filter isFinished ∧
      d5.flts = [⟨fhIgnore, ⟨h.src, h.seq⟩, ccChecksumFailure, F.length⟩] ∧
      d5.p.conf = ⟨.toSend, h.mode, h.crc, h.large, h.src, h.dst, h.seq⟩ := by
  have hab : a < b := by omega
  obtain ⟨hmd, hR1⟩ := C02_metadata env d0 h rc cks F.length sname dname msgs cl ha hidle hq hr hrej hfl hnd hok
  obtain ⟨d2, hfeed, hR2, hother2, hq2, hfl2, hfin2, hcf2⟩ := C02_tiles env h rc _ cks dname cl ha cs1 [] _ hne1 hR1
  have hfa2 := feed_keeps_faults env h rc _ cks dname cl ha cs1 [] _ d2 hne1 hR1 hfeed
  simp only [List.nil_append, hcs1, List.length_nil] at hfeed hR2
  obtain ⟨hgap, hR3⟩ := C13_gap_tile_unack env d2 dname F a b seg rc _ cks h cl hR2 ha hab hbF hseg
  obtain ⟨d4, hfs, hR4, hother4, hfin4, hfa4, hcf4⟩ := C13_tiles_behind_hole_unack env h rc _ cks dname cl F a b seg hab
    hseg ha k (min (b + seg) F.length) _ (by omega) (Nat.min_le_right _ _)
    (by rcases hk with h1 | h1; exact Or.inr h1; exact Or.inl h1) hR3
  have hend : min (min (b + seg) F.length + k * seg) F.length = F.length := by omega
  rw [hend] at hR4
  have hlenG := C03.holeFile_length F a b F.length (by omega) (by omega) (Nat.le_refl _)
  have hfa : d4.faults = d0.faults := by
    rw [hfa4]; show d2.faults = d0.faults
    rw [hfa2]; rfl
  obtain ⟨heof, hW⟩ := C13_eof_call_waits env d4 dname (C03.holeFile F a b F.length) crc rc _ cks h cl hR4 ha hmis hchk
    (by rw [hfa]; exact hfh1) (by rw [hfa]; exact hfh2)
  rw [hlenG] at heof hW
  refine ⟨_, d2, _, d4, _, hmd, hfeed, hgap, hfs, heof, hW, ?_, ?_, ?_, ?_⟩
  · intro q hq'
    simp only [afterEofWait]
    rw [hother4 q hq']
    simp only [afterGapU]
    rw [Fs.C17.get_set_other _ _ _ _ hq', hother2 q hq']
    simp [afterMd, Fs.C17.get_set_other _ _ _ _ hq']
  · simp only [afterEofWait, List.filter_append, hfin4]
    simp only [afterGapU, List.filter_append, hfin2]
    have h1 : (afterMd env d0 h rc cks F.length sname dname msgs cl).inds.filter isFinished =
        d0.inds.filter isFinished := by simp [afterMd, isFinished]
    rw [h1]
    cases env.cfg.indSegRecv <;> cases env.cfg.indEofRecv <;> simp [isFinished]
  · simp [afterEofWait, hR4.hflts, hR4.hprog, hlenG]
  · show d4.p.conf = _
    rw [hcf4]; show d2.p.conf = _
    rw [hcf2]; rfl

/-- **Late data before the limit: the transfer completes (whole run).**  Unacknowledged mode, no
closure.  The EOF overtakes one File Data PDU.  `times` are the expiries of the check timer that pass
while the PDU is still missing (fewer than the check limit); then the PDU arrives while the timer is
running; at the next expiry the verification succeeds: the file is byte-identical, the user gets one
Transaction-Finished (No error, Data complete, File retained), the handler is idle; no Check limit
fault; one (ignored) checksum failure per unsuccessful verification. -/
theorem C13_late_data_completes (env : Env) (d0 : DestSt) (h : Hdr) (rc : RemoteCfg) (cks : Nat) (cl : Bool)
    (sname dname : String) (msgs : Option (List Msg)) (F crc : List UInt8)
    (cs1 : List (List UInt8)) (a b seg k : Nat) (times : List Nat) (tL tS : Nat)
    (ha : Admissible env rc h) (hchk : env.cfg.chkMs ≠ 0)
    (hidle : d0.state = .idle) (hq : d0.queue = []) (hr : d0.numReady = 0) (hrej : d0.rejects = [])
    (hfl : d0.flts = []) (hnd : Fs.isDir d0.fs dname = false)
    (hok : (∃ old, d0.fs.get dname = some (.file old)) ∨
           (Fs.exists' d0.fs dname = false ∧ Fs.parentIsDir d0.fs dname = true))
    (hfh1 : d0.faults.lookup ccChecksumFailure = some fhIgnore) (hfh2 : d0.faults.lookup ccCheckLimit = some fhCancel)
    (hcs1 : cs1.flatten = F.take a) (hne1 : ∀ c ∈ cs1, c ≠ [])
    (hseg : 0 < seg) (hb : b = a + seg) (hbF : b < F.length)
    (hk : min (b + seg) F.length + (k - 1) * seg < F.length ∨ k = 0)
    (hkend : F.length ≤ min (b + seg) F.length + k * seg)
    (hnull : cks ≠ 15) (hcrc : Checksum.calcChecksum (Checksum.CksType.ofNat cks) F F.length 4096 = .ok crc)
    (hmis : MismatchOf cks (C03.holeFile F a b F.length) crc)
    (hexp : C04.Expiring env.cfg.chkMs env.now times) (hlim : times.length < rc.chkLim)
    (hrun : tL - C04.lastOr env.now times < env.cfg.chkMs) (hS : tS - C04.lastOr env.now times ≥ env.cfg.chkMs) :
    ∃ d5 d6 d7 d8,
      (∃ d1 d2 d3 d4,
        stateMachine env (some (.md h cl cks F.length (some sname) (some dname) msgs)) d0 = .ok () d1 ∧
        feed env h cs1 0 d1 = some d2 ∧
        stateMachine env (some (.fd h b ((F.drop b).take seg))) d2 = .ok () d3 ∧
        C03.feedSeg env h F seg k (min (b + seg) F.length) d3 = some d4 ∧
        stateMachine env (some (.eof h ccNoError crc F.length none)) d4 = .ok () d5) ∧
      d5.inds.filter isFinished = d0.inds.filter isFinished ∧ d5.state = .busy ∧
      checkRounds env.cfg times d5 = some d6 ∧
      stateMachine ⟨env.cfg, tL⟩ (some (.fd h a ((F.drop a).take (b - a)))) d6 = .ok () d7 ∧
      stateMachine ⟨env.cfg, tS⟩ none d7 = .ok () d8 ∧
      d8.state = .idle ∧
      d8.queue = (if cl then [mkFin ⟨.toSend, h.mode, h.crc, h.large, h.src, h.dst, h.seq⟩
        ⟨ccNoError, dcComplete, fsRetained, none⟩] else []) ∧
      d8.fs.get dname = some (.file F) ∧ (∀ q, q ≠ dname → d8.fs.get q = d0.fs.get q) ∧
      d8.inds.filter isFinished = d0.inds.filter isFinished ++
        (if env.cfg.indFinished
          then [.finished (some ⟨h.src, h.seq⟩) ⟨ccNoError, dcComplete, fsRetained, none⟩] else []) ∧
      d8.flts = List.replicate (times.length + 1) ⟨fhIgnore, ⟨h.src, h.seq⟩, ccChecksumFailure, F.length⟩ := by
  obtain ⟨d1, d2, d3, d4, d5, hmd, hfeed, hgap, hfs, heof, hW, hother5, hin5, hfl5, hconf5⟩ :=
    C13_run_to_wait env d0 h rc cks cl sname dname msgs F crc cs1 a b seg k ha hchk hidle hq hr hrej hfl hnd hok hfh1 hfh2
      hcs1 hne1 hseg hb hbF hk hkend hmis
  have hlenG := C03.holeFile_length F a b F.length (by omega) (by omega) (Nat.le_refl _)
  obtain ⟨d6, hrounds, hW6, hfs6, hin6, hfl6, hcf6⟩ := C13_expiries_below_limit env.cfg dname (C03.holeFile F a b F.length)
    crc rc ⟨h.src, h.seq⟩ cks cl hmis times d5 ⟨env.now, env.cfg.chkMs⟩ 0 hW hexp (by omega)
  obtain ⟨hlate, hW7⟩ := C13_late_tile_call ⟨env.cfg, tL⟩ d6 dname F crc a b rc ⟨h.src, h.seq⟩ cks _ _ h cl hW6
    ⟨ha.hdir, ha.hdst, ha.hsrc, ha.hmode⟩ (by omega) (by omega)
    (by simp [Timer.timedOut]; exact hrun)
  have hsucc := C13_expiry_success_call ⟨env.cfg, tS⟩ _ dname F crc rc ⟨h.src, h.seq⟩ cks _ _ cl hW7
    (by simp [Timer.timedOut]; exact hS) hnull hcrc
  refine ⟨d5, d6, _, _, ⟨d1, d2, d3, d4, hmd, hfeed, hgap, hfs, heof⟩, hin5, hW.hbusy, hrounds, hlate, hsucc, rfl,
    ?_, ?_, ?_, ?_, ?_⟩
  · have hcf : d6.p.conf = ⟨.toSend, h.mode, h.crc, h.large, h.src, h.dst, h.seq⟩ := by rw [hcf6]; exact hconf5
    cases cl <;> simp [afterSuccess, afterLate, fillP, hcf]
  · simp [afterSuccess, afterLate, Fs.C17.get_set_same]
  · intro q hq'
    simp only [afterSuccess, afterLate]
    rw [Fs.C17.get_set_other _ _ _ _ hq', hfs6, hother5 q hq']
  · simp only [afterSuccess, afterLate, List.filter_append, hin6, hin5]
    cases env.cfg.indSegRecv <;> cases env.cfg.indFinished <;> simp [isFinished]
  · simp only [afterSuccess, afterLate, hfl6, hfl5, hlenG]
    rw [List.replicate_succ]; simp

/-- **The data never arrives: Check limit reached exactly at the limit-th expiry (whole run).**  The
first `limit − 1` expiries (`times`) only count; the limit-th (`tX`) declares Check limit reached,
the default handler cancels the transaction, the user is told (condition Check limit reached, Data
incomplete), the handler is idle.  No Transaction-Finished indication before that; one (ignored)
checksum failure per unsuccessful verification (the EOF call and each of the `limit` expiries). -/
theorem C13_never_arrives_limit (env : Env) (d0 : DestSt) (h : Hdr) (rc : RemoteCfg) (cks : Nat) (cl : Bool)
    (sname dname : String) (msgs : Option (List Msg)) (F crc : List UInt8)
    (cs1 : List (List UInt8)) (a b seg k : Nat) (times : List Nat) (tX : Nat)
    (ha : Admissible env rc h) (hchk : env.cfg.chkMs ≠ 0)
    (hidle : d0.state = .idle) (hq : d0.queue = []) (hr : d0.numReady = 0) (hrej : d0.rejects = [])
    (hfl : d0.flts = []) (hnd : Fs.isDir d0.fs dname = false)
    (hok : (∃ old, d0.fs.get dname = some (.file old)) ∨
           (Fs.exists' d0.fs dname = false ∧ Fs.parentIsDir d0.fs dname = true))
    (hfh1 : d0.faults.lookup ccChecksumFailure = some fhIgnore) (hfh2 : d0.faults.lookup ccCheckLimit = some fhCancel)
    (hcs1 : cs1.flatten = F.take a) (hne1 : ∀ c ∈ cs1, c ≠ [])
    (hseg : 0 < seg) (hb : b = a + seg) (hbF : b < F.length)
    (hk : min (b + seg) F.length + (k - 1) * seg < F.length ∨ k = 0)
    (hkend : F.length ≤ min (b + seg) F.length + k * seg)
    (hmis : MismatchOf cks (C03.holeFile F a b F.length) crc)
    (hexp : C04.Expiring env.cfg.chkMs env.now times) (hlim : times.length + 1 = rc.chkLim)
    (hX : tX - C04.lastOr env.now times ≥ env.cfg.chkMs) :
    ∃ d5 d6 d8,
      (∃ d1 d2 d3 d4,
        stateMachine env (some (.md h cl cks F.length (some sname) (some dname) msgs)) d0 = .ok () d1 ∧
        feed env h cs1 0 d1 = some d2 ∧
        stateMachine env (some (.fd h b ((F.drop b).take seg))) d2 = .ok () d3 ∧
        C03.feedSeg env h F seg k (min (b + seg) F.length) d3 = some d4 ∧
        stateMachine env (some (.eof h ccNoError crc F.length none)) d4 = .ok () d5) ∧
      checkRounds env.cfg times d5 = some d6 ∧
      d6.state = .busy ∧ d6.inds.filter isFinished = d0.inds.filter isFinished ∧
      stateMachine ⟨env.cfg, tX⟩ none d6 = .ok () d8 ∧
      d8.state = .idle ∧
      d8.queue = (if cl then [mkFin ⟨.toSend, h.mode, h.crc, h.large, h.src, h.dst, h.seq⟩ ⟨ccCheckLimit, dcIncomplete,
        if rc.disp then fsDiscardedDeliberately else fsRetained, none⟩] else []) ∧
      d8.inds.filter isFinished = d0.inds.filter isFinished ++
        (if env.cfg.indFinished
          then [.finished (some ⟨h.src, h.seq⟩) ⟨ccCheckLimit, dcIncomplete,
            if rc.disp then fsDiscardedDeliberately else fsRetained, none⟩] else []) ∧
      d8.flts = List.replicate (rc.chkLim + 1) ⟨fhIgnore, ⟨h.src, h.seq⟩, ccChecksumFailure, F.length⟩ ++
        [⟨fhCancel, ⟨h.src, h.seq⟩, ccCheckLimit, F.length⟩] := by
  obtain ⟨d1, d2, d3, d4, d5, hmd, hfeed, hgap, hfs, heof, hW, hother5, hin5, hfl5, hconf5⟩ :=
    C13_run_to_wait env d0 h rc cks cl sname dname msgs F crc cs1 a b seg k ha hchk hidle hq hr hrej hfl hnd hok hfh1 hfh2
      hcs1 hne1 hseg hb hbF hk hkend hmis
  have hlenG := C03.holeFile_length F a b F.length (by omega) (by omega) (Nat.le_refl _)
  obtain ⟨d6, hrounds, hW6, hfs6, hin6, hfl6, hcf6⟩ := C13_expiries_below_limit env.cfg dname (C03.holeFile F a b F.length)
    crc rc ⟨h.src, h.seq⟩ cks cl hmis times d5 ⟨env.now, env.cfg.chkMs⟩ 0 hW hexp (by omega)
  have hlimit := C13_expiry_limit_call ⟨env.cfg, tX⟩ d6 dname _ crc rc ⟨h.src, h.seq⟩ cks _ _ cl hW6 hmis
    (by simp [Timer.timedOut]; exact hX) (by omega)
  refine ⟨d5, d6, _, ⟨d1, d2, d3, d4, hmd, hfeed, hgap, hfs, heof⟩, hrounds, hW6.hbusy, ?_, hlimit, rfl, ?_,
    ?_, ?_⟩
  · rw [hin6]; exact hin5
  · have hcf : d6.p.conf = ⟨.toSend, h.mode, h.crc, h.large, h.src, h.dst, h.seq⟩ := by rw [hcf6]; exact hconf5
    cases cl <;> simp [afterLimit, hcf]
  · simp only [afterLimit, List.filter_append, hin6, hin5]
    cases env.cfg.indFinished <;> simp [isFinished]
  · simp only [afterLimit, hfl6, hfl5, hW6.hprog, hlenG, ← hlim]
    rw [List.replicate_succ, List.replicate_succ']
    simp



section AnyPattern
open Cfdp.C06 Cfdp.C03

/-! ## Any arrival pattern in unacknowledged mode: the EOF overtakes any of the File Data PDUs -/

/-- length and content of the file after a tile was written (no tracker involved) -/
theorem file_after_tile_u {F c : List UInt8} {seg a b : Nat} {h : List (Nat × Nat)} (hs : 0 < seg)
    (hT : Tile seg F.length a b) (hcov : ∀ x, covered h x → c[x]? = F[x]?) (hh : ∀ q ∈ h, q.2 ≤ F.length) :
    (Fs.writeBytes c (tileData F a b) a).length = max c.length b ∧
    ∀ x, covered (h ++ [(a, b)]) x → (Fs.writeBytes c (tileData F a b) a)[x]? = F[x]? := by
  have hab := hT.lt hs
  have hbs := hT.le_size
  have hdl := tileData_length hT
  have hne : tileData F a b ≠ [] := by
    intro hc; rw [hc] at hdl; simp at hdl; omega
  constructor
  · have hemp : (tileData F a b).isEmpty = false := by cases h0 : tileData F a b <;> simp_all
    simp only [Fs.writeBytes, hemp]
    by_cases hgt : a > c.length
    · simp [hgt, hdl]; omega
    · simp [hgt, hdl]; omega
  · intro x hx
    rw [covered_append] at hx
    rw [Fs.C17.write_get c _ a x hne, hdl]
    by_cases hin : a ≤ x ∧ x < b
    · have h1 : ¬ x < a := by omega
      have h2 : x < a + (b - a) := by omega
      simp only [h1, h2, if_false, if_true]
      rw [tileData_get hT (x - a) (by omega)]
      congr 1; omega
    · have hc : covered h x := hx.resolve_right hin
      have hcx := hcov x hc
      obtain ⟨q, hq, q1, q2⟩ := hc
      have hxF : x < F.length := by have := hh q hq; omega
      have hxl : x < c.length := by
        rw [List.getElem?_eq_getElem hxF] at hcx
        by_contra hn
        rw [List.getElem?_eq_none (by omega)] at hcx
        cases hcx
      by_cases h1 : x < a
      · simp only [h1, if_true, Fs.C17.padded_get, hxl]
        exact hcx
      · have h2 : ¬ x < a + (b - a) := by omega
        simp only [h1, h2, if_false, Fs.C17.padded_get, hxl, if_true]
        exact hcx

/-- receiver in the middle of an unacknowledged transfer after the File Data PDUs of the history `h` -/
structure RecvU (d : DestSt) (dst : String) (F c : List UInt8) (h : List (Nat × Nat)) (rc : RemoteCfg)
    (t : Tid) (cks : Nat) (cl : Bool) : Prop where
  hbusy : d.state = .busy
  hstep : d.step = .RECEIVING_FILE_DATA
  hready : d.numReady = 0
  hqueue : d.queue = []
  hmode : d.p.conf.mode = .unack
  hname : d.p.fileName = dst
  hfile : d.fs.get dst = some (.file c)
  hlen : c.length = d.p.progress
  hle : c.length ≤ F.length
  hcov : ∀ x, covered h x → c[x]? = F[x]?
  hin : ∀ q ∈ h, q.2 ≤ F.length
  hnoEof : d.p.fileSizeEof = none
  hrc : d.p.remoteCfg = some rc
  htid : d.p.tid = some t
  hrej : d.rejects = []
  hcks : d.p.cksType = cks
  hclosure : d.p.closure = cl
  hcancel : d.p.canceled = false
  hmo : d.p.metadataOnly = false
  hflts : d.flts = []
  hfin : d.p.fin = ⟨ccNoError, dcIncomplete, fsRetained, none⟩

theorem RecvU.ofReceiving {d : DestSt} {dst : String} {F : List UInt8} {rc : RemoteCfg} {t : Tid} {cks : Nat}
    {cl : Bool} (hr : Receiving d dst [] rc t cks cl) : RecvU d dst F [] [] rc t cks cl :=
  { hbusy := hr.hbusy, hstep := hr.hstep, hready := hr.hready, hqueue := hr.hqueue, hmode := hr.hmode,
    hname := hr.hname, hfile := hr.hfile, hlen := by rw [hr.hprog], hle := by simp,
    hcov := fun x hx => by obtain ⟨q, hq, _⟩ := hx; simp at hq,
    hin := fun q hq => by simp at hq,
    hnoEof := hr.hnoEof, hrc := hr.hrc, htid := hr.htid, hrej := hr.hrej, hcks := hr.hcks, hclosure := hr.hclosure,
    hcancel := hr.hcancel, hmo := hr.hmo, hflts := hr.hflts, hfin := hr.hfin }

/-- state after a tile (unacknowledged mode, any position) -/
def afterTileU (d : DestSt) (dst : String) (c data : List UInt8) (a b : Nat) (env : Env) (t : Tid) : DestSt :=
  { d with fs := d.fs.set dst (.file (Fs.writeBytes c data a)),
           p := { d.p with progress := max b d.p.progress },
           inds := d.inds ++ (if env.cfg.indSegRecv then [.segRecv (some t) a (b - a)] else []) }

/-- **One File Data PDU, any position (unacknowledged mode)** -/
theorem C13_tile_any (env : Env) (d : DestSt) (dst : String) (F c : List UInt8) (seg : Nat)
    (h : List (Nat × Nat)) (rc : RemoteCfg) (t : Tid) (cks : Nat) (cl : Bool) (hd : Hdr) (a b : Nat)
    (hs : 0 < seg) (hr : RecvU d dst F c h rc t cks cl) (ha : Admissible env rc hd)
    (hT : Tile seg F.length a b) :
    stateMachine env (some (.fd hd a (tileData F a b))) d =
      .ok () (afterTileU d dst c (tileData F a b) a b env t) ∧
    RecvU (afterTileU d dst c (tileData F a b) a b env t) dst F (Fs.writeBytes c (tileData F a b) a)
      (h ++ [(a, b)]) rc t cks cl := by
  have hab := hT.lt hs
  have hbs := hT.le_size
  have hdl := tileData_length hT
  have hsum : a + (b - a) = b := by omega
  obtain ⟨hflen, hfcov⟩ := file_after_tile_u hs hT hr.hcov hr.hin
  have hfin' : d.p.fin.fstat = fsRetained := by rw [hr.hfin]
  constructor
  · cases hi : env.cfg.indSegRecv <;>
    msimp [stateMachine, stateMachineWith, checkInsertedPacket, Pdu.hdr, ha.hdir, ha.hdst, ha.hsrc, Pdu.kind,
      Route.getPacketDestination, hr.hbusy, transmissionMode, hr.hmode, nonIdleFsm,
      fsmAdvancementAfterPacketsWereSent, hr.hqueue, hr.hstep, fsmFromReceiving, handleFdOrEofPdu, handleFdPdu,
      fdIndication, hi, getP, emitInd, hr.htid, fdLostSegments, fdWrite, vfsWriteData, hr.hrej, hr.hname,
      Fs.writeData, hr.hfile, hdl, hsum, fdAfterWrite, sizeErrOf, modP, hr.hnoEof, fsmFromWaitingForMetadata,
      fsmFromCheckLimit, fsmFromWaitingForMissingData, fsmFromTransferCompletion, fsmFromSendingFinishedPdu,
      fsmFromWaitingForFinishedAck, afterTileU, hr.hfin]
  · exact
      { hbusy := hr.hbusy, hstep := hr.hstep, hready := hr.hready, hqueue := hr.hqueue, hmode := hr.hmode,
        hname := hr.hname, hfile := by simp [afterTileU, Fs.C17.get_set_same],
        hlen := by
          show (Fs.writeBytes c (tileData F a b) a).length = max b d.p.progress
          rw [hflen, hr.hlen]; omega,
        hle := by rw [hflen]; have := hr.hle; omega,
        hcov := hfcov,
        hin := by
          intro q hq; simp at hq
          rcases hq with hq | hq
          · exact hr.hin q hq
          · subst hq; exact hbs,
        hnoEof := hr.hnoEof, hrc := hr.hrc, htid := hr.htid, hrej := hr.hrej, hcks := hr.hcks,
        hclosure := hr.hclosure, hcancel := hr.hcancel, hmo := hr.hmo, hflts := hr.hflts, hfin := hr.hfin }

/-- the tiles of a history handed to the receiver (unacknowledged mode), one call each -/
def feedU (env : Env) (hd : Hdr) (F : List UInt8) : List (Nat × Nat) → DestSt → Option DestSt
  | [], d => some d
  | q :: rest, d =>
    match stateMachine env (some (.fd hd q.1 (tileData F q.1 q.2))) d with
    | .ok _ d' => feedU env hd F rest d'
    | .error _ _ => none

/-- the file content after the tiles of a history were written in order -/
def contentOf (F : List UInt8) (h : List (Nat × Nat)) (c : List UInt8) : List UInt8 :=
  h.foldl (fun c q => Fs.writeBytes c (tileData F q.1 q.2) q.1) c

theorem C13_receiver_any_history (env : Env) (hd : Hdr) (dst : String) (F : List UInt8) (seg : Nat)
    (rc : RemoteCfg) (t : Tid) (cks : Nat) (cl : Bool) (hs : 0 < seg) (ha : Admissible env rc hd) :
    ∀ (h2 : List (Nat × Nat)) (d : DestSt) (c : List UInt8) (h : List (Nat × Nat)),
      (∀ q ∈ h2, Tile seg F.length q.1 q.2) → RecvU d dst F c h rc t cks cl →
      ∃ d', feedU env hd F h2 d = some d' ∧ RecvU d' dst F (contentOf F h2 c) (h ++ h2) rc t cks cl ∧
        (∀ q, q ≠ dst → d'.fs.get q = d.fs.get q) ∧
        d'.inds.filter isFinished = d.inds.filter isFinished ∧ d'.p.conf = d.p.conf ∧ d'.faults = d.faults := by
  intro h2
  induction h2 with
  | nil => intro d c h _ hr; exact ⟨d, rfl, by simpa [contentOf] using hr, fun _ _ => rfl, rfl, rfl, rfl⟩
  | cons q h2 ih =>
    intro d c h hT hr
    obtain ⟨hcall, hr'⟩ := C13_tile_any env d dst F c seg h rc t cks cl hd q.1 q.2 hs hr ha (hT q List.mem_cons_self)
    obtain ⟨d', hf, hR, hother, hfin, hcf, hft⟩ := ih _ _ _ (fun r hr => hT r (List.mem_cons_of_mem _ hr)) hr'
    refine ⟨d', ?_, ?_, ?_, ?_, ?_, ?_⟩
    · simp only [feedU, hcall]; exact hf
    · simpa [List.append_assoc, contentOf] using hR
    · intro p hp
      rw [hother p hp]
      simp [afterTileU, Fs.C17.get_set_other _ _ _ _ hp]
    · rw [hfin]
      simp only [afterTileU, List.filter_append]
      split <;> simp [isFinished]
    · rw [hcf]; rfl
    · rw [hft]; rfl

/-- receiver waiting in the check-limit procedure after any history: the EOF (size `|F|`) received, stored
content `c` (possibly shorter than the file), check timer `tm`, `n` expiries so far -/
structure CheckWaitG (d : DestSt) (dst : String) (F c crc : List UInt8) (h : List (Nat × Nat)) (rc : RemoteCfg)
    (t : Tid) (cks : Nat) (tm : Timer) (n : Nat) (cl : Bool) : Prop where
  hbusy : d.state = .busy
  hstep : d.step = .RECV_FILE_DATA_WITH_CHECK_LIMIT_HANDLING
  hready : d.numReady = 0
  hqueue : d.queue = []
  hmode : d.p.conf.mode = .unack
  hname : d.p.fileName = dst
  hfile : d.fs.get dst = some (.file c)
  hlen : c.length = d.p.progress
  hle : c.length ≤ F.length
  hcov : ∀ x, covered h x → c[x]? = F[x]?
  hin : ∀ q ∈ h, q.2 ≤ F.length
  hcrc : d.p.crc32 = crc
  hfse : d.p.fileSizeEof = some F.length
  hrc : d.p.remoteCfg = some rc
  htid : d.p.tid = some t
  hrej : d.rejects = []
  hcks : d.p.cksType = cks
  hclosure : d.p.closure = cl
  hcancel : d.p.canceled = false
  hmo : d.p.metadataOnly = false
  hfin : d.p.fin = ⟨ccNoError, dcIncomplete, fsRetained, none⟩
  htm : d.p.checkTimer = some tm
  hcnt : d.p.checkCount = n
  hfh1 : d.faults.lookup ccChecksumFailure = some fhIgnore
  hfh2 : d.faults.lookup ccCheckLimit = some fhCancel

/-- **The EOF overtakes file data, any pattern (whole call)**: the stored content does not have the
EOF's checksum: the transaction is not finished; the check timer starts, the counter is 0, the checksum
failure is reported once (ignored), nothing is queued. -/
theorem C13_eof_waits_any (env : Env) (d : DestSt) (dst : String) (F c crc : List UInt8) (h : List (Nat × Nat))
    (rc : RemoteCfg) (t : Tid) (cks : Nat) (hd : Hdr) (cl : Bool) (hr : RecvU d dst F c h rc t cks cl)
    (ha : Admissible env rc hd) (hmis : MismatchOf cks c crc) (hchk : env.cfg.chkMs ≠ 0)
    (hfh1 : d.faults.lookup ccChecksumFailure = some fhIgnore) (hfh2 : d.faults.lookup ccCheckLimit = some fhCancel) :
    stateMachine env (some (.eof hd ccNoError crc F.length none)) d = .ok () (afterEofWait env d t crc F.length) ∧
    CheckWaitG (afterEofWait env d t crc F.length) dst F c crc h rc t cks ⟨env.now, env.cfg.chkMs⟩ 0 cl := by
  obtain ⟨h1, cc, h2, h3⟩ := hmis
  have hnull : Checksum.CksType.ofNat cks ≠ .null := by
    intro hh
    simp [Checksum.CksType.ofNat] at hh
    split at hh <;> simp_all
  have hc : Fs.calcChecksum d.fs (Checksum.CksType.ofNat cks) dst d.p.progress 4096 = .ok cc := by
    rw [← hr.hlen]
    simp [Fs.calcChecksum, hnull, hr.hfile, h2]
  have hngt : ¬ d.p.progress > F.length := by rw [← hr.hlen]; have := hr.hle; omega
  have hpos : 0 < env.cfg.chkMs := by omega
  constructor
  · cases hi : env.cfg.indEofRecv <;>
    msimp [stateMachine, stateMachineWith, checkInsertedPacket, Pdu.hdr, ha.hdir, ha.hdst, ha.hsrc, Pdu.kind,
      Route.getPacketDestination, hr.hbusy, transmissionMode, hr.hmode, nonIdleFsm,
      fsmAdvancementAfterPacketsWereSent, hr.hqueue, hr.hstep, fsmFromReceiving, handleFdOrEofPdu, handleEofPdu,
      modP, hi, getP, hr.htid, emitInd, handleNoErrorEof, hngt, noErrorEofVerify, checksumVerify,
      hr.hcks, h1, hr.hmo, hr.hname, hc, h3, declareFault, hfh1, fhIgnore, fhCancel, fhAbandon,
      startCheckLimitHandling, assertThat, hr.hrc,
      fsmFromWaitingForMetadata, fsmFromCheckLimit, checkLimitHandling, Timer.timedOut, hchk, hpos,
      fsmFromWaitingForMissingData, fsmFromTransferCompletion,
      fsmFromSendingFinishedPdu, fsmFromWaitingForFinishedAck,
      afterEofWait, waitP, hr.hfin, ccNoError, dtEof]
  · exact
      { hbusy := hr.hbusy, hstep := rfl, hready := hr.hready, hqueue := hr.hqueue, hmode := hr.hmode,
        hname := hr.hname, hfile := hr.hfile, hlen := hr.hlen, hle := hr.hle, hcov := hr.hcov, hin := hr.hin,
        hcrc := rfl, hfse := rfl, hrc := hr.hrc,
        htid := hr.htid, hrej := hr.hrej, hcks := hr.hcks, hclosure := hr.hclosure, hcancel := hr.hcancel,
        hmo := hr.hmo, hfin := hr.hfin, htm := rfl, hcnt := rfl, hfh1 := hfh1, hfh2 := hfh2 }

/-- **An expiry below the limit, the content still not matching (whole call, any pattern)** -/
theorem C13_expiry_retry_any (env : Env) (d : DestSt) (dst : String) (F c crc : List UInt8) (h : List (Nat × Nat))
    (rc : RemoteCfg) (t : Tid) (cks : Nat) (tm : Timer) (n : Nat) (cl : Bool)
    (hr : CheckWaitG d dst F c crc h rc t cks tm n cl)
    (hmis : MismatchOf cks c crc) (hexp : tm.timedOut env.now = true) (hlim : n + 1 < rc.chkLim) :
    stateMachine env none d = .ok () (afterRetry d env.now tm t) ∧
    CheckWaitG (afterRetry d env.now tm t) dst F c crc h rc t cks ⟨env.now, tm.timeout⟩ (n + 1) cl := by
  obtain ⟨cc, hm⟩ := mismatch_of d dst c crc cks hr.hname hr.hfile hr.hlen.symm hr.hcks hr.hcrc hr.hmo hmis
  have hcall := C13_expiry_retry env d tm rc cc t hr.htm hr.hrc hexp hm hr.htid hr.hbusy hr.hfh1
    (by rw [hr.hcnt]; exact hlim)
  constructor
  · unfold stateMachine
    generalize (stateMachineWith env none (stateMachineWith env none (throw Err.recursionError))) = rec
    msimp [stateMachineWith, hr.hbusy, nonIdleFsm, fsmAdvancementAfterPacketsWereSent, hr.hqueue, hr.hstep,
      fsmFromReceiving, fsmFromWaitingForMetadata, fsmFromCheckLimit, hcall, fsmFromWaitingForMissingData,
      fsmFromTransferCompletion, fsmFromSendingFinishedPdu, fsmFromWaitingForFinishedAck, afterRetry, retryP]
  · exact
      { hbusy := hr.hbusy, hstep := hr.hstep, hready := hr.hready, hqueue := hr.hqueue, hmode := hr.hmode,
        hname := hr.hname, hfile := hr.hfile, hlen := hr.hlen, hle := hr.hle, hcov := hr.hcov, hin := hr.hin,
        hcrc := hr.hcrc, hfse := hr.hfse, hrc := hr.hrc,
        htid := hr.htid, hrej := hr.hrej, hcks := hr.hcks, hclosure := hr.hclosure, hcancel := hr.hcancel,
        hmo := hr.hmo, hfin := hr.hfin, htm := rfl, hcnt := by simp [afterRetry, retryP, hr.hcnt],
        hfh1 := hr.hfh1, hfh2 := hr.hfh2 }

/-- **Any number of expiries below the check limit, nothing new arriving (any pattern)** -/
theorem C13_expiries_below_limit_any (cfg : LocalCfg) (dst : String) (F c crc : List UInt8) (h : List (Nat × Nat))
    (rc : RemoteCfg) (t : Tid) (cks : Nat) (cl : Bool) (hmis : MismatchOf cks c crc) :
    ∀ (times : List Nat) (d : DestSt) (tm : Timer) (n : Nat),
      CheckWaitG d dst F c crc h rc t cks tm n cl → C04.Expiring tm.timeout tm.start times →
      n + times.length < rc.chkLim →
      ∃ d', checkRounds cfg times d = some d' ∧
        CheckWaitG d' dst F c crc h rc t cks ⟨C04.lastOr tm.start times, tm.timeout⟩ (n + times.length) cl ∧
        d'.fs = d.fs ∧ d'.inds = d.inds ∧ d'.p.conf = d.p.conf ∧
        d'.flts = d.flts ++ List.replicate times.length ⟨fhIgnore, t, ccChecksumFailure, c.length⟩ := by
  intro times
  induction times with
  | nil =>
    intro d tm n hr _ _
    exact ⟨d, rfl, by simpa [C04.lastOr] using hr, rfl, rfl, rfl, by simp⟩
  | cons x xs ih =>
    intro d tm n hr hexp hlim
    simp only [C04.Expiring] at hexp
    simp only [List.length_cons] at hlim
    obtain ⟨hcall, hW⟩ := C13_expiry_retry_any ⟨cfg, x⟩ d dst F c crc h rc t cks tm n cl hr hmis
      (by simp [Timer.timedOut]; exact hexp.1) (by omega)
    obtain ⟨d', hrest, hW', hfs, hin, hcf, hfl⟩ := ih (afterRetry d x tm t) ⟨x, tm.timeout⟩ (n + 1) hW hexp.2 (by omega)
    refine ⟨d', ?_, ?_, ?_, ?_, ?_, ?_⟩
    · simp only [checkRounds, hcall, hrest]
    · have : n + 1 + xs.length = n + (xs.length + 1) := by omega
      simpa [C04.lastOr, this] using hW'
    · rw [hfs]; rfl
    · rw [hin]; rfl
    · rw [hcf]; rfl
    · rw [hfl]
      simp [afterRetry, hr.hlen, List.replicate_succ]

/-- **A late File Data PDU while the receiver waits (timer running), any tile**: stored; nothing else -/
theorem C13_late_tile_any (env : Env) (d : DestSt) (dst : String) (F c crc : List UInt8) (seg : Nat)
    (h : List (Nat × Nat)) (rc : RemoteCfg) (t : Tid) (cks : Nat) (tm : Timer) (n : Nat) (hd : Hdr) (cl : Bool)
    (a b : Nat) (hs : 0 < seg) (hr : CheckWaitG d dst F c crc h rc t cks tm n cl) (ha : Admissible env rc hd)
    (hT : Tile seg F.length a b) (hrun : tm.timedOut env.now = false) :
    stateMachine env (some (.fd hd a (tileData F a b))) d =
      .ok () (afterTileU d dst c (tileData F a b) a b env t) ∧
    CheckWaitG (afterTileU d dst c (tileData F a b) a b env t) dst F (Fs.writeBytes c (tileData F a b) a) crc
      (h ++ [(a, b)]) rc t cks tm n cl := by
  have hab := hT.lt hs
  have hbs := hT.le_size
  have hdl := tileData_length hT
  have hsum : a + (b - a) = b := by omega
  have hnsz : ¬ b > F.length := by omega
  obtain ⟨hflen, hfcov⟩ := file_after_tile_u hs hT hr.hcov hr.hin
  constructor
  · unfold stateMachine
    generalize (stateMachineWith env none (stateMachineWith env none (throw Err.recursionError))) = rec
    cases hi : env.cfg.indSegRecv <;>
    msimp [stateMachineWith, checkInsertedPacket, Pdu.hdr, ha.hdir, ha.hdst, ha.hsrc, Pdu.kind,
      Route.getPacketDestination, hr.hbusy, transmissionMode, hr.hmode, nonIdleFsm,
      fsmAdvancementAfterPacketsWereSent, hr.hqueue, hr.hstep, fsmFromReceiving, handleFdOrEofPdu, handleFdPdu,
      fdIndication, hi, getP, emitInd, hr.htid, fdLostSegments, fdWrite, vfsWriteData, hr.hrej, hr.hname,
      Fs.writeData, hr.hfile, hdl, hsum, fdAfterWrite, sizeErrOf, modP, hr.hfse, hnsz,
      fsmFromWaitingForMetadata,
      fsmFromCheckLimit, checkLimitHandling, hr.htm, hr.hrc, hrun, fsmFromWaitingForMissingData,
      fsmFromTransferCompletion, fsmFromSendingFinishedPdu,
      fsmFromWaitingForFinishedAck, afterTileU, hr.hfin]
  · exact
      { hbusy := hr.hbusy, hstep := hr.hstep, hready := hr.hready, hqueue := hr.hqueue, hmode := hr.hmode,
        hname := hr.hname, hfile := by simp [afterTileU, Fs.C17.get_set_same],
        hlen := by
          show (Fs.writeBytes c (tileData F a b) a).length = max b d.p.progress
          rw [hflen, hr.hlen]; omega,
        hle := by rw [hflen]; have := hr.hle; omega,
        hcov := hfcov,
        hin := by
          intro q hq; simp at hq
          rcases hq with hq | hq
          · exact hr.hin q hq
          · subst hq; exact hbs,
        hcrc := hr.hcrc, hfse := hr.hfse, hrc := hr.hrc,
        htid := hr.htid, hrej := hr.hrej, hcks := hr.hcks, hclosure := hr.hclosure, hcancel := hr.hcancel,
        hmo := hr.hmo, hfin := hr.hfin, htm := hr.htm, hcnt := hr.hcnt, hfh1 := hr.hfh1, hfh2 := hr.hfh2 }

/-- once everything was delivered the general waiting state is the one of the single-hole theorems -/
theorem CheckWaitG.complete {d : DestSt} {dst : String} {F c crc : List UInt8} {h : List (Nat × Nat)}
    {rc : RemoteCfg} {t : Tid} {cks : Nat} {tm : Timer} {n : Nat} {cl : Bool}
    (hr : CheckWaitG d dst F c crc h rc t cks tm n cl) (hall : ∀ x, x < F.length → covered h x) :
    c = F ∧ CheckWait d dst F crc rc t cks tm n cl := by
  have hc : c = F := file_complete hr.hle hr.hcov hall
  subst hc
  exact ⟨rfl,
    { hbusy := hr.hbusy, hstep := hr.hstep, hready := hr.hready, hqueue := hr.hqueue, hmode := hr.hmode,
      hname := hr.hname, hfile := hr.hfile, hprog := hr.hlen.symm, hcrc := hr.hcrc, hfse := hr.hfse, hrc := hr.hrc,
      htid := hr.htid, hrej := hr.hrej, hcks := hr.hcks, hclosure := hr.hclosure, hcancel := hr.hcancel,
      hmo := hr.hmo, hfin := hr.hfin, htm := hr.htm, hcnt := hr.hcnt, hfh1 := hr.hfh1, hfh2 := hr.hfh2 }⟩

/-- late tiles while the timer runs, any order -/
theorem C13_late_any_history (env : Env) (hd : Hdr) (dst : String) (F crc : List UInt8) (seg : Nat)
    (rc : RemoteCfg) (t : Tid) (cks : Nat) (cl : Bool) (tm : Timer) (n : Nat) (hs : 0 < seg)
    (ha : Admissible env rc hd) (hrun : tm.timedOut env.now = false) :
    ∀ (h2 : List (Nat × Nat)) (d : DestSt) (c : List UInt8) (h : List (Nat × Nat)),
      (∀ q ∈ h2, Tile seg F.length q.1 q.2) → CheckWaitG d dst F c crc h rc t cks tm n cl →
      ∃ d', feedU env hd F h2 d = some d' ∧ CheckWaitG d' dst F (contentOf F h2 c) crc (h ++ h2) rc t cks tm n cl ∧
        (∀ q, q ≠ dst → d'.fs.get q = d.fs.get q) ∧
        d'.inds.filter isFinished = d.inds.filter isFinished ∧ d'.p.conf = d.p.conf ∧ d'.flts = d.flts := by
  intro h2
  induction h2 with
  | nil => intro d c h _ hr; exact ⟨d, rfl, by simpa [contentOf] using hr, fun _ _ => rfl, rfl, rfl, rfl⟩
  | cons q h2 ih =>
    intro d c h hT hr
    obtain ⟨hcall, hr'⟩ := C13_late_tile_any env d dst F c crc seg h rc t cks tm n hd cl q.1 q.2 hs hr ha
      (hT q List.mem_cons_self) hrun
    obtain ⟨d', hf, hR, hother, hfin, hcf, hfl⟩ := ih _ _ _ (fun r hr => hT r (List.mem_cons_of_mem _ hr)) hr'
    refine ⟨d', ?_, ?_, ?_, ?_, ?_, ?_⟩
    · simp only [feedU, hcall]; exact hf
    · simpa [List.append_assoc, contentOf] using hR
    · intro p hp
      rw [hother p hp]
      simp [afterTileU, Fs.C17.get_set_other _ _ _ _ hp]
    · rw [hfin]
      simp only [afterTileU, List.filter_append]
      split <;> simp [isFinished]
    · rw [hcf]; rfl
    · rw [hfl]; rfl

/-- **The EOF overtakes any of the File Data PDUs; they all arrive before the limit: the transfer
completes (whole run, unacknowledged mode, with or without closure).**  After the Metadata PDU the tiles
of any history `h1` arrive (any order, any losses, any duplicates), then the EOF: the stored content does
not have its checksum, so the check-limit procedure starts.  `times` are expiries of the check timer at
which nothing new has arrived (fewer than the limit): each only counts.  Then the tiles `h2` arrive — any
order, any of them again — while the timer is running, completing the file.  At the next expiry the
verification succeeds: the file is byte-identical, the user gets exactly one Transaction-Finished (No
error, Data complete, File retained), with closure exactly one Finished PDU with those values is queued,
the handler is idle; no Check limit fault — only the ignored checksum failures of the unsuccessful
verifications. -/
theorem C13_any_pattern_completes (env : Env) (d0 : DestSt) (hd : Hdr) (rc : RemoteCfg) (cks : Nat) (cl : Bool)
    (sname dname : String) (msgs : Option (List Msg)) (F crc : List UInt8) (seg : Nat)
    (h1 h2 : List (Nat × Nat)) (times : List Nat) (tL tS : Nat)
    (ha : Admissible env rc hd) (hchk : env.cfg.chkMs ≠ 0) (hs : 0 < seg)
    (hidle : d0.state = .idle) (hq : d0.queue = []) (hr : d0.numReady = 0) (hrej : d0.rejects = [])
    (hfl : d0.flts = []) (hnd : Fs.isDir d0.fs dname = false)
    (hok : (∃ old, d0.fs.get dname = some (.file old)) ∨
           (Fs.exists' d0.fs dname = false ∧ Fs.parentIsDir d0.fs dname = true))
    (hfh1 : d0.faults.lookup ccChecksumFailure = some fhIgnore) (hfh2 : d0.faults.lookup ccCheckLimit = some fhCancel)
    (hT1 : ∀ q ∈ h1, Tile seg F.length q.1 q.2) (hT2 : ∀ q ∈ h2, Tile seg F.length q.1 q.2)
    (hall : ∀ x, x < F.length → covered (h1 ++ h2) x)
    (hnull : cks ≠ 15) (hcrc : Checksum.calcChecksum (Checksum.CksType.ofNat cks) F F.length 4096 = .ok crc)
    (hmis : MismatchOf cks (contentOf F h1 []) crc)
    (hexp : C04.Expiring env.cfg.chkMs env.now times) (hlim : times.length < rc.chkLim)
    (hrun : tL - C04.lastOr env.now times < env.cfg.chkMs) (hS : tS - C04.lastOr env.now times ≥ env.cfg.chkMs) :
    ∃ d1 d2 d3 d4 d5 d6,
      stateMachine env (some (.md hd cl cks F.length (some sname) (some dname) msgs)) d0 = .ok () d1 ∧
      feedU env hd F h1 d1 = some d2 ∧
      stateMachine env (some (.eof hd ccNoError crc F.length none)) d2 = .ok () d3 ∧
      d3.state = .busy ∧ d3.queue = [] ∧ d3.inds.filter isFinished = d0.inds.filter isFinished ∧
      checkRounds env.cfg times d3 = some d4 ∧
      feedU ⟨env.cfg, tL⟩ hd F h2 d4 = some d5 ∧
      stateMachine ⟨env.cfg, tS⟩ none d5 = .ok () d6 ∧
      d6.state = .idle ∧
      d6.queue = (if cl then [mkFin ⟨.toSend, hd.mode, hd.crc, hd.large, hd.src, hd.dst, hd.seq⟩
        ⟨ccNoError, dcComplete, fsRetained, none⟩] else []) ∧
      d6.fs.get dname = some (.file F) ∧ (∀ q, q ≠ dname → d6.fs.get q = d0.fs.get q) ∧
      d6.inds.filter isFinished = d0.inds.filter isFinished ++
        (if env.cfg.indFinished
          then [.finished (some ⟨hd.src, hd.seq⟩) ⟨ccNoError, dcComplete, fsRetained, none⟩] else []) ∧
      d6.flts = List.replicate (times.length + 1)
        ⟨fhIgnore, ⟨hd.src, hd.seq⟩, ccChecksumFailure, (contentOf F h1 []).length⟩ := by
  obtain ⟨hmd, hR0⟩ := C02_metadata env d0 hd rc cks F.length sname dname msgs cl ha hidle hq hr hrej hfl hnd hok
  obtain ⟨d2, hf2, hR2, ho2, hin2, hcf2, hft2⟩ := C13_receiver_any_history env hd dname F seg rc ⟨hd.src, hd.seq⟩ cks cl hs ha
    h1 _ [] [] hT1 (RecvU.ofReceiving hR0)
  simp only [List.nil_append] at hR2
  have hf1' : d2.faults.lookup ccChecksumFailure = some fhIgnore := by rw [hft2]; simpa [afterMd] using hfh1
  have hf2' : d2.faults.lookup ccCheckLimit = some fhCancel := by rw [hft2]; simpa [afterMd] using hfh2
  obtain ⟨heof, hW3⟩ := C13_eof_waits_any env d2 dname F _ crc h1 rc ⟨hd.src, hd.seq⟩ cks hd cl hR2 ha hmis hchk hf1' hf2'
  obtain ⟨d4, hrounds, hW4, hfs4, hin4, hcf4, hfl4⟩ := C13_expiries_below_limit_any env.cfg dname F _ crc h1 rc
    ⟨hd.src, hd.seq⟩ cks cl hmis times _ ⟨env.now, env.cfg.chkMs⟩ 0 hW3 hexp (by omega)
  obtain ⟨d5, hf5, hW5, ho5, hin5, hcf5, hfl5⟩ := C13_late_any_history ⟨env.cfg, tL⟩ hd dname F crc seg rc ⟨hd.src, hd.seq⟩
    cks cl _ _ hs ⟨ha.hdir, ha.hdst, ha.hsrc, ha.hmode⟩ (by simp [Timer.timedOut]; exact hrun) h2 d4 _ h1 hT2 hW4
  obtain ⟨hcF, hCW⟩ := hW5.complete hall
  have hsucc := C13_expiry_success_call ⟨env.cfg, tS⟩ d5 dname F crc rc ⟨hd.src, hd.seq⟩ cks _ _ cl hCW
    (by simp [Timer.timedOut]; exact hS) hnull hcrc
  have hconf5 : d5.p.conf = ⟨.toSend, hd.mode, hd.crc, hd.large, hd.src, hd.dst, hd.seq⟩ := by
    rw [hcf5, hcf4]
    show d2.p.conf = _
    rw [hcf2]; simp [afterMd, mdParams]
  refine ⟨_, d2, _, d4, d5, _, hmd, hf2, heof, hW3.hbusy, hW3.hqueue, ?_, hrounds, hf5, hsucc, rfl, ?_, ?_, ?_, ?_, ?_⟩
  · simp only [afterEofWait, List.filter_append, hin2]
    cases env.cfg.indEofRecv <;> simp [isFinished, afterMd]
  · cases cl <;> simp [afterSuccess, hconf5]
  · show d5.fs.get dname = some (.file F)
    rw [hW5.hfile, hcF]
  · intro q hq'
    show d5.fs.get q = d0.fs.get q
    rw [ho5 q hq', hfs4]
    show d2.fs.get q = d0.fs.get q
    rw [ho2 q hq']
    simp [afterMd, Fs.C17.get_set_other _ _ _ _ hq']
  · simp only [afterSuccess, List.filter_append, hin5, hin4]
    simp only [afterEofWait, List.filter_append, hin2]
    cases env.cfg.indEofRecv <;> cases env.cfg.indFinished <;> simp [isFinished, afterMd]
  · show d5.flts = _
    rw [hfl5, hfl4]
    simp only [afterEofWait, hR2.hflts, List.nil_append]
    rw [← hR2.hlen, List.replicate_succ]
    simp

end AnyPattern

end WholeRuns

/-! ### the hypotheses of the whole-run theorems are satisfiable (non-vacuity) -/

namespace Ex
open Cfdp.C03.Ex

def F : List UInt8 := [1, 2, 3, 4, 5]
def hU : Hdr := ⟨.toRecv, .unack, false, false, ⟨1, 2⟩, ⟨2, 2⟩, ⟨7, 2⟩⟩

theorem mismatch : MismatchOf 3 (C03.holeFile F 0 2 F.length) [71, 11, 153, 244] :=
  ⟨by decide, [208, 98, 120, 207], by decide +kernel, by decide⟩

/-- a 5-byte file in segments of 2; the first tile is late; check limit 3 (`rcD.chkLim`), check
interval 1000: one expiry passes (1000), the tile arrives at 1500, the expiry at 2000 completes -/
example : True := by
  have h := C13_late_data_completes envD d0 hU rcD 3 false "/a" "/b" none F [71, 11, 153, 244] [] 0 2 2 1 [1000] 1500 2000
    ⟨rfl, rfl, by decide, rfl⟩ (by decide) rfl rfl rfl rfl rfl (by decide)
    (Or.inl ⟨[9], rfl⟩) (by decide) (by decide) rfl (by simp) (by decide) rfl (by decide)
    (Or.inl (by decide)) (by decide) (by decide) (by decide +kernel) mismatch
    (by simp [C04.Expiring, envD]) (by decide) (by decide) (by decide)
  trivial

/-- the same transfer, the tile never arrives: limit 3, expiries at 1000, 2000 and 3000 -/
example : True := by
  have h := C13_never_arrives_limit envD d0 hU rcD 3 false "/a" "/b" none F [71, 11, 153, 244] [] 0 2 2 1 [1000, 2000] 3000
    ⟨rfl, rfl, by decide, rfl⟩ (by decide) rfl rfl rfl rfl rfl (by decide)
    (Or.inl ⟨[9], rfl⟩) (by decide) (by decide) rfl (by simp) (by decide) rfl (by decide)
    (Or.inl (by decide)) (by decide) mismatch
    (by simp [C04.Expiring, envD]) (by decide) (by decide)
  trivial

/-- the same late-data transfer with closure requested: the Finished PDU is queued at completion -/
example : True := by
  have h := C13_late_data_completes envD d0 hU rcD 3 true "/a" "/b" none F [71, 11, 153, 244] [] 0 2 2 1 [1000] 1500 2000
    ⟨rfl, rfl, by decide, rfl⟩ (by decide) rfl rfl rfl rfl rfl (by decide)
    (Or.inl ⟨[9], rfl⟩) (by decide) (by decide) rfl (by simp) (by decide) rfl (by decide)
    (Or.inl (by decide)) (by decide) (by decide) (by decide +kernel) mismatch
    (by simp [C04.Expiring, envD]) (by decide) (by decide) (by decide)
  trivial


section AnyPatternEx
open Cfdp.Dest Cfdp.C02 Cfdp.C06 Cfdp.C03

theorem mismatchAny : MismatchOf 3 (contentOf F [(4, 5)] []) [71, 11, 153, 244] :=
  ⟨by decide, [182, 72, 3, 146], by decide +kernel, by decide⟩

/-- `C13_any_pattern_completes` applies: only the last tile arrives before the EOF; one expiry passes
(1000); the other two tiles arrive at 1500, the middle one twice, the first one in between; the expiry at
2000 completes the transfer -/
example : True := by
  have h := C13_any_pattern_completes envD d0 hU rcD 3 false "/a" "/b" none F [71, 11, 153, 244] 2
    [(4, 5)] [(2, 4), (0, 2), (2, 4)] [1000] 1500 2000
    ⟨rfl, rfl, by decide, rfl⟩ (by decide) (by decide) rfl rfl rfl rfl rfl (by decide)
    (Or.inl ⟨[9], rfl⟩) (by decide) (by decide)
    (by intro q hq; simp at hq; subst hq; exact ⟨⟨2, rfl⟩, by decide, rfl⟩)
    (by intro q hq; simp at hq
        rcases hq with rfl | rfl | rfl
        · exact ⟨⟨1, rfl⟩, by decide, rfl⟩
        · exact ⟨⟨0, rfl⟩, by decide, rfl⟩
        · exact ⟨⟨1, rfl⟩, by decide, rfl⟩)
    (by intro x hx
        have : x = 0 ∨ x = 1 ∨ x = 2 ∨ x = 3 ∨ x = 4 := by simp [F] at hx; omega
        rcases this with rfl | rfl | rfl | rfl | rfl <;> simp [covered])
    (by decide) (by decide +kernel) mismatchAny
    (by simp [C04.Expiring, envD]) (by decide) (by decide) (by decide)
  trivial

end AnyPatternEx

end Ex

end Cfdp.C13
