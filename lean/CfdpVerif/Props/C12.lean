import CfdpVerif.Model.World
import CfdpVerif.Lemmas.Monad
/-!
# C12 — cancellation takes effect immediately and is signalled correctly

Model: `cancelRequest` of both handlers, the sender's `noticeOfCancellation`, the receiver's
completion (`handleTransferCompletion`, `noticeOfCompletion`, `prepareFinishedPdu`) and its handling
of an EOF (cancel) (`handleEofPdu`).  All statements hold for every handler state satisfying the
stated hypotheses, i.e. for every cancellation point.
-/
set_option linter.unusedSimpArgs false
set_option linter.unusedVariables false

namespace Cfdp.C12

open Cfdp
open Cfdp.Route (Mode)

/-! ### return value of `cancel_request` -/

/-- id comparison of `cancel_request` (`TransactionId.__eq__` compares the values) -/
def sameTid (a b : Tid) : Bool := a.src.val = b.src.val && a.seq.val = b.seq.val

/-- sender: an idle handler returns false and nothing changes -/
theorem C12_source_cancel_idle (env : Source.Env) (tid : Tid) (s : Source.SrcSt) (h : s.state = .idle) :
    Source.cancelRequest env tid s = .ok false s := by
  msimp [Source.cancelRequest, h]

/-- sender: a busy handler whose active transaction has another id (or none yet) returns false and
nothing changes -/
theorem C12_source_cancel_wrong_id (env : Source.Env) (tid : Tid) (s : Source.SrcSt)
    (hb : s.state = .busy) (hr : ¬ s.numReady > 0)
    (hid : ∀ t, s.p.tid = some t → sameTid t tid = false) :
    Source.cancelRequest env tid s = .ok false s := by
  cases ht : s.p.tid with
  | none => msimp [Source.cancelRequest, hb, hr, ht]
  | some t =>
    have := hid t ht
    simp [sameTid] at this
    msimp [Source.cancelRequest, hb, hr, ht]
    intro h1 h2; exact absurd h2 (this h1)

/-- both handlers: with PDUs still to be retrieved the request raises `UnretrievedPdusToBeSent`
and changes nothing -/
theorem C12_cancel_with_queued_pdus (envS : Source.Env) (envD : Dest.Env) (tid : Tid)
    (s : Source.SrcSt) (d : Dest.DestSt) (hs : s.state = .busy) (hd : d.state = .busy)
    (hrs : s.numReady > 0) (hrd : d.numReady > 0) :
    Source.cancelRequest envS tid s = .error .unretrievedPdus s ∧
    Dest.cancelRequest envD tid d = .error .unretrievedPdus d := by
  constructor
  · msimp [Source.cancelRequest, hs, hrs]
  · msimp [Dest.cancelRequest, hd, hrd]

/-- receiver: idle, or busy with another id ⇒ false, unchanged -/
theorem C12_dest_cancel_false (env : Dest.Env) (tid : Tid) (d : Dest.DestSt)
    (h : d.state = .idle ∨ (d.numReady = 0 ∧ ∀ t, d.p.tid = some t → sameTid t tid = false)) :
    Dest.cancelRequest env tid d = .ok false d := by
  rcases h with h | ⟨hr, hid⟩
  · msimp [Dest.cancelRequest, h]
  · cases hst : d.state with
    | idle => msimp [Dest.cancelRequest, hst]
    | busy =>
      cases ht : d.p.tid with
      | none => msimp [Dest.cancelRequest, hst, hr, ht]
      | some t =>
        have := hid t ht
        simp [sameTid] at this
        msimp [Dest.cancelRequest, hst, hr, ht]
        intro h1 h2; exact absurd h2 (this h1)

/-! ### receiver: a matching cancel request -/

/-- receiver: a cancel request for the active transaction returns true; the transaction is marked
cancelled with condition Cancel-request-received and the **local** entity as fault location, and
completes in the next call.  Nothing is written or queued by the request itself. -/
theorem C12_dest_cancel_true (env : Dest.Env) (tid t : Tid) (d : Dest.DestSt)
    (hb : d.state = .busy) (hr : d.numReady = 0) (ht : d.p.tid = some t) (hid : sameTid t tid = true) :
    Dest.cancelRequest env tid d =
      .ok true { d with step := .TRANSFER_COMPLETION,
                        p := { d.p with canceled := true,
                                        fin := { d.p.fin with cond := ccCancelRequest,
                                                              floc := some env.cfg.entityId } } } := by
  simp [sameTid] at hid
  msimp [Dest.cancelRequest, hb, hr, ht, hid, Dest.triggerNoticeOfCompletionCanceled, Dest.modP]

/-- receiver: completion of a cancelled transaction (the call after the request, or the call that
received the EOF (cancel)): the incomplete file is deleted **iff** disposition-on-cancellation is
configured; the Transaction-Finished indication (when enabled) carries exactly the stored finished
parameters — the cancel condition and fault location — with the file status set accordingly. -/
theorem C12_dest_notice_of_completion (env : Dest.Env) (d : Dest.DestSt) (rc : RemoteCfg)
    (hc : d.p.canceled = true) (hrc : d.p.remoteCfg = some rc) :
    let del := rc.disp && decide (d.p.fin.deliv = dcIncomplete)
    let fin' := if del then { d.p.fin with fstat := fsDiscardedDeliberately } else d.p.fin
    Dest.noticeOfCompletion env d =
      .ok () { d with fs := if del then (Fs.deleteFile d.fs d.p.fileName).2 else d.fs,
                      p := { d.p with fin := fin' },
                      inds := d.inds ++ (if env.cfg.indFinished then [.finished d.p.tid fin'] else []) } := by
  cases hd : rc.disp <;> cases hi : env.cfg.indFinished <;>
    by_cases hdel : d.p.fin.deliv = dcIncomplete <;>
    msimp [Dest.noticeOfCompletion, hc, hrc, hd, hi, hdel, Dest.getP, Dest.emitInd] <;>
    (try (rcases d with ⟨_, _, _, ⟨⟩, _, _, _, _, _, _⟩; simp_all))

/-- receiver: the Finished PDU generated for a completion carries the stored finished parameters
unchanged (condition code, delivery code, file status, fault location) -/
theorem C12_dest_finished_pdu (d : Dest.DestSt) (hr : d.numReady = 0) :
    Dest.prepareFinishedPdu d =
      .ok () { d with queue := d.queue ++ [Dest.mkFin d.p.conf d.p.fin], numReady := 1 } := by
  msimp [Dest.prepareFinishedPdu, hr, Dest.addPacket]

/-! ### receiver: EOF (cancel) from the sender -/

/-- An EOF PDU with a condition other than No-error finishes the transaction with that condition and
the **sender** (the remote entity) as fault location; delivery is reported incomplete and the
progress is the EOF's file size.  Unacknowledged: completion follows in the same call;
acknowledged: the EOF is acknowledged first. -/
theorem C12_dest_eof_cancel (env : Dest.Env) (d : Dest.DestSt) (rc : RemoteCfg) (t : Tid)
    (cond size : Nat) (cks : List UInt8) (hcond : cond ≠ ccNoError) (hb : d.state = .busy)
    (hrc : d.p.remoteCfg = some rc) (ht : d.p.tid = some t) :
    ∃ d', Dest.handleEofPdu env cond cks size d = .ok () d' ∧
      d'.p.canceled = true ∧ d'.p.fin.cond = cond ∧ d'.p.fin.floc = some rc.entityId ∧
      d'.p.fin.deliv = dcIncomplete ∧ d'.p.progress = size ∧ d'.fs = d.fs ∧
      (d.p.conf.mode = .unack → d'.step = .TRANSFER_COMPLETION ∧ d'.queue = d.queue) ∧
      (d.p.conf.mode = .ack → d'.step = .SENDING_EOF_ACK_PDU ∧
        d'.queue = d.queue ++ [Dest.mkAck d.p.conf dtEof cond tsActive]) := by
  cases hm : d.p.conf.mode <;> cases hi : env.cfg.indEofRecv <;>
  · apply Exists.intro
    constructor
    · msimp [Dest.handleEofPdu, hcond, hrc, ht, hi, Dest.getP, Dest.modP, Dest.emitInd,
        Dest.triggerNoticeOfCompletionCanceled, Dest.fileTransferCompleteTransition,
        Dest.transmissionMode, hb, hm, Dest.prepareEofAckPacket, Dest.addPacket]
      rfl
    · simp [hm]

/-! ### sender: a matching cancel request -/

/-- sender: a cancel request for the active transaction (no cancel exchange in progress yet) returns
true and queues — as the next PDU — an EOF with condition Cancel-request-received, file size =
the bytes sent so far (`progress`) and the checksum of exactly that prefix.  In unacknowledged mode
the handler is idle at once (so no further file data can follow); in acknowledged mode it awaits
the EOF's ACK (`WAITING_FOR_EOF_ACK`), a step that emits no file data except on NAK. -/
theorem C12_source_cancel_eof (env : Source.Env) (tid t : Tid) (s : Source.SrcSt) (req : Source.PutReq)
    (rc : RemoteCfg) (src : String) (F cks : List UInt8)
    (hb : s.state = .busy) (hr : ¬ s.numReady > 0) (ht : s.p.tid = some t) (hid : sameTid t tid = true)
    (hnc : Source.cancelInProgress s.p = none)
    (hreq : s.putReq = some req) (hsrc : req.src = some src) (hmo : s.p.metadataOnly = false)
    (hfile : s.fs.get src = some (.file F)) (hrc : s.p.remoteCfg = some rc)
    (hnull : Checksum.CksType.ofNat rc.cks ≠ .null)
    (hcks : Checksum.calcChecksum (Checksum.CksType.ofNat rc.cks) F s.p.progress s.p.segmentLen = .ok cks)
    (hlen : cks.length = 4) :
    ∃ s', Source.cancelRequest env tid s = .ok true s' ∧
      s'.queue = s.queue ++ [Source.mkEof s.p.conf ccCancelRequest cks s.p.progress] ∧
      (s.p.conf.mode = .unack → s'.state = .idle) ∧
      (s.p.conf.mode = .ack → s'.step = .WAITING_FOR_EOF_ACK ∧ s'.p.progress = s.p.progress ∧
        s'.p.condCodeEof = some ccCancelRequest) := by
  simp [sameTid] at hid
  have hc : Fs.calcChecksum s.fs (Checksum.CksType.ofNat rc.cks) src s.p.progress s.p.segmentLen = .ok cks := by
    simp [Fs.calcChecksum, hnull, hfile, hcks]
  cases hm : s.p.conf.mode <;> cases hi : env.cfg.indEofSent <;>
  · apply Exists.intro
    constructor
    · msimp [Source.cancelRequest, hb, hr, ht, hid, Source.noticeOfCancellation, hnc, Source.getP,
        Source.modP, Source.checksumCalculation, hreq, hsrc, hmo, hrc, hc, Source.prepareEofPdu, hlen,
        Source.addPacket, Source.emitInd, hi, Source.handleEofSent, Source.transmissionMode, hm,
        Source.startPositiveAckProcedure, Source.resetInternal]
      rfl
    · simp [hm]

/-- sender: a second cancel (or any fault) while the EOF (cancel) exchange is in progress abandons
the transaction: the handler is idle with an empty queue, the abandoned callback has fired once. -/
theorem C12_source_second_cancel_abandons (env : Source.Env) (tid t : Tid) (s : Source.SrcSt) (c : Nat)
    (hb : s.state = .busy) (hr : ¬ s.numReady > 0) (ht : s.p.tid = some t) (hid : sameTid t tid = true)
    (hnc : Source.cancelInProgress s.p = some c) :
    ∃ s', Source.cancelRequest env tid s = .ok true s' ∧ s'.state = .idle ∧ s'.queue = [] ∧
      s'.flts = s.flts ++ [⟨fhAbandon, t, c, s.p.progress⟩] := by
  simp [sameTid] at hid
  apply Exists.intro
  constructor
  · msimp [Source.cancelRequest, hb, hr, ht, hid, Source.noticeOfCancellation, hnc, Source.getP,
      Source.abandonTransaction, Source.resetInternal]
    rfl
  · simp

end Cfdp.C12
