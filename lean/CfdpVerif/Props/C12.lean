import CfdpVerif.Props.C02
import CfdpVerif.Props.C03
import CfdpVerif.Model.World
import CfdpVerif.Lemmas.Monad
/-!
# C12 — cancellation takes effect immediately and is signalled correctly

Model: `cancelRequest` of both handlers, the sender's `noticeOfCancellation`, the receiver's
completion (`handleTransferCompletion`, `noticeOfCompletion`, `prepareFinishedPdu`) and its handling
of an EOF (cancel) (`handleEofPdu`).  All statements hold for every handler state satisfying the
stated hypotheses, i.e. for every cancellation point.

Composed over both models (`C12_end_to_end_cancel_unack`, `C12_end_to_end_cancel_ack`): the sender's run up to
the cancel request, the EOF (cancel) with size and checksum of exactly the prefix sent, the receiver's
completion with the cancel condition and the sender as fault location, the deletion of the incomplete file
exactly when the disposition is configured and — acknowledged mode — the Finished (cancel) PDU coming back.
-/
set_option linter.unusedSimpArgs false
set_option linter.unusedVariables false

namespace Cfdp.C12

open Cfdp
open Cfdp.Route (Mode)

/-! ### return value of `cancel_request` -/

/-- id comparison of `cancel_request` (`TransactionId.__eq__` compares the values) -/
def sameTid (a b : Tid) : Bool := a.src.val = b.src.val && a.seq.val = b.seq.val

/-- sender: an idle handler returns false and nothing changes -/
theorem C12_source_cancel_idle (env : Source.Env) (tid : Tid) (s : Source.SrcSt) (h : s.state = .idle) :
    Source.cancelRequest env tid s = .ok false s := by
  msimp [Source.cancelRequest, h]

/-- sender: a busy handler whose active transaction has another id (or none yet) returns false and
nothing changes -/
theorem C12_source_cancel_wrong_id (env : Source.Env) (tid : Tid) (s : Source.SrcSt)
    (hb : s.state = .busy) (hr : ¬ s.numReady > 0)
    (hid : ∀ t, s.p.tid = some t → sameTid t tid = false) :
    Source.cancelRequest env tid s = .ok false s := by
  cases ht : s.p.tid with
  | none => msimp [Source.cancelRequest, hb, hr, ht]
  | some t =>
    have := hid t ht
    simp [sameTid] at this
    msimp [Source.cancelRequest, hb, hr, ht]
    intro h1 h2; exact absurd h2 (this h1)

/-- both handlers: with PDUs still to be retrieved the request raises `UnretrievedPdusToBeSent`
and changes nothing -/
theorem C12_cancel_with_queued_pdus (envS : Source.Env) (envD : Dest.Env) (tid : Tid)
    (s : Source.SrcSt) (d : Dest.DestSt) (hs : s.state = .busy) (hd : d.state = .busy)
    (hrs : s.numReady > 0) (hrd : d.numReady > 0) :
    Source.cancelRequest envS tid s = .error .unretrievedPdus s ∧
    Dest.cancelRequest envD tid d = .error .unretrievedPdus d := by
  constructor
  · msimp [Source.cancelRequest, hs, hrs]
  · msimp [Dest.cancelRequest, hd, hrd]

/-- receiver: idle, or busy with another id ⇒ false, unchanged -/
theorem C12_dest_cancel_false (env : Dest.Env) (tid : Tid) (d : Dest.DestSt)
    (h : d.state = .idle ∨ (d.numReady = 0 ∧ ∀ t, d.p.tid = some t → sameTid t tid = false)) :
    Dest.cancelRequest env tid d = .ok false d := by
  rcases h with h | ⟨hr, hid⟩
  · msimp [Dest.cancelRequest, h]
  · cases hst : d.state with
    | idle => msimp [Dest.cancelRequest, hst]
    | busy =>
      cases ht : d.p.tid with
      | none => msimp [Dest.cancelRequest, hst, hr, ht]
      | some t =>
        have := hid t ht
        simp [sameTid] at this
        msimp [Dest.cancelRequest, hst, hr, ht]
        intro h1 h2; exact absurd h2 (this h1)

/-! ### receiver: a matching cancel request -/

/-- receiver: a cancel request for the active transaction returns true; the transaction is marked
cancelled with condition Cancel-request-received and the **local** entity as fault location, and
completes in the next call.  Nothing is written or queued by the request itself. -/
theorem C12_dest_cancel_true (env : Dest.Env) (tid t : Tid) (d : Dest.DestSt)
    (hb : d.state = .busy) (hr : d.numReady = 0) (ht : d.p.tid = some t) (hid : sameTid t tid = true) :
    Dest.cancelRequest env tid d =
      .ok true { d with step := .TRANSFER_COMPLETION,
                        p := { d.p with canceled := true,
                                        fin := { d.p.fin with cond := ccCancelRequest,
                                                              floc := some env.cfg.entityId } } } := by
  simp [sameTid] at hid
  msimp [Dest.cancelRequest, hb, hr, ht, hid, Dest.triggerNoticeOfCompletionCanceled, Dest.modP]

/-- receiver: completion of a cancelled transaction (the call after the request, or the call that
received the EOF (cancel)): the incomplete file is deleted **iff** disposition-on-cancellation is
configured; the Transaction-Finished indication (when enabled) carries exactly the stored finished
parameters — the cancel condition and fault location — with the file status set accordingly. -/
theorem C12_dest_notice_of_completion (env : Dest.Env) (d : Dest.DestSt) (rc : RemoteCfg)
    (hc : d.p.canceled = true) (hrc : d.p.remoteCfg = some rc) :
    let del := rc.disp && decide (d.p.fin.deliv = dcIncomplete)
    let fin' := if del then { d.p.fin with fstat := fsDiscardedDeliberately } else d.p.fin
    Dest.noticeOfCompletion env d =
      .ok () { d with fs := if del then (Fs.deleteFile d.fs d.p.fileName).2 else d.fs,
                      p := { d.p with fin := fin' },
                      inds := d.inds ++ (if env.cfg.indFinished then [.finished d.p.tid fin'] else []) } := by
  cases hd : rc.disp <;> cases hi : env.cfg.indFinished <;>
    by_cases hdel : d.p.fin.deliv = dcIncomplete <;>
    msimp [Dest.noticeOfCompletion, hc, hrc, hd, hi, hdel, Dest.getP, Dest.emitInd] <;>
    (try (rcases d with ⟨_, _, _, ⟨⟩, _, _, _, _, _, _⟩; simp_all))

/-- receiver: the Finished PDU generated for a completion carries the stored finished parameters
unchanged (condition code, delivery code, file status, fault location) -/
theorem C12_dest_finished_pdu (d : Dest.DestSt) (hr : d.numReady = 0) :
    Dest.prepareFinishedPdu d =
      .ok () { d with queue := d.queue ++ [Dest.mkFin d.p.conf d.p.fin], numReady := 1 } := by
  msimp [Dest.prepareFinishedPdu, hr, Dest.addPacket]

/-! ### receiver: EOF (cancel) from the sender -/

/-- An EOF PDU with a condition other than No-error finishes the transaction with that condition and
the **sender** (the remote entity) as fault location; delivery is reported incomplete and the
progress is the EOF's file size.  Unacknowledged: completion follows in the same call;
acknowledged: the EOF is acknowledged first. -/
theorem C12_dest_eof_cancel (env : Dest.Env) (d : Dest.DestSt) (rc : RemoteCfg) (t : Tid)
    (cond size : Nat) (cks : List UInt8) (hcond : cond ≠ ccNoError) (hb : d.state = .busy)
    (hrc : d.p.remoteCfg = some rc) (ht : d.p.tid = some t) :
    ∃ d', Dest.handleEofPdu env cond cks size d = .ok () d' ∧
      d'.p.canceled = true ∧ d'.p.fin.cond = cond ∧ d'.p.fin.floc = some rc.entityId ∧
      d'.p.fin.deliv = dcIncomplete ∧ d'.p.progress = size ∧ d'.fs = d.fs ∧
      (d.p.conf.mode = .unack → d'.step = .TRANSFER_COMPLETION ∧ d'.queue = d.queue) ∧
      (d.p.conf.mode = .ack → d'.step = .SENDING_EOF_ACK_PDU ∧
        d'.queue = d.queue ++ [Dest.mkAck d.p.conf dtEof cond tsActive]) := by
  cases hm : d.p.conf.mode <;> cases hi : env.cfg.indEofRecv <;>
  · apply Exists.intro
    constructor
    · msimp [Dest.handleEofPdu, hcond, hrc, ht, hi, Dest.getP, Dest.modP, Dest.emitInd,
        Dest.triggerNoticeOfCompletionCanceled, Dest.fileTransferCompleteTransition,
        Dest.transmissionMode, hb, hm, Dest.prepareEofAckPacket, Dest.addPacket]
      rfl
    · simp [hm]

/-! ### sender: a matching cancel request -/

/-- sender: a cancel request for the active transaction (no cancel exchange in progress yet) returns
true and queues — as the next PDU — an EOF with condition Cancel-request-received, file size =
the bytes sent so far (`progress`) and the checksum of exactly that prefix.  In unacknowledged mode
the handler is idle at once (so no further file data can follow); in acknowledged mode it awaits
the EOF's ACK (`WAITING_FOR_EOF_ACK`), a step that emits no file data except on NAK. -/
theorem C12_source_cancel_eof (env : Source.Env) (tid t : Tid) (s : Source.SrcSt) (req : Source.PutReq)
    (rc : RemoteCfg) (src : String) (F cks : List UInt8)
    (hb : s.state = .busy) (hr : ¬ s.numReady > 0) (ht : s.p.tid = some t) (hid : sameTid t tid = true)
    (hnc : Source.cancelInProgress s.p = none)
    (hreq : s.putReq = some req) (hsrc : req.src = some src) (hmo : s.p.metadataOnly = false)
    (hfile : s.fs.get src = some (.file F)) (hrc : s.p.remoteCfg = some rc)
    (hnull : Checksum.CksType.ofNat rc.cks ≠ .null)
    (hcks : Checksum.calcChecksum (Checksum.CksType.ofNat rc.cks) F s.p.progress s.p.segmentLen = .ok cks)
    (hlen : cks.length = 4) :
    ∃ s', Source.cancelRequest env tid s = .ok true s' ∧
      s'.queue = s.queue ++ [Source.mkEof s.p.conf ccCancelRequest cks s.p.progress] ∧
      (s.p.conf.mode = .unack → s'.state = .idle) ∧
      (s.p.conf.mode = .ack → s'.step = .WAITING_FOR_EOF_ACK ∧ s'.p.progress = s.p.progress ∧
        s'.p.condCodeEof = some ccCancelRequest) := by
  simp [sameTid] at hid
  have hc : Fs.calcChecksum s.fs (Checksum.CksType.ofNat rc.cks) src s.p.progress s.p.segmentLen = .ok cks := by
    simp [Fs.calcChecksum, hnull, hfile, hcks]
  cases hm : s.p.conf.mode <;> cases hi : env.cfg.indEofSent <;>
  · apply Exists.intro
    constructor
    · msimp [Source.cancelRequest, hb, hr, ht, hid, Source.noticeOfCancellation, hnc, Source.getP,
        Source.modP, Source.checksumCalculation, hreq, hsrc, hmo, hrc, hc, Source.prepareEofPdu, hlen,
        Source.addPacket, Source.emitInd, hi, Source.handleEofSent, Source.transmissionMode, hm,
        Source.startPositiveAckProcedure, Source.resetInternal]
      rfl
    · simp [hm]

/-- sender: a second cancel (or any fault) while the EOF (cancel) exchange is in progress abandons
the transaction: the handler is idle with an empty queue, the abandoned callback has fired once. -/
theorem C12_source_second_cancel_abandons (env : Source.Env) (tid t : Tid) (s : Source.SrcSt) (c : Nat)
    (hb : s.state = .busy) (hr : ¬ s.numReady > 0) (ht : s.p.tid = some t) (hid : sameTid t tid = true)
    (hnc : Source.cancelInProgress s.p = some c) :
    ∃ s', Source.cancelRequest env tid s = .ok true s' ∧ s'.state = .idle ∧ s'.queue = [] ∧
      s'.flts = s.flts ++ [⟨fhAbandon, t, c, s.p.progress⟩] := by
  simp [sameTid] at hid
  apply Exists.intro
  constructor
  · msimp [Source.cancelRequest, hb, hr, ht, hid, Source.noticeOfCancellation, hnc, Source.getP,
      Source.abandonTransaction, Source.resetInternal]
    rfl
  · simp

/-! ## Whole runs: a cancel request at the sender in the middle of the file (unacknowledged mode) -/

section WholeRuns
open Cfdp.Dest Cfdp.C02

/-- the receiver after an EOF (cancel) of an unacknowledged transfer without closure -/
def afterEofCancel (env : Env) (d : DestSt) (t : Tid) (cond : Nat) (rc : RemoteCfg) : DestSt :=
  { d with state := .idle, step := .IDLE, p := {},
           fs := if rc.disp then (Fs.deleteFile d.fs d.p.fileName).2 else d.fs,
           inds := d.inds ++ (if env.cfg.indEofRecv then [.eofRecv t] else []) ++
             (if env.cfg.indFinished
               then [.finished (some t) ⟨cond, dcIncomplete,
                 if rc.disp then fsDiscardedDeliberately else fsRetained, some rc.entityId⟩] else []) }

/-- **EOF (cancel) at the receiver (whole call, unacknowledged, no closure)**: the transaction ends
in that call; the user is told the EOF's condition with the sender as fault location and Data
incomplete; the file is deleted exactly when disposition-on-cancellation is configured -/
theorem C12_dest_eof_cancel_call (env : Env) (d : DestSt) (dst : String) (P cks : List UInt8) (rc : RemoteCfg)
    (t : Tid) (ck : Nat) (h : Hdr) (cond size : Nat) (hr : Receiving d dst P rc t ck false)
    (ha : Admissible env rc h) (hcond : cond ≠ ccNoError) :
    stateMachine env (some (.eof h cond cks size none)) d = .ok () (afterEofCancel env d t cond rc) := by
  cases hi : env.cfg.indEofRecv <;> cases hf : env.cfg.indFinished <;> cases hd : rc.disp <;>
  msimp [stateMachine, stateMachineWith, checkInsertedPacket, Pdu.hdr, ha.hdir, ha.hdst, ha.hsrc, Pdu.kind,
    Route.getPacketDestination, hr.hbusy, transmissionMode, hr.hmode, nonIdleFsm,
    fsmAdvancementAfterPacketsWereSent, hr.hqueue, hr.hstep, fsmFromReceiving, handleFdOrEofPdu, handleEofPdu,
    modP, hi, getP, hr.htid, emitInd, hcond, hr.hrc, triggerNoticeOfCompletionCanceled,
    fileTransferCompleteTransition, fsmFromWaitingForMetadata, fsmFromCheckLimit,
    fsmFromWaitingForMissingData, fsmFromTransferCompletion, handleTransferCompletion, noticeOfCompletion,
    hd, hf, hr.hclosure, resetInternal, fsmFromSendingFinishedPdu, fsmFromWaitingForFinishedAck,
    afterEofCancel, hr.hfin, dcIncomplete, hr.hname]

end WholeRuns

section AckCancel
open Cfdp.Dest Cfdp.C02

def cancelP (p : Params) (cond size : Nat) (cks : List UInt8) (floc : EntityId) : Params :=
  { p with crc32 := cks, fileSizeEof := some size, canceled := true, progress := size,
           fin := ⟨cond, dcIncomplete, p.fin.fstat, some floc⟩ }

/-- the receiver after an EOF (cancel) in acknowledged mode: the EOF is acknowledged first -/
def afterEofCancelA (env : Env) (d : DestSt) (t : Tid) (cond size : Nat) (cks : List UInt8) (rc : RemoteCfg) : DestSt :=
  { d with step := .SENDING_EOF_ACK_PDU, p := cancelP d.p cond size cks rc.entityId,
           queue := [mkAck d.p.conf dtEof cond tsActive], numReady := 1,
           inds := d.inds ++ (if env.cfg.indEofRecv then [.eofRecv t] else []) }

/-- **EOF (cancel) at the receiver (whole call, acknowledged mode)**: exactly one ACK (EOF) carrying
the EOF's condition is queued; the transaction is marked cancelled with that condition and the
sender as fault location; nothing is written or deleted yet -/
theorem C12_dest_eof_cancel_call_ack (env : Env) (d : DestSt) (dst : String) (P cks : List UInt8) (rc : RemoteCfg)
    (t : Tid) (ck : Nat) (conf h : Hdr) (cond size : Nat) (hr : ReceivingA d dst P rc t ck conf)
    (ha : AdmissibleA env rc h) (hcond : cond ≠ ccNoError) :
    stateMachine env (some (.eof h cond cks size none)) d = .ok () (afterEofCancelA env d t cond size cks rc) := by
  have hm : d.p.conf.mode = .ack := by rw [hr.hconf]; exact hr.hmode
  cases hi : env.cfg.indEofRecv <;>
  msimp [stateMachine, stateMachineWith, checkInsertedPacket, Pdu.hdr, ha.hdir, ha.hdst, ha.hsrc, Pdu.kind,
    Route.getPacketDestination, hr.hbusy, transmissionMode, hm, nonIdleFsm,
    fsmAdvancementAfterPacketsWereSent, hr.hqueue, hr.hstep, fsmFromReceiving, handleFdOrEofPdu, handleEofPdu,
    modP, hi, getP, hr.htid, emitInd, hcond, hr.hrc, triggerNoticeOfCompletionCanceled,
    fileTransferCompleteTransition, prepareEofAckPacket, addPacket, hr.hready,
    fsmFromWaitingForMetadata, fsmFromCheckLimit,
    fsmFromWaitingForMissingData, fsmFromTransferCompletion, fsmFromSendingFinishedPdu, fsmFromWaitingForFinishedAck,
    afterEofCancelA, cancelP, hr.hfin, dcIncomplete, dtEof]

def doneCancelP (p : Params) (now ms : Nat) (disp : Bool) : Params :=
  { p with fin := { p.fin with fstat := if disp then fsDiscardedDeliberately else p.fin.fstat },
           ackTimer := some ⟨now, ms⟩, ackCounter := 0 }

/-- the receiver after the call that follows the retrieval of the ACK (EOF) of a cancelled transfer -/
def afterCancelCompletion (env : Env) (d : DestSt) (rc : RemoteCfg) : DestSt :=
  { d with step := .WAITING_FOR_FINISHED_ACK, p := doneCancelP d.p env.now rc.ackMs rc.disp,
           fs := if rc.disp then (Fs.deleteFile d.fs d.p.fileName).2 else d.fs,
           queue := [mkFin d.p.conf { d.p.fin with fstat := if rc.disp then fsDiscardedDeliberately else d.p.fin.fstat }],
           numReady := 1,
           inds := d.inds ++ (if env.cfg.indFinished
             then [.finished d.p.tid { d.p.fin with fstat := if rc.disp then fsDiscardedDeliberately else d.p.fin.fstat }]
             else []) }

/-- **Completion of a cancelled transfer (whole call, acknowledged mode)**: the user is told (the
stored cancel condition, fault location, Data incomplete), the incomplete file is deleted exactly
when the disposition is configured, exactly one Finished PDU with those values is queued and its
positive ACK procedure started -/
theorem C12_dest_cancel_completion_call (env : Env) (d : DestSt) (rc : RemoteCfg)
    (hb : d.state = .busy) (hstep : d.step = .SENDING_EOF_ACK_PDU) (hq : d.queue = []) (hr : d.numReady = 0)
    (hc : d.p.canceled = true) (hrc : d.p.remoteCfg = some rc) (hm : d.p.conf.mode = .ack)
    (hinc : d.p.fin.deliv = dcIncomplete) (hms : rc.ackMs ≠ 0) :
    stateMachine env none d = .ok () (afterCancelCompletion env d rc) := by
  unfold stateMachine
  generalize (stateMachineWith env none (stateMachineWith env none (throw Err.recursionError))) = rec
  cases hf : env.cfg.indFinished <;> cases hd : rc.disp <;>
  msimp [stateMachineWith, hb, nonIdleFsm, fsmAdvancementAfterPacketsWereSent, hq, hstep, hc,
    fsmFromReceiving, fsmFromWaitingForMetadata, fsmFromCheckLimit, fsmFromWaitingForMissingData,
    fsmFromTransferCompletion, handleTransferCompletion, noticeOfCompletion, hrc, hd, hinc, hf, getP, emitInd,
    transmissionMode, hm, fsmFromSendingFinishedPdu, hr, prepareFinishedPdu, addPacket,
    handleFinishedPduSent, startPositiveAckProcedure, modP, fsmFromWaitingForFinishedAck,
    handleWaitingForFinishedAck, handlePositiveAckProcedures, Timer.timedOut, hms, afterCancelCompletion,
    doneCancelP]
  all_goals (
    have e : d.p.fin = { cond := d.p.fin.cond, deliv := dcIncomplete, fstat := d.p.fin.fstat, floc := d.p.fin.floc } := by
      cases hfin : d.p.fin; simp_all
    try simp [← e])

end AckCancel

open Source.C07 in
/-- draining after every call keeps the ready counter where it was while tiles are streamed -/
theorem stream_keeps_numReady (env : Source.Env) (req : Source.PutReq) (src : String) (F : List UInt8) :
    ∀ (k : Nat) (s s' : Source.SrcSt) (out : List Pdu), Sending s req src F →
      (k = 0 ∨ s.p.progress + (k - 1) * s.p.segmentLen < F.length) →
      rounds env k s = some (out, s') → s'.numReady = s.numReady := by
  intro k
  induction k with
  | zero => intro s s' out _ _ h; simp [rounds] at h; rw [h.2]
  | succ k ih =>
    intro s s' out hs hk hr
    have hlt : s.p.progress < s.p.fileSize := by
      rw [hs.hsize]; rcases hk with h | h
      · omega
      · exact Nat.lt_of_le_of_lt (Nat.le_add_right _ _) h
    have hcall := C07_file_data_call env s req src F hs.hbusy hs.hstep hs.hqueue hs.hreq hs.hsrc hs.hfile hlt hs.hnotMo
    obtain ⟨hrl, hpos, hle, hle2, hinv'⟩ := C07_read_len_is_tile s.p hs.hinv hlt
    have hs' : Sending (drained (afterTile s F)) req src F :=
      { hbusy := by simp [drained, afterTile, hs.hbusy], hstep := by simp [drained, afterTile],
        hqueue := by simp [drained], hreq := by simp [drained, afterTile, hs.hreq], hsrc := hs.hsrc,
        hfile := by simp [drained, afterTile, hs.hfile], hsize := by simp [drained, afterTile, hs.hsize],
        hnotMo := by simp [drained, afterTile, hs.hnotMo], hinv := by simpa [drained, afterTile] using hinv' }
    have hk' : k = 0 ∨ (drained (afterTile s F)).p.progress + (k - 1) * (drained (afterTile s F)).p.segmentLen
        < F.length := by
      by_cases hk0 : k = 0
      · exact Or.inl hk0
      · right
        have h := hk.resolve_left (by omega)
        simp only [drained, afterTile, Nat.add_sub_cancel] at *
        have hseg : s.p.progress + s.p.segmentLen ≤ s.p.progress + k * s.p.segmentLen :=
          Nat.add_le_add_left (Nat.le_mul_of_pos_left _ (by omega)) _
        have hrl' : Source.readLen s.p = s.p.segmentLen := by rw [hrl, hs.hsize]; omega
        rw [hrl']
        have : s.p.progress + s.p.segmentLen + (k - 1) * s.p.segmentLen = s.p.progress + k * s.p.segmentLen := by
          have : k = (k - 1) + 1 := by omega
          rw [this, Nat.add_mul]; simp; omega
        omega
    simp only [rounds, round, hcall] at hr
    cases hrr : rounds env k (drained (afterTile s F)) with
    | none => simp [hrr] at hr
    | some x =>
      obtain ⟨o, s''⟩ := x
      simp [hrr] at hr
      have := ih _ s'' o hs' hk' hrr
      rw [← hr.2, this]
      simp [drained, afterTile]

open Source.C07 Source.C19 Cfdp.C02 in
/-- **A cancel request at the sender in the middle of the file: the two models composed**
(unacknowledged mode, no closure).  The sender has emitted Metadata and `m` tiles — not the whole file
— when its user cancels the transaction.  The request returns true; the very next PDU is an EOF with
condition Cancel request received, file size `m·seg` (the bytes sent) and the checksum of exactly that
prefix; the sender is idle at once, so no further file data follows.  The receiver, which has taken
Metadata and the tiles, finishes with that EOF: its user gets Transaction-Finished with the cancel
condition, the sender as fault location and Data incomplete; the incomplete file is deleted (the filestore's delete operation is applied to the destination path,
`C17`) exactly when disposition-on-cancellation is configured; the handler is idle; no other path changes. -/
theorem C12_end_to_end_cancel_unack (envS : Source.Env) (envD : Dest.Env) (s : Source.SrcSt) (d0 : Dest.DestSt)
    (req : Source.PutReq) (rcS rcD : RemoteCfg) (src dst : String) (F cks : List UInt8) (seg m : Nat) (tidU : Tid)
    (hst : s.state = .busy) (hstep : s.step = .IDLE) (hq : s.queue = []) (hnr : s.numReady = 0)
    (hreq : s.putReq = some req)
    (hpmo : s.p.metadataOnly = false) (hsrc : req.src = some src) (hdst : req.dst = some dst)
    (hfile : s.fs.get src = some (.file F)) (hF : F ≠ []) (hprog : s.p.progress = 0)
    (hrc : s.p.remoteCfg = some rcS) (hbits : s.prov.bits = 8 ∨ s.prov.bits = 16 ∨ s.prov.bits = 32)
    (hseg : Source.segLenOf rcS (startConf envS req rcS s (decide (F.length > 4294967295))) = some seg)
    (hseg0 : 0 < seg) (hmode : s.p.conf.mode = .unack) (hcl : s.p.closure = false)
    (hce : s.p.condCodeEof = none)
    (hm : m * seg < F.length)
    (hcks : Checksum.calcChecksum (Checksum.CksType.ofNat rcS.cks) F (m * seg) seg = .ok cks)
    (hnull : Checksum.CksType.ofNat rcS.cks ≠ .null) (hlen : cks.length = 4)
    (hidU : sameTid ⟨envS.cfg.entityId, ⟨s.prov.next, s.prov.bits / 8⟩⟩ tidU = true)
    (ha : Admissible envD rcD { startConf envS req rcS s (decide (F.length > 4294967295)) with dir := .toRecv })
    (hidle : d0.state = .idle) (hdq : d0.queue = []) (hdr : d0.numReady = 0) (hrej : d0.rejects = [])
    (hfl : d0.flts = []) (hnd : Fs.isDir d0.fs dst = false)
    (hok : (∃ old, d0.fs.get dst = some (.file old)) ∨
           (Fs.exists' d0.fs dst = false ∧ Fs.parentIsDir d0.fs dst = true)) :
    let conf := startConf envS req rcS s (decide (F.length > 4294967295))
    let eofC := Source.mkEof conf ccCancelRequest cks (m * seg)
    ∃ pdus s2 s3 d2 d3,
      rounds envS (1 + m) s = some (pdus, s2) ∧
      Source.cancelRequest envS tidU s2 = .ok true s3 ∧ s3.queue = [eofC] ∧ s3.state = .idle ∧
      (∀ env', Source.stateMachine env' none (Source.C07.drained s3) = .ok () (Source.C07.drained s3)) ∧
      feedPdus envD pdus d0 = some d2 ∧
      Dest.stateMachine envD (some eofC) d2 = .ok () d3 ∧
      d3.state = .idle ∧ d3.queue = [] ∧ d3.flts = [] ∧
      (rcD.disp = false → d3.fs.get dst = some (.file (F.take (m * seg)))) ∧
      (rcD.disp = true → d3.fs = (Fs.deleteFile d2.fs dst).2) ∧
      (∀ q, q ≠ dst → d3.fs.get q = d0.fs.get q) ∧
      d3.inds.filter isFinished = d0.inds.filter isFinished ++
        (if envD.cfg.indFinished
          then [.finished (some ⟨conf.src, conf.seq⟩) ⟨ccCancelRequest, dcIncomplete,
            if rcD.disp then fsDiscardedDeliberately else fsRetained, some rcD.entityId⟩] else []) := by
  intro conf eofC
  -- the sender up to tile m
  obtain ⟨hcall1, hS1⟩ := C07_metadata_call envS s req rcS src dst F seg hst hstep hq hreq hpmo hsrc hdst hfile hF
    hprog hrc hbits hseg hseg0
  have hkm : m = 0 ∨ (Source.C07.drained (afterMetadata envS s req rcS src dst F seg)).p.progress +
      (m - 1) * (Source.C07.drained (afterMetadata envS s req rcS src dst F seg)).p.segmentLen < F.length := by
    rcases Nat.eq_zero_or_pos m with h0 | h0
    · exact Or.inl h0
    · right
      simp only [Source.C07.drained, afterMetadata, hprog, Nat.zero_add]
      have : (m - 1) * seg ≤ m * seg := Nat.mul_le_mul_right _ (by omega)
      omega
  obtain ⟨s2, hr2, hp2, hc2, hsg2, hst2, hS2, hFr2⟩ := C07_stream_tiles envS req src F m _ hS1 hkm
  have hnr2 := stream_keeps_numReady envS req src F m _ s2 _ hS1 hkm hr2
  simp only [Frame] at hFr2
  obtain ⟨f1, f2, f3, f4, f5, f6, f7, f8, f9, f10, f11, f12, f13, f14, f15, f16⟩ := hFr2
  have hconf2 : s2.p.conf = conf := by rw [hc2]; simp [Source.C07.drained, afterMetadata, conf]
  have hseg2 : s2.p.segmentLen = seg := by rw [hsg2]; simp [Source.C07.drained, afterMetadata]
  have hprog2 : s2.p.progress = m * seg := by
    rw [hp2]; simp only [Source.C07.drained, afterMetadata, hprog, Nat.zero_add]
    exact Nat.min_eq_right (by omega)
  have hrun1 : rounds envS (1 + m) s = some
      ([Source.mkMd conf s.p.closure rcS.cks F.length (some src) (some dst) (some (req.msgs.getD []))] ++
        (List.range m).map (tile conf F seg 0), s2) := by
    have h1r : rounds envS 1 s = some
        ([Source.mkMd conf s.p.closure rcS.cks F.length (some src) (some dst) (some (req.msgs.getD []))],
         Source.C07.drained (afterMetadata envS s req rcS src dst F seg)) := by
      simp only [rounds, round, hcall1]
      simp [afterMetadata, conf]
    rw [rounds_add envS 1 m s, h1r]
    simp only [hr2]
    simp [Source.C07.drained, afterMetadata, hprog, conf]
  -- the cancel request
  obtain ⟨s3, hcan, hq3, hidle3, -⟩ := C12_source_cancel_eof envS tidU ⟨envS.cfg.entityId, ⟨s.prov.next, s.prov.bits / 8⟩⟩
    s2 req rcS src F cks hS2.hbusy
    (by rw [hnr2]; simp [Source.C07.drained, afterMetadata, hnr])
    (by rw [f2]; simp [Source.C07.drained, afterMetadata]) hidU
    (by simp [Source.cancelInProgress, f16, Source.C07.drained, afterMetadata, hce])
    hS2.hreq hS2.hsrc hS2.hnotMo hS2.hfile (by rw [f1]; simp [Source.C07.drained, afterMetadata, hrc]) hnull
    (by rw [hprog2, hseg2]; exact hcks) hlen
  have hmode2 : s2.p.conf.mode = .unack := by rw [hconf2]; simp [conf, startConf, hmode]
  have hid3 := hidle3 hmode2
  rw [hS2.hqueue, List.nil_append, hconf2, hprog2] at hq3
  -- the receiver
  obtain ⟨hmd, hR1⟩ := C02_metadata envD d0 { conf with dir := .toRecv } rcD rcS.cks F.length src dst
    (some (req.msgs.getD [])) false ha hidle hdq hdr hrej hfl hnd hok
  obtain ⟨d2, hfeed2, hR2, hother2, hfin2, _⟩ := receiver_takes_tiles envD conf rcD _ rcS.cks dst false F seg hseg0 ha m _
    (by rcases Nat.eq_zero_or_pos m with h0 | h0
        · exact Or.inl h0
        · right
          have : (m - 1) * seg ≤ m * seg := Nat.mul_le_mul_right _ (by omega)
          omega) hR1
  have heofc := C12_dest_eof_cancel_call envD d2 dst (F.take (m * seg)) cks rcD _ rcS.cks { conf with dir := .toRecv }
    ccCancelRequest (m * seg) hR2 ha (by decide)
  have hfeed : feedPdus envD
      ([Source.mkMd conf s.p.closure rcS.cks F.length (some src) (some dst) (some (req.msgs.getD []))] ++
        (List.range m).map (tile conf F seg 0)) d0 = some d2 := by
    have hmdq : Source.mkMd conf s.p.closure rcS.cks F.length (some src) (some dst) (some (req.msgs.getD [])) =
        Pdu.md { conf with dir := .toRecv } false rcS.cks F.length (some src) (some dst) (some (req.msgs.getD [])) := by
      simp [Source.mkMd, hcl]
    rw [feedPdus_append, hmdq]
    simp only [feedPdus, hmd, Option.bind, hfeed2]
  have hget2 : ∀ q, q ≠ dst → d2.fs.get q = d0.fs.get q := by
    intro q hq'
    rw [hother2 q hq']
    simp [afterMd, Fs.C17.get_set_other _ _ _ _ hq']
  refine ⟨_, s2, s3, d2, afterEofCancel envD d2 ⟨conf.src, conf.seq⟩ ccCancelRequest rcD, hrun1, hcan, hq3, hid3, ?_, hfeed, ?_, rfl, hR2.hqueue, hR2.hflts, ?_, ?_, ?_, ?_⟩
  · intro env'
    msimp [Source.stateMachine, Source.C07.drained, hid3]
  · simpa [eofC, Source.mkEof] using heofc
  · intro hd
    simp [afterEofCancel, hd, hR2.hfile]
  · intro hd
    simp [afterEofCancel, hd, hR2.hname]
  · intro q hq'
    simp only [afterEofCancel, hR2.hname]
    cases hd : rcD.disp
    · simp; exact hget2 q hq'
    · simp only [ite_true, Fs.deleteFile]
      split
      · exact hget2 q hq'
      · split
        · exact hget2 q hq'
        · rw [Fs.C17.get_del_other _ _ _ hq']; exact hget2 q hq'
  · simp only [afterEofCancel, List.filter_append, hfin2]
    have h1 : (afterMd envD d0 { conf with dir := .toRecv } rcD rcS.cks F.length src dst
        (some (req.msgs.getD [])) false).inds.filter isFinished = d0.inds.filter isFinished := by
      simp [afterMd, isFinished]
    rw [h1]
    cases envD.cfg.indEofRecv <;> cases envD.cfg.indFinished <;> simp [isFinished]

def cancelSP (p : Source.Params) (now ms : Nat) : Source.Params :=
  { p with condCodeEof := some ccCancelRequest, ackTimer := some ⟨now, ms⟩, ackCounter := 0 }

/-- sender after an accepted cancel request, acknowledged mode -/
def afterCancelS (env : Source.Env) (s : Source.SrcSt) (rc : RemoteCfg) (cks : List UInt8) (t : Tid) : Source.SrcSt :=
  { s with step := .WAITING_FOR_EOF_ACK, p := cancelSP s.p env.now rc.ackMs,
           queue := s.queue ++ [Source.mkEof s.p.conf ccCancelRequest cks s.p.progress],
           numReady := s.numReady + 1,
           inds := s.inds ++ (if env.cfg.indEofSent then [Ind.eofSent t] else []) }

/-- `C12_source_cancel_eof` in acknowledged mode, with the exact resulting state -/
theorem C12_source_cancel_eof_ack_exact (env : Source.Env) (tid t : Tid) (s : Source.SrcSt) (req : Source.PutReq)
    (rc : RemoteCfg) (src : String) (cks : List UInt8)
    (hb : s.state = .busy) (hr : ¬ s.numReady > 0) (ht : s.p.tid = some t)
    (hid : t.src.val = tid.src.val ∧ t.seq.val = tid.seq.val)
    (hnc : Source.cancelInProgress s.p = none)
    (hreq : s.putReq = some req) (hsrc : req.src = some src) (hmo : s.p.metadataOnly = false)
    (hrc : s.p.remoteCfg = some rc) (hm : s.p.conf.mode = .ack)
    (hc : Fs.calcChecksum s.fs (Checksum.CksType.ofNat rc.cks) src s.p.progress s.p.segmentLen = .ok cks)
    (hlen : cks.length = 4) :
    Source.cancelRequest env tid s = .ok true (afterCancelS env s rc cks t) := by
  cases hi : env.cfg.indEofSent <;>
  msimp [Source.cancelRequest, hb, hr, ht, hid.1, hid.2, Source.noticeOfCancellation, hnc, Source.getP,
    Source.modP, Source.checksumCalculation, hreq, hsrc, hmo, hrc, hc, Source.prepareEofPdu, hlen,
    Source.addPacket, Source.emitInd, hi, Source.handleEofSent, Source.transmissionMode, hm,
    Source.startPositiveAckProcedure, afterCancelS, cancelSP]

open Source.C07 Source.C19 Cfdp.C02 Cfdp.C03 in
/-- **A cancel request at the sender in the middle of the file, acknowledged mode: the two models
composed.**  As `C12_end_to_end_cancel_unack` up to the EOF (Cancel request received, size and
checksum of exactly the prefix sent); the sender then waits for the ACK of that EOF.  The receiver
acknowledges it with the same condition; its next call tells its user (cancel condition, the sender
as fault location, Data incomplete), deletes the incomplete file exactly when the disposition is
configured and emits one Finished PDU with those values; the sender records them, acknowledges, and
reports the very same values to its user; both end idle.  No call raises. -/
theorem C12_end_to_end_cancel_ack (envS : Source.Env) (envD : Dest.Env) (s : Source.SrcSt) (d0 : Dest.DestSt)
    (req : Source.PutReq) (rcS rcD : RemoteCfg) (src dst : String) (F cks : List UInt8) (seg m : Nat) (tidU : Tid)
    (t1 t2 t3 t4 t5 : Nat)
    (hst : s.state = .busy) (hstep : s.step = .IDLE) (hq : s.queue = []) (hnr : s.numReady = 0)
    (hreq : s.putReq = some req)
    (hpmo : s.p.metadataOnly = false) (hsrc : req.src = some src) (hdst : req.dst = some dst)
    (hfile : s.fs.get src = some (.file F)) (hF : F ≠ []) (hprog : s.p.progress = 0)
    (hrc : s.p.remoteCfg = some rcS) (hrcid : rcS.entityId.val = req.destId.val)
    (hbits : s.prov.bits = 8 ∨ s.prov.bits = 16 ∨ s.prov.bits = 32)
    (hseg : Source.segLenOf rcS (startConf envS req rcS s (decide (F.length > 4294967295))) = some seg)
    (hseg0 : 0 < seg) (hmode : s.p.conf.mode = .ack) (hct : s.p.checkTimer = none)
    (hce : s.p.condCodeEof = none)
    (hm : m * seg < F.length)
    (hcks : Checksum.calcChecksum (Checksum.CksType.ofNat rcS.cks) F (m * seg) seg = .ok cks)
    (hnull : Checksum.CksType.ofNat rcS.cks ≠ .null) (hlen : cks.length = 4)
    (hidU : sameTid ⟨envS.cfg.entityId, ⟨s.prov.next, s.prov.bits / 8⟩⟩ tidU = true)
    (ha : AdmissibleA envD rcD { startConf envS req rcS s (decide (F.length > 4294967295)) with dir := .toRecv })
    (hackD : rcD.ackMs ≠ 0)
    (hidle : d0.state = .idle) (hdq : d0.queue = []) (hdr : d0.numReady = 0) (hrej : d0.rejects = [])
    (hfl : d0.flts = []) (hnd : Fs.isDir d0.fs dst = false)
    (hok : (∃ old, d0.fs.get dst = some (.file old)) ∨
           (Fs.exists' d0.fs dst = false ∧ Fs.parentIsDir d0.fs dst = true)) :
    let conf := startConf envS req rcS s (decide (F.length > 4294967295))
    let cd : Hdr := ⟨.toSend, conf.mode, conf.crc, conf.large, conf.src, conf.dst, conf.seq⟩
    let tid : Tid := ⟨envS.cfg.entityId, ⟨s.prov.next, s.prov.bits / 8⟩⟩
    let eofC := Source.mkEof conf ccCancelRequest cks (m * seg)
    let fpC : FinishedParams := ⟨ccCancelRequest, dcIncomplete,
      if rcD.disp then fsDiscardedDeliberately else fsRetained, some rcD.entityId⟩
    ∃ pdus s2 s3 d2 d3 s4 d4 s5 d5 s6,
      rounds envS (1 + m) s = some (pdus, s2) ∧
      Source.cancelRequest envS tidU s2 = .ok true s3 ∧ s3.queue = [eofC] ∧
      feedPdus envD pdus d0 = some d2 ∧
      Dest.stateMachine envD (some eofC) d2 = .ok () d3 ∧
      d3.queue = [.ack cd dtEof ccCancelRequest tsActive] ∧
      Source.stateMachine ⟨envS.cfg, t1⟩ (some (.ack cd dtEof ccCancelRequest tsActive)) (Source.C07.drained s3) = .ok () s4 ∧
      s4.queue = [] ∧
      Dest.stateMachine ⟨envD.cfg, t2⟩ none (drained d3) = .ok () d4 ∧ d4.queue = [.fin cd fpC] ∧
      Source.stateMachine ⟨envS.cfg, t3⟩ (some (.fin cd fpC)) s4 = .ok () s5 ∧
      s5.queue = [Source.mkAck conf dtFinished ccCancelRequest tsActive] ∧
      Dest.stateMachine ⟨envD.cfg, t4⟩ (some (Source.mkAck conf dtFinished ccCancelRequest tsActive)) (drained d4) = .ok () d5 ∧
      Source.stateMachine ⟨envS.cfg, t5⟩ none (Source.C07.drained s5) = .ok () s6 ∧
      s6.state = .idle ∧ d5.state = .idle ∧ s6.queue = [] ∧ d5.queue = [] ∧ d5.flts = [] ∧
      (rcD.disp = false → d5.fs.get dst = some (.file (F.take (m * seg)))) ∧
      (rcD.disp = true → d5.fs = (Fs.deleteFile d2.fs dst).2) ∧
      (∀ q, q ≠ dst → d2.fs.get q = d0.fs.get q) ∧
      s6.inds.filter isFinished = s.inds.filter isFinished ++
        (if envS.cfg.indFinished then [.finished (some tid) fpC] else []) ∧
      d5.inds.filter isFinished = d0.inds.filter isFinished ++
        (if envD.cfg.indFinished then [.finished (some ⟨conf.src, conf.seq⟩) fpC] else []) := by
  intro conf cd tid eofC fpC
  have hsrcv : conf.src.val = envS.cfg.entityId.val := by simp [conf, startConf]
  have hdstv : conf.dst.val = rcS.entityId.val := by simp [conf, startConf, hrcid]
  have hmodeC : conf.mode = .ack := by simp [conf, startConf, hmode]
  -- the sender up to tile m
  obtain ⟨hcall1, hS1⟩ := C07_metadata_call envS s req rcS src dst F seg hst hstep hq hreq hpmo hsrc hdst hfile hF
    hprog hrc hbits hseg hseg0
  have hkm : m = 0 ∨ (Source.C07.drained (afterMetadata envS s req rcS src dst F seg)).p.progress +
      (m - 1) * (Source.C07.drained (afterMetadata envS s req rcS src dst F seg)).p.segmentLen < F.length := by
    rcases Nat.eq_zero_or_pos m with h0 | h0
    · exact Or.inl h0
    · right
      simp only [Source.C07.drained, afterMetadata, hprog, Nat.zero_add]
      have : (m - 1) * seg ≤ m * seg := Nat.mul_le_mul_right _ (by omega)
      omega
  obtain ⟨s2, hr2, hp2, hc2, hsg2, hst2, hS2, hFr2⟩ := C07_stream_tiles envS req src F m _ hS1 hkm
  have hnr2 := stream_keeps_numReady envS req src F m _ s2 _ hS1 hkm hr2
  simp only [Frame] at hFr2
  obtain ⟨f1, f2, f3, f4, f5, f6, f7, f8, f9, f10, f11, f12, f13, f14, f15, f16⟩ := hFr2
  have hconf2 : s2.p.conf = conf := by rw [hc2]; simp [Source.C07.drained, afterMetadata, conf]
  have hseg2 : s2.p.segmentLen = seg := by rw [hsg2]; simp [Source.C07.drained, afterMetadata]
  have hprog2 : s2.p.progress = m * seg := by
    rw [hp2]; simp only [Source.C07.drained, afterMetadata, hprog, Nat.zero_add]
    exact Nat.min_eq_right (by omega)
  have hrun1 : rounds envS (1 + m) s = some
      ([Source.mkMd conf s.p.closure rcS.cks F.length (some src) (some dst) (some (req.msgs.getD []))] ++
        (List.range m).map (tile conf F seg 0), s2) := by
    have h1r : rounds envS 1 s = some
        ([Source.mkMd conf s.p.closure rcS.cks F.length (some src) (some dst) (some (req.msgs.getD []))],
         Source.C07.drained (afterMetadata envS s req rcS src dst F seg)) := by
      simp only [rounds, round, hcall1]
      simp [afterMetadata, conf]
    rw [rounds_add envS 1 m s, h1r]
    simp only [hr2]
    simp [Source.C07.drained, afterMetadata, hprog, conf]
  -- the cancel request: exact resulting state
  have hc : Fs.calcChecksum s2.fs (Checksum.CksType.ofNat rcS.cks) src s2.p.progress s2.p.segmentLen = .ok cks := by
    rw [hprog2, hseg2]; simp [Fs.calcChecksum, hnull, hS2.hfile, hcks]
  have htid2 : s2.p.tid = some tid := by rw [f2]; simp [Source.C07.drained, afterMetadata, tid]
  have hrc2 : s2.p.remoteCfg = some rcS := by rw [f1]; simp [Source.C07.drained, afterMetadata, hrc]
  have hmode2 : s2.p.conf.mode = .ack := by rw [hconf2]; exact hmodeC
  have hid' : envS.cfg.entityId.val = tidU.src.val ∧ s.prov.next = tidU.seq.val := by
    simpa [sameTid, tid] using hidU
  have hcan := C12_source_cancel_eof_ack_exact envS tidU tid s2 req rcS src cks hS2.hbusy
    (by rw [hnr2]; simp [Source.C07.drained, afterMetadata, hnr]) htid2 hid'
    (by simp [Source.cancelInProgress, f16, Source.C07.drained, afterMetadata, hce])
    hS2.hreq hS2.hsrc hS2.hnotMo hrc2 hmode2 hc hlen
  -- the receiver up to the EOF (cancel)
  obtain ⟨hmd, hR1⟩ := C02_metadata_ack envD d0 { conf with dir := .toRecv } rcD s.p.closure rcS.cks F.length src dst
    (some (req.msgs.getD [])) ha hidle hdq hdr hrej hfl hnd hok
  obtain ⟨d2, hfeed2, hR2, hother2, hfin2⟩ := receiver_takes_tiles_ack envD conf _ rcD _ rcS.cks dst F seg hseg0 ha m _
    (by rcases Nat.eq_zero_or_pos m with h0 | h0
        · exact Or.inl h0
        · right
          have : (m - 1) * seg ≤ m * seg := Nat.mul_le_mul_right _ (by omega)
          omega) hR1
  have heofc := C12_dest_eof_cancel_call_ack envD d2 dst (F.take (m * seg)) cks rcD _ rcS.cks cd
    { conf with dir := .toRecv } ccCancelRequest (m * seg) hR2 ha (by decide)
  have hfeed : feedPdus envD
      ([Source.mkMd conf s.p.closure rcS.cks F.length (some src) (some dst) (some (req.msgs.getD []))] ++
        (List.range m).map (tile conf F seg 0)) d0 = some d2 := by
    rw [feedPdus_append]
    simp only [feedPdus, Source.mkMd, hmd, Option.bind, hfeed2]
  have hget2 : ∀ q, q ≠ dst → d2.fs.get q = d0.fs.get q := by
    intro q hq'
    rw [hother2 q hq']
    simp [afterMdA, Fs.C17.get_set_other _ _ _ _ hq']
  -- ACK (EOF) at the sender
  have hadm : ∀ t (s' : Source.SrcSt), s'.p.conf = conf → s'.p.remoteCfg = some rcS →
      AdmissibleS ⟨envS.cfg, t⟩ s' rcS cd := fun t s' h1 h2 =>
    { hdir := rfl, hsrc := hsrcv, hrc := h2, hdst := hdstv, hseq := by rw [h1], hmode := by rw [h1]; exact hmodeC }
  have hq2 : s2.queue = [] := hS2.hqueue
  have h4 := C02_source_eof_acked ⟨envS.cfg, t1⟩ (Source.C07.drained (afterCancelS envS s2 rcS cks tid)) rcS cd
    ccCancelRequest tsActive req (hadm t1 _ hconf2 hrc2) hS2.hbusy rfl rfl hS2.hreq
    (by show s2.p.checkTimer = none; rw [f15]; simp [Source.C07.drained, afterMetadata, hct])
  -- completion of the cancelled transfer at the receiver
  have h5 := C12_dest_cancel_completion_call ⟨envD.cfg, t2⟩
    (drained (afterEofCancelA envD d2 ⟨conf.src, conf.seq⟩ ccCancelRequest (m * seg) cks rcD)) rcD hR2.hbusy rfl rfl rfl rfl
    hR2.hrc (by show d2.p.conf.mode = .ack; rw [hR2.hconf]; exact hmodeC) rfl hackD
  -- the Finished (cancel) PDU at the sender
  have h6 := C03_sender_finished_any ⟨envS.cfg, t3⟩
    { Source.C07.drained (afterCancelS envS s2 rcS cks tid) with step := .WAITING_FOR_FINISHED } rcS cd fpC req
    (hadm t3 _ hconf2 hrc2) hS2.hbusy (Or.inr (Or.inl rfl)) rfl hS2.hreq
  have h7 := C02_finished_acked ⟨envD.cfg, t4⟩
    (drained (afterCancelCompletion ⟨envD.cfg, t2⟩
      (drained (afterEofCancelA envD d2 ⟨conf.src, conf.seq⟩ ccCancelRequest (m * seg) cks rcD)) rcD))
    rcD { conf with dir := .toRecv } ccCancelRequest tsActive ⟨rfl, ha.hdst, ha.hsrc, ha.hmode⟩ hR2.hbusy rfl rfl
    (by show d2.p.conf.mode = .ack; rw [hR2.hconf]; exact hmodeC)
  have h8 := C02_source_completion ⟨envS.cfg, t5⟩
    (Source.C07.drained (afterFinS (waitFinS
      { Source.C07.drained (afterCancelS envS s2 rcS cks tid) with step := .WAITING_FOR_FINISHED }) fpC)) fpC tid req
    hS2.hbusy rfl rfl hS2.hreq rfl htid2
  have hfinD : (cancelP d2.p ccCancelRequest (m * seg) cks rcD.entityId).fin =
      ⟨ccCancelRequest, dcIncomplete, fsRetained, some rcD.entityId⟩ := by
    simp [cancelP, hR2.hfin]
  refine ⟨_, s2, _, d2, _, _, _, _,
    idleOf (drained (afterCancelCompletion ⟨envD.cfg, t2⟩
      (drained (afterEofCancelA envD d2 ⟨conf.src, conf.seq⟩ ccCancelRequest (m * seg) cks rcD)) rcD)), _,
    hrun1, hcan, ?_, hfeed, ?_, ?_, h4, rfl, h5, ?_, h6, ?_, ?_, h8, rfl, rfl, rfl, rfl, ?_, ?_, ?_, hget2, ?_, ?_⟩
  · simp [afterCancelS, hq2, hconf2, hprog2, eofC]
  · simpa [eofC, Source.mkEof] using heofc
  · simp [afterEofCancelA, hR2.hconf, Dest.mkAck, dtEof, dtFinished, cd]
  · cases hd : rcD.disp <;>
      simp [afterCancelCompletion, C02.drained, afterEofCancelA, cancelP, hR2.hconf, hR2.hfin, Dest.mkFin, cd, fpC, hd]
  · show [Source.mkAck s2.p.conf dtFinished fpC.cond tsActive] = _
    rw [hconf2]
  · simpa [Source.mkAck, dtFinished, idleOf] using h7
  · simp [idleOf, C02.drained, afterCancelCompletion, afterEofCancelA, hR2.hflts]
  · intro hd
    simp [idleOf, C02.drained, afterCancelCompletion, afterEofCancelA, hd, hR2.hfile]
  · intro hd
    simp [idleOf, C02.drained, afterCancelCompletion, afterEofCancelA, hd, cancelP, hR2.hname]
  · simp only [Source.C07.drained, afterFinS, waitFinS, afterCancelS, List.filter_append, f4]
    cases envS.cfg.indEofSent <;> cases envS.cfg.indFinished <;>
      simp [isFinished, Source.C07.drained, afterMetadata]
  · simp only [idleOf, C02.drained, afterCancelCompletion, afterEofCancelA, List.filter_append, hfin2, hfinD, cancelP,
      hR2.htid]
    have h1 : (afterMdA envD d0 { conf with dir := .toRecv } rcD s.p.closure rcS.cks F.length src dst
        (some (req.msgs.getD []))).inds.filter isFinished = d0.inds.filter isFinished := by
      simp [afterMdA, isFinished]
    rw [h1]
    cases envD.cfg.indEofRecv <;> cases envD.cfg.indFinished <;> cases hd : rcD.disp <;>
      simp [isFinished, fpC, hR2.hfin, hd]


/-! ### the hypotheses of the composed theorems are satisfiable (non-vacuity) -/

namespace Ex
open Cfdp.C03.Ex

/-- the sender of `C03.Ex` in unacknowledged mode -/
def sU : Source.SrcSt :=
  { s with p := { s.p with conf := { s.p.conf with mode := .unack } } }

/-- a 5-byte file in segments of 2; the user cancels after Metadata and one tile (2 bytes sent);
unacknowledged mode -/
example : True := by
  have h := C12_end_to_end_cancel_unack envS envD sU d0 req rcS rcD "/a" "/b" F [182, 204, 66, 146] 2 1
    ⟨⟨1, 2⟩, ⟨0, 2⟩⟩
    rfl rfl rfl rfl rfl rfl rfl rfl rfl (by decide) rfl rfl (by decide) (by decide) (by decide) rfl rfl rfl
    (by decide) (by decide +kernel) (by decide) rfl (by decide)
    ⟨rfl, rfl, by decide, rfl⟩
    rfl rfl rfl rfl rfl (by decide) (Or.inl ⟨[9], rfl⟩)
  trivial

/-- the same in acknowledged mode -/
example : True := by
  have h := C12_end_to_end_cancel_ack envS envD s d0 req rcS rcD "/a" "/b" F [182, 204, 66, 146] 2 1
    ⟨⟨1, 2⟩, ⟨0, 2⟩⟩ 1 2 3 4 5
    rfl rfl rfl rfl rfl rfl rfl rfl rfl (by decide) rfl rfl (by decide) (by decide) (by decide) (by decide) rfl rfl rfl
    (by decide) (by decide +kernel) (by decide) rfl (by decide)
    ⟨rfl, rfl, by decide, rfl⟩ (by decide)
    rfl rfl rfl rfl rfl (by decide) (Or.inl ⟨[9], rfl⟩)
  trivial

end Ex

end Cfdp.C12
