import CfdpVerif.Lemmas.Checksum
import CfdpVerif.Model.Source
import CfdpVerif.Lemmas.Monad
/-!
# C09 — file checksums are correct for every content, length and chunking

Statements over `Cfdp.Checksum` (model of `NativeFilestore.calculate_checksum/verify_checksum` and
`calc_modular_checksum`).  For every byte string, every prefix length (also beyond the end of the
file, where the Python reads short) and every positive chunk length.  The last section states the
EOF clause on the source handler model: every EOF PDU it queues (first, cancel, re-sent) carries this
function's value for the prefix of the source file it has sent.
-/
namespace Cfdp.Checksum.C09

open Cfdp.Checksum

/-- CRC-32 (ISO-HDLC): chunked computation = CRC of the prefix, for every positive chunk length. -/
theorem C09_crc32_chunk_independent (data : Bytes) (size seg : Nat) (hseg : 1 ≤ seg) :
    calcChecksum .crc32 data size seg = .ok (crcOf polyCrc32 (data.take size)) := by
  have : ¬ seg = 0 := by omega
  simp [calcChecksum, this, crcChunked_eq _ _ _ _ hseg]

/-- CRC-32C (Castagnoli): the same. -/
theorem C09_crc32c_chunk_independent (data : Bytes) (size seg : Nat) (hseg : 1 ≤ seg) :
    calcChecksum .crc32c data size seg = .ok (crcOf polyCrc32c (data.take size)) := by
  have : ¬ seg = 0 := by omega
  simp [calcChecksum, this, crcChunked_eq _ _ _ _ hseg]

/-- hence the result never depends on the chunk length -/
theorem C09_chunk_length_irrelevant (t : CksType) (data : Bytes) (size seg seg' : Nat)
    (h : 1 ≤ seg) (h' : 1 ≤ seg') :
    calcChecksum t data size seg = calcChecksum t data size seg' := by
  have n1 : ¬ seg = 0 := by omega
  have n2 : ¬ seg' = 0 := by omega
  cases t <;> simp [calcChecksum, n1, n2, crcChunked_eq _ _ _ _ h, crcChunked_eq _ _ _ _ h']

/-- Modular checksum: sum of the zero-padded big-endian 4-byte words of the prefix modulo 2^32,
as 4 big-endian bytes; the chunk length plays no role. -/
theorem C09_modular_spec (data : Bytes) (size seg : Nat) :
    calcChecksum .modular data size seg = .ok (natBE32 (wordsSum (data.take size) % 4294967296)) := by
  simp [calcChecksum, modular_eq]

/-- Null checksum: four zero bytes. -/
theorem C09_null_spec (data : Bytes) (size seg : Nat) :
    calcChecksum .null data size seg = .ok [0, 0, 0, 0] := rfl

/-- A zero chunk length is refused for the CRC types (the Python raises `ValueError`). -/
theorem C09_zero_chunk_refused (data : Bytes) (size : Nat) :
    calcChecksum .crc32 data size 0 = .error .valueError ∧
    calcChecksum .crc32c data size 0 = .error .valueError := by
  simp [calcChecksum]

/-- Verification is true exactly when the supplied value equals the calculated one. -/
theorem C09_verify_iff (cks : Bytes) (t : CksType) (data : Bytes) (size seg : Nat) (r : Bytes)
    (h : calcChecksum t data size seg = .ok r) :
    verify cks t data size seg = .ok (r == cks) ∧ ((r == cks) = true ↔ r = cks) := by
  simp [verify, h]

/-! ## Sanity: the standard check values (kernel evaluation of the model), and non-vacuity -/

def check123456789 : Bytes := [0x31, 0x32, 0x33, 0x34, 0x35, 0x36, 0x37, 0x38, 0x39]

example : crcOf polyCrc32 check123456789 = [0xCB, 0xF4, 0x39, 0x26] := by decide +kernel
example : crcOf polyCrc32c check123456789 = [0xE3, 0x06, 0x92, 0x83] := by decide +kernel
example : (calcChecksum .crc32 check123456789 9 4).toOption = some [0xCB, 0xF4, 0x39, 0x26] := by
  decide +kernel
example : (calcChecksum .modular [1, 2, 3, 4, 5] 5 1).toOption = some [6, 2, 3, 4] := by
  decide +kernel
example : (calcChecksum .modular [1, 2, 3, 4, 5] 4 1).toOption = some [1, 2, 3, 4] := by
  decide +kernel

section SourceEof
open Cfdp
set_option linter.unusedSimpArgs false
set_option linter.unusedVariables false

/-! ### the checksum the source places in its EOF PDUs

Every EOF PDU of the source model is queued by `prepareEofPdu` with a checksum computed by
`checksumCalculation size`; its file size field is the progress.  There are three such sites:
`fsmFromSendingEof` (all data sent: `size = fileSize = progress`; the whole-stream theorems of
`Props/C07.lean` pin this EOF down), `noticeOfCancellation` (EOF (cancel): `size = progress`) and the
re-send of the positive ACK procedure (`size = progress`). -/

/-- the checksum of an EOF PDU is that of the prefix of the source file of the given length -/
theorem C09_source_eof_pdu (env : Source.Env) (s : Source.SrcSt) (req : Source.PutReq) (rc : RemoteCfg)
    (src : String) (F cks : List UInt8) (cond size : Nat) (tid : Tid)
    (hreq : s.putReq = some req) (hsrc : req.src = some src) (hmo : s.p.metadataOnly = false)
    (hfile : s.fs.get src = some (.file F)) (hrc : s.p.remoteCfg = some rc)
    (hnull : CksType.ofNat rc.cks ≠ .null)
    (hcks : calcChecksum (CksType.ofNat rc.cks) F size s.p.segmentLen = .ok cks)
    (hlen : cks.length = 4) (hcond : s.p.condCodeEof = some cond) (htid : s.p.tid = some tid) :
    ∃ s', (Source.checksumCalculation size >>= Source.prepareEofPdu env) s = .ok () s' ∧
      s'.queue = s.queue ++ [Source.mkEof s.p.conf cond cks s.p.progress] ∧ s'.p = s.p := by
  have hc : Fs.calcChecksum s.fs (CksType.ofNat rc.cks) src size s.p.segmentLen = .ok cks := by
    simp [Fs.calcChecksum, hnull, hfile, hcks]
  cases hi : env.cfg.indEofSent <;>
  · apply Exists.intro
    constructor
    · msimp [Source.checksumCalculation, hreq, hsrc, hmo, hrc, hc, Source.prepareEofPdu, Source.getP, hcond, hlen,
        Source.addPacket, hi, htid, Source.emitInd]
      rfl
    · simp

/-- **the EOF PDU sent again by the positive ACK procedure** (regular or cancel) carries the checksum of
the bytes sent: the prefix of length `progress`, which is also its file size field — the same PDU as
the one sent first -/
theorem C09_source_eof_resent (env : Source.Env) (s : Source.SrcSt) (t : Timer) (rc : RemoteCfg)
    (req : Source.PutReq) (src : String) (F cks : List UInt8) (cond : Nat) (tid : Tid)
    (ht : s.p.ackTimer = some t) (hrc : s.p.remoteCfg = some rc) (hexp : t.timedOut env.now = true)
    (hlim : s.p.ackCounter + 1 < rc.ackLim)
    (hreq : s.putReq = some req) (hsrc : req.src = some src) (hmo : s.p.metadataOnly = false)
    (hfile : s.fs.get src = some (.file F)) (hnull : CksType.ofNat rc.cks ≠ .null)
    (hcks : calcChecksum (CksType.ofNat rc.cks) F s.p.progress s.p.segmentLen = .ok cks)
    (hlen : cks.length = 4) (hcond : s.p.condCodeEof = some cond) (htid : s.p.tid = some tid) :
    ∃ s', Source.handlePositiveAckProcedures env s = .ok () s' ∧
      s'.queue = s.queue ++ [Source.mkEof s.p.conf cond cks s.p.progress] := by
  have hl : ¬ rc.ackLim ≤ s.p.ackCounter + 1 := by omega
  have hc : Fs.calcChecksum s.fs (CksType.ofNat rc.cks) src s.p.progress s.p.segmentLen = .ok cks := by
    simp [Fs.calcChecksum, hnull, hfile, hcks]
  cases hi : env.cfg.indEofSent <;>
  · apply Exists.intro
    constructor
    · msimp [Source.handlePositiveAckProcedures, Source.getP, ht, hrc, hexp, hl, Source.modP,
        Source.checksumCalculation, hreq, hsrc, hmo, hc,
        Source.prepareEofPdu, hcond, hlen, Source.addPacket, hi, htid, Source.emitInd]
      rfl
    · simp

/-- **the EOF (cancel) PDU** queued by a notice of cancellation (cancel request or a cancelling fault, no
cancel exchange in progress yet) carries the checksum of the bytes sent so far -/
theorem C09_source_eof_cancel (env : Source.Env) (s : Source.SrcSt) (rc : RemoteCfg)
    (req : Source.PutReq) (src : String) (F cks : List UInt8) (cond : Nat) (tid : Tid)
    (hnc : Source.cancelInProgress s.p = none) (hrc : s.p.remoteCfg = some rc)
    (hreq : s.putReq = some req) (hsrc : req.src = some src) (hmo : s.p.metadataOnly = false)
    (hfile : s.fs.get src = some (.file F)) (hnull : CksType.ofNat rc.cks ≠ .null)
    (hcks : calcChecksum (CksType.ofNat rc.cks) F s.p.progress s.p.segmentLen = .ok cks)
    (hlen : cks.length = 4) (htid : s.p.tid = some tid) :
    ∃ s', Source.noticeOfCancellation env cond s = .ok true s' ∧
      s'.queue = s.queue ++ [Source.mkEof s.p.conf cond cks s.p.progress] := by
  have hc : Fs.calcChecksum s.fs (CksType.ofNat rc.cks) src s.p.progress s.p.segmentLen = .ok cks := by
    simp [Fs.calcChecksum, hnull, hfile, hcks]
  cases hm : s.p.conf.mode <;> cases hi : env.cfg.indEofSent <;> cases hs : s.state <;>
  · apply Exists.intro
    constructor
    · msimp [Source.noticeOfCancellation, hnc, Source.getP, hs,
        Source.modP, Source.checksumCalculation, hreq, hsrc, hmo, hrc, hc, Source.prepareEofPdu, hlen,
        Source.addPacket, Source.emitInd, hi, htid, Source.handleEofSent, Source.transmissionMode, hm,
        Source.startPositiveAckProcedure, Source.resetInternal]
      rfl
    · simp

/-- a metadata-only transaction has no file: its EOF PDUs carry the null checksum -/
theorem C09_source_eof_metadata_only (s : Source.SrcSt) (req : Source.PutReq) (size : Nat)
    (hreq : s.putReq = some req) (hmo : s.p.metadataOnly = true) :
    Source.checksumCalculation size s = .ok [0, 0, 0, 0] s := by
  msimp [Source.checksumCalculation, hreq, hmo]

end SourceEof

end Cfdp.Checksum.C09
