import CfdpVerif.Lemmas.Checksum
/-!
# C09 — file checksums are correct for every content, length and chunking

Statements over `Cfdp.Checksum` (model of `NativeFilestore.calculate_checksum/verify_checksum` and
`calc_modular_checksum`).  For every byte string, every prefix length (also beyond the end of the
file, where the Python reads short) and every positive chunk length.  The source handler's EOF
checksum is covered in `Props/C07.lean`/`C12.lean` (it is this function applied to the file).
-/
namespace Cfdp.Checksum.C09

open Cfdp.Checksum

/-- CRC-32 (ISO-HDLC): chunked computation = CRC of the prefix, for every positive chunk length. -/
theorem C09_crc32_chunk_independent (data : Bytes) (size seg : Nat) (hseg : 1 ≤ seg) :
    calcChecksum .crc32 data size seg = .ok (crcOf polyCrc32 (data.take size)) := by
  have : ¬ seg = 0 := by omega
  simp [calcChecksum, this, crcChunked_eq _ _ _ _ hseg]

/-- CRC-32C (Castagnoli): the same. -/
theorem C09_crc32c_chunk_independent (data : Bytes) (size seg : Nat) (hseg : 1 ≤ seg) :
    calcChecksum .crc32c data size seg = .ok (crcOf polyCrc32c (data.take size)) := by
  have : ¬ seg = 0 := by omega
  simp [calcChecksum, this, crcChunked_eq _ _ _ _ hseg]

/-- hence the result never depends on the chunk length -/
theorem C09_chunk_length_irrelevant (t : CksType) (data : Bytes) (size seg seg' : Nat)
    (h : 1 ≤ seg) (h' : 1 ≤ seg') :
    calcChecksum t data size seg = calcChecksum t data size seg' := by
  have n1 : ¬ seg = 0 := by omega
  have n2 : ¬ seg' = 0 := by omega
  cases t <;> simp [calcChecksum, n1, n2, crcChunked_eq _ _ _ _ h, crcChunked_eq _ _ _ _ h']

/-- Modular checksum: sum of the zero-padded big-endian 4-byte words of the prefix modulo 2^32,
as 4 big-endian bytes; the chunk length plays no role. -/
theorem C09_modular_spec (data : Bytes) (size seg : Nat) :
    calcChecksum .modular data size seg = .ok (natBE32 (wordsSum (data.take size) % 4294967296)) := by
  simp [calcChecksum, modular_eq]

/-- Null checksum: four zero bytes. -/
theorem C09_null_spec (data : Bytes) (size seg : Nat) :
    calcChecksum .null data size seg = .ok [0, 0, 0, 0] := rfl

/-- A zero chunk length is refused for the CRC types (the Python raises `ValueError`). -/
theorem C09_zero_chunk_refused (data : Bytes) (size : Nat) :
    calcChecksum .crc32 data size 0 = .error .valueError ∧
    calcChecksum .crc32c data size 0 = .error .valueError := by
  simp [calcChecksum]

/-- Verification is true exactly when the supplied value equals the calculated one. -/
theorem C09_verify_iff (cks : Bytes) (t : CksType) (data : Bytes) (size seg : Nat) (r : Bytes)
    (h : calcChecksum t data size seg = .ok r) :
    verify cks t data size seg = .ok (r == cks) ∧ ((r == cks) = true ↔ r = cks) := by
  simp [verify, h]

/-! ## Sanity: the standard check values (kernel evaluation of the model), and non-vacuity -/

def check123456789 : Bytes := [0x31, 0x32, 0x33, 0x34, 0x35, 0x36, 0x37, 0x38, 0x39]

example : crcOf polyCrc32 check123456789 = [0xCB, 0xF4, 0x39, 0x26] := by decide +kernel
example : crcOf polyCrc32c check123456789 = [0xE3, 0x06, 0x92, 0x83] := by decide +kernel
example : (calcChecksum .crc32 check123456789 9 4).toOption = some [0xCB, 0xF4, 0x39, 0x26] := by
  decide +kernel
example : (calcChecksum .modular [1, 2, 3, 4, 5] 5 1).toOption = some [6, 2, 3, 4] := by
  decide +kernel
example : (calcChecksum .modular [1, 2, 3, 4, 5] 4 1).toOption = some [1, 2, 3, 4] := by
  decide +kernel

end Cfdp.Checksum.C09
