import CfdpVerif.Lemmas.InvSourceFsFrame
import CfdpVerif.Props.C05
import CfdpVerif.Props.C15
/-!
# C16 — all file access goes through the user-supplied virtual filestore

What a theorem can say here is about the *model*: the handler models own no file state except the
`fs` field, which stands for the user's `VirtualFilestore`, and they touch it only through the
interface operations of `Model/Fs.lean` (`exists'`, `isDir`, `fileSize`, `readData`,
`calcChecksum`, `createFile`, `truncateFile`, `writeData`, `deleteFile`).  Proved:

* the sender never changes the filestore, in any call sequence (`C16_source_read_only`);
* the receiver changes it only at three sites (Metadata: create/truncate; File Data: write; cancel
  disposition: delete), each at the resolved destination path (`C05_no_write_outside_three_sites`,
  `C05_metadata_creates_or_truncates`, `C05_file_data_applies_write_model`,
  `C12_dest_notice_of_completion`).

Whether the *Python* handlers bypass the object they were given (a direct `open()` or
`Path.exists()`) cannot be seen in any model; that part of the property is decided by the
correspondence on an in-memory filestore whose paths do not exist on the host, compared with the
native filestore in a sandbox, plus an audit of host file-system access (see MANIFEST / evidence).
-/
set_option linter.unusedSimpArgs false

namespace Cfdp.C16

open Cfdp

/-- **The sender only reads.**  After any sequence of public calls — put requests, state-machine
calls with any PDU, packet retrieval, cancel requests, resets — the sender's filestore is exactly
the one it started with. -/
theorem C16_source_read_only (env : Source.Env) (calls : List C15.SCall) (s : Source.SrcSt) :
    (calls.foldl (fun s c => c.run env s) s).fs = s.fs := by
  have h : ∀ (calls : List C15.SCall) (s : Source.SrcSt) (F : Fs), s.fs = F →
      (calls.foldl (fun s c => c.run env s) s).fs = F := by
    intro calls
    induction calls with
    | nil => intro s F h; exact h
    | cons c cs ih =>
      intro s F hs
      apply ih
      cases c with
      | put r => exact Source.FsFrame.putRequest_f env F r s hs
      | sm pkt => exact Source.FsFrame.stateMachine_f env F pkt s hs
      | get => exact Source.FsFrame.getNextPacket_f env F s hs
      | cancel t => exact Source.FsFrame.cancelRequest_f env F t s hs
      | reset => exact Source.FsFrame.reset_f env F s hs
  exact h calls s s.fs rfl

/-- the receiver's methods that run before a destination is known leave the filestore alone
(instances of the frame lemmas) -/
theorem C16_dest_no_access_before_metadata (env : Dest.Env) (d : Dest.DestSt) (h : Hdr) (off : Nat)
    (data cks : List UInt8) (size : Nat) :
    (stateOf (Dest.handleWaitingForMissingMetadata env (some (.fd h off data)) d)).fs = d.fs ∧
    (stateOf (Dest.handleEofWithoutPreviousMetadata env ccNoError cks size d)).fs = d.fs :=
  ⟨C05.C05_fd_before_metadata_not_written env d h off data,
   (C05.C05_no_write_outside_three_sites env d).2.1 ccNoError cks size⟩

end Cfdp.C16
