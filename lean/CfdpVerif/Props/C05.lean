import CfdpVerif.Lemmas.InvDestFsFrame
import CfdpVerif.Props.C17
import CfdpVerif.Props.C10
import CfdpVerif.Lemmas.PathFrameDest
import CfdpVerif.Lemmas.EffectDest
/-!
# C05 — destination file equals the write-model of the accepted File Data PDUs

* `C05_no_write_outside_three_sites`: every method of the receiver except `_init_vfs_handling`
  (Metadata), the `write_data` of `_handle_fd_pdu` (File Data) and the deletion in
  `_notice_of_completion` (cancel disposition) leaves the filestore exactly as it is
  (`Lemmas/InvDestFsFrame.lean`, generated frame lemmas).  In particular File Data and EOF that arrive
  before the Metadata are never written anywhere (`C05_fd_before_metadata_not_written`).
* `C05_metadata_creates_or_truncates`: the Metadata resolves the destination path (directory ⇒ joined
  with the source base name) and leaves an empty file there; nothing else changes.
* `C05_file_data_applies_write_model`: processing a File Data PDU changes the filestore either not at
  all (write rejected / no such file) or exactly by `writeBytes` at the PDU's offset in the resolved
  destination file — whose byte-level meaning is `C17_write_read` / `C17_write_frame*` /
  `C17_write_gap_zero` (read-back, frame, zero-filled gap).
* `C05_completion_deletes_only_destination`: see `C12_dest_notice_of_completion`.
* EVERY STATE, EVERY INPUT, EVERY HISTORY: `C05_untouched_path_all_histories` (a path that no Metadata PDU
  names as destination keeps its initial content through any sequence of operations of any kind,
  `Lemmas/PathFrameDest.lean`), `C05_call_effect` / `C05_op_effect` / `C05_file_data_effect` (what one call
  can do to any path: nothing, delete it, write this call's File Data payload at its offset, or create /
  truncate it for this call's Metadata PDU — `Lemmas/EffectDest.lean`), `C05_wf_all_histories`.
-/
set_option linter.unusedSimpArgs false
set_option linter.unusedVariables false

namespace Cfdp.C05

open Cfdp Cfdp.Dest Cfdp.Dest.FsFrame

/-- a program that leaves the filestore as it is, in every state -/
def FsOnlyFrame {α : Type} (x : DM α) : Prop := ∀ F env, Preserves (FsEq env F) x

theorem FsOnlyFrame.fs_eq {α : Type} {x : DM α} (h : FsOnlyFrame x) (env : Env) (s : DestSt) :
    (stateOf (x s)).fs = s.fs := h s.fs env s rfl

/-- **Only three sites write.**  Each of these methods — in particular everything that handles File
Data or EOF before the Metadata, every EOF, the whole NAK / deferred lost-segment machinery, all
timer procedures, cancel requests, `get_next_packet` — returns (or raises) with the filestore
unchanged, from every state. -/
theorem C05_no_write_outside_three_sites (env : Env) (s : DestSt) :
    (∀ f o d, (stateOf (handleFdWithoutPreviousMetadata f o d s)).fs = s.fs) ∧
    (∀ cc c sz, (stateOf (handleEofWithoutPreviousMetadata env cc c sz s)).fs = s.fs) ∧
    (∀ c k sz, (stateOf (handleEofPdu env c k sz s)).fs = s.fs) ∧
    (stateOf (deferredLostSegmentHandling env s)).fs = s.fs ∧
    (stateOf (fsmAdvancementAfterPacketsWereSent env s)).fs = s.fs ∧
    (stateOf (checkLimitHandling env s)).fs = s.fs ∧
    (∀ c, (stateOf (declareFault c s)).fs = s.fs) ∧
    (∀ t, (stateOf (cancelRequest env t s)).fs = s.fs) ∧
    (stateOf (getNextPacket s)).fs = s.fs ∧
    (∀ p, (stateOf (checkInsertedPacket env p s)).fs = s.fs) ∧
    (∀ o l, (stateOf (lostSegmentHandling o l s)).fs = s.fs) := by
  refine ⟨fun f o d => ?_, fun cc c sz => ?_, fun c k sz => ?_, ?_, ?_, ?_, fun c => ?_, fun t => ?_, ?_,
    fun p => ?_, fun o l => ?_⟩
  · exact handleFdWithoutMd_f env s.fs f o d s rfl
  · exact handleEofWithoutMd_f env s.fs cc c sz s rfl
  · exact handleEofPdu_f env s.fs c k sz s rfl
  · exact deferred_f env s.fs s rfl
  · exact fsmAdvancement_f env s.fs s rfl
  · exact checkLimitHandling_f env s.fs s rfl
  · exact declareFault_f env s.fs c s rfl
  · exact cancelRequest_f env s.fs t s rfl
  · exact getNextPacket_f env s.fs s rfl
  · exact checkInserted_f env s.fs p s rfl
  · exact lostSegmentHandling_f env s.fs o l s rfl

/-- File Data that arrives before the Metadata (transaction start from File Data, or File Data
while waiting for the missing Metadata) is never written anywhere -/
theorem C05_fd_before_metadata_not_written (env : Env) (s : DestSt) (h : Hdr) (off : Nat) (data : List UInt8) :
    (stateOf (handleWaitingForMissingMetadata env (some (.fd h off data)) s)).fs = s.fs := by
  have : Preserves (FsEq env s.fs) (handleWaitingForMissingMetadata env (some (.fd h off data))) := by
    unfold handleWaitingForMissingMetadata
    preserves_with [getP_f env s.fs, handleFdWithoutMd_f env s.fs]
  exact this s rfl

/-- destination path resolution of `_init_vfs_handling` -/
def resolve (fs : Fs) (dname sourceBase : String) : String :=
  if Fs.isDir fs dname then Fs.joinPath dname sourceBase else dname

/-- state after a successful `_init_vfs_handling` -/
def afterInit (s : DestSt) (R : String) : DestSt :=
  { s with fs := s.fs.set R (.file []),
           p := { s.p with fileName := R, fin := { s.p.fin with fstat := fsRetained } } }

/-- **Metadata creates or truncates exactly the resolved destination.**  If the resolved path is an
existing file it is truncated; if it is free and its parent is a directory an empty file is created;
in both cases the file is empty afterwards and every other path is untouched. -/
theorem C05_metadata_creates_or_truncates (s : DestSt) (base : String)
    (hok : (∃ old, s.fs.get (resolve s.fs s.p.fileName base) = some (.file old)) ∨
           (Fs.exists' s.fs (resolve s.fs s.p.fileName base) = false ∧
            Fs.parentIsDir s.fs (resolve s.fs s.p.fileName base) = true)) :
    initVfsHandling base s = .ok () (afterInit s (resolve s.fs s.p.fileName base)) ∧
    (afterInit s (resolve s.fs s.p.fileName base)).fs.get (resolve s.fs s.p.fileName base) = some (.file []) ∧
    (∀ q, q ≠ resolve s.fs s.p.fileName base →
      (afterInit s (resolve s.fs s.p.fileName base)).fs.get q = s.fs.get q) := by
  refine ⟨?_, Fs.C17.get_set_same _ _ _, fun q hq => Fs.C17.get_set_other _ _ _ _ hq⟩
  rcases hok with ⟨old, h⟩ | ⟨h1, h2⟩
  · have hex : Fs.exists' s.fs (resolve s.fs s.p.fileName base) = true := by simp [Fs.exists', h]
    have htr : Fs.truncateFile s.fs (resolve s.fs s.p.fileName base) =
        .ok (s.fs.set (resolve s.fs s.p.fileName base) (.file [])) := by simp [Fs.truncateFile, h]
    unfold resolve at hex htr ⊢
    msimp [initVfsHandling, hex, htr, modP, afterInit]
  · have hc : Fs.createFile s.fs (resolve s.fs s.p.fileName base) =
        (Fs.CREATE_SUCCESS, s.fs.set (resolve s.fs s.p.fileName base) (.file [])) := by
      simp [Fs.createFile, h1, h2]
    unfold resolve at h1 hc ⊢
    msimp [initVfsHandling, h1, hc, modP, afterInit]

/-- the write of one File Data PDU, seen from the filestore -/
def WriteEffect (F0 : Fs) (name : String) (data : List UInt8) (off : Nat) (fs : Fs) : Prop :=
  fs = F0 ∨ ∃ old, F0.get name = some (.file old) ∧ fs = F0.set name (.file (Fs.writeBytes old data off))

theorem vfsWrite_triple (env : Env) (F0 : Fs) (name : String) (data : List UInt8) (off : Nat) :
    Triple (fun s => s.fs = F0 ∧ s.p.fileName = name)
      (fdWrite off data)
      (fun s => WriteEffect F0 name data off s.fs) := by
  intro s ⟨hfs, hn⟩
  cases hr : s.rejects with
  | cons e rest => msimp [fdWrite, getP, vfsWriteData, hr]; exact Or.inl hfs
  | nil =>
    cases hg : s.fs.get s.p.fileName with
    | none =>
      msimp [fdWrite, getP, vfsWriteData, hr, Fs.writeData, hg]
      split <;> exact Or.inl hfs
    | some nd =>
      cases nd with
      | dir => msimp [fdWrite, getP, vfsWriteData, hr, Fs.writeData, hg]; exact Or.inl hfs
      | file old =>
        msimp [fdWrite, getP, vfsWriteData, hr, Fs.writeData, hg]
        right
        subst hfs; subst hn
        exact ⟨old, hg, rfl⟩

/-- **A File Data PDU applies exactly the write model.**  `_handle_fd_pdu(offset, data)` leaves the
filestore either untouched (the write was rejected, the file does not exist) or changed in exactly
one way: the resolved destination file's content `old` becomes `writeBytes old data offset`.
No other path changes (`Fs.C17.get_set_other`), whatever else the call does (indication,
lost-segment bookkeeping, NAKs, fault declarations incl. cancellation). -/
def PreW (s t : DestSt) : Prop := t.fs = s.fs ∧ t.p.fileName = s.p.fileName
def PostW (s : DestSt) (data : List UInt8) (off : Nat) (t : DestSt) : Prop :=
  WriteEffect s.fs s.p.fileName data off t.fs

theorem C05_file_data_applies_write_model (env : Env) (off : Nat) (data : List UInt8) (s : DestSt) :
    WriteEffect s.fs s.p.fileName data off (stateOf (handleFdPdu env off data s)).fs := by
  have hPrePost : ∀ t, PreW s t → PostW s data off t := fun t h => Or.inl h.1
  -- programs that keep the filestore keep the post-condition
  have keepPost : ∀ {α : Type} (x : DM α), (∀ F env, Preserves (FsEq env F) x) →
      Preserves (PostW s data off) x := by
    intro α x hx t ht
    have : (stateOf (x t)).fs = t.fs := hx t.fs env t rfl
    show WriteEffect _ _ _ _ _
    rw [this]; exact ht
  -- the prefix keeps the pre-condition (it changes neither the filestore nor the destination name)
  have hind : Preserves (PreW s) (fdIndication env off data.length) := by
    unfold fdIndication emitInd getP; preserves_with []; all_goals simp_all [PreW]
  have hlost : Preserves (PreW s) (fdLostSegments off data.length) := by
    unfold fdLostSegments lostSegmentHandling transmissionMode modP getP addPacket
    preserves_with []
    all_goals simp_all [PreW]
  have hafter : ∀ r, Preserves (PostW s data off) (fdAfterWrite off data r) :=
    fun r => keepPost _ (fun F e => fdAfterWrite_f e F off data r)
  have main : Triple (PreW s) (handleFdPdu env off data) (PostW s data off) := by
    unfold handleFdPdu
    refine Triple.bind (R := PreW s) (Triple.of_preserves hind) hPrePost (fun _ => ?_)
    refine Triple.bind (R := PreW s) (Triple.of_preserves hlost) hPrePost (fun _ => ?_)
    exact Triple.bind (R := PostW s data off) (vfsWrite_triple env s.fs s.p.fileName data off)
      (fun _ h => h) (fun r => Triple.of_preserves (hafter r))
  exact main s ⟨rfl, rfl⟩

/-- non-vacuity: a File Data PDU (offset 2, two bytes) on an existing empty destination file -/
example :
    (stateOf (handleFdPdu ⟨⟨⟨2, 2⟩, true, true, true, true, [], 1000⟩, 0⟩ 2 [7, 8]
      { state := .busy, step := .RECEIVING_FILE_DATA,
        p := { fileName := "/d", conf := { Hdr.empty with mode := .unack } },
        fs := [("/d", .file [])] })).fs = [("/d", .file [0, 0, 7, 8])] := by
  decide +kernel


section AllHistories
open Cfdp.C10 Cfdp.Dest.PathFrame

/-! ## a path that no Metadata PDU names is never touched, for every history -/

/-- the operation does not name `q` as a destination: a Metadata PDU handed to the handler carries a
destination name that neither is `q` nor resolves to `q` (a directory joined with the source base
name); every other operation qualifies -/
def OpAvoids (q : String) : DOp → Prop
  | .sm pkt => MdOk q pkt
  | _ => True

/-- **One call never touches a path that is not a destination.**  `q` is not the handler's current
destination path and is not named by the Metadata PDU of this call (if any); `q ≠ "."`, the
placeholder name of a transaction without Metadata.  Then whatever the operation — any PDU of any
type and content, a call without PDU (timers), `get_next_packet`, a cancel request, a reset, a fault
table change, an injected filestore rejection —, whether it returns or raises: the content of `q`
(or its absence) is exactly what it was, and `q` is still not the destination path. -/
theorem C05_untouched_path_step (env : Env) (op : DOp) (s : DestSt) (q : String) (v : Option Node)
    (hq : q ≠ ".") (ho : OpAvoids q op) (h : PF q v s) : PF q v (op.run env s).2 := by
  cases op with
  | sm pkt => exact preserves_of_triple (stateMachine_spec q v hq env pkt ho) s h
  | get => exact preserves_of_triple (getNextPacket_spec q v hq) s h
  | cancel t => exact preserves_of_triple (cancelRequest_spec q v hq env t) s h
  | reset => exact preserves_of_triple (reset_spec q v hq) s h
  | setHandler c f =>
    simp only [DOp.run]
    cases setFaultHandler s.faults c f <;> exact h
  | injectReject e => exact h

/-- **Nothing is written to, created at or deleted from any path other than a destination path, for
every history.**  Start from any handler state in which `q` is not the destination path (a new
handler, in particular); let the peer, the link, the user and the filestore do anything, in any order
and any number of times, as long as no Metadata PDU names `q` as its destination.  In every state
reached the filestore has at `q` exactly what it had at the start. -/
theorem C05_untouched_path_all_histories (env : Env) (s : DestSt) (q : String) (hq : q ≠ ".")
    (hs : s.p.fileName ≠ q) (ops : List DOp) (hops : ∀ op ∈ ops, OpAvoids q op) :
    (runOps env s ops).fs.get q = s.fs.get q := by
  have key : ∀ (ops : List DOp) (s : DestSt) (v : Option Node), PF q v s → (∀ op ∈ ops, OpAvoids q op) →
      PF q v (runOps env s ops) := by
    intro ops
    induction ops with
    | nil => intro s v h0 _; exact h0
    | cons op ops ih =>
      intro s v h0 hops
      simp only [runOps, List.foldl_cons]
      exact ih _ v (C05_untouched_path_step env op s q v hq (hops op List.mem_cons_self) h0)
        (fun o ho => hops o (List.mem_cons_of_mem _ ho))
  have hinv := key ops s (s.fs.get q) ⟨rfl, hs⟩ hops
  exact hinv.1

/-- a new handler: every path but the placeholder qualifies -/
example (fs0 : Fs) (q : String) (hq : q ≠ ".") :
    PF q (fs0.get q) ({ fs := fs0, faults := defaultFaultTable } : DestSt) := ⟨rfl, fun h => hq h.symm⟩


/-! ## the write model of one call, for every state and every input -/

open Cfdp.Dest.Effect in
/-- **What one `state_machine` call can do to a file.**  For every state of the receiver (well-formed
filestore), every packet (any type, any content, or none) and every path `p`: after the call —
returned or raised — the filestore has at `p` either what it had; or nothing (deleted by the
disposition on cancellation, or absent before); or, if the packet is a File Data PDU, the old content
with exactly that PDU's payload written at exactly its offset (`Fs.writeBytes`: zero-filled gap,
read-back, frame — C17); or, if the packet is a Metadata PDU, an empty file.  Nothing else is
possible: no other bytes, no other offset, no second write, no truncation by a File Data or EOF PDU. -/
theorem C05_call_effect (env : Env) (pkt : Option Pdu) (s : DestSt) (p : String) (hw : Fs.C17.WF s.fs) :
    Fs.C17.WF (stateOf (stateMachine env pkt s)).fs ∧
    Allowed (s.fs.get p) pkt ((stateOf (stateMachine env pkt s)).fs.get p) :=
  preserves_of_triple (Effect.stateMachine_spec p (s.fs.get p) env pkt) s ⟨hw, Or.inl rfl⟩

open Cfdp.Dest.Effect in
/-- the same for every operation of the user, the peer and the filestore; only `state_machine` with a
File Data or Metadata PDU can put new content at a path -/
theorem C05_op_effect (env : Env) (op : DOp) (s : DestSt) (p : String) (hw : Fs.C17.WF s.fs) :
    Fs.C17.WF (op.run env s).2.fs ∧
    Allowed (s.fs.get p) (match op with | .sm pkt => pkt | _ => none) ((op.run env s).2.fs.get p) := by
  cases op with
  | sm pkt => exact C05_call_effect env pkt s p hw
  | get => exact preserves_of_triple (Effect.getNextPacket_spec p (s.fs.get p) none) s ⟨hw, Or.inl rfl⟩
  | cancel t => exact preserves_of_triple (Effect.cancelRequest_spec p (s.fs.get p) none env t) s ⟨hw, Or.inl rfl⟩
  | reset => exact preserves_of_triple (Effect.reset_spec p (s.fs.get p) none) s ⟨hw, Or.inl rfl⟩
  | setHandler c f =>
    simp only [DOp.run]
    cases setFaultHandler s.faults c f <;> exact ⟨hw, Or.inl rfl⟩
  | injectReject e => exact ⟨hw, Or.inl rfl⟩

/-- the filestore stays a well-formed map for every history -/
theorem C05_wf_all_histories (env : Env) (ops : List DOp) : ∀ (s : DestSt), Fs.C17.WF s.fs →
    Fs.C17.WF (runOps env s ops).fs := by
  induction ops with
  | nil => intro s h; exact h
  | cons op ops ih =>
    intro s h
    simp only [runOps, List.foldl_cons]
    exact ih _ (C05_op_effect env op s "/" h).1

open Cfdp.Dest.Effect in
/-- **A File Data PDU writes its own bytes at its own offset, or nothing.**  If the path holds a file
`old` before a call that is handed the File Data PDU `(off, data)`, it holds afterwards `old`
unchanged, `old` with `data` written at `off`, or it is gone (the call also cancelled the transaction
and the disposition deleted the file). -/
theorem C05_file_data_effect (env : Env) (h : Hdr) (off : Nat) (data old : List UInt8) (s : DestSt) (p : String)
    (hw : Fs.C17.WF s.fs) (hf : s.fs.get p = some (.file old)) :
    let v := (stateOf (stateMachine env (some (.fd h off data)) s)).fs.get p
    v = some (.file old) ∨ v = some (.file (Fs.writeBytes old data off)) ∨ v = none := by
  have := (C05_call_effect env (some (.fd h off data)) s p hw).2
  rw [hf] at this
  rcases this with h1 | h1 | ⟨old', off', data', ⟨h', e⟩, ho, hv⟩ | ⟨⟨_, _, _, _, _, _, _, e⟩, _⟩
  · exact Or.inl h1
  · exact Or.inr (Or.inr h1)
  · cases e; cases ho
    exact Or.inr (Or.inl hv)
  · cases e

/-- non-vacuity: the File Data PDU of the earlier example, as a whole call of a receiving handler -/
example :
    (stateOf (stateMachine ⟨⟨⟨2, 2⟩, true, true, true, true,
        [⟨⟨1, 2⟩, none, 256, false, false, .unack, 3, 1000, 3, 3, false, false, 1000, 3⟩], 1000⟩, 0⟩
      (some (.fd ⟨.toRecv, .unack, false, false, ⟨1, 2⟩, ⟨2, 2⟩, ⟨7, 2⟩⟩ 2 [7, 8]))
      { state := .busy, step := .RECEIVING_FILE_DATA,
        p := { fileName := "/d", conf := { Hdr.empty with mode := .unack },
               remoteCfg := some ⟨⟨1, 2⟩, none, 256, false, false, .unack, 3, 1000, 3, 3, false, false, 1000, 3⟩ },
        fs := [("/d", .file [])] })).fs.get "/d" = some (.file (Fs.writeBytes [] [7, 8] 2)) := by
  decide +kernel


/-- **A complete file is never discarded.**  The only deletion site is `_notice_of_completion`
(`C05_no_write_outside_three_sites`); it leaves the filestore alone unless the transaction was cancelled, the
disposition on cancellation is configured **and** the delivery is incomplete — a transaction cancelled after
a complete (verified) delivery keeps its file. -/
theorem C05_complete_file_not_discarded (env : Env) (s : DestSt)
    (h : s.p.canceled = false ∨ s.p.fin.deliv ≠ dcIncomplete ∨ ∀ rc, s.p.remoteCfg = some rc → rc.disp = false) :
    (stateOf (noticeOfCompletion env s)).fs = s.fs := by
  cases hc : s.p.canceled <;> cases hrc : s.p.remoteCfg with
  | none => cases hi : env.cfg.indFinished <;> msimp [noticeOfCompletion, hc, hrc, hi, getP, emitInd]
  | some rc =>
    cases hi : env.cfg.indFinished <;> cases hd : rc.disp <;>
      by_cases hdel : s.p.fin.deliv = dcIncomplete <;>
      first
      | (msimp [noticeOfCompletion, hc, hrc, hi, hd, hdel, getP, emitInd]; done)
      | (exfalso
         rcases h with h | h | h
         · simp [hc] at h
         · exact h hdel
         · have := h rc hrc; simp [hd] at this)

/-! ## the write model folded over every history -/

section Fold
open Cfdp.Dest.Effect

/-- the packet an operation hands to the handler (`none` for everything but `state_machine(pdu)`) -/
def pktOf : DOp → Option Pdu
  | .sm pkt => pkt
  | _ => none

/-- `v` is obtained from `o` by one allowed step per packet, in order (`Allowed`: unchanged; gone; this
packet's File Data written at its offset into the file as it was; emptied by this packet's Metadata) -/
def Reach : Option Node → List (Option Pdu) → Option Node → Prop
  | o, [], v => v = o
  | o, pk :: rest, v => ∃ m, Allowed o pk m ∧ Reach m rest v

/-- **The destination file is the write model folded over the history.**  For every history of user, peer
and filestore operations — any PDUs in any order, timers, cancel requests, resets, table changes,
injected rejections —, from any state with a well-formed filestore, and for every path: what the
filestore has at that path in the end is obtained from what it had at the start by one `Allowed` step
per operation, in order — i.e. by the File Data PDUs handed to the handler, each written (or not) at
its own offset into the file as it was, by Metadata PDUs emptying it, and by deletions; nothing else
ever changes a file. -/
theorem C05_history_effect (env : Env) (ops : List DOp) (p : String) : ∀ (s : DestSt), Fs.C17.WF s.fs →
    Reach (s.fs.get p) (ops.map pktOf) ((runOps env s ops).fs.get p) := by
  induction ops with
  | nil => intro s _; rfl
  | cons op ops ih =>
    intro s hw
    obtain ⟨hw', ha⟩ := C05_op_effect env op s p hw
    simp only [runOps, List.foldl_cons, List.map_cons, Reach]
    refine ⟨_, ?_, ih _ hw'⟩
    cases op <;> exact ha

/-- a history that hands the handler no File Data and no Metadata PDU leaves every file as it was — or deletes it
(cancel disposition); it never creates or changes content -/
theorem C05_history_without_data (env : Env) (ops : List DOp) (p : String) (s : DestSt) (hw : Fs.C17.WF s.fs)
    (hno : ∀ op ∈ ops, (∀ off data, ¬ IsFd (pktOf op) off data) ∧ ¬ IsMd (pktOf op)) :
    (runOps env s ops).fs.get p = s.fs.get p ∨ (runOps env s ops).fs.get p = none := by
  have h := C05_history_effect env ops p s hw
  have key : ∀ (l : List (Option Pdu)) (o v : Option Node),
      (∀ pk ∈ l, (∀ off data, ¬ IsFd pk off data) ∧ ¬ IsMd pk) → Reach o l v → v = o ∨ v = none := by
    intro l
    induction l with
    | nil => intro o v _ hr; exact Or.inl hr
    | cons pk rest ih =>
      intro o v hl hr
      obtain ⟨m, ha, hr'⟩ := hr
      have hpk := hl pk (by simp)
      have hm : m = o ∨ m = none := by
        rcases ha with ha | ha | ⟨old, off, data, hfd, _, _⟩ | ⟨hmd, _⟩
        · exact Or.inl ha
        · exact Or.inr ha
        · exact absurd hfd (hpk.1 off data)
        · exact absurd hmd hpk.2
      have := ih m v (fun q hq => hl q (by simp [hq])) hr'
      rcases this with h1 | h1
      · rcases hm with h2 | h2
        · exact Or.inl (h1.trans h2)
        · exact Or.inr (h1.trans h2)
      · exact Or.inr h1
  exact key _ _ _ (by
    intro pk hpk
    simp only [List.mem_map] at hpk
    obtain ⟨op, hop, rfl⟩ := hpk
    exact hno op hop) h

end Fold

end AllHistories

end Cfdp.C05
