import CfdpVerif.Model.World
import CfdpVerif.Lemmas.Monad
import CfdpVerif.Lemmas.SeqSource
/-!
# C19 — put requests are admitted, parameterised and identified correctly

Theorems over the model of `SourceHandler.put_request` and `_transaction_start`
(`Model/Source.lean`), for every handler state, request and configuration.
-/
namespace Cfdp.Source.C19

open Cfdp Cfdp.Source
open Cfdp.Route (Mode)

/-- A busy handler returns false and is left exactly as it was. -/
theorem C19_busy_refuses (env : Env) (req : PutReq) (s : SrcSt) (h : s.state ≠ .idle) :
    putRequest env req s = .ok false s := by
  msimp [putRequest, h]

/-- A request naming a missing source file raises `SourceFileDoesNotExist`; the handler stays
idle; apart from the remembered request nothing changes. -/
theorem C19_missing_source_refused (env : Env) (req : PutReq) (s : SrcSt) (src : String)
    (hidle : s.state = .idle) (hsrc : req.src = some src) (hex : Fs.exists' s.fs src = false) :
    putRequest env req s = .error .sourceFileDoesNotExist { s with putReq := some req } := by
  msimp [putRequest, hidle, hsrc, hex]

/-- A request for an unknown destination entity raises `NoRemoteEntityCfgFound`; the handler
stays idle (only the remembered request and the cleared remote configuration differ). -/
theorem C19_unknown_destination_refused (env : Env) (req : PutReq) (s : SrcSt)
    (hidle : s.state = .idle)
    (hsrc : ∀ src, req.src = some src → Fs.exists' s.fs src = true)
    (hrc : lookupRemote env.cfg.remotes req.destId.val = none) :
    ∃ s', putRequest env req s = .error .noRemoteEntityCfg s' ∧ s'.state = .idle ∧ s'.step = s.step ∧
      s'.queue = s.queue ∧ s'.fs = s.fs ∧ s'.numReady = s.numReady := by
  cases hs : req.src with
  | none => msimp [putRequest, hidle, hs, hrc, modP]
  | some src => msimp [putRequest, hidle, hs, hrc, modP, hsrc src hs]

/-- Both refusals leave the handler reusable: a following valid request is accepted. -/
theorem C19_reusable_after_refusal (env : Env) (req : PutReq) (s : SrcSt) (rc : RemoteCfg)
    (hidle : s.state = .idle)
    (hsrc : ∀ src, req.src = some src → Fs.exists' s.fs src = true)
    (hrc : lookupRemote env.cfg.remotes req.destId.val = some rc) :
    ∃ s', putRequest env req s = .ok true s' ∧ s'.state = .busy := by
  cases hs : req.src with
  | none => msimp [putRequest, hidle, hs, hrc, modP]
  | some src => msimp [putRequest, hidle, hs, hrc, modP, hsrc src hs]

/-- An accepted request: the handler becomes busy; transmission mode and closure come from the
request when given and from the destination's remote-entity configuration otherwise. -/
theorem C19_mode_closure_resolution (env : Env) (req : PutReq) (s s' : SrcSt) (b : Bool)
    (h : putRequest env req s = .ok b s') (hidle : s.state = .idle) :
    b = true ∧ s'.state = .busy ∧ s'.putReq = some req ∧
    ∃ rc, lookupRemote env.cfg.remotes req.destId.val = some rc ∧ s'.p.remoteCfg = some rc ∧
      s'.p.conf.mode = (match req.mode with | some m => m | none => rc.mode) ∧
      s'.p.closure = (match req.closure with | some c => c | none => rc.closure) := by
  unfold putRequest at h
  cases hrc : lookupRemote env.cfg.remotes req.destId.val with
  | none =>
    msimp [hidle, modP, hrc] at h
    split at h <;> simp at h
  | some rc =>
    msimp [hidle, modP, hrc] at h
    split at h
    · simp at h
    · simp at h
      obtain ⟨hb, hs'⟩ := h
      subst hs'
      refine ⟨hb, rfl, rfl, rc, rfl, rfl, ?_, ?_⟩
      · cases req.mode <;> rfl
      · cases req.closure <;> rfl

/-- the truth table itself: request value × MIB value, both fields (kernel evaluation) -/
theorem C19_resolution_table :
    ∀ (rm : Option Mode) (mm : Mode) (rcl : Option Bool) (mcl : Bool),
      (rm.getD mm = match rm with | some m => m | none => mm) ∧
      (rcl.getD mcl = match rcl with | some c => c | none => mcl) := by
  intro rm mm rcl mcl
  cases rm <;> cases rcl <;> simp

/-- The effective segment length is the smaller of the configured maximum and what the maximum
packet length allows (`max_packet_len` minus header, offset field and CRC). -/
theorem C19_segment_length (rc : RemoteCfg) (conf : Hdr) (seg : Nat) (h : segLenOf rc conf = some seg) :
    conf.len + conf.fss + conf.crcLen ≤ rc.maxPkt ∧
    seg = min (rc.maxSeg.getD (rc.maxPkt - (conf.len + conf.fss + conf.crcLen)))
              (rc.maxPkt - (conf.len + conf.fss + conf.crcLen)) := by
  unfold segLenOf maxFileSegLen at h
  simp only at h
  split at h
  · simp at h
  · rename_i d hd
    split at hd
    · simp at hd
    · simp at hd
      subst hd
      cases hm : rc.maxSeg with
      | none => simp [hm] at h; subst h; simp; omega
      | some m =>
        simp [hm] at h
        split at h <;> simp at h <;> subst h <;> simp <;> omega

/-- a `max_packet_len` too small for any file data is refused, never a zero or negative length -/
theorem C19_segment_length_refused (rc : RemoteCfg) (conf : Hdr)
    (h : rc.maxPkt < conf.len + conf.fss + conf.crcLen) : segLenOf rc conf = none := by
  simp [segLenOf, maxFileSegLen, h]

/-- header configuration chosen by `_prepare_pdu_conf` and `_get_next_transfer_seq_num`: entity ids
widened to the larger of the two widths, CRC flag of the remote configuration, and the provider's
next value as sequence number -/
def startConf (env : Env) (req : PutReq) (rc : RemoteCfg) (s : SrcSt) (large : Bool) : Hdr :=
  { dir := .toRecv, mode := s.p.conf.mode, crc := rc.crc, large := large,
    src := ⟨env.cfg.entityId.val, max env.cfg.entityId.width req.destId.width⟩,
    dst := ⟨req.destId.val, max env.cfg.entityId.width req.destId.width⟩,
    seq := ⟨s.prov.next, s.prov.bits / 8⟩ }

/-- `_transaction_start` for a request naming an existing non-empty file: the transaction obtains
the provider's next value (the provider advances by one), both ids get the larger width, the
segment length is `segLenOf`, the file size is the file's, and the Transaction indication carries
the new transaction id.  Nothing is queued yet. -/
theorem C19_transaction_start (env : Env) (s : SrcSt) (req : PutReq) (rc : RemoteCfg) (src : String)
    (F : List UInt8) (seg : Nat)
    (hreq : s.putReq = some req) (hmo : req.metadataOnly = false) (hpmo : s.p.metadataOnly = false)
    (hsrc : req.src = some src) (hfile : s.fs.get src = some (.file F)) (hF : F ≠ [])
    (hrc : s.p.remoteCfg = some rc) (hbits : s.prov.bits = 8 ∨ s.prov.bits = 16 ∨ s.prov.bits = 32)
    (hseg : segLenOf rc (startConf env req rc s (decide (F.length > 4294967295))) = some seg) :
    ∃ s', transactionStart env s = .ok () s' ∧
      s'.p.conf = startConf env req rc s (decide (F.length > 4294967295)) ∧
      s'.p.segmentLen = seg ∧ s'.p.fileSize = F.length ∧
      s'.p.tid = some ⟨env.cfg.entityId, ⟨s.prov.next, s.prov.bits / 8⟩⟩ ∧
      s'.prov = { s.prov with next := (s.prov.next + 1) % provWrap s.prov.bits } ∧
      s'.queue = s.queue ∧ s'.state = s.state ∧ s'.step = s.step ∧ s'.fs = s.fs ∧
      s'.inds = s.inds ++ [.tx ⟨env.cfg.entityId, ⟨s.prov.next, s.prov.bits / 8⟩⟩
                              (checkForOriginatingId req.msgs)] := by
  have hex : Fs.exists' s.fs src = true := by simp [Fs.exists', hfile]
  have hsz : Fs.fileSize s.fs src = .ok F.length := by simp [Fs.fileSize, hfile]
  have hne : F.length ≠ 0 := by simpa using hF
  have hb : ¬((¬s.prov.bits = 8 ∧ ¬s.prov.bits = 16) ∧ ¬s.prov.bits = 32) := by omega
  unfold startConf at hseg
  msimp [transactionStart, hreq, hmo, hpmo, hsrc, hex, hsz, hne, hrc, modP, getP, emitInd, hb, hseg,
    startConf]

/-- a provider of an unsupported width is refused with `ValueError` (no transaction id is formed) -/
theorem C19_bad_provider_width (env : Env) (s : SrcSt) (req : PutReq) (rc : RemoteCfg)
    (hreq : s.putReq = some req) (hmo : req.metadataOnly = true) (hrc : s.p.remoteCfg = some rc)
    (hbits : ¬(s.prov.bits = 8 ∨ s.prov.bits = 16 ∨ s.prov.bits = 32)) :
    ∃ s', transactionStart env s = .error .valueError s' ∧ s'.p.tid = s.p.tid ∧ s'.inds = s.inds := by
  have hb : (¬s.prov.bits = 8 ∧ ¬s.prov.bits = 16) ∧ ¬s.prov.bits = 32 := by omega
  msimp [transactionStart, hreq, hmo, hrc, modP, getP, hb]

/-- **The source file vanished between the accepted request and the transaction start**: the first call
(and every further one while the file is missing) raises `SourceFileDoesNotExist`; no sequence number
is drawn, no indication issued, nothing queued; the handler stays busy at the transaction start, so it
proceeds once the file is back — or the user ends the request with `reset()`. -/
theorem C19_source_vanished (env : Env) (s : SrcSt) (req : PutReq) (src : String)
    (hb : s.state = .busy) (hstep : s.step = .IDLE ∨ s.step = .TRANSACTION_START) (hq : s.queue = [])
    (hreq : s.putReq = some req) (hsrc : req.src = some src) (hgone : Fs.exists' s.fs src = false) :
    stateMachine env none s = .error .sourceFileDoesNotExist { s with step := .TRANSACTION_START } := by
  have hmo : req.metadataOnly = false := by simp [PutReq.metadataOnly, hsrc]
  rcases hstep with hs | hs
  · msimp [stateMachine, hb, fsmNonIdle, fsmAdvancementAfterPacketsWereSent, hq, hs, hreq, transactionStart, hmo, hsrc,
      hgone]
  · msimp [stateMachine, hb, fsmNonIdle, fsmAdvancementAfterPacketsWereSent, hq, hs, hreq, transactionStart, hmo, hsrc,
      hgone]
    cases s; simp_all

/-- The values a provider of width `bits` hands out are pairwise distinct for fewer than `2^bits`
consecutive transactions (the k-th transaction after a state with next value `n` gets
`(n + k) % 2^bits` by `C19_transaction_start`). -/
theorem C19_sequence_numbers_distinct (n i j W : Nat) (hij : i < j) (hW : j - i < W) :
    (n + i) % W ≠ (n + j) % W := by
  intro h
  have h0 : ((n + j) - (n + i)) % W = 0 := Nat.sub_mod_eq_zero_of_mod_eq h.symm
  have h1 : (n + j) - (n + i) = j - i := by omega
  rw [h1, Nat.mod_eq_of_lt hW] at h0
  omega

/-- non-vacuity: a concrete request and state satisfy the hypotheses of `C19_transaction_start` -/
example : ∃ s', transactionStart ⟨⟨⟨1, 2⟩, true, true, true, true, [], 1000⟩, 0⟩
    { putReq := some ⟨⟨2, 2⟩, some "/f", some "/g", none, none, none⟩,
      p := { remoteCfg := some ⟨⟨2, 2⟩, some 4, 64, false, false, .ack, 3, 1000, 2, 2, false, true, 1000, 2⟩ },
      fs := [("/f", .file [1, 2, 3, 4, 5])] } = .ok () s' ∧ s'.p.segmentLen = 4 ∧
      s'.p.conf.seq = ⟨0, 2⟩ := by
  refine ⟨_, rfl, ?_, ?_⟩ <;> decide

end Cfdp.Source.C19

namespace Cfdp.Source.C19
open Cfdp Cfdp.Source Cfdp.Source.Seq Cfdp.Source.SeqRel

/-! ## Every history: no two transactions share a sequence number -/

/-- what the user, the peer and other handlers of the same entity can do -/
inductive Op where
  | put (req : PutReq) | sm (pkt : Option Pdu) | get | cancel (tid : Tid) | reset
  | otherTransaction          -- another handler of the entity took a number from the shared provider

def Op.run (env : Env) : Op → SrcSt → SrcSt
  | .put r, s => stateOf (putRequest env r s)
  | .sm pkt, s => stateOf (stateMachine env pkt s)
  | .get, s => stateOf (getNextPacket s)
  | .cancel t, s => stateOf (cancelRequest env t s)
  | .reset, s => stateOf (Source.reset s)
  | .otherTransaction, s => { s with prov := { s.prov with next := (s.prov.next + 1) % provWrap s.prov.bits } }

/-- how many numbers the operation can draw from the provider -/
def Op.draws : Op → Nat
  | .sm _ => 1
  | .otherTransaction => 1
  | _ => 0

def runOps (env : Env) (s : SrcSt) (ops : List Op) : SrcSt := ops.foldl (fun s op => op.run env s) s

def draws (ops : List Op) : Nat := (ops.map Op.draws).sum

/-- `l` lists, in order, the values `(n0 + i) % W` of strictly increasing draw indices `i < k` -/
def Issued (n0 W k : Nat) (l : List Nat) : Prop :=
  ∃ is : List Nat, is.Pairwise (· < ·) ∧ (∀ i ∈ is, i < k) ∧ l = is.map (fun i => (n0 + i) % W)

/-- `k` numbers have been drawn from the provider since it stood at `n0`, and the handler's
transactions got, in order, the values of strictly increasing draws -/
def SeqInv (bits n0 k : Nat) (s : SrcSt) : Prop :=
  s.prov.bits = bits ∧ s.prov.next = (n0 + k) % provWrap bits ∧ Issued n0 (provWrap bits) k (txSeqs s.inds)

theorem Issued.mono {n0 W k k' : Nat} {l : List Nat} (h : Issued n0 W k l) (hk : k ≤ k') : Issued n0 W k' l := by
  obtain ⟨is, h1, h2, h3⟩ := h
  exact ⟨is, h1, fun i hi => Nat.lt_of_lt_of_le (h2 i hi) hk, h3⟩

theorem Issued.snoc {n0 W k : Nat} {l : List Nat} (h : Issued n0 W k l) :
    Issued n0 W (k + 1) (l ++ [(n0 + k) % W]) := by
  obtain ⟨is, h1, h2, h3⟩ := h
  refine ⟨is ++ [k], ?_, ?_, ?_⟩
  · rw [List.pairwise_append]
    exact ⟨h1, List.pairwise_singleton _ _, fun a ha b hb => by simp at hb; subst hb; exact h2 a ha⟩
  · intro i hi
    simp at hi
    rcases hi with hi | hi
    · exact Nat.lt_succ_of_lt (h2 i hi)
    · omega
  · simp [h3]

theorem Issued.nodup {n0 W k : Nat} {l : List Nat} (h : Issued n0 W k l) (hk : k ≤ W) : l.Nodup := by
  obtain ⟨is, h1, h2, rfl⟩ := h
  rw [List.Nodup, List.pairwise_map]
  refine h1.imp_of_mem ?_
  intro a b ha hb hab
  have := h2 b hb
  exact C19_sequence_numbers_distinct n0 a b W hab (by omega)

theorem succ_mod (n0 k W : Nat) : ((n0 + k) % W + 1) % W = (n0 + (k + 1)) % W := by
  rw [← Nat.add_assoc]
  conv => rhs; rw [Nat.add_mod]
  conv => lhs; rw [Nat.add_mod, Nat.mod_mod]

private theorem frame_step {α : Type} (env : Env) (x : SM α) (s : SrcSt)
    (h : ∀ Q, Preserves (Dep env Q) x) {bits n0 k : Nat} (hi : SeqInv bits n0 k s) :
    SeqInv bits n0 k (stateOf (x s)) := by
  have := h (fun p l => p = s.prov ∧ l = txSeqs s.inds) s ⟨rfl, rfl⟩
  simp only [Dep] at this
  unfold SeqInv
  rw [this.1, this.2]
  exact hi

/-- **One operation.**  Whatever the operation, the state and the PDU: it draws at most
`op.draws` numbers, and the numbers issued so far stay the values of strictly increasing draws. -/
theorem C19_seq_step (env : Env) (op : Op) (s : SrcSt) (bits n0 k : Nat) (hi : SeqInv bits n0 k s) :
    ∃ k', k ≤ k' ∧ k' ≤ k + op.draws ∧ SeqInv bits n0 k' (op.run env s) := by
  cases op with
  | put r => exact ⟨k, Nat.le_refl _, by simp [Op.draws], by simp only [Op.run]; exact frame_step env _ s (fun Q => putRequest_d env Q r) hi⟩
  | get => exact ⟨k, Nat.le_refl _, by simp [Op.draws], by simp only [Op.run]; exact frame_step env _ s (fun Q => getNextPacket_d env Q) hi⟩
  | cancel t => exact ⟨k, Nat.le_refl _, by simp [Op.draws], by simp only [Op.run]; exact frame_step env _ s (fun Q => cancelRequest_d env Q t) hi⟩
  | reset => exact ⟨k, Nat.le_refl _, by simp [Op.draws], by simp only [Op.run]; exact frame_step env _ s (fun Q => reset_d env Q) hi⟩
  | otherTransaction =>
    obtain ⟨h1, h2, h3⟩ := hi
    refine ⟨k + 1, by omega, by simp [Op.draws], ?_, ?_, ?_⟩
    · simpa [Op.run] using h1
    · simp only [Op.run]; rw [h2, h1]; exact succ_mod n0 k _
    · simpa [Op.run] using h3.mono (Nat.le_succ k)
  | sm pkt =>
    obtain ⟨h1, h2, h3⟩ := hi
    have := triple_elim _ _ _ _ (stateMachine_spec env pkt s.prov (txSeqs s.inds)) s ⟨rfl, rfl⟩
    have hD : Dep env (Drawn s.prov (txSeqs s.inds)) (stateOf (stateMachine env pkt s)) := by
      cases hx : stateMachine env pkt s <;> simp [hx, stateOf] at this ⊢ <;> exact this
    simp only [Dep, Drawn] at hD
    obtain ⟨hb, hD⟩ := hD
    rcases hD with ⟨hl, hn | hn⟩ | ⟨hl, hn⟩
    · exact ⟨k, Nat.le_refl _, by simp [Op.draws], by simp only [Op.run]; rw [hb]; exact h1,
        by simp only [Op.run]; rw [hn]; exact h2, by simp only [Op.run]; rw [hl]; exact h3⟩
    · refine ⟨k + 1, by omega, by simp [Op.draws], by simp only [Op.run]; rw [hb]; exact h1, ?_, ?_⟩
      · simp only [Op.run]; rw [hn, h2, h1]; exact succ_mod n0 k _
      · simp only [Op.run]; rw [hl]; exact h3.mono (Nat.le_succ k)
    · refine ⟨k + 1, by omega, by simp [Op.draws], by simp only [Op.run]; rw [hb]; exact h1, ?_, ?_⟩
      · simp only [Op.run]; rw [hn, h2, h1]; exact succ_mod n0 k _
      · simp only [Op.run]; rw [hl, h2]; exact h3.snoc

/-- **Every history.**  Start from a handler that has issued no transaction yet, its provider standing
at `n0`; let the user, the peer and other handlers sharing the provider do anything, in any order, any
number of times — put requests (accepted, refused, premature), `state_machine` with any PDU or none,
packet retrievals, cancel requests, resets, transactions of other handlers.  Then at most one number
was drawn per `state_machine` call / foreign transaction, the provider stands at `n0 +` the number of
draws (mod `2^bits`), and the sequence numbers of this handler's transactions are, in order, the
values `(n0 + i) mod 2^bits` of strictly increasing draws `i`: each transaction got the provider's next
value and no draw served two transactions. -/
theorem C19_all_histories_issued (env : Env) (s : SrcSt) (ops : List Op)
    (h0 : txSeqs s.inds = []) (hn : s.prov.next < provWrap s.prov.bits) :
    ∃ k, k ≤ draws ops ∧ SeqInv s.prov.bits s.prov.next k (runOps env s ops) := by
  have gen : ∀ (ops : List Op) (s' : SrcSt) (k : Nat), SeqInv s.prov.bits s.prov.next k s' →
      ∃ k', k' ≤ k + draws ops ∧ SeqInv s.prov.bits s.prov.next k' (runOps env s' ops) := by
    intro ops
    induction ops with
    | nil => intro s' k hi; exact ⟨k, by simp [draws], hi⟩
    | cons op ops ih =>
      intro s' k hi
      obtain ⟨k1, -, hk1, hi1⟩ := C19_seq_step env op s' _ _ k hi
      obtain ⟨k2, hk2, hi2⟩ := ih _ k1 hi1
      refine ⟨k2, ?_, by simpa [runOps] using hi2⟩
      simp only [draws, List.map_cons, List.sum_cons] at hk2 ⊢
      omega
  have := gen ops s 0 ⟨rfl, by simpa using (Nat.mod_eq_of_lt hn).symm, ⟨[], List.Pairwise.nil, by simp, by simp [h0]⟩⟩
  simpa using this

/-- **No two transactions of one entity share a transaction id**: in every history with at most
`2^bits` draws (state machine calls and transactions of other handlers together), the sequence numbers
issued to this handler's transactions are pairwise distinct — and, by `C19_all_histories_issued`,
distinct from every number drawn by the other handlers. -/
theorem C19_all_histories_distinct (env : Env) (s : SrcSt) (ops : List Op)
    (h0 : txSeqs s.inds = []) (hn : s.prov.next < provWrap s.prov.bits) (hd : draws ops ≤ provWrap s.prov.bits) :
    (txSeqs (runOps env s ops).inds).Nodup := by
  obtain ⟨k, hk, -, -, hI⟩ := C19_all_histories_issued env s ops h0 hn
  exact hI.nodup (Nat.le_trans hk hd)

/-! ### non-vacuity: two transactions of one handler across the wrap-around of an 8-bit provider, a
transaction of another handler in between -/

def exEnvH : Env := ⟨⟨⟨1, 2⟩, true, true, true, true,
  [⟨⟨2, 2⟩, some 4, 64, false, false, .unack, 0, 1000, 2, 2, false, true, 1000, 2⟩], 1000⟩, 0⟩

def exReqH : PutReq := ⟨⟨2, 2⟩, some "/f", some "/g", none, none, none⟩

def exInitH : SrcSt := { fs := [("/f", .file [1, 2, 3])], prov := ⟨8, 254⟩ }

/-- put, Metadata, one tile, EOF (the unacknowledged transaction completes), a foreign transaction, and
the same again: the handler's transactions got 254 and 0, the foreign one 255 -/
def exHist : List Op :=
  [.put exReqH, .sm none, .get, .sm none, .get, .sm none, .get, .otherTransaction,
   .put exReqH, .sm none, .get, .sm none, .get, .sm none, .get]

example : txSeqs (runOps exEnvH exInitH exHist).inds = [254, 0] ∧ (runOps exEnvH exInitH exHist).prov.next = 1 ∧
    draws exHist = 7 := by
  decide +kernel

example : (txSeqs (runOps exEnvH exInitH exHist).inds).Nodup :=
  C19_all_histories_distinct exEnvH exInitH exHist rfl (by decide) (by decide)

end Cfdp.Source.C19
