import CfdpVerif.Model.World
import CfdpVerif.Lemmas.Monad
/-!
# C19 — put requests are admitted, parameterised and identified correctly

Theorems over the model of `SourceHandler.put_request` and `_transaction_start`
(`Model/Source.lean`), for every handler state, request and configuration.
-/
namespace Cfdp.Source.C19

open Cfdp Cfdp.Source
open Cfdp.Route (Mode)

/-- A busy handler returns false and is left exactly as it was. -/
theorem C19_busy_refuses (env : Env) (req : PutReq) (s : SrcSt) (h : s.state ≠ .idle) :
    putRequest env req s = .ok false s := by
  msimp [putRequest, h]

/-- A request naming a missing source file raises `SourceFileDoesNotExist`; the handler stays
idle; apart from the remembered request nothing changes. -/
theorem C19_missing_source_refused (env : Env) (req : PutReq) (s : SrcSt) (src : String)
    (hidle : s.state = .idle) (hsrc : req.src = some src) (hex : Fs.exists' s.fs src = false) :
    putRequest env req s = .error .sourceFileDoesNotExist { s with putReq := some req } := by
  msimp [putRequest, hidle, hsrc, hex]

/-- A request for an unknown destination entity raises `NoRemoteEntityCfgFound`; the handler
stays idle (only the remembered request and the cleared remote configuration differ). -/
theorem C19_unknown_destination_refused (env : Env) (req : PutReq) (s : SrcSt)
    (hidle : s.state = .idle)
    (hsrc : ∀ src, req.src = some src → Fs.exists' s.fs src = true)
    (hrc : lookupRemote env.cfg.remotes req.destId.val = none) :
    ∃ s', putRequest env req s = .error .noRemoteEntityCfg s' ∧ s'.state = .idle ∧ s'.step = s.step ∧
      s'.queue = s.queue ∧ s'.fs = s.fs ∧ s'.numReady = s.numReady := by
  cases hs : req.src with
  | none => msimp [putRequest, hidle, hs, hrc, modP]
  | some src => msimp [putRequest, hidle, hs, hrc, modP, hsrc src hs]

/-- Both refusals leave the handler reusable: a following valid request is accepted. -/
theorem C19_reusable_after_refusal (env : Env) (req : PutReq) (s : SrcSt) (rc : RemoteCfg)
    (hidle : s.state = .idle)
    (hsrc : ∀ src, req.src = some src → Fs.exists' s.fs src = true)
    (hrc : lookupRemote env.cfg.remotes req.destId.val = some rc) :
    ∃ s', putRequest env req s = .ok true s' ∧ s'.state = .busy := by
  cases hs : req.src with
  | none => msimp [putRequest, hidle, hs, hrc, modP]
  | some src => msimp [putRequest, hidle, hs, hrc, modP, hsrc src hs]

/-- An accepted request: the handler becomes busy; transmission mode and closure come from the
request when given and from the destination's remote-entity configuration otherwise. -/
theorem C19_mode_closure_resolution (env : Env) (req : PutReq) (s s' : SrcSt) (b : Bool)
    (h : putRequest env req s = .ok b s') (hidle : s.state = .idle) :
    b = true ∧ s'.state = .busy ∧ s'.putReq = some req ∧
    ∃ rc, lookupRemote env.cfg.remotes req.destId.val = some rc ∧ s'.p.remoteCfg = some rc ∧
      s'.p.conf.mode = (match req.mode with | some m => m | none => rc.mode) ∧
      s'.p.closure = (match req.closure with | some c => c | none => rc.closure) := by
  unfold putRequest at h
  cases hrc : lookupRemote env.cfg.remotes req.destId.val with
  | none =>
    msimp [hidle, modP, hrc] at h
    split at h <;> simp at h
  | some rc =>
    msimp [hidle, modP, hrc] at h
    split at h
    · simp at h
    · simp at h
      obtain ⟨hb, hs'⟩ := h
      subst hs'
      refine ⟨hb, rfl, rfl, rc, rfl, rfl, ?_, ?_⟩
      · cases req.mode <;> rfl
      · cases req.closure <;> rfl

/-- the truth table itself: request value × MIB value, both fields (kernel evaluation) -/
theorem C19_resolution_table :
    ∀ (rm : Option Mode) (mm : Mode) (rcl : Option Bool) (mcl : Bool),
      (rm.getD mm = match rm with | some m => m | none => mm) ∧
      (rcl.getD mcl = match rcl with | some c => c | none => mcl) := by
  intro rm mm rcl mcl
  cases rm <;> cases rcl <;> simp

/-- The effective segment length is the smaller of the configured maximum and what the maximum
packet length allows (`max_packet_len` minus header, offset field and CRC). -/
theorem C19_segment_length (rc : RemoteCfg) (conf : Hdr) (seg : Nat) (h : segLenOf rc conf = some seg) :
    conf.len + conf.fss + conf.crcLen ≤ rc.maxPkt ∧
    seg = min (rc.maxSeg.getD (rc.maxPkt - (conf.len + conf.fss + conf.crcLen)))
              (rc.maxPkt - (conf.len + conf.fss + conf.crcLen)) := by
  unfold segLenOf maxFileSegLen at h
  simp only at h
  split at h
  · simp at h
  · rename_i d hd
    split at hd
    · simp at hd
    · simp at hd
      subst hd
      cases hm : rc.maxSeg with
      | none => simp [hm] at h; subst h; simp; omega
      | some m =>
        simp [hm] at h
        split at h <;> simp at h <;> subst h <;> simp <;> omega

/-- a `max_packet_len` too small for any file data is refused, never a zero or negative length -/
theorem C19_segment_length_refused (rc : RemoteCfg) (conf : Hdr)
    (h : rc.maxPkt < conf.len + conf.fss + conf.crcLen) : segLenOf rc conf = none := by
  simp [segLenOf, maxFileSegLen, h]

/-- header configuration chosen by `_prepare_pdu_conf` and `_get_next_transfer_seq_num`: entity ids
widened to the larger of the two widths, CRC flag of the remote configuration, and the provider's
next value as sequence number -/
def startConf (env : Env) (req : PutReq) (rc : RemoteCfg) (s : SrcSt) (large : Bool) : Hdr :=
  { dir := .toRecv, mode := s.p.conf.mode, crc := rc.crc, large := large,
    src := ⟨env.cfg.entityId.val, max env.cfg.entityId.width req.destId.width⟩,
    dst := ⟨req.destId.val, max env.cfg.entityId.width req.destId.width⟩,
    seq := ⟨s.prov.next, s.prov.bits / 8⟩ }

/-- `_transaction_start` for a request naming an existing non-empty file: the transaction obtains
the provider's next value (the provider advances by one), both ids get the larger width, the
segment length is `segLenOf`, the file size is the file's, and the Transaction indication carries
the new transaction id.  Nothing is queued yet. -/
theorem C19_transaction_start (env : Env) (s : SrcSt) (req : PutReq) (rc : RemoteCfg) (src : String)
    (F : List UInt8) (seg : Nat)
    (hreq : s.putReq = some req) (hmo : req.metadataOnly = false) (hpmo : s.p.metadataOnly = false)
    (hsrc : req.src = some src) (hfile : s.fs.get src = some (.file F)) (hF : F ≠ [])
    (hrc : s.p.remoteCfg = some rc) (hbits : s.prov.bits = 8 ∨ s.prov.bits = 16 ∨ s.prov.bits = 32)
    (hseg : segLenOf rc (startConf env req rc s (decide (F.length > 4294967295))) = some seg) :
    ∃ s', transactionStart env s = .ok () s' ∧
      s'.p.conf = startConf env req rc s (decide (F.length > 4294967295)) ∧
      s'.p.segmentLen = seg ∧ s'.p.fileSize = F.length ∧
      s'.p.tid = some ⟨env.cfg.entityId, ⟨s.prov.next, s.prov.bits / 8⟩⟩ ∧
      s'.prov = { s.prov with next := (s.prov.next + 1) % provWrap s.prov.bits } ∧
      s'.queue = s.queue ∧ s'.state = s.state ∧ s'.step = s.step ∧ s'.fs = s.fs ∧
      s'.inds = s.inds ++ [.tx ⟨env.cfg.entityId, ⟨s.prov.next, s.prov.bits / 8⟩⟩
                              (checkForOriginatingId req.msgs)] := by
  have hex : Fs.exists' s.fs src = true := by simp [Fs.exists', hfile]
  have hsz : Fs.fileSize s.fs src = .ok F.length := by simp [Fs.fileSize, hfile]
  have hne : F.length ≠ 0 := by simpa using hF
  have hb : ¬((¬s.prov.bits = 8 ∧ ¬s.prov.bits = 16) ∧ ¬s.prov.bits = 32) := by omega
  unfold startConf at hseg
  msimp [transactionStart, hreq, hmo, hpmo, hsrc, hex, hsz, hne, hrc, modP, getP, emitInd, hb, hseg,
    startConf]

/-- a provider of an unsupported width is refused with `ValueError` (no transaction id is formed) -/
theorem C19_bad_provider_width (env : Env) (s : SrcSt) (req : PutReq) (rc : RemoteCfg)
    (hreq : s.putReq = some req) (hmo : req.metadataOnly = true) (hrc : s.p.remoteCfg = some rc)
    (hbits : ¬(s.prov.bits = 8 ∨ s.prov.bits = 16 ∨ s.prov.bits = 32)) :
    ∃ s', transactionStart env s = .error .valueError s' ∧ s'.p.tid = s.p.tid ∧ s'.inds = s.inds := by
  have hb : (¬s.prov.bits = 8 ∧ ¬s.prov.bits = 16) ∧ ¬s.prov.bits = 32 := by omega
  msimp [transactionStart, hreq, hmo, hrc, modP, getP, hb]

/-- The values a provider of width `bits` hands out are pairwise distinct for fewer than `2^bits`
consecutive transactions (the k-th transaction after a state with next value `n` gets
`(n + k) % 2^bits` by `C19_transaction_start`). -/
theorem C19_sequence_numbers_distinct (n i j W : Nat) (hij : i < j) (hW : j - i < W) :
    (n + i) % W ≠ (n + j) % W := by
  intro h
  have h0 : ((n + j) - (n + i)) % W = 0 := Nat.sub_mod_eq_zero_of_mod_eq h.symm
  have h1 : (n + j) - (n + i) = j - i := by omega
  rw [h1, Nat.mod_eq_of_lt hW] at h0
  omega

/-- non-vacuity: a concrete request and state satisfy the hypotheses of `C19_transaction_start` -/
example : ∃ s', transactionStart ⟨⟨⟨1, 2⟩, true, true, true, true, [], 1000⟩, 0⟩
    { putReq := some ⟨⟨2, 2⟩, some "/f", some "/g", none, none, none⟩,
      p := { remoteCfg := some ⟨⟨2, 2⟩, some 4, 64, false, false, .ack, 3, 1000, 2, 2, false, true, 1000, 2⟩ },
      fs := [("/f", .file [1, 2, 3, 4, 5])] } = .ok () s' ∧ s'.p.segmentLen = 4 ∧
      s'.p.conf.seq = ⟨0, 2⟩ := by
  refine ⟨_, rfl, ?_, ?_⟩ <;> decide

end Cfdp.Source.C19
