import CfdpVerif.Props.C02
import CfdpVerif.Props.C04
import CfdpVerif.Props.C06
import CfdpVerif.Props.C08
import CfdpVerif.Props.C17
/-!
# C03 — acknowledged mode recovers from bounded loss, duplication and reordering

The full statement is a liveness property of two communicating state machines under an adversarial
link; it is NOT proved here as one theorem (DESIGN.md §6 C03, stage 4).  Proved as a whole-run
theorem about BOTH models talking to each other, for every file, segment length, position of the
lost tile, header configuration and checksum type: `C03_end_to_end_single_loss` (the sender's run,
one File Data PDU lost on the link, the receiver's NAK for exactly that range, the sender's answer —
exactly the lost PDU —, verification, the closing handshake, both idle, file byte-identical, one
successful Transaction-Finished indication on each side); `C03_end_to_end_eof_loss` (the EOF PDU is
lost: the sender's timer expires, the identical EOF is re-sent, the transfer closes);
`C03_end_to_end_ack_eof_loss` (the ACK (EOF) is lost: the sender takes the Finished PDU as the proof
that its EOF arrived — no timer needed); `C03_closing_finished_lost` and
`C03_closing_finished_ack_lost` (the Finished PDU or its ACK is lost in the closing handshake: the
receiver's timer expires, the identical Finished PDU is re-sent; stated from any state in which the
sender has sent everything and the receiver has acknowledged the EOF, so they compose with each of
the runs above — one fault before the closing handshake, one in it); `C03_end_to_end_naks_lost` (a
File Data PDU is lost and then ANY NUMBER of NAKs below the NAK limit: every expiry re-issues exactly
the same NAK, `C03_nak_expiries` by induction over the expiry times) and
`C03_end_to_end_retransmission_lost` (the retransmission is lost again; the sender answers the
re-issued NAK from its retransmission step); `C03_end_to_end_single_loss_immediate` (IMMEDIATE NAK
mode: the gap is requested with the tile that reveals it, the sender answers in the middle of its
stream and resumes — the PDUs of the disturbed run are exactly those of the undisturbed one, C08);
`C03_end_to_end_metadata_loss` (the METADATA PDU is lost: the transaction starts without a destination,
nothing is stored, one NAK requests the Metadata and the whole file, the sender answers with exactly the
original Metadata PDU and tiles, the receiver creates the destination, stores them — each shrinking the
lost range from its head —, verifies and completes); `C03_end_to_end_last_tile_loss` (the LAST tile, of any
length up to the segment length, is lost: the EOF reveals the missing tail, which is requested and served
with exactly the lost tile; `C03_recovery_from_waiting_short` for any lost range of at most one segment).
Together with `C03_end_to_end_single_loss`: any one File Data PDU, whatever its position.
The building blocks are stated from states, not from
runs (`C03_prefix_single_loss`, `C03_recovery_from_waiting`, `C03_closing*`), so they compose.
Proved as whole-run theorems about the receiver model: `C03_single_loss_recovery` (any one File Data PDU but the last never arrives: exactly one NAK
with exactly the missing range, the retransmission completes the file, verification, Finished PDU,
idle, file byte-identical) and `C03_tail_loss_recovery` (everything from some offset on is missing at
the EOF).  Proved are the safety half
(`Props/C01`: no fault schedule turns into a wrong success) and every recovery mechanism the
argument of DESIGN.md Appendix D uses, each for all states and inputs:

* a gap is requested at once / the deferred procedure requests exactly the tracker's content and
  re-issues on every NAK-timer expiry below the limit (`C06_immediate_nak`, `C06_nak_sequence_exact`,
  `C04_nak_expiry_reissues`, `C04_nak_progress_resets`);
* every valid request is served exactly, invalid ones are refused without side effect
  (`C08_valid_request_served`, `C08_segment_chunks`, `C08_invalid_request_rejected`), and the sender
  resumes where it was (`C08_resume`);
* EOF and Finished are re-sent on every expiry until acknowledged
  (`C04_source_expiry_resends`, `C04_dest_expiry_resends`);
* duplicates are harmless: re-writing the same bytes at the same offset does not change the file
  (`C03_duplicate_write_idempotent`);
* the repairs of the recovery paths hold in the model: EOF before Metadata keeps the checksum
  (`C03_eof_before_metadata_keeps_checksum`), late Metadata keeps the deferred procedure running
  (`C03_late_metadata_keeps_procedure`), File Data after the EOF while Metadata is missing does not
  shrink the lost-segment list (`C03_fd_after_eof_without_metadata_ignored`).
The recovery claim itself is explored exhaustively for ≤ 2 faults on small transfers and sampled
beyond, on implementation and model (see MANIFEST / evidence).
-/
set_option linter.unusedSimpArgs false
set_option linter.unusedVariables false

namespace Cfdp.C03

open Cfdp Cfdp.Dest Cfdp.C02

/-- writing the same payload at the same offset twice is the same as writing it once -/
theorem C03_duplicate_write_idempotent (old d : List UInt8) (o : Nat) :
    Fs.writeBytes (Fs.writeBytes old d o) d o = Fs.writeBytes old d o := by
  by_cases hd : d = []
  · subst hd; simp [Fs.writeBytes]
  · apply List.ext_getElem?
    intro i
    rw [Fs.C17.write_get _ d o i hd, Fs.C17.write_get old d o i hd]
    by_cases h1 : i < o
    · simp only [h1, if_true]
      rw [Fs.C17.padded_get, Fs.C17.padded_get]
      -- below the offset the first write kept the old bytes / the zero fill
      have hlen : o + d.length ≤ (Fs.writeBytes old d o).length := by
        have hne : d.isEmpty = false := by cases d <;> simp_all
        have hpl := Fs.C17.padded_len old o
        simp only [Fs.writeBytes, hne, Bool.false_eq_true, if_false]
        have : (if o > old.length then old ++ List.replicate (o - old.length) 0 else old) = Fs.C17.padded old o := rfl
        rw [this]
        simp; omega
      have hi : i < (Fs.writeBytes old d o).length := by omega
      simp only [hi, if_true]
      rw [Fs.C17.write_get old d o i hd, Fs.C17.padded_get]
      simp [h1]
    · simp only [h1, if_false]
      by_cases h2 : i < o + d.length
      · simp [h2]
      · simp only [h2, if_false]
        rw [Fs.C17.padded_get, Fs.C17.padded_get]
        have : ¬ i < o := h1
        simp only [this, if_false]
        by_cases h3 : i < (Fs.writeBytes old d o).length
        · simp only [h3, if_true]
          rw [Fs.C17.write_get old d o i hd, Fs.C17.padded_get]
          simp [h1, h2]
        · simp only [h3, if_false]
          have : (Fs.writeBytes old d o)[i]? = none := List.getElem?_eq_none (by omega)
          rw [Fs.C17.write_get old d o i hd, Fs.C17.padded_get] at this
          simp [h1, h2] at this
          by_cases h4 : i < old.length
          · simp [h4] at this; omega
          · simp [h4]

/-- an EOF that overtakes the Metadata keeps its checksum and size for the final verification -/
theorem C03_eof_before_metadata_keeps_checksum (env : Env) (d d' : DestSt) (cks : List UInt8) (size : Nat)
    (h : handleEofWithoutPreviousMetadata env ccNoError cks size d = .ok () d') :
    d'.p.crc32 = cks ∧ d'.p.fileSizeEof = some size ∧ d'.p.metadataMissing = true ∧
    d'.step = .SENDING_EOF_ACK_PDU ∧ (0 < size → d'.p.trk = [(0, size)]) := by
  unfold handleEofWithoutPreviousMetadata at h
  cases hi : env.cfg.indEofRecv <;> cases ht : d.p.tid <;> by_cases hs : size > 0 <;>
    msimp [hi, ht, hs, modP, getP, emitInd, prepareEofAckPacket, addPacket, Tracker.add] at h <;>
    (try (subst h; simp [hs]))

/-- the Metadata arriving after the EOF (deferred procedure active) leaves the receiver in the step
that keeps the NAK timer and the completion check running -/
theorem C03_late_metadata_keeps_procedure (env : Env) (d d' : DestSt) (h : Hdr) (cl : Bool) (c sz : Nat)
    (sn dn : String) (m : Option (List Msg))
    (hcall : handleWaitingForMissingMetadata env (some (.md h cl c sz (some sn) (some dn) m)) d = .ok () d')
    (hdef : (stateOf (handleMetadataPacket h cl c sz (some sn) (some dn) m d)).p.deferredActive = true)
    (hstep : (stateOf (handleMetadataPacket h cl c sz (some sn) (some dn) m d)).step = .RECEIVING_FILE_DATA) :
    d'.step = .WAITING_FOR_MISSING_DATA ∧ d'.p.nakCounter = 0 := by
  unfold handleWaitingForMissingMetadata at hcall
  cases hm : handleMetadataPacket h cl c sz (some sn) (some dn) m d with
  | error e s1 => msimp [hm] at hcall
  | ok u s1 =>
    rw [hm] at hdef hstep
    simp at hdef hstep
    cases hpt : s1.p.procTimer with
    | none => msimp [hm, getP, hdef, resetNakActivityParameters, hpt] at hcall
    | some t =>
      msimp [hm, getP, hdef, resetNakActivityParameters, hpt, modP, hstep] at hcall
      subst hcall
      simp

/-- File Data that arrives after the EOF while the Metadata is still missing changes nothing: the
whole file stays listed as lost (it is re-requested together with the Metadata) -/
theorem C03_fd_after_eof_without_metadata_ignored (env : Env) (d : DestSt) (h : Hdr) (off : Nat)
    (data : List UInt8) (fse : Nat) (hf : d.p.fileSizeEof = some fse) :
    handleWaitingForMissingMetadata env (some (.fd h off data)) d = .ok () d := by
  msimp [handleWaitingForMissingMetadata, getP, hf]

/-! ## Recovery from a loss, end to end at the receiver (deferred NAK mode) -/

/-- the destination file while the bytes `[a, b)` are still missing: the first `a` bytes, zeros for
the hole, the bytes from `b` up to `m` -/
def holeFile (F : List UInt8) (a b m : Nat) : List UInt8 :=
  F.take a ++ List.replicate (b - a) 0 ++ (F.drop b).take (m - b)

theorem holeFile_length (F : List UInt8) (a b m : Nat) (hab : a ≤ b) (hbm : b ≤ m) (hm : m ≤ F.length) :
    (holeFile F a b m).length = m := by
  simp [holeFile, List.length_take, List.length_drop]; omega

/-- writing the first tile behind the hole: the file so far is `F.take a`, the tile lands at `b` -/
theorem write_creates_hole (F : List UInt8) (a b n : Nat) (hab : a < b) (hb : b < F.length) (hn : 0 < n) :
    Fs.writeBytes (F.take a) ((F.drop b).take n) b = holeFile F a b (min (b + n) F.length) := by
  have ha : a ≤ F.length := by omega
  have hne : ((F.drop b).take n).isEmpty = false := by
    cases h : (F.drop b).take n with
    | nil =>
      have := congrArg List.length h
      simp [List.length_take, List.length_drop] at this; omega
    | cons _ _ => rfl
  have hl : (F.take a).length = a := by simp [List.length_take]; omega
  simp only [Fs.writeBytes, hne, hl]
  have hgt : b > a := hab
  simp only [hgt, ite_true, Bool.false_eq_true, ite_false]
  have h1 : (F.take a ++ List.replicate (b - a) 0).take b = F.take a ++ List.replicate (b - a) 0 := by
    apply List.take_of_length_le; simp [hl]; omega
  have h2 : (F.take a ++ List.replicate (b - a) 0).drop (b + ((F.drop b).take n).length) = [] := by
    apply List.drop_of_length_le; simp [hl]; omega
  rw [h1, h2, List.append_nil]
  simp only [holeFile]
  congr 1
  by_cases hle : b + n ≤ F.length
  · rw [Nat.min_eq_left hle, Nat.add_sub_cancel_left]
  · have : min (b + n) F.length = F.length := by omega
    rw [this]
    have h3 : (F.drop b).take n = F.drop b := by
      apply List.take_of_length_le; simp [List.length_drop]; omega
    have h4 : (F.drop b).take (F.length - b) = F.drop b := by
      apply List.take_of_length_le; simp [List.length_drop]
    rw [h3, h4]

/-- appending the next in-order tile behind the hole -/
theorem write_extends_hole (F : List UInt8) (a b m n : Nat) (hab : a ≤ b) (hbm : b ≤ m) (hm : m < F.length)
    (hn : 0 < n) :
    Fs.writeBytes (holeFile F a b m) ((F.drop m).take n) m = holeFile F a b (min (m + n) F.length) := by
  have hlen := holeFile_length F a b m hab hbm (by omega)
  have hne : ((F.drop m).take n).isEmpty = false := by
    cases h : (F.drop m).take n with
    | nil =>
      have := congrArg List.length h
      simp [List.length_take, List.length_drop] at this; omega
    | cons _ _ => rfl
  simp only [Fs.writeBytes, hne, hlen, Nat.lt_irrefl, gt_iff_lt, ite_false, Bool.false_eq_true]
  have h1 : (holeFile F a b m).take m = holeFile F a b m := List.take_of_length_le (by omega)
  have h2 : (holeFile F a b m).drop (m + ((F.drop m).take n).length) = [] :=
    List.drop_of_length_le (by omega)
  rw [h1, h2, List.append_nil]
  simp only [holeFile, List.append_assoc]
  congr 2
  -- (F.drop b).take (m - b) ++ (F.drop m).take n = (F.drop b).take (min (m+n) |F| - b)
  have hmb : m = b + (m - b) := by omega
  have hd : F.drop m = (F.drop b).drop (m - b) := by rw [List.drop_drop, ← hmb]
  rw [hd]
  by_cases hle : m + n ≤ F.length
  · rw [Nat.min_eq_left hle]
    have : m + n - b = (m - b) + n := by omega
    rw [this, List.take_add]
  · have hmin : min (m + n) F.length = F.length := by omega
    rw [hmin]
    have h3 : ((F.drop b).drop (m - b)).take n = (F.drop b).drop (m - b) := by
      apply List.take_of_length_le; simp [List.length_drop]; omega
    rw [h3]
    have : F.length - b = (m - b) + (F.length - m) := by omega
    rw [this, List.take_add]
    congr 1
    symm
    apply List.take_of_length_le; simp [List.length_drop]; omega

/-- the retransmitted tile fills the hole: the file is the source file -/
theorem write_fills_hole (F : List UInt8) (a b : Nat) (hab : a < b) (hb : b ≤ F.length) :
    Fs.writeBytes (holeFile F a b F.length) ((F.drop a).take (b - a)) a = F := by
  have hlen := holeFile_length F a b F.length (by omega) hb (Nat.le_refl _)
  have hne : ((F.drop a).take (b - a)).isEmpty = false := by
    cases h : (F.drop a).take (b - a) with
    | nil =>
      have := congrArg List.length h
      simp [List.length_take, List.length_drop] at this; omega
    | cons _ _ => rfl
  have hdl : ((F.drop a).take (b - a)).length = b - a := by
    simp [List.length_take, List.length_drop]; omega
  have hng : ¬ a > F.length := by omega
  simp only [Fs.writeBytes, hne, hlen, hng, ite_false, Bool.false_eq_true, hdl]
  have hab' : a + (b - a) = b := by omega
  rw [hab']
  have hta : (F.take a).length = a := by simp [List.length_take]; omega
  have h1 : (holeFile F a b F.length).take a = F.take a := by
    simp only [holeFile, List.append_assoc]
    rw [List.take_append_of_le_length (by omega)]
    rw [List.take_of_length_le (by omega)]
  have h2 : (holeFile F a b F.length).drop b = F.drop b := by
    simp only [holeFile]
    have hl2 : (F.take a ++ List.replicate (b - a) 0).length = b := by simp [hta]; omega
    rw [List.drop_append_of_le_length (by omega)]
    rw [List.drop_of_length_le (by omega), List.nil_append]
    apply List.take_of_length_le; simp [List.length_drop]
  rw [h1, h2]
  -- F.take a ++ (F.drop a).take (b-a) ++ F.drop b = F
  have : (F.drop a).take (b - a) ++ F.drop b = F.drop a := by
    have hdb : F.drop b = (F.drop a).drop (b - a) := by rw [List.drop_drop, hab']
    rw [hdb, List.take_append_drop]
  rw [List.append_assoc, this, List.take_append_drop]



/-- receiver of an acknowledged transfer in which exactly the bytes `[a, b)` have not arrived yet:
the file has a zero-filled hole there, the lost segment tracker holds exactly `(a, b)` -/
structure ReceivingH (d : DestSt) (dst : String) (F : List UInt8) (a b m : Nat) (rc : RemoteCfg) (t : Tid)
    (cks : Nat) (conf : Hdr) : Prop where
  hbusy : d.state = .busy
  hstep : d.step = .RECEIVING_FILE_DATA
  hready : d.numReady = 0
  hqueue : d.queue = []
  hconf : d.p.conf = conf
  hmode : conf.mode = .ack
  hname : d.p.fileName = dst
  hfile : d.fs.get dst = some (.file (holeFile F a b m))
  hprog : d.p.progress = m
  hnoEof : d.p.fileSizeEof = none
  hrc : d.p.remoteCfg = some rc
  himm : rc.imm = false
  htid : d.p.tid = some t
  hrej : d.rejects = []
  hcks : d.p.cksType = cks
  hcancel : d.p.canceled = false
  hmo : d.p.metadataOnly = false
  hflts : d.flts = []
  hfin : d.p.fin = ⟨ccNoError, dcIncomplete, fsRetained, none⟩
  htrk : d.p.trk = [(a, b)]
  hlastE : d.p.lastEnd = m
  hlastS : d.p.lastStart ≤ m
  hmm : d.p.metadataMissing = false
  hdef : d.p.deferredActive = false

def gapP (p : Params) (a b m : Nat) : Params :=
  { p with progress := m, lastStart := b, lastEnd := m, trk := [(a, b)] }

/-- state after the first tile behind the hole -/
def afterGap (d : DestSt) (dst : String) (F : List UInt8) (a b m n : Nat) (env : Env) (t : Tid) : DestSt :=
  { d with fs := d.fs.set dst (.file (holeFile F a b m)), p := gapP d.p a b m,
           inds := d.inds ++ (if env.cfg.indSegRecv then [.segRecv (some t) b n] else []) }

/-- **The tile after a lost one** (deferred NAK mode): the gap `[a, b)` is recorded as lost, nothing
is requested yet, the data is stored behind a zero-filled hole -/
theorem C03_gap_tile (env : Env) (d : DestSt) (dst : String) (F : List UInt8) (a b n : Nat) (rc : RemoteCfg)
    (t : Tid) (cks : Nat) (conf h : Hdr) (hr : ReceivingA d dst (F.take a) rc t cks conf) (ha : AdmissibleA env rc h)
    (hab : a < b) (hb : b < F.length) (hn : 0 < n) (himm : rc.imm = false) :
    stateMachine env (some (.fd h b ((F.drop b).take n))) d =
      .ok () (afterGap d dst F a b (min (b + n) F.length) (min n (F.length - b)) env t) ∧
    ReceivingH (afterGap d dst F a b (min (b + n) F.length) (min n (F.length - b)) env t) dst F a b
      (min (b + n) F.length) rc t cks conf := by
  have hla : (F.take a).length = a := by simp [List.length_take]; omega
  have hw := write_creates_hole F a b n hab hb hn
  have hdl : ((F.drop b).take n).length = min n (F.length - b) := by simp [List.length_take, List.length_drop]
  have hgt : b > d.p.lastEnd := by rw [hr.hlastE, hla]; exact hab
  have hge : b ≥ d.p.lastEnd := by omega
  have hnle : ¬ b + min n (F.length - b) ≤ b := by omega
  have hm : d.p.conf.mode = .ack := by rw [hr.hconf]; exact hr.hmode
  have hmin : b + min n (F.length - b) = min (b + n) F.length := by omega
  have hmax : max (b + min n (F.length - b)) a = min (b + n) F.length := by omega
  have hcond : ¬ (n = 0 ∨ F.length ≤ b) := by omega
  constructor
  · cases hi : env.cfg.indSegRecv <;>
    msimp [stateMachine, stateMachineWith, checkInsertedPacket, Pdu.hdr, ha.hdir, ha.hdst, ha.hsrc, Pdu.kind,
      Route.getPacketDestination, hr.hbusy, transmissionMode, hm, nonIdleFsm,
      fsmAdvancementAfterPacketsWereSent, hr.hqueue, hr.hstep, fsmFromReceiving, handleFdOrEofPdu, handleFdPdu,
      fdIndication, hi, getP, emitInd, hr.htid, fdLostSegments, lostSegmentHandling, hgt, hge, hnle, hr.hrc, himm,
      hr.htrk, Tracker.add, hdl, hr.hlastE, hcond, hab, Nat.le_of_lt hab,
      fdWrite, vfsWriteData, hr.hrej, hr.hname,
      Fs.writeData, hr.hfile, hw, fdAfterWrite, sizeErrOf, modP, hr.hnoEof, hr.hprog, hla, hmax, hmin,
      fsmFromWaitingForMetadata,
      fsmFromCheckLimit, fsmFromWaitingForMissingData, fsmFromTransferCompletion, fsmFromSendingFinishedPdu,
      fsmFromWaitingForFinishedAck, afterGap, gapP, hr.hfin] <;> omega
  · exact { hbusy := hr.hbusy, hstep := hr.hstep, hready := hr.hready, hqueue := hr.hqueue, hconf := hr.hconf,
            hmode := hr.hmode, hname := hr.hname, hfile := by simp [afterGap, Fs.C17.get_set_same],
            hprog := rfl, hnoEof := hr.hnoEof, hrc := hr.hrc, himm := himm, htid := hr.htid, hrej := hr.hrej,
            hcks := hr.hcks, hcancel := hr.hcancel, hmo := hr.hmo, hflts := hr.hflts,
            hfin := hr.hfin, htrk := rfl, hlastE := rfl,
            hlastS := by simp only [afterGap, gapP]; omega, hmm := hr.hmm, hdef := hr.hdef }

def tileHP (p : Params) (m m' : Nat) : Params :=
  { p with progress := m', lastStart := m, lastEnd := m' }

def afterTileH (d : DestSt) (dst : String) (F : List UInt8) (a b m m' n : Nat) (env : Env) (t : Tid) : DestSt :=
  { d with fs := d.fs.set dst (.file (holeFile F a b m')), p := tileHP d.p m m',
           inds := d.inds ++ (if env.cfg.indSegRecv then [.segRecv (some t) m n] else []) }

/-- **Further in-order tiles behind the hole** are appended; the tracker keeps `(a, b)` -/
theorem C03_tile_behind_hole (env : Env) (d : DestSt) (dst : String) (F : List UInt8) (a b m n : Nat)
    (rc : RemoteCfg) (t : Tid) (cks : Nat) (conf h : Hdr) (hr : ReceivingH d dst F a b m rc t cks conf)
    (ha : AdmissibleA env rc h) (hab : a < b) (hbm : b ≤ m) (hm : m < F.length) (hn : 0 < n) :
    stateMachine env (some (.fd h m ((F.drop m).take n))) d =
      .ok () (afterTileH d dst F a b m (min (m + n) F.length) (min n (F.length - m)) env t) ∧
    ReceivingH (afterTileH d dst F a b m (min (m + n) F.length) (min n (F.length - m)) env t) dst F a b
      (min (m + n) F.length) rc t cks conf := by
  have hw := write_extends_hole F a b m n (Nat.le_of_lt hab) hbm hm hn
  have hdl : ((F.drop m).take n).length = min n (F.length - m) := by simp [List.length_take, List.length_drop]
  have hmode : d.p.conf.mode = .ack := by rw [hr.hconf]; exact hr.hmode
  have hmin : m + min n (F.length - m) = min (m + n) F.length := by omega
  have hmax : max (m + min n (F.length - m)) m = min (m + n) F.length := by omega
  have hcond : ¬ (n = 0 ∨ F.length ≤ m) := by omega
  have hirr : ¬ m < m := Nat.lt_irrefl _
  constructor
  · cases hi : env.cfg.indSegRecv <;>
    msimp [stateMachine, stateMachineWith, checkInsertedPacket, Pdu.hdr, ha.hdir, ha.hdst, ha.hsrc, Pdu.kind,
      Route.getPacketDestination, hr.hbusy, transmissionMode, hmode, nonIdleFsm,
      fsmAdvancementAfterPacketsWereSent, hr.hqueue, hr.hstep, fsmFromReceiving, handleFdOrEofPdu, handleFdPdu,
      fdIndication, hi, getP, emitInd, hr.htid, fdLostSegments, lostSegmentHandling, hr.hlastE, hirr, hcond,
      hdl, fdWrite, vfsWriteData, hr.hrej, hr.hname,
      Fs.writeData, hr.hfile, hw, fdAfterWrite, sizeErrOf, modP, hr.hnoEof, hr.hprog, hmax, hmin,
      fsmFromWaitingForMetadata,
      fsmFromCheckLimit, fsmFromWaitingForMissingData, fsmFromTransferCompletion, fsmFromSendingFinishedPdu,
      fsmFromWaitingForFinishedAck, afterTileH, tileHP, hr.hfin] <;> omega
  · exact { hbusy := hr.hbusy, hstep := hr.hstep, hready := hr.hready, hqueue := hr.hqueue, hconf := hr.hconf,
            hmode := hr.hmode, hname := hr.hname, hfile := by simp [afterTileH, Fs.C17.get_set_same],
            hprog := rfl, hnoEof := hr.hnoEof, hrc := hr.hrc, himm := hr.himm, htid := hr.htid, hrej := hr.hrej,
            hcks := hr.hcks, hcancel := hr.hcancel, hmo := hr.hmo, hflts := hr.hflts,
            hfin := hr.hfin, htrk := hr.htrk, hlastE := rfl,
            hlastS := by simp only [afterTileH, tileHP]; omega, hmm := hr.hmm, hdef := hr.hdef }

/-- **EOF while `[a, b)` is still missing**: it is acknowledged (one ACK (EOF) PDU), nothing is verified yet -/
theorem C03_eof_with_hole (env : Env) (d : DestSt) (dst : String) (F crc : List UInt8) (a b : Nat) (rc : RemoteCfg)
    (t : Tid) (cks : Nat) (conf h : Hdr) (hr : ReceivingH d dst F a b F.length rc t cks conf)
    (ha : AdmissibleA env rc h) :
    stateMachine env (some (.eof h ccNoError crc F.length none)) d = .ok () (afterEofA env d t crc F.length) := by
  have hnlt : ¬ F.length < F.length := by omega
  have hm : d.p.conf.mode = .ack := by rw [hr.hconf]; exact hr.hmode
  cases hi : env.cfg.indEofRecv <;>
  msimp [stateMachine, stateMachineWith, checkInsertedPacket, Pdu.hdr, ha.hdir, ha.hdst, ha.hsrc, Pdu.kind,
    Route.getPacketDestination, hr.hbusy, transmissionMode, hm, nonIdleFsm,
    fsmAdvancementAfterPacketsWereSent, hr.hqueue, hr.hstep, fsmFromReceiving, handleFdOrEofPdu, handleEofPdu,
    modP, hi, getP, hr.htid, emitInd, handleNoErrorEof, hr.hprog, hnlt, noErrorEofVerify,
    fileTransferCompleteTransition, prepareEofAckPacket, addPacket, hr.hready,
    fsmFromWaitingForMetadata, fsmFromCheckLimit,
    fsmFromWaitingForMissingData, fsmFromTransferCompletion, fsmFromSendingFinishedPdu, fsmFromWaitingForFinishedAck,
    afterEofA, eofP, hr.hfin, ccNoError, dtEof]

/-- the receiver after the EOF was acknowledged (ACK retrieved) with `[a, b)` missing -/
structure AckedH (d : DestSt) (dst : String) (F crc : List UInt8) (a b : Nat) (rc : RemoteCfg) (t : Tid) (cks : Nat)
    (conf : Hdr) (G : List UInt8) (m : Nat) : Prop where
  hbusy : d.state = .busy
  hstep : d.step = .SENDING_EOF_ACK_PDU
  hready : d.numReady = 0
  hqueue : d.queue = []
  hconf : d.p.conf = conf
  hmode : conf.mode = .ack
  hname : d.p.fileName = dst
  hfile : d.fs.get dst = some (.file G)
  hprog : d.p.progress = m
  hcrc : d.p.crc32 = crc
  hfse : d.p.fileSizeEof = some F.length
  hrc : d.p.remoteCfg = some rc
  htid : d.p.tid = some t
  hrej : d.rejects = []
  hcks : d.p.cksType = cks
  hcancel : d.p.canceled = false
  hmo : d.p.metadataOnly = false
  hfin : d.p.fin = ⟨ccNoError, dcIncomplete, fsRetained, none⟩
  htrk : d.p.trk = [(a, b)]
  hmm : d.p.metadataMissing = false
  hdef : d.p.deferredActive = false
  hpt : d.p.procTimer = none

def defP (p : Params) (fse now ms : Nat) : Params :=
  { p with deferredActive := true, lastStart := fse, lastEnd := fse, procTimer := some ⟨now, ms⟩ }

/-- state after the deferred lost segment procedure was started: one NAK PDU requesting `[a, b)` -/
def afterDeferred (env : Env) (d : DestSt) (F : List UInt8) (a b : Nat) (rc : RemoteCfg) : DestSt :=
  { d with step := .WAITING_FOR_MISSING_DATA, p := defP d.p F.length env.now rc.nakMs,
           queue := [mkNak d.p.conf 0 F.length [(a, b)]], numReady := 1 }

/-- **The deferred procedure requests exactly what is missing**: one NAK PDU, scope `(0, |F|)`, the
single segment request `(a, b)`; the NAK timer is started, the activity counter stays 0 -/
theorem C03_deferred_requests_hole (env : Env) (d : DestSt) (dst : String) (F crc : List UInt8) (a b : Nat)
    (rc : RemoteCfg) (t : Tid) (cks : Nat) (conf : Hdr) (maxSegs : Nat)
    (G : List UInt8) (m : Nat)
    (hr : AckedH d dst F crc a b rc t cks conf G m) (hmax : maxSegReqs rc.maxPkt conf = some maxSegs)
    (hms : 1 ≤ maxSegs) (hnak : rc.nakMs ≠ 0) :
    stateMachine env none d = .ok () (afterDeferred env d F a b rc) := by
  unfold stateMachine
  generalize (stateMachineWith env none (stateMachineWith env none (throw Err.recursionError))) = rec
  have hmax' : maxSegReqs rc.maxPkt d.p.conf = some maxSegs := by rw [hr.hconf]; exact hmax
  have hnm : ¬ maxSegs ≤ 0 := by omega
  have hpos : 0 < rc.nakMs := by omega
  msimp [stateMachineWith, hr.hbusy, nonIdleFsm, fsmAdvancementAfterPacketsWereSent, hr.hqueue,
    hr.hstep, hr.hcancel, hr.htrk, hr.hmm, startDeferredLostSegmentHandling, getP, hr.hfse, modP,
    Tracker.coalesce, Tracker.coalesceGo, deferredLostSegmentHandling, hr.hrc, hr.hpt, hmax', addPackets,
    nakSequence, splitReqs, hnm, hr.hready,
    fsmFromReceiving, fsmFromWaitingForMetadata, fsmFromCheckLimit, fsmFromWaitingForMissingData,
    Timer.busy, Timer.timedOut, hnak, hpos,
    fsmFromTransferCompletion, fsmFromSendingFinishedPdu, fsmFromWaitingForFinishedAck, afterDeferred, defP]

/-- the receiver waiting for the retransmission of `[a, b)` (NAK retrieved) -/
structure Waiting (d : DestSt) (dst : String) (F crc : List UInt8) (a b : Nat) (rc : RemoteCfg) (t : Tid) (cks : Nat)
    (conf : Hdr) (tm : Timer) (G : List UInt8) (m : Nat) : Prop where
  hbusy : d.state = .busy
  hstep : d.step = .WAITING_FOR_MISSING_DATA
  hready : d.numReady = 0
  hqueue : d.queue = []
  hconf : d.p.conf = conf
  hmode : conf.mode = .ack
  hname : d.p.fileName = dst
  hfile : d.fs.get dst = some (.file G)
  hprog : d.p.progress = m
  hcrc : d.p.crc32 = crc
  hfse : d.p.fileSizeEof = some F.length
  hrc : d.p.remoteCfg = some rc
  htid : d.p.tid = some t
  hrej : d.rejects = []
  hcks : d.p.cksType = cks
  hcancel : d.p.canceled = false
  hmo : d.p.metadataOnly = false
  hfin : d.p.fin = ⟨ccNoError, dcIncomplete, fsRetained, none⟩
  htrk : d.p.trk = [(a, b)]
  hmm : d.p.metadataMissing = false
  hdef : d.p.deferredActive = true
  hpt : d.p.procTimer = some tm
  hlastS : d.p.lastStart = F.length
  hlastE : d.p.lastEnd = F.length

def doneP (p : Params) (now ms nakMs n : Nat) : Params :=
  { p with progress := n, fin := ⟨ccNoError, dcComplete, fsRetained, none⟩, ackTimer := some ⟨now, ms⟩, ackCounter := 0,
           trk := [], deferredActive := false, nakCounter := 0, procTimer := some ⟨now, nakMs⟩ }

/-- state after the retransmitted data arrived -/
def afterRetransmission (env : Env) (d : DestSt) (dst : String) (F : List UInt8) (a b : Nat) (t : Tid)
    (rc : RemoteCfg) (tm : Timer) : DestSt :=
  { d with step := .WAITING_FOR_FINISHED_ACK, fs := d.fs.set dst (.file F),
           p := doneP d.p env.now rc.ackMs tm.timeout F.length,
           queue := [mkFin d.p.conf ⟨ccNoError, dcComplete, fsRetained, none⟩], numReady := 1,
           inds := d.inds ++ (if env.cfg.indSegRecv then [.segRecv (some t) a (b - a)] else []) ++
             (if env.cfg.indFinished
               then [.finished (some t) ⟨ccNoError, dcComplete, fsRetained, none⟩] else []) }

/-- **The retransmission completes the file**: the hole is filled, the tracker is empty, the
checksum is verified, the user is told (No error, Data complete, File retained) and exactly one
Finished PDU with those values is queued -/
theorem C03_retransmission_completes (env : Env) (d : DestSt) (dst : String) (F crc : List UInt8) (a b : Nat)
    (rc : RemoteCfg) (t : Tid) (cks : Nat) (conf h : Hdr) (tm : Timer) (G : List UInt8) (m : Nat)
    (hr : Waiting d dst F crc a b rc t cks conf tm G m) (ha : AdmissibleA env rc h)
    (hab : a < b) (hb : b ≤ F.length) (hms : rc.ackMs ≠ 0)
    (hw : Fs.writeBytes G ((F.drop a).take (b - a)) a = F) (h7 : max b m = F.length)
    (hver : cks = 15 ∨ ∀ fs : Fs, fs.get dst = some (.file F) →
      Fs.calcChecksum fs (Checksum.CksType.ofNat cks) dst F.length 4096 = .ok crc) :
    stateMachine env (some (.fd h a ((F.drop a).take (b - a)))) d =
      .ok () (afterRetransmission env d dst F a b t rc tm) := by
  unfold stateMachine
  generalize (stateMachineWith env none (stateMachineWith env none (throw Err.recursionError))) = rec
  have hdl : ((F.drop a).take (b - a)).length = b - a := by simp [List.length_take, List.length_drop]; omega
  have hm : d.p.conf.mode = .ack := by rw [hr.hconf]; exact hr.hmode
  have h1 : ¬ a > F.length := by omega
  have h2 : ¬ a ≥ F.length := by omega
  have h3 : a + (b - a) ≤ F.length := by omega
  have h4 : a + (b - a) = b := by omega
  have h5 : ¬ a = b := by omega
  have h6 : ¬ b > F.length := by omega
  have hpos : 0 < rc.ackMs := by omega
  rcases hver with hnull | hc
  · cases hi : env.cfg.indSegRecv <;> cases hf : env.cfg.indFinished <;>
    msimp [stateMachineWith, checkInsertedPacket, Pdu.hdr, ha.hdir, ha.hdst, ha.hsrc, Pdu.kind,
      Route.getPacketDestination, hr.hbusy, transmissionMode, hm, nonIdleFsm,
      fsmAdvancementAfterPacketsWereSent, hr.hqueue, hr.hstep, fsmFromReceiving, fsmFromWaitingForMetadata,
      fsmFromCheckLimit, fsmFromWaitingForMissingData, handleFdPdu,
      fdIndication, hi, getP, emitInd, hr.htid, fdLostSegments, lostSegmentHandling, hr.hlastE, hr.hlastS,
      h1, h2, h3, h4, h5, h6, h7, hb, hdl, hr.htrk, Tracker.remove, Tracker.lookup, Tracker.erase,
      fdWrite, vfsWriteData, hr.hrej, hr.hname,
      Fs.writeData, hr.hfile, hw, fdAfterWrite, sizeErrOf, modP, hr.hfse, hr.hprog, hr.hdef,
      resetNakActivityParameters, hr.hpt, deferredLostSegmentHandling, hr.hcancel, hr.hrc, hr.hmm,
      checksumVerify, hr.hcks, hnull, markComplete,
      fsmFromTransferCompletion, handleTransferCompletion, noticeOfCompletion, hf,
      fsmFromSendingFinishedPdu, hr.hready, prepareFinishedPdu, addPacket,
      handleFinishedPduSent, startPositiveAckProcedure, fsmFromWaitingForFinishedAck,
      handleWaitingForFinishedAck, handlePositiveAckProcedures, Timer.timedOut, Timer.reset, hms, hpos,
      afterRetransmission, doneP, hr.hfin]
  · by_cases hnull : cks = 15
    · cases hi : env.cfg.indSegRecv <;> cases hf : env.cfg.indFinished <;>
      msimp [stateMachineWith, checkInsertedPacket, Pdu.hdr, ha.hdir, ha.hdst, ha.hsrc, Pdu.kind,
        Route.getPacketDestination, hr.hbusy, transmissionMode, hm, nonIdleFsm,
        fsmAdvancementAfterPacketsWereSent, hr.hqueue, hr.hstep, fsmFromReceiving, fsmFromWaitingForMetadata,
        fsmFromCheckLimit, fsmFromWaitingForMissingData, handleFdPdu,
        fdIndication, hi, getP, emitInd, hr.htid, fdLostSegments, lostSegmentHandling, hr.hlastE, hr.hlastS,
        h1, h2, h3, h4, h5, h6, h7, hb, hdl, hr.htrk, Tracker.remove, Tracker.lookup, Tracker.erase,
        fdWrite, vfsWriteData, hr.hrej, hr.hname,
        Fs.writeData, hr.hfile, hw, fdAfterWrite, sizeErrOf, modP, hr.hfse, hr.hprog, hr.hdef,
        resetNakActivityParameters, hr.hpt, deferredLostSegmentHandling, hr.hcancel, hr.hrc, hr.hmm,
        checksumVerify, hr.hcks, hnull, markComplete,
        fsmFromTransferCompletion, handleTransferCompletion, noticeOfCompletion, hf,
        fsmFromSendingFinishedPdu, hr.hready, prepareFinishedPdu, addPacket,
        handleFinishedPduSent, startPositiveAckProcedure, fsmFromWaitingForFinishedAck,
        handleWaitingForFinishedAck, handlePositiveAckProcedures, Timer.timedOut, Timer.reset, hms, hpos,
        afterRetransmission, doneP, hr.hfin]
    · have hcc := hc (d.fs.set dst (.file F)) (by simp [Fs.C17.get_set_same])
      cases hi : env.cfg.indSegRecv <;> cases hf : env.cfg.indFinished <;>
      msimp [stateMachineWith, checkInsertedPacket, Pdu.hdr, ha.hdir, ha.hdst, ha.hsrc, Pdu.kind,
        Route.getPacketDestination, hr.hbusy, transmissionMode, hm, nonIdleFsm,
        fsmAdvancementAfterPacketsWereSent, hr.hqueue, hr.hstep, fsmFromReceiving, fsmFromWaitingForMetadata,
        fsmFromCheckLimit, fsmFromWaitingForMissingData, handleFdPdu,
        fdIndication, hi, getP, emitInd, hr.htid, fdLostSegments, lostSegmentHandling, hr.hlastE, hr.hlastS,
        h1, h2, h3, h4, h5, h6, h7, hb, hdl, hr.htrk, Tracker.remove, Tracker.lookup, Tracker.erase,
        fdWrite, vfsWriteData, hr.hrej, hr.hname,
        Fs.writeData, hr.hfile, hw, fdAfterWrite, sizeErrOf, modP, hr.hfse, hr.hprog, hr.hdef,
        resetNakActivityParameters, hr.hpt, deferredLostSegmentHandling, hr.hcancel, hr.hrc, hr.hmm,
        checksumVerify, hr.hcks, hnull, hr.hmo, hcc, hr.hcrc, markComplete,
        fsmFromTransferCompletion, handleTransferCompletion, noticeOfCompletion, hf,
        fsmFromSendingFinishedPdu, hr.hready, prepareFinishedPdu, addPacket,
        handleFinishedPduSent, startPositiveAckProcedure, fsmFromWaitingForFinishedAck,
        handleWaitingForFinishedAck, handlePositiveAckProcedures, Timer.timedOut, Timer.reset, hms, hpos,
        afterRetransmission, doneP, hr.hfin]

/-- in-order tiles never touch the NAK timer -/
theorem feed_keeps_timer (env : Env) (h conf : Hdr) (rc : RemoteCfg) (t : Tid) (cks : Nat) (dst : String)
    (ha : AdmissibleA env rc h) :
    ∀ (cs : List (List UInt8)) (P : List UInt8) (d d' : DestSt), (∀ c ∈ cs, c ≠ []) →
      ReceivingA d dst P rc t cks conf → feed env h cs P.length d = some d' →
      d'.p.procTimer = d.p.procTimer := by
  intro cs
  induction cs with
  | nil => intro P d d' _ _ hf; simp [feed] at hf; rw [hf]
  | cons c cs ih =>
    intro P d d' hne hr hf
    have hc : c ≠ [] := hne c (by simp)
    obtain ⟨hcall, hr'⟩ := C02_tile_ack env d dst P c rc t cks conf h hr ha hc
    simp only [feed, hcall] at hf
    have := ih (P ++ c) _ d' (fun x hx => hne x (by simp [hx])) hr' (by simpa using hf)
    rw [this]; rfl

/-- the tiles behind the hole: `k` of them, each `seg` long (the last one shorter), in order -/
def feedSeg (env : Env) (h : Hdr) (F : List UInt8) (seg : Nat) : Nat → Nat → DestSt → Option DestSt
  | 0, _, d => some d
  | k + 1, m, d =>
    match stateMachine env (some (.fd h m ((F.drop m).take seg))) d with
    | .ok _ d' => feedSeg env h F seg k (min (m + seg) F.length) d'
    | .error _ _ => none

theorem C03_tiles_behind_hole (env : Env) (h conf : Hdr) (rc : RemoteCfg) (t : Tid) (cks : Nat) (dst : String)
    (F : List UInt8) (a b seg : Nat) (hab : a < b) (hseg : 0 < seg) (ha : AdmissibleA env rc h) :
    ∀ (k m : Nat) (d : DestSt), b ≤ m → m ≤ F.length → (k = 0 ∨ m + (k - 1) * seg < F.length) →
      ReceivingH d dst F a b m rc t cks conf →
      ∃ d', feedSeg env h F seg k m d = some d' ∧
        ReceivingH d' dst F a b (min (m + k * seg) F.length) rc t cks conf ∧
        (∀ q, q ≠ dst → d'.fs.get q = d.fs.get q) ∧
        d'.inds.filter isFinished = d.inds.filter isFinished ∧ d'.p.procTimer = d.p.procTimer := by
  intro k
  induction k with
  | zero =>
    intro m d hbm hm _ hr
    exact ⟨d, rfl, by simpa [Nat.min_eq_left hm] using hr, fun _ _ => rfl, rfl, rfl⟩
  | succ k ih =>
    intro m d hbm hmle hk hr
    have hmlt : m < F.length := by
      rcases hk with h0 | h0
      · omega
      · have : m ≤ m + (k + 1 - 1) * seg := Nat.le_add_right _ _
        omega
    obtain ⟨hcall, hr'⟩ := C03_tile_behind_hole env d dst F a b m seg rc t cks conf h hr ha hab hbm hmlt hseg
    have hk' : k = 0 ∨ min (m + seg) F.length + (k - 1) * seg < F.length := by
      by_cases h0 : k = 0
      · exact Or.inl h0
      · right
        have h1 := hk.resolve_left (by omega)
        simp only [Nat.add_sub_cancel] at h1
        have h2 : k = (k - 1) + 1 := by omega
        rw [h2, Nat.add_mul, Nat.one_mul] at h1
        have : min (m + seg) F.length ≤ m + seg := Nat.min_le_left _ _
        omega
    obtain ⟨d', hf, hR, hother, hfin, hpt⟩ := ih (min (m + seg) F.length) _ (by omega) (Nat.min_le_right _ _) hk' hr'
    refine ⟨d', ?_, ?_, ?_, ?_, ?_⟩
    · simp only [feedSeg, hcall]; exact hf
    · have : min (min (m + seg) F.length + k * seg) F.length = min (m + (k + 1) * seg) F.length := by
        rw [Nat.add_mul, Nat.one_mul]; omega
      rw [← this]; exact hR
    · intro q hq
      rw [hother q hq]
      simp [afterTileH, Fs.C17.get_set_other _ _ _ _ hq]
    · rw [hfin]
      simp only [afterTileH]
      split <;> simp [isFinished]
    · rw [hpt]; rfl

/-- **Recovery from the loss of one File Data PDU (receiver, deferred NAK mode).**  For every file
`F`, segment length `seg ≥ 1`, header configuration, checksum type and indication setting, and every
tile `[a, b)` of the file that is not the last one (`b = a + seg < |F|`, `a` on the segment grid):
the receiver is handed Metadata, the tiles before `a` in order, *not* the tile `[a, b)`, the tiles
from `b` on in order, the EOF.  Then

* it acknowledges the EOF, and — after the ACK was retrieved — its next call queues **exactly one NAK
  PDU with scope `(0, |F|)` and the single segment request `(a, b)`**: it requests exactly what is
  missing, nothing else (C06);
* when the sender re-sends those bytes, the same call fills the hole, verifies the checksum, tells
  the user (No error, Data complete, File retained) and queues exactly one Finished PDU with these
  values; the sender's ACK (Finished) leaves the receiver idle;
* no call raised, no fault callback, the destination file is byte-identical to `F`, every other
  path is untouched. -/
theorem C03_single_loss_recovery (env env2 env3 env4 : Env) (d0 : DestSt) (h hack : Hdr) (rc : RemoteCfg)
    (closure : Bool) (cks : Nat) (sname dname : String) (msgs : Option (List Msg)) (F crc : List UInt8)
    (cs1 : List (List UInt8)) (a b seg k maxSegs cond ts : Nat)
    (ha : AdmissibleA env rc h) (ha3 : AdmissibleA env3 rc h) (ha4 : AdmissibleA env4 rc hack)
    (hms : rc.ackMs ≠ 0) (hnak : rc.nakMs ≠ 0) (himm : rc.imm = false)
    (hmaxs : maxSegReqs rc.maxPkt ⟨.toSend, h.mode, h.crc, h.large, h.src, h.dst, h.seq⟩ = some maxSegs)
    (hmax1 : 1 ≤ maxSegs)
    (hidle : d0.state = .idle) (hq : d0.queue = []) (hr : d0.numReady = 0) (hrej : d0.rejects = [])
    (hfl : d0.flts = []) (hnd : Fs.isDir d0.fs dname = false)
    (hok : (∃ old, d0.fs.get dname = some (.file old)) ∨
           (Fs.exists' d0.fs dname = false ∧ Fs.parentIsDir d0.fs dname = true))
    (hcs1 : cs1.flatten = F.take a) (hne1 : ∀ c ∈ cs1, c ≠ [])
    (hseg : 0 < seg) (hb : b = a + seg) (hbF : b < F.length)
    (hk : min (b + seg) F.length + (k - 1) * seg < F.length ∨ k = 0)
    (hkend : F.length ≤ min (b + seg) F.length + k * seg)
    (hcrc : cks = 15 ∨ ∀ fs : Fs, fs.get dname = some (.file F) →
      Fs.calcChecksum fs (Checksum.CksType.ofNat cks) dname F.length 4096 = .ok crc) :
    ∃ d1 d2 d3 d4 d5 d6 d7 d8,
      stateMachine env (some (.md h closure cks F.length (some sname) (some dname) msgs)) d0 = .ok () d1 ∧
      feed env h cs1 0 d1 = some d2 ∧
      stateMachine env (some (.fd h b ((F.drop b).take seg))) d2 = .ok () d3 ∧
      feedSeg env h F seg k (min (b + seg) F.length) d3 = some d4 ∧
      stateMachine env (some (.eof h ccNoError crc F.length none)) d4 = .ok () d5 ∧
      d5.queue = [mkAck d1.p.conf dtEof ccNoError tsActive] ∧
      stateMachine env2 none (drained d5) = .ok () d6 ∧
      d6.queue = [mkNak d1.p.conf 0 F.length [(a, b)]] ∧
      stateMachine env3 (some (.fd h a ((F.drop a).take (b - a)))) (drained d6) = .ok () d7 ∧
      d7.queue = [mkFin d1.p.conf ⟨ccNoError, dcComplete, fsRetained, none⟩] ∧
      stateMachine env4 (some (.ack hack dtFinished cond ts)) (drained d7) = .ok () d8 ∧
      d8.state = .idle ∧ d8.queue = [] ∧ d8.flts = [] ∧
      d8.fs.get dname = some (.file F) ∧ (∀ q, q ≠ dname → d8.fs.get q = d0.fs.get q) ∧
      d8.inds.filter isFinished = d0.inds.filter isFinished ++
        (if env3.cfg.indFinished
          then [.finished (some ⟨h.src, h.seq⟩) ⟨ccNoError, dcComplete, fsRetained, none⟩] else []) := by
  have hab : a < b := by omega
  have haF : a ≤ F.length := by omega
  -- Metadata and the tiles before the lost one
  obtain ⟨hmd, hR1⟩ := C02_metadata_ack env d0 h rc closure cks F.length sname dname msgs ha hidle hq hr hrej hfl hnd hok
  obtain ⟨d2, hfeed, hR2, hother2, hfin2⟩ := C02_tiles_ack env h _ rc _ cks dname ha cs1 [] _ hne1 hR1
  have hpt2 := feed_keeps_timer env h _ rc _ cks dname ha cs1 [] _ d2 hne1 hR1 hfeed
  simp only [List.nil_append, hcs1, List.length_nil] at hfeed hR2
  -- the tile behind the lost one
  obtain ⟨hgap, hR3⟩ := C03_gap_tile env d2 dname F a b seg rc _ cks _ h hR2 ha hab hbF hseg himm
  -- the remaining tiles
  obtain ⟨d4, hfs, hR4, hother4, hfin4, hpt4⟩ := C03_tiles_behind_hole env h _ rc _ cks dname F a b seg hab hseg ha
    k (min (b + seg) F.length) _ (by omega) (Nat.min_le_right _ _) (by rcases hk with h1 | h1; exact Or.inr h1; exact Or.inl h1)
    hR3
  have hend : min (min (b + seg) F.length + k * seg) F.length = F.length := by omega
  rw [hend] at hR4
  -- EOF
  have heof := C03_eof_with_hole env d4 dname F crc a b rc _ cks _ h hR4 ha
  -- deferred procedure
  have hA : AckedH (drained (afterEofA env d4 ⟨h.src, h.seq⟩ crc F.length)) dname F crc a b rc ⟨h.src, h.seq⟩ cks
      ⟨.toSend, h.mode, h.crc, h.large, h.src, h.dst, h.seq⟩ (holeFile F a b F.length) F.length :=
    { hbusy := hR4.hbusy, hstep := rfl, hready := rfl, hqueue := rfl, hconf := hR4.hconf, hmode := hR4.hmode,
      hname := hR4.hname, hfile := hR4.hfile, hprog := hR4.hprog, hcrc := rfl, hfse := rfl, hrc := hR4.hrc,
      htid := hR4.htid, hrej := hR4.hrej, hcks := hR4.hcks, hcancel := hR4.hcancel, hmo := hR4.hmo,
      hfin := hR4.hfin, htrk := hR4.htrk, hmm := hR4.hmm, hdef := hR4.hdef,
      hpt := by
        show d4.p.procTimer = none
        rw [hpt4]; show d2.p.procTimer = none
        rw [hpt2]; rfl }
  have hdef := C03_deferred_requests_hole env2 _ dname F crc a b rc _ cks _ maxSegs _ _ hA hmaxs hmax1 hnak
  -- retransmission
  have hW : Waiting (drained (afterDeferred env2 (drained (afterEofA env d4 ⟨h.src, h.seq⟩ crc F.length)) F a b rc))
      dname F crc a b rc ⟨h.src, h.seq⟩ cks ⟨.toSend, h.mode, h.crc, h.large, h.src, h.dst, h.seq⟩
      ⟨env2.now, rc.nakMs⟩ (holeFile F a b F.length) F.length :=
    { hbusy := hR4.hbusy, hstep := rfl, hready := rfl, hqueue := rfl, hconf := hR4.hconf, hmode := hR4.hmode,
      hname := hR4.hname, hfile := hR4.hfile, hprog := hR4.hprog, hcrc := rfl, hfse := rfl, hrc := hR4.hrc,
      htid := hR4.htid, hrej := hR4.hrej, hcks := hR4.hcks, hcancel := hR4.hcancel, hmo := hR4.hmo,
      hfin := hR4.hfin, htrk := hR4.htrk, hmm := hR4.hmm, hdef := rfl, hpt := rfl, hlastS := rfl, hlastE := rfl }
  have hret := C03_retransmission_completes env3 _ dname F crc a b rc _ cks _ h _ _ _ hW ha3 hab (by omega) hms
    (write_fills_hole F a b hab (by omega)) (by omega) hcrc
  -- ACK (Finished)
  have hfa := C02_finished_acked env4 (drained (afterRetransmission env3
      (drained (afterDeferred env2 (drained (afterEofA env d4 ⟨h.src, h.seq⟩ crc F.length)) F a b rc))
      dname F a b ⟨h.src, h.seq⟩ rc ⟨env2.now, rc.nakMs⟩)) rc hack cond ts ha4 hR4.hbusy rfl rfl
    (by simp [drained, afterRetransmission, doneP, afterDeferred, defP, afterEofA, eofP, hR4.hconf, ha.hmode])
  refine ⟨_, d2, _, d4, _, _, _, _, hmd, hfeed, hgap, hfs, heof, ?_, hdef, ?_, hret, ?_, hfa, rfl, rfl, ?_, ?_, ?_, ?_⟩
  · simp [afterEofA, hR4.hconf, afterMdA, mdParamsA]
  · simp [afterDeferred, drained, afterEofA, eofP, hR4.hconf, afterMdA, mdParamsA]
  · simp [afterRetransmission, drained, afterDeferred, defP, afterEofA, eofP, hR4.hconf, afterMdA, mdParamsA]
  · simp [drained, afterRetransmission, afterDeferred, afterEofA, hR4.hflts]
  · simp [drained, afterRetransmission, Fs.C17.get_set_same]
  · intro q hq'
    simp only [drained, afterRetransmission, afterDeferred, afterEofA]
    rw [Fs.C17.get_set_other _ _ _ _ hq', hother4 q hq']
    simp only [afterGap]
    rw [Fs.C17.get_set_other _ _ _ _ hq', hother2 q hq']
    simp [afterMdA, Fs.C17.get_set_other _ _ _ _ hq']
  · simp only [drained, afterRetransmission, afterDeferred, afterEofA, List.filter_append, hfin4]
    simp only [afterGap, List.filter_append, hfin2]
    have h1 : (afterMdA env d0 h rc closure cks F.length sname dname msgs).inds.filter isFinished =
        d0.inds.filter isFinished := by simp [afterMdA, isFinished]
    rw [h1]
    cases env.cfg.indSegRecv <;> cases env.cfg.indEofRecv <;> cases env3.cfg.indSegRecv <;>
      cases env3.cfg.indFinished <;> simp [isFinished]

/-! ### the tail of the file is lost -/

def eofTailP (p : Params) (crc : List UInt8) (a size : Nat) : Params :=
  { p with crc32 := crc, fileSizeEof := some size, trk := [(a, size)] }

def afterEofTail (env : Env) (d : DestSt) (t : Tid) (crc : List UInt8) (a size : Nat) : DestSt :=
  { d with step := .SENDING_EOF_ACK_PDU, p := eofTailP d.p crc a size,
           queue := [mkAck d.p.conf dtEof ccNoError tsActive], numReady := 1,
           inds := d.inds ++ (if env.cfg.indEofRecv then [.eofRecv t] else []) }

/-- **EOF announcing more than was received**: the missing tail `[a, |F|)` is recorded as lost and the
EOF is acknowledged -/
theorem C03_eof_tail_missing (env : Env) (d : DestSt) (dst : String) (F crc : List UInt8) (a : Nat)
    (rc : RemoteCfg) (t : Tid) (cks : Nat) (conf h : Hdr) (hr : ReceivingA d dst (F.take a) rc t cks conf)
    (ha : AdmissibleA env rc h) (haF : a < F.length) :
    stateMachine env (some (.eof h ccNoError crc F.length none)) d =
      .ok () (afterEofTail env d t crc a F.length) := by
  have hla : (F.take a).length = a := by simp [List.length_take]; omega
  have hngt : ¬ a > F.length := by omega
  have hm : d.p.conf.mode = .ack := by rw [hr.hconf]; exact hr.hmode
  cases hi : env.cfg.indEofRecv <;>
  msimp [stateMachine, stateMachineWith, checkInsertedPacket, Pdu.hdr, ha.hdir, ha.hdst, ha.hsrc, Pdu.kind,
    Route.getPacketDestination, hr.hbusy, transmissionMode, hm, nonIdleFsm,
    fsmAdvancementAfterPacketsWereSent, hr.hqueue, hr.hstep, fsmFromReceiving, handleFdOrEofPdu, handleEofPdu,
    modP, hi, getP, hr.htid, emitInd, handleNoErrorEof, hr.hprog, hla, haF, hngt, hr.htrk, Tracker.add,
    noErrorEofVerify,
    fileTransferCompleteTransition, prepareEofAckPacket, addPacket, hr.hready,
    fsmFromWaitingForMetadata, fsmFromCheckLimit,
    fsmFromWaitingForMissingData, fsmFromTransferCompletion, fsmFromSendingFinishedPdu, fsmFromWaitingForFinishedAck,
    afterEofTail, eofTailP, hr.hfin, ccNoError, dtEof]

/-- **Recovery from the loss of the tail of the file** (receiver, acknowledged mode): the receiver got
Metadata and the first `a` bytes (in order, `a < |F|`), then the EOF.  It acknowledges the EOF; its next
call queues exactly one NAK PDU with scope `(0, |F|)` and the single request `(a, |F|)`; when those
bytes arrive the file is complete, verified and reported, one Finished PDU is queued; the ACK
(Finished) leaves it idle; the destination file is byte-identical to `F`. -/
theorem C03_tail_loss_recovery (env env2 env3 env4 : Env) (d0 : DestSt) (h hack : Hdr) (rc : RemoteCfg)
    (closure : Bool) (cks : Nat) (sname dname : String) (msgs : Option (List Msg)) (F crc : List UInt8)
    (cs1 : List (List UInt8)) (a maxSegs cond ts : Nat)
    (ha : AdmissibleA env rc h) (ha3 : AdmissibleA env3 rc h) (ha4 : AdmissibleA env4 rc hack)
    (hms : rc.ackMs ≠ 0) (hnak : rc.nakMs ≠ 0)
    (hmaxs : maxSegReqs rc.maxPkt ⟨.toSend, h.mode, h.crc, h.large, h.src, h.dst, h.seq⟩ = some maxSegs)
    (hmax1 : 1 ≤ maxSegs)
    (hidle : d0.state = .idle) (hq : d0.queue = []) (hr : d0.numReady = 0) (hrej : d0.rejects = [])
    (hfl : d0.flts = []) (hnd : Fs.isDir d0.fs dname = false)
    (hok : (∃ old, d0.fs.get dname = some (.file old)) ∨
           (Fs.exists' d0.fs dname = false ∧ Fs.parentIsDir d0.fs dname = true))
    (hcs1 : cs1.flatten = F.take a) (hne1 : ∀ c ∈ cs1, c ≠ []) (haF : a < F.length)
    (hcrc : cks = 15 ∨ ∀ fs : Fs, fs.get dname = some (.file F) →
      Fs.calcChecksum fs (Checksum.CksType.ofNat cks) dname F.length 4096 = .ok crc) :
    ∃ d1 d2 d5 d6 d7 d8,
      stateMachine env (some (.md h closure cks F.length (some sname) (some dname) msgs)) d0 = .ok () d1 ∧
      feed env h cs1 0 d1 = some d2 ∧
      stateMachine env (some (.eof h ccNoError crc F.length none)) d2 = .ok () d5 ∧
      stateMachine env2 none (drained d5) = .ok () d6 ∧
      d6.queue = [mkNak d1.p.conf 0 F.length [(a, F.length)]] ∧
      stateMachine env3 (some (.fd h a ((F.drop a).take (F.length - a)))) (drained d6) = .ok () d7 ∧
      d7.queue = [mkFin d1.p.conf ⟨ccNoError, dcComplete, fsRetained, none⟩] ∧
      stateMachine env4 (some (.ack hack dtFinished cond ts)) (drained d7) = .ok () d8 ∧
      d8.state = .idle ∧ d8.queue = [] ∧ d8.flts = [] ∧
      d8.fs.get dname = some (.file F) ∧ (∀ q, q ≠ dname → d8.fs.get q = d0.fs.get q) := by
  obtain ⟨hmd, hR1⟩ := C02_metadata_ack env d0 h rc closure cks F.length sname dname msgs ha hidle hq hr hrej hfl hnd hok
  obtain ⟨d2, hfeed, hR2, hother2, hfin2⟩ := C02_tiles_ack env h _ rc _ cks dname ha cs1 [] _ hne1 hR1
  have hpt2 := feed_keeps_timer env h _ rc _ cks dname ha cs1 [] _ d2 hne1 hR1 hfeed
  simp only [List.nil_append, hcs1, List.length_nil] at hfeed hR2
  have hla : (F.take a).length = a := by simp [List.length_take]; omega
  have heof := C03_eof_tail_missing env d2 dname F crc a rc _ cks _ h hR2 ha haF
  have hA : AckedH (drained (afterEofTail env d2 ⟨h.src, h.seq⟩ crc a F.length)) dname F crc a F.length rc
      ⟨h.src, h.seq⟩ cks ⟨.toSend, h.mode, h.crc, h.large, h.src, h.dst, h.seq⟩ (F.take a) a :=
    { hbusy := hR2.hbusy, hstep := rfl, hready := rfl, hqueue := rfl, hconf := hR2.hconf, hmode := hR2.hmode,
      hname := hR2.hname, hfile := hR2.hfile, hprog := by show d2.p.progress = a; rw [hR2.hprog, hla], hcrc := rfl, hfse := rfl,
      hrc := hR2.hrc, htid := hR2.htid, hrej := hR2.hrej, hcks := hR2.hcks, hcancel := hR2.hcancel, hmo := hR2.hmo,
      hfin := hR2.hfin, htrk := rfl, hmm := hR2.hmm, hdef := hR2.hdef,
      hpt := by show d2.p.procTimer = none; rw [hpt2]; rfl }
  have hdef := C03_deferred_requests_hole env2 _ dname F crc a F.length rc _ cks _ maxSegs _ _ hA hmaxs hmax1 hnak
  have hW : Waiting (drained (afterDeferred env2 (drained (afterEofTail env d2 ⟨h.src, h.seq⟩ crc a F.length)) F a
      F.length rc)) dname F crc a F.length rc ⟨h.src, h.seq⟩ cks ⟨.toSend, h.mode, h.crc, h.large, h.src, h.dst, h.seq⟩
      ⟨env2.now, rc.nakMs⟩ (F.take a) a :=
    { hbusy := hR2.hbusy, hstep := rfl, hready := rfl, hqueue := rfl, hconf := hR2.hconf, hmode := hR2.hmode,
      hname := hR2.hname, hfile := hR2.hfile, hprog := by show d2.p.progress = a; rw [hR2.hprog, hla], hcrc := rfl, hfse := rfl,
      hrc := hR2.hrc, htid := hR2.htid, hrej := hR2.hrej, hcks := hR2.hcks, hcancel := hR2.hcancel, hmo := hR2.hmo,
      hfin := hR2.hfin, htrk := rfl, hmm := hR2.hmm, hdef := rfl, hpt := rfl, hlastS := rfl, hlastE := rfl }
  have hwr : Fs.writeBytes (F.take a) ((F.drop a).take (F.length - a)) a = F := by
    have h1 : (F.drop a).take (F.length - a) = F.drop a := by
      apply List.take_of_length_le; simp [List.length_drop]
    have hne : (F.drop a).isEmpty = false := by
      cases hh : F.drop a with
      | nil => have := congrArg List.length hh; simp [List.length_drop] at this; omega
      | cons _ _ => rfl
    rw [h1]
    simp only [Fs.writeBytes, hne, hla, Nat.lt_irrefl, gt_iff_lt, ite_false, Bool.false_eq_true]
    have e1 : (F.take a).take a = F.take a := List.take_of_length_le (by omega)
    have e2 : (F.take a).drop (a + (F.drop a).length) = [] := List.drop_of_length_le (by omega)
    rw [e1, e2, List.append_nil, List.take_append_drop]
  have hret := C03_retransmission_completes env3 _ dname F crc a F.length rc _ cks _ h _ _ _ hW ha3 haF
    (Nat.le_refl _) hms hwr (by omega) hcrc
  have hfa := C02_finished_acked env4 (drained (afterRetransmission env3
      (drained (afterDeferred env2 (drained (afterEofTail env d2 ⟨h.src, h.seq⟩ crc a F.length)) F a F.length rc))
      dname F a F.length ⟨h.src, h.seq⟩ rc ⟨env2.now, rc.nakMs⟩)) rc hack cond ts ha4 hR2.hbusy rfl rfl
    (by simp [drained, afterRetransmission, doneP, afterDeferred, defP, afterEofTail, eofTailP, hR2.hconf, ha.hmode])
  refine ⟨_, d2, _, _, _, _, hmd, hfeed, heof, hdef, ?_, hret, ?_, hfa, rfl, rfl, ?_, ?_, ?_⟩
  · simp [afterDeferred, drained, afterEofTail, eofTailP, hR2.hconf, afterMdA, mdParamsA]
  · simp [afterRetransmission, drained, afterDeferred, defP, afterEofTail, eofTailP, hR2.hconf, afterMdA, mdParamsA]
  · simp [drained, afterRetransmission, afterDeferred, afterEofTail, hR2.hflts]
  · simp [drained, afterRetransmission, Fs.C17.get_set_same]
  · intro q hq'
    simp only [drained, afterRetransmission, afterDeferred, afterEofTail]
    rw [Fs.C17.get_set_other _ _ _ _ hq', hother2 q hq']
    simp [afterMdA, Fs.C17.get_set_other _ _ _ _ hq']

/-! ## The two models composed: a lost File Data PDU is requested, re-sent and the transfer completes -/

/-- the chunk list for one full segment is the single original tile -/
theorem chunkPdus_one_segment (conf : Hdr) (F : List UInt8) (seg a : Nat) (hseg : 0 < seg) :
    Source.C08.chunkPdus conf F seg seg a seg = [Source.mkFd conf a ((F.drop a).take seg)] := by
  obtain ⟨n, rfl⟩ : ∃ n, seg = n + 1 := ⟨seg - 1, by omega⟩
  cases n with
  | zero => simp [Source.C08.chunkPdus]
  | succ n => simp [Source.C08.chunkPdus]

def retransS (s : Source.SrcSt) (q : List Pdu) : Source.SrcSt :=
  { s with queue := q, numReady := s.numReady + q.length, stepBefore := some .WAITING_FOR_FINISHED,
           step := .RETRANSMITTING }

/-- **NAK at the sender while it waits for the Finished PDU**: a request for one full segment inside
the file is served with exactly the original File Data PDU of that segment; the sender remembers the
step to resume in. -/
theorem C03_sender_serves_request (env : Source.Env) (s : Source.SrcSt) (rc : RemoteCfg) (h : Hdr)
    (req : Source.PutReq) (src : String) (F : List UInt8) (a b sos eos : Nat)
    (ha : AdmissibleS env s rc h) (hb : s.state = .busy) (hstep : s.step = .WAITING_FOR_FINISHED)
    (hq : s.queue = []) (hreq : s.putReq = some req) (hsrc : req.src = some src)
    (hfile : s.fs.get src = some (.file F)) (hseg : 0 < s.p.segmentLen) (hab : b = a + s.p.segmentLen)
    (hbp : b ≤ s.p.progress) :
    Source.stateMachine env (some (.nak h sos eos [(a, b)])) s =
      .ok () (retransS s [Source.mkFd s.p.conf a ((F.drop a).take s.p.segmentLen)]) := by
  have hserve := Source.C08.C08_valid_request_served s req src F a b hreq hsrc hfile hseg (by omega) (by omega) hbp
  have hba : b - a = s.p.segmentLen := by omega
  rw [hba, chunkPdus_one_segment _ _ _ _ hseg, hq] at hserve
  msimp [Source.stateMachine, Source.checkInsertedPacket, Pdu.hdr, ha.hdir, ha.hsrc, ha.hrc, ha.hdst, ha.hseq,
    Pdu.kind, Route.getPacketDestination, ha.hmode, hstep, hb, Source.fsmNonIdle,
    Source.fsmAdvancementAfterPacketsWereSent, hq, hreq, Source.fsmFromSendingFileData, Source.fsmFromSendingEof,
    Source.fsmFromWaitingForEofAck,
    Source.fsmFromWaitingForFinished, Source.handleWaitForFinish, Source.transmissionMode,
    Source.handleRetransmission, Source.handleSegmentReqs, hserve, Source.modP, Source.getP, Source.addPacket,
    Source.fsmFromNoticeOfCompletion, retransS]

/-- **Finished PDU at the sender after a retransmission**: once the re-sent PDUs were retrieved, the
call resumes the step the sender was in and handles the Finished PDU there -/
theorem C03_sender_finished_after_retransmission (env : Source.Env) (s : Source.SrcSt) (rc : RemoteCfg) (h : Hdr)
    (fp : FinishedParams) (req : Source.PutReq)
    (ha : AdmissibleS env s rc h) (hb : s.state = .busy) (hstep : s.step = .RETRANSMITTING)
    (hsb : s.stepBefore = some .WAITING_FOR_FINISHED)
    (hq : s.queue = []) (hreq : s.putReq = some req) :
    Source.stateMachine env (some (.fin h fp)) s =
      .ok () (afterFinS (waitFinS s) fp) := by
  msimp [Source.stateMachine, Source.checkInsertedPacket, Pdu.hdr, ha.hdir, ha.hsrc, ha.hrc, ha.hdst, ha.hseq,
    Pdu.kind, Route.getPacketDestination, ha.hmode, hstep, hb, Source.fsmNonIdle,
    Source.fsmAdvancementAfterPacketsWereSent, hq, hreq, hsb, Source.fsmFromSendingFileData, Source.fsmFromSendingEof,
    Source.fsmFromWaitingForEofAck,
    Source.fsmFromWaitingForFinished, Source.handleWaitForFinish, Source.transmissionMode,
    Source.handleRetransmission, Source.modP, Source.getP, Source.addPacket,
    Source.fsmFromNoticeOfCompletion, finSrcP, afterFinS, waitFinS]

/-! ### the sender's tiles as the receiver-side feeds -/

theorem range_succ_map {α} (f : Nat → α) (k : Nat) :
    (List.range (k + 1)).map f = f 0 :: (List.range k).map (fun i => f (i + 1)) := by
  rw [List.range_succ_eq_map]; simp [List.map_map, Function.comp_def]

theorem tile_shift (conf : Hdr) (F : List UInt8) (seg off i : Nat) :
    Source.C07.tile conf F seg off (i + 1) = Source.C07.tile conf F seg (off + seg) i := by
  have : off + (i + 1) * seg = off + seg + i * seg := by rw [Nat.add_mul, Nat.one_mul]; omega
  simp [Source.C07.tile, this]

/-- tiles that all lie inside the file, fed as PDUs = fed as in-order payloads -/
theorem feedPdus_tiles_eq_feed (env : Dest.Env) (conf : Hdr) (F : List UInt8) (seg : Nat) :
    ∀ (j off : Nat) (d : DestSt), off + j * seg ≤ F.length →
      feedPdus env ((List.range j).map (Source.C07.tile conf F seg off)) d =
        feed env { conf with dir := .toRecv } ((List.range j).map fun i => (F.drop (off + i * seg)).take seg) off d := by
  intro j
  induction j with
  | zero => intro off d _; simp [feedPdus, feed]
  | succ j ih =>
    intro off d hle
    rw [range_succ_map, range_succ_map]
    have h1 : off + seg + j * seg ≤ F.length := by rw [Nat.add_mul, Nat.one_mul] at hle; omega
    have hlen : ((F.drop (off + 0 * seg)).take seg).length = seg := by
      simp [List.length_take, List.length_drop]; omega
    have ht0 : Source.C07.tile conf F seg off 0 = .fd { conf with dir := .toRecv } off ((F.drop off).take seg) := by
      simp [Source.C07.tile, Source.mkFd]
    simp only [tile_shift, feedPdus, feed, ht0, Nat.zero_mul, Nat.add_zero]
    cases hc : stateMachine env (some (.fd { conf with dir := .toRecv } off ((F.drop off).take seg))) d with
    | error _ _ => rfl
    | ok _ d' =>
      simp only
      have hl : ((F.drop off).take seg).length = seg := by simpa using hlen
      rw [hl, ih (off + seg) d' h1]
      congr 2
      funext i
      have : off + (i + 1) * seg = off + seg + i * seg := by rw [Nat.add_mul, Nat.one_mul]; omega
      rw [this]

theorem chunks_flatten (F : List UInt8) (seg : Nat) :
    ∀ j, ((List.range j).map fun i => (F.drop (0 + i * seg)).take seg).flatten = F.take (j * seg) := by
  intro j
  induction j with
  | zero => simp
  | succ j ih =>
    rw [List.range_succ, List.map_append, List.flatten_append, ih]
    simp only [List.map_cons, List.map_nil, List.flatten_cons, List.flatten_nil, List.append_nil, Nat.zero_add]
    rw [Nat.add_mul, Nat.one_mul, List.take_add]

/-- tiles behind the hole, fed as PDUs = `feedSeg` -/
theorem feedPdus_tiles_eq_feedSeg (env : Dest.Env) (conf : Hdr) (F : List UInt8) (seg : Nat) :
    ∀ (k m : Nat) (d : DestSt), (k = 0 ∨ m + (k - 1) * seg < F.length) →
      feedPdus env ((List.range k).map (Source.C07.tile conf F seg m)) d =
        feedSeg env { conf with dir := .toRecv } F seg k m d := by
  intro k
  induction k with
  | zero => intro m d _; simp [feedPdus, feedSeg]
  | succ k ih =>
    intro m d hk
    rw [range_succ_map]
    have ht0 : Source.C07.tile conf F seg m 0 = .fd { conf with dir := .toRecv } m ((F.drop m).take seg) := by
      simp [Source.C07.tile, Source.mkFd]
    simp only [tile_shift, feedPdus, feedSeg, ht0]
    cases hc : stateMachine env (some (.fd { conf with dir := .toRecv } m ((F.drop m).take seg))) d with
    | error _ _ => rfl
    | ok _ d' =>
      simp only
      by_cases h0 : k = 0
      · subst h0; simp [feedPdus, feedSeg]
      · have hlt : m + k * seg < F.length := by simpa using hk
        have hk2 : k = (k - 1) + 1 := by omega
        have hms : m + seg + (k - 1) * seg < F.length := by
          rw [hk2, Nat.add_mul, Nat.one_mul] at hlt; omega
        have hmin : min (m + seg) F.length = m + seg := by
          have : m + seg ≤ m + seg + (k - 1) * seg := Nat.le_add_right _ _
          omega
        rw [hmin, ← ih (m + seg) d' (Or.inr hms)]

/-! ### the sender up to the point where it waits for the Finished PDU -/

/-- sender of an acknowledged transfer that has sent everything, had its EOF acknowledged and waits
for the Finished PDU -/
structure WaitingFinS (s : Source.SrcSt) (req : Source.PutReq) (src : String) (F : List UInt8) (seg : Nat)
    (conf : Hdr) (rc : RemoteCfg) (tid : Tid) : Prop where
  hbusy : s.state = .busy
  hstep : s.step = .WAITING_FOR_FINISHED
  hqueue : s.queue = []
  hreq : s.putReq = some req
  hsrc : req.src = some src
  hfile : s.fs.get src = some (.file F)
  hseg : s.p.segmentLen = seg
  hprog : s.p.progress = F.length
  hconf : s.p.conf = conf
  hrc : s.p.remoteCfg = some rc
  htid : s.p.tid = some tid

open Source.C07 Source.C19 in
/-- the sender's run up to there: Metadata, the `k` tiles, the EOF; the ACK (EOF) comes back -/
theorem C03_sender_run_to_waiting (envS : Source.Env) (s : Source.SrcSt)
    (req : Source.PutReq) (rcS : RemoteCfg) (src dst : String) (F crc : List UInt8) (seg k : Nat)
    (hA : Hdr) (cA tA : Nat) (now2 : Nat)
    (hst : s.state = .busy) (hstep : s.step = .IDLE) (hq : s.queue = []) (hreq : s.putReq = some req)
    (hpmo : s.p.metadataOnly = false) (hsrc : req.src = some src) (hdst : req.dst = some dst)
    (hfile : s.fs.get src = some (.file F)) (hF : F ≠ []) (hprog : s.p.progress = 0)
    (hrc : s.p.remoteCfg = some rcS) (hbits : s.prov.bits = 8 ∨ s.prov.bits = 16 ∨ s.prov.bits = 32)
    (hseg : Source.segLenOf rcS (startConf envS req rcS s (decide (F.length > 4294967295))) = some seg)
    (hseg0 : 0 < seg) (hmode : s.p.conf.mode = .ack) (hct : s.p.checkTimer = none)
    (hk : (k - 1) * seg < F.length ∧ F.length ≤ k * seg)
    (hcks : Checksum.calcChecksum (Checksum.CksType.ofNat rcS.cks) F F.length seg = .ok crc)
    (hnull : Checksum.CksType.ofNat rcS.cks ≠ .null) (hlen : crc.length = 4) (hack : rcS.ackMs ≠ 0)
    (hAdir : hA.dir = .toSend) (hAsrc : hA.src.val = envS.cfg.entityId.val) (hAdst : hA.dst.val = rcS.entityId.val)
    (hAseq : hA.seq.val = s.prov.next) :
    let conf := startConf envS req rcS s (decide (F.length > 4294967295))
    let tid : Tid := ⟨envS.cfg.entityId, ⟨s.prov.next, s.prov.bits / 8⟩⟩
    ∃ s3 s4,
      rounds envS (1 + k + 1) s = some
        ([Source.mkMd conf s.p.closure rcS.cks F.length (some src) (some dst) (some (req.msgs.getD []))] ++
          (List.range k).map (tile conf F seg 0) ++ [Source.mkEof conf ccNoError crc F.length], s3) ∧
      Source.stateMachine ⟨envS.cfg, now2⟩ (some (.ack hA dtEof cA tA)) s3 = .ok () s4 ∧
      WaitingFinS s4 req src F seg conf rcS tid ∧
      s4.fs = s.fs ∧ s4.flts = s.flts ∧ s4.inds.filter isFinished = s.inds.filter isFinished := by
  intro conf tid
  have hk1 : 1 ≤ k := by
    rcases Nat.eq_zero_or_pos k with h0 | h0
    · subst h0
      have : F.length = 0 := by have := hk.2; omega
      exact absurd (List.eq_nil_of_length_eq_zero this) hF
    · exact h0
  obtain ⟨hcall1, hS1⟩ := C07_metadata_call envS s req rcS src dst F seg hst hstep hq hreq hpmo hsrc hdst hfile hF
    hprog hrc hbits hseg hseg0
  obtain ⟨s2, hr2, hp2, hc2, hsg2, hst2, hS2, hFr2⟩ := C07_stream_tiles envS req src F k _ hS1
    (Or.inr (by simp only [Source.C07.drained, afterMetadata, hprog, Nat.zero_add]; exact hk.1))
  have hstep2 : s2.step = .SENDING_FILE_DATA := hst2.resolve_left (by omega)
  have hprog2 : s2.p.progress = s2.p.fileSize := by
    rw [hp2, hS2.hsize]; simp only [Source.C07.drained, afterMetadata, hprog, Nat.zero_add]
    exact Nat.min_eq_left hk.2
  simp only [Frame] at hFr2
  obtain ⟨f1, f2, f3, f4, f5, f6, f7, f8, f9, f10, f11, f12, f13, f14, f15, f16⟩ := hFr2
  have hmode2 : s2.p.conf.mode = .ack := by
    rw [hc2]; simp [Source.C07.drained, afterMetadata, startConf, hmode]
  have hcall3 := C07_eof_call_ack envS s2 req rcS src F crc tid hS2.hbusy hstep2 hS2.hqueue hS2.hreq hS2.hsrc
    hS2.hnotMo hS2.hfile hS2.hsize hprog2 (by rw [f1]; simp [Source.C07.drained, afterMetadata, hrc])
    (by rw [f2]; simp [Source.C07.drained, afterMetadata, tid])
    (by rw [hsg2]; simpa [Source.C07.drained, afterMetadata] using hcks) hnull hlen hack hmode2
  let s3 := Source.C07.drained (afterEofS envS (condS s2) rcS crc tid F.length)
  have hconf3 : s3.p.conf = conf := by
    show s2.p.conf = conf
    rw [hc2]; simp [Source.C07.drained, afterMetadata, conf]
  have hrc3 : s3.p.remoteCfg = some rcS := by
    show s2.p.remoteCfg = some rcS
    rw [f1]; simp [Source.C07.drained, afterMetadata, hrc]
  have hadm : AdmissibleS ⟨envS.cfg, now2⟩ s3 rcS hA :=
    { hdir := hAdir, hsrc := hAsrc, hrc := hrc3, hdst := hAdst,
      hseq := by rw [hconf3]; simpa [conf, startConf] using hAseq,
      hmode := by rw [hconf3]; simp [conf, startConf, hmode] }
  have hreq3 : s3.putReq = some req := by
    show s2.putReq = some req
    exact hS2.hreq
  have hct3 : s3.p.checkTimer = none := by
    show s2.p.checkTimer = none
    rw [f15]; simp [Source.C07.drained, afterMetadata, hct]
  have h4 := C02_source_eof_acked ⟨envS.cfg, now2⟩ s3 rcS hA cA tA req hadm hS2.hbusy rfl rfl hreq3 hct3
  have hrun : rounds envS (1 + k + 1) s = some
      ([Source.mkMd conf s.p.closure rcS.cks F.length (some src) (some dst) (some (req.msgs.getD []))] ++
        (List.range k).map (tile conf F seg 0) ++ [Source.mkEof conf ccNoError crc F.length], s3) := by
    rw [rounds_add envS (1 + k) 1 s, rounds_add envS 1 k s]
    simp only [rounds, round, hcall1, hr2, hcall3]
    simp [Source.C07.drained, afterMetadata, afterEofS, hprog, hc2, conf, s3, condS]
  refine ⟨s3, _, hrun, h4, ?_, ?_, ?_, ?_⟩
  · exact
      { hbusy := hS2.hbusy, hstep := rfl, hqueue := rfl, hreq := hreq3, hsrc := hS2.hsrc, hfile := hS2.hfile,
        hseg := by show s2.p.segmentLen = seg; rw [hsg2]; simp [Source.C07.drained, afterMetadata],
        hprog := by show s2.p.progress = F.length; rw [hprog2, hS2.hsize],
        hconf := hconf3, hrc := hrc3,
        htid := by show s2.p.tid = some tid; rw [f2]; simp [Source.C07.drained, afterMetadata, tid] }
  · simp [Source.C07.drained, afterEofS, condS, f6, afterMetadata, s3]
  · simp [Source.C07.drained, afterEofS, condS, f5, afterMetadata, s3]
  · simp only [Source.C07.drained, afterEofS, condS, s3, f4, afterMetadata, List.filter_append]
    cases envS.cfg.indEofSent <;> simp [isFinished]

theorem map_range_eraseIdx {α} (f : Nat → α) (j r : Nat) :
    ((List.range (j + 1 + r)).map f).eraseIdx j =
      (List.range j).map f ++ (List.range r).map (fun i => f (j + 1 + i)) := by
  rw [List.eraseIdx_eq_take_drop_succ, ← List.map_take, ← List.map_drop, List.take_range,
    Nat.min_eq_left (by omega)]
  congr 1
  rw [List.range_add, List.drop_append_of_le_length (by simp)]
  have : (List.range (j + 1)).drop (j + 1) = [] := List.drop_of_length_le (by simp)
  simp [this, List.map_map, Function.comp_def]

open Source.C07 Source.C19 in
/-- **End to end with one File Data PDU lost, deferred NAK mode: the two models composed.**  The
sender emits Metadata, `j + 2 + r` tiles and the EOF; the link loses the tile number `j` (any tile but
the last, bytes `[j·seg, (j+1)·seg)`); everything else reaches the idle receiver in order.  Then:
the receiver acknowledges the EOF; its next call queues exactly one NAK whose only segment request is
the lost byte range; the sender answers that NAK with exactly one File Data PDU — the very PDU that
was lost; the receiver stores it, verifies the checksum and emits the Finished PDU; the sender — in
the middle of its retransmission step — resumes, records and acknowledges it; the receiver goes idle
on that ACK, the sender on its next call.  No call of either handler raises; the destination file is
byte-identical to the source file; both users get exactly one Transaction-Finished indication
(No error, Data complete, File retained); no fault callback on either side.  For every file, segment
length, position of the lost tile, header configuration, closure setting and checksum type. -/
theorem C03_end_to_end_single_loss (envS : Source.Env) (envD : Dest.Env) (s : Source.SrcSt) (d0 : Dest.DestSt)
    (req : Source.PutReq) (rcS rcD : RemoteCfg) (src dst : String) (F crc : List UInt8) (seg j r maxSegs : Nat)
    (now2 now3 now4 now5 nowD2 nowD3 nowD4 : Nat)
    (hst : s.state = .busy) (hstep : s.step = .IDLE) (hq : s.queue = []) (hreq : s.putReq = some req)
    (hpmo : s.p.metadataOnly = false) (hsrc : req.src = some src) (hdst : req.dst = some dst)
    (hfile : s.fs.get src = some (.file F)) (hF : F ≠ []) (hprog : s.p.progress = 0)
    (hrc : s.p.remoteCfg = some rcS) (hrcid : rcS.entityId.val = req.destId.val)
    (hbits : s.prov.bits = 8 ∨ s.prov.bits = 16 ∨ s.prov.bits = 32)
    (hseg : Source.segLenOf rcS (startConf envS req rcS s (decide (F.length > 4294967295))) = some seg)
    (hseg0 : 0 < seg) (hmode : s.p.conf.mode = .ack) (hct : s.p.checkTimer = none)
    (hk : (j + 1 + r) * seg < F.length ∧ F.length ≤ (j + 2 + r) * seg)
    (hcks : Checksum.calcChecksum (Checksum.CksType.ofNat rcS.cks) F F.length seg = .ok crc)
    (hnull : Checksum.CksType.ofNat rcS.cks ≠ .null) (hlen : crc.length = 4) (hack : rcS.ackMs ≠ 0)
    (ha : AdmissibleA envD rcD { startConf envS req rcS s (decide (F.length > 4294967295)) with dir := .toRecv })
    (hackD : rcD.ackMs ≠ 0) (hnak : rcD.nakMs ≠ 0) (himm : rcD.imm = false)
    (hmaxs : maxSegReqs rcD.maxPkt
      (let c := startConf envS req rcS s (decide (F.length > 4294967295))
       ⟨.toSend, c.mode, c.crc, c.large, c.src, c.dst, c.seq⟩) = some maxSegs) (hmax1 : 1 ≤ maxSegs)
    (hidle : d0.state = .idle) (hdq : d0.queue = []) (hdr : d0.numReady = 0) (hrej : d0.rejects = [])
    (hfl : d0.flts = []) (hnd : Fs.isDir d0.fs dst = false)
    (hok : (∃ old, d0.fs.get dst = some (.file old)) ∨
           (Fs.exists' d0.fs dst = false ∧ Fs.parentIsDir d0.fs dst = true)) :
    let conf := startConf envS req rcS s (decide (F.length > 4294967295))
    let cd : Hdr := ⟨.toSend, conf.mode, conf.crc, conf.large, conf.src, conf.dst, conf.seq⟩
    let fpOk : FinishedParams := ⟨ccNoError, dcComplete, fsRetained, none⟩
    let lost := tile conf F seg 0 j
    ∃ pdus s3 d5 s4 d6 s5 d7 s6 d8 s7,
      -- sender: Metadata, tiles, EOF; all but the lost tile reach the receiver, which acknowledges the EOF
      rounds envS (1 + (j + 2 + r) + 1) s = some (pdus, s3) ∧ pdus[j + 1]? = some lost ∧
      feedPdus envD (pdus.eraseIdx (j + 1)) d0 = some d5 ∧ d5.queue = [.ack cd dtEof ccNoError tsActive] ∧
      Source.stateMachine ⟨envS.cfg, now2⟩ (some (.ack cd dtEof ccNoError tsActive)) s3 = .ok () s4 ∧ s4.queue = [] ∧
      -- receiver: one NAK for exactly the lost range; sender: exactly the lost PDU again
      Dest.stateMachine ⟨envD.cfg, nowD2⟩ none (drained d5) = .ok () d6 ∧
      d6.queue = [.nak cd 0 F.length [(j * seg, (j + 1) * seg)]] ∧
      Source.stateMachine ⟨envS.cfg, now3⟩ (some (.nak cd 0 F.length [(j * seg, (j + 1) * seg)])) s4 = .ok () s5 ∧
      s5.queue = [lost] ∧
      -- receiver: complete, Finished; sender acknowledges
      Dest.stateMachine ⟨envD.cfg, nowD3⟩ (some lost) (drained d6) = .ok () d7 ∧ d7.queue = [.fin cd fpOk] ∧
      Source.stateMachine ⟨envS.cfg, now4⟩ (some (.fin cd fpOk)) (Source.C07.drained s5) = .ok () s6 ∧
      s6.queue = [Source.mkAck conf dtFinished ccNoError tsActive] ∧
      Dest.stateMachine ⟨envD.cfg, nowD4⟩ (some (Source.mkAck conf dtFinished ccNoError tsActive)) (drained d7) = .ok () d8 ∧
      Source.stateMachine ⟨envS.cfg, now5⟩ none (Source.C07.drained s6) = .ok () s7 ∧
      -- outcome
      s7.state = .idle ∧ d8.state = .idle ∧ s7.queue = [] ∧ d8.queue = [] ∧
      d8.fs.get dst = some (.file F) ∧ (∀ q, q ≠ dst → d8.fs.get q = d0.fs.get q) ∧ s7.fs = s.fs ∧
      d8.flts = [] ∧ s7.flts = s.flts ∧
      s7.inds.filter isFinished = s.inds.filter isFinished ++
        (if envS.cfg.indFinished then [.finished (some ⟨envS.cfg.entityId, ⟨s.prov.next, s.prov.bits / 8⟩⟩) fpOk]
         else []) ∧
      d8.inds.filter isFinished = d0.inds.filter isFinished ++
        (if envD.cfg.indFinished then [.finished (some ⟨conf.src, conf.seq⟩) fpOk] else []) := by
  intro conf cd fpOk lost
  have hsrcv : conf.src.val = envS.cfg.entityId.val := by simp [conf, startConf]
  have hdstv : conf.dst.val = rcS.entityId.val := by simp [conf, startConf, hrcid]
  have hseqv : conf.seq.val = s.prov.next := by simp [conf, startConf]
  -- arithmetic of the grid
  have e1 : (j + 1 + r) * seg = j * seg + seg + r * seg := by simp [Nat.add_mul]
  have e2 : (j + 2 + r) * seg = j * seg + 2 * seg + r * seg := by simp [Nat.add_mul]
  have e3 : (j + 1) * seg = j * seg + seg := by simp [Nat.add_mul]
  have hbF : (j + 1) * seg < F.length := by omega
  -- sender up to the point where it waits for the Finished PDU
  obtain ⟨s3, s4, hrun, h4, hW, hfs4, hfl4, hin4⟩ :=
    C03_sender_run_to_waiting envS s req rcS src dst F crc seg (j + 2 + r) cd ccNoError tsActive now2
      hst hstep hq hreq hpmo hsrc hdst hfile hF hprog hrc hbits hseg hseg0 hmode hct
      (by constructor
          · have : j + 2 + r - 1 = j + 1 + r := by omega
            rw [this]; exact hk.1
          · exact hk.2) hcks hnull hlen hack rfl hsrcv hdstv hseqv
  -- receiver
  have hcrc : rcS.cks = 15 ∨ ∀ fs : Fs, fs.get dst = some (.file F) →
      Fs.calcChecksum fs (Checksum.CksType.ofNat rcS.cks) dst F.length 4096 = .ok crc := by
    right
    intro fs hf
    have := Checksum.C09.C09_chunk_length_irrelevant (Checksum.CksType.ofNat rcS.cks) F F.length seg 4096
      (by omega) (by omega)
    simp [Fs.calcChecksum, hnull, hf, ← this, hcks]
  have haT : ∀ t, AdmissibleA ⟨envD.cfg, t⟩ rcD { conf with dir := .toRecv } := fun t =>
    { hdir := rfl, hdst := ha.hdst, hsrc := ha.hsrc, hmode := ha.hmode }
  have hchunks_ne : ∀ c ∈ (List.range j).map (fun i => (F.drop (0 + i * seg)).take seg), c ≠ [] := by
    intro c hc
    simp only [List.mem_map, List.mem_range] at hc
    obtain ⟨i, hi, rfl⟩ := hc
    intro h0
    have := congrArg List.length h0
    simp [List.length_take, List.length_drop] at this
    have : i * seg ≤ j * seg := Nat.mul_le_mul_right _ (by omega)
    omega
  obtain ⟨d1, d2, d3, d4, d5, d6, d7, d8, hmd, hfeed, hgap, hfsg, heof, hq5, hdef, hq6, hret, hq7, hfa, hi8, hq8,
      hfl8, hfile8, hother8, hinds8⟩ :=
    C03_single_loss_recovery envD ⟨envD.cfg, nowD2⟩ ⟨envD.cfg, nowD3⟩ ⟨envD.cfg, nowD4⟩ d0
      { conf with dir := .toRecv } { conf with dir := .toRecv } rcD s.p.closure rcS.cks src dst
      (some (req.msgs.getD [])) F crc ((List.range j).map (fun i => (F.drop (0 + i * seg)).take seg))
      (j * seg) ((j + 1) * seg) seg r maxSegs ccNoError tsActive
      ha (haT nowD3) (haT nowD4) hackD hnak himm hmaxs hmax1 hidle hdq hdr hrej hfl hnd hok
      (chunks_flatten F seg j) hchunks_ne hseg0 e3 hbF
      (by rcases Nat.eq_zero_or_pos r with h0 | h0
          · exact Or.inr h0
          · left
            have hr : r = (r - 1) + 1 := by omega
            have : r * seg = (r - 1) * seg + seg := by rw [hr]; simp [Nat.add_mul]
            have hm : min ((j + 1) * seg + seg) F.length = (j + 1) * seg + seg := by
              have : seg ≤ r * seg := by rw [this]; omega
              omega
            rw [hm]; omega)
      (by have : min ((j + 1) * seg + seg) F.length ≤ (j + 1) * seg + seg := Nat.min_le_left _ _
          by_cases hc : (j + 1) * seg + seg ≤ F.length
          · rw [Nat.min_eq_left hc]; omega
          · have h2 : min ((j + 1) * seg + seg) F.length = F.length := by omega
            rw [h2]; omega)
      hcrc
  -- the receiver's state after Metadata is the explicit one
  obtain ⟨hmd', -⟩ := C02_metadata_ack envD d0 { conf with dir := .toRecv } rcD s.p.closure rcS.cks F.length src dst
    (some (req.msgs.getD [])) ha hidle hdq hdr hrej hfl hnd hok
  have hd1 : d1 = afterMdA envD d0 { conf with dir := .toRecv } rcD s.p.closure rcS.cks F.length src dst
      (some (req.msgs.getD [])) := by
    have := hmd.symm.trans hmd'
    simpa using this
  have hconf1 : d1.p.conf = cd := by rw [hd1]; simp [afterMdA, mdParamsA, cd]
  rw [hconf1] at hq5 hq6 hq7
  -- what the link delivers
  have hdeliv : feedPdus envD
      (([Source.mkMd conf s.p.closure rcS.cks F.length (some src) (some dst) (some (req.msgs.getD []))] ++
        (List.range (j + 2 + r)).map (tile conf F seg 0) ++ [Source.mkEof conf ccNoError crc F.length]).eraseIdx (j + 1))
      d0 = some d5 := by
    have hlen : j < ((List.range (j + 2 + r)).map (tile conf F seg 0)).length := by simp; omega
    rw [List.append_assoc, List.singleton_append, List.eraseIdx_cons_succ,
      List.eraseIdx_append_of_lt_length hlen]
    have hjr : j + 2 + r = j + 1 + (1 + r) := by omega
    rw [hjr, map_range_eraseIdx, Nat.add_comm 1 r, range_succ_map]
    have ht1 : tile conf F seg 0 (j + 1 + 0) =
        .fd { conf with dir := .toRecv } ((j + 1) * seg) ((F.drop ((j + 1) * seg)).take seg) := by
      simp [tile, Source.mkFd]
    have hrest : (List.range r).map (fun i => tile conf F seg 0 (j + 1 + (i + 1))) =
        (List.range r).map (tile conf F seg (min ((j + 1) * seg + seg) F.length)) := by
      rcases Nat.eq_zero_or_pos r with h0 | h0
      · subst h0; rfl
      · have hr : r = (r - 1) + 1 := by omega
        have : r * seg = (r - 1) * seg + seg := by rw [hr]; simp [Nat.add_mul]
        have hm : min ((j + 1) * seg + seg) F.length = (j + 1) * seg + seg := by
          have : seg ≤ r * seg := by rw [this]; omega
          omega
        rw [hm]
        apply List.map_congr_left
        intro i _
        have : 0 + (j + 1 + (i + 1)) * seg = (j + 1) * seg + seg + i * seg := by simp [Nat.add_mul]; omega
        simp [tile, this]
    rw [ht1, hrest]
    simp only [List.cons_append, feedPdus, Source.mkMd, hmd]
    rw [feedPdus_append, feedPdus_append, feedPdus_tiles_eq_feed envD conf F seg j 0 d1 (by omega), hfeed]
    simp only [Option.bind, feedPdus, hgap]
    rw [feedPdus_tiles_eq_feedSeg envD conf F seg r _ d3
      (by rcases Nat.eq_zero_or_pos r with h0 | h0
          · exact Or.inl h0
          · right
            have hr : r = (r - 1) + 1 := by omega
            have : r * seg = (r - 1) * seg + seg := by rw [hr]; simp [Nat.add_mul]
            have : min ((j + 1) * seg + seg) F.length ≤ (j + 1) * seg + seg := Nat.min_le_left _ _
            omega), hfsg]
    simp only [Option.bind, feedPdus, Source.mkEof, heof]
  -- the sender serves the NAK
  have hadm : ∀ t, AdmissibleS ⟨envS.cfg, t⟩ s4 rcS cd := fun t =>
    { hdir := rfl, hsrc := hsrcv, hrc := hW.hrc, hdst := hdstv,
      hseq := by rw [hW.hconf],
      hmode := by rw [hW.hconf]; simp [conf, startConf, hmode] }
  have h5 := C03_sender_serves_request ⟨envS.cfg, now3⟩ s4 rcS cd req src F (j * seg) ((j + 1) * seg) 0 F.length
    (hadm now3) hW.hbusy hW.hstep hW.hqueue hW.hreq hW.hsrc hW.hfile (by rw [hW.hseg]; exact hseg0)
    (by rw [hW.hseg]; exact e3) (by rw [hW.hprog]; omega)
  rw [hW.hseg, hW.hconf] at h5
  have hlost : Source.mkFd conf (j * seg) ((F.drop (j * seg)).take seg) = lost := by simp [lost, tile]
  rw [hlost] at h5
  -- the Finished PDU at the sender, in its retransmission step
  have hadm6 : AdmissibleS ⟨envS.cfg, now4⟩ (Source.C07.drained (retransS s4 [lost])) rcS cd :=
    { hdir := rfl, hsrc := hsrcv, hrc := hW.hrc, hdst := hdstv,
      hseq := by show cd.seq.val = s4.p.conf.seq.val; rw [hW.hconf],
      hmode := by show s4.p.conf.mode = .ack; rw [hW.hconf]; simp [conf, startConf, hmode] }
  have h6 := C03_sender_finished_after_retransmission ⟨envS.cfg, now4⟩ (Source.C07.drained (retransS s4 [lost])) rcS cd
    fpOk req hadm6 hW.hbusy rfl rfl rfl hW.hreq
  have h7 := C02_source_completion ⟨envS.cfg, now5⟩
    (Source.C07.drained (afterFinS (waitFinS (Source.C07.drained (retransS s4 [lost]))) fpOk)) fpOk
    ⟨envS.cfg.entityId, ⟨s.prov.next, s.prov.bits / 8⟩⟩ req hW.hbusy rfl rfl hW.hreq rfl hW.htid
  have hlostfd : lost = .fd { conf with dir := .toRecv } (j * seg) ((F.drop (j * seg)).take ((j + 1) * seg - j * seg)) := by
    have : (j + 1) * seg - j * seg = seg := by omega
    simp [lost, tile, Source.mkFd, this]
  refine ⟨_, s3, d5, s4, d6, _, d7, _, d8, _, hrun, ?_, hdeliv, ?_, h4, hW.hqueue, hdef, ?_, h5, rfl, ?_, ?_, h6, ?_, ?_, h7,
    rfl, hi8, rfl, hq8, hfile8, hother8, ?_, hfl8, ?_, ?_, ?_⟩
  · rw [List.append_assoc, List.singleton_append, List.getElem?_cons_succ,
      List.getElem?_append_left (by simp; omega)]
    rw [List.getElem?_map, List.getElem?_range (by omega)]
    rfl
  · simpa [Dest.mkAck, dtEof, dtFinished, cd] using hq5
  · simpa [Dest.mkNak, cd] using hq6
  · rw [hlostfd]; exact hret
  · simpa [Dest.mkFin, cd, fpOk] using hq7
  · show [Source.mkAck s4.p.conf dtFinished fpOk.cond tsActive] = _
    rw [hW.hconf]
  · simpa [Source.mkAck, dtFinished] using hfa
  · simp [Source.C07.drained, afterFinS, waitFinS, retransS, hfs4]
  · simp [Source.C07.drained, afterFinS, waitFinS, retransS, hfl4]
  · simp only [Source.C07.drained, afterFinS, waitFinS, retransS, List.filter_append, hin4]
    cases envS.cfg.indFinished <;> simp [isFinished]
  · exact hinds8


/-! ## The closing handshake, from any state in which the sender has sent everything -/

/-- sender of an acknowledged transfer that has sent Metadata, all File Data and the EOF -/
structure SentAllS (s : Source.SrcSt) (req : Source.PutReq) (src : String) (F : List UInt8) (seg : Nat)
    (conf : Hdr) (rc : RemoteCfg) (tid : Tid) : Prop where
  hbusy : s.state = .busy
  hqueue : s.queue = []
  hreq : s.putReq = some req
  hsrc : req.src = some src
  hfile : s.fs.get src = some (.file F)
  hseg : s.p.segmentLen = seg
  hprog : s.p.progress = F.length
  hconf : s.p.conf = conf
  hrc : s.p.remoteCfg = some rc
  htid : s.p.tid = some tid

theorem WaitingFinS.sentAll {s : Source.SrcSt} {req src F seg conf rc tid}
    (h : WaitingFinS s req src F seg conf rc tid) : SentAllS s req src F seg conf rc tid :=
  ⟨h.hbusy, h.hqueue, h.hreq, h.hsrc, h.hfile, h.hseg, h.hprog, h.hconf, h.hrc, h.htid⟩

/-- **Finished PDU at the sender, in any of the steps in which it can arrive**: while the sender
still waits for the ACK of its EOF (that ACK was lost), while it waits for the Finished PDU, or
while it is in its retransmission step.  It is recorded and acknowledged with exactly one
ACK (Finished). -/
theorem C03_sender_finished_any (env : Source.Env) (s : Source.SrcSt) (rc : RemoteCfg) (h : Hdr)
    (fp : FinishedParams) (req : Source.PutReq)
    (ha : AdmissibleS env s rc h) (hb : s.state = .busy)
    (hstep : s.step = .WAITING_FOR_EOF_ACK ∨ s.step = .WAITING_FOR_FINISHED ∨
      (s.step = .RETRANSMITTING ∧ s.stepBefore = some .WAITING_FOR_FINISHED))
    (hq : s.queue = []) (hreq : s.putReq = some req) :
    Source.stateMachine env (some (.fin h fp)) s = .ok () (afterFinS (waitFinS s) fp) := by
  rcases hstep with hs | hs | ⟨hs, hsb⟩
  · msimp [Source.stateMachine, Source.checkInsertedPacket, Pdu.hdr, ha.hdir, ha.hsrc, ha.hrc, ha.hdst, ha.hseq,
      Pdu.kind, Route.getPacketDestination, ha.hmode, hs, hb, Source.fsmNonIdle,
      Source.fsmAdvancementAfterPacketsWereSent, hq, hreq, Source.fsmFromSendingFileData, Source.fsmFromSendingEof,
      Source.fsmFromWaitingForEofAck, Source.handleWaitingForAck,
      Source.fsmFromWaitingForFinished, Source.handleWaitForFinish, Source.transmissionMode,
      Source.handleRetransmission, Source.modP, Source.getP, Source.addPacket,
      Source.fsmFromNoticeOfCompletion, finSrcP, afterFinS, waitFinS]
  · have := C02_source_finished env s rc h fp req ha hb hs hq hreq
    rw [this]
    simp [afterFinS, waitFinS, hs]
  · exact C03_sender_finished_after_retransmission env s rc h fp req ha hb hs hsb hq hreq

/-- **The closing handshake.**  The receiver has everything stored and has acknowledged the EOF; the
sender has sent everything (whether or not it has seen the ACK of its EOF).  The receiver's next call
verifies and emits the Finished PDU; the sender records and acknowledges it; the receiver goes idle
on the ACK; the sender reports to its user on the next call and goes idle. -/
theorem C03_closing (cfgS cfgD : LocalCfg) (s4 : Source.SrcSt) (dA : DestSt) (req : Source.PutReq)
    (src dst : String) (F crc : List UInt8) (seg : Nat) (conf : Hdr) (rcS rcD : RemoteCfg) (tid : Tid)
    (cksN t1 t2 t3 t4 : Nat)
    (hS : SentAllS s4 req src F seg conf rcS tid)
    (hstep : s4.step = .WAITING_FOR_EOF_ACK ∨ s4.step = .WAITING_FOR_FINISHED ∨
      (s4.step = .RETRANSMITTING ∧ s4.stepBefore = some .WAITING_FOR_FINISHED))
    (hA : Acked dA dst F crc rcD ⟨conf.src, conf.seq⟩ cksN
      ⟨.toSend, conf.mode, conf.crc, conf.large, conf.src, conf.dst, conf.seq⟩)
    (ha : AdmissibleA ⟨cfgD, t3⟩ rcD { conf with dir := .toRecv })
    (hsrcv : conf.src.val = cfgS.entityId.val) (hdstv : conf.dst.val = rcS.entityId.val)
    (hackD : rcD.ackMs ≠ 0)
    (hver : cksN = 15 ∨ Fs.calcChecksum dA.fs (Checksum.CksType.ofNat cksN) dst F.length 4096 = .ok crc) :
    let cd : Hdr := ⟨.toSend, conf.mode, conf.crc, conf.large, conf.src, conf.dst, conf.seq⟩
    let fpOk : FinishedParams := ⟨ccNoError, dcComplete, fsRetained, none⟩
    ∃ d4 s5 d5 s6,
      Dest.stateMachine ⟨cfgD, t1⟩ none dA = .ok () d4 ∧ d4.queue = [.fin cd fpOk] ∧
      Source.stateMachine ⟨cfgS, t2⟩ (some (.fin cd fpOk)) s4 = .ok () s5 ∧
      s5.queue = [Source.mkAck conf dtFinished ccNoError tsActive] ∧
      Dest.stateMachine ⟨cfgD, t3⟩ (some (Source.mkAck conf dtFinished ccNoError tsActive)) (drained d4) = .ok () d5 ∧
      Source.stateMachine ⟨cfgS, t4⟩ none (Source.C07.drained s5) = .ok () s6 ∧
      s6.state = .idle ∧ d5.state = .idle ∧ s6.queue = [] ∧ d5.queue = [] ∧
      d5.fs = dA.fs ∧ s6.fs = s4.fs ∧ d5.flts = dA.flts ∧ s6.flts = s4.flts ∧
      s6.inds.filter isFinished = s4.inds.filter isFinished ++
        (if cfgS.indFinished then [.finished (some tid) fpOk] else []) ∧
      d5.inds.filter isFinished = dA.inds.filter isFinished ++
        (if cfgD.indFinished then [.finished (some ⟨conf.src, conf.seq⟩) fpOk] else []) := by
  intro cd fpOk
  have hmodeS : conf.mode = .ack := hA.hmode
  have hv := C02_verify_ack ⟨cfgD, t1⟩ dA dst F crc rcD _ cksN _ hA hackD hver
  have hadm : AdmissibleS ⟨cfgS, t2⟩ s4 rcS cd :=
    { hdir := rfl, hsrc := hsrcv, hrc := hS.hrc, hdst := hdstv,
      hseq := by rw [hS.hconf], hmode := by rw [hS.hconf]; exact hmodeS }
  have h5 := C03_sender_finished_any ⟨cfgS, t2⟩ s4 rcS cd fpOk req hadm hS.hbusy hstep hS.hqueue hS.hreq
  have hfa := C02_finished_acked ⟨cfgD, t3⟩ (drained (afterVerifyA ⟨cfgD, t1⟩ dA ⟨conf.src, conf.seq⟩ rcD))
    rcD { conf with dir := .toRecv } ccNoError tsActive ha hA.hbusy rfl rfl
    (by simp [drained, afterVerifyA, finP, hA.hconf]; exact hmodeS)
  have h6 := C02_source_completion ⟨cfgS, t4⟩ (Source.C07.drained (afterFinS (waitFinS s4) fpOk)) fpOk tid req
    hS.hbusy rfl rfl hS.hreq rfl hS.htid
  refine ⟨_, _, idleOf (drained (afterVerifyA ⟨cfgD, t1⟩ dA ⟨conf.src, conf.seq⟩ rcD)), _, hv, ?_, h5, ?_, ?_, h6, rfl, rfl, rfl, rfl, rfl, rfl, rfl, rfl, ?_, ?_⟩
  · simp [afterVerifyA, Dest.mkFin, hA.hconf, cd, fpOk]
  · show [Source.mkAck s4.p.conf dtFinished fpOk.cond tsActive] = _
    rw [hS.hconf]
  · simpa [Source.mkAck, dtFinished, idleOf] using hfa
  · simp only [Source.C07.drained, afterFinS, waitFinS, List.filter_append]
    cases cfgS.indFinished <;> simp [isFinished]
  · simp only [idleOf, drained, afterVerifyA, List.filter_append]
    cases cfgD.indFinished <;> simp [isFinished, fpOk]

/-! ### the two runs up to the EOF -/

open Source.C07 Source.C19 in
/-- the sender's run up to and including the EOF, with the resulting state -/
theorem C03_sender_run_to_eof (envS : Source.Env) (s : Source.SrcSt)
    (req : Source.PutReq) (rcS : RemoteCfg) (src dst : String) (F crc : List UInt8) (seg k : Nat)
    (hst : s.state = .busy) (hstep : s.step = .IDLE) (hq : s.queue = []) (hreq : s.putReq = some req)
    (hpmo : s.p.metadataOnly = false) (hsrc : req.src = some src) (hdst : req.dst = some dst)
    (hfile : s.fs.get src = some (.file F)) (hF : F ≠ []) (hprog : s.p.progress = 0)
    (hrc : s.p.remoteCfg = some rcS) (hbits : s.prov.bits = 8 ∨ s.prov.bits = 16 ∨ s.prov.bits = 32)
    (hseg : Source.segLenOf rcS (startConf envS req rcS s (decide (F.length > 4294967295))) = some seg)
    (hseg0 : 0 < seg) (hmode : s.p.conf.mode = .ack) (hct : s.p.checkTimer = none)
    (hk : (k - 1) * seg < F.length ∧ F.length ≤ k * seg)
    (hcks : Checksum.calcChecksum (Checksum.CksType.ofNat rcS.cks) F F.length seg = .ok crc)
    (hnull : Checksum.CksType.ofNat rcS.cks ≠ .null) (hlen : crc.length = 4) (hack : rcS.ackMs ≠ 0) :
    let conf := startConf envS req rcS s (decide (F.length > 4294967295))
    let tid : Tid := ⟨envS.cfg.entityId, ⟨s.prov.next, s.prov.bits / 8⟩⟩
    ∃ s3,
      rounds envS (1 + k + 1) s = some
        ([Source.mkMd conf s.p.closure rcS.cks F.length (some src) (some dst) (some (req.msgs.getD []))] ++
          (List.range k).map (tile conf F seg 0) ++ [Source.mkEof conf ccNoError crc F.length], s3) ∧
      SentAllS s3 req src F seg conf rcS tid ∧ s3.step = .WAITING_FOR_EOF_ACK ∧
      s3.p.ackTimer = some ⟨envS.now, rcS.ackMs⟩ ∧ s3.p.ackCounter = 0 ∧ s3.p.fileSize = F.length ∧
      s3.p.metadataOnly = false ∧ s3.p.condCodeEof = some ccNoError ∧ s3.p.checkTimer = none ∧
      s3.fs = s.fs ∧ s3.flts = s.flts ∧ s3.inds.filter isFinished = s.inds.filter isFinished ∧
      s3.p.closure = s.p.closure := by
  intro conf tid
  have hk1 : 1 ≤ k := by
    rcases Nat.eq_zero_or_pos k with h0 | h0
    · subst h0
      have : F.length = 0 := by have := hk.2; omega
      exact absurd (List.eq_nil_of_length_eq_zero this) hF
    · exact h0
  obtain ⟨hcall1, hS1⟩ := C07_metadata_call envS s req rcS src dst F seg hst hstep hq hreq hpmo hsrc hdst hfile hF
    hprog hrc hbits hseg hseg0
  obtain ⟨s2, hr2, hp2, hc2, hsg2, hst2, hS2, hFr2⟩ := C07_stream_tiles envS req src F k _ hS1
    (Or.inr (by simp only [Source.C07.drained, afterMetadata, hprog, Nat.zero_add]; exact hk.1))
  have hstep2 : s2.step = .SENDING_FILE_DATA := hst2.resolve_left (by omega)
  have hprog2 : s2.p.progress = s2.p.fileSize := by
    rw [hp2, hS2.hsize]; simp only [Source.C07.drained, afterMetadata, hprog, Nat.zero_add]
    exact Nat.min_eq_left hk.2
  simp only [Frame] at hFr2
  obtain ⟨f1, f2, f3, f4, f5, f6, f7, f8, f9, f10, f11, f12, f13, f14, f15, f16⟩ := hFr2
  have hmode2 : s2.p.conf.mode = .ack := by
    rw [hc2]; simp [Source.C07.drained, afterMetadata, startConf, hmode]
  have hcall3 := C07_eof_call_ack envS s2 req rcS src F crc tid hS2.hbusy hstep2 hS2.hqueue hS2.hreq hS2.hsrc
    hS2.hnotMo hS2.hfile hS2.hsize hprog2 (by rw [f1]; simp [Source.C07.drained, afterMetadata, hrc])
    (by rw [f2]; simp [Source.C07.drained, afterMetadata, tid])
    (by rw [hsg2]; simpa [Source.C07.drained, afterMetadata] using hcks) hnull hlen hack hmode2
  let s3 := Source.C07.drained (afterEofS envS (condS s2) rcS crc tid F.length)
  have hconf3 : s3.p.conf = conf := by
    show s2.p.conf = conf
    rw [hc2]; simp [Source.C07.drained, afterMetadata, conf]
  have hrc3 : s3.p.remoteCfg = some rcS := by
    show s2.p.remoteCfg = some rcS
    rw [f1]; simp [Source.C07.drained, afterMetadata, hrc]
  have hrun : rounds envS (1 + k + 1) s = some
      ([Source.mkMd conf s.p.closure rcS.cks F.length (some src) (some dst) (some (req.msgs.getD []))] ++
        (List.range k).map (tile conf F seg 0) ++ [Source.mkEof conf ccNoError crc F.length], s3) := by
    rw [rounds_add envS (1 + k) 1 s, rounds_add envS 1 k s]
    simp only [rounds, round, hcall1, hr2, hcall3]
    simp [Source.C07.drained, afterMetadata, afterEofS, hprog, hc2, conf, s3, condS]
  refine ⟨s3, hrun, ?_, rfl, rfl, rfl, ?_, ?_, rfl, ?_, ?_, ?_, ?_, ?_⟩
  · exact
      { hbusy := hS2.hbusy, hqueue := rfl, hreq := hS2.hreq, hsrc := hS2.hsrc, hfile := hS2.hfile,
        hseg := by show s2.p.segmentLen = seg; rw [hsg2]; simp [Source.C07.drained, afterMetadata],
        hprog := by show s2.p.progress = F.length; rw [hprog2, hS2.hsize],
        hconf := hconf3, hrc := hrc3,
        htid := by show s2.p.tid = some tid; rw [f2]; simp [Source.C07.drained, afterMetadata, tid] }
  · show s2.p.fileSize = F.length; exact hS2.hsize
  · show s2.p.metadataOnly = false; exact hS2.hnotMo
  · show s2.p.checkTimer = none; rw [f15]; simp [Source.C07.drained, afterMetadata, hct]
  · simp [Source.C07.drained, afterEofS, condS, f6, afterMetadata, s3]
  · simp [Source.C07.drained, afterEofS, condS, f5, afterMetadata, s3]
  · simp only [Source.C07.drained, afterEofS, condS, s3, f4, afterMetadata, List.filter_append]
    cases envS.cfg.indEofSent <;> simp [isFinished]
  · show s2.p.closure = s.p.closure
    rw [f3]; simp [Source.C07.drained, afterMetadata]

/-- the receiver takes Metadata and all tiles: everything is stored -/
theorem C03_receiver_takes_all_data (envD : Dest.Env) (d0 : DestSt) (conf : Hdr) (rcD : RemoteCfg) (closure : Bool)
    (cks : Nat) (src dst : String) (msgs : Option (List Msg)) (F : List UInt8) (seg k : Nat)
    (hseg0 : 0 < seg) (hk : (k - 1) * seg < F.length ∧ F.length ≤ k * seg)
    (ha : AdmissibleA envD rcD { conf with dir := .toRecv })
    (hidle : d0.state = .idle) (hdq : d0.queue = []) (hdr : d0.numReady = 0) (hrej : d0.rejects = [])
    (hfl : d0.flts = []) (hnd : Fs.isDir d0.fs dst = false)
    (hok : (∃ old, d0.fs.get dst = some (.file old)) ∨
           (Fs.exists' d0.fs dst = false ∧ Fs.parentIsDir d0.fs dst = true)) :
    ∃ d2, feedPdus envD
        ([Source.mkMd conf closure cks F.length (some src) (some dst) msgs] ++
          (List.range k).map (Source.C07.tile conf F seg 0)) d0 = some d2 ∧
      ReceivingA d2 dst F rcD ⟨conf.src, conf.seq⟩ cks
        ⟨.toSend, conf.mode, conf.crc, conf.large, conf.src, conf.dst, conf.seq⟩ ∧
      (∀ q, q ≠ dst → d2.fs.get q = d0.fs.get q) ∧
      d2.inds.filter isFinished = d0.inds.filter isFinished := by
  obtain ⟨hmd, hR1⟩ := C02_metadata_ack envD d0 { conf with dir := .toRecv } rcD closure cks F.length src dst
    msgs ha hidle hdq hdr hrej hfl hnd hok
  obtain ⟨d2, hfeed2, hR2, hother2, hfin2⟩ := receiver_takes_tiles_ack envD conf _ rcD _ cks dst F seg hseg0 ha k _
    (Or.inr hk.1) hR1
  rw [List.take_of_length_le hk.2] at hR2
  refine ⟨d2, ?_, hR2, ?_, ?_⟩
  · rw [feedPdus_append]
    simp only [feedPdus, Source.mkMd, hmd, Option.bind, hfeed2]
  · intro q hq'
    rw [hother2 q hq']
    simp [afterMdA, Fs.C17.get_set_other _ _ _ _ hq']
  · rw [hfin2]; simp [afterMdA, isFinished]

/-- the EOF at a receiver that has everything: acknowledged; afterwards (ACK retrieved) it is `Acked` -/
theorem C03_receiver_eof (env : Dest.Env) (d2 : DestSt) (dst : String) (F crc : List UInt8) (rcD : RemoteCfg)
    (t : Tid) (cks : Nat) (cd h : Hdr) (hR2 : ReceivingA d2 dst F rcD t cks cd) (ha : AdmissibleA env rcD h) :
    ∃ d3, stateMachine env (some (.eof h ccNoError crc F.length none)) d2 = .ok () d3 ∧
      d3.queue = [mkAck cd dtEof ccNoError tsActive] ∧ Acked (drained d3) dst F crc rcD t cks cd ∧
      d3.fs = d2.fs ∧ d3.flts = d2.flts ∧ d3.inds.filter isFinished = d2.inds.filter isFinished := by
  have heof := C02_eof_ack env d2 dst F crc rcD t cks cd h hR2 ha
  refine ⟨_, heof, by simp [afterEofA, hR2.hconf], ?_, rfl, rfl, ?_⟩
  · exact
      { hbusy := hR2.hbusy, hstep := rfl, hready := rfl, hqueue := rfl, hconf := hR2.hconf, hmode := hR2.hmode,
        hname := hR2.hname, hfile := hR2.hfile, hprog := hR2.hprog, hcrc := rfl, hrc := hR2.hrc, htid := hR2.htid,
        hcks := hR2.hcks, hcancel := hR2.hcancel, hmo := hR2.hmo, hfin := hR2.hfin, htrk := hR2.htrk, hmm := hR2.hmm }
  · simp only [afterEofA, List.filter_append]
    cases env.cfg.indEofRecv <;> simp [isFinished]

/-! ### the ACK (EOF) is lost -/

open Source.C07 Source.C19 in
/-- **End to end with the ACK (EOF) lost: the two models composed.**  Everything the sender emits
reaches the receiver, the receiver's ACK (EOF) never reaches the sender.  The receiver's next call
verifies and emits the Finished PDU; the sender — still waiting for the ACK of its EOF — takes the
Finished PDU as the proof that the EOF arrived, records and acknowledges it; both go idle.  No timer
has to expire.  Outcome as over a fault-free link. -/
theorem C03_end_to_end_ack_eof_loss (envS : Source.Env) (envD : Dest.Env) (s : Source.SrcSt) (d0 : Dest.DestSt)
    (req : Source.PutReq) (rcS rcD : RemoteCfg) (src dst : String) (F crc : List UInt8) (seg k : Nat)
    (t1 t2 t3 t4 : Nat)
    (hst : s.state = .busy) (hstep : s.step = .IDLE) (hq : s.queue = []) (hreq : s.putReq = some req)
    (hpmo : s.p.metadataOnly = false) (hsrc : req.src = some src) (hdst : req.dst = some dst)
    (hfile : s.fs.get src = some (.file F)) (hF : F ≠ []) (hprog : s.p.progress = 0)
    (hrc : s.p.remoteCfg = some rcS) (hrcid : rcS.entityId.val = req.destId.val)
    (hbits : s.prov.bits = 8 ∨ s.prov.bits = 16 ∨ s.prov.bits = 32)
    (hseg : Source.segLenOf rcS (startConf envS req rcS s (decide (F.length > 4294967295))) = some seg)
    (hseg0 : 0 < seg) (hmode : s.p.conf.mode = .ack) (hct : s.p.checkTimer = none)
    (hk : (k - 1) * seg < F.length ∧ F.length ≤ k * seg)
    (hcks : Checksum.calcChecksum (Checksum.CksType.ofNat rcS.cks) F F.length seg = .ok crc)
    (hnull : Checksum.CksType.ofNat rcS.cks ≠ .null) (hlen : crc.length = 4) (hack : rcS.ackMs ≠ 0)
    (ha : AdmissibleA envD rcD { startConf envS req rcS s (decide (F.length > 4294967295)) with dir := .toRecv })
    (hackD : rcD.ackMs ≠ 0)
    (hidle : d0.state = .idle) (hdq : d0.queue = []) (hdr : d0.numReady = 0) (hrej : d0.rejects = [])
    (hfl : d0.flts = []) (hnd : Fs.isDir d0.fs dst = false)
    (hok : (∃ old, d0.fs.get dst = some (.file old)) ∨
           (Fs.exists' d0.fs dst = false ∧ Fs.parentIsDir d0.fs dst = true)) :
    let conf := startConf envS req rcS s (decide (F.length > 4294967295))
    let cd : Hdr := ⟨.toSend, conf.mode, conf.crc, conf.large, conf.src, conf.dst, conf.seq⟩
    let fpOk : FinishedParams := ⟨ccNoError, dcComplete, fsRetained, none⟩
    ∃ pdus s3 d3 d4 s5 d5 s6,
      rounds envS (1 + k + 1) s = some (pdus, s3) ∧ feedPdus envD pdus d0 = some d3 ∧
      d3.queue = [.ack cd dtEof ccNoError tsActive] ∧      -- this PDU is lost
      Dest.stateMachine ⟨envD.cfg, t1⟩ none (drained d3) = .ok () d4 ∧ d4.queue = [.fin cd fpOk] ∧
      Source.stateMachine ⟨envS.cfg, t2⟩ (some (.fin cd fpOk)) s3 = .ok () s5 ∧
      s5.queue = [Source.mkAck conf dtFinished ccNoError tsActive] ∧
      Dest.stateMachine ⟨envD.cfg, t3⟩ (some (Source.mkAck conf dtFinished ccNoError tsActive)) (drained d4) = .ok () d5 ∧
      Source.stateMachine ⟨envS.cfg, t4⟩ none (Source.C07.drained s5) = .ok () s6 ∧
      s6.state = .idle ∧ d5.state = .idle ∧ s6.queue = [] ∧ d5.queue = [] ∧
      d5.fs.get dst = some (.file F) ∧ (∀ q, q ≠ dst → d5.fs.get q = d0.fs.get q) ∧ s6.fs = s.fs ∧
      d5.flts = [] ∧ s6.flts = s.flts ∧
      s6.inds.filter isFinished = s.inds.filter isFinished ++
        (if envS.cfg.indFinished then [.finished (some ⟨envS.cfg.entityId, ⟨s.prov.next, s.prov.bits / 8⟩⟩) fpOk]
         else []) ∧
      d5.inds.filter isFinished = d0.inds.filter isFinished ++
        (if envD.cfg.indFinished then [.finished (some ⟨conf.src, conf.seq⟩) fpOk] else []) := by
  intro conf cd fpOk
  have hsrcv : conf.src.val = envS.cfg.entityId.val := by simp [conf, startConf]
  have hdstv : conf.dst.val = rcS.entityId.val := by simp [conf, startConf, hrcid]
  obtain ⟨s3, hrun, hS3, hstep3, -, -, -, -, -, -, hfs3, hfl3, hin3, -⟩ :=
    C03_sender_run_to_eof envS s req rcS src dst F crc seg k hst hstep hq hreq hpmo hsrc hdst hfile hF hprog hrc
      hbits hseg hseg0 hmode hct hk hcks hnull hlen hack
  obtain ⟨d2, hfeed2, hR2, hother2, hfin2⟩ := C03_receiver_takes_all_data envD d0 conf rcD s.p.closure rcS.cks src dst
    (some (req.msgs.getD [])) F seg k hseg0 hk ha hidle hdq hdr hrej hfl hnd hok
  obtain ⟨d3, heof, hq3, hA, hfs3d, hfl3d, hin3d⟩ := C03_receiver_eof envD d2 dst F crc rcD _ rcS.cks cd
    { conf with dir := .toRecv } hR2 ha
  have hver : rcS.cks = 15 ∨ Fs.calcChecksum (drained d3).fs (Checksum.CksType.ofNat rcS.cks) dst F.length 4096 = .ok crc := by
    right
    have := Checksum.C09.C09_chunk_length_irrelevant (Checksum.CksType.ofNat rcS.cks) F F.length seg 4096
      (by omega) (by omega)
    have hf : (drained d3).fs.get dst = some (.file F) := hA.hfile
    simp [Fs.calcChecksum, hnull, hf, ← this, hcks]
  obtain ⟨d4, s5, d5, s6, hv, hq4, h5, hq5, hd5, h6, hi6, hi5, hq6, hq5', hfs5, hfs6, hfl5, hfl6, hin6, hin5⟩ :=
    C03_closing envS.cfg envD.cfg s3 (drained d3) req src dst F crc seg conf rcS rcD _ rcS.cks t1 t2 t3 t4
      hS3 (Or.inl hstep3) hA ⟨rfl, ha.hdst, ha.hsrc, ha.hmode⟩ hsrcv hdstv hackD hver
  have hfeed : feedPdus envD
      ([Source.mkMd conf s.p.closure rcS.cks F.length (some src) (some dst) (some (req.msgs.getD []))] ++
        (List.range k).map (tile conf F seg 0) ++ [Source.mkEof conf ccNoError crc F.length]) d0 = some d3 := by
    rw [feedPdus_append, hfeed2]
    simp only [Option.bind, feedPdus, Source.mkEof, heof]
  refine ⟨_, s3, d3, d4, s5, d5, s6, hrun, hfeed, ?_, hv, hq4, h5, hq5, hd5, h6, hi6, hi5, hq6, hq5', ?_, ?_, ?_, ?_, ?_,
    ?_, ?_⟩
  · simpa [Dest.mkAck, dtEof, dtFinished, cd] using hq3
  · rw [hfs5]; exact hA.hfile
  · intro q hq'
    rw [hfs5]; show d3.fs.get q = _
    rw [hfs3d, hother2 q hq']
  · rw [hfs6, hfs3]
  · rw [hfl5]; show d3.flts = []
    rw [hfl3d]; exact hR2.hflts
  · rw [hfl6, hfl3]
  · rw [hin6, hin3]
  · rw [hin5]; show d3.inds.filter isFinished ++ _ = _
    rw [hin3d, hfin2]

/-! ### the EOF is lost -/

/-- the call in which the sender's positive ACK timer expired (below the limit): exactly one EOF PDU,
identical to the first one -/
theorem C03_sender_eof_expiry_call (env : Source.Env) (s : Source.SrcSt) (t : Timer) (rc : RemoteCfg)
    (req : Source.PutReq) (src : String) (F cks : List UInt8) (tid : Tid)
    (hb : s.state = .busy) (hstep : s.step = .WAITING_FOR_EOF_ACK) (hq : s.queue = [])
    (ht : s.p.ackTimer = some t) (hrc : s.p.remoteCfg = some rc) (hexp : t.timedOut env.now = true)
    (hlim : s.p.ackCounter + 1 < rc.ackLim)
    (hreq : s.putReq = some req) (hsrc : req.src = some src) (hmo : s.p.metadataOnly = false)
    (hfile : s.fs.get src = some (.file F)) (hnull : Checksum.CksType.ofNat rc.cks ≠ .null)
    (hcks : Checksum.calcChecksum (Checksum.CksType.ofNat rc.cks) F s.p.progress s.p.segmentLen = .ok cks)
    (hlen : cks.length = 4) (hcond : s.p.condCodeEof = some ccNoError) (htid : s.p.tid = some tid) :
    Source.stateMachine env none s =
      .ok () { s with p := C04.bumpSrcP s.p env.now t.timeout (s.p.ackCounter + 1),
                      queue := [Source.mkEof s.p.conf ccNoError cks s.p.progress],
                      numReady := s.numReady + 1,
                      inds := s.inds ++ (if env.cfg.indEofSent then [Ind.eofSent tid] else []) } := by
  have hpos := C04.C04_source_expiry_resends_exact env s t rc req src F cks ccNoError tid ht hrc hexp hlim hreq hsrc hmo
    hfile hnull hcks hlen hcond htid
  rw [hq, List.nil_append] at hpos
  msimp [Source.stateMachine, hb, Source.fsmNonIdle, Source.fsmAdvancementAfterPacketsWereSent, hq, hstep, hreq,
    Source.fsmFromSendingFileData, Source.fsmFromSendingEof, Source.fsmFromWaitingForEofAck,
    Source.handleWaitingForAck, Source.handleRetransmission, hpos,
    Source.fsmFromWaitingForFinished, Source.fsmFromNoticeOfCompletion, C04.bumpSrcP]

def afterExpiryS (s : Source.SrcSt) (now ms : Nat) (eof : Pdu) (ind : List Ind) : Source.SrcSt :=
  { s with p := C04.bumpSrcP s.p now ms (s.p.ackCounter + 1), queue := [eof],
           numReady := s.numReady + 1, inds := s.inds ++ ind }

open Source.C07 Source.C19 in
/-- **End to end with the EOF PDU lost: the two models composed.**  Metadata and all File Data reach
the receiver, the EOF does not.  When the sender's positive ACK timer has expired (`tE` is at least
the ACK interval after the EOF call; the limit is at least 2) its next call re-sends exactly the same
EOF PDU; this one arrives, is acknowledged, and the transfer closes as over a fault-free link. -/
theorem C03_end_to_end_eof_loss (envS : Source.Env) (envD : Dest.Env) (s : Source.SrcSt) (d0 : Dest.DestSt)
    (req : Source.PutReq) (rcS rcD : RemoteCfg) (src dst : String) (F crc : List UInt8) (seg k : Nat)
    (tE tA t1 t2 t3 t4 tD : Nat)
    (hst : s.state = .busy) (hstep : s.step = .IDLE) (hq : s.queue = []) (hreq : s.putReq = some req)
    (hpmo : s.p.metadataOnly = false) (hsrc : req.src = some src) (hdst : req.dst = some dst)
    (hfile : s.fs.get src = some (.file F)) (hF : F ≠ []) (hprog : s.p.progress = 0)
    (hrc : s.p.remoteCfg = some rcS) (hrcid : rcS.entityId.val = req.destId.val)
    (hbits : s.prov.bits = 8 ∨ s.prov.bits = 16 ∨ s.prov.bits = 32)
    (hseg : Source.segLenOf rcS (startConf envS req rcS s (decide (F.length > 4294967295))) = some seg)
    (hseg0 : 0 < seg) (hmode : s.p.conf.mode = .ack) (hct : s.p.checkTimer = none)
    (hk : (k - 1) * seg < F.length ∧ F.length ≤ k * seg)
    (hcks : Checksum.calcChecksum (Checksum.CksType.ofNat rcS.cks) F F.length seg = .ok crc)
    (hnull : Checksum.CksType.ofNat rcS.cks ≠ .null) (hlen : crc.length = 4) (hack : rcS.ackMs ≠ 0)
    (hexp : (⟨envS.now, rcS.ackMs⟩ : Timer).timedOut tE = true) (hlim : 1 < rcS.ackLim)
    (ha : AdmissibleA envD rcD { startConf envS req rcS s (decide (F.length > 4294967295)) with dir := .toRecv })
    (hackD : rcD.ackMs ≠ 0)
    (hidle : d0.state = .idle) (hdq : d0.queue = []) (hdr : d0.numReady = 0) (hrej : d0.rejects = [])
    (hfl : d0.flts = []) (hnd : Fs.isDir d0.fs dst = false)
    (hok : (∃ old, d0.fs.get dst = some (.file old)) ∨
           (Fs.exists' d0.fs dst = false ∧ Fs.parentIsDir d0.fs dst = true)) :
    let conf := startConf envS req rcS s (decide (F.length > 4294967295))
    let cd : Hdr := ⟨.toSend, conf.mode, conf.crc, conf.large, conf.src, conf.dst, conf.seq⟩
    let fpOk : FinishedParams := ⟨ccNoError, dcComplete, fsRetained, none⟩
    let eof := Source.mkEof conf ccNoError crc F.length
    ∃ pdus s3 d2 s3' d3 s4 d4 s5 d5 s6,
      -- the sender's run; everything but the last PDU (the EOF) reaches the receiver
      rounds envS (1 + k + 1) s = some (pdus, s3) ∧ pdus.getLast? = some eof ∧
      feedPdus envD pdus.dropLast d0 = some d2 ∧ d2.queue = [] ∧
      -- the timer expires: the same EOF again; it arrives and is acknowledged
      Source.stateMachine ⟨envS.cfg, tE⟩ none s3 = .ok () s3' ∧ s3'.queue = [eof] ∧
      Dest.stateMachine ⟨envD.cfg, tD⟩ (some eof) d2 = .ok () d3 ∧ d3.queue = [.ack cd dtEof ccNoError tsActive] ∧
      Source.stateMachine ⟨envS.cfg, tA⟩ (some (.ack cd dtEof ccNoError tsActive)) (Source.C07.drained s3') = .ok () s4 ∧
      s4.queue = [] ∧
      -- closing handshake
      Dest.stateMachine ⟨envD.cfg, t1⟩ none (drained d3) = .ok () d4 ∧ d4.queue = [.fin cd fpOk] ∧
      Source.stateMachine ⟨envS.cfg, t2⟩ (some (.fin cd fpOk)) s4 = .ok () s5 ∧
      s5.queue = [Source.mkAck conf dtFinished ccNoError tsActive] ∧
      Dest.stateMachine ⟨envD.cfg, t3⟩ (some (Source.mkAck conf dtFinished ccNoError tsActive)) (drained d4) = .ok () d5 ∧
      Source.stateMachine ⟨envS.cfg, t4⟩ none (Source.C07.drained s5) = .ok () s6 ∧
      s6.state = .idle ∧ d5.state = .idle ∧ s6.queue = [] ∧ d5.queue = [] ∧
      d5.fs.get dst = some (.file F) ∧ (∀ q, q ≠ dst → d5.fs.get q = d0.fs.get q) ∧ s6.fs = s.fs ∧
      d5.flts = [] ∧ s6.flts = s.flts ∧
      s6.inds.filter isFinished = s.inds.filter isFinished ++
        (if envS.cfg.indFinished then [.finished (some ⟨envS.cfg.entityId, ⟨s.prov.next, s.prov.bits / 8⟩⟩) fpOk]
         else []) ∧
      d5.inds.filter isFinished = d0.inds.filter isFinished ++
        (if envD.cfg.indFinished then [.finished (some ⟨conf.src, conf.seq⟩) fpOk] else []) := by
  intro conf cd fpOk eof
  have hsrcv : conf.src.val = envS.cfg.entityId.val := by simp [conf, startConf]
  have hdstv : conf.dst.val = rcS.entityId.val := by simp [conf, startConf, hrcid]
  obtain ⟨s3, hrun, hS3, hstep3, htm3, hcnt3, hsz3, hmo3, hcond3, hct3, hfs3, hfl3, hin3, -⟩ :=
    C03_sender_run_to_eof envS s req rcS src dst F crc seg k hst hstep hq hreq hpmo hsrc hdst hfile hF hprog hrc
      hbits hseg hseg0 hmode hct hk hcks hnull hlen hack
  obtain ⟨d2, hfeed2, hR2, hother2, hfin2⟩ := C03_receiver_takes_all_data envD d0 conf rcD s.p.closure rcS.cks src dst
    (some (req.msgs.getD [])) F seg k hseg0 hk ha hidle hdq hdr hrej hfl hnd hok
  -- the expiry
  have hE := C03_sender_eof_expiry_call ⟨envS.cfg, tE⟩ s3 ⟨envS.now, rcS.ackMs⟩ rcS req src F crc
    ⟨envS.cfg.entityId, ⟨s.prov.next, s.prov.bits / 8⟩⟩ hS3.hbusy hstep3 hS3.hqueue htm3 hS3.hrc hexp
    (by rw [hcnt3]; exact hlim) hS3.hreq hS3.hsrc hmo3 hS3.hfile hnull (by rw [hS3.hprog, hS3.hseg]; exact hcks) hlen hcond3
    hS3.htid
  rw [hS3.hconf, hS3.hprog] at hE
  -- the EOF at the receiver
  obtain ⟨d3, heof, hq3, hA, hfs3d, hfl3d, hin3d⟩ := C03_receiver_eof ⟨envD.cfg, tD⟩ d2 dst F crc rcD _ rcS.cks cd
    { conf with dir := .toRecv } hR2 ⟨rfl, ha.hdst, ha.hsrc, ha.hmode⟩
  -- the ACK (EOF) at the sender
  let s3' : Source.SrcSt := afterExpiryS s3 tE rcS.ackMs eof
    (if envS.cfg.indEofSent then [Ind.eofSent ⟨envS.cfg.entityId, ⟨s.prov.next, s.prov.bits / 8⟩⟩] else [])
  have hadm : AdmissibleS ⟨envS.cfg, tA⟩ (Source.C07.drained s3') rcS cd :=
    { hdir := rfl, hsrc := hsrcv, hrc := hS3.hrc, hdst := hdstv,
      hseq := by show cd.seq.val = s3.p.conf.seq.val; rw [hS3.hconf],
      hmode := by show s3.p.conf.mode = .ack; rw [hS3.hconf]; simp [conf, startConf, hmode] }
  have h4 := C02_source_eof_acked ⟨envS.cfg, tA⟩ (Source.C07.drained s3') rcS cd ccNoError tsActive req hadm hS3.hbusy
    hstep3 rfl hS3.hreq hct3
  have hS4 : SentAllS { Source.C07.drained s3' with step := .WAITING_FOR_FINISHED } req src F seg conf rcS
      ⟨envS.cfg.entityId, ⟨s.prov.next, s.prov.bits / 8⟩⟩ :=
    ⟨hS3.hbusy, rfl, hS3.hreq, hS3.hsrc, hS3.hfile, hS3.hseg, hS3.hprog, hS3.hconf, hS3.hrc, hS3.htid⟩
  have hver : rcS.cks = 15 ∨ Fs.calcChecksum (drained d3).fs (Checksum.CksType.ofNat rcS.cks) dst F.length 4096 = .ok crc := by
    right
    have := Checksum.C09.C09_chunk_length_irrelevant (Checksum.CksType.ofNat rcS.cks) F F.length seg 4096
      (by omega) (by omega)
    have hf : (drained d3).fs.get dst = some (.file F) := hA.hfile
    simp [Fs.calcChecksum, hnull, hf, ← this, hcks]
  obtain ⟨d4, s5, d5, s6, hv, hq4, h5, hq5, hd5, h6, hi6, hi5, hq6, hq5', hfs5, hfs6, hfl5, hfl6, hin6, hin5⟩ :=
    C03_closing envS.cfg envD.cfg _ (drained d3) req src dst F crc seg conf rcS rcD _ rcS.cks t1 t2 t3 t4
      hS4 (Or.inr (Or.inl rfl)) hA ⟨rfl, ha.hdst, ha.hsrc, ha.hmode⟩ hsrcv hdstv hackD hver
  refine ⟨_, s3, d2, s3', d3, _, d4, s5, d5, s6, hrun, ?_, ?_, hR2.hqueue, hE, rfl, heof, ?_, h4, rfl, hv, hq4, h5, hq5, hd5,
    h6, hi6, hi5, hq6, hq5', ?_, ?_, ?_, ?_, ?_, ?_, ?_⟩
  · rw [List.getLast?_concat]
  · rw [List.dropLast_concat]; exact hfeed2
  · simpa [Dest.mkAck, dtEof, dtFinished, cd] using hq3
  · rw [hfs5]; exact hA.hfile
  · intro q hq'
    rw [hfs5]; show d3.fs.get q = _
    rw [hfs3d, hother2 q hq']
  · rw [hfs6]; exact hfs3
  · rw [hfl5]; show d3.flts = []
    rw [hfl3d]; exact hR2.hflts
  · rw [hfl6]; exact hfl3
  · rw [hin6]
    simp only [Source.C07.drained, s3', afterExpiryS, List.filter_append, hin3]
    cases envS.cfg.indEofSent <;> simp [isFinished, fpOk]
  · rw [hin5]; show d3.inds.filter isFinished ++ _ = _
    rw [hin3d, hfin2]

/-! ### the Finished PDU or its ACK is lost -/

def afterFinExpiry (d : DestSt) (now ms : Nat) : DestSt :=
  { d with queue := [mkFin d.p.conf d.p.fin], numReady := 1,
           p := { d.p with ackTimer := some ⟨now, ms⟩, ackCounter := d.p.ackCounter + 1 } }

/-- the call in which the receiver's positive ACK timer expired (below the limit): exactly one
Finished PDU, identical to the first one -/
theorem C03_receiver_finished_expiry_call (env : Dest.Env) (d : DestSt) (t : Timer) (rc : RemoteCfg)
    (hb : d.state = .busy) (hstep : d.step = .WAITING_FOR_FINISHED_ACK) (hq : d.queue = []) (hr : d.numReady = 0)
    (ht : d.p.ackTimer = some t) (hrc : d.p.remoteCfg = some rc) (hexp : t.timedOut env.now = true)
    (hlim : d.p.ackCounter + 1 < rc.ackLim) :
    stateMachine env none d = .ok () (afterFinExpiry d env.now t.timeout) := by
  unfold stateMachine
  generalize (stateMachineWith env none (stateMachineWith env none (throw Err.recursionError))) = rec
  have hpos := C04.C04_dest_expiry_resends env d t rc rec ht hrc hexp hlim hr
  rw [hq, List.nil_append] at hpos
  msimp [stateMachineWith, hb, nonIdleFsm, fsmAdvancementAfterPacketsWereSent, hq, hstep,
    fsmFromReceiving, fsmFromWaitingForMetadata, fsmFromCheckLimit, fsmFromWaitingForMissingData,
    fsmFromTransferCompletion, fsmFromSendingFinishedPdu, fsmFromWaitingForFinishedAck,
    handleWaitingForFinishedAck, hpos, afterFinExpiry]

/-- **The closing handshake with the Finished PDU lost.**  As `C03_closing`, but the first Finished
PDU never reaches the sender.  When the receiver's positive ACK timer has expired (limit at least 2)
its next call re-sends exactly the same Finished PDU; that one is acknowledged and both go idle. -/
theorem C03_closing_finished_lost (cfgS cfgD : LocalCfg) (s4 : Source.SrcSt) (dA : DestSt) (req : Source.PutReq)
    (src dst : String) (F crc : List UInt8) (seg : Nat) (conf : Hdr) (rcS rcD : RemoteCfg) (tid : Tid)
    (cksN t1 tE t2 t3 t4 : Nat)
    (hS : SentAllS s4 req src F seg conf rcS tid)
    (hstep : s4.step = .WAITING_FOR_EOF_ACK ∨ s4.step = .WAITING_FOR_FINISHED ∨
      (s4.step = .RETRANSMITTING ∧ s4.stepBefore = some .WAITING_FOR_FINISHED))
    (hA : Acked dA dst F crc rcD ⟨conf.src, conf.seq⟩ cksN
      ⟨.toSend, conf.mode, conf.crc, conf.large, conf.src, conf.dst, conf.seq⟩)
    (ha : AdmissibleA ⟨cfgD, t3⟩ rcD { conf with dir := .toRecv })
    (hsrcv : conf.src.val = cfgS.entityId.val) (hdstv : conf.dst.val = rcS.entityId.val)
    (hackD : rcD.ackMs ≠ 0)
    (hexp : (⟨t1, rcD.ackMs⟩ : Timer).timedOut tE = true) (hlim : 1 < rcD.ackLim)
    (hver : cksN = 15 ∨ Fs.calcChecksum dA.fs (Checksum.CksType.ofNat cksN) dst F.length 4096 = .ok crc) :
    let cd : Hdr := ⟨.toSend, conf.mode, conf.crc, conf.large, conf.src, conf.dst, conf.seq⟩
    let fpOk : FinishedParams := ⟨ccNoError, dcComplete, fsRetained, none⟩
    ∃ d4 d4' s5 d5 s6,
      Dest.stateMachine ⟨cfgD, t1⟩ none dA = .ok () d4 ∧ d4.queue = [.fin cd fpOk] ∧      -- lost
      Dest.stateMachine ⟨cfgD, tE⟩ none (drained d4) = .ok () d4' ∧ d4'.queue = [.fin cd fpOk] ∧
      Source.stateMachine ⟨cfgS, t2⟩ (some (.fin cd fpOk)) s4 = .ok () s5 ∧
      s5.queue = [Source.mkAck conf dtFinished ccNoError tsActive] ∧
      Dest.stateMachine ⟨cfgD, t3⟩ (some (Source.mkAck conf dtFinished ccNoError tsActive)) (drained d4') = .ok () d5 ∧
      Source.stateMachine ⟨cfgS, t4⟩ none (Source.C07.drained s5) = .ok () s6 ∧
      s6.state = .idle ∧ d5.state = .idle ∧ s6.queue = [] ∧ d5.queue = [] ∧
      d5.fs = dA.fs ∧ s6.fs = s4.fs ∧ d5.flts = dA.flts ∧ s6.flts = s4.flts ∧
      s6.inds.filter isFinished = s4.inds.filter isFinished ++
        (if cfgS.indFinished then [.finished (some tid) fpOk] else []) ∧
      d5.inds.filter isFinished = dA.inds.filter isFinished ++
        (if cfgD.indFinished then [.finished (some ⟨conf.src, conf.seq⟩) fpOk] else []) := by
  intro cd fpOk
  have hmodeS : conf.mode = .ack := hA.hmode
  have hv := C02_verify_ack ⟨cfgD, t1⟩ dA dst F crc rcD _ cksN _ hA hackD hver
  have hE := C03_receiver_finished_expiry_call ⟨cfgD, tE⟩ (drained (afterVerifyA ⟨cfgD, t1⟩ dA ⟨conf.src, conf.seq⟩ rcD))
    ⟨t1, rcD.ackMs⟩ rcD hA.hbusy rfl rfl rfl rfl hA.hrc hexp (by simpa [drained, afterVerifyA, finP] using hlim)
  have hadm : AdmissibleS ⟨cfgS, t2⟩ s4 rcS cd :=
    { hdir := rfl, hsrc := hsrcv, hrc := hS.hrc, hdst := hdstv,
      hseq := by rw [hS.hconf], hmode := by rw [hS.hconf]; exact hmodeS }
  have h5 := C03_sender_finished_any ⟨cfgS, t2⟩ s4 rcS cd fpOk req hadm hS.hbusy hstep hS.hqueue hS.hreq
  have hfa := C02_finished_acked ⟨cfgD, t3⟩
    (drained (afterFinExpiry (drained (afterVerifyA ⟨cfgD, t1⟩ dA ⟨conf.src, conf.seq⟩ rcD)) tE rcD.ackMs))
    rcD { conf with dir := .toRecv } ccNoError tsActive ha hA.hbusy rfl rfl
    (by simp [drained, afterFinExpiry, afterVerifyA, finP, hA.hconf]; exact hmodeS)
  have h6 := C02_source_completion ⟨cfgS, t4⟩ (Source.C07.drained (afterFinS (waitFinS s4) fpOk)) fpOk tid req
    hS.hbusy rfl rfl hS.hreq rfl hS.htid
  refine ⟨_, _, _,
    idleOf (drained (afterFinExpiry (drained (afterVerifyA ⟨cfgD, t1⟩ dA ⟨conf.src, conf.seq⟩ rcD)) tE rcD.ackMs)), _,
    hv, ?_, hE, ?_, h5, ?_, ?_, h6, rfl, rfl, rfl, rfl, rfl, rfl, rfl, rfl, ?_, ?_⟩
  · simp [afterVerifyA, Dest.mkFin, hA.hconf, cd, fpOk]
  · simp [afterFinExpiry, drained, afterVerifyA, finP, Dest.mkFin, hA.hconf, cd, fpOk]
  · show [Source.mkAck s4.p.conf dtFinished fpOk.cond tsActive] = _
    rw [hS.hconf]
  · simpa [Source.mkAck, dtFinished, idleOf] using hfa
  · simp only [Source.C07.drained, afterFinS, waitFinS, List.filter_append]
    cases cfgS.indFinished <;> simp [isFinished]
  · simp only [idleOf, drained, afterFinExpiry, afterVerifyA, List.filter_append]
    cases cfgD.indFinished <;> simp [isFinished, fpOk]

/-- **The closing handshake with the ACK (Finished) lost.**  The sender acknowledges the Finished PDU
and completes; its ACK never arrives.  When the receiver's positive ACK timer has expired it re-sends
exactly the same Finished PDU; the sender has closed the transaction by then, so — as the property
assumes — the surrounding entity answers with the ACK (Finished), on which the receiver goes idle. -/
theorem C03_closing_finished_ack_lost (cfgS cfgD : LocalCfg) (s4 : Source.SrcSt) (dA : DestSt) (req : Source.PutReq)
    (src dst : String) (F crc : List UInt8) (seg : Nat) (conf : Hdr) (rcS rcD : RemoteCfg) (tid : Tid)
    (cksN t1 tE t2 t3 t4 : Nat)
    (hS : SentAllS s4 req src F seg conf rcS tid)
    (hstep : s4.step = .WAITING_FOR_EOF_ACK ∨ s4.step = .WAITING_FOR_FINISHED ∨
      (s4.step = .RETRANSMITTING ∧ s4.stepBefore = some .WAITING_FOR_FINISHED))
    (hA : Acked dA dst F crc rcD ⟨conf.src, conf.seq⟩ cksN
      ⟨.toSend, conf.mode, conf.crc, conf.large, conf.src, conf.dst, conf.seq⟩)
    (ha : AdmissibleA ⟨cfgD, t3⟩ rcD { conf with dir := .toRecv })
    (hsrcv : conf.src.val = cfgS.entityId.val) (hdstv : conf.dst.val = rcS.entityId.val)
    (hackD : rcD.ackMs ≠ 0)
    (hexp : (⟨t1, rcD.ackMs⟩ : Timer).timedOut tE = true) (hlim : 1 < rcD.ackLim)
    (hver : cksN = 15 ∨ Fs.calcChecksum dA.fs (Checksum.CksType.ofNat cksN) dst F.length 4096 = .ok crc) :
    let cd : Hdr := ⟨.toSend, conf.mode, conf.crc, conf.large, conf.src, conf.dst, conf.seq⟩
    let fpOk : FinishedParams := ⟨ccNoError, dcComplete, fsRetained, none⟩
    let ackFin := Source.mkAck conf dtFinished ccNoError tsActive
    ∃ d4 s5 s6 d4' d5,
      Dest.stateMachine ⟨cfgD, t1⟩ none dA = .ok () d4 ∧ d4.queue = [.fin cd fpOk] ∧
      Source.stateMachine ⟨cfgS, t2⟩ (some (.fin cd fpOk)) s4 = .ok () s5 ∧ s5.queue = [ackFin] ∧      -- lost
      Source.stateMachine ⟨cfgS, t4⟩ none (Source.C07.drained s5) = .ok () s6 ∧ s6.state = .idle ∧ s6.queue = [] ∧
      Dest.stateMachine ⟨cfgD, tE⟩ none (drained d4) = .ok () d4' ∧ d4'.queue = [.fin cd fpOk] ∧
      Dest.stateMachine ⟨cfgD, t3⟩ (some ackFin) (drained d4') = .ok () d5 ∧
      d5.state = .idle ∧ d5.queue = [] ∧
      d5.fs = dA.fs ∧ s6.fs = s4.fs ∧ d5.flts = dA.flts ∧ s6.flts = s4.flts ∧
      s6.inds.filter isFinished = s4.inds.filter isFinished ++
        (if cfgS.indFinished then [.finished (some tid) fpOk] else []) ∧
      d5.inds.filter isFinished = dA.inds.filter isFinished ++
        (if cfgD.indFinished then [.finished (some ⟨conf.src, conf.seq⟩) fpOk] else []) := by
  intro cd fpOk ackFin
  obtain ⟨d4, d4', s5, d5, s6, h1, h2, h3, h4, h5, h6, h7, h8, h9, h10, h11, h12, h13, h14, h15, h16, h17, h18⟩ :=
    C03_closing_finished_lost cfgS cfgD s4 dA req src dst F crc seg conf rcS rcD tid cksN t1 tE t2 t3 t4 hS hstep hA ha
      hsrcv hdstv hackD hexp hlim hver
  exact ⟨d4, s5, s6, d4', d5, h1, h2, h5, h6, h8, h9, h11, h3, h4, h7, h10, h12, h13, h14, h15, h16, h17, h18⟩


/-! ## The NAK, or the retransmission it asked for, is lost -/

def nakExpP (p : Params) (now : Nat) (tm : Timer) : Params :=
  { p with nakCounter := p.nakCounter + 1, procTimer := some ⟨now, tm.timeout⟩ }

def afterNakExpiry (d : DestSt) (now : Nat) (tm : Timer) (F : List UInt8) (a b : Nat) : DestSt :=
  { d with queue := [mkNak d.p.conf 0 F.length [(a, b)]], numReady := 1, p := nakExpP d.p now tm }

/-- **The call in which the receiver's NAK timer expired** (activity counter below the limit): exactly
one NAK PDU, identical to the first one — scope `(0, |F|)`, the single request `(a, b)` —, the counter
is incremented and the timer restarted; nothing else changes -/
theorem C03_nak_expiry_call (env : Env) (d : DestSt) (dst : String) (F crc : List UInt8) (a b : Nat)
    (rc : RemoteCfg) (t : Tid) (cks : Nat) (conf : Hdr) (tm : Timer) (G : List UInt8) (m maxSegs : Nat)
    (hr : Waiting d dst F crc a b rc t cks conf tm G m)
    (hmax : maxSegReqs rc.maxPkt conf = some maxSegs) (hms : 1 ≤ maxSegs)
    (hexp : tm.timedOut env.now = true) (hlim : d.p.nakCounter + 1 ≠ rc.nakLim) :
    stateMachine env none d = .ok () (afterNakExpiry d env.now tm F a b) ∧
      Waiting (drained (afterNakExpiry d env.now tm F a b)) dst F crc a b rc t cks conf ⟨env.now, tm.timeout⟩ G m := by
  constructor
  · unfold stateMachine
    generalize (stateMachineWith env none (stateMachineWith env none (throw Err.recursionError))) = rec
    have hmax' : maxSegReqs rc.maxPkt d.p.conf = some maxSegs := by rw [hr.hconf]; exact hmax
    have hnm : ¬ maxSegs ≤ 0 := by omega
    have hre := C04.C04_nak_expiry_reissues env d tm rc F.length maxSegs hr.hdef hr.hcancel hr.hrc hr.hfse
      (Or.inl (by rw [hr.htrk]; simp)) hr.hpt hexp hlim hmax'
    simp only [hr.hqueue, List.nil_append, hr.hready, hr.htrk, hr.hmm] at hre
    have hseq : nakSequence d.p.conf F.length maxSegs false [(a, b)] = [mkNak d.p.conf 0 F.length [(a, b)]] := by
      simp [nakSequence, splitReqs, hnm]
    rw [hseq] at hre
    msimp [stateMachineWith, hr.hbusy, nonIdleFsm, fsmAdvancementAfterPacketsWereSent, hr.hqueue,
      hr.hstep, fsmFromReceiving, fsmFromWaitingForMetadata, fsmFromCheckLimit, fsmFromWaitingForMissingData,
      hre, fsmFromTransferCompletion, fsmFromSendingFinishedPdu, fsmFromWaitingForFinishedAck,
      afterNakExpiry, nakExpP]
    exact ⟨hr.htrk.symm, hr.hmm⟩
  · exact
      { hbusy := hr.hbusy, hstep := hr.hstep, hready := rfl, hqueue := rfl, hconf := hr.hconf, hmode := hr.hmode,
        hname := hr.hname, hfile := hr.hfile, hprog := hr.hprog, hcrc := hr.hcrc, hfse := hr.hfse, hrc := hr.hrc,
        htid := hr.htid, hrej := hr.hrej, hcks := hr.hcks, hcancel := hr.hcancel, hmo := hr.hmo, hfin := hr.hfin,
        htrk := hr.htrk, hmm := hr.hmm, hdef := hr.hdef, hpt := rfl, hlastS := hr.hlastS, hlastE := hr.hlastE }


theorem feed_keeps_nak_counter (env : Env) (h conf : Hdr) (rc : RemoteCfg) (t : Tid) (cks : Nat) (dst : String)
    (ha : AdmissibleA env rc h) :
    ∀ (cs : List (List UInt8)) (P : List UInt8) (d d' : DestSt), (∀ c ∈ cs, c ≠ []) →
      ReceivingA d dst P rc t cks conf → feed env h cs P.length d = some d' →
      d'.p.nakCounter = d.p.nakCounter := by
  intro cs
  induction cs with
  | nil => intro P d d' _ _ hf; simp [feed] at hf; rw [hf]
  | cons c cs ih =>
    intro P d d' hne hr hf
    have hc : c ≠ [] := hne c (by simp)
    obtain ⟨hcall, hr'⟩ := C02_tile_ack env d dst P c rc t cks conf h hr ha hc
    simp only [feed, hcall] at hf
    have := ih (P ++ c) _ d' (fun x hx => hne x (by simp [hx])) hr' (by simpa using hf)
    rw [this]; rfl

theorem feedSeg_keeps_nak_counter (env : Env) (h conf : Hdr) (rc : RemoteCfg) (t : Tid) (cks : Nat) (dst : String)
    (F : List UInt8) (a b seg : Nat) (hab : a < b) (hseg : 0 < seg) (ha : AdmissibleA env rc h) :
    ∀ (k m : Nat) (d d' : DestSt), b ≤ m → m ≤ F.length → (k = 0 ∨ m + (k - 1) * seg < F.length) →
      ReceivingH d dst F a b m rc t cks conf → feedSeg env h F seg k m d = some d' →
      d'.p.nakCounter = d.p.nakCounter := by
  intro k
  induction k with
  | zero => intro m d d' _ _ _ _ hf; simp [feedSeg] at hf; rw [hf]
  | succ k ih =>
    intro m d d' hbm hmle hk hr hf
    have hmlt : m < F.length := by
      rcases hk with h0 | h0
      · omega
      · have : m ≤ m + (k + 1 - 1) * seg := Nat.le_add_right _ _
        omega
    obtain ⟨hcall, hr'⟩ := C03_tile_behind_hole env d dst F a b m seg rc t cks conf h hr ha hab hbm hmlt hseg
    have hk' : k = 0 ∨ min (m + seg) F.length + (k - 1) * seg < F.length := by
      by_cases h0 : k = 0
      · exact Or.inl h0
      · right
        have h1 := hk.resolve_left (by omega)
        simp only [Nat.add_sub_cancel] at h1
        have h2 : k = (k - 1) + 1 := by omega
        rw [h2, Nat.add_mul, Nat.one_mul] at h1
        have : min (m + seg) F.length ≤ m + seg := Nat.min_le_left _ _
        omega
    simp only [feedSeg, hcall] at hf
    have := ih (min (m + seg) F.length) _ d' (by omega) (Nat.min_le_right _ _) hk' hr' hf
    rw [this]; rfl

/-- the receiver's run up to the NAK, one File Data PDU lost (first half of `C03_single_loss_recovery`,
with the resulting state) -/
theorem C03_receiver_prefix_single_loss (env env2 : Env) (d0 : DestSt) (h : Hdr) (rc : RemoteCfg)
    (closure : Bool) (cks : Nat) (sname dname : String) (msgs : Option (List Msg)) (F crc : List UInt8)
    (cs1 : List (List UInt8)) (a b seg k maxSegs : Nat)
    (ha : AdmissibleA env rc h)
    (hnak : rc.nakMs ≠ 0) (himm : rc.imm = false)
    (hmaxs : maxSegReqs rc.maxPkt ⟨.toSend, h.mode, h.crc, h.large, h.src, h.dst, h.seq⟩ = some maxSegs)
    (hmax1 : 1 ≤ maxSegs)
    (hidle : d0.state = .idle) (hq : d0.queue = []) (hr : d0.numReady = 0) (hrej : d0.rejects = [])
    (hfl : d0.flts = []) (hnd : Fs.isDir d0.fs dname = false)
    (hok : (∃ old, d0.fs.get dname = some (.file old)) ∨
           (Fs.exists' d0.fs dname = false ∧ Fs.parentIsDir d0.fs dname = true))
    (hcs1 : cs1.flatten = F.take a) (hne1 : ∀ c ∈ cs1, c ≠ [])
    (hseg : 0 < seg) (hb : b = a + seg) (hbF : b < F.length)
    (hk : min (b + seg) F.length + (k - 1) * seg < F.length ∨ k = 0)
    (hkend : F.length ≤ min (b + seg) F.length + k * seg) :
    let cdh : Hdr := ⟨.toSend, h.mode, h.crc, h.large, h.src, h.dst, h.seq⟩
    ∃ d1 d2 d3 d4 d5 d6,
      stateMachine env (some (.md h closure cks F.length (some sname) (some dname) msgs)) d0 = .ok () d1 ∧
      feed env h cs1 0 d1 = some d2 ∧
      stateMachine env (some (.fd h b ((F.drop b).take seg))) d2 = .ok () d3 ∧
      feedSeg env h F seg k (min (b + seg) F.length) d3 = some d4 ∧
      stateMachine env (some (.eof h ccNoError crc F.length none)) d4 = .ok () d5 ∧
      d5.queue = [mkAck cdh dtEof ccNoError tsActive] ∧
      stateMachine env2 none (drained d5) = .ok () d6 ∧
      d6.queue = [mkNak cdh 0 F.length [(a, b)]] ∧
      Waiting (drained d6) dname F crc a b rc ⟨h.src, h.seq⟩ cks cdh ⟨env2.now, rc.nakMs⟩
        (holeFile F a b F.length) F.length ∧
      (∀ q, q ≠ dname → d6.fs.get q = d0.fs.get q) ∧ d6.flts = [] ∧
      d6.inds.filter isFinished = d0.inds.filter isFinished ∧ d6.p.nakCounter = 0 := by
  intro cdh
  have hab : a < b := by omega
  have haF : a ≤ F.length := by omega
  -- Metadata and the tiles before the lost one
  obtain ⟨hmd, hR1⟩ := C02_metadata_ack env d0 h rc closure cks F.length sname dname msgs ha hidle hq hr hrej hfl hnd hok
  obtain ⟨d2, hfeed, hR2, hother2, hfin2⟩ := C02_tiles_ack env h _ rc _ cks dname ha cs1 [] _ hne1 hR1
  have hpt2 := feed_keeps_timer env h _ rc _ cks dname ha cs1 [] _ d2 hne1 hR1 hfeed
  simp only [List.nil_append, hcs1, List.length_nil] at hfeed hR2
  -- the tile behind the lost one
  obtain ⟨hgap, hR3⟩ := C03_gap_tile env d2 dname F a b seg rc _ cks _ h hR2 ha hab hbF hseg himm
  -- the remaining tiles
  obtain ⟨d4, hfs, hR4, hother4, hfin4, hpt4⟩ := C03_tiles_behind_hole env h _ rc _ cks dname F a b seg hab hseg ha
    k (min (b + seg) F.length) _ (by omega) (Nat.min_le_right _ _) (by rcases hk with h1 | h1; exact Or.inr h1; exact Or.inl h1)
    hR3
  have hend : min (min (b + seg) F.length + k * seg) F.length = F.length := by omega
  rw [hend] at hR4
  -- EOF
  have heof := C03_eof_with_hole env d4 dname F crc a b rc _ cks _ h hR4 ha
  -- deferred procedure
  have hA : AckedH (drained (afterEofA env d4 ⟨h.src, h.seq⟩ crc F.length)) dname F crc a b rc ⟨h.src, h.seq⟩ cks
      ⟨.toSend, h.mode, h.crc, h.large, h.src, h.dst, h.seq⟩ (holeFile F a b F.length) F.length :=
    { hbusy := hR4.hbusy, hstep := rfl, hready := rfl, hqueue := rfl, hconf := hR4.hconf, hmode := hR4.hmode,
      hname := hR4.hname, hfile := hR4.hfile, hprog := hR4.hprog, hcrc := rfl, hfse := rfl, hrc := hR4.hrc,
      htid := hR4.htid, hrej := hR4.hrej, hcks := hR4.hcks, hcancel := hR4.hcancel, hmo := hR4.hmo,
      hfin := hR4.hfin, htrk := hR4.htrk, hmm := hR4.hmm, hdef := hR4.hdef,
      hpt := by
        show d4.p.procTimer = none
        rw [hpt4]; show d2.p.procTimer = none
        rw [hpt2]; rfl }
  have hdef := C03_deferred_requests_hole env2 _ dname F crc a b rc _ cks _ maxSegs _ _ hA hmaxs hmax1 hnak
  have hW : Waiting (drained (afterDeferred env2 (drained (afterEofA env d4 ⟨h.src, h.seq⟩ crc F.length)) F a b rc))
      dname F crc a b rc ⟨h.src, h.seq⟩ cks ⟨.toSend, h.mode, h.crc, h.large, h.src, h.dst, h.seq⟩
      ⟨env2.now, rc.nakMs⟩ (holeFile F a b F.length) F.length :=
    { hbusy := hR4.hbusy, hstep := rfl, hready := rfl, hqueue := rfl, hconf := hR4.hconf, hmode := hR4.hmode,
      hname := hR4.hname, hfile := hR4.hfile, hprog := hR4.hprog, hcrc := rfl, hfse := rfl, hrc := hR4.hrc,
      htid := hR4.htid, hrej := hR4.hrej, hcks := hR4.hcks, hcancel := hR4.hcancel, hmo := hR4.hmo,
      hfin := hR4.hfin, htrk := hR4.htrk, hmm := hR4.hmm, hdef := rfl, hpt := rfl, hlastS := rfl, hlastE := rfl }
  have hnc2 := feed_keeps_nak_counter env h _ rc _ cks dname ha cs1 [] _ d2 hne1 hR1 (by simpa using hfeed)
  have hnc4 := feedSeg_keeps_nak_counter env h _ rc _ cks dname F a b seg hab hseg ha
    k (min (b + seg) F.length) _ d4 (by omega) (Nat.min_le_right _ _)
    (by rcases hk with h1 | h1; exact Or.inr h1; exact Or.inl h1) hR3 hfs
  refine ⟨_, d2, _, d4, _, _, hmd, hfeed, hgap, hfs, heof, ?_, hdef, ?_, hW, ?_, ?_, ?_, ?_⟩
  · simp [afterEofA, hR4.hconf, cdh]
  · simp [afterDeferred, drained, afterEofA, eofP, hR4.hconf, cdh]
  · intro q hq'
    simp only [drained, afterDeferred, afterEofA]
    rw [hother4 q hq']
    simp only [afterGap]
    rw [Fs.C17.get_set_other _ _ _ _ hq', hother2 q hq']
    simp [afterMdA, Fs.C17.get_set_other _ _ _ _ hq']
  · simp [drained, afterDeferred, afterEofA, hR4.hflts]
  · simp only [drained, afterDeferred, afterEofA, List.filter_append, hfin4]
    simp only [afterGap, List.filter_append, hfin2]
    have h1 : (afterMdA env d0 h rc closure cks F.length sname dname msgs).inds.filter isFinished =
        d0.inds.filter isFinished := by simp [afterMdA, isFinished]
    rw [h1]
    cases env.cfg.indSegRecv <;> cases env.cfg.indEofRecv <;> simp [isFinished]
  · show d4.p.nakCounter = 0
    rw [hnc4]; show d2.p.nakCounter = 0
    rw [hnc2]; rfl

/-- **NAK at the sender after it has sent everything**, whether it waits for the Finished PDU or is
still in the retransmission step of an earlier NAK (whose answer was retrieved): a request for one
full segment is served with exactly the original File Data PDU -/
theorem C03_sender_serves_request_any (env : Source.Env) (s : Source.SrcSt) (rc : RemoteCfg) (h : Hdr)
    (req : Source.PutReq) (src : String) (F : List UInt8) (a b sos eos : Nat)
    (ha : AdmissibleS env s rc h) (hb : s.state = .busy)
    (hstep : s.step = .WAITING_FOR_FINISHED ∨
      (s.step = .RETRANSMITTING ∧ s.stepBefore = some .WAITING_FOR_FINISHED))
    (hq : s.queue = []) (hreq : s.putReq = some req) (hsrc : req.src = some src)
    (hfile : s.fs.get src = some (.file F)) (hseg : 0 < s.p.segmentLen) (hab : b = a + s.p.segmentLen)
    (hbp : b ≤ s.p.progress) :
    Source.stateMachine env (some (.nak h sos eos [(a, b)])) s =
      .ok () (retransS s [Source.mkFd s.p.conf a ((F.drop a).take s.p.segmentLen)]) := by
  rcases hstep with hs | ⟨hs, hsb⟩
  · exact C03_sender_serves_request env s rc h req src F a b sos eos ha hb hs hq hreq hsrc hfile hseg hab hbp
  · obtain ⟨st, stp, nr, p, sb, pr, q, fs, fl, pv, ind, flt⟩ := s
    have h1 := ha.hrc; have h2 := ha.hseq; have h3 := ha.hmode
    simp only at hb hs hsb hq hreq hfile hseg hab hbp h1 h2 h3
    subst hb hs hsb hq hreq
    have hserve := Source.C08.C08_valid_request_served
      (⟨.busy, .WAITING_FOR_FINISHED, nr, p, some .WAITING_FOR_FINISHED, some req, [], fs, fl, pv, ind, flt⟩ : Source.SrcSt)
      req src F a b rfl hsrc hfile hseg (by omega) (by omega) hbp
    have hba : b - a = p.segmentLen := by omega
    simp only [hba, chunkPdus_one_segment _ _ _ _ hseg, List.nil_append] at hserve
    msimp [Source.stateMachine, Source.checkInsertedPacket, Pdu.hdr, ha.hdir, ha.hsrc, h1, ha.hdst, h2,
      Pdu.kind, Route.getPacketDestination, h3, Source.fsmNonIdle,
      Source.fsmAdvancementAfterPacketsWereSent, Source.fsmFromSendingFileData, Source.fsmFromSendingEof,
      Source.fsmFromWaitingForEofAck,
      Source.fsmFromWaitingForFinished, Source.handleWaitForFinish, Source.transmissionMode,
      Source.handleRetransmission, Source.handleSegmentReqs, hserve, Source.modP, Source.getP, Source.addPacket,
      Source.fsmFromNoticeOfCompletion, retransS]

/-- the receiver called at each of the given times, its queue retrieved after each call -/
def nakRounds (cfg : LocalCfg) : List Nat → DestSt → Option (List Pdu × DestSt)
  | [], d => some ([], d)
  | t :: ts, d =>
    match stateMachine ⟨cfg, t⟩ none d with
    | .error _ _ => none
    | .ok _ d' =>
      match nakRounds cfg ts (drained d') with
      | none => none
      | some (out, d'') => some (d'.queue ++ out, d'')

/-- **Any number of NAK timer expiries below the limit**: each re-issues exactly the same NAK PDU; the
receiver keeps waiting for exactly the same bytes; file, fault callbacks and indications unchanged -/
theorem C03_nak_expiries (cfg : LocalCfg) (dst : String) (F crc : List UInt8) (a b : Nat)
    (rc : RemoteCfg) (t : Tid) (cks : Nat) (conf : Hdr) (G : List UInt8) (m maxSegs : Nat)
    (hmax : maxSegReqs rc.maxPkt conf = some maxSegs) (hms : 1 ≤ maxSegs) :
    ∀ (times : List Nat) (d : DestSt) (tm : Timer),
      Waiting d dst F crc a b rc t cks conf tm G m → C04.Expiring tm.timeout tm.start times →
      d.p.nakCounter + times.length < rc.nakLim →
      ∃ d', nakRounds cfg times d =
          some (List.replicate times.length (mkNak conf 0 F.length [(a, b)]), d') ∧
        Waiting d' dst F crc a b rc t cks conf ⟨C04.lastOr tm.start times, tm.timeout⟩ G m ∧
        d'.fs = d.fs ∧ d'.flts = d.flts ∧ d'.inds = d.inds := by
  intro times
  induction times with
  | nil =>
    intro d tm hr _ _
    exact ⟨d, rfl, by simpa [C04.lastOr] using hr, rfl, rfl, rfl⟩
  | cons x xs ih =>
    intro d tm hr hexp hlim
    simp only [C04.Expiring] at hexp
    simp only [List.length_cons] at hlim
    obtain ⟨hcall, hW⟩ := C03_nak_expiry_call ⟨cfg, x⟩ d dst F crc a b rc t cks conf tm G m maxSegs hr hmax hms
      (by simp [Timer.timedOut]; exact hexp.1) (by omega)
    obtain ⟨d', hrest, hW', hfs, hfl, hin⟩ := ih (drained (afterNakExpiry d x tm F a b)) ⟨x, tm.timeout⟩ hW hexp.2
      (by simp only [drained, afterNakExpiry, nakExpP]; omega)
    refine ⟨d', ?_, ?_, ?_, ?_, ?_⟩
    · simp only [nakRounds, hcall, hrest]
      simp [afterNakExpiry, hr.hconf, List.replicate_succ]
    · simpa [C04.lastOr] using hW'
    · rw [hfs]; rfl
    · rw [hfl]; rfl
    · rw [hin]; rfl

/-- **Recovery, from the state in which the receiver waits for the bytes `[a, b)`.**  The sender has
sent everything; the receiver has everything but one full segment and has asked for it.  A NAK for
that segment reaches the sender: it answers with exactly the original File Data PDU; the receiver
fills the hole, verifies and emits the Finished PDU; the sender — in its retransmission step —
records and acknowledges it; both go idle. -/
theorem C03_recovery_from_waiting (cfgS cfgD : LocalCfg) (sW : Source.SrcSt) (dW : DestSt) (req : Source.PutReq)
    (src dst : String) (F crc : List UInt8) (seg a b : Nat) (conf : Hdr) (rcS rcD : RemoteCfg) (tid : Tid)
    (cksN : Nat) (tm : Timer) (t1 t2 t3 t4 t5 : Nat)
    (hS : SentAllS sW req src F seg conf rcS tid)
    (hstep : sW.step = .WAITING_FOR_FINISHED ∨
      (sW.step = .RETRANSMITTING ∧ sW.stepBefore = some .WAITING_FOR_FINISHED))
    (hW : Waiting dW dst F crc a b rcD ⟨conf.src, conf.seq⟩ cksN
      ⟨.toSend, conf.mode, conf.crc, conf.large, conf.src, conf.dst, conf.seq⟩ tm (holeFile F a b F.length) F.length)
    (ha : ∀ t, AdmissibleA ⟨cfgD, t⟩ rcD { conf with dir := .toRecv })
    (hsrcv : conf.src.val = cfgS.entityId.val) (hdstv : conf.dst.val = rcS.entityId.val)
    (hseg0 : 0 < seg) (hab : b = a + seg) (hbF : b ≤ F.length) (hackD : rcD.ackMs ≠ 0)
    (hver : cksN = 15 ∨ ∀ fs : Fs, fs.get dst = some (.file F) →
      Fs.calcChecksum fs (Checksum.CksType.ofNat cksN) dst F.length 4096 = .ok crc) :
    let cd : Hdr := ⟨.toSend, conf.mode, conf.crc, conf.large, conf.src, conf.dst, conf.seq⟩
    let fpOk : FinishedParams := ⟨ccNoError, dcComplete, fsRetained, none⟩
    let lost := Source.mkFd conf a ((F.drop a).take seg)
    ∃ s5 d7 s6 d8 s7,
      Source.stateMachine ⟨cfgS, t1⟩ (some (.nak cd 0 F.length [(a, b)])) sW = .ok () s5 ∧ s5.queue = [lost] ∧
      Dest.stateMachine ⟨cfgD, t2⟩ (some lost) dW = .ok () d7 ∧ d7.queue = [.fin cd fpOk] ∧
      Source.stateMachine ⟨cfgS, t3⟩ (some (.fin cd fpOk)) (Source.C07.drained s5) = .ok () s6 ∧
      s6.queue = [Source.mkAck conf dtFinished ccNoError tsActive] ∧
      Dest.stateMachine ⟨cfgD, t4⟩ (some (Source.mkAck conf dtFinished ccNoError tsActive)) (drained d7) = .ok () d8 ∧
      Source.stateMachine ⟨cfgS, t5⟩ none (Source.C07.drained s6) = .ok () s7 ∧
      s7.state = .idle ∧ d8.state = .idle ∧ s7.queue = [] ∧ d8.queue = [] ∧
      d8.fs.get dst = some (.file F) ∧ (∀ q, q ≠ dst → d8.fs.get q = dW.fs.get q) ∧ s7.fs = sW.fs ∧
      d8.flts = dW.flts ∧ s7.flts = sW.flts ∧
      s7.inds.filter isFinished = sW.inds.filter isFinished ++
        (if cfgS.indFinished then [.finished (some tid) fpOk] else []) ∧
      d8.inds.filter isFinished = dW.inds.filter isFinished ++
        (if cfgD.indFinished then [.finished (some ⟨conf.src, conf.seq⟩) fpOk] else []) := by
  intro cd fpOk lost
  have hmodeS : conf.mode = .ack := hW.hmode
  have hab' : a < b := by omega
  have hadm : ∀ t (s' : Source.SrcSt), s'.p = sW.p → AdmissibleS ⟨cfgS, t⟩ s' rcS cd := fun t s' hp =>
    { hdir := rfl, hsrc := hsrcv, hrc := by rw [hp]; exact hS.hrc, hdst := hdstv,
      hseq := by rw [hp, hS.hconf], hmode := by rw [hp, hS.hconf]; exact hmodeS }
  have h5 := C03_sender_serves_request_any ⟨cfgS, t1⟩ sW rcS cd req src F a b 0 F.length (hadm t1 sW rfl) hS.hbusy hstep
    hS.hqueue hS.hreq hS.hsrc hS.hfile (by rw [hS.hseg]; exact hseg0) (by rw [hS.hseg]; exact hab)
    (by rw [hS.hprog]; exact hbF)
  rw [hS.hseg, hS.hconf] at h5
  have hret := C03_retransmission_completes ⟨cfgD, t2⟩ dW dst F crc a b rcD _ cksN _ { conf with dir := .toRecv } tm _ _ hW
    (ha t2) hab' hbF hackD (write_fills_hole F a b hab' hbF) (by omega) hver
  have hba : b - a = seg := by omega
  rw [hba] at hret
  have h6 := C03_sender_finished_after_retransmission ⟨cfgS, t3⟩ (Source.C07.drained (retransS sW [lost])) rcS cd
    fpOk req (hadm t3 _ rfl) hS.hbusy rfl rfl rfl hS.hreq
  have hfa := C02_finished_acked ⟨cfgD, t4⟩
    (drained (afterRetransmission ⟨cfgD, t2⟩ dW dst F a b ⟨conf.src, conf.seq⟩ rcD tm))
    rcD { conf with dir := .toRecv } ccNoError tsActive (ha t4) hW.hbusy rfl rfl
    (by simp [drained, afterRetransmission, doneP, hW.hconf]; exact hmodeS)
  have h7 := C02_source_completion ⟨cfgS, t5⟩
    (Source.C07.drained (afterFinS (waitFinS (Source.C07.drained (retransS sW [lost]))) fpOk)) fpOk tid req
    hS.hbusy rfl rfl hS.hreq rfl hS.htid
  refine ⟨_, _, _, idleOf (drained (afterRetransmission ⟨cfgD, t2⟩ dW dst F a b ⟨conf.src, conf.seq⟩ rcD tm)), _,
    h5, rfl, hret, ?_, h6, ?_, ?_, h7, rfl, rfl, rfl, rfl, ?_, ?_, rfl, rfl, rfl, ?_, ?_⟩
  · simp [afterRetransmission, Dest.mkFin, hW.hconf, cd, fpOk]
  · show [Source.mkAck sW.p.conf dtFinished fpOk.cond tsActive] = _
    rw [hS.hconf]
  · simpa [Source.mkAck, dtFinished, idleOf] using hfa
  · simp [idleOf, drained, afterRetransmission, Fs.C17.get_set_same]
  · intro q hq'
    simp only [idleOf, drained, afterRetransmission]
    rw [Fs.C17.get_set_other _ _ _ _ hq']
  · simp only [Source.C07.drained, afterFinS, waitFinS, retransS, List.filter_append]
    cases cfgS.indFinished <;> simp [isFinished, fpOk]
  · simp only [idleOf, drained, afterRetransmission, List.filter_append]
    cases cfgD.indSegRecv <;> cases cfgD.indFinished <;> simp [isFinished, fpOk]

open Source.C07 Source.C19 in
/-- **Both models up to the NAK, one File Data PDU lost.**  The sender's run; all PDUs but tile `j`
reach the receiver; the ACK (EOF) goes back; the receiver's next call queues the NAK for exactly the
lost range.  The sender then waits for the Finished PDU, the receiver for the bytes of tile `j`. -/
theorem C03_prefix_single_loss (envS : Source.Env) (envD : Dest.Env) (s : Source.SrcSt) (d0 : Dest.DestSt)
    (req : Source.PutReq) (rcS rcD : RemoteCfg) (src dst : String) (F crc : List UInt8) (seg j r maxSegs : Nat)
    (now2 nowD2 : Nat)
    (hst : s.state = .busy) (hstep : s.step = .IDLE) (hq : s.queue = []) (hreq : s.putReq = some req)
    (hpmo : s.p.metadataOnly = false) (hsrc : req.src = some src) (hdst : req.dst = some dst)
    (hfile : s.fs.get src = some (.file F)) (hF : F ≠ []) (hprog : s.p.progress = 0)
    (hrc : s.p.remoteCfg = some rcS) (hrcid : rcS.entityId.val = req.destId.val)
    (hbits : s.prov.bits = 8 ∨ s.prov.bits = 16 ∨ s.prov.bits = 32)
    (hseg : Source.segLenOf rcS (startConf envS req rcS s (decide (F.length > 4294967295))) = some seg)
    (hseg0 : 0 < seg) (hmode : s.p.conf.mode = .ack) (hct : s.p.checkTimer = none)
    (hk : (j + 1 + r) * seg < F.length ∧ F.length ≤ (j + 2 + r) * seg)
    (hcks : Checksum.calcChecksum (Checksum.CksType.ofNat rcS.cks) F F.length seg = .ok crc)
    (hnull : Checksum.CksType.ofNat rcS.cks ≠ .null) (hlen : crc.length = 4) (hack : rcS.ackMs ≠ 0)
    (ha : AdmissibleA envD rcD { startConf envS req rcS s (decide (F.length > 4294967295)) with dir := .toRecv })
    (hnak : rcD.nakMs ≠ 0) (himm : rcD.imm = false)
    (hmaxs : maxSegReqs rcD.maxPkt
      (let c := startConf envS req rcS s (decide (F.length > 4294967295))
       ⟨.toSend, c.mode, c.crc, c.large, c.src, c.dst, c.seq⟩) = some maxSegs) (hmax1 : 1 ≤ maxSegs)
    (hidle : d0.state = .idle) (hdq : d0.queue = []) (hdr : d0.numReady = 0) (hrej : d0.rejects = [])
    (hfl : d0.flts = []) (hnd : Fs.isDir d0.fs dst = false)
    (hok : (∃ old, d0.fs.get dst = some (.file old)) ∨
           (Fs.exists' d0.fs dst = false ∧ Fs.parentIsDir d0.fs dst = true)) :
    let conf := startConf envS req rcS s (decide (F.length > 4294967295))
    let cd : Hdr := ⟨.toSend, conf.mode, conf.crc, conf.large, conf.src, conf.dst, conf.seq⟩
    let tid : Tid := ⟨envS.cfg.entityId, ⟨s.prov.next, s.prov.bits / 8⟩⟩
    ∃ pdus s3 d5 s4 d6,
      rounds envS (1 + (j + 2 + r) + 1) s = some (pdus, s3) ∧ pdus[j + 1]? = some (tile conf F seg 0 j) ∧
      feedPdus envD (pdus.eraseIdx (j + 1)) d0 = some d5 ∧ d5.queue = [.ack cd dtEof ccNoError tsActive] ∧
      Source.stateMachine ⟨envS.cfg, now2⟩ (some (.ack cd dtEof ccNoError tsActive)) s3 = .ok () s4 ∧
      Dest.stateMachine ⟨envD.cfg, nowD2⟩ none (drained d5) = .ok () d6 ∧
      d6.queue = [.nak cd 0 F.length [(j * seg, (j + 1) * seg)]] ∧
      WaitingFinS s4 req src F seg conf rcS tid ∧
      s4.fs = s.fs ∧ s4.flts = s.flts ∧ s4.inds.filter isFinished = s.inds.filter isFinished ∧
      Waiting (drained d6) dst F crc (j * seg) ((j + 1) * seg) rcD ⟨conf.src, conf.seq⟩ rcS.cks cd ⟨nowD2, rcD.nakMs⟩
        (holeFile F (j * seg) ((j + 1) * seg) F.length) F.length ∧
      (∀ q, q ≠ dst → d6.fs.get q = d0.fs.get q) ∧ d6.flts = [] ∧
      d6.inds.filter isFinished = d0.inds.filter isFinished ∧ d6.p.nakCounter = 0 := by
  intro conf cd tid
  have hsrcv : conf.src.val = envS.cfg.entityId.val := by simp [conf, startConf]
  have hdstv : conf.dst.val = rcS.entityId.val := by simp [conf, startConf, hrcid]
  have hseqv : conf.seq.val = s.prov.next := by simp [conf, startConf]
  have e1 : (j + 1 + r) * seg = j * seg + seg + r * seg := by simp [Nat.add_mul]
  have e2 : (j + 2 + r) * seg = j * seg + 2 * seg + r * seg := by simp [Nat.add_mul]
  have e3 : (j + 1) * seg = j * seg + seg := by simp [Nat.add_mul]
  have hbF : (j + 1) * seg < F.length := by omega
  obtain ⟨s3, s4, hrun, h4, hW, hfs4, hfl4, hin4⟩ :=
    C03_sender_run_to_waiting envS s req rcS src dst F crc seg (j + 2 + r) cd ccNoError tsActive now2
      hst hstep hq hreq hpmo hsrc hdst hfile hF hprog hrc hbits hseg hseg0 hmode hct
      (by constructor
          · have : j + 2 + r - 1 = j + 1 + r := by omega
            rw [this]; exact hk.1
          · exact hk.2) hcks hnull hlen hack rfl hsrcv hdstv hseqv
  have hchunks_ne : ∀ c ∈ (List.range j).map (fun i => (F.drop (0 + i * seg)).take seg), c ≠ [] := by
    intro c hc
    simp only [List.mem_map, List.mem_range] at hc
    obtain ⟨i, hi, rfl⟩ := hc
    intro h0
    have := congrArg List.length h0
    simp [List.length_take, List.length_drop] at this
    have : i * seg ≤ j * seg := Nat.mul_le_mul_right _ (by omega)
    omega
  obtain ⟨d1, d2, d3, d4, d5, d6, hmd, hfeed, hgap, hfsg, heof, hq5, hdef, hq6, hWd, hother6, hfl6, hin6, hnc6⟩ :=
    C03_receiver_prefix_single_loss envD ⟨envD.cfg, nowD2⟩ d0
      { conf with dir := .toRecv } rcD s.p.closure rcS.cks src dst
      (some (req.msgs.getD [])) F crc ((List.range j).map (fun i => (F.drop (0 + i * seg)).take seg))
      (j * seg) ((j + 1) * seg) seg r maxSegs
      ha hnak himm hmaxs hmax1 hidle hdq hdr hrej hfl hnd hok
      (chunks_flatten F seg j) hchunks_ne hseg0 e3 hbF
      (by rcases Nat.eq_zero_or_pos r with h0 | h0
          · exact Or.inr h0
          · left
            have hr : r = (r - 1) + 1 := by omega
            have : r * seg = (r - 1) * seg + seg := by rw [hr]; simp [Nat.add_mul]
            have hm : min ((j + 1) * seg + seg) F.length = (j + 1) * seg + seg := by
              have : seg ≤ r * seg := by rw [this]; omega
              omega
            rw [hm]; omega)
      (by have : min ((j + 1) * seg + seg) F.length ≤ (j + 1) * seg + seg := Nat.min_le_left _ _
          by_cases hc : (j + 1) * seg + seg ≤ F.length
          · rw [Nat.min_eq_left hc]; omega
          · have h2 : min ((j + 1) * seg + seg) F.length = F.length := by omega
            rw [h2]; omega)
  have hdeliv : feedPdus envD
      (([Source.mkMd conf s.p.closure rcS.cks F.length (some src) (some dst) (some (req.msgs.getD []))] ++
        (List.range (j + 2 + r)).map (tile conf F seg 0) ++ [Source.mkEof conf ccNoError crc F.length]).eraseIdx (j + 1))
      d0 = some d5 := by
    have hlen : j < ((List.range (j + 2 + r)).map (tile conf F seg 0)).length := by simp; omega
    rw [List.append_assoc, List.singleton_append, List.eraseIdx_cons_succ,
      List.eraseIdx_append_of_lt_length hlen]
    have hjr : j + 2 + r = j + 1 + (1 + r) := by omega
    rw [hjr, map_range_eraseIdx, Nat.add_comm 1 r, range_succ_map]
    have ht1 : tile conf F seg 0 (j + 1 + 0) =
        .fd { conf with dir := .toRecv } ((j + 1) * seg) ((F.drop ((j + 1) * seg)).take seg) := by
      simp [tile, Source.mkFd]
    have hrest : (List.range r).map (fun i => tile conf F seg 0 (j + 1 + (i + 1))) =
        (List.range r).map (tile conf F seg (min ((j + 1) * seg + seg) F.length)) := by
      rcases Nat.eq_zero_or_pos r with h0 | h0
      · subst h0; rfl
      · have hr : r = (r - 1) + 1 := by omega
        have : r * seg = (r - 1) * seg + seg := by rw [hr]; simp [Nat.add_mul]
        have hm : min ((j + 1) * seg + seg) F.length = (j + 1) * seg + seg := by
          have : seg ≤ r * seg := by rw [this]; omega
          omega
        rw [hm]
        apply List.map_congr_left
        intro i _
        have : 0 + (j + 1 + (i + 1)) * seg = (j + 1) * seg + seg + i * seg := by simp [Nat.add_mul]; omega
        simp [tile, this]
    rw [ht1, hrest]
    simp only [List.cons_append, feedPdus, Source.mkMd, hmd]
    rw [feedPdus_append, feedPdus_append, feedPdus_tiles_eq_feed envD conf F seg j 0 d1 (by omega), hfeed]
    simp only [Option.bind, feedPdus, hgap]
    rw [feedPdus_tiles_eq_feedSeg envD conf F seg r _ d3
      (by rcases Nat.eq_zero_or_pos r with h0 | h0
          · exact Or.inl h0
          · right
            have hr : r = (r - 1) + 1 := by omega
            have : r * seg = (r - 1) * seg + seg := by rw [hr]; simp [Nat.add_mul]
            have : min ((j + 1) * seg + seg) F.length ≤ (j + 1) * seg + seg := Nat.min_le_left _ _
            omega), hfsg]
    simp only [Option.bind, feedPdus, Source.mkEof, heof]
  refine ⟨_, s3, d5, s4, d6, hrun, ?_, hdeliv, ?_, h4, hdef, ?_, hW, hfs4, hfl4, hin4, hWd, hother6, hfl6, hin6, hnc6⟩
  · rw [List.append_assoc, List.singleton_append, List.getElem?_cons_succ,
      List.getElem?_append_left (by simp; omega)]
    rw [List.getElem?_map, List.getElem?_range (by omega)]
    rfl
  · simpa [Dest.mkAck, dtEof, dtFinished, cd] using hq5
  · simpa [Dest.mkNak, cd] using hq6

open Source.C07 Source.C19 in
/-- **End to end with one File Data PDU lost and then any number of NAKs lost (below the NAK
limit): the two models composed.**  After `C03_prefix_single_loss` the first NAK and the NAKs
re-issued at the expiry times `times` all get lost (`times.length + 1 < nakLim`... precisely: the
activity counter stays below the limit); each expiry re-issues exactly the same NAK.  The last one
arrives; recovery proceeds as in `C03_recovery_from_waiting`. -/
theorem C03_end_to_end_naks_lost (envS : Source.Env) (envD : Dest.Env) (s : Source.SrcSt) (d0 : Dest.DestSt)
    (req : Source.PutReq) (rcS rcD : RemoteCfg) (src dst : String) (F crc : List UInt8) (seg j r maxSegs : Nat)
    (now2 nowD2 t1 t2 t3 t4 t5 : Nat) (times : List Nat)
    (hst : s.state = .busy) (hstep : s.step = .IDLE) (hq : s.queue = []) (hreq : s.putReq = some req)
    (hpmo : s.p.metadataOnly = false) (hsrc : req.src = some src) (hdst : req.dst = some dst)
    (hfile : s.fs.get src = some (.file F)) (hF : F ≠ []) (hprog : s.p.progress = 0)
    (hrc : s.p.remoteCfg = some rcS) (hrcid : rcS.entityId.val = req.destId.val)
    (hbits : s.prov.bits = 8 ∨ s.prov.bits = 16 ∨ s.prov.bits = 32)
    (hseg : Source.segLenOf rcS (startConf envS req rcS s (decide (F.length > 4294967295))) = some seg)
    (hseg0 : 0 < seg) (hmode : s.p.conf.mode = .ack) (hct : s.p.checkTimer = none)
    (hk : (j + 1 + r) * seg < F.length ∧ F.length ≤ (j + 2 + r) * seg)
    (hcks : Checksum.calcChecksum (Checksum.CksType.ofNat rcS.cks) F F.length seg = .ok crc)
    (hnull : Checksum.CksType.ofNat rcS.cks ≠ .null) (hlen : crc.length = 4) (hack : rcS.ackMs ≠ 0)
    (ha : AdmissibleA envD rcD { startConf envS req rcS s (decide (F.length > 4294967295)) with dir := .toRecv })
    (hackD : rcD.ackMs ≠ 0) (hnak : rcD.nakMs ≠ 0) (himm : rcD.imm = false)
    (hmaxs : maxSegReqs rcD.maxPkt
      (let c := startConf envS req rcS s (decide (F.length > 4294967295))
       ⟨.toSend, c.mode, c.crc, c.large, c.src, c.dst, c.seq⟩) = some maxSegs) (hmax1 : 1 ≤ maxSegs)
    (hexp : C04.Expiring rcD.nakMs nowD2 times) (hlim : times.length < rcD.nakLim)
    (hidle : d0.state = .idle) (hdq : d0.queue = []) (hdr : d0.numReady = 0) (hrej : d0.rejects = [])
    (hfl : d0.flts = []) (hnd : Fs.isDir d0.fs dst = false)
    (hok : (∃ old, d0.fs.get dst = some (.file old)) ∨
           (Fs.exists' d0.fs dst = false ∧ Fs.parentIsDir d0.fs dst = true)) :
    let conf := startConf envS req rcS s (decide (F.length > 4294967295))
    let cd : Hdr := ⟨.toSend, conf.mode, conf.crc, conf.large, conf.src, conf.dst, conf.seq⟩
    let fpOk : FinishedParams := ⟨ccNoError, dcComplete, fsRetained, none⟩
    let nak : Pdu := .nak cd 0 F.length [(j * seg, (j + 1) * seg)]
    let lost := tile conf F seg 0 j
    ∃ pdus s3 d5 s4 d6 dW s5 d7 s6 d8 s7,
      rounds envS (1 + (j + 2 + r) + 1) s = some (pdus, s3) ∧ pdus[j + 1]? = some lost ∧
      feedPdus envD (pdus.eraseIdx (j + 1)) d0 = some d5 ∧ d5.queue = [.ack cd dtEof ccNoError tsActive] ∧
      Source.stateMachine ⟨envS.cfg, now2⟩ (some (.ack cd dtEof ccNoError tsActive)) s3 = .ok () s4 ∧
      Dest.stateMachine ⟨envD.cfg, nowD2⟩ none (drained d5) = .ok () d6 ∧ d6.queue = [nak] ∧
      -- every expiry re-issues the same NAK (all but the last are lost; with `times = []` none is)
      nakRounds envD.cfg times (drained d6) = some (List.replicate times.length nak, dW) ∧
      Source.stateMachine ⟨envS.cfg, t1⟩ (some nak) s4 = .ok () s5 ∧ s5.queue = [lost] ∧
      Dest.stateMachine ⟨envD.cfg, t2⟩ (some lost) dW = .ok () d7 ∧ d7.queue = [.fin cd fpOk] ∧
      Source.stateMachine ⟨envS.cfg, t3⟩ (some (.fin cd fpOk)) (Source.C07.drained s5) = .ok () s6 ∧
      s6.queue = [Source.mkAck conf dtFinished ccNoError tsActive] ∧
      Dest.stateMachine ⟨envD.cfg, t4⟩ (some (Source.mkAck conf dtFinished ccNoError tsActive)) (drained d7) = .ok () d8 ∧
      Source.stateMachine ⟨envS.cfg, t5⟩ none (Source.C07.drained s6) = .ok () s7 ∧
      s7.state = .idle ∧ d8.state = .idle ∧ s7.queue = [] ∧ d8.queue = [] ∧
      d8.fs.get dst = some (.file F) ∧ (∀ q, q ≠ dst → d8.fs.get q = d0.fs.get q) ∧ s7.fs = s.fs ∧
      d8.flts = [] ∧ s7.flts = s.flts ∧
      s7.inds.filter isFinished = s.inds.filter isFinished ++
        (if envS.cfg.indFinished then [.finished (some ⟨envS.cfg.entityId, ⟨s.prov.next, s.prov.bits / 8⟩⟩) fpOk]
         else []) ∧
      d8.inds.filter isFinished = d0.inds.filter isFinished ++
        (if envD.cfg.indFinished then [.finished (some ⟨conf.src, conf.seq⟩) fpOk] else []) := by
  intro conf cd fpOk nak lost
  have hsrcv : conf.src.val = envS.cfg.entityId.val := by simp [conf, startConf]
  have hdstv : conf.dst.val = rcS.entityId.val := by simp [conf, startConf, hrcid]
  have e3 : (j + 1) * seg = j * seg + seg := by simp [Nat.add_mul]
  have e1 : (j + 1 + r) * seg = j * seg + seg + r * seg := by simp [Nat.add_mul]
  obtain ⟨pdus, s3, d5, s4, d6, hrun, hlost, hdeliv, hq5, h4, hdef, hq6, hW, hfs4, hfl4, hin4, hWd, hother6, hfl6, hin6, hnc6⟩ :=
    C03_prefix_single_loss envS envD s d0 req rcS rcD src dst F crc seg j r maxSegs now2 nowD2
      hst hstep hq hreq hpmo hsrc hdst hfile hF hprog hrc hrcid hbits hseg hseg0 hmode hct hk hcks hnull hlen hack ha
      hnak himm hmaxs hmax1 hidle hdq hdr hrej hfl hnd hok
  have hctr0 : (drained d6).p.nakCounter = 0 := hnc6
  obtain ⟨dW, hrounds, hWW, hfsW, hflW, hinW⟩ := C03_nak_expiries envD.cfg dst F crc (j * seg) ((j + 1) * seg) rcD
    ⟨conf.src, conf.seq⟩ rcS.cks cd (holeFile F (j * seg) ((j + 1) * seg) F.length) F.length maxSegs hmaxs hmax1
    times (drained d6) ⟨nowD2, rcD.nakMs⟩ hWd hexp (by rw [hctr0]; omega)
  have hcrc : rcS.cks = 15 ∨ ∀ fs : Fs, fs.get dst = some (.file F) →
      Fs.calcChecksum fs (Checksum.CksType.ofNat rcS.cks) dst F.length 4096 = .ok crc := by
    right
    intro fs hf
    have := Checksum.C09.C09_chunk_length_irrelevant (Checksum.CksType.ofNat rcS.cks) F F.length seg 4096
      (by omega) (by omega)
    simp [Fs.calcChecksum, hnull, hf, ← this, hcks]
  obtain ⟨s5, d7, s6, d8, s7, h5, hq5', h7, hq7, h6, hq6', h8, h9, hi7, hi8, hqs7, hqd8, hfile8, hother8, hfs7, hfl8, hfl7,
      hin7, hin8⟩ :=
    C03_recovery_from_waiting envS.cfg envD.cfg s4 dW req src dst F crc seg (j * seg) ((j + 1) * seg) conf rcS rcD
      ⟨envS.cfg.entityId, ⟨s.prov.next, s.prov.bits / 8⟩⟩ rcS.cks _ t1 t2 t3 t4 t5 hW.sentAll (Or.inl hW.hstep) hWW
      (fun t => ⟨rfl, ha.hdst, ha.hsrc, ha.hmode⟩) hsrcv hdstv hseg0 e3 (by omega) hackD hcrc
  have hl : Source.mkFd conf (j * seg) ((F.drop (j * seg)).take seg) = lost := by simp [lost, tile]
  rw [hl] at hq5' h7
  refine ⟨pdus, s3, d5, s4, d6, dW, s5, d7, s6, d8, s7, hrun, hlost, hdeliv, hq5, h4, hdef, hq6, hrounds, h5, hq5', h7, hq7,
    h6, hq6', h8, h9, hi7, hi8, hqs7, hqd8, hfile8, ?_, ?_, ?_, ?_, ?_, ?_⟩
  · intro q hq'
    rw [hother8 q hq', hfsW]; exact hother6 q hq'
  · rw [hfs7, hfs4]
  · rw [hfl8, hflW]; exact hfl6
  · rw [hfl7, hfl4]
  · rw [hin7, hin4]
  · rw [hin8, hinW]; show d6.inds.filter isFinished ++ _ = _
    rw [hin6]

open Source.C07 Source.C19 in
/-- **End to end with one File Data PDU lost and its retransmission lost again: the two models
composed.**  After `C03_prefix_single_loss` the NAK reaches the sender, which re-sends the lost PDU —
and that one is lost too.  The receiver's NAK timer expires (`times`, fewer expiries than the NAK
limit), each expiry re-issues exactly the same NAK; the last one reaches the sender, which is still in
its retransmission step, resumes and answers again with exactly the lost PDU; recovery proceeds as
in `C03_recovery_from_waiting`. -/
theorem C03_end_to_end_retransmission_lost (envS : Source.Env) (envD : Dest.Env) (s : Source.SrcSt) (d0 : Dest.DestSt)
    (req : Source.PutReq) (rcS rcD : RemoteCfg) (src dst : String) (F crc : List UInt8) (seg j r maxSegs : Nat)
    (now2 nowD2 t0 t1 t2 t3 t4 t5 : Nat) (times : List Nat)
    (hst : s.state = .busy) (hstep : s.step = .IDLE) (hq : s.queue = []) (hreq : s.putReq = some req)
    (hpmo : s.p.metadataOnly = false) (hsrc : req.src = some src) (hdst : req.dst = some dst)
    (hfile : s.fs.get src = some (.file F)) (hF : F ≠ []) (hprog : s.p.progress = 0)
    (hrc : s.p.remoteCfg = some rcS) (hrcid : rcS.entityId.val = req.destId.val)
    (hbits : s.prov.bits = 8 ∨ s.prov.bits = 16 ∨ s.prov.bits = 32)
    (hseg : Source.segLenOf rcS (startConf envS req rcS s (decide (F.length > 4294967295))) = some seg)
    (hseg0 : 0 < seg) (hmode : s.p.conf.mode = .ack) (hct : s.p.checkTimer = none)
    (hk : (j + 1 + r) * seg < F.length ∧ F.length ≤ (j + 2 + r) * seg)
    (hcks : Checksum.calcChecksum (Checksum.CksType.ofNat rcS.cks) F F.length seg = .ok crc)
    (hnull : Checksum.CksType.ofNat rcS.cks ≠ .null) (hlen : crc.length = 4) (hack : rcS.ackMs ≠ 0)
    (ha : AdmissibleA envD rcD { startConf envS req rcS s (decide (F.length > 4294967295)) with dir := .toRecv })
    (hackD : rcD.ackMs ≠ 0) (hnak : rcD.nakMs ≠ 0) (himm : rcD.imm = false)
    (hmaxs : maxSegReqs rcD.maxPkt
      (let c := startConf envS req rcS s (decide (F.length > 4294967295))
       ⟨.toSend, c.mode, c.crc, c.large, c.src, c.dst, c.seq⟩) = some maxSegs) (hmax1 : 1 ≤ maxSegs)
    (hexp : C04.Expiring rcD.nakMs nowD2 times) (hlim : times.length < rcD.nakLim)
    (hidle : d0.state = .idle) (hdq : d0.queue = []) (hdr : d0.numReady = 0) (hrej : d0.rejects = [])
    (hfl : d0.flts = []) (hnd : Fs.isDir d0.fs dst = false)
    (hok : (∃ old, d0.fs.get dst = some (.file old)) ∨
           (Fs.exists' d0.fs dst = false ∧ Fs.parentIsDir d0.fs dst = true)) :
    let conf := startConf envS req rcS s (decide (F.length > 4294967295))
    let cd : Hdr := ⟨.toSend, conf.mode, conf.crc, conf.large, conf.src, conf.dst, conf.seq⟩
    let fpOk : FinishedParams := ⟨ccNoError, dcComplete, fsRetained, none⟩
    let nak : Pdu := .nak cd 0 F.length [(j * seg, (j + 1) * seg)]
    let lost := tile conf F seg 0 j
    ∃ pdus s3 d5 s4 d6 s5a dW s5 d7 s6 d8 s7,
      rounds envS (1 + (j + 2 + r) + 1) s = some (pdus, s3) ∧ pdus[j + 1]? = some lost ∧
      feedPdus envD (pdus.eraseIdx (j + 1)) d0 = some d5 ∧ d5.queue = [.ack cd dtEof ccNoError tsActive] ∧
      Source.stateMachine ⟨envS.cfg, now2⟩ (some (.ack cd dtEof ccNoError tsActive)) s3 = .ok () s4 ∧
      Dest.stateMachine ⟨envD.cfg, nowD2⟩ none (drained d5) = .ok () d6 ∧ d6.queue = [nak] ∧
      -- the NAK is served, the answer is lost; every expiry re-issues the same NAK; the last is served again
      Source.stateMachine ⟨envS.cfg, t0⟩ (some nak) s4 = .ok () s5a ∧ s5a.queue = [lost] ∧
      nakRounds envD.cfg times (drained d6) = some (List.replicate times.length nak, dW) ∧
      Source.stateMachine ⟨envS.cfg, t1⟩ (some nak) (Source.C07.drained s5a) = .ok () s5 ∧ s5.queue = [lost] ∧
      Dest.stateMachine ⟨envD.cfg, t2⟩ (some lost) dW = .ok () d7 ∧ d7.queue = [.fin cd fpOk] ∧
      Source.stateMachine ⟨envS.cfg, t3⟩ (some (.fin cd fpOk)) (Source.C07.drained s5) = .ok () s6 ∧
      s6.queue = [Source.mkAck conf dtFinished ccNoError tsActive] ∧
      Dest.stateMachine ⟨envD.cfg, t4⟩ (some (Source.mkAck conf dtFinished ccNoError tsActive)) (drained d7) = .ok () d8 ∧
      Source.stateMachine ⟨envS.cfg, t5⟩ none (Source.C07.drained s6) = .ok () s7 ∧
      s7.state = .idle ∧ d8.state = .idle ∧ s7.queue = [] ∧ d8.queue = [] ∧
      d8.fs.get dst = some (.file F) ∧ (∀ q, q ≠ dst → d8.fs.get q = d0.fs.get q) ∧ s7.fs = s.fs ∧
      d8.flts = [] ∧ s7.flts = s.flts ∧
      s7.inds.filter isFinished = s.inds.filter isFinished ++
        (if envS.cfg.indFinished then [.finished (some ⟨envS.cfg.entityId, ⟨s.prov.next, s.prov.bits / 8⟩⟩) fpOk]
         else []) ∧
      d8.inds.filter isFinished = d0.inds.filter isFinished ++
        (if envD.cfg.indFinished then [.finished (some ⟨conf.src, conf.seq⟩) fpOk] else []) := by
  intro conf cd fpOk nak lost
  have hsrcv : conf.src.val = envS.cfg.entityId.val := by simp [conf, startConf]
  have hdstv : conf.dst.val = rcS.entityId.val := by simp [conf, startConf, hrcid]
  have e3 : (j + 1) * seg = j * seg + seg := by simp [Nat.add_mul]
  have e1 : (j + 1 + r) * seg = j * seg + seg + r * seg := by simp [Nat.add_mul]
  obtain ⟨pdus, s3, d5, s4, d6, hrun, hlost, hdeliv, hq5, h4, hdef, hq6, hW, hfs4, hfl4, hin4, hWd, hother6, hfl6, hin6, hnc6⟩ :=
    C03_prefix_single_loss envS envD s d0 req rcS rcD src dst F crc seg j r maxSegs now2 nowD2
      hst hstep hq hreq hpmo hsrc hdst hfile hF hprog hrc hrcid hbits hseg hseg0 hmode hct hk hcks hnull hlen hack ha
      hnak himm hmaxs hmax1 hidle hdq hdr hrej hfl hnd hok
  have hctr0 : (drained d6).p.nakCounter = 0 := hnc6
  obtain ⟨dW, hrounds, hWW, hfsW, hflW, hinW⟩ := C03_nak_expiries envD.cfg dst F crc (j * seg) ((j + 1) * seg) rcD
    ⟨conf.src, conf.seq⟩ rcS.cks cd (holeFile F (j * seg) ((j + 1) * seg) F.length) F.length maxSegs hmaxs hmax1
    times (drained d6) ⟨nowD2, rcD.nakMs⟩ hWd hexp (by rw [hctr0]; omega)
  have hcrc : rcS.cks = 15 ∨ ∀ fs : Fs, fs.get dst = some (.file F) →
      Fs.calcChecksum fs (Checksum.CksType.ofNat rcS.cks) dst F.length 4096 = .ok crc := by
    right
    intro fs hf
    have := Checksum.C09.C09_chunk_length_irrelevant (Checksum.CksType.ofNat rcS.cks) F F.length seg 4096
      (by omega) (by omega)
    simp [Fs.calcChecksum, hnull, hf, ← this, hcks]
  have hl : Source.mkFd conf (j * seg) ((F.drop (j * seg)).take seg) = lost := by simp [lost, tile]
  have hadm0 : AdmissibleS ⟨envS.cfg, t0⟩ s4 rcS cd :=
    { hdir := rfl, hsrc := hsrcv, hrc := hW.hrc, hdst := hdstv,
      hseq := by rw [hW.hconf], hmode := by rw [hW.hconf]; simp [conf, startConf, hmode] }
  have h5a := C03_sender_serves_request ⟨envS.cfg, t0⟩ s4 rcS cd req src F (j * seg) ((j + 1) * seg) 0 F.length
    hadm0 hW.hbusy hW.hstep hW.hqueue hW.hreq hW.hsrc hW.hfile (by rw [hW.hseg]; exact hseg0)
    (by rw [hW.hseg]; exact e3) (by rw [hW.hprog]; omega)
  rw [hW.hseg, hW.hconf, hl] at h5a
  have hSa : SentAllS (Source.C07.drained (retransS s4 [lost])) req src F seg conf rcS
      ⟨envS.cfg.entityId, ⟨s.prov.next, s.prov.bits / 8⟩⟩ :=
    ⟨hW.hbusy, rfl, hW.hreq, hW.hsrc, hW.hfile, hW.hseg, hW.hprog, hW.hconf, hW.hrc, hW.htid⟩
  obtain ⟨s5, d7, s6, d8, s7, h5, hq5', h7, hq7, h6, hq6', h8, h9, hi7, hi8, hqs7, hqd8, hfile8, hother8, hfs7, hfl8, hfl7,
      hin7, hin8⟩ :=
    C03_recovery_from_waiting envS.cfg envD.cfg (Source.C07.drained (retransS s4 [lost])) dW req src dst F crc seg
      (j * seg) ((j + 1) * seg) conf rcS rcD
      ⟨envS.cfg.entityId, ⟨s.prov.next, s.prov.bits / 8⟩⟩ rcS.cks _ t1 t2 t3 t4 t5 hSa (Or.inr ⟨rfl, rfl⟩) hWW
      (fun t => ⟨rfl, ha.hdst, ha.hsrc, ha.hmode⟩) hsrcv hdstv hseg0 e3 (by omega) hackD hcrc
  rw [hl] at hq5' h7
  refine ⟨pdus, s3, d5, s4, d6, _, dW, s5, d7, s6, d8, s7, hrun, hlost, hdeliv, hq5, h4, hdef, hq6, h5a, rfl, hrounds, h5, hq5',
    h7, hq7,
    h6, hq6', h8, h9, hi7, hi8, hqs7, hqd8, hfile8, ?_, ?_, ?_, ?_, ?_, ?_⟩
  · intro q hq'
    rw [hother8 q hq', hfsW]; exact hother6 q hq'
  · rw [hfs7]; exact hfs4
  · rw [hfl8, hflW]; exact hfl6
  · rw [hfl7]; exact hfl4
  · rw [hin7]; show s4.inds.filter isFinished ++ _ = _
    rw [hin4]
  · rw [hin8, hinW]; show d6.inds.filter isFinished ++ _ = _
    rw [hin6]



/-! ## Immediate NAK mode: the gap is requested at once, the sender answers in the middle of its stream -/

/-- the hole written into a prefix of the file is the hole of the file, cut at `m` -/
theorem write_fills_hole_prefix (F : List UInt8) (a b m : Nat) (hab : a < b) (hbm : b ≤ m) (hm : m ≤ F.length) :
    Fs.writeBytes (holeFile F a b m) ((F.drop a).take (b - a)) a = F.take m := by
  have hl : (F.take m).length = m := by simp [List.length_take]; omega
  have h1 : holeFile F a b m = holeFile (F.take m) a b (F.take m).length := by
    simp only [holeFile, hl]
    have e1 : (F.take m).take a = F.take a := by rw [List.take_take]; congr 1; omega
    have e2 : ((F.take m).drop b).take (m - b) = (F.drop b).take (m - b) := by
      rw [List.drop_take, List.take_take]; congr 1; omega
    rw [e1, e2]
  have h2 : (F.drop a).take (b - a) = ((F.take m).drop a).take (b - a) := by
    rw [List.drop_take, List.take_take]; congr 1; omega
  rw [h1, h2]
  exact write_fills_hole (F.take m) a b hab (by omega)

/-- receiver in the middle of an acknowledged transfer, immediate NAK mode: exactly the bytes `[a, b)`
are missing and have been requested; the data up to `m` is stored behind the hole -/
structure HoleI (d : DestSt) (dst : String) (F : List UInt8) (a b m : Nat) (rc : RemoteCfg) (t : Tid)
    (cks : Nat) (conf : Hdr) : Prop where
  hbusy : d.state = .busy
  hstep : d.step = .RECEIVING_FILE_DATA
  hready : d.numReady = 0
  hqueue : d.queue = []
  hconf : d.p.conf = conf
  hmode : conf.mode = .ack
  hname : d.p.fileName = dst
  hfile : d.fs.get dst = some (.file (holeFile F a b m))
  hprog : d.p.progress = m
  hnoEof : d.p.fileSizeEof = none
  hrc : d.p.remoteCfg = some rc
  htid : d.p.tid = some t
  hrej : d.rejects = []
  hcks : d.p.cksType = cks
  hcancel : d.p.canceled = false
  hmo : d.p.metadataOnly = false
  hflts : d.flts = []
  hfin : d.p.fin = ⟨ccNoError, dcIncomplete, fsRetained, none⟩
  htrk : d.p.trk = [(a, b)]
  hlastE : d.p.lastEnd = m
  hlastS : d.p.lastStart = b
  hmm : d.p.metadataMissing = false
  hdef : d.p.deferredActive = false

/-- state after the first tile behind the hole, immediate NAK mode: the NAK is queued -/
def afterGapI (d : DestSt) (dst : String) (F : List UInt8) (a b m n : Nat) (env : Env) (t : Tid) : DestSt :=
  { d with fs := d.fs.set dst (.file (holeFile F a b m)), p := gapP d.p a b m,
           queue := [mkNak d.p.conf 0 m [(a, b)]], numReady := 1,
           inds := d.inds ++ (if env.cfg.indSegRecv then [.segRecv (some t) b n] else []) }

/-- **The tile after a lost one, immediate NAK mode**: the gap `[a, b)` is recorded as lost and
requested at once — exactly one NAK PDU, scope `(0, end of this tile)`, the single request `(a, b)` -/
theorem C03_gap_tile_immediate (env : Env) (d : DestSt) (dst : String) (F : List UInt8) (a b n : Nat)
    (rc : RemoteCfg) (t : Tid) (cks : Nat) (conf h : Hdr) (hr : ReceivingA d dst (F.take a) rc t cks conf)
    (ha : AdmissibleA env rc h) (hab : a < b) (hb : b < F.length) (hn : 0 < n) (himm : rc.imm = true) :
    stateMachine env (some (.fd h b ((F.drop b).take n))) d =
      .ok () (afterGapI d dst F a b (min (b + n) F.length) (min n (F.length - b)) env t) ∧
    HoleI (drained (afterGapI d dst F a b (min (b + n) F.length) (min n (F.length - b)) env t)) dst F a b
      (min (b + n) F.length) rc t cks conf := by
  have hla : (F.take a).length = a := by simp [List.length_take]; omega
  have hw := write_creates_hole F a b n hab hb hn
  have hdl : ((F.drop b).take n).length = min n (F.length - b) := by simp [List.length_take, List.length_drop]
  have hgt : b > d.p.lastEnd := by rw [hr.hlastE, hla]; exact hab
  have hge : b ≥ d.p.lastEnd := by omega
  have hnle : ¬ b + min n (F.length - b) ≤ b := by omega
  have hm : d.p.conf.mode = .ack := by rw [hr.hconf]; exact hr.hmode
  have hmin : b + min n (F.length - b) = min (b + n) F.length := by omega
  have hmax : max (b + min n (F.length - b)) a = min (b + n) F.length := by omega
  have hcond : ¬ (n = 0 ∨ F.length ≤ b) := by omega
  constructor
  · cases hi : env.cfg.indSegRecv <;>
    msimp [stateMachine, stateMachineWith, checkInsertedPacket, Pdu.hdr, ha.hdir, ha.hdst, ha.hsrc, Pdu.kind,
      Route.getPacketDestination, hr.hbusy, transmissionMode, hm, nonIdleFsm,
      fsmAdvancementAfterPacketsWereSent, hr.hqueue, hr.hstep, fsmFromReceiving, handleFdOrEofPdu, handleFdPdu,
      fdIndication, hi, getP, emitInd, hr.htid, fdLostSegments, lostSegmentHandling, hgt, hge, hnle, hr.hrc, himm,
      hr.htrk, Tracker.add, hdl, hr.hlastE, hcond, hab, Nat.le_of_lt hab, addPacket, hr.hready,
      fdWrite, vfsWriteData, hr.hrej, hr.hname,
      Fs.writeData, hr.hfile, hw, fdAfterWrite, sizeErrOf, modP, hr.hnoEof, hr.hprog, hla, hmax, hmin,
      fsmFromWaitingForMetadata,
      fsmFromCheckLimit, fsmFromWaitingForMissingData, fsmFromTransferCompletion, fsmFromSendingFinishedPdu,
      fsmFromWaitingForFinishedAck, afterGapI, gapP, hr.hfin] <;> omega
  · exact { hbusy := hr.hbusy, hstep := hr.hstep, hready := rfl, hqueue := rfl, hconf := hr.hconf,
            hmode := hr.hmode, hname := hr.hname, hfile := by simp [drained, afterGapI, Fs.C17.get_set_same],
            hprog := rfl, hnoEof := hr.hnoEof, hrc := hr.hrc, htid := hr.htid, hrej := hr.hrej,
            hcks := hr.hcks, hcancel := hr.hcancel, hmo := hr.hmo, hflts := hr.hflts, hfin := hr.hfin,
            htrk := rfl, hlastE := rfl, hlastS := rfl, hmm := hr.hmm, hdef := hr.hdef }

def filledP (p : Params) : Params := { p with trk := [] }

/-- state after the retransmitted data arrived while File Data is still being received -/
def afterFill (d : DestSt) (dst : String) (F : List UInt8) (a b m : Nat) (env : Env) (t : Tid) : DestSt :=
  { d with fs := d.fs.set dst (.file (F.take m)), p := filledP d.p,
           inds := d.inds ++ (if env.cfg.indSegRecv then [.segRecv (some t) a (b - a)] else []) }

/-- **The retransmission fills the hole while the transfer is still running**: the lost range is
removed from the tracker, the stored content is the file's prefix; the receiver is in the state of a
transfer without losses -/
theorem C03_hole_filled_receiving (env : Env) (d : DestSt) (dst : String) (F : List UInt8) (a b m : Nat)
    (rc : RemoteCfg) (t : Tid) (cks : Nat) (conf h : Hdr) (hr : HoleI d dst F a b m rc t cks conf)
    (ha : AdmissibleA env rc h) (hab : a < b) (hbm : b ≤ m) (hm : m ≤ F.length) :
    stateMachine env (some (.fd h a ((F.drop a).take (b - a)))) d = .ok () (afterFill d dst F a b m env t) ∧
    ReceivingA (afterFill d dst F a b m env t) dst (F.take m) rc t cks conf := by
  have hw := write_fills_hole_prefix F a b m hab hbm hm
  have hdl : ((F.drop a).take (b - a)).length = b - a := by simp [List.length_take, List.length_drop]; omega
  have hmode : d.p.conf.mode = .ack := by rw [hr.hconf]; exact hr.hmode
  have hng : ¬ a > m := by omega
  have hnge : ¬ a ≥ m := by omega
  have hab2 : a + (b - a) = b := by omega
  have hmax : max b m = m := by omega
  have hne : ¬ a = b := by omega
  have hlm : (F.take m).length = m := by simp [List.length_take]; omega
  constructor
  · cases hi : env.cfg.indSegRecv <;>
    msimp [stateMachine, stateMachineWith, checkInsertedPacket, Pdu.hdr, ha.hdir, ha.hdst, ha.hsrc, Pdu.kind,
      Route.getPacketDestination, hr.hbusy, transmissionMode, hmode, nonIdleFsm,
      fsmAdvancementAfterPacketsWereSent, hr.hqueue, hr.hstep, fsmFromReceiving, handleFdOrEofPdu, handleFdPdu,
      fdIndication, hi, getP, emitInd, hr.htid, fdLostSegments, lostSegmentHandling, hng, hnge, hr.hlastE, hr.hlastS,
      hdl, hab2, hr.htrk, Tracker.remove, Tracker.lookup, Tracker.erase, hne,
      fdWrite, vfsWriteData, hr.hrej, hr.hname,
      Fs.writeData, hr.hfile, hw, fdAfterWrite, sizeErrOf, modP, hr.hnoEof, hr.hprog, hmax,
      fsmFromWaitingForMetadata,
      fsmFromCheckLimit, fsmFromWaitingForMissingData, fsmFromTransferCompletion, fsmFromSendingFinishedPdu,
      fsmFromWaitingForFinishedAck, afterFill, filledP, hr.hfin]
  · exact { hbusy := hr.hbusy, hstep := hr.hstep, hready := hr.hready, hqueue := hr.hqueue, hconf := hr.hconf,
            hmode := hr.hmode, hname := hr.hname, hfile := by simp [afterFill, Fs.C17.get_set_same],
            hprog := by simp [afterFill, filledP, hr.hprog, hlm], hnoEof := hr.hnoEof, hrc := hr.hrc,
            htid := hr.htid, hrej := hr.hrej,
            hcks := hr.hcks, hcancel := hr.hcancel, hmo := hr.hmo, hflts := hr.hflts, hfin := hr.hfin,
            htrk := rfl, hlastE := by simp [afterFill, filledP, hr.hlastE, hlm],
            hlastS := by simp [afterFill, filledP, hr.hlastS, hlm]; omega, hmm := hr.hmm, hdef := hr.hdef }

/-! ### the sender: a NAK in the middle of the stream, resumption, the rest of the run -/

def retransSd (s : Source.SrcSt) (q : List Pdu) : Source.SrcSt :=
  { s with queue := q, numReady := s.numReady + q.length, stepBefore := some .SENDING_FILE_DATA,
           step := .RETRANSMITTING }

/-- **NAK at the sender in the middle of the file**: a request for one full segment already sent is
served with exactly the original File Data PDU; progress is untouched; the sender remembers that it
was sending file data -/
theorem C03_sender_serves_request_sending (env : Source.Env) (s : Source.SrcSt) (rc : RemoteCfg) (h : Hdr)
    (req : Source.PutReq) (src : String) (F : List UInt8) (a b sos eos : Nat)
    (ha : AdmissibleS env s rc h) (hS : Source.C07.Sending s req src F) (hstep : s.step = .SENDING_FILE_DATA)
    (hlt : s.p.progress < s.p.fileSize) (hab : b = a + s.p.segmentLen) (hbp : b ≤ s.p.progress) :
    Source.stateMachine env (some (.nak h sos eos [(a, b)])) s =
      .ok () (retransSd s [Source.mkFd s.p.conf a ((F.drop a).take s.p.segmentLen)]) := by
  have hseg : 0 < s.p.segmentLen := hS.hinv.1
  have hserve := Source.C08.C08_valid_request_served s req src F a b hS.hreq hS.hsrc hS.hfile hseg (by omega)
    (by omega) hbp
  have hba : b - a = s.p.segmentLen := by omega
  rw [hba, chunkPdus_one_segment _ _ _ _ hseg, hS.hqueue] at hserve
  have hne : s.p.progress ≠ s.p.fileSize := by omega
  msimp [Source.stateMachine, Source.checkInsertedPacket, Pdu.hdr, ha.hdir, ha.hsrc, ha.hrc, ha.hdst, ha.hseq,
    Pdu.kind, Route.getPacketDestination, ha.hmode, hstep, hS.hbusy, Source.fsmNonIdle,
    Source.fsmAdvancementAfterPacketsWereSent, hS.hqueue, hS.hreq, hne, Source.fsmFromSendingFileData,
    Source.sendingFileDataFsm, Source.transmissionMode,
    Source.handleRetransmission, Source.handleSegmentReqs, hserve, Source.modP, Source.getP, Source.addPacket,
    retransSd]

/-- **Resumption**: once the re-sent PDU has been retrieved, the next call restores the step and —
in the same call — sends the next original tile, exactly as if nothing had happened -/
theorem C03_sender_resumes_stream (env : Source.Env) (s : Source.SrcSt) (req : Source.PutReq) (src : String)
    (F : List UInt8) (hst : s.state = .busy) (hstep : s.step = .RETRANSMITTING)
    (hsb : s.stepBefore = some .SENDING_FILE_DATA) (hq : s.queue = []) (hreq : s.putReq = some req)
    (hsrc : req.src = some src) (hfile : s.fs.get src = some (.file F)) (hprog : s.p.progress < s.p.fileSize)
    (hmo : s.p.metadataOnly = false) :
    Source.stateMachine env none s = .ok () (Source.C07.afterTile s F) := by
  have hne : s.p.progress ≠ s.p.fileSize := by omega
  msimp [Source.stateMachine, Source.fsmNonIdle, Source.fsmAdvancementAfterPacketsWereSent,
    Source.fsmFromSendingFileData,
    Source.sendingFileDataFsm, Source.handleRetransmission, Source.transmissionMode,
    Source.prepareProgressingFileDataPdu,
    Source.prepareFileDataPdu, Source.getP, Source.modP, Source.addPacket, Fs.readData, Source.C07.afterTile,
    hst, hstep, hsb, hq, hreq, hsrc, hfile, hprog, hmo, hne]

def resumeS (s : Source.SrcSt) : Source.SrcSt := { s with step := .SENDING_FILE_DATA }

open Source.C07 in
/-- the first call after a retransmission is the call the undisturbed sender would have made -/
theorem rounds_resume (env : Source.Env) (s : Source.SrcSt) (req : Source.PutReq) (src : String)
    (F : List UInt8) (hstep : s.step = .RETRANSMITTING) (hsb : s.stepBefore = some .SENDING_FILE_DATA)
    (hS : Sending (resumeS s) req src F) (hprog : s.p.progress < s.p.fileSize) (n : Nat) :
    rounds env (n + 1) s = rounds env (n + 1) (resumeS s) := by
  have h1 := C03_sender_resumes_stream env s req src F hS.hbusy hstep hsb hS.hqueue hS.hreq hS.hsrc hS.hfile hprog
    hS.hnotMo
  have h2 := C07_file_data_call env (resumeS s) req src F hS.hbusy (Or.inl rfl) hS.hqueue hS.hreq hS.hsrc hS.hfile
    hprog hS.hnotMo
  have h3 : afterTile (resumeS s) F = afterTile s F := rfl
  simp only [rounds, round, h1, h2, h3]

open Source.C07 in
/-- **The rest of the sender's run from the middle of the file**: the remaining `k2` tiles and the
EOF; afterwards everything has been sent and the sender waits for the ACK of the EOF -/
theorem C03_sender_tail_to_eof (envS : Source.Env) (s2 : Source.SrcSt) (req : Source.PutReq) (rcS : RemoteCfg)
    (src : String) (F crc : List UInt8) (seg k2 : Nat) (conf : Hdr) (tid : Tid)
    (hS : Sending s2 req src F) (hstep : s2.step = .SENDING_FILE_DATA)
    (hseg : s2.p.segmentLen = seg) (hconf : s2.p.conf = conf) (hmode : conf.mode = .ack)
    (hrc : s2.p.remoteCfg = some rcS) (htid : s2.p.tid = some tid) (hct : s2.p.checkTimer = none)
    (hk : k2 = 0 ∨ s2.p.progress + (k2 - 1) * seg < F.length) (hend : F.length ≤ s2.p.progress + k2 * seg)
    (hcks : Checksum.calcChecksum (Checksum.CksType.ofNat rcS.cks) F F.length seg = .ok crc)
    (hnull : Checksum.CksType.ofNat rcS.cks ≠ .null) (hlen : crc.length = 4) (hack : rcS.ackMs ≠ 0) :
    ∃ s3, rounds envS (k2 + 1) s2 = some
        ((List.range k2).map (tile conf F seg s2.p.progress) ++ [Source.mkEof conf ccNoError crc F.length], s3) ∧
      SentAllS s3 req src F seg conf rcS tid ∧ s3.step = .WAITING_FOR_EOF_ACK ∧ s3.p.checkTimer = none ∧
      s3.fs = s2.fs ∧ s3.flts = s2.flts ∧ s3.inds.filter isFinished = s2.inds.filter isFinished := by
  obtain ⟨s2', hr2, hp2, hc2, hsg2, hst2, hS2, hFr2⟩ := C07_stream_tiles envS req src F k2 s2 hS
    (by rw [hseg]; exact hk)
  have hstep2 : s2'.step = .SENDING_FILE_DATA := by
    rcases hst2 with h0 | h0
    · subst h0
      simp [rounds] at hr2
      rw [← hr2]; exact hstep
    · exact h0
  have hprog2 : s2'.p.progress = s2'.p.fileSize := by
    rw [hp2, hS2.hsize, hseg]; exact Nat.min_eq_left hend
  simp only [Frame] at hFr2
  obtain ⟨f1, f2, f3, f4, f5, f6, f7, f8, f9, f10, f11, f12, f13, f14, f15, f16⟩ := hFr2
  have hcall3 := C07_eof_call_ack envS s2' req rcS src F crc tid hS2.hbusy hstep2 hS2.hqueue hS2.hreq hS2.hsrc
    hS2.hnotMo hS2.hfile hS2.hsize hprog2 (by rw [f1]; exact hrc) (by rw [f2]; exact htid)
    (by rw [hsg2, hseg]; exact hcks) hnull hlen hack (by rw [hc2, hconf]; exact hmode)
  refine ⟨Source.C07.drained (afterEofS envS (condS s2') rcS crc tid F.length), ?_, ?_, rfl, ?_, ?_, ?_, ?_⟩
  · rw [rounds_add envS k2 1 s2]
    simp only [rounds, round, hr2, hcall3]
    simp [Source.C07.drained, afterEofS, condS, hc2, hconf, hseg]
  · exact
      { hbusy := hS2.hbusy, hqueue := rfl, hreq := hS2.hreq, hsrc := hS2.hsrc, hfile := hS2.hfile,
        hseg := by show s2'.p.segmentLen = seg; rw [hsg2, hseg],
        hprog := by show s2'.p.progress = F.length; rw [hprog2, hS2.hsize],
        hconf := by show s2'.p.conf = conf; rw [hc2, hconf],
        hrc := by show s2'.p.remoteCfg = some rcS; rw [f1]; exact hrc,
        htid := by show s2'.p.tid = some tid; rw [f2]; exact htid }
  · show s2'.p.checkTimer = none; rw [f15]; exact hct
  · simp [Source.C07.drained, afterEofS, condS, f6]
  · simp [Source.C07.drained, afterEofS, condS, f5]
  · simp only [Source.C07.drained, afterEofS, condS, f4, List.filter_append]
    cases envS.cfg.indEofSent <;> simp [isFinished]

/-- the receiver consumes the sender's tiles from the middle of the file (acknowledged mode, no hole) -/
theorem receiver_takes_tiles_from (env : Dest.Env) (conf cd : Hdr) (rc : RemoteCfg) (t : Tid) (cks : Nat)
    (dst : String) (F : List UInt8) (seg p0 : Nat) (hseg : 0 < seg) (hp0 : p0 ≤ F.length)
    (ha : AdmissibleA env rc { conf with dir := .toRecv }) :
    ∀ (k : Nat) (d : Dest.DestSt), (k = 0 ∨ p0 + (k - 1) * seg < F.length) →
      ReceivingA d dst (F.take p0) rc t cks cd →
      ∃ d', feedPdus env ((List.range k).map (Source.C07.tile conf F seg p0)) d = some d' ∧
        ReceivingA d' dst (F.take (p0 + k * seg)) rc t cks cd ∧
        (∀ q, q ≠ dst → d'.fs.get q = d.fs.get q) ∧ d'.flts = d.flts ∧
        d'.inds.filter isFinished = d.inds.filter isFinished := by
  intro k
  induction k with
  | zero => intro d _ hr; exact ⟨d, by simp [feedPdus], by simpa using hr, fun _ _ => rfl, rfl, rfl⟩
  | succ k ih =>
    intro d hk hr
    have hklt : p0 + k * seg < F.length := by simpa using hk
    have hk' : k = 0 ∨ p0 + (k - 1) * seg < F.length := by
      by_cases h0 : k = 0
      · exact Or.inl h0
      · right
        have : (k - 1) * seg ≤ k * seg := Nat.mul_le_mul_right _ (by omega)
        omega
    obtain ⟨d1, hf, hR, hother, hfl, hfin⟩ := ih d hk' hr
    have hlen : (F.take (p0 + k * seg)).length = p0 + k * seg := by simp [List.length_take]; omega
    have hdata : (F.drop (p0 + k * seg)).take seg ≠ [] := by
      intro h
      have := congrArg List.length h
      simp [List.length_take, List.length_drop] at this
      omega
    have htile := C02_tile_ack env d1 dst (F.take (p0 + k * seg)) ((F.drop (p0 + k * seg)).take seg) rc t cks cd
      { conf with dir := .toRecv } hR ha hdata
    rw [hlen] at htile
    obtain ⟨hcall, hR'⟩ := htile
    refine ⟨afterTileA d1 dst (F.take (p0 + k * seg)) ((F.drop (p0 + k * seg)).take seg) env t, ?_, ?_, ?_, ?_, ?_⟩
    · rw [List.range_succ, List.map_append, feedPdus_append, hf]
      simp only [Option.bind, List.map_cons, List.map_nil, feedPdus, Source.C07.tile, Source.mkFd, hcall]
    · have : F.take (p0 + k * seg) ++ (F.drop (p0 + k * seg)).take seg = F.take (p0 + (k + 1) * seg) := by
        have : p0 + (k + 1) * seg = p0 + k * seg + seg := by rw [Nat.add_mul, Nat.one_mul]; omega
        rw [this]; exact List.take_add.symm
      rw [← this]; exact hR'
    · intro q hq
      simp only [afterTileA]
      rw [Fs.C17.get_set_other _ _ _ _ hq]
      exact hother q hq
    · rw [← hfl]; rfl
    · rw [← hfin]
      simp only [afterTileA]
      split <;> simp [isFinished]

open Source.C07 Source.C19 in
/-- **End to end with one File Data PDU lost, immediate NAK mode: the two models composed.**  The
link loses tile `j`; the receiver detects the gap with the next tile and requests it at once; the NAK
reaches the sender in the middle of its stream: it re-sends exactly the lost PDU and then resumes —
the remaining PDUs are exactly those of the undisturbed run (nothing skipped, nothing repeated, the
same EOF); the receiver fills the hole and takes the rest; the closing handshake follows.  No call
raises; both end idle; the destination file is byte-identical; one successful Transaction-Finished
indication on each side; no fault callback.  For every file, segment length, position of the lost
tile (with at least one tile after the one that revealed the gap), configuration and checksum type. -/
theorem C03_end_to_end_single_loss_immediate (envS : Source.Env) (envD : Dest.Env) (s : Source.SrcSt)
    (d0 : Dest.DestSt) (req : Source.PutReq) (rcS rcD : RemoteCfg) (src dst : String) (F crc : List UInt8)
    (seg j r : Nat) (tN tF tA t1 t2 t3 t4 : Nat)
    (hst : s.state = .busy) (hstep : s.step = .IDLE) (hq : s.queue = []) (hreq : s.putReq = some req)
    (hpmo : s.p.metadataOnly = false) (hsrc : req.src = some src) (hdst : req.dst = some dst)
    (hfile : s.fs.get src = some (.file F)) (hF : F ≠ []) (hprog : s.p.progress = 0)
    (hrc : s.p.remoteCfg = some rcS) (hrcid : rcS.entityId.val = req.destId.val)
    (hbits : s.prov.bits = 8 ∨ s.prov.bits = 16 ∨ s.prov.bits = 32)
    (hseg : Source.segLenOf rcS (startConf envS req rcS s (decide (F.length > 4294967295))) = some seg)
    (hseg0 : 0 < seg) (hmode : s.p.conf.mode = .ack) (hct : s.p.checkTimer = none)
    (hk : (j + 2 + r) * seg < F.length ∧ F.length ≤ (j + 3 + r) * seg)
    (hcks : Checksum.calcChecksum (Checksum.CksType.ofNat rcS.cks) F F.length seg = .ok crc)
    (hnull : Checksum.CksType.ofNat rcS.cks ≠ .null) (hlen : crc.length = 4) (hack : rcS.ackMs ≠ 0)
    (ha : AdmissibleA envD rcD { startConf envS req rcS s (decide (F.length > 4294967295)) with dir := .toRecv })
    (hackD : rcD.ackMs ≠ 0) (himm : rcD.imm = true)
    (hidle : d0.state = .idle) (hdq : d0.queue = []) (hdr : d0.numReady = 0) (hrej : d0.rejects = [])
    (hfl : d0.flts = []) (hnd : Fs.isDir d0.fs dst = false)
    (hok : (∃ old, d0.fs.get dst = some (.file old)) ∨
           (Fs.exists' d0.fs dst = false ∧ Fs.parentIsDir d0.fs dst = true)) :
    let conf := startConf envS req rcS s (decide (F.length > 4294967295))
    let cd : Hdr := ⟨.toSend, conf.mode, conf.crc, conf.large, conf.src, conf.dst, conf.seq⟩
    let fpOk : FinishedParams := ⟨ccNoError, dcComplete, fsRetained, none⟩
    let md := Source.mkMd conf s.p.closure rcS.cks F.length (some src) (some dst) (some (req.msgs.getD []))
    let eof := Source.mkEof conf ccNoError crc F.length
    let lost := tile conf F seg 0 j
    let nak : Pdu := .nak cd 0 ((j + 2) * seg) [(j * seg, (j + 1) * seg)]
    ∃ pdus1 s2 dH s2n dF pdus2 s3 d3 s4 d4 s5 d5 s6,
      -- Metadata and the tiles 0 … j+1; tile j is lost; the tile after it reveals the gap: NAK at once
      rounds envS (1 + (j + 2)) s = some (pdus1, s2) ∧ pdus1[j + 1]? = some lost ∧
      feedPdus envD (pdus1.eraseIdx (j + 1)) d0 = some dH ∧ dH.queue = [nak] ∧
      -- the sender, in the middle of the file, answers with exactly the lost PDU; the hole is filled
      Source.stateMachine ⟨envS.cfg, tN⟩ (some nak) s2 = .ok () s2n ∧ s2n.queue = [lost] ∧
      Dest.stateMachine ⟨envD.cfg, tF⟩ (some lost) (drained dH) = .ok () dF ∧ dF.queue = [] ∧
      -- the sender resumes: all its PDUs together are exactly those of the undisturbed run
      rounds envS (r + 1 + 1) (Source.C07.drained s2n) = some (pdus2, s3) ∧
      pdus1 ++ pdus2 = [md] ++ (List.range (j + 3 + r)).map (tile conf F seg 0) ++ [eof] ∧
      feedPdus envD pdus2 dF = some d3 ∧ d3.queue = [.ack cd dtEof ccNoError tsActive] ∧
      Source.stateMachine ⟨envS.cfg, tA⟩ (some (.ack cd dtEof ccNoError tsActive)) s3 = .ok () s4 ∧ s4.queue = [] ∧
      -- closing handshake
      Dest.stateMachine ⟨envD.cfg, t1⟩ none (drained d3) = .ok () d4 ∧ d4.queue = [.fin cd fpOk] ∧
      Source.stateMachine ⟨envS.cfg, t2⟩ (some (.fin cd fpOk)) s4 = .ok () s5 ∧
      s5.queue = [Source.mkAck conf dtFinished ccNoError tsActive] ∧
      Dest.stateMachine ⟨envD.cfg, t3⟩ (some (Source.mkAck conf dtFinished ccNoError tsActive)) (drained d4) = .ok () d5 ∧
      Source.stateMachine ⟨envS.cfg, t4⟩ none (Source.C07.drained s5) = .ok () s6 ∧
      s6.state = .idle ∧ d5.state = .idle ∧ s6.queue = [] ∧ d5.queue = [] ∧
      d5.fs.get dst = some (.file F) ∧ (∀ q, q ≠ dst → d5.fs.get q = d0.fs.get q) ∧ s6.fs = s.fs ∧
      d5.flts = [] ∧ s6.flts = s.flts ∧
      s6.inds.filter isFinished = s.inds.filter isFinished ++
        (if envS.cfg.indFinished then [.finished (some ⟨envS.cfg.entityId, ⟨s.prov.next, s.prov.bits / 8⟩⟩) fpOk]
         else []) ∧
      d5.inds.filter isFinished = d0.inds.filter isFinished ++
        (if envD.cfg.indFinished then [.finished (some ⟨conf.src, conf.seq⟩) fpOk] else []) := by
  intro conf cd fpOk md eof lost nak
  let tid : Tid := ⟨envS.cfg.entityId, ⟨s.prov.next, s.prov.bits / 8⟩⟩
  have hsrcv : conf.src.val = envS.cfg.entityId.val := by simp [conf, startConf]
  have hdstv : conf.dst.val = rcS.entityId.val := by simp [conf, startConf, hrcid]
  have hmodeC : conf.mode = .ack := by simp [conf, startConf, hmode]
  -- grid arithmetic
  have e1 : (j + 1) * seg = j * seg + seg := by simp [Nat.add_mul]
  have e2 : (j + 2) * seg = j * seg + 2 * seg := by simp [Nat.add_mul]
  have e3 : (j + 2 + r) * seg = j * seg + 2 * seg + r * seg := by simp [Nat.add_mul]
  have e4 : (j + 3 + r) * seg = j * seg + 3 * seg + r * seg := by simp [Nat.add_mul]
  have e5 : (r + 1) * seg = r * seg + seg := by simp [Nat.add_mul]
  have hlt' : (j + 2) * seg + r * seg < F.length := by have := hk.1; omega
  have hend' : F.length ≤ (j + 2) * seg + (r + 1) * seg := by have := hk.2; omega
  have haT : ∀ t, AdmissibleA ⟨envD.cfg, t⟩ rcD { conf with dir := .toRecv } := fun t =>
    ⟨rfl, ha.hdst, ha.hsrc, ha.hmode⟩
  -- the sender up to tile j+1
  obtain ⟨hcall1, hS1⟩ := C07_metadata_call envS s req rcS src dst F seg hst hstep hq hreq hpmo hsrc hdst hfile hF
    hprog hrc hbits hseg hseg0
  obtain ⟨s2, hr2, hp2, hc2, hsg2, hst2, hS2, hFr2⟩ := C07_stream_tiles envS req src F (j + 2) _ hS1
    (Or.inr (by
      have : j + 2 - 1 = j + 1 := by omega
      simp only [Source.C07.drained, afterMetadata, hprog, Nat.zero_add, this]; omega))
  have hstep2 : s2.step = .SENDING_FILE_DATA := hst2.resolve_left (by omega)
  simp only [Frame] at hFr2
  obtain ⟨f1, f2, f3, f4, f5, f6, f7, f8, f9, f10, f11, f12, f13, f14, f15, f16⟩ := hFr2
  have hconf2 : s2.p.conf = conf := by rw [hc2]; simp [Source.C07.drained, afterMetadata, conf]
  have hseg2 : s2.p.segmentLen = seg := by rw [hsg2]; simp [Source.C07.drained, afterMetadata]
  have hprog2 : s2.p.progress = (j + 2) * seg := by
    rw [hp2]; simp only [Source.C07.drained, afterMetadata, hprog, Nat.zero_add]
    exact Nat.min_eq_right (by omega)
  have hrc2 : s2.p.remoteCfg = some rcS := by rw [f1]; simp [Source.C07.drained, afterMetadata, hrc]
  have htid2 : s2.p.tid = some tid := by rw [f2]; simp [Source.C07.drained, afterMetadata, tid]
  have hct2 : s2.p.checkTimer = none := by rw [f15]; simp [Source.C07.drained, afterMetadata, hct]
  have hrun1 : rounds envS (1 + (j + 2)) s = some ([md] ++ (List.range (j + 2)).map (tile conf F seg 0), s2) := by
    have h1r : rounds envS 1 s = some ([md], Source.C07.drained (afterMetadata envS s req rcS src dst F seg)) := by
      simp only [rounds, round, hcall1]
      simp [afterMetadata, md, conf]
    rw [rounds_add envS 1 (j + 2) s, h1r]
    simp only [hr2]
    simp [Source.C07.drained, afterMetadata, hprog, conf, md]
  -- the NAK at the sender
  have hadm2 : AdmissibleS ⟨envS.cfg, tN⟩ s2 rcS cd :=
    { hdir := rfl, hsrc := hsrcv, hrc := hrc2, hdst := hdstv, hseq := by rw [hconf2],
      hmode := by rw [hconf2]; exact hmodeC }
  have hlt2 : s2.p.progress < s2.p.fileSize := by rw [hprog2, hS2.hsize]; omega
  have hN := C03_sender_serves_request_sending ⟨envS.cfg, tN⟩ s2 rcS cd req src F (j * seg) ((j + 1) * seg) 0
    ((j + 2) * seg) hadm2 hS2 hstep2 hlt2 (by rw [hseg2]; exact e1) (by rw [hprog2]; omega)
  rw [hseg2, hconf2] at hN
  have hlost : Source.mkFd conf (j * seg) ((F.drop (j * seg)).take seg) = lost := by simp [lost, tile]
  rw [hlost] at hN
  -- resumption and the rest of the run
  have hSr : Sending (resumeS (Source.C07.drained (retransSd s2 [lost]))) req src F :=
    { hbusy := hS2.hbusy, hstep := Or.inl rfl, hqueue := rfl, hreq := hS2.hreq, hsrc := hS2.hsrc,
      hfile := hS2.hfile, hsize := hS2.hsize, hnotMo := hS2.hnotMo, hinv := hS2.hinv }
  have hres := rounds_resume envS (Source.C07.drained (retransSd s2 [lost])) req src F rfl rfl hSr hlt2 (r + 1)
  obtain ⟨s3, hrun2, hS3, hstep3, hct3, hfs3, hfl3, hin3⟩ :=
    C03_sender_tail_to_eof envS (resumeS (Source.C07.drained (retransSd s2 [lost]))) req rcS src F crc seg (r + 1) conf
      tid hSr rfl hseg2 hconf2 hmodeC hrc2 htid2 hct2
      (Or.inr (by show s2.p.progress + (r + 1 - 1) * seg < F.length; rw [hprog2]; simp only [Nat.add_sub_cancel]; exact hlt'))
      (by show F.length ≤ s2.p.progress + (r + 1) * seg; rw [hprog2]; exact hend') hcks hnull hlen hack
  rw [← hres] at hrun2
  have hp2' : (resumeS (Source.C07.drained (retransSd s2 [lost]))).p.progress = (j + 2) * seg := hprog2
  rw [hp2'] at hrun2
  -- the receiver
  obtain ⟨hmd, hR1⟩ := C02_metadata_ack envD d0 { conf with dir := .toRecv } rcD s.p.closure rcS.cks F.length src dst
    (some (req.msgs.getD [])) ha hidle hdq hdr hrej hfl hnd hok
  obtain ⟨dA, hfeedA, hRA, hotherA, hfinA⟩ := receiver_takes_tiles_ack envD conf _ rcD _ rcS.cks dst F seg hseg0 ha j _
    (by rcases Nat.eq_zero_or_pos j with h0 | h0
        · exact Or.inl h0
        · right
          have : (j - 1) * seg ≤ j * seg := Nat.mul_le_mul_right _ (by omega)
          omega) hR1
  obtain ⟨hgap, hH⟩ := C03_gap_tile_immediate envD dA dst F (j * seg) ((j + 1) * seg) seg rcD _ rcS.cks cd
    { conf with dir := .toRecv } hRA ha (by omega) (by omega) hseg0 himm
  have hm : min ((j + 1) * seg + seg) F.length = (j + 2) * seg := by omega
  have hn : min seg (F.length - (j + 1) * seg) = seg := by omega
  rw [hm, hn] at hgap hH
  obtain ⟨hfill, hRF⟩ := C03_hole_filled_receiving ⟨envD.cfg, tF⟩ _ dst F (j * seg) ((j + 1) * seg) ((j + 2) * seg) rcD _
    rcS.cks cd { conf with dir := .toRecv } hH (haT tF) (by omega) (by omega) (by omega)
  have hba : (j + 1) * seg - j * seg = seg := by omega
  rw [hba] at hfill
  obtain ⟨dT, hfeedT, hRT, hotherT, hflT, hfinT⟩ := receiver_takes_tiles_from envD conf cd rcD _ rcS.cks dst F seg
    ((j + 2) * seg) hseg0 (by omega) ha (r + 1) _
    (Or.inr (by simp only [Nat.add_sub_cancel]; omega)) hRF
  have hall : F.take ((j + 2) * seg + (r + 1) * seg) = F := List.take_of_length_le (by omega)
  rw [hall] at hRT
  obtain ⟨d3, heof, hq3, hA, hfs3d, hfl3d, hin3d⟩ := C03_receiver_eof envD dT dst F crc rcD _ rcS.cks cd
    { conf with dir := .toRecv } hRT ha
  -- the ACK (EOF) at the sender, the closing handshake
  have hadm3 : AdmissibleS ⟨envS.cfg, tA⟩ s3 rcS cd :=
    { hdir := rfl, hsrc := hsrcv, hrc := hS3.hrc, hdst := hdstv, hseq := by rw [hS3.hconf],
      hmode := by rw [hS3.hconf]; exact hmodeC }
  have h4 := C02_source_eof_acked ⟨envS.cfg, tA⟩ s3 rcS cd ccNoError tsActive req hadm3 hS3.hbusy hstep3 hS3.hqueue
    hS3.hreq hct3
  have hS4 : SentAllS { s3 with step := .WAITING_FOR_FINISHED } req src F seg conf rcS tid :=
    ⟨hS3.hbusy, hS3.hqueue, hS3.hreq, hS3.hsrc, hS3.hfile, hS3.hseg, hS3.hprog, hS3.hconf, hS3.hrc, hS3.htid⟩
  have hver : rcS.cks = 15 ∨ Fs.calcChecksum (drained d3).fs (Checksum.CksType.ofNat rcS.cks) dst F.length 4096 = .ok crc := by
    right
    have := Checksum.C09.C09_chunk_length_irrelevant (Checksum.CksType.ofNat rcS.cks) F F.length seg 4096
      (by omega) (by omega)
    have hf : (drained d3).fs.get dst = some (.file F) := hA.hfile
    simp [Fs.calcChecksum, hnull, hf, ← this, hcks]
  obtain ⟨d4, s5, d5, s6, hv, hq4, h5, hq5, hd5, h6, hi6, hi5, hq6, hq5', hfs5, hfs6, hfl5, hfl6, hin6, hin5⟩ :=
    C03_closing envS.cfg envD.cfg _ (drained d3) req src dst F crc seg conf rcS rcD tid rcS.cks t1 t2 t3 t4
      hS4 (Or.inr (Or.inl rfl)) hA (haT t3) hsrcv hdstv hackD hver
  have hl2 : lost = .fd { conf with dir := .toRecv } (j * seg) ((F.drop (j * seg)).take seg) := by
    simp [lost, tile, Source.mkFd]
  -- what the link delivered before the NAK
  have hdeliv1 : feedPdus envD (([md] ++ (List.range (j + 2)).map (tile conf F seg 0)).eraseIdx (j + 1)) d0 =
      some (afterGapI dA dst F (j * seg) ((j + 1) * seg) ((j + 2) * seg) seg envD ⟨conf.src, conf.seq⟩) := by
    rw [List.singleton_append, List.eraseIdx_cons_succ]
    have hjr : j + 2 = j + 1 + 1 := rfl
    rw [hjr, map_range_eraseIdx]
    simp only [List.cons_append, feedPdus, md, Source.mkMd, hmd]
    rw [feedPdus_append, hfeedA]
    simp only [Option.bind, List.range_one, List.map_cons, List.map_nil, feedPdus, tile, Source.mkFd,
      Nat.add_zero, Nat.zero_add, hgap]
  refine ⟨_, s2, _, _, _, _, s3, d3, _, d4, s5, d5, s6, hrun1, ?_, hdeliv1, ?_, hN, rfl, (by rw [hl2]; exact hfill), hRF.hqueue, hrun2, ?_,
    ?_, ?_, h4, hS3.hqueue, hv, hq4, h5, hq5, hd5, h6, hi6, hi5, hq6, hq5', ?_, ?_, ?_, ?_, ?_, ?_, ?_⟩
  · rw [List.singleton_append, List.getElem?_cons_succ, List.getElem?_map, List.getElem?_range (by omega)]
    rfl
  · simp [afterGapI, hRA.hconf, Dest.mkNak, nak, cd]
  · -- the PDUs of the disturbed run are those of the undisturbed one
    have hmapeq : (List.range (r + 1)).map (tile conf F seg ((j + 2) * seg)) =
        (List.range (r + 1)).map ((tile conf F seg 0) ∘ fun x => j + 2 + x) := by
      apply List.map_congr_left
      intro i _
      have : 0 + (j + 2 + i) * seg = (j + 2) * seg + i * seg := by simp [Nat.add_mul]
      simp [tile, this]
    have hsplit : (List.range (j + 3 + r)).map (tile conf F seg 0) =
        (List.range (j + 2)).map (tile conf F seg 0) ++ (List.range (r + 1)).map (tile conf F seg ((j + 2) * seg)) := by
      have : j + 3 + r = (j + 2) + (r + 1) := by omega
      rw [this, List.range_add, List.map_append, List.map_map, ← hmapeq]
    rw [hsplit]
    simp [List.append_assoc, eof]
  · rw [feedPdus_append, hfeedT]
    simp only [Option.bind, feedPdus, Source.mkEof, heof]
  · simpa [Dest.mkAck, dtEof, dtFinished, cd] using hq3
  · rw [hfs5]; exact hA.hfile
  · intro q hq'
    rw [hfs5]; show d3.fs.get q = _
    rw [hfs3d, hotherT q hq']
    simp only [afterFill, C02.drained, afterGapI]
    rw [Fs.C17.get_set_other _ _ _ _ hq', Fs.C17.get_set_other _ _ _ _ hq', hotherA q hq']
    simp [afterMdA, Fs.C17.get_set_other _ _ _ _ hq']
  · rw [hfs6]; show s3.fs = s.fs
    rw [hfs3]; show s2.fs = s.fs
    rw [f6]; rfl
  · rw [hfl5]; show d3.flts = []
    rw [hfl3d]; exact hRT.hflts
  · rw [hfl6]; show s3.flts = s.flts
    rw [hfl3]; show s2.flts = s.flts
    rw [f5]; rfl
  · rw [hin6]; show s3.inds.filter isFinished ++ _ = _
    rw [hin3]; show s2.inds.filter isFinished ++ _ = _
    rw [f4]
    simp [Source.C07.drained, afterMetadata, isFinished, tid, fpOk]
  · rw [hin5]; show d3.inds.filter isFinished ++ _ = _
    rw [hin3d, hfinT]
    simp only [afterFill, C02.drained, afterGapI, List.filter_append, hfinA]
    have h1 : (afterMdA envD d0 { conf with dir := .toRecv } rcD s.p.closure rcS.cks F.length src dst
        (some (req.msgs.getD []))).inds.filter isFinished = d0.inds.filter isFinished := by
      simp [afterMdA, isFinished]
    rw [h1]
    cases envD.cfg.indSegRecv <;> simp [isFinished, fpOk]


/-! ## The Metadata PDU is lost -/

/-- the chunks with which the sender serves a request for the rest of the file are the original tiles -/
theorem chunkPdus_eq_tiles (conf : Hdr) (F : List UInt8) (seg : Nat) (hseg : 0 < seg) :
    ∀ (k cur missing fuel : Nat), missing ≤ fuel → cur + missing = F.length →
      ((k = 0 ∧ missing = 0) ∨ ((k - 1) * seg < missing ∧ missing ≤ k * seg)) →
      Source.C08.chunkPdus conf F seg fuel cur missing = (List.range k).map (Source.C07.tile conf F seg cur) := by
  intro k
  induction k with
  | zero =>
    intro cur missing fuel _ _ hk
    have hm : missing = 0 := by
      rcases hk with h | h
      · exact h.2
      · omega
    subst hm
    cases fuel <;> simp [Source.C08.chunkPdus]
  | succ k ih =>
    intro cur missing fuel hf hcm hk
    have hk' : k * seg < missing ∧ missing ≤ (k + 1) * seg := by
      rcases hk with h | h
      · omega
      · simpa using h
    have hmpos : 0 < missing := by omega
    obtain ⟨f, rfl⟩ : ∃ f, fuel = f + 1 := ⟨fuel - 1, by omega⟩
    have hlen : (F.drop cur).length = missing := by simp [List.length_drop]; omega
    have htake : (F.drop cur).take (min missing seg) = (F.drop cur).take seg := by
      rw [← hlen, Nat.min_comm]; exact Source.C07.take_min_length _ _
    rw [range_succ_map]
    have ht0 : Source.C07.tile conf F seg cur 0 = Source.mkFd conf cur ((F.drop cur).take seg) := by
      simp [Source.C07.tile]
    simp only [Source.C08.chunkPdus, hmpos, if_true, gt_iff_lt, List.map_cons, ht0, htake, tile_shift]
    congr 1
    by_cases hle : missing ≤ seg
    · have hk0 : k = 0 := by
        rcases Nat.eq_zero_or_pos k with h0 | h0
        · exact h0
        · have : seg ≤ k * seg := Nat.le_mul_of_pos_left _ h0
          omega
      subst hk0
      have : min missing seg = missing := by omega
      rw [this, Nat.sub_self]
      cases f <;> simp [Source.C08.chunkPdus]
    · have hmin : min missing seg = seg := by omega
      rw [hmin]
      have e : (k + 1) * seg = k * seg + seg := by rw [Nat.add_mul, Nat.one_mul]
      apply ih (cur + seg) (missing - seg) f (by omega) (by omega)
      right
      constructor
      · rcases Nat.eq_zero_or_pos k with h0 | h0
        · subst h0; simp; omega
        · have hkk : k = (k - 1) + 1 := by omega
          have : k * seg = (k - 1) * seg + seg := by rw [hkk]; simp [Nat.add_mul]
          omega
      · omega

/-- **NAK for the Metadata and the whole file at the sender** (it waits for the Finished PDU): the
answer is exactly the original Metadata PDU followed by exactly the original tiles -/
theorem C03_sender_serves_metadata_and_file (env : Source.Env) (s : Source.SrcSt) (rc : RemoteCfg) (h : Hdr)
    (req : Source.PutReq) (src dst : String) (F : List UInt8) (seg k sos eos : Nat) (conf : Hdr) (tid : Tid)
    (ha : AdmissibleS env s rc h) (hW : WaitingFinS s req src F seg conf rc tid) (hdst : req.dst = some dst)
    (hsize : s.p.fileSize = F.length) (hseg0 : 0 < seg)
    (hk : (k - 1) * seg < F.length ∧ F.length ≤ k * seg) (hF : F ≠ []) :
    Source.stateMachine env (some (.nak h sos eos [(0, 0), (0, F.length)])) s =
      .ok () (retransS s
        ([Source.mkMd conf s.p.closure rc.cks F.length (some src) (some dst) (some (req.msgs.getD []))] ++
          (List.range k).map (Source.C07.tile conf F seg 0))) := by
  have hlen : 0 < F.length := by
    cases F with
    | nil => exact absurd rfl hF
    | cons _ _ => simp
  have hmo : req.metadataOnly = false := by simp [Source.PutReq.metadataOnly, hW.hsrc]
  obtain ⟨st, stp, nr, p, sb, pr, q, fs, fl, pv, ind, flt⟩ := s
  have h1 := ha.hrc; have h2 := ha.hseq; have h3 := ha.hmode
  have w1 := hW.hbusy; have w2 := hW.hstep; have w3 := hW.hqueue; have w4 := hW.hreq; have w5 := hW.hfile
  have w6 := hW.hseg; have w7 := hW.hprog; have w8 := hW.hconf; have w9 := hW.hrc
  simp only at h1 h2 h3 w1 w2 w3 w4 w5 w6 w7 w8 w9 hsize
  subst w1 w2 w3 w4
  let md := Source.mkMd conf p.closure rc.cks F.length (some src) (some dst) (some (req.msgs.getD []))
  -- the Metadata request
  have hmd : Source.handleSegmentReq (0, 0)
      (⟨.busy, .WAITING_FOR_FINISHED, nr, p, sb, some req, [], fs, fl, pv, ind, flt⟩ : Source.SrcSt) =
      .ok () (⟨.busy, .WAITING_FOR_FINISHED, nr + 1, p, sb, some req, [md], fs, fl, pv, ind, flt⟩ : Source.SrcSt) := by
    rw [Source.C08.C08_metadata_request]
    msimp [Source.prepareMetadataPdu, hmo, w9, hW.hsrc, hdst, Source.addPacket, w8, hsize, md]
  -- the file request, on the state after the Metadata request
  have hfile := Source.C08.C08_valid_request_served
    (⟨.busy, .WAITING_FOR_FINISHED, nr + 1, p, sb, some req, [md], fs, fl, pv, ind, flt⟩ : Source.SrcSt)
    req src F 0 F.length rfl hW.hsrc w5 (by show 0 < p.segmentLen; rw [w6]; exact hseg0) (by omega)
    (Nat.zero_le _) (by show F.length ≤ p.progress; rw [w7])
  have hchunks := chunkPdus_eq_tiles conf F seg hseg0 k 0 F.length F.length (Nat.le_refl _) (by omega) (Or.inr hk)
  simp only [Nat.sub_zero, w6, w8, hchunks] at hfile
  msimp [Source.stateMachine, Source.checkInsertedPacket, Pdu.hdr, ha.hdir, ha.hsrc, h1, ha.hdst, h2,
    Pdu.kind, Route.getPacketDestination, h3, Source.fsmNonIdle,
    Source.fsmAdvancementAfterPacketsWereSent, Source.fsmFromSendingFileData,
    Source.fsmFromSendingEof, Source.fsmFromWaitingForEofAck,
    Source.fsmFromWaitingForFinished, Source.handleWaitForFinish, Source.transmissionMode,
    Source.handleRetransmission, Source.handleSegmentReqs, hmd, hfile, Source.modP, Source.getP, Source.addPacket,
    Source.fsmFromNoticeOfCompletion, retransS, md]
  omega

/-! ### the receiver without Metadata -/

theorem fs_set_set (fs : Fs) (p : String) (x y : Node) : (fs.set p x).set p y = fs.set p y := by
  induction fs with
  | nil => simp [Fs.set]
  | cons e t ih =>
    obtain ⟨q, m⟩ := e
    simp only [Fs.set]
    by_cases h1 : p < q
    · simp [h1, Fs.set]
    · by_cases h2 : p = q
      · subst h2; simp [Fs.set]
      · simp [h1, h2, Fs.set, ih]

/-- parameter block of a transaction that was started by a File Data PDU: Metadata missing, `m` bytes
"received" (none stored: there is no file yet), everything up to `m` recorded as lost -/
def noMdParams (h : Hdr) (rc : RemoteCfg) (m : Nat) : Params :=
  { conf := { h with dir := .toSend }, tid := some ⟨h.src, h.seq⟩, remoteCfg := some rc, metadataMissing := true,
    progress := m, trk := [(0, m)], lastStart := m, lastEnd := m }

def noMdSt (d0 : DestSt) (h : Hdr) (rc : RemoteCfg) (m : Nat) : DestSt :=
  { d0 with state := .busy, step := .WAITING_FOR_METADATA, p := noMdParams h rc m }

/-- **The first PDU is a File Data PDU** (the Metadata was lost; acknowledged mode, deferred NAK
mode): the transaction starts without Metadata; nothing is stored (there is no destination yet),
nothing is queued; everything up to the end of this PDU is recorded as missing -/
theorem C03_first_fd_without_metadata (env : Env) (d0 : DestSt) (h : Hdr) (rc : RemoteCfg) (off : Nat)
    (data : List UInt8) (ha : AdmissibleA env rc h) (himm : rc.imm = false) (hd : data ≠ [])
    (hidle : d0.state = .idle) (hq : d0.queue = []) (hr : d0.numReady = 0) :
    stateMachine env (some (.fd h off data)) d0 = .ok () (noMdSt d0 h rc (off + data.length)) := by
  have hlen : 0 < data.length := by cases data <;> simp_all
  have hne : ¬ data.length = 0 := by omega
  msimp [stateMachine, stateMachineWith, checkInsertedPacket, Pdu.hdr, ha.hdir, ha.hdst, ha.hsrc, Pdu.kind,
    Route.getPacketDestination, hidle, handleFirstPacketNotMetadataPdu, transmissionMode, ha.hmode,
    idleFsm, commonFirstPacketNotMetadataPduHandler, commonFirstPacketHandler, modP,
    handleFdWithoutPreviousMetadata, getP, hlen, hne, himm, Tracker.add, hr, hq,
    nonIdleFsm, fsmAdvancementAfterPacketsWereSent, fsmFromReceiving, fsmFromWaitingForMetadata,
    handleWaitingForMissingMetadata, deferredLostSegmentHandling, fsmFromCheckLimit,
    fsmFromWaitingForMissingData, fsmFromTransferCompletion, fsmFromSendingFinishedPdu, fsmFromWaitingForFinishedAck,
    noMdSt, noMdParams]

/-- **Further File Data PDUs before the Metadata**: only the extent grows -/
theorem C03_fd_without_metadata (env : Env) (d0 : DestSt) (h h' : Hdr) (rc : RemoteCfg) (m off : Nat)
    (data : List UInt8) (ha : AdmissibleA env rc h') (hh : h'.src = h.src ∧ h'.seq = h.seq ∧ h.mode = .ack)
    (himm : rc.imm = false) (hd : data ≠ []) (hq : d0.queue = []) (hr : d0.numReady = 0) :
    stateMachine env (some (.fd h' off data)) (noMdSt d0 h rc m) = .ok () (noMdSt d0 h rc (off + data.length)) := by
  have hlen : 0 < data.length := by cases data <;> simp_all
  have hne : ¬ data.length = 0 := by omega
  have hl : lookupRemote env.cfg.remotes h.src.val = some rc := by rw [← hh.1]; exact ha.hsrc
  msimp [stateMachine, stateMachineWith, checkInsertedPacket, Pdu.hdr, ha.hdir, ha.hdst, ha.hsrc, hl, Pdu.kind,
    Route.getPacketDestination, noMdSt, noMdParams, transmissionMode, hh.2.2, hh.1, hh.2.1,
    modP, handleFdWithoutPreviousMetadata, getP, hlen, hne, himm, Tracker.add, hr, hq,
    nonIdleFsm, fsmAdvancementAfterPacketsWereSent, fsmFromReceiving, fsmFromWaitingForMetadata,
    handleWaitingForMissingMetadata, deferredLostSegmentHandling, fsmFromCheckLimit,
    fsmFromWaitingForMissingData, fsmFromTransferCompletion, fsmFromSendingFinishedPdu, fsmFromWaitingForFinishedAck]

def eofNoMdParams (h : Hdr) (rc : RemoteCfg) (m size : Nat) (crc : List UInt8) : Params :=
  { noMdParams h rc m with progress := size, fileSizeEof := some size, crc32 := crc, trk := [(0, size)] }

/-- the receiver after the EOF, still without Metadata: the EOF is acknowledged -/
def eofNoMdSt (env : Env) (d0 : DestSt) (h : Hdr) (rc : RemoteCfg) (m size : Nat) (crc : List UInt8) : DestSt :=
  { d0 with state := .busy, step := .SENDING_EOF_ACK_PDU, p := eofNoMdParams h rc m size crc,
            queue := [mkAck { h with dir := .toSend } dtEof ccNoError tsActive], numReady := 1,
            inds := d0.inds ++ (if env.cfg.indEofRecv then [.eofRecv ⟨h.src, h.seq⟩] else []) }

/-- **EOF before the Metadata**: size and checksum are recorded, the whole file is recorded as
missing, the EOF is acknowledged -/
theorem C03_eof_without_metadata (env : Env) (d0 : DestSt) (h h' : Hdr) (rc : RemoteCfg) (m size : Nat)
    (crc : List UInt8) (ha : AdmissibleA env rc h') (hh : h'.src = h.src ∧ h'.seq = h.seq ∧ h.mode = .ack)
    (hsz : 0 < size) (hq : d0.queue = []) (hr : d0.numReady = 0) :
    stateMachine env (some (.eof h' ccNoError crc size none)) (noMdSt d0 h rc m) =
      .ok () (eofNoMdSt env d0 h rc m size crc) := by
  have hl : lookupRemote env.cfg.remotes h.src.val = some rc := by rw [← hh.1]; exact ha.hsrc
  cases hi : env.cfg.indEofRecv <;>
  msimp [stateMachine, stateMachineWith, checkInsertedPacket, Pdu.hdr, ha.hdir, ha.hdst, ha.hsrc, hl, Pdu.kind,
    Route.getPacketDestination, noMdSt, noMdParams, transmissionMode, hh.2.2, hh.1, hh.2.1,
    modP, handleEofWithoutPreviousMetadata, getP, hsz, Tracker.add, hr, hq, hi, emitInd,
    prepareEofAckPacket, addPacket, ccNoError,
    nonIdleFsm, fsmAdvancementAfterPacketsWereSent, fsmFromReceiving, fsmFromWaitingForMetadata,
    handleWaitingForMissingMetadata, deferredLostSegmentHandling, fsmFromCheckLimit,
    fsmFromWaitingForMissingData, fsmFromTransferCompletion, fsmFromSendingFinishedPdu, fsmFromWaitingForFinishedAck,
    eofNoMdSt, eofNoMdParams, dtEof]

def defNoMdParams (h : Hdr) (rc : RemoteCfg) (m size now : Nat) (crc : List UInt8) : Params :=
  { eofNoMdParams h rc m size crc with deferredActive := true, lastStart := size, lastEnd := size,
                                       procTimer := some ⟨now, rc.nakMs⟩ }

/-- the receiver after the deferred procedure was started without Metadata -/
def defNoMdSt (env envE : Env) (d0 : DestSt) (h : Hdr) (rc : RemoteCfg) (m size : Nat) (crc : List UInt8) : DestSt :=
  { d0 with state := .busy, step := .WAITING_FOR_METADATA, p := defNoMdParams h rc m size env.now crc,
            queue := [mkNak { h with dir := .toSend } 0 size [(0, 0), (0, size)]], numReady := 1,
            inds := d0.inds ++ (if envE.cfg.indEofRecv then [.eofRecv ⟨h.src, h.seq⟩] else []) }

/-- **The deferred procedure without Metadata** requests the Metadata — `(0, 0)` — and the whole
file — `(0, size)` — in one NAK PDU -/
theorem C03_deferred_without_metadata (env envE : Env) (d0 : DestSt) (h : Hdr) (rc : RemoteCfg) (m size maxSegs : Nat)
    (crc : List UInt8) (hmode : h.mode = .ack)
    (hmax : maxSegReqs rc.maxPkt { h with dir := .toSend } = some maxSegs) (hms : 2 ≤ maxSegs) (hnak : rc.nakMs ≠ 0) :
    stateMachine env none (drained (eofNoMdSt envE d0 h rc m size crc)) =
      .ok () (defNoMdSt env envE d0 h rc m size crc) := by
  unfold stateMachine
  generalize (stateMachineWith env none (stateMachineWith env none (throw Err.recursionError))) = rec
  have hnm : ¬ maxSegs ≤ 0 := by omega
  have hnm1 : ¬ maxSegs ≤ 1 := by omega
  have hpos : 0 < rc.nakMs := by omega
  msimp [stateMachineWith, drained, eofNoMdSt, eofNoMdParams, noMdParams, nonIdleFsm,
    fsmAdvancementAfterPacketsWereSent, startDeferredLostSegmentHandling, getP, modP,
    Tracker.coalesce, Tracker.coalesceGo, deferredLostSegmentHandling, hmax, addPackets,
    nakSequence, splitReqs, hnm, hnm1,
    fsmFromReceiving, fsmFromWaitingForMetadata, handleWaitingForMissingMetadata, fsmFromCheckLimit,
    fsmFromWaitingForMissingData,
    Timer.busy, Timer.timedOut, hnak, hpos,
    fsmFromTransferCompletion, fsmFromSendingFinishedPdu, fsmFromWaitingForFinishedAck, defNoMdSt, defNoMdParams]

def mdLateParams (h : Hdr) (rc : RemoteCfg) (m size nowM : Nat) (crc : List UInt8) (closure : Bool) (cks : Nat)
    (dname : String) : Params :=
  { defNoMdParams h rc m size nowM crc with
      cksType := cks, closure := closure, metadataMissing := false,
      fileName := dname, fileSize := some size, nakCounter := 0,
      procTimer := some ⟨nowM, rc.nakMs⟩,
      fin := ⟨ccNoError, dcIncomplete, fsRetained, none⟩ }

/-- the receiver after the re-sent Metadata arrived during the deferred procedure: the destination
exists (empty), the receiver waits for the whole file -/
def mdLateSt (envM envE : Env) (d0 : DestSt) (h : Hdr) (rc : RemoteCfg) (m size : Nat) (crc : List UInt8)
    (closure : Bool) (cks : Nat) (sname dname : String) (msgs : Option (List Msg)) : DestSt :=
  { d0 with state := .busy, step := .WAITING_FOR_MISSING_DATA,
            p := mdLateParams h rc m size envM.now crc closure cks dname,
            fs := d0.fs.set dname (.file []),
            inds := d0.inds ++ (if envE.cfg.indEofRecv then [.eofRecv ⟨h.src, h.seq⟩] else []) ++
              [.mdRecv (some ⟨h.src, h.seq⟩) h.src (some size) (some sname) (some dname) msgs] }

/-- **The Metadata arrives after the EOF** (re-sent on the NAK): the destination file is created or
truncated, the checksum type and closure flag are recorded, the receiver goes on waiting — now for
file data only; the NAK activity counter and timer restart -/
theorem C03_metadata_late (env envD envE : Env) (d0 : DestSt) (h h' : Hdr) (rc : RemoteCfg) (m size : Nat)
    (crc : List UInt8) (closure : Bool) (cks : Nat) (sname dname : String) (msgs : Option (List Msg))
    (ha : AdmissibleA env rc h') (hh : h'.src = h.src ∧ h'.seq = h.seq ∧ h.mode = .ack)
    (hnak : rc.nakMs ≠ 0) (hq : d0.queue = []) (hr : d0.numReady = 0)
    (hnd : Fs.isDir d0.fs dname = false)
    (hok : (∃ old, d0.fs.get dname = some (.file old)) ∨
           (Fs.exists' d0.fs dname = false ∧ Fs.parentIsDir d0.fs dname = true)) :
    stateMachine env (some (.md h' closure cks size (some sname) (some dname) msgs))
        (drained (defNoMdSt envD envE d0 h rc m size crc)) =
      .ok () (mdLateSt env envE d0 h rc m size crc closure cks sname dname msgs) := by
  have hl : lookupRemote env.cfg.remotes h.src.val = some rc := by rw [← hh.1]; exact ha.hsrc
  have hpos : 0 < rc.nakMs := by omega
  rcases hok with ⟨old, hf⟩ | ⟨h1, h2⟩
  · have hex : Fs.exists' d0.fs dname = true := by simp [Fs.exists', hf]
    have htr : Fs.truncateFile d0.fs dname = .ok (d0.fs.set dname (.file [])) := by simp [Fs.truncateFile, hf]
    msimp [stateMachine, stateMachineWith, checkInsertedPacket, Pdu.hdr, ha.hdir, ha.hdst, ha.hsrc, hl, Pdu.kind,
      Route.getPacketDestination, drained, defNoMdSt, defNoMdParams, eofNoMdParams, noMdParams, transmissionMode,
      hh.2.2, hh.1, hh.2.1, modP, getP, nonIdleFsm, fsmAdvancementAfterPacketsWereSent, fsmFromReceiving,
      fsmFromWaitingForMetadata, handleWaitingForMissingMetadata, handleMetadataPacket, initVfsHandling, hnd, hex, htr,
      emitInd, resetNakActivityParameters, Timer.reset, deferredLostSegmentHandling, Timer.busy, Timer.timedOut, hnak,
      hpos, hq, hr, fsmFromCheckLimit,
      fsmFromWaitingForMissingData, fsmFromTransferCompletion, fsmFromSendingFinishedPdu, fsmFromWaitingForFinishedAck,
      mdLateSt, mdLateParams]
  · have hc : Fs.createFile d0.fs dname = (Fs.CREATE_SUCCESS, d0.fs.set dname (.file [])) := by
      simp [Fs.createFile, h1, h2]
    msimp [stateMachine, stateMachineWith, checkInsertedPacket, Pdu.hdr, ha.hdir, ha.hdst, ha.hsrc, hl, Pdu.kind,
      Route.getPacketDestination, drained, defNoMdSt, defNoMdParams, eofNoMdParams, noMdParams, transmissionMode,
      hh.2.2, hh.1, hh.2.1, modP, getP, nonIdleFsm, fsmAdvancementAfterPacketsWereSent, fsmFromReceiving,
      fsmFromWaitingForMetadata, handleWaitingForMissingMetadata, handleMetadataPacket, initVfsHandling, hnd, h1, hc,
      emitInd, resetNakActivityParameters, Timer.reset, deferredLostSegmentHandling, Timer.busy, Timer.timedOut, hnak,
      hpos, hq, hr, fsmFromCheckLimit,
      fsmFromWaitingForMissingData, fsmFromTransferCompletion, fsmFromSendingFinishedPdu, fsmFromWaitingForFinishedAck,
      mdLateSt, mdLateParams]

def missParams (h : Hdr) (rc : RemoteCfg) (m size tnow : Nat) (crc : List UInt8) (closure : Bool) (cks : Nat)
    (dname : String) (a : Nat) : Params :=
  { mdLateParams h rc m size tnow crc closure cks dname with trk := [(a, size)] }

/-- the receiver waiting for the whole file after the late Metadata: the first `a` bytes have been
re-sent and stored; `ex` = the File-Segment-Recv indications issued meanwhile -/
def missSt (envE : Env) (d0 : DestSt) (h : Hdr) (rc : RemoteCfg) (m size : Nat) (crc : List UInt8)
    (closure : Bool) (cks : Nat) (sname dname : String) (msgs : Option (List Msg)) (F : List UInt8)
    (a tnow : Nat) (ex : List Ind) : DestSt :=
  { d0 with state := .busy, step := .WAITING_FOR_MISSING_DATA,
            p := missParams h rc m size tnow crc closure cks dname a,
            fs := d0.fs.set dname (.file (F.take a)),
            inds := d0.inds ++ (if envE.cfg.indEofRecv then [.eofRecv ⟨h.src, h.seq⟩] else []) ++
              [.mdRecv (some ⟨h.src, h.seq⟩) h.src (some size) (some sname) (some dname) msgs] ++ ex }

theorem mdLateSt_eq_missSt (envM envE : Env) (d0 : DestSt) (h : Hdr) (rc : RemoteCfg) (m size : Nat)
    (crc : List UInt8) (closure : Bool) (cks : Nat) (sname dname : String) (msgs : Option (List Msg))
    (F : List UInt8) :
    mdLateSt envM envE d0 h rc m size crc closure cks sname dname msgs =
      missSt envE d0 h rc m size crc closure cks sname dname msgs F 0 envM.now [] := by
  simp [mdLateSt, missSt, missParams, mdLateParams, defNoMdParams, eofNoMdParams]

/-- **A re-sent tile that is not the last one**: stored, removed from the head of the lost range, the
NAK timer restarts; nothing is requested, nothing completes -/
theorem C03_resent_tile (env envE : Env) (d0 : DestSt) (h h' : Hdr) (rc : RemoteCfg) (m : Nat)
    (crc : List UInt8) (closure : Bool) (cks : Nat) (sname dname : String) (msgs : Option (List Msg))
    (F : List UInt8) (a seg tnow : Nat) (ex : List Ind)
    (ha : AdmissibleA env rc h') (hh : h'.src = h.src ∧ h'.seq = h.seq ∧ h.mode = .ack)
    (hnak : rc.nakMs ≠ 0) (hq : d0.queue = []) (hr : d0.numReady = 0) (hrej : d0.rejects = [])
    (hseg : 0 < seg) (hlt : a + seg < F.length) :
    stateMachine env (some (.fd h' a ((F.drop a).take seg)))
        (missSt envE d0 h rc m F.length crc closure cks sname dname msgs F a tnow ex) =
      .ok () (missSt envE d0 h rc m F.length crc closure cks sname dname msgs F (a + seg) env.now
        (ex ++ (if env.cfg.indSegRecv then [.segRecv (some ⟨h.src, h.seq⟩) a seg] else []))) := by
  have hl : lookupRemote env.cfg.remotes h.src.val = some rc := by rw [← hh.1]; exact ha.hsrc
  have hpos : 0 < rc.nakMs := by omega
  have hdl : ((F.drop a).take seg).length = seg := by simp [List.length_take, List.length_drop]; omega
  have hla : (F.take a).length = a := by simp [List.length_take]; omega
  have hne : ((F.drop a).take seg).isEmpty = false := by
    cases hx : (F.drop a).take seg with
    | nil => rw [hx] at hdl; simp at hdl; omega
    | cons _ _ => rfl
  have hw : Fs.writeBytes (F.take a) ((F.drop a).take seg) a = F.take (a + seg) := by
    have gen : ∀ (P data : List UInt8), data.isEmpty = false → Fs.writeBytes P data P.length = P ++ data := by
      intro P data hd; simp [Fs.writeBytes, hd]
    have hw0 := gen (F.take a) ((F.drop a).take seg) hne
    rw [hla] at hw0
    rw [hw0, List.take_add]
  have h1 : ¬ a > F.length := by omega
  have h2 : ¬ a ≥ F.length := by omega
  have h3 : a + seg ≤ F.length := by omega
  have h4 : ¬ a = a + seg := by omega
  have h5 : ¬ a + seg > F.length := by omega
  have h6 : ¬ a + seg = F.length := by omega
  have h7 : ¬ seg = 0 := by omega
  have hmax : max (a + seg) F.length = F.length := by omega
  cases hi : env.cfg.indSegRecv <;>
  msimp [stateMachine, stateMachineWith, checkInsertedPacket, Pdu.hdr, ha.hdir, ha.hdst, ha.hsrc, hl, Pdu.kind, h7,
    Route.getPacketDestination, missSt, missParams, mdLateParams, defNoMdParams, eofNoMdParams, noMdParams,
    transmissionMode, hh.2.2, hh.1, hh.2.1, modP, getP, nonIdleFsm, fsmAdvancementAfterPacketsWereSent, hq, hr,
    fsmFromReceiving, fsmFromWaitingForMetadata, fsmFromCheckLimit, fsmFromWaitingForMissingData,
    handleFdPdu, fdIndication, hi, emitInd, fdLostSegments, lostSegmentHandling, hdl, h1, h2, h3, h4, h5, h6,
    Tracker.remove, Tracker.lookup, Tracker.erase, Tracker.add,
    fdWrite, vfsWriteData, hrej, Fs.writeData, Fs.C17.get_set_same, hw, fdAfterWrite, sizeErrOf, hmax,
    resetNakActivityParameters, Timer.reset, deferredLostSegmentHandling, Timer.busy, Timer.timedOut, hnak, hpos,
    fsmFromTransferCompletion, fsmFromSendingFinishedPdu, fsmFromWaitingForFinishedAck, fs_set_set]

def finLateParams (h : Hdr) (rc : RemoteCfg) (m size tnow : Nat) (crc : List UInt8) (closure : Bool) (cks : Nat)
    (dname : String) : Params :=
  { mdLateParams h rc m size tnow crc closure cks dname with
      trk := [], deferredActive := false,
      fin := ⟨ccNoError, dcComplete, fsRetained, none⟩,
      ackTimer := some ⟨tnow, rc.ackMs⟩, ackCounter := 0 }

/-- the receiver after the last re-sent tile: complete, verified, Finished PDU queued -/
def finLateSt (env envE : Env) (d0 : DestSt) (h : Hdr) (rc : RemoteCfg) (m size : Nat) (crc : List UInt8)
    (closure : Bool) (cks : Nat) (sname dname : String) (msgs : Option (List Msg)) (F : List UInt8)
    (a : Nat) (ex : List Ind) : DestSt :=
  { d0 with state := .busy, step := .WAITING_FOR_FINISHED_ACK,
            p := finLateParams h rc m size env.now crc closure cks dname,
            fs := d0.fs.set dname (.file F),
            queue := [mkFin { h with dir := .toSend } ⟨ccNoError, dcComplete, fsRetained, none⟩], numReady := 1,
            inds := d0.inds ++ (if envE.cfg.indEofRecv then [.eofRecv ⟨h.src, h.seq⟩] else []) ++
              [.mdRecv (some ⟨h.src, h.seq⟩) h.src (some size) (some sname) (some dname) msgs] ++ ex ++
              (if env.cfg.indSegRecv then [.segRecv (some ⟨h.src, h.seq⟩) a (size - a)] else []) ++
              (if env.cfg.indFinished
                then [.finished (some ⟨h.src, h.seq⟩) ⟨ccNoError, dcComplete, fsRetained, none⟩] else []) }

/-- **The last re-sent tile**: the file is complete; in the same call the checksum is verified, the
user is told (No error, Data complete, File retained), one Finished PDU with those values is queued
and its positive ACK procedure started -/
theorem C03_resent_last_tile (env envE : Env) (d0 : DestSt) (h h' : Hdr) (rc : RemoteCfg) (m : Nat)
    (crc : List UInt8) (closure : Bool) (cks : Nat) (sname dname : String) (msgs : Option (List Msg))
    (F : List UInt8) (a seg tnow : Nat) (ex : List Ind)
    (ha : AdmissibleA env rc h') (hh : h'.src = h.src ∧ h'.seq = h.seq ∧ h.mode = .ack)
    (hnak : rc.nakMs ≠ 0) (hack : rc.ackMs ≠ 0) (hq : d0.queue = []) (hr : d0.numReady = 0) (hrej : d0.rejects = [])
    (hseg : 0 < seg) (hlt : a < F.length) (hend : F.length ≤ a + seg)
    (hver : cks = 15 ∨ ∀ fs : Fs, fs.get dname = some (.file F) →
      Fs.calcChecksum fs (Checksum.CksType.ofNat cks) dname F.length 4096 = .ok crc) :
    stateMachine env (some (.fd h' a ((F.drop a).take seg)))
        (missSt envE d0 h rc m F.length crc closure cks sname dname msgs F a tnow ex) =
      .ok () (finLateSt env envE d0 h rc m F.length crc closure cks sname dname msgs F a ex) := by
  unfold stateMachine
  generalize (stateMachineWith env none (stateMachineWith env none (throw Err.recursionError))) = rec
  have hl : lookupRemote env.cfg.remotes h.src.val = some rc := by rw [← hh.1]; exact ha.hsrc
  have hpos : 0 < rc.nakMs := by omega
  have hpos2 : 0 < rc.ackMs := by omega
  have hdl : ((F.drop a).take seg).length = F.length - a := by simp [List.length_take, List.length_drop]; omega
  have hla : (F.take a).length = a := by simp [List.length_take]; omega
  have hne : ((F.drop a).take seg).isEmpty = false := by
    cases hx : (F.drop a).take seg with
    | nil => rw [hx] at hdl; simp at hdl; omega
    | cons _ _ => rfl
  have hall : (F.drop a).take seg = F.drop a := List.take_of_length_le (by simp [List.length_drop]; omega)
  have hw : Fs.writeBytes (F.take a) ((F.drop a).take seg) a = F := by
    have gen : ∀ (P data : List UInt8), data.isEmpty = false → Fs.writeBytes P data P.length = P ++ data := by
      intro P data hd; simp [Fs.writeBytes, hd]
    have hw0 := gen (F.take a) ((F.drop a).take seg) hne
    rw [hla] at hw0
    rw [hw0, hall, List.take_append_drop]
  have h1 : ¬ a > F.length := by omega
  have h2 : ¬ a ≥ F.length := by omega
  have h3 : a + (F.length - a) ≤ F.length := by omega
  have h4 : ¬ a = a + (F.length - a) := by omega
  have h5 : ¬ a + (F.length - a) > F.length := by omega
  have h6 : a + (F.length - a) = F.length := by omega
  have h7 : ¬ F.length - a = 0 := by omega
  have h8 : ¬ a = F.length := by omega
  have hmax : max (a + (F.length - a)) F.length = F.length := by omega
  have hfile : ∀ fs : Fs, (fs.set dname (.file F)).get dname = some (.file F) := fun fs => Fs.C17.get_set_same _ _ _
  rcases hver with hnull | hc
  · cases hi : env.cfg.indSegRecv <;> cases hf : env.cfg.indFinished <;>
    msimp [stateMachineWith, checkInsertedPacket, Pdu.hdr, ha.hdir, ha.hdst, ha.hsrc, hl, Pdu.kind, h7, h8,
      Route.getPacketDestination, missSt, missParams, mdLateParams, defNoMdParams, eofNoMdParams, noMdParams,
      transmissionMode, hh.2.2, hh.1, hh.2.1, modP, getP, nonIdleFsm, fsmAdvancementAfterPacketsWereSent, hq, hr,
      fsmFromReceiving, fsmFromWaitingForMetadata, fsmFromCheckLimit, fsmFromWaitingForMissingData,
      handleFdPdu, fdIndication, hi, emitInd, fdLostSegments, lostSegmentHandling, hdl, h1, h2, h3, h4, h5, h6,
      Tracker.remove, Tracker.lookup, Tracker.erase, Tracker.add,
      fdWrite, vfsWriteData, hrej, Fs.writeData, Fs.C17.get_set_same, hw, fdAfterWrite, sizeErrOf, hmax,
      resetNakActivityParameters, Timer.reset, deferredLostSegmentHandling, checksumVerify, hnull, markComplete,
      fsmFromTransferCompletion, handleTransferCompletion, noticeOfCompletion, hf,
      fsmFromSendingFinishedPdu, prepareFinishedPdu, addPacket, handleFinishedPduSent, startPositiveAckProcedure,
      fsmFromWaitingForFinishedAck, handleWaitingForFinishedAck, handlePositiveAckProcedures, Timer.timedOut,
      hack, hpos2, fs_set_set, finLateSt, finLateParams]
  · by_cases hnull : cks = 15
    · cases hi : env.cfg.indSegRecv <;> cases hf : env.cfg.indFinished <;>
      msimp [stateMachineWith, checkInsertedPacket, Pdu.hdr, ha.hdir, ha.hdst, ha.hsrc, hl, Pdu.kind, h7, h8,
        Route.getPacketDestination, missSt, missParams, mdLateParams, defNoMdParams, eofNoMdParams, noMdParams,
        transmissionMode, hh.2.2, hh.1, hh.2.1, modP, getP, nonIdleFsm, fsmAdvancementAfterPacketsWereSent, hq, hr,
        fsmFromReceiving, fsmFromWaitingForMetadata, fsmFromCheckLimit, fsmFromWaitingForMissingData,
        handleFdPdu, fdIndication, hi, emitInd, fdLostSegments, lostSegmentHandling, hdl, h1, h2, h3, h4, h5, h6,
        Tracker.remove, Tracker.lookup, Tracker.erase, Tracker.add,
        fdWrite, vfsWriteData, hrej, Fs.writeData, Fs.C17.get_set_same, hw, fdAfterWrite, sizeErrOf, hmax,
        resetNakActivityParameters, Timer.reset, deferredLostSegmentHandling, checksumVerify, hnull, markComplete,
        fsmFromTransferCompletion, handleTransferCompletion, noticeOfCompletion, hf,
        fsmFromSendingFinishedPdu, prepareFinishedPdu, addPacket, handleFinishedPduSent, startPositiveAckProcedure,
        fsmFromWaitingForFinishedAck, handleWaitingForFinishedAck, handlePositiveAckProcedures, Timer.timedOut,
        hack, hpos2, fs_set_set, finLateSt, finLateParams]
    · have hcc := hc ((d0.fs.set dname (.file (F.take a))).set dname (.file F)) (Fs.C17.get_set_same _ _ _)
      rw [fs_set_set] at hcc
      cases hi : env.cfg.indSegRecv <;> cases hf : env.cfg.indFinished <;>
      msimp [stateMachineWith, checkInsertedPacket, Pdu.hdr, ha.hdir, ha.hdst, ha.hsrc, hl, Pdu.kind, h7, h8,
        Route.getPacketDestination, missSt, missParams, mdLateParams, defNoMdParams, eofNoMdParams, noMdParams,
        transmissionMode, hh.2.2, hh.1, hh.2.1, modP, getP, nonIdleFsm, fsmAdvancementAfterPacketsWereSent, hq, hr,
        fsmFromReceiving, fsmFromWaitingForMetadata, fsmFromCheckLimit, fsmFromWaitingForMissingData,
        handleFdPdu, fdIndication, hi, emitInd, fdLostSegments, lostSegmentHandling, hdl, h1, h2, h3, h4, h5, h6,
        Tracker.remove, Tracker.lookup, Tracker.erase, Tracker.add,
        fdWrite, vfsWriteData, hrej, Fs.writeData, Fs.C17.get_set_same, hw, fdAfterWrite, sizeErrOf, hmax,
        resetNakActivityParameters, Timer.reset, deferredLostSegmentHandling, checksumVerify, hnull, hcc, markComplete,
        fsmFromTransferCompletion, handleTransferCompletion, noticeOfCompletion, hf,
        fsmFromSendingFinishedPdu, prepareFinishedPdu, addPacket, handleFinishedPduSent, startPositiveAckProcedure,
        fsmFromWaitingForFinishedAck, handleWaitingForFinishedAck, handlePositiveAckProcedures, Timer.timedOut,
        hack, hpos2, fs_set_set, finLateSt, finLateParams]

/-! ### inductions over the tiles, and the composition -/

/-- the receiver takes the sender's tiles without having seen the Metadata: nothing is stored, the
extent is recorded -/
theorem C03_tiles_without_metadata (env : Env) (d0 : DestSt) (conf : Hdr) (rc : RemoteCfg) (F : List UInt8)
    (seg : Nat) (hseg : 0 < seg) (ha : AdmissibleA env rc { conf with dir := .toRecv }) (himm : rc.imm = false)
    (hidle : d0.state = .idle) (hq : d0.queue = []) (hr : d0.numReady = 0) :
    ∀ k, (k * seg < F.length) →
      feedPdus env ((List.range (k + 1)).map (Source.C07.tile conf F seg 0)) d0 =
        some (noMdSt d0 { conf with dir := .toRecv } rc (min ((k + 1) * seg) F.length)) := by
  intro k
  induction k with
  | zero =>
    intro hk
    have hF : 0 < F.length := by simpa using hk
    have hl0 : ((F.drop 0).take seg).length = min seg F.length := by simp [List.length_take]
    have hd : (F.drop 0).take seg ≠ [] := by
      intro h0
      rw [h0] at hl0
      simp at hl0; omega
    have h1 := C03_first_fd_without_metadata env d0 { conf with dir := .toRecv } rc 0 ((F.drop 0).take seg) ha himm hd
      hidle hq hr
    have hl : ((F.drop 0).take seg).length = min seg F.length := by simp [List.length_take]
    simp only [List.range_one, List.map_cons, List.map_nil, feedPdus, Source.C07.tile, Source.mkFd, Nat.zero_mul,
      Nat.add_zero, h1, hl, Nat.zero_add, Nat.one_mul]
  | succ k ih =>
    intro hk
    have hk' : k * seg < F.length := by
      have : k * seg ≤ (k + 1) * seg := Nat.mul_le_mul_right _ (by omega)
      omega
    have hprev := ih hk'
    have e1 : (k + 1) * seg = k * seg + seg := by rw [Nat.add_mul, Nat.one_mul]
    have e2 : (k + 1 + 1) * seg = (k + 1) * seg + seg := by rw [Nat.add_mul, Nat.one_mul]
    have hd : (F.drop ((k + 1) * seg)).take seg ≠ [] := by
      intro h0
      have := congrArg List.length h0
      simp [List.length_take, List.length_drop] at this; omega
    have hstep := C03_fd_without_metadata env d0 { conf with dir := .toRecv } { conf with dir := .toRecv } rc
      (min ((k + 1) * seg) F.length) ((k + 1) * seg) ((F.drop ((k + 1) * seg)).take seg) ha ⟨rfl, rfl, ha.hmode⟩ himm hd hq hr
    have hl : ((F.drop ((k + 1) * seg)).take seg).length = min seg (F.length - (k + 1) * seg) := by
      simp [List.length_take, List.length_drop]
    have hm : (k + 1) * seg + min seg (F.length - (k + 1) * seg) = min ((k + 1 + 1) * seg) F.length := by omega
    rw [List.range_succ, List.map_append, feedPdus_append, hprev]
    simp only [Option.bind, List.map_cons, List.map_nil, feedPdus, Source.C07.tile, Source.mkFd, Nat.zero_add, hstep,
      hl, hm]

/-- the re-sent tiles but the last: each is stored and removed from the head of the lost range -/
theorem C03_resent_tiles (env envE : Env) (d0 : DestSt) (conf : Hdr) (rc : RemoteCfg) (m : Nat)
    (crc : List UInt8) (closure : Bool) (cks : Nat) (sname dname : String) (msgs : Option (List Msg))
    (F : List UInt8) (seg t0 : Nat)
    (ha : AdmissibleA env rc { conf with dir := .toRecv })
    (hnak : rc.nakMs ≠ 0) (hq : d0.queue = []) (hr : d0.numReady = 0) (hrej : d0.rejects = [])
    (hseg : 0 < seg) :
    ∀ j, j * seg < F.length →
      ∃ t ex, feedPdus env ((List.range j).map (Source.C07.tile conf F seg 0))
          (missSt envE d0 { conf with dir := .toRecv } rc m F.length crc closure cks sname dname msgs F 0 t0 []) =
        some (missSt envE d0 { conf with dir := .toRecv } rc m F.length crc closure cks sname dname msgs F (j * seg) t ex) ∧
        ex.filter isFinished = [] := by
  intro j
  induction j with
  | zero => intro _; exact ⟨t0, [], by simp [feedPdus], rfl⟩
  | succ j ih =>
    intro hj
    have e1 : (j + 1) * seg = j * seg + seg := by rw [Nat.add_mul, Nat.one_mul]
    obtain ⟨t, ex, hfeed, hex⟩ := ih (by omega)
    have hstep := C03_resent_tile env envE d0 { conf with dir := .toRecv } { conf with dir := .toRecv } rc m crc closure cks
      sname dname msgs F (j * seg) seg t ex ha ⟨rfl, rfl, ha.hmode⟩ hnak hq hr hrej hseg (by omega)
    refine ⟨env.now, ex ++ (if env.cfg.indSegRecv
      then [.segRecv (some ⟨conf.src, conf.seq⟩) (j * seg) seg] else []), ?_, ?_⟩
    · rw [List.range_succ, List.map_append, feedPdus_append, hfeed]
      simp only [Option.bind, List.map_cons, List.map_nil, feedPdus, Source.C07.tile, Source.mkFd, Nat.zero_add, hstep, e1]
    · simp only [List.filter_append, hex]
      cases env.cfg.indSegRecv <;> simp [isFinished]

open Source.C07 Source.C19 in
/-- **End to end with the Metadata PDU lost (deferred NAK mode): the two models composed.**  The
first PDU the receiver sees is File Data: it starts the transaction without a destination, stores
nothing and records the extent; it acknowledges the EOF; its next call requests, in one NAK PDU, the
Metadata — `(0, 0)` — and the whole file — `(0, |F|)`.  The sender answers with exactly the original
Metadata PDU followed by exactly the original tiles.  The receiver creates the destination, stores
the tiles — each one shrinks the lost range from its head —, verifies with the last one and emits the
Finished PDU; the closing handshake follows.  No call raises; both end idle; the destination file is
byte-identical; one successful Transaction-Finished indication on each side; no fault callback. -/
theorem C03_end_to_end_metadata_loss (envS : Source.Env) (envD : Dest.Env) (s : Source.SrcSt) (d0 : Dest.DestSt)
    (req : Source.PutReq) (rcS rcD : RemoteCfg) (src dst : String) (F crc : List UInt8) (seg n maxSegs : Nat)
    (tA tD1 tN tD2 tF tD3 tC : Nat)
    (hst : s.state = .busy) (hstep : s.step = .IDLE) (hq : s.queue = []) (hreq : s.putReq = some req)
    (hpmo : s.p.metadataOnly = false) (hsrc : req.src = some src) (hdst : req.dst = some dst)
    (hfile : s.fs.get src = some (.file F)) (hF : F ≠ []) (hprog : s.p.progress = 0)
    (hrc : s.p.remoteCfg = some rcS) (hrcid : rcS.entityId.val = req.destId.val)
    (hbits : s.prov.bits = 8 ∨ s.prov.bits = 16 ∨ s.prov.bits = 32)
    (hseg : Source.segLenOf rcS (startConf envS req rcS s (decide (F.length > 4294967295))) = some seg)
    (hseg0 : 0 < seg) (hmode : s.p.conf.mode = .ack) (hct : s.p.checkTimer = none)
    (hk : n * seg < F.length ∧ F.length ≤ (n + 1) * seg)
    (hcks : Checksum.calcChecksum (Checksum.CksType.ofNat rcS.cks) F F.length seg = .ok crc)
    (hnull : Checksum.CksType.ofNat rcS.cks ≠ .null) (hlen : crc.length = 4) (hack : rcS.ackMs ≠ 0)
    (ha : AdmissibleA envD rcD { startConf envS req rcS s (decide (F.length > 4294967295)) with dir := .toRecv })
    (hackD : rcD.ackMs ≠ 0) (hnak : rcD.nakMs ≠ 0) (himm : rcD.imm = false)
    (hmaxs : maxSegReqs rcD.maxPkt
      (let c := startConf envS req rcS s (decide (F.length > 4294967295))
       ⟨.toSend, c.mode, c.crc, c.large, c.src, c.dst, c.seq⟩) = some maxSegs) (hmax2 : 2 ≤ maxSegs)
    (hidle : d0.state = .idle) (hdq : d0.queue = []) (hdr : d0.numReady = 0) (hrej : d0.rejects = [])
    (hfl : d0.flts = []) (hnd : Fs.isDir d0.fs dst = false)
    (hok : (∃ old, d0.fs.get dst = some (.file old)) ∨
           (Fs.exists' d0.fs dst = false ∧ Fs.parentIsDir d0.fs dst = true)) :
    let conf := startConf envS req rcS s (decide (F.length > 4294967295))
    let cd : Hdr := ⟨.toSend, conf.mode, conf.crc, conf.large, conf.src, conf.dst, conf.seq⟩
    let fpOk : FinishedParams := ⟨ccNoError, dcComplete, fsRetained, none⟩
    let md := Source.mkMd conf s.p.closure rcS.cks F.length (some src) (some dst) (some (req.msgs.getD []))
    let tiles := (List.range (n + 1)).map (tile conf F seg 0)
    let nak : Pdu := .nak cd 0 F.length [(0, 0), (0, F.length)]
    ∃ s3 d5 s4 d6 s5 d7 s6 d8 s7,
      -- the sender's run; the Metadata PDU is lost, the rest arrives; the EOF is acknowledged
      rounds envS (1 + (n + 1) + 1) s = some ([md] ++ tiles ++ [Source.mkEof conf ccNoError crc F.length], s3) ∧
      feedPdus envD (tiles ++ [Source.mkEof conf ccNoError crc F.length]) d0 = some d5 ∧
      d5.queue = [.ack cd dtEof ccNoError tsActive] ∧ d5.fs = d0.fs ∧
      Source.stateMachine ⟨envS.cfg, tA⟩ (some (.ack cd dtEof ccNoError tsActive)) s3 = .ok () s4 ∧
      -- one NAK: the Metadata and the whole file; the answer: the original Metadata and tiles
      Dest.stateMachine ⟨envD.cfg, tD1⟩ none (drained d5) = .ok () d6 ∧ d6.queue = [nak] ∧
      Source.stateMachine ⟨envS.cfg, tN⟩ (some nak) s4 = .ok () s5 ∧ s5.queue = [md] ++ tiles ∧
      feedPdus ⟨envD.cfg, tD2⟩ ([md] ++ tiles) (drained d6) = some d7 ∧ d7.queue = [.fin cd fpOk] ∧
      -- closing handshake
      Source.stateMachine ⟨envS.cfg, tF⟩ (some (.fin cd fpOk)) (Source.C07.drained s5) = .ok () s6 ∧
      s6.queue = [Source.mkAck conf dtFinished ccNoError tsActive] ∧
      Dest.stateMachine ⟨envD.cfg, tD3⟩ (some (Source.mkAck conf dtFinished ccNoError tsActive)) (drained d7) = .ok () d8 ∧
      Source.stateMachine ⟨envS.cfg, tC⟩ none (Source.C07.drained s6) = .ok () s7 ∧
      s7.state = .idle ∧ d8.state = .idle ∧ s7.queue = [] ∧ d8.queue = [] ∧
      d8.fs.get dst = some (.file F) ∧ (∀ q, q ≠ dst → d8.fs.get q = d0.fs.get q) ∧ s7.fs = s.fs ∧
      d8.flts = [] ∧ s7.flts = s.flts ∧
      s7.inds.filter isFinished = s.inds.filter isFinished ++
        (if envS.cfg.indFinished then [.finished (some ⟨envS.cfg.entityId, ⟨s.prov.next, s.prov.bits / 8⟩⟩) fpOk]
         else []) ∧
      d8.inds.filter isFinished = d0.inds.filter isFinished ++
        (if envD.cfg.indFinished then [.finished (some ⟨conf.src, conf.seq⟩) fpOk] else []) := by
  intro conf cd fpOk md tiles nak
  let tid : Tid := ⟨envS.cfg.entityId, ⟨s.prov.next, s.prov.bits / 8⟩⟩
  have hsrcv : conf.src.val = envS.cfg.entityId.val := by simp [conf, startConf]
  have hdstv : conf.dst.val = rcS.entityId.val := by simp [conf, startConf, hrcid]
  have hmodeC : conf.mode = .ack := by simp [conf, startConf, hmode]
  have e1 : (n + 1) * seg = n * seg + seg := by rw [Nat.add_mul, Nat.one_mul]
  have hFl : 0 < F.length := by
    cases F with
    | nil => exact absurd rfl hF
    | cons _ _ => simp
  have haT : ∀ t, AdmissibleA ⟨envD.cfg, t⟩ rcD { conf with dir := .toRecv } := fun t => ⟨rfl, ha.hdst, ha.hsrc, ha.hmode⟩
  -- the sender's run
  obtain ⟨s3, hrun, hS3, hstep3, -, -, hsz3, -, -, hct3, hfs3, hfl3, hin3, hcl3⟩ :=
    C03_sender_run_to_eof envS s req rcS src dst F crc seg (n + 1) hst hstep hq hreq hpmo hsrc hdst hfile hF hprog hrc
      hbits hseg hseg0 hmode hct (by simpa using hk) hcks hnull hlen hack
  have hadm3 : AdmissibleS ⟨envS.cfg, tA⟩ s3 rcS cd :=
    { hdir := rfl, hsrc := hsrcv, hrc := hS3.hrc, hdst := hdstv, hseq := by rw [hS3.hconf],
      hmode := by rw [hS3.hconf]; exact hmodeC }
  have h4 := C02_source_eof_acked ⟨envS.cfg, tA⟩ s3 rcS cd ccNoError tsActive req hadm3 hS3.hbusy hstep3 hS3.hqueue
    hS3.hreq hct3
  have hW4 : WaitingFinS { s3 with step := .WAITING_FOR_FINISHED } req src F seg conf rcS tid :=
    ⟨hS3.hbusy, rfl, hS3.hqueue, hS3.hreq, hS3.hsrc, hS3.hfile, hS3.hseg, hS3.hprog, hS3.hconf, hS3.hrc, hS3.htid⟩
  -- the receiver up to the EOF
  have htiles := C03_tiles_without_metadata envD d0 conf rcD F seg hseg0 ha himm hidle hdq hdr n hk.1
  have hmin : min ((n + 1) * seg) F.length = F.length := by omega
  rw [hmin] at htiles
  have heof := C03_eof_without_metadata envD d0 { conf with dir := .toRecv } { conf with dir := .toRecv } rcD F.length F.length crc ha ⟨rfl, rfl, ha.hmode⟩ hFl hdq hdr
  have hfeed1 : feedPdus envD (tiles ++ [Source.mkEof conf ccNoError crc F.length]) d0 =
      some (eofNoMdSt envD d0 { conf with dir := .toRecv } rcD F.length F.length crc) := by
    rw [feedPdus_append, htiles]
    simp only [Option.bind, feedPdus, Source.mkEof, heof]
  -- the deferred procedure
  have hdef := C03_deferred_without_metadata ⟨envD.cfg, tD1⟩ envD d0 { conf with dir := .toRecv } rcD F.length F.length maxSegs crc ha.hmode
    (by simpa [conf] using hmaxs) hmax2 hnak
  -- the sender's answer
  have hadm4 : AdmissibleS ⟨envS.cfg, tN⟩ { s3 with step := .WAITING_FOR_FINISHED } rcS cd :=
    { hdir := rfl, hsrc := hsrcv, hrc := hS3.hrc, hdst := hdstv,
      hseq := by show cd.seq.val = s3.p.conf.seq.val; rw [hS3.hconf],
      hmode := by show s3.p.conf.mode = .ack; rw [hS3.hconf]; exact hmodeC }
  have h5 := C03_sender_serves_metadata_and_file ⟨envS.cfg, tN⟩ { s3 with step := .WAITING_FOR_FINISHED } rcS cd req
    src dst F seg (n + 1) 0 F.length conf tid hadm4 hW4 hdst hsz3 hseg0 (by simpa using hk) hF
  have hcl : ({ s3 with step := .WAITING_FOR_FINISHED } : Source.SrcSt).p.closure = s.p.closure := hcl3
  rw [hcl] at h5
  -- the receiver takes the Metadata and the tiles
  have hmdl := C03_metadata_late ⟨envD.cfg, tD2⟩ ⟨envD.cfg, tD1⟩ envD d0 { conf with dir := .toRecv } { conf with dir := .toRecv } rcD F.length F.length crc s.p.closure rcS.cks src
    dst (some (req.msgs.getD [])) (haT tD2) ⟨rfl, rfl, ha.hmode⟩ hnak hdq hdr hnd hok
  rw [mdLateSt_eq_missSt _ _ _ _ _ _ _ _ _ _ _ _ _ F] at hmdl
  obtain ⟨t, ex, hres, hex⟩ := C03_resent_tiles ⟨envD.cfg, tD2⟩ envD d0 conf rcD F.length crc s.p.closure rcS.cks src dst
    (some (req.msgs.getD [])) F seg tD2 (haT tD2) hnak hdq hdr hrej hseg0 n hk.1
  have hcrc : rcS.cks = 15 ∨ ∀ fs : Fs, fs.get dst = some (.file F) →
      Fs.calcChecksum fs (Checksum.CksType.ofNat rcS.cks) dst F.length 4096 = .ok crc := by
    right
    intro fs hf
    have := Checksum.C09.C09_chunk_length_irrelevant (Checksum.CksType.ofNat rcS.cks) F F.length seg 4096
      (by omega) (by omega)
    simp [Fs.calcChecksum, hnull, hf, ← this, hcks]
  have hlast := C03_resent_last_tile ⟨envD.cfg, tD2⟩ envD d0 { conf with dir := .toRecv } { conf with dir := .toRecv } rcD F.length crc s.p.closure rcS.cks src dst
    (some (req.msgs.getD [])) F (n * seg) seg t ex (haT tD2) ⟨rfl, rfl, ha.hmode⟩ hnak hackD hdq hdr hrej hseg0 hk.1
    (by omega) hcrc
  have hfeed2 : feedPdus ⟨envD.cfg, tD2⟩ ([md] ++ tiles)
      (drained (defNoMdSt ⟨envD.cfg, tD1⟩ envD d0 { conf with dir := .toRecv } rcD F.length F.length crc)) =
      some (finLateSt ⟨envD.cfg, tD2⟩ envD d0 { conf with dir := .toRecv } rcD F.length F.length crc s.p.closure rcS.cks src dst
        (some (req.msgs.getD [])) F (n * seg) ex) := by
    simp only [List.singleton_append, feedPdus, md, Source.mkMd, hmdl, tiles, List.range_succ, List.map_append,
      feedPdus_append, hres, Option.bind, List.map_cons, List.map_nil, tile, Source.mkFd, Nat.zero_add, hlast]
  -- the closing handshake
  have hadm6 : AdmissibleS ⟨envS.cfg, tF⟩
      (Source.C07.drained (retransS { s3 with step := .WAITING_FOR_FINISHED } ([md] ++ tiles))) rcS cd :=
    { hdir := rfl, hsrc := hsrcv, hrc := hS3.hrc, hdst := hdstv,
      hseq := by show cd.seq.val = s3.p.conf.seq.val; rw [hS3.hconf],
      hmode := by show s3.p.conf.mode = .ack; rw [hS3.hconf]; exact hmodeC }
  have h6 := C03_sender_finished_after_retransmission ⟨envS.cfg, tF⟩
    (Source.C07.drained (retransS { s3 with step := .WAITING_FOR_FINISHED } ([md] ++ tiles))) rcS cd fpOk req hadm6
    hS3.hbusy rfl rfl rfl hS3.hreq
  have h7 := C02_finished_acked ⟨envD.cfg, tD3⟩
    (drained (finLateSt ⟨envD.cfg, tD2⟩ envD d0 { conf with dir := .toRecv } rcD F.length F.length crc s.p.closure rcS.cks src dst
      (some (req.msgs.getD [])) F (n * seg) ex))
    rcD { conf with dir := .toRecv } ccNoError tsActive (haT tD3) rfl rfl rfl
    (by simp [C02.drained, finLateSt, finLateParams, mdLateParams, defNoMdParams, eofNoMdParams, noMdParams]; exact hmodeC)
  have h8 := C02_source_completion ⟨envS.cfg, tC⟩
    (Source.C07.drained (afterFinS (waitFinS
      (Source.C07.drained (retransS { s3 with step := .WAITING_FOR_FINISHED } ([md] ++ tiles)))) fpOk)) fpOk tid req
    hS3.hbusy rfl rfl hS3.hreq rfl hS3.htid
  refine ⟨s3, _, _, _, _, _, _,
    idleOf (drained (finLateSt ⟨envD.cfg, tD2⟩ envD d0 { conf with dir := .toRecv } rcD F.length F.length crc s.p.closure rcS.cks src dst
      (some (req.msgs.getD [])) F (n * seg) ex)), _,
    hrun, hfeed1, ?_, rfl, h4, hdef, ?_, h5, rfl, hfeed2, ?_, h6, ?_, ?_, h8, rfl, rfl, rfl, rfl, ?_, ?_, ?_, ?_, ?_, ?_,
    ?_⟩
  · simp [eofNoMdSt, Dest.mkAck, dtEof, dtFinished, cd]
  · simp [defNoMdSt, Dest.mkNak, nak, cd]
  · simp [finLateSt, Dest.mkFin, cd, fpOk]
  · show [Source.mkAck s3.p.conf dtFinished fpOk.cond tsActive] = _
    rw [hS3.hconf]
  · simpa [Source.mkAck, dtFinished, idleOf] using h7
  · simp [idleOf, C02.drained, finLateSt, Fs.C17.get_set_same]
  · intro q hq'
    simp only [idleOf, C02.drained, finLateSt]
    rw [Fs.C17.get_set_other _ _ _ _ hq']
  · simp [Source.C07.drained, afterFinS, waitFinS, retransS, hfs3]
  · simp [idleOf, C02.drained, finLateSt, hfl]
  · simp [Source.C07.drained, afterFinS, waitFinS, retransS, hfl3]
  · simp only [Source.C07.drained, afterFinS, waitFinS, retransS, List.filter_append, hin3]
    cases envS.cfg.indFinished <;> simp [isFinished, fpOk, tid]
  · simp only [idleOf, C02.drained, finLateSt, List.filter_append, hex]
    cases envD.cfg.indEofRecv <;> cases envD.cfg.indSegRecv <;> cases envD.cfg.indFinished <;>
      simp [isFinished, fpOk]


/-! ## The last File Data PDU is lost -/

/-- a request of at most one segment is served with one chunk -/
theorem chunkPdus_one_chunk (conf : Hdr) (F : List UInt8) (seg a len : Nat) (hlen : 0 < len) (hle : len ≤ seg) :
    Source.C08.chunkPdus conf F seg len a len = [Source.mkFd conf a ((F.drop a).take len)] := by
  obtain ⟨n, rfl⟩ : ∃ n, len = n + 1 := ⟨len - 1, by omega⟩
  have hmin : min (n + 1) seg = n + 1 := by omega
  cases n with
  | zero => simp [Source.C08.chunkPdus, hmin]
  | succ n => simp [Source.C08.chunkPdus, hmin]

/-- **NAK for a range of at most one segment at the sender** (it waits for the Finished PDU or is in
the retransmission step of an earlier NAK): one File Data PDU with exactly the requested bytes -/
theorem C03_sender_serves_short_request (env : Source.Env) (s : Source.SrcSt) (rc : RemoteCfg) (h : Hdr)
    (req : Source.PutReq) (src : String) (F : List UInt8) (a b sos eos : Nat)
    (ha : AdmissibleS env s rc h) (hb : s.state = .busy)
    (hstep : s.step = .WAITING_FOR_FINISHED ∨
      (s.step = .RETRANSMITTING ∧ s.stepBefore = some .WAITING_FOR_FINISHED))
    (hq : s.queue = []) (hreq : s.putReq = some req) (hsrc : req.src = some src)
    (hfile : s.fs.get src = some (.file F)) (hab : a < b) (hle : b - a ≤ s.p.segmentLen)
    (hbp : b ≤ s.p.progress) :
    Source.stateMachine env (some (.nak h sos eos [(a, b)])) s =
      .ok () (retransS s [Source.mkFd s.p.conf a ((F.drop a).take (b - a))]) := by
  have hseg : 0 < s.p.segmentLen := by omega
  obtain ⟨st, stp, nr, p, sb, pr, q, fs, fl, pv, ind, flt⟩ := s
  have h1 := ha.hrc; have h2 := ha.hseq; have h3 := ha.hmode
  simp only at hb hq hreq hfile hle hbp h1 h2 h3 hseg hstep
  subst hb hq hreq
  have hserve := Source.C08.C08_valid_request_served
    (⟨.busy, .WAITING_FOR_FINISHED, nr, p, some .WAITING_FOR_FINISHED, some req, [], fs, fl, pv, ind, flt⟩ : Source.SrcSt)
    req src F a b rfl hsrc hfile hseg (by omega) (by omega) hbp
  have hserve2 := Source.C08.C08_valid_request_served
    (⟨.busy, .WAITING_FOR_FINISHED, nr, p, sb, some req, [], fs, fl, pv, ind, flt⟩ : Source.SrcSt)
    req src F a b rfl hsrc hfile hseg (by omega) (by omega) hbp
  simp only [chunkPdus_one_chunk _ _ _ _ _ (by omega : 0 < b - a) hle, List.nil_append] at hserve hserve2
  rcases hstep with hs | ⟨hs, hsb⟩
  · subst hs
    msimp [Source.stateMachine, Source.checkInsertedPacket, Pdu.hdr, ha.hdir, ha.hsrc, h1, ha.hdst, h2,
      Pdu.kind, Route.getPacketDestination, h3, Source.fsmNonIdle,
      Source.fsmAdvancementAfterPacketsWereSent, Source.fsmFromSendingFileData, Source.fsmFromSendingEof,
      Source.fsmFromWaitingForEofAck,
      Source.fsmFromWaitingForFinished, Source.handleWaitForFinish, Source.transmissionMode,
      Source.handleRetransmission, Source.handleSegmentReqs, hserve2, Source.modP, Source.getP, Source.addPacket,
      Source.fsmFromNoticeOfCompletion, retransS]
  · subst hs hsb
    msimp [Source.stateMachine, Source.checkInsertedPacket, Pdu.hdr, ha.hdir, ha.hsrc, h1, ha.hdst, h2,
      Pdu.kind, Route.getPacketDestination, h3, Source.fsmNonIdle,
      Source.fsmAdvancementAfterPacketsWereSent, Source.fsmFromSendingFileData, Source.fsmFromSendingEof,
      Source.fsmFromWaitingForEofAck,
      Source.fsmFromWaitingForFinished, Source.handleWaitForFinish, Source.transmissionMode,
      Source.handleRetransmission, Source.handleSegmentReqs, hserve, Source.modP, Source.getP, Source.addPacket,
      Source.fsmFromNoticeOfCompletion, retransS]

/-- **Recovery, from the state in which the receiver waits for the bytes `[a, b)`, at most one segment
long** (general stored content `G`): as `C03_recovery_from_waiting`, for any lost range of at most one
segment whose arrival completes the file — in particular a shorter last tile. -/
theorem C03_recovery_from_waiting_short (cfgS cfgD : LocalCfg) (sW : Source.SrcSt) (dW : DestSt)
    (req : Source.PutReq) (src dst : String) (F crc G : List UInt8) (seg a b m : Nat) (conf : Hdr)
    (rcS rcD : RemoteCfg) (tid : Tid) (cksN : Nat) (tm : Timer) (t1 t2 t3 t4 t5 : Nat)
    (hS : SentAllS sW req src F seg conf rcS tid)
    (hstep : sW.step = .WAITING_FOR_FINISHED ∨
      (sW.step = .RETRANSMITTING ∧ sW.stepBefore = some .WAITING_FOR_FINISHED))
    (hW : Waiting dW dst F crc a b rcD ⟨conf.src, conf.seq⟩ cksN
      ⟨.toSend, conf.mode, conf.crc, conf.large, conf.src, conf.dst, conf.seq⟩ tm G m)
    (ha : ∀ t, AdmissibleA ⟨cfgD, t⟩ rcD { conf with dir := .toRecv })
    (hsrcv : conf.src.val = cfgS.entityId.val) (hdstv : conf.dst.val = rcS.entityId.val)
    (hab : a < b) (hle : b - a ≤ seg) (hbF : b ≤ F.length) (hackD : rcD.ackMs ≠ 0)
    (hw : Fs.writeBytes G ((F.drop a).take (b - a)) a = F) (h7 : max b m = F.length)
    (hver : cksN = 15 ∨ ∀ fs : Fs, fs.get dst = some (.file F) →
      Fs.calcChecksum fs (Checksum.CksType.ofNat cksN) dst F.length 4096 = .ok crc) :
    let cd : Hdr := ⟨.toSend, conf.mode, conf.crc, conf.large, conf.src, conf.dst, conf.seq⟩
    let fpOk : FinishedParams := ⟨ccNoError, dcComplete, fsRetained, none⟩
    let lost := Source.mkFd conf a ((F.drop a).take (b - a))
    ∃ s5 d7 s6 d8 s7,
      Source.stateMachine ⟨cfgS, t1⟩ (some (.nak cd 0 F.length [(a, b)])) sW = .ok () s5 ∧ s5.queue = [lost] ∧
      Dest.stateMachine ⟨cfgD, t2⟩ (some lost) dW = .ok () d7 ∧ d7.queue = [.fin cd fpOk] ∧
      Source.stateMachine ⟨cfgS, t3⟩ (some (.fin cd fpOk)) (Source.C07.drained s5) = .ok () s6 ∧
      s6.queue = [Source.mkAck conf dtFinished ccNoError tsActive] ∧
      Dest.stateMachine ⟨cfgD, t4⟩ (some (Source.mkAck conf dtFinished ccNoError tsActive)) (drained d7) = .ok () d8 ∧
      Source.stateMachine ⟨cfgS, t5⟩ none (Source.C07.drained s6) = .ok () s7 ∧
      s7.state = .idle ∧ d8.state = .idle ∧ s7.queue = [] ∧ d8.queue = [] ∧
      d8.fs.get dst = some (.file F) ∧ (∀ q, q ≠ dst → d8.fs.get q = dW.fs.get q) ∧ s7.fs = sW.fs ∧
      d8.flts = dW.flts ∧ s7.flts = sW.flts ∧
      s7.inds.filter isFinished = sW.inds.filter isFinished ++
        (if cfgS.indFinished then [.finished (some tid) fpOk] else []) ∧
      d8.inds.filter isFinished = dW.inds.filter isFinished ++
        (if cfgD.indFinished then [.finished (some ⟨conf.src, conf.seq⟩) fpOk] else []) := by
  intro cd fpOk lost
  have hmodeS : conf.mode = .ack := hW.hmode
  have hadm : ∀ t (s' : Source.SrcSt), s'.p = sW.p → AdmissibleS ⟨cfgS, t⟩ s' rcS cd := fun t s' hp =>
    { hdir := rfl, hsrc := hsrcv, hrc := by rw [hp]; exact hS.hrc, hdst := hdstv,
      hseq := by rw [hp, hS.hconf], hmode := by rw [hp, hS.hconf]; exact hmodeS }
  have h5 := C03_sender_serves_short_request ⟨cfgS, t1⟩ sW rcS cd req src F a b 0 F.length (hadm t1 sW rfl) hS.hbusy
    hstep hS.hqueue hS.hreq hS.hsrc hS.hfile hab (by rw [hS.hseg]; exact hle) (by rw [hS.hprog]; exact hbF)
  rw [hS.hconf] at h5
  have hret := C03_retransmission_completes ⟨cfgD, t2⟩ dW dst F crc a b rcD _ cksN _ { conf with dir := .toRecv } tm _ _ hW
    (ha t2) hab hbF hackD hw h7 hver
  have h6 := C03_sender_finished_after_retransmission ⟨cfgS, t3⟩ (Source.C07.drained (retransS sW [lost])) rcS cd
    fpOk req (hadm t3 _ rfl) hS.hbusy rfl rfl rfl hS.hreq
  have hfa := C02_finished_acked ⟨cfgD, t4⟩
    (drained (afterRetransmission ⟨cfgD, t2⟩ dW dst F a b ⟨conf.src, conf.seq⟩ rcD tm))
    rcD { conf with dir := .toRecv } ccNoError tsActive (ha t4) hW.hbusy rfl rfl
    (by simp [drained, afterRetransmission, doneP, hW.hconf]; exact hmodeS)
  have h7' := C02_source_completion ⟨cfgS, t5⟩
    (Source.C07.drained (afterFinS (waitFinS (Source.C07.drained (retransS sW [lost]))) fpOk)) fpOk tid req
    hS.hbusy rfl rfl hS.hreq rfl hS.htid
  refine ⟨_, _, _, idleOf (drained (afterRetransmission ⟨cfgD, t2⟩ dW dst F a b ⟨conf.src, conf.seq⟩ rcD tm)), _,
    h5, rfl, hret, ?_, h6, ?_, ?_, h7', rfl, rfl, rfl, rfl, ?_, ?_, rfl, rfl, rfl, ?_, ?_⟩
  · simp [afterRetransmission, Dest.mkFin, hW.hconf, cd, fpOk]
  · show [Source.mkAck sW.p.conf dtFinished fpOk.cond tsActive] = _
    rw [hS.hconf]
  · simpa [Source.mkAck, dtFinished, idleOf] using hfa
  · simp [idleOf, drained, afterRetransmission, Fs.C17.get_set_same]
  · intro q hq'
    simp only [idleOf, drained, afterRetransmission]
    rw [Fs.C17.get_set_other _ _ _ _ hq']
  · simp only [Source.C07.drained, afterFinS, waitFinS, retransS, List.filter_append]
    cases cfgS.indFinished <;> simp [isFinished, fpOk]
  · simp only [idleOf, drained, afterRetransmission, List.filter_append]
    cases cfgD.indSegRecv <;> cases cfgD.indFinished <;> simp [isFinished, fpOk]

/-- the receiver's NAK timer is untouched while it takes in-order tiles -/
theorem receiver_tiles_keep_timer (env : Dest.Env) (conf cd : Hdr) (rc : RemoteCfg) (t : Tid) (cks : Nat)
    (dst : String) (F : List UInt8) (seg : Nat) (hseg : 0 < seg)
    (ha : AdmissibleA env rc { conf with dir := .toRecv }) :
    ∀ (k : Nat) (d d' : Dest.DestSt), (k = 0 ∨ (k - 1) * seg < F.length) →
      ReceivingA d dst [] rc t cks cd →
      feedPdus env ((List.range k).map (Source.C07.tile conf F seg 0)) d = some d' →
      d'.p.procTimer = d.p.procTimer := by
  intro k
  induction k with
  | zero => intro d d' _ _ hf; simp [feedPdus] at hf; rw [hf]
  | succ k ih =>
    intro d d' hk hr hf
    have hklt : k * seg < F.length := by simpa using hk
    have hk' : k = 0 ∨ (k - 1) * seg < F.length := by
      by_cases h0 : k = 0
      · exact Or.inl h0
      · right
        have : (k - 1) * seg ≤ k * seg := Nat.mul_le_mul_right _ (by omega)
        omega
    obtain ⟨d1, hf1, hR, -, -⟩ := receiver_takes_tiles_ack env conf cd rc t cks dst F seg hseg ha k d hk' hr
    have hpt1 := ih d d1 hk' hr hf1
    have hlen : (F.take (k * seg)).length = k * seg := by simp [List.length_take]; omega
    have hdata : (F.drop (k * seg)).take seg ≠ [] := by
      intro h
      have := congrArg List.length h
      simp [List.length_take, List.length_drop] at this
      omega
    have htile := C02_tile_ack env d1 dst (F.take (k * seg)) ((F.drop (k * seg)).take seg) rc t cks cd
      { conf with dir := .toRecv } hR ha hdata
    rw [hlen] at htile
    rw [List.range_succ, List.map_append, feedPdus_append, hf1] at hf
    simp only [Option.bind, List.map_cons, List.map_nil, feedPdus, Source.C07.tile, Source.mkFd, Nat.zero_add,
      htile.1] at hf
    simp at hf
    rw [← hf, ← hpt1]; rfl

open Source.C07 Source.C19 in
/-- **End to end with the LAST File Data PDU lost (deferred NAK mode): the two models composed.**  The
sender emits Metadata, `n + 1` tiles and the EOF; the link loses the last tile (any length up to the
segment length).  The receiver has the first `n·seg` bytes when the EOF announces `|F|`: it records
the tail as lost, acknowledges the EOF, and its next call requests exactly `[n·seg, |F|)`; the sender
answers with exactly the lost tile; the transfer closes as in `C03_recovery_from_waiting_short`. -/
theorem C03_end_to_end_last_tile_loss (envS : Source.Env) (envD : Dest.Env) (s : Source.SrcSt) (d0 : Dest.DestSt)
    (req : Source.PutReq) (rcS rcD : RemoteCfg) (src dst : String) (F crc : List UInt8) (seg n maxSegs : Nat)
    (tA tD1 t1 t2 t3 t4 t5 : Nat)
    (hst : s.state = .busy) (hstep : s.step = .IDLE) (hq : s.queue = []) (hreq : s.putReq = some req)
    (hpmo : s.p.metadataOnly = false) (hsrc : req.src = some src) (hdst : req.dst = some dst)
    (hfile : s.fs.get src = some (.file F)) (hF : F ≠ []) (hprog : s.p.progress = 0)
    (hrc : s.p.remoteCfg = some rcS) (hrcid : rcS.entityId.val = req.destId.val)
    (hbits : s.prov.bits = 8 ∨ s.prov.bits = 16 ∨ s.prov.bits = 32)
    (hseg : Source.segLenOf rcS (startConf envS req rcS s (decide (F.length > 4294967295))) = some seg)
    (hseg0 : 0 < seg) (hmode : s.p.conf.mode = .ack) (hct : s.p.checkTimer = none)
    (hk : n * seg < F.length ∧ F.length ≤ (n + 1) * seg)
    (hcks : Checksum.calcChecksum (Checksum.CksType.ofNat rcS.cks) F F.length seg = .ok crc)
    (hnull : Checksum.CksType.ofNat rcS.cks ≠ .null) (hlen : crc.length = 4) (hack : rcS.ackMs ≠ 0)
    (ha : AdmissibleA envD rcD { startConf envS req rcS s (decide (F.length > 4294967295)) with dir := .toRecv })
    (hackD : rcD.ackMs ≠ 0) (hnak : rcD.nakMs ≠ 0)
    (hmaxs : maxSegReqs rcD.maxPkt
      (let c := startConf envS req rcS s (decide (F.length > 4294967295))
       ⟨.toSend, c.mode, c.crc, c.large, c.src, c.dst, c.seq⟩) = some maxSegs) (hmax1 : 1 ≤ maxSegs)
    (hidle : d0.state = .idle) (hdq : d0.queue = []) (hdr : d0.numReady = 0) (hrej : d0.rejects = [])
    (hfl : d0.flts = []) (hnd : Fs.isDir d0.fs dst = false)
    (hok : (∃ old, d0.fs.get dst = some (.file old)) ∨
           (Fs.exists' d0.fs dst = false ∧ Fs.parentIsDir d0.fs dst = true)) :
    let conf := startConf envS req rcS s (decide (F.length > 4294967295))
    let cd : Hdr := ⟨.toSend, conf.mode, conf.crc, conf.large, conf.src, conf.dst, conf.seq⟩
    let fpOk : FinishedParams := ⟨ccNoError, dcComplete, fsRetained, none⟩
    let md := Source.mkMd conf s.p.closure rcS.cks F.length (some src) (some dst) (some (req.msgs.getD []))
    let eof := Source.mkEof conf ccNoError crc F.length
    let lost := tile conf F seg 0 n
    let nak : Pdu := .nak cd 0 F.length [(n * seg, F.length)]
    ∃ s3 d5 s4 d6 s5 d7 s6 d8 s7,
      rounds envS (1 + (n + 1) + 1) s = some ([md] ++ (List.range (n + 1)).map (tile conf F seg 0) ++ [eof], s3) ∧
      -- the receiver gets everything but the last tile
      feedPdus envD ([md] ++ (List.range n).map (tile conf F seg 0) ++ [eof]) d0 = some d5 ∧
      d5.queue = [.ack cd dtEof ccNoError tsActive] ∧
      Source.stateMachine ⟨envS.cfg, tA⟩ (some (.ack cd dtEof ccNoError tsActive)) s3 = .ok () s4 ∧
      Dest.stateMachine ⟨envD.cfg, tD1⟩ none (drained d5) = .ok () d6 ∧ d6.queue = [nak] ∧
      Source.stateMachine ⟨envS.cfg, t1⟩ (some nak) s4 = .ok () s5 ∧ s5.queue = [lost] ∧
      Dest.stateMachine ⟨envD.cfg, t2⟩ (some lost) (drained d6) = .ok () d7 ∧ d7.queue = [.fin cd fpOk] ∧
      Source.stateMachine ⟨envS.cfg, t3⟩ (some (.fin cd fpOk)) (Source.C07.drained s5) = .ok () s6 ∧
      s6.queue = [Source.mkAck conf dtFinished ccNoError tsActive] ∧
      Dest.stateMachine ⟨envD.cfg, t4⟩ (some (Source.mkAck conf dtFinished ccNoError tsActive)) (drained d7) = .ok () d8 ∧
      Source.stateMachine ⟨envS.cfg, t5⟩ none (Source.C07.drained s6) = .ok () s7 ∧
      s7.state = .idle ∧ d8.state = .idle ∧ s7.queue = [] ∧ d8.queue = [] ∧
      d8.fs.get dst = some (.file F) ∧ (∀ q, q ≠ dst → d8.fs.get q = d0.fs.get q) ∧ s7.fs = s.fs ∧
      d8.flts = [] ∧ s7.flts = s.flts ∧
      s7.inds.filter isFinished = s.inds.filter isFinished ++
        (if envS.cfg.indFinished then [.finished (some ⟨envS.cfg.entityId, ⟨s.prov.next, s.prov.bits / 8⟩⟩) fpOk]
         else []) ∧
      d8.inds.filter isFinished = d0.inds.filter isFinished ++
        (if envD.cfg.indFinished then [.finished (some ⟨conf.src, conf.seq⟩) fpOk] else []) := by
  intro conf cd fpOk md eof lost nak
  let tid : Tid := ⟨envS.cfg.entityId, ⟨s.prov.next, s.prov.bits / 8⟩⟩
  have hsrcv : conf.src.val = envS.cfg.entityId.val := by simp [conf, startConf]
  have hdstv : conf.dst.val = rcS.entityId.val := by simp [conf, startConf, hrcid]
  have hmodeC : conf.mode = .ack := by simp [conf, startConf, hmode]
  have e1 : (n + 1) * seg = n * seg + seg := by rw [Nat.add_mul, Nat.one_mul]
  have haT : ∀ t, AdmissibleA ⟨envD.cfg, t⟩ rcD { conf with dir := .toRecv } := fun t =>
    ⟨rfl, ha.hdst, ha.hsrc, ha.hmode⟩
  -- the sender
  obtain ⟨s3, hrun, hS3, hstep3, -, -, -, -, -, hct3, hfs3, hfl3, hin3, -⟩ :=
    C03_sender_run_to_eof envS s req rcS src dst F crc seg (n + 1) hst hstep hq hreq hpmo hsrc hdst hfile hF hprog hrc
      hbits hseg hseg0 hmode hct (by simpa using hk) hcks hnull hlen hack
  have hadm3 : AdmissibleS ⟨envS.cfg, tA⟩ s3 rcS cd :=
    { hdir := rfl, hsrc := hsrcv, hrc := hS3.hrc, hdst := hdstv, hseq := by rw [hS3.hconf],
      hmode := by rw [hS3.hconf]; exact hmodeC }
  have h4 := C02_source_eof_acked ⟨envS.cfg, tA⟩ s3 rcS cd ccNoError tsActive req hadm3 hS3.hbusy hstep3 hS3.hqueue
    hS3.hreq hct3
  have hS4 : SentAllS { s3 with step := .WAITING_FOR_FINISHED } req src F seg conf rcS tid :=
    ⟨hS3.hbusy, hS3.hqueue, hS3.hreq, hS3.hsrc, hS3.hfile, hS3.hseg, hS3.hprog, hS3.hconf, hS3.hrc, hS3.htid⟩
  -- the receiver: Metadata, n tiles, EOF
  obtain ⟨hmd, hR1⟩ := C02_metadata_ack envD d0 { conf with dir := .toRecv } rcD s.p.closure rcS.cks F.length src dst
    (some (req.msgs.getD [])) ha hidle hdq hdr hrej hfl hnd hok
  obtain ⟨d2, hfeed2, hR2, hother2, hfin2⟩ := receiver_takes_tiles_ack envD conf _ rcD _ rcS.cks dst F seg hseg0 ha n _
    (by rcases Nat.eq_zero_or_pos n with h0 | h0
        · exact Or.inl h0
        · right
          have : (n - 1) * seg ≤ n * seg := Nat.mul_le_mul_right _ (by omega)
          omega) hR1
  have hpt2 : d2.p.procTimer = none := by
    rw [receiver_tiles_keep_timer envD conf _ rcD _ rcS.cks dst F seg hseg0 ha n _ d2
      (by rcases Nat.eq_zero_or_pos n with h0 | h0
          · exact Or.inl h0
          · right
            have : (n - 1) * seg ≤ n * seg := Nat.mul_le_mul_right _ (by omega)
            omega) hR1 hfeed2]
    rfl
  have hla : (F.take (n * seg)).length = n * seg := by simp [List.length_take]; omega
  have heof := C03_eof_tail_missing envD d2 dst F crc (n * seg) rcD _ rcS.cks cd { conf with dir := .toRecv } hR2 ha hk.1
  have hA : AckedH (drained (afterEofTail envD d2 ⟨conf.src, conf.seq⟩ crc (n * seg) F.length)) dst F crc (n * seg) F.length
      rcD ⟨conf.src, conf.seq⟩ rcS.cks cd (F.take (n * seg)) (n * seg) :=
    { hbusy := hR2.hbusy, hstep := rfl, hready := rfl, hqueue := rfl, hconf := hR2.hconf, hmode := hR2.hmode,
      hname := hR2.hname, hfile := hR2.hfile, hprog := by show d2.p.progress = n * seg; rw [hR2.hprog, hla],
      hcrc := rfl, hfse := rfl,
      hrc := hR2.hrc, htid := hR2.htid, hrej := hR2.hrej, hcks := hR2.hcks, hcancel := hR2.hcancel, hmo := hR2.hmo,
      hfin := hR2.hfin, htrk := rfl, hmm := hR2.hmm, hdef := hR2.hdef, hpt := hpt2 }
  have hdef := C03_deferred_requests_hole ⟨envD.cfg, tD1⟩ _ dst F crc (n * seg) F.length rcD _ rcS.cks _ maxSegs _ _ hA
    hmaxs hmax1 hnak
  have hW : Waiting (drained (afterDeferred ⟨envD.cfg, tD1⟩
      (drained (afterEofTail envD d2 ⟨conf.src, conf.seq⟩ crc (n * seg) F.length)) F (n * seg) F.length rcD))
      dst F crc (n * seg) F.length rcD ⟨conf.src, conf.seq⟩ rcS.cks cd ⟨tD1, rcD.nakMs⟩ (F.take (n * seg)) (n * seg) :=
    { hbusy := hR2.hbusy, hstep := rfl, hready := rfl, hqueue := rfl, hconf := hR2.hconf, hmode := hR2.hmode,
      hname := hR2.hname, hfile := hR2.hfile, hprog := by show d2.p.progress = n * seg; rw [hR2.hprog, hla],
      hcrc := rfl, hfse := rfl,
      hrc := hR2.hrc, htid := hR2.htid, hrej := hR2.hrej, hcks := hR2.hcks, hcancel := hR2.hcancel, hmo := hR2.hmo,
      hfin := hR2.hfin, htrk := rfl, hmm := hR2.hmm, hdef := rfl, hpt := rfl, hlastS := rfl, hlastE := rfl }
  have hwr : Fs.writeBytes (F.take (n * seg)) ((F.drop (n * seg)).take (F.length - n * seg)) (n * seg) = F := by
    have h1 : (F.drop (n * seg)).take (F.length - n * seg) = F.drop (n * seg) := by
      apply List.take_of_length_le; simp [List.length_drop]
    have hne : (F.drop (n * seg)).isEmpty = false := by
      cases hh : F.drop (n * seg) with
      | nil => have := congrArg List.length hh; simp [List.length_drop] at this; omega
      | cons _ _ => rfl
    rw [h1]
    simp only [Fs.writeBytes, hne, hla, Nat.lt_irrefl, gt_iff_lt, ite_false, Bool.false_eq_true]
    have e1' : (F.take (n * seg)).take (n * seg) = F.take (n * seg) := List.take_of_length_le (by omega)
    have e2 : (F.take (n * seg)).drop (n * seg + (F.drop (n * seg)).length) = [] := List.drop_of_length_le (by omega)
    rw [e1', e2, List.append_nil, List.take_append_drop]
  have hcrc : rcS.cks = 15 ∨ ∀ fs : Fs, fs.get dst = some (.file F) →
      Fs.calcChecksum fs (Checksum.CksType.ofNat rcS.cks) dst F.length 4096 = .ok crc := by
    right
    intro fs hf
    have := Checksum.C09.C09_chunk_length_irrelevant (Checksum.CksType.ofNat rcS.cks) F F.length seg 4096
      (by omega) (by omega)
    simp [Fs.calcChecksum, hnull, hf, ← this, hcks]
  obtain ⟨s5, d7, s6, d8, s7, h5, hq5, h7, hq7, h6, hq6, h8, h9, hi7, hi8, hqs7, hqd8, hfile8, hother8, hfs7, hfl8, hfl7,
      hin7, hin8⟩ :=
    C03_recovery_from_waiting_short envS.cfg envD.cfg { s3 with step := .WAITING_FOR_FINISHED } _ req src dst F crc
      (F.take (n * seg)) seg (n * seg) F.length (n * seg) conf rcS rcD tid rcS.cks _ t1 t2 t3 t4 t5 hS4 (Or.inl rfl) hW
      haT hsrcv hdstv hk.1 (by omega) (Nat.le_refl _) hackD hwr (by omega) hcrc
  have hl : Source.mkFd conf (n * seg) ((F.drop (n * seg)).take (F.length - n * seg)) = lost := by
    have hall : (F.drop (n * seg)).take (F.length - n * seg) = (F.drop (n * seg)).take seg := by
      rw [List.take_of_length_le (by simp [List.length_drop]), List.take_of_length_le (by simp [List.length_drop]; omega)]
    simp [lost, tile, hall]
  rw [hl] at hq5 h7
  have hfeed : feedPdus envD ([md] ++ (List.range n).map (tile conf F seg 0) ++ [eof]) d0 =
      some (afterEofTail envD d2 ⟨conf.src, conf.seq⟩ crc (n * seg) F.length) := by
    rw [feedPdus_append, feedPdus_append]
    simp only [feedPdus, md, Source.mkMd, hmd, Option.bind, hfeed2, eof, Source.mkEof, heof]
  refine ⟨s3, _, _, _, s5, d7, s6, d8, s7, hrun, hfeed, ?_, h4, hdef, ?_, h5, hq5, h7, hq7, h6, hq6, h8, h9, hi7, hi8,
    hqs7, hqd8, hfile8, ?_, ?_, ?_, ?_, ?_, ?_⟩
  · simp [afterEofTail, hR2.hconf, Dest.mkAck, dtEof, dtFinished, cd]
  · simp [afterDeferred, C02.drained, afterEofTail, eofTailP, hR2.hconf, Dest.mkNak, nak, cd]
  · intro q hq'
    rw [hother8 q hq']
    show d2.fs.get q = _
    rw [hother2 q hq']
    simp [afterMdA, Fs.C17.get_set_other _ _ _ _ hq']
  · rw [hfs7]; exact hfs3
  · rw [hfl8]; show d2.flts = []
    exact hR2.hflts
  · rw [hfl7]; exact hfl3
  · rw [hin7]; show s3.inds.filter isFinished ++ _ = _
    rw [hin3]
  · rw [hin8]
    simp only [C02.drained, afterDeferred, afterEofTail, List.filter_append, hfin2]
    have h1 : (afterMdA envD d0 { conf with dir := .toRecv } rcD s.p.closure rcS.cks F.length src dst
        (some (req.msgs.getD []))).inds.filter isFinished = d0.inds.filter isFinished := by
      simp [afterMdA, isFinished]
    rw [h1]
    cases envD.cfg.indEofRecv <;> simp [isFinished, fpOk]



section AnyLoss
open Cfdp.C06 Cfdp.Tracker

/-! ## Any loss pattern of File Data PDUs (deferred NAK mode): the receiver side -/

/-- the tracker fields written back into the parameter block -/
def withTs (p : Params) (T : TS) : Params := { p with lastStart := T.ls, lastEnd := T.le, trk := T.trk }

/-- `_lost_segment_handling` in deferred NAK mode: exactly `TS.tile`, nothing queued, nothing else touched -/
theorem lsh_deferred (d : DestSt) (rc : RemoteCfg) (a b : Nat) (hab : a ≤ b)
    (hrc : d.p.remoteCfg = some rc) (himm : rc.imm = false) :
    lostSegmentHandling a (b - a) d = .ok () { d with p := withTs d.p ((tsOf d.p).tile a b) } := by
  have hb : a + (b - a) = b := by omega
  unfold lostSegmentHandling
  rw [hb]
  by_cases h1 : a > d.p.lastEnd
  · have h2 : a ≥ d.p.lastEnd := by omega
    by_cases h4 : b ≤ a
    · cases hr : Tracker.remove (Tracker.add d.p.trk (d.p.lastEnd, a)) a b <;>
        (msimp [getP, modP, addPacket, h1, h2, h4, hrc, himm, hr]
         (simp [withTs, tsOf, TS.tile, h1, h2, h4, hr] <;> rw [← hrc]))
    · msimp [getP, modP, addPacket, h1, h2, h4, hrc, himm]
      (simp [withTs, tsOf, TS.tile, h1, h2, h4] <;> rw [← hrc])
  · by_cases h2 : a ≥ d.p.lastEnd
    · by_cases h4 : b ≤ a
      · cases hr : Tracker.remove d.p.trk a b <;>
          (msimp [getP, modP, addPacket, h1, h2, h4, hrc, hr]
           (simp [withTs, tsOf, TS.tile, h1, h2, h4, hr] <;> rw [← hrc]))
      · msimp [getP, modP, addPacket, h1, h2, h4, hrc]
        (simp [withTs, tsOf, TS.tile, h1, h2, h4] <;> rw [← hrc])
    · by_cases h4 : b ≤ d.p.lastStart
      · cases hr : Tracker.remove d.p.trk a b <;>
          (msimp [getP, modP, addPacket, h1, h2, h4, hrc, hr]
           (simp [withTs, tsOf, TS.tile, h1, h2, h4, hr] <;> rw [← hrc]))
      · msimp [getP, modP, addPacket, h1, h2, h4, hrc]
        (simp [withTs, tsOf, TS.tile, h1, h2, h4] <;> rw [← hrc])

/-- `_lost_segment_handling` for a File Data PDU that starts below the in-order marker (a retransmission, a
duplicate, a late tile): `TS.tile`, nothing queued — in either NAK mode -/
theorem lsh_below (d : DestSt) (a b : Nat) (hab : a ≤ b) (hlt : a < d.p.lastEnd) :
    lostSegmentHandling a (b - a) d = .ok () { d with p := withTs d.p ((tsOf d.p).tile a b) } := by
  have hb : a + (b - a) = b := by omega
  have h1 : ¬ a > d.p.lastEnd := by omega
  have h2 : ¬ a ≥ d.p.lastEnd := by omega
  unfold lostSegmentHandling
  rw [hb]
  by_cases h4 : b ≤ d.p.lastStart
  · cases hr : Tracker.remove d.p.trk a b <;>
      (msimp [getP, modP, addPacket, h1, h2, h4, hr]
       simp [withTs, tsOf, TS.tile, h1, h2, h4, hr])
  · msimp [getP, modP, addPacket, h1, h2, h4]
    simp [withTs, tsOf, TS.tile, h1, h2, h4]

/-- receiver in the middle of an acknowledged transfer in deferred NAK mode after the File Data PDUs of
the history `h` (tiles of the grid, any order, any losses, any duplicates): the file holds `c`, whose
length is the in-order marker and whose bytes at every delivered position are the source file's; the
tracker satisfies `TInv`; nothing queued, no fault so far -/
structure RecvG (d : DestSt) (dst : String) (F c : List UInt8) (seg : Nat) (h : List (Nat × Nat))
    (rc : RemoteCfg) (t : Tid) (cks : Nat) (conf : Hdr) : Prop where
  hbusy : d.state = .busy
  hstep : d.step = .RECEIVING_FILE_DATA
  hready : d.numReady = 0
  hqueue : d.queue = []
  hconf : d.p.conf = conf
  hmode : conf.mode = .ack
  hname : d.p.fileName = dst
  hfile : d.fs.get dst = some (.file c)
  hlen : c.length = d.p.lastEnd
  hcov : ∀ x, covered h x → c[x]? = F[x]?
  hprog : d.p.progress = d.p.lastEnd
  hnoEof : d.p.fileSizeEof = none
  hrc : d.p.remoteCfg = some rc
  htid : d.p.tid = some t
  hrej : d.rejects = []
  hcks : d.p.cksType = cks
  hcancel : d.p.canceled = false
  hmo : d.p.metadataOnly = false
  hflts : d.flts = []
  hfin : d.p.fin = ⟨ccNoError, dcIncomplete, fsRetained, none⟩
  hmm : d.p.metadataMissing = false
  hdef : d.p.deferredActive = false
  hpt : d.p.procTimer = none
  hinv : TInv seg F.length h (tsOf d.p)

/-- the bytes of the tile `[a, b)` of `F` -/
def tileData (F : List UInt8) (a b : Nat) : List UInt8 := (F.drop a).take (b - a)

theorem tileData_length {F : List UInt8} {seg a b : Nat} (hT : Tile seg F.length a b) :
    (tileData F a b).length = b - a := by
  have := hT.le_size
  simp [tileData]; omega

theorem tileData_get {F : List UInt8} {seg a b : Nat} (hT : Tile seg F.length a b) (i : Nat) (hi : i < b - a) :
    (tileData F a b)[i]? = F[a + i]? := by
  simp [tileData, List.getElem?_take, hi, List.getElem?_drop]

/-- below the in-order marker a tile ends at or below the marker -/
theorem _root_.Cfdp.C06.TInv.tile_below {seg size : Nat} {h : List (Nat × Nat)} {s : TS} (hs : 0 < seg) (hi : TInv seg size h s)
    {a b : Nat} (hT : Tile seg size a b) (ha : a < s.le) : b ≤ s.le := by
  rcases hi.leGrid with hg | hg
  · have := dvd_gap hT.1 hg ha
    obtain ⟨_, _, rfl⟩ := hT; omega
  · rw [hg]; exact hT.le_size

/-- the in-order marker after a tile: the larger of the old marker and the tile's end -/
theorem _root_.Cfdp.C06.TS.tile_le {seg size : Nat} {h : List (Nat × Nat)} (s : TS) (hs : 0 < seg) (hi : TInv seg size h s)
    {a b : Nat} (hT : Tile seg size a b) : (s.tile a b).le = max s.le b := by
  have hab := hT.lt hs
  by_cases ha : a < s.le
  · rw [(s.tile_marker_of_lt ha).1]
    have := hi.tile_below hs hT ha; omega
  · have h2 : a ≥ s.le := by omega
    unfold TS.tile
    simp only [h2, if_true]
    have : ¬ b ≤ a := by omega
    simp only [this, if_false]
    omega

/-- the file after the tile was written: length = the new marker, delivered bytes are the source's -/
theorem file_after_tile {F c : List UInt8} {seg a b : Nat} {h : List (Nat × Nat)} {s : TS} (hs : 0 < seg)
    (hi : TInv seg F.length h s) (hT : Tile seg F.length a b) (hlen : c.length = s.le)
    (hcov : ∀ x, covered h x → c[x]? = F[x]?) :
    (Fs.writeBytes c (tileData F a b) a).length = (s.tile a b).le ∧
    ∀ x, covered (h ++ [(a, b)]) x → (Fs.writeBytes c (tileData F a b) a)[x]? = F[x]? := by
  have hab := hT.lt hs
  have hdl := tileData_length hT
  have hne : tileData F a b ≠ [] := by
    intro hc; rw [hc] at hdl; simp at hdl; omega
  constructor
  · rw [s.tile_le hs hi hT]
    have hemp : (tileData F a b).isEmpty = false := by cases h0 : tileData F a b <;> simp_all
    simp only [Fs.writeBytes, hemp]
    by_cases hgt : a > c.length
    · simp [hgt, hdl]; omega
    · simp [hgt, hdl]
      by_cases ha : a < s.le
      · have := hi.tile_below hs hT ha; omega
      · omega
  · intro x hx
    rw [covered_append] at hx
    rw [Fs.C17.write_get c _ a x hne, hdl]
    by_cases hin : a ≤ x ∧ x < b
    · have h1 : ¬ x < a := by omega
      have h2 : x < a + (b - a) := by omega
      simp only [h1, h2, if_false, if_true]
      rw [tileData_get hT (x - a) (by omega)]
      congr 1; omega
    · have hc : covered h x := hx.resolve_right hin
      obtain ⟨q, hq, q1, q2⟩ := hc
      have hxl : x < c.length := by have := hi.hle q hq; omega
      by_cases h1 : x < a
      · simp only [h1, if_true, Fs.C17.padded_get, hxl]
        exact hcov x ⟨q, hq, q1, q2⟩
      · have h2 : ¬ x < a + (b - a) := by omega
        simp only [h1, h2, if_false, Fs.C17.padded_get, hxl, if_true]
        exact hcov x ⟨q, hq, q1, q2⟩

/-- state after a tile in `RecvG` -/
def afterTileG (d : DestSt) (dst : String) (c data : List UInt8) (a b : Nat) (env : Env) (t : Tid) : DestSt :=
  { d with fs := d.fs.set dst (.file (Fs.writeBytes c data a)),
           p := { withTs d.p ((tsOf d.p).tile a b) with progress := max b d.p.progress },
           inds := d.inds ++ (if env.cfg.indSegRecv then [.segRecv (some t) a (b - a)] else []) }

/-- **One File Data PDU, any position.**  The receiver (acknowledged, deferred NAK mode) after the
history `h` gets the tile `[a, b)` — new, out of order, a duplicate —: the call returns, queues nothing,
declares nothing; the file and the tracker are as `RecvG` says for the history `h ++ [(a, b)]`. -/
theorem C03_tile_any (env : Env) (d : DestSt) (dst : String) (F c : List UInt8) (seg : Nat)
    (h : List (Nat × Nat)) (rc : RemoteCfg) (t : Tid) (cks : Nat) (conf hd : Hdr) (a b : Nat)
    (hs : 0 < seg) (hr : RecvG d dst F c seg h rc t cks conf) (ha : AdmissibleA env rc hd)
    (hT : Tile seg F.length a b) (himm : rc.imm = false) :
    stateMachine env (some (.fd hd a (tileData F a b))) d =
      .ok () (afterTileG d dst c (tileData F a b) a b env t) ∧
    RecvG (afterTileG d dst c (tileData F a b) a b env t) dst F (Fs.writeBytes c (tileData F a b) a) seg
      (h ++ [(a, b)]) rc t cks conf := by
  have hab := hT.lt hs
  have hdl := tileData_length hT
  have hsum : a + (b - a) = b := by omega
  have hm : d.p.conf.mode = .ack := by rw [hr.hconf]; exact hr.hmode
  obtain ⟨hflen, hfcov⟩ := file_after_tile hs hr.hinv hT hr.hlen hr.hcov
  have hle' := (tsOf d.p).tile_le hs hr.hinv hT
  constructor
  · obtain ⟨st, stp, nr, p, q, fs, fl, rej, ind, flt⟩ := d
    have h1 := hr.hbusy; have h2 := hr.hstep; have h3 := hr.hready; have h4 := hr.hqueue; have h5 := hr.hrej
    have h6 := hr.htid; have h7 := hr.hname; have h8 := hr.hfile; have h9 := hr.hnoEof; have h10 := hr.hfin
    have h11 := hr.hrc
    try simp only at h1 h2 h3 h4 h5 h6 h7 h8 h9 h10 h11 hm
    subst h1 h2 h3 h4 h5
    cases hi : env.cfg.indSegRecv
    · have hl := lsh_deferred ⟨.busy, .RECEIVING_FILE_DATA, 0, p, [], fs, fl, [], ind, flt⟩ rc a b
        (Nat.le_of_lt hab) h11 himm
      try simp only at hl
      msimp [stateMachine, stateMachineWith, checkInsertedPacket, Pdu.hdr, ha.hdir, ha.hdst, ha.hsrc, Pdu.kind,
        Route.getPacketDestination, transmissionMode, hm, nonIdleFsm,
        fsmAdvancementAfterPacketsWereSent, fsmFromReceiving, handleFdOrEofPdu, handleFdPdu,
        fdIndication, hi, getP, emitInd, h6, fdLostSegments, hdl, hl,
        fdWrite, vfsWriteData, h7, withTs,
        Fs.writeData, h8, fdAfterWrite, sizeErrOf, modP, h9, hsum, fsmFromWaitingForMetadata,
        fsmFromCheckLimit, fsmFromWaitingForMissingData, fsmFromTransferCompletion, fsmFromSendingFinishedPdu,
        fsmFromWaitingForFinishedAck, afterTileG, h10, tsOf]
    · have hl := lsh_deferred ⟨.busy, .RECEIVING_FILE_DATA, 0, p, [], fs, fl, [],
          ind ++ [.segRecv (some t) a (b - a)], flt⟩ rc a b (Nat.le_of_lt hab) h11 himm
      try simp only at hl
      msimp [stateMachine, stateMachineWith, checkInsertedPacket, Pdu.hdr, ha.hdir, ha.hdst, ha.hsrc, Pdu.kind,
        Route.getPacketDestination, transmissionMode, hm, nonIdleFsm,
        fsmAdvancementAfterPacketsWereSent, fsmFromReceiving, handleFdOrEofPdu, handleFdPdu,
        fdIndication, hi, getP, emitInd, h6, fdLostSegments, hdl, hl,
        fdWrite, vfsWriteData, h7, withTs,
        Fs.writeData, h8, fdAfterWrite, sizeErrOf, modP, h9, hsum, fsmFromWaitingForMetadata,
        fsmFromCheckLimit, fsmFromWaitingForMissingData, fsmFromTransferCompletion, fsmFromSendingFinishedPdu,
        fsmFromWaitingForFinishedAck, afterTileG, h10, tsOf]
  · exact
      { hbusy := hr.hbusy, hstep := hr.hstep, hready := hr.hready, hqueue := hr.hqueue,
        hconf := by simp [afterTileG, withTs, hr.hconf], hmode := hr.hmode,
        hname := by simp [afterTileG, withTs, hr.hname],
        hfile := by simp [afterTileG, Fs.C17.get_set_same],
        hlen := by simp [afterTileG, withTs, hflen],
        hcov := hfcov,
        hprog := by
          show max b d.p.progress = ((tsOf d.p).tile a b).le
          rw [hle', hr.hprog]
          show max b d.p.lastEnd = max d.p.lastEnd b
          omega,
        hnoEof := by simp [afterTileG, withTs, hr.hnoEof], hrc := by simp [afterTileG, withTs, hr.hrc],
        htid := by simp [afterTileG, withTs, hr.htid], hrej := hr.hrej,
        hcks := by simp [afterTileG, withTs, hr.hcks], hcancel := by simp [afterTileG, withTs, hr.hcancel],
        hmo := by simp [afterTileG, withTs, hr.hmo], hflts := hr.hflts,
        hfin := by simp [afterTileG, withTs, hr.hfin], hmm := by simp [afterTileG, withTs, hr.hmm],
        hdef := by simp [afterTileG, withTs, hr.hdef], hpt := by simp [afterTileG, withTs, hr.hpt],
        hinv := by
          have := hr.hinv.tile hs hT
          simpa [afterTileG, withTs, tsOf] using this }

/-- the File Data PDUs of the tiles of a history handed to the receiver, one call each (`none`: a call raised) -/
def feedTiles (env : Env) (hd : Hdr) (F : List UInt8) : List (Nat × Nat) → DestSt → Option DestSt
  | [], d => some d
  | q :: rest, d =>
    match stateMachine env (some (.fd hd q.1 (tileData F q.1 q.2))) d with
    | .ok _ d' => feedTiles env hd F rest d'
    | .error _ _ => none

/-- **Any history of File Data PDUs.**  After the Metadata PDU, the File Data PDUs of any list of tiles
— any order, any tile any number of times, any tile never — are each taken in one call that returns,
queues nothing and declares nothing; afterwards the receiver is in `RecvG` for the whole history: the
file's length is the largest end seen, every delivered byte is the source file's, the tracker lists
exactly the undelivered bytes below that end, and no other path of the filestore was touched. -/
theorem C03_receiver_any_history (env : Env) (hd : Hdr) (dst : String) (F : List UInt8) (seg : Nat)
    (rc : RemoteCfg) (t : Tid) (cks : Nat) (conf : Hdr) (hs : 0 < seg) (ha : AdmissibleA env rc hd)
    (himm : rc.imm = false) :
    ∀ (h2 : List (Nat × Nat)) (d : DestSt) (c : List UInt8) (h : List (Nat × Nat)),
      (∀ q ∈ h2, Tile seg F.length q.1 q.2) → RecvG d dst F c seg h rc t cks conf →
      ∃ d' c', feedTiles env hd F h2 d = some d' ∧ RecvG d' dst F c' seg (h ++ h2) rc t cks conf ∧
        (∀ q, q ≠ dst → d'.fs.get q = d.fs.get q) ∧
        d'.inds.filter isFinished = d.inds.filter isFinished ∧ d'.p.nakCounter = d.p.nakCounter := by
  intro h2
  induction h2 with
  | nil => intro d c h _ hr; exact ⟨d, c, rfl, by simpa using hr, fun _ _ => rfl, rfl, rfl⟩
  | cons q h2 ih =>
    intro d c h hT hr
    obtain ⟨hcall, hr'⟩ := C03_tile_any env d dst F c seg h rc t cks conf hd q.1 q.2 hs hr ha (hT q List.mem_cons_self)
      himm
    obtain ⟨d', c', hf, hR, hother, hfin, hnk⟩ := ih _ _ _ (fun r hr => hT r (List.mem_cons_of_mem _ hr)) hr'
    refine ⟨d', c', ?_, ?_, ?_, ?_, by rw [hnk]; simp [afterTileG, withTs]⟩
    · simp only [feedTiles, hcall]; exact hf
    · simpa [List.append_assoc] using hR
    · intro p hp
      rw [hother p hp]
      simp [afterTileG, Fs.C17.get_set_other _ _ _ _ hp]
    · rw [hfin]
      simp only [afterTileG, List.filter_append]
      split <;> simp [isFinished]

/-- a receiver that took the Metadata PDU (acknowledged, deferred NAK mode) is in `RecvG` for the empty history -/
theorem RecvG.ofReceivingA {d : DestSt} {dst : String} {F : List UInt8} {seg : Nat} {rc : RemoteCfg} {t : Tid}
    {cks : Nat} {conf : Hdr} (hr : ReceivingA d dst [] rc t cks conf)
    (hpt : d.p.procTimer = none) :
    RecvG d dst F [] seg [] rc t cks conf :=
  { hbusy := hr.hbusy, hstep := hr.hstep, hready := hr.hready, hqueue := hr.hqueue, hconf := hr.hconf,
    hmode := hr.hmode, hname := hr.hname, hfile := hr.hfile,
    hlen := by have := hr.hlastE; simp at this; simp [this],
    hcov := fun x hx => by obtain ⟨q, hq, _⟩ := hx; simp at hq,
    hprog := by have := hr.hprog; have := hr.hlastE; simp_all,
    hnoEof := hr.hnoEof, hrc := hr.hrc, htid := hr.htid, hrej := hr.hrej, hcks := hr.hcks,
    hcancel := hr.hcancel, hmo := hr.hmo, hflts := hr.hflts, hfin := hr.hfin, hmm := hr.hmm, hdef := hr.hdef,
    hpt := hpt,
    hinv := by
      have h1 := hr.hlastE; have h2 := hr.hlastS; have h3 := hr.htrk
      simp at h1 h2
      have : tsOf d.p = ⟨0, 0, []⟩ := by simp [tsOf, h1, h2, h3]
      rw [this]; exact TInv.init seg F.length }

/-- the tail that the EOF makes lost -/
def tailTrk (T : TS) (size : Nat) : Tracker.T :=
  if T.le < size then Tracker.add T.trk (T.le, size) else T.trk

/-- state after the EOF PDU in `RecvG`: the tail beyond the in-order marker is lost, the ACK (EOF) is queued -/
def afterEofG (env : Env) (d : DestSt) (t : Tid) (crc : List UInt8) (size : Nat) : DestSt :=
  { d with step := .SENDING_EOF_ACK_PDU,
           p := { eofP d.p crc size with trk := tailTrk (tsOf d.p) size },
           queue := [mkAck d.p.conf dtEof ccNoError tsActive], numReady := 1,
           inds := d.inds ++ (if env.cfg.indEofRecv then [.eofRecv t] else []) }

/-- **The EOF after any history**: acknowledged with exactly one ACK (EOF); the tail `[marker, size)`
becomes lost; the file is untouched, no fault. -/
theorem C03_eof_any (env : Env) (d : DestSt) (dst : String) (F c crc : List UInt8) (seg : Nat)
    (h : List (Nat × Nat)) (rc : RemoteCfg) (t : Tid) (cks : Nat) (conf hd : Hdr)
    (hr : RecvG d dst F c seg h rc t cks conf) (ha : AdmissibleA env rc hd) :
    stateMachine env (some (.eof hd ccNoError crc F.length none)) d = .ok () (afterEofG env d t crc F.length) := by
  have hm : d.p.conf.mode = .ack := by rw [hr.hconf]; exact hr.hmode
  have hle : d.p.lastEnd ≤ F.length := hr.hinv.leSize
  have hngt : ¬ d.p.lastEnd > F.length := by omega
  by_cases hlt : d.p.lastEnd < F.length
  · cases hi : env.cfg.indEofRecv <;>
    msimp [stateMachine, stateMachineWith, checkInsertedPacket, Pdu.hdr, ha.hdir, ha.hdst, ha.hsrc, Pdu.kind,
      Route.getPacketDestination, hr.hbusy, transmissionMode, hm, nonIdleFsm,
      fsmAdvancementAfterPacketsWereSent, hr.hqueue, hr.hstep, fsmFromReceiving, handleFdOrEofPdu, handleEofPdu,
      modP, hi, getP, hr.htid, emitInd, handleNoErrorEof, hr.hprog, hlt, hngt, noErrorEofVerify,
      fileTransferCompleteTransition, prepareEofAckPacket, addPacket, hr.hready,
      fsmFromWaitingForMetadata, fsmFromCheckLimit,
      fsmFromWaitingForMissingData, fsmFromTransferCompletion, fsmFromSendingFinishedPdu, fsmFromWaitingForFinishedAck,
      afterEofG, eofP, hr.hfin, ccNoError, dtEof, tailTrk, tsOf]
  · cases hi : env.cfg.indEofRecv <;>
    msimp [stateMachine, stateMachineWith, checkInsertedPacket, Pdu.hdr, ha.hdir, ha.hdst, ha.hsrc, Pdu.kind,
      Route.getPacketDestination, hr.hbusy, transmissionMode, hm, nonIdleFsm,
      fsmAdvancementAfterPacketsWereSent, hr.hqueue, hr.hstep, fsmFromReceiving, handleFdOrEofPdu, handleEofPdu,
      modP, hi, getP, hr.htid, emitInd, handleNoErrorEof, hr.hprog, hlt, hngt, noErrorEofVerify,
      fileTransferCompleteTransition, prepareEofAckPacket, addPacket, hr.hready,
      fsmFromWaitingForMetadata, fsmFromCheckLimit,
      fsmFromWaitingForMissingData, fsmFromTransferCompletion, fsmFromSendingFinishedPdu, fsmFromWaitingForFinishedAck,
      afterEofG, eofP, hr.hfin, ccNoError, dtEof, tailTrk, tsOf]

/-- the receiver after the EOF was acknowledged (ACK retrieved), any history -/
structure AckedG (d : DestSt) (dst : String) (F c crc : List UInt8) (seg : Nat) (h : List (Nat × Nat))
    (rc : RemoteCfg) (t : Tid) (cks : Nat) (conf : Hdr) : Prop where
  hbusy : d.state = .busy
  hstep : d.step = .SENDING_EOF_ACK_PDU
  hready : d.numReady = 0
  hqueue : d.queue = []
  hconf : d.p.conf = conf
  hmode : conf.mode = .ack
  hname : d.p.fileName = dst
  hfile : d.fs.get dst = some (.file c)
  hlenle : c.length ≤ F.length
  hcov : ∀ x, covered h x → c[x]? = F[x]?
  hcrc : d.p.crc32 = crc
  hfse : d.p.fileSizeEof = some F.length
  hrc : d.p.remoteCfg = some rc
  htid : d.p.tid = some t
  hrej : d.rejects = []
  hcks : d.p.cksType = cks
  hcancel : d.p.canceled = false
  hmo : d.p.metadataOnly = false
  hflts : d.flts = []
  hfin : d.p.fin = ⟨ccNoError, dcIncomplete, fsRetained, none⟩
  hmm : d.p.metadataMissing = false
  hdef : d.p.deferredActive = false
  hpt : d.p.procTimer = none
  htrk : ∃ T, TInv seg F.length h T ∧ d.p.trk = tailTrk T F.length

/-- `RecvG`, the EOF, the ACK retrieved: `AckedG` -/
theorem AckedG.ofRecvG {env : Env} {d : DestSt} {dst : String} {F c crc : List UInt8} {seg : Nat}
    {h : List (Nat × Nat)} {rc : RemoteCfg} {t : Tid} {cks : Nat} {conf : Hdr}
    (hr : RecvG d dst F c seg h rc t cks conf) :
    AckedG (drained (afterEofG env d t crc F.length)) dst F c crc seg h rc t cks conf :=
  { hbusy := hr.hbusy, hstep := rfl, hready := rfl, hqueue := rfl, hconf := hr.hconf, hmode := hr.hmode,
    hname := hr.hname, hfile := hr.hfile,
    hlenle := by rw [hr.hlen]; exact hr.hinv.leSize,
    hcov := hr.hcov, hcrc := rfl, hfse := rfl, hrc := hr.hrc, htid := hr.htid, hrej := hr.hrej, hcks := hr.hcks,
    hcancel := hr.hcancel, hmo := hr.hmo, hflts := hr.hflts, hfin := hr.hfin, hmm := hr.hmm, hdef := hr.hdef,
    hpt := hr.hpt, htrk := ⟨tsOf d.p, hr.hinv, rfl⟩ }

theorem coalesceGo_ne_nil (t : Tracker.T) : ∀ a b, Tracker.coalesceGo a b t ≠ [] := by
  induction t with
  | nil => intro a b; simp [Tracker.coalesceGo]
  | cons y t ih =>
    intro a b
    unfold Tracker.coalesceGo
    split
    · exact ih _ _
    · simp

theorem coalesce_ne_nil {t : Tracker.T} (h : t ≠ []) : Tracker.coalesce t ≠ [] := by
  cases t with
  | nil => exact absurd rfl h
  | cons x t => exact coalesceGo_ne_nil t x.1 x.2

/-- state after the deferred procedure was started with something missing -/
def afterDeferredG (env : Env) (d : DestSt) (rc : RemoteCfg) (size m : Nat) : DestSt :=
  { d with step := .WAITING_FOR_MISSING_DATA,
           p := { d.p with deferredActive := true, trk := Tracker.coalesce d.p.trk, lastStart := size,
                           lastEnd := size, procTimer := some ⟨env.now, rc.nakMs⟩ },
           queue := nakSequence d.p.conf size m false (Tracker.coalesce d.p.trk),
           numReady := (nakSequence d.p.conf size m false (Tracker.coalesce d.p.trk)).length }

/-- **The deferred procedure after any history, something missing**: the call after the retrieval of the
ACK (EOF) coalesces the listing, starts the NAK timer and queues exactly the NAK sequence of the listing
(which by `C06_nak_requests_exactly_missing` requests exactly the undelivered bytes). -/
theorem C03_deferred_any (env : Env) (d : DestSt) (dst : String) (F c crc : List UInt8) (seg : Nat)
    (h : List (Nat × Nat)) (rc : RemoteCfg) (t : Tid) (cks : Nat) (conf : Hdr) (m : Nat)
    (hr : AckedG d dst F c crc seg h rc t cks conf) (hmax : maxSegReqs rc.maxPkt conf = some m)
    (hnak : rc.nakMs ≠ 0) (hmiss : d.p.trk ≠ []) :
    stateMachine env none d = .ok () (afterDeferredG env d rc F.length m) := by
  unfold stateMachine
  generalize (stateMachineWith env none (stateMachineWith env none (throw Err.recursionError))) = rec
  have hmax' : maxSegReqs rc.maxPkt d.p.conf = some m := by rw [hr.hconf]; exact hmax
  have hpos : 0 < rc.nakMs := by omega
  have hlen : ¬ d.p.trk.length = 0 := fun hc => hmiss (List.eq_nil_of_length_eq_zero hc)
  have hlen' : 0 < d.p.trk.length := by omega
  have hco : Tracker.coalesce d.p.trk ≠ [] := coalesce_ne_nil hmiss
  have hcol : ¬ (Tracker.coalesce d.p.trk).length = 0 := fun hc => hco (List.eq_nil_of_length_eq_zero hc)
  have hfirst := C06_deferred_first_issue env d rc F.length m hr.hcancel hr.hrc hr.hfse (Or.inl hco) hr.hpt hmax'
  msimp [stateMachineWith, hr.hbusy, nonIdleFsm, fsmAdvancementAfterPacketsWereSent, hr.hqueue,
    hr.hstep, hr.hcancel, hlen, hlen', hr.hmm, hfirst, afterFirstIssue,
    fsmFromReceiving, fsmFromWaitingForMetadata, fsmFromCheckLimit, fsmFromWaitingForMissingData,
    deferredLostSegmentHandling, getP, hr.hrc, hr.hfse, hcol, hco,
    Timer.busy, Timer.timedOut, hnak, hpos, hr.hready,
    fsmFromTransferCompletion, fsmFromSendingFinishedPdu, fsmFromWaitingForFinishedAck, afterDeferredG]

/-- the receiver waiting for retransmissions after any history (NAKs retrieved) -/
structure WaitG (d : DestSt) (dst : String) (F c crc : List UInt8) (seg : Nat) (h : List (Nat × Nat))
    (rc : RemoteCfg) (t : Tid) (cks : Nat) (conf : Hdr) (tm : Timer) : Prop where
  hbusy : d.state = .busy
  hstep : d.step = .WAITING_FOR_MISSING_DATA
  hready : d.numReady = 0
  hqueue : d.queue = []
  hconf : d.p.conf = conf
  hmode : conf.mode = .ack
  hname : d.p.fileName = dst
  hfile : d.fs.get dst = some (.file c)
  hlenle : c.length ≤ F.length
  hcov : ∀ x, covered h x → c[x]? = F[x]?
  hprog1 : d.p.progress ≤ F.length
  hprog2 : ∀ q ∈ h, q.2 ≤ d.p.progress
  hcrc : d.p.crc32 = crc
  hfse : d.p.fileSizeEof = some F.length
  hrc : d.p.remoteCfg = some rc
  htid : d.p.tid = some t
  hrej : d.rejects = []
  hcks : d.p.cksType = cks
  hcancel : d.p.canceled = false
  hmo : d.p.metadataOnly = false
  hflts : d.flts = []
  hfin : d.p.fin = ⟨ccNoError, dcIncomplete, fsRetained, none⟩
  hmm : d.p.metadataMissing = false
  hdef : d.p.deferredActive = true
  hpt : d.p.procTimer = some tm
  htm : 0 < tm.timeout
  hmark : d.p.lastEnd = F.length
  hinv : TInv seg F.length h (tsOf d.p)

/-- the file after a tile was written, when only "delivered bytes are the source's" and "not longer than
the source" are known (after the EOF the marker no longer is the file's length) -/
theorem file_after_tile' {F c : List UInt8} {seg a b : Nat} {h : List (Nat × Nat)} (hs : 0 < seg)
    (hT : Tile seg F.length a b) (hlen : c.length ≤ F.length) (hcov : ∀ x, covered h x → c[x]? = F[x]?)
    (hh : ∀ q ∈ h, q.2 ≤ F.length) :
    (Fs.writeBytes c (tileData F a b) a).length ≤ F.length ∧
    ∀ x, covered (h ++ [(a, b)]) x → (Fs.writeBytes c (tileData F a b) a)[x]? = F[x]? := by
  have hab := hT.lt hs
  have hbs := hT.le_size
  have hdl := tileData_length hT
  have hne : tileData F a b ≠ [] := by
    intro hc; rw [hc] at hdl; simp at hdl; omega
  constructor
  · have hemp : (tileData F a b).isEmpty = false := by cases h0 : tileData F a b <;> simp_all
    simp only [Fs.writeBytes, hemp]
    by_cases hgt : a > c.length
    · simp [hgt, hdl]; omega
    · simp [hgt, hdl]; omega
  · intro x hx
    rw [covered_append] at hx
    rw [Fs.C17.write_get c _ a x hne, hdl]
    by_cases hin : a ≤ x ∧ x < b
    · have h1 : ¬ x < a := by omega
      have h2 : x < a + (b - a) := by omega
      simp only [h1, h2, if_false, if_true]
      rw [tileData_get hT (x - a) (by omega)]
      congr 1; omega
    · have hc : covered h x := hx.resolve_right hin
      have hcx := hcov x hc
      obtain ⟨q, hq, q1, q2⟩ := hc
      have hxF : x < F.length := by have := hh q hq; omega
      have hxl : x < c.length := by
        rw [List.getElem?_eq_getElem hxF] at hcx
        by_contra hn
        rw [List.getElem?_eq_none (by omega)] at hcx
        cases hcx
      by_cases h1 : x < a
      · simp only [h1, if_true, Fs.C17.padded_get, hxl]
        exact hcx
      · have h2 : ¬ x < a + (b - a) := by omega
        simp only [h1, h2, if_false, Fs.C17.padded_get, hxl, if_true]
        exact hcx

/-- all tiles of a `TInv` history lie within the file -/
theorem _root_.Cfdp.C06.TInv.hist_le_size {seg size : Nat} {h : List (Nat × Nat)} {s : TS} (hi : TInv seg size h s) :
    ∀ q ∈ h, q.2 ≤ size := fun q hq => Nat.le_trans (hi.hle q hq) hi.leSize

/-- `AckedG`, the deferred procedure started, the NAKs retrieved: `WaitG` -/
theorem WaitG.ofAckedG {env : Env} {d : DestSt} {dst : String} {F c crc : List UInt8} {seg : Nat}
    {h : List (Nat × Nat)} {rc : RemoteCfg} {t : Tid} {cks : Nat} {conf : Hdr} {m : Nat}
    (hr : AckedG d dst F c crc seg h rc t cks conf) (hnak : 0 < rc.nakMs)
    (hp1 : d.p.progress ≤ F.length) (hp2 : ∀ q ∈ h, q.2 ≤ d.p.progress) :
    WaitG (drained (afterDeferredG env d rc F.length m)) dst F c crc seg h rc t cks conf ⟨env.now, rc.nakMs⟩ :=
  { hbusy := hr.hbusy, hstep := rfl, hready := rfl, hqueue := rfl, hconf := hr.hconf, hmode := hr.hmode,
    hname := hr.hname, hfile := hr.hfile, hlenle := hr.hlenle, hcov := hr.hcov, hprog1 := hp1, hprog2 := hp2,
    hcrc := hr.hcrc, hfse := hr.hfse, hrc := hr.hrc, htid := hr.htid, hrej := hr.hrej,
    hcks := hr.hcks, hcancel := hr.hcancel, hmo := hr.hmo, hflts := hr.hflts, hfin := hr.hfin, hmm := hr.hmm,
    hdef := rfl, hpt := rfl, htm := hnak, hmark := rfl,
    hinv := by
      obtain ⟨T, hT, htrk⟩ := hr.htrk
      have := hT.eof
      simpa [drained, afterDeferredG, tsOf, TS.eof, htrk, tailTrk] using this }

/-- state after a retransmitted tile that does not complete the file -/
def afterResentG (d : DestSt) (dst : String) (c data : List UInt8) (a b : Nat) (env : Env) (t : Tid)
    (tm : Timer) : DestSt :=
  { d with fs := d.fs.set dst (.file (Fs.writeBytes c data a)),
           p := { withTs d.p ((tsOf d.p).tile a b) with progress := max b d.p.progress, nakCounter := 0,
                                                          procTimer := some (tm.reset env.now) },
           inds := d.inds ++ (if env.cfg.indSegRecv then [.segRecv (some t) a (b - a)] else []) }

/-- **A retransmitted tile, something still missing**: written, removed from the listing; this is
progress — the NAK counter returns to 0 and the NAK timer restarts —; nothing is queued. -/
theorem C03_resent_tile_any (env : Env) (d : DestSt) (dst : String) (F c crc : List UInt8) (seg : Nat)
    (h : List (Nat × Nat)) (rc : RemoteCfg) (t : Tid) (cks : Nat) (conf hd : Hdr) (tm : Timer) (a b : Nat)
    (hs : 0 < seg) (hr : WaitG d dst F c crc seg h rc t cks conf tm) (ha : AdmissibleA env rc hd)
    (hT : Tile seg F.length a b) (hmore : ((tsOf d.p).tile a b).trk ≠ []) :
    stateMachine env (some (.fd hd a (tileData F a b))) d =
      .ok () (afterResentG d dst c (tileData F a b) a b env t tm) ∧
    WaitG (afterResentG d dst c (tileData F a b) a b env t tm) dst F (Fs.writeBytes c (tileData F a b) a) crc seg
      (h ++ [(a, b)]) rc t cks conf (tm.reset env.now) := by
  have hab := hT.lt hs
  have hbs := hT.le_size
  have hdl := tileData_length hT
  have hsum : a + (b - a) = b := by omega
  have hm : d.p.conf.mode = .ack := by rw [hr.hconf]; exact hr.hmode
  obtain ⟨hflen, hfcov⟩ := file_after_tile' hs hT hr.hlenle hr.hcov hr.hinv.hist_le_size
  have hmk := ((tsOf d.p).tile_marker_of_lt (a := a) (b := b) (by show a < d.p.lastEnd; rw [hr.hmark]; exact hT.2.1))
  have hnb : ¬ b > F.length := by omega
  have hlen0 : ¬ ((tsOf d.p).tile a b).trk.length = 0 := fun hc => hmore (List.eq_nil_of_length_eq_zero hc)
  have htm := hr.htm
  have htm' : ¬ tm.timeout = 0 := by omega
  constructor
  · unfold stateMachine
    generalize (stateMachineWith env none (stateMachineWith env none (throw Err.recursionError))) = rec
    obtain ⟨st, stp, nr, p, q, fs, fl, rej, ind, flt⟩ := d
    have h1 := hr.hbusy; have h2 := hr.hstep; have h3 := hr.hready; have h4 := hr.hqueue; have h5 := hr.hrej
    have h6 := hr.htid; have h7 := hr.hname; have h8 := hr.hfile; have h9 := hr.hfse; have h10 := hr.hfin
    have h11 := hr.hrc; have h12 := hr.hdef; have h13 := hr.hpt; have h14 := hr.hcancel; have h15 := hr.hmm
    try simp only at h1 h2 h3 h4 h5 h6 h7 h8 h9 h10 h11 h12 h13 h14 h15 hm hmore hlen0
    subst h1 h2 h3 h4 h5
    have halt : a < p.lastEnd := by
      have := hr.hmark; simp only at this; rw [this]; exact hT.2.1
    have hmore' : ((({ ls := p.lastStart, le := p.lastEnd, trk := p.trk } : TS).tile a b).trk = []) = False :=
      eq_false hmore
    cases hi : env.cfg.indSegRecv
    · have hl := lsh_below ⟨.busy, .WAITING_FOR_MISSING_DATA, 0, p, [], fs, fl, [], ind, flt⟩ a b
        (Nat.le_of_lt hab) halt
      try simp only at hl
      msimp [stateMachineWith, checkInsertedPacket, Pdu.hdr, ha.hdir, ha.hdst, ha.hsrc, Pdu.kind,
        Route.getPacketDestination, transmissionMode, hm, nonIdleFsm,
        fsmAdvancementAfterPacketsWereSent, fsmFromReceiving, fsmFromWaitingForMetadata, fsmFromCheckLimit,
        fsmFromWaitingForMissingData, handleFdPdu,
        fdIndication, hi, getP, emitInd, h6, fdLostSegments, hdl, hl,
        fdWrite, vfsWriteData, h7, withTs,
        Fs.writeData, h8, fdAfterWrite, sizeErrOf, modP, h9, hsum, hnb, h12, resetNakActivityParameters, h13,
        deferredLostSegmentHandling, h14, h11, h15, hmore', Timer.busy, Timer.timedOut, Timer.reset, htm, htm',
        fsmFromTransferCompletion, fsmFromSendingFinishedPdu,
        fsmFromWaitingForFinishedAck, afterResentG, h10, tsOf]
    · have hl := lsh_below ⟨.busy, .WAITING_FOR_MISSING_DATA, 0, p, [], fs, fl, [],
          ind ++ [.segRecv (some t) a (b - a)], flt⟩ a b (Nat.le_of_lt hab) halt
      try simp only at hl
      msimp [stateMachineWith, checkInsertedPacket, Pdu.hdr, ha.hdir, ha.hdst, ha.hsrc, Pdu.kind,
        Route.getPacketDestination, transmissionMode, hm, nonIdleFsm,
        fsmAdvancementAfterPacketsWereSent, fsmFromReceiving, fsmFromWaitingForMetadata, fsmFromCheckLimit,
        fsmFromWaitingForMissingData, handleFdPdu,
        fdIndication, hi, getP, emitInd, h6, fdLostSegments, hdl, hl,
        fdWrite, vfsWriteData, h7, withTs,
        Fs.writeData, h8, fdAfterWrite, sizeErrOf, modP, h9, hsum, hnb, h12, resetNakActivityParameters, h13,
        deferredLostSegmentHandling, h14, h11, h15, hmore', Timer.busy, Timer.timedOut, Timer.reset, htm, htm',
        fsmFromTransferCompletion, fsmFromSendingFinishedPdu,
        fsmFromWaitingForFinishedAck, afterResentG, h10, tsOf]
  · exact
      { hbusy := hr.hbusy, hstep := hr.hstep, hready := hr.hready, hqueue := hr.hqueue,
        hconf := by simp [afterResentG, withTs, hr.hconf], hmode := hr.hmode,
        hname := by simp [afterResentG, withTs, hr.hname],
        hfile := by simp [afterResentG, Fs.C17.get_set_same],
        hlenle := hflen, hcov := hfcov,
        hprog1 := by
          show max b d.p.progress ≤ F.length
          have := hr.hprog1; omega,
        hprog2 := by
          intro q hq
          show q.2 ≤ max b d.p.progress
          simp at hq
          rcases hq with hq | hq
          · have := hr.hprog2 q hq; omega
          · subst hq; simp only; omega,
        hcrc := by simp [afterResentG, withTs, hr.hcrc], hfse := by simp [afterResentG, withTs, hr.hfse],
        hrc := by simp [afterResentG, withTs, hr.hrc],
        htid := by simp [afterResentG, withTs, hr.htid], hrej := hr.hrej,
        hcks := by simp [afterResentG, withTs, hr.hcks], hcancel := by simp [afterResentG, withTs, hr.hcancel],
        hmo := by simp [afterResentG, withTs, hr.hmo], hflts := hr.hflts,
        hfin := by simp [afterResentG, withTs, hr.hfin], hmm := by simp [afterResentG, withTs, hr.hmm],
        hdef := by simp [afterResentG, withTs, hr.hdef], hpt := by simp [afterResentG, withTs],
        htm := by simpa [Timer.reset] using hr.htm,
        hmark := by
          show ((tsOf d.p).tile a b).le = F.length
          rw [hmk.1]; exact hr.hmark,
        hinv := by
          have := hr.hinv.tile hs hT
          simpa [afterResentG, withTs, tsOf] using this }

/-- state after the retransmitted tile that completes the file -/
def afterLastG (d : DestSt) (dst : String) (F : List UInt8) (a b : Nat) (env : Env) (t : Tid) (rc : RemoteCfg)
    (tm : Timer) : DestSt :=
  { d with step := .WAITING_FOR_FINISHED_ACK, fs := d.fs.set dst (.file F),
           p := { withTs d.p ((tsOf d.p).tile a b) with
                    progress := F.length, fin := ⟨ccNoError, dcComplete, fsRetained, none⟩,
                    ackTimer := some ⟨env.now, rc.ackMs⟩, ackCounter := 0, deferredActive := false,
                    nakCounter := 0, procTimer := some (tm.reset env.now) },
           queue := [mkFin d.p.conf ⟨ccNoError, dcComplete, fsRetained, none⟩], numReady := 1,
           inds := d.inds ++ (if env.cfg.indSegRecv then [.segRecv (some t) a (b - a)] else []) ++
             (if env.cfg.indFinished
               then [.finished (some t) ⟨ccNoError, dcComplete, fsRetained, none⟩] else []) }

/-- **The retransmitted tile that completes the file**: the listing becomes empty, the checksum of the
stored file is verified against the EOF's, the user is told (No error, Data complete, File retained),
exactly one Finished PDU with those values is queued and its positive-ACK procedure starts. -/
theorem C03_last_resent_tile_any (env : Env) (d : DestSt) (dst : String) (F c crc : List UInt8) (seg : Nat)
    (h : List (Nat × Nat)) (rc : RemoteCfg) (t : Tid) (cks : Nat) (conf hd : Hdr) (tm : Timer) (a b : Nat)
    (hs : 0 < seg) (hr : WaitG d dst F c crc seg h rc t cks conf tm) (ha : AdmissibleA env rc hd)
    (hT : Tile seg F.length a b) (hlast : ((tsOf d.p).tile a b).trk = [])
    (hfull : Fs.writeBytes c (tileData F a b) a = F) (hprog : max b d.p.progress = F.length)
    (hms : rc.ackMs ≠ 0)
    (hver : cks = 15 ∨ ∀ fs : Fs, fs.get dst = some (.file F) →
      Fs.calcChecksum fs (Checksum.CksType.ofNat cks) dst F.length 4096 = .ok crc) :
    stateMachine env (some (.fd hd a (tileData F a b))) d = .ok () (afterLastG d dst F a b env t rc tm) := by
  have hab := hT.lt hs
  have hbs := hT.le_size
  have hdl := tileData_length hT
  have hsum : a + (b - a) = b := by omega
  have hm : d.p.conf.mode = .ack := by rw [hr.hconf]; exact hr.hmode
  have hnb : ¬ b > F.length := by omega
  have hpos : 0 < rc.ackMs := by omega
  unfold stateMachine
  generalize (stateMachineWith env none (stateMachineWith env none (throw Err.recursionError))) = rec
  obtain ⟨st, stp, nr, p, q, fs, fl, rej, ind, flt⟩ := d
  have h1 := hr.hbusy; have h2 := hr.hstep; have h3 := hr.hready; have h4 := hr.hqueue; have h5 := hr.hrej
  have h6 := hr.htid; have h7 := hr.hname; have h8 := hr.hfile; have h9 := hr.hfse; have h10 := hr.hfin
  have h11 := hr.hrc; have h12 := hr.hdef; have h13 := hr.hpt; have h14 := hr.hcancel; have h15 := hr.hmm
  have h16 := hr.hcks; have h17 := hr.hmo; have h18 := hr.hcrc
  try simp only at h1 h2 h3 h4 h5 h6 h7 h8 h9 h10 h11 h12 h13 h14 h15 h16 h17 h18 hm hlast hprog
  subst h1 h2 h3 h4 h5
  have halt : a < p.lastEnd := by
    have := hr.hmark; simp only at this; rw [this]; exact hT.2.1
  have hlast' : (({ ls := p.lastStart, le := p.lastEnd, trk := p.trk } : TS).tile a b).trk = [] := hlast
  have hcc : cks = 15 ∨ Fs.calcChecksum (fs.set dst (.file F)) (Checksum.CksType.ofNat cks) dst F.length 4096 = .ok crc := by
    rcases hver with hv | hv
    · exact Or.inl hv
    · exact Or.inr (hv _ (by simp [Fs.C17.get_set_same]))
  by_cases hnull : cks = 15
  · cases hi : env.cfg.indSegRecv <;> cases hf : env.cfg.indFinished <;>
    (first
      | (have hl := lsh_below ⟨.busy, .WAITING_FOR_MISSING_DATA, 0, p, [], fs, fl, [], ind, flt⟩ a b
            (Nat.le_of_lt hab) halt
         try simp only at hl
         msimp [stateMachineWith, checkInsertedPacket, Pdu.hdr, ha.hdir, ha.hdst, ha.hsrc, Pdu.kind,
          Route.getPacketDestination, transmissionMode, hm, nonIdleFsm,
          fsmAdvancementAfterPacketsWereSent, fsmFromReceiving, fsmFromWaitingForMetadata, fsmFromCheckLimit,
          fsmFromWaitingForMissingData, handleFdPdu,
          fdIndication, hi, getP, emitInd, h6, fdLostSegments, hdl, hl,
          fdWrite, vfsWriteData, h7, withTs,
          Fs.writeData, h8, hfull, fdAfterWrite, sizeErrOf, modP, h9, hsum, hnb, hprog, h12,
          resetNakActivityParameters, h13,
          deferredLostSegmentHandling, h14, h11, h15, hlast', checksumVerify, h16, hnull, markComplete,
          fsmFromTransferCompletion, handleTransferCompletion, noticeOfCompletion, hf,
          fsmFromSendingFinishedPdu, prepareFinishedPdu, addPacket,
          handleFinishedPduSent, startPositiveAckProcedure, fsmFromWaitingForFinishedAck,
          handleWaitingForFinishedAck, handlePositiveAckProcedures, Timer.timedOut, Timer.reset, hms, hpos,
          afterLastG, h10, tsOf]
         done)
      | (have hl := lsh_below ⟨.busy, .WAITING_FOR_MISSING_DATA, 0, p, [], fs, fl, [],
            ind ++ [.segRecv (some t) a (b - a)], flt⟩ a b (Nat.le_of_lt hab) halt
         try simp only at hl
         msimp [stateMachineWith, checkInsertedPacket, Pdu.hdr, ha.hdir, ha.hdst, ha.hsrc, Pdu.kind,
          Route.getPacketDestination, transmissionMode, hm, nonIdleFsm,
          fsmAdvancementAfterPacketsWereSent, fsmFromReceiving, fsmFromWaitingForMetadata, fsmFromCheckLimit,
          fsmFromWaitingForMissingData, handleFdPdu,
          fdIndication, hi, getP, emitInd, h6, fdLostSegments, hdl, hl,
          fdWrite, vfsWriteData, h7, withTs,
          Fs.writeData, h8, hfull, fdAfterWrite, sizeErrOf, modP, h9, hsum, hnb, hprog, h12,
          resetNakActivityParameters, h13,
          deferredLostSegmentHandling, h14, h11, h15, hlast', checksumVerify, h16, hnull, markComplete,
          fsmFromTransferCompletion, handleTransferCompletion, noticeOfCompletion, hf,
          fsmFromSendingFinishedPdu, prepareFinishedPdu, addPacket,
          handleFinishedPduSent, startPositiveAckProcedure, fsmFromWaitingForFinishedAck,
          handleWaitingForFinishedAck, handlePositiveAckProcedures, Timer.timedOut, Timer.reset, hms, hpos,
          afterLastG, h10, tsOf]
         done))
  · have hc := hcc.resolve_left hnull
    cases hi : env.cfg.indSegRecv <;> cases hf : env.cfg.indFinished <;>
    (first
      | (have hl := lsh_below ⟨.busy, .WAITING_FOR_MISSING_DATA, 0, p, [], fs, fl, [], ind, flt⟩ a b
            (Nat.le_of_lt hab) halt
         try simp only at hl
         msimp [stateMachineWith, checkInsertedPacket, Pdu.hdr, ha.hdir, ha.hdst, ha.hsrc, Pdu.kind,
          Route.getPacketDestination, transmissionMode, hm, nonIdleFsm,
          fsmAdvancementAfterPacketsWereSent, fsmFromReceiving, fsmFromWaitingForMetadata, fsmFromCheckLimit,
          fsmFromWaitingForMissingData, handleFdPdu,
          fdIndication, hi, getP, emitInd, h6, fdLostSegments, hdl, hl,
          fdWrite, vfsWriteData, h7, withTs,
          Fs.writeData, h8, hfull, fdAfterWrite, sizeErrOf, modP, h9, hsum, hnb, hprog, h12,
          resetNakActivityParameters, h13,
          deferredLostSegmentHandling, h14, h11, h15, hlast', checksumVerify, h16, hnull, h17, hc, h18, markComplete,
          fsmFromTransferCompletion, handleTransferCompletion, noticeOfCompletion, hf,
          fsmFromSendingFinishedPdu, prepareFinishedPdu, addPacket,
          handleFinishedPduSent, startPositiveAckProcedure, fsmFromWaitingForFinishedAck,
          handleWaitingForFinishedAck, handlePositiveAckProcedures, Timer.timedOut, Timer.reset, hms, hpos,
          afterLastG, h10, tsOf]
         done)
      | (have hl := lsh_below ⟨.busy, .WAITING_FOR_MISSING_DATA, 0, p, [], fs, fl, [],
            ind ++ [.segRecv (some t) a (b - a)], flt⟩ a b (Nat.le_of_lt hab) halt
         try simp only at hl
         msimp [stateMachineWith, checkInsertedPacket, Pdu.hdr, ha.hdir, ha.hdst, ha.hsrc, Pdu.kind,
          Route.getPacketDestination, transmissionMode, hm, nonIdleFsm,
          fsmAdvancementAfterPacketsWereSent, fsmFromReceiving, fsmFromWaitingForMetadata, fsmFromCheckLimit,
          fsmFromWaitingForMissingData, handleFdPdu,
          fdIndication, hi, getP, emitInd, h6, fdLostSegments, hdl, hl,
          fdWrite, vfsWriteData, h7, withTs,
          Fs.writeData, h8, hfull, fdAfterWrite, sizeErrOf, modP, h9, hsum, hnb, hprog, h12,
          resetNakActivityParameters, h13,
          deferredLostSegmentHandling, h14, h11, h15, hlast', checksumVerify, h16, hnull, h17, hc, h18, markComplete,
          fsmFromTransferCompletion, handleTransferCompletion, noticeOfCompletion, hf,
          fsmFromSendingFinishedPdu, prepareFinishedPdu, addPacket,
          handleFinishedPduSent, startPositiveAckProcedure, fsmFromWaitingForFinishedAck,
          handleWaitingForFinishedAck, handlePositiveAckProcedures, Timer.timedOut, Timer.reset, hms, hpos,
          afterLastG, h10, tsOf]
         done))

/-- the listing is empty exactly when everything below the marker was delivered -/
theorem _root_.Cfdp.C06.TInv.trk_nil_iff {seg size : Nat} {h : List (Nat × Nat)} {s : TS} (hi : TInv seg size h s) :
    s.trk = [] ↔ ∀ x, x < s.le → covered h x := by
  constructor
  · intro he x hx
    have := (hi.exact x).2
    rw [he] at this
    exact Classical.byContradiction fun hc => by simpa using this ⟨hx, hc⟩
  · intro hall
    cases htrk : s.trk with
    | nil => rfl
    | cons r t =>
      have hw := hi.wf
      rw [htrk] at hw
      have hr : den s.trk r.1 := by rw [htrk]; exact ⟨r, List.mem_cons_self, Nat.le_refl _, hw.2.1⟩
      have := (hi.exact r.1).1 hr
      exact absurd (hall r.1 this.1) this.2

theorem covered_mono {h h' : List (Nat × Nat)} {x : Nat} (hc : covered h x) : covered (h ++ h') x := by
  obtain ⟨q, hq, h1, h2⟩ := hc
  exact ⟨q, List.mem_append_left _ hq, h1, h2⟩

/-- **Any retransmissions that leave something missing**: each is taken in one call that returns and
queues nothing; the receiver keeps waiting, in `WaitG` for the extended history. -/
theorem C03_wait_any_history (env : Env) (hd : Hdr) (dst : String) (F crc : List UInt8) (seg : Nat)
    (rc : RemoteCfg) (t : Tid) (cks : Nat) (conf : Hdr) (hs : 0 < seg) (ha : AdmissibleA env rc hd) :
    ∀ (h2 : List (Nat × Nat)) (d : DestSt) (c : List UInt8) (h : List (Nat × Nat)) (tm : Timer),
      (∀ q ∈ h2, Tile seg F.length q.1 q.2) → WaitG d dst F c crc seg h rc t cks conf tm →
      (∃ x, x < F.length ∧ ¬ covered (h ++ h2) x) →
      ∃ d' c' tm', feedTiles env hd F h2 d = some d' ∧ WaitG d' dst F c' crc seg (h ++ h2) rc t cks conf tm' ∧
        (∀ q, q ≠ dst → d'.fs.get q = d.fs.get q) ∧
        d'.inds.filter isFinished = d.inds.filter isFinished := by
  intro h2
  induction h2 with
  | nil => intro d c h tm _ hr _; exact ⟨d, c, tm, rfl, by simpa using hr, fun _ _ => rfl, rfl⟩
  | cons q h2 ih =>
    intro d c h tm hT hr hmiss
    have hTq := hT q List.mem_cons_self
    have hinv' := hr.hinv.tile hs hTq
    have hmark' : ((tsOf d.p).tile q.1 q.2).le = F.length := by
      rw [((tsOf d.p).tile_marker_of_lt (by show q.1 < d.p.lastEnd; rw [hr.hmark]; exact hTq.2.1)).1]
      exact hr.hmark
    have hmore : ((tsOf d.p).tile q.1 q.2).trk ≠ [] := by
      intro hnil
      obtain ⟨x, hx, hnc⟩ := hmiss
      have := (hinv'.trk_nil_iff).1 hnil x (by rw [hmark']; exact hx)
      apply hnc
      have h' : covered ((h ++ [(q.1, q.2)]) ++ h2) x := covered_mono this
      simpa [List.append_assoc] using h'
    obtain ⟨hcall, hr'⟩ := C03_resent_tile_any env d dst F c crc seg h rc t cks conf hd tm q.1 q.2 hs hr ha hTq hmore
    obtain ⟨d', c', tm', hf, hR, hother, hfin⟩ := ih _ _ _ _ (fun r hr => hT r (List.mem_cons_of_mem _ hr)) hr'
      (by simpa [List.append_assoc] using hmiss)
    refine ⟨d', c', tm', ?_, ?_, ?_, ?_⟩
    · simp only [feedTiles, hcall]; exact hf
    · simpa [List.append_assoc] using hR
    · intro p hp
      rw [hother p hp]
      simp [afterResentG, Fs.C17.get_set_other _ _ _ _ hp]
    · rw [hfin]
      simp only [afterResentG, List.filter_append]
      split <;> simp [isFinished]

/-- everything delivered: the stored bytes are the source file -/
theorem file_complete {F c : List UInt8} {h : List (Nat × Nat)} (hlen : c.length ≤ F.length)
    (hcov : ∀ x, covered h x → c[x]? = F[x]?) (hall : ∀ x, x < F.length → covered h x) : c = F := by
  have hl : c.length = F.length := by
    rcases Nat.eq_zero_or_pos F.length with h0 | hp
    · omega
    · have := hcov (F.length - 1) (hall _ (by omega))
      rw [List.getElem?_eq_getElem (by omega : F.length - 1 < F.length)] at this
      by_contra hn
      rw [List.getElem?_eq_none (by omega)] at this
      cases this
  apply List.ext_getElem?
  intro i
  by_cases hi : i < F.length
  · exact hcov i (hall i hi)
  · rw [List.getElem?_eq_none (by omega), List.getElem?_eq_none (by omega)]

/-- **The retransmission that delivers the last missing byte completes the transfer** — whatever was
lost before, in whatever order it was re-sent. -/
theorem C03_last_tile_completes (env : Env) (d : DestSt) (dst : String) (F c crc : List UInt8) (seg : Nat)
    (h : List (Nat × Nat)) (rc : RemoteCfg) (t : Tid) (cks : Nat) (conf hd : Hdr) (tm : Timer) (a b : Nat)
    (hs : 0 < seg) (hr : WaitG d dst F c crc seg h rc t cks conf tm) (ha : AdmissibleA env rc hd)
    (hT : Tile seg F.length a b) (hall : ∀ x, x < F.length → covered (h ++ [(a, b)]) x)
    (hms : rc.ackMs ≠ 0)
    (hver : cks = 15 ∨ ∀ fs : Fs, fs.get dst = some (.file F) →
      Fs.calcChecksum fs (Checksum.CksType.ofNat cks) dst F.length 4096 = .ok crc) :
    stateMachine env (some (.fd hd a (tileData F a b))) d = .ok () (afterLastG d dst F a b env t rc tm) := by
  have hinv' := hr.hinv.tile hs hT
  have hmark' : ((tsOf d.p).tile a b).le = F.length := by
    rw [((tsOf d.p).tile_marker_of_lt (by show a < d.p.lastEnd; rw [hr.hmark]; exact hT.2.1)).1]
    exact hr.hmark
  have hlast : ((tsOf d.p).tile a b).trk = [] :=
    (hinv'.trk_nil_iff).2 (fun x hx => hall x (by rw [hmark'] at hx; exact hx))
  obtain ⟨hflen, hfcov⟩ := file_after_tile' hs hT hr.hlenle hr.hcov hr.hinv.hist_le_size
  have hfull : Fs.writeBytes c (tileData F a b) a = F := file_complete hflen hfcov hall
  have hbs := hT.le_size
  have hab := hT.lt hs
  have hprog : max b d.p.progress = F.length := by
    have h1 := hr.hprog1
    have hF : 0 < F.length := by omega
    obtain ⟨q, hq, q1, q2⟩ := hall (F.length - 1) (by omega)
    simp at hq
    rcases hq with hq | hq
    · have := hr.hprog2 q hq
      have := hr.hinv.hist_le_size q hq
      omega
    · subst hq; simp only at q2; omega
  exact C03_last_resent_tile_any env d dst F c crc seg h rc t cks conf hd tm a b hs hr ha hT hlast hfull hprog hms hver

/-- **Recovery from any loss of File Data PDUs — the receiver's side, composed.**  After the Metadata
PDU (acknowledged, deferred NAK mode) the File Data PDUs of any history `h1` of tiles arrive — any
order, any losses, any duplicates —, then the EOF.  Something is missing, so the call after the
retrieval of the ACK (EOF) issues the NAK sequence, which requests **exactly** the bytes that `h1` did not
deliver.  Retransmitted tiles `h2` arrive in any order (any of them again, too), still leaving
something missing; finally the tile `[a, b)` that delivers the last missing byte.  Every call returns;
the last one verifies the checksum, tells the user No error / Data complete / File retained and queues
exactly one Finished PDU with those values; the destination file is the source file and no other path
of the filestore was touched. -/
theorem C03_receiver_recovers_any_loss (env : Env) (hd : Hdr) (d0 : DestSt) (dst : String) (F crc : List UInt8)
    (seg m : Nat) (rc : RemoteCfg) (t : Tid) (cks : Nat) (conf : Hdr) (h1 h2 : List (Nat × Nat)) (a b : Nat)
    (hs : 0 < seg) (hm1 : 1 ≤ m) (ha : AdmissibleA env rc hd)
    (hr0 : ReceivingA d0 dst [] rc t cks conf) (himm : rc.imm = false) (hpt0 : d0.p.procTimer = none)
    (hmax : maxSegReqs rc.maxPkt conf = some m) (hnak : rc.nakMs ≠ 0) (hms : rc.ackMs ≠ 0)
    (hT1 : ∀ q ∈ h1, Tile seg F.length q.1 q.2) (hT2 : ∀ q ∈ h2, Tile seg F.length q.1 q.2)
    (hT : Tile seg F.length a b)
    (hmiss : ∃ x, x < F.length ∧ ¬ covered (h1 ++ h2) x)
    (hall : ∀ x, x < F.length → covered (h1 ++ h2 ++ [(a, b)]) x)
    (hver : cks = 15 ∨ ∀ fs : Fs, fs.get dst = some (.file F) →
      Fs.calcChecksum fs (Checksum.CksType.ofNat cks) dst F.length 4096 = .ok crc) :
    ∃ d1 d2 d3 d4 tm,
      feedTiles env hd F h1 d0 = some d1 ∧
      stateMachine env (some (.eof hd ccNoError crc F.length none)) d1 = .ok () d2 ∧
      d2.queue = [mkAck conf dtEof ccNoError tsActive] ∧
      stateMachine env none (drained d2) = .ok () d3 ∧
      (∀ x, requested d3.queue x ↔ (x < F.length ∧ ¬ covered h1 x)) ∧
      feedTiles env hd F h2 (drained d3) = some d4 ∧
      stateMachine env (some (.fd hd a (tileData F a b))) d4 = .ok () (afterLastG d4 dst F a b env t rc tm) ∧
      (afterLastG d4 dst F a b env t rc tm).queue = [mkFin conf ⟨ccNoError, dcComplete, fsRetained, none⟩] ∧
      (afterLastG d4 dst F a b env t rc tm).fs.get dst = some (.file F) ∧
      (∀ q, q ≠ dst → (afterLastG d4 dst F a b env t rc tm).fs.get q = d0.fs.get q) ∧
      (afterLastG d4 dst F a b env t rc tm).flts = [] := by
  -- the File Data PDUs that arrive
  obtain ⟨d1, c1, hf1, hR1, ho1, -, -⟩ := C03_receiver_any_history env hd dst F seg rc t cks conf hs ha himm h1 d0 [] []
    hT1 (RecvG.ofReceivingA hr0 hpt0)
  simp only [List.nil_append] at hR1
  -- the EOF
  have heof := C03_eof_any env d1 dst F c1 crc seg h1 rc t cks conf hd hR1 ha
  have hA : AckedG (drained (afterEofG env d1 t crc F.length)) dst F c1 crc seg h1 rc t cks conf :=
    AckedG.ofRecvG hR1
  -- something is missing: the deferred procedure
  have hmiss1 : ∃ x, x < F.length ∧ ¬ covered h1 x := by
    obtain ⟨x, hx, hnc⟩ := hmiss
    exact ⟨x, hx, fun hc => hnc (covered_mono hc)⟩
  have hEofInv := hR1.hinv.eof
  have htrkne : (drained (afterEofG env d1 t crc F.length)).p.trk ≠ [] := by
    intro hnil
    have hco : ((tsOf d1.p).eof F.length).trk = [] := by
      show Tracker.coalesce (tailTrk (tsOf d1.p) F.length) = []
      have : tailTrk (tsOf d1.p) F.length = [] := hnil
      rw [this]; rfl
    obtain ⟨x, hx, hnc⟩ := hmiss1
    exact hnc ((hEofInv.trk_nil_iff).1 hco x hx)
  have hdefc := C03_deferred_any env _ dst F c1 crc seg h1 rc t cks conf m hA hmax hnak htrkne
  have hW : WaitG (drained (afterDeferredG env (drained (afterEofG env d1 t crc F.length)) rc F.length m)) dst F c1
      crc seg h1 rc t cks conf ⟨env.now, rc.nakMs⟩ :=
    WaitG.ofAckedG hA (by omega)
      (by show d1.p.progress ≤ F.length; rw [hR1.hprog]; exact hR1.hinv.leSize)
      (by intro q hq; show q.2 ≤ d1.p.progress; rw [hR1.hprog]; exact hR1.hinv.hle q hq)
  -- retransmissions that leave something missing
  obtain ⟨d4, c4, tm4, hf4, hR4, ho4, -⟩ := C03_wait_any_history env hd dst F crc seg rc t cks conf hs ha h2 _ c1 h1 _
    hT2 hW hmiss
  -- the last one
  have hlastc := C03_last_tile_completes env d4 dst F c4 crc seg (h1 ++ h2) rc t cks conf hd tm4 a b hs hR4 ha hT
    hall hms hver
  refine ⟨d1, afterEofG env d1 t crc F.length, _, d4, tm4, hf1, heof, ?_, hdefc, ?_, hf4, hlastc, ?_, ?_, ?_, ?_⟩
  · simp [afterEofG, hR1.hconf]
  · intro x
    have hq : (afterDeferredG env (drained (afterEofG env d1 t crc F.length)) rc F.length m).queue =
        nakSequence conf F.length m false ((tsOf d1.p).eof F.length).trk := by
      simp [afterDeferredG, drained, afterEofG, eofP, hR1.hconf, TS.eof, tailTrk, tsOf]
    rw [hq]
    have hflat : flat (nakSequence conf F.length m false ((tsOf d1.p).eof F.length).trk) =
        ((tsOf d1.p).eof F.length).trk := by
      simpa using C06_nak_sequence_exact conf F.length m hm1 false _
    have := hEofInv.exact x
    simp only [requested, hflat]
    exact this
  · simp [afterLastG, hR4.hconf]
  · simp [afterLastG, Fs.C17.get_set_same]
  · intro q hq
    have e1 : (afterLastG d4 dst F a b env t rc tm4).fs.get q = d4.fs.get q := by
      simp [afterLastG, Fs.C17.get_set_other _ _ _ _ hq]
    rw [e1, ho4 q hq]
    show d1.fs.get q = d0.fs.get q
    exact ho1 q hq
  · show d4.flts = []
    exact hR4.hflts

/-! ### the sender's answers to grid-aligned requests are tiles of the grid -/

open Source.C08 in
/-- the chunks with which the sender answers a request `[cur, cur + missing)` that starts on the grid and
ends on the grid or at the end of the file are tiles of the grid -/
theorem chunkRanges_tiles (seg size : Nat) (hs : 0 < seg) :
    ∀ (fuel cur missing : Nat), missing ≤ fuel → seg ∣ cur → OnGrid seg size (cur + missing) →
      cur + missing ≤ size → ∀ r ∈ chunkRanges seg fuel cur missing, Tile seg size r.1 (r.1 + r.2) := by
  intro fuel
  induction fuel with
  | zero => intro cur missing _ _ _ _ r hr; simp [chunkRanges] at hr
  | succ fuel ih =>
    intro cur missing hf hc hg hle r hr
    unfold chunkRanges at hr
    by_cases hm : missing > 0
    · simp only [hm, if_true, List.mem_cons] at hr
      by_cases hge : seg ≤ missing
      · have hmin : min missing seg = seg := by omega
        rw [hmin] at hr
        rcases hr with rfl | hr
        · exact ⟨hc, by omega, by simp only; omega⟩
        · exact ih (cur + seg) (missing - seg) (by omega) (Nat.dvd_add hc (Nat.dvd_refl _))
            (by have : cur + seg + (missing - seg) = cur + missing := by omega
                rw [this]; exact hg) (by omega) r hr
      · have hmin : min missing seg = missing := by omega
        rw [hmin, Nat.sub_self] at hr
        rcases hr with rfl | hr
        · refine ⟨hc, by omega, ?_⟩
          simp only
          rcases hg with hg | hg
          · exfalso
            have : seg ∣ missing := (Nat.dvd_add_right hc).1 hg
            have := Nat.le_of_dvd hm this
            omega
          · omega
        · cases fuel <;> simp [chunkRanges] at hr
    · simp [hm] at hr

open Source.C08 in
/-- **The sender's answer to a grid-aligned request consists of tiles**: the File Data PDUs re-sent for
`[A, B)` (`A` on the grid, `B` on the grid or the end of the file) are, in ascending order, the PDUs
`mkFd conf a (tileData F a b)` of tiles `(a, b)` of the grid that together tile `[A, B)` — the PDUs the
receiver's recovery theorem takes. -/
theorem C03_answer_is_tiles (conf : Hdr) (F : List UInt8) (seg A B : Nat) (hs : 0 < seg) (hAB : A ≤ B)
    (hA : seg ∣ A) (hB : OnGrid seg F.length B) (hle : B ≤ F.length) :
    chunkPdus conf F seg (B - A) A (B - A) =
      (chunkRanges seg (B - A) A (B - A)).map (fun r => Source.mkFd conf r.1 (tileData F r.1 (r.1 + r.2))) ∧
    (∀ r ∈ chunkRanges seg (B - A) A (B - A), Tile seg F.length r.1 (r.1 + r.2) ∧ A ≤ r.1 ∧ r.1 + r.2 ≤ B) ∧
    ((chunkRanges seg (B - A) A (B - A)).map (·.2)).sum = B - A := by
  have hsum : A + (B - A) = B := by omega
  obtain ⟨c1, c2, -, -⟩ := C08_chunks_tile seg hs (B - A) A (B - A) (Nat.le_refl _)
  refine ⟨?_, ?_, c2⟩
  · rw [C08_chunk_pdus_content]
    apply List.map_congr_left
    intro r _
    simp [tileData]
  · intro r hr
    refine ⟨chunkRanges_tiles seg F.length hs (B - A) A (B - A) (Nat.le_refl _) hA (by rw [hsum]; exact hB)
      (by omega) r hr, ?_, ?_⟩
    · exact (c1 r hr).2.2.1
    · have := (c1 r hr).2.2.2; omega


/-! ## Any loss pattern of File Data PDUs: both models composed -/

/-- with room for all requests the deferred procedure issues a single NAK PDU carrying the whole listing -/
theorem splitReqs_fits (conf : Hdr) (eos m : Nat) :
    ∀ (reqs cur : List (Nat × Nat)) (out : List Pdu), cur.length + reqs.length ≤ m →
      splitReqs conf eos m reqs cur out = (cur ++ reqs, out) := by
  intro reqs
  induction reqs with
  | nil => intro cur out _; simp [splitReqs]
  | cons r rest ih =>
    intro cur out h
    unfold splitReqs
    have : ¬ cur.length ≥ m := by simp at h; omega
    simp only [this, if_false]
    rw [ih (cur ++ [r]) out (by simp at h ⊢; omega)]
    simp

theorem nakSequence_single (conf : Hdr) (eos m : Nat) (trk : Tracker.T) (hne : trk ≠ []) (hfit : trk.length ≤ m) :
    nakSequence conf eos m false trk = [mkNak conf 0 eos trk] := by
  unfold nakSequence
  have := splitReqs_fits conf eos m trk [] [] (by simpa using hfit)
  simp only [Bool.false_eq_true, if_false] at this ⊢
  rw [this]
  have hl : 0 < trk.length := List.length_pos_iff.mpr hne
  simp [hl]

/-- the coverage completes at some element of a list of tiles that covers everything -/
theorem completes_at (size : Nat) : ∀ (h2 h : List (Nat × Nat)),
    (∃ x, x < size ∧ ¬ covered h x) → (∀ x, x < size → covered (h ++ h2) x) →
    ∃ pre t post, h2 = pre ++ t :: post ∧ (∃ x, x < size ∧ ¬ covered (h ++ pre) x) ∧
      ∀ x, x < size → covered (h ++ pre ++ [t]) x := by
  intro h2
  induction h2 with
  | nil => intro h ⟨x, hx, hn⟩ hall; exact absurd (by simpa using hall x hx) hn
  | cons q h2 ih =>
    intro h hmiss hall
    by_cases hc : ∀ x, x < size → covered (h ++ [q]) x
    · exact ⟨[], q, h2, rfl, by simpa using hmiss, by simpa using hc⟩
    · have hmiss' : ∃ x, x < size ∧ ¬ covered (h ++ [q]) x := by
        by_contra hcon
        apply hc
        intro x hx
        by_contra hnx
        exact hcon ⟨x, hx, hnx⟩
      obtain ⟨pre, t, post, e, h1, h2'⟩ := ih (h ++ [q]) hmiss' (by simpa [List.append_assoc] using hall)
      refine ⟨q :: pre, t, post, by rw [e]; rfl, ?_, ?_⟩
      · simpa [List.append_assoc] using h1
      · simpa [List.append_assoc] using h2'

/-- **A File Data PDU that arrives after the transfer was completed** (the receiver waits for the ACK of
its Finished PDU, the timer has not run out): nothing happens. -/
theorem C03_late_file_data_noop (env : Env) (d : DestSt) (rc : RemoteCfg) (hd : Hdr) (off : Nat) (data : List UInt8)
    (tm : Timer) (ha : AdmissibleA env rc hd) (hb : d.state = .busy) (hstep : d.step = .WAITING_FOR_FINISHED_ACK)
    (hq : d.queue = []) (hm : d.p.conf.mode = .ack) (hrc : d.p.remoteCfg = some rc)
    (ht : d.p.ackTimer = some tm) (hrun : tm.timedOut env.now = false) :
    stateMachine env (some (.fd hd off data)) d = .ok () d := by
  unfold stateMachine
  generalize (stateMachineWith env none (stateMachineWith env none (throw Err.recursionError))) = rec
  msimp [stateMachineWith, checkInsertedPacket, Pdu.hdr, ha.hdir, ha.hdst, ha.hsrc, Pdu.kind,
    Route.getPacketDestination, hb, transmissionMode, hm, nonIdleFsm,
    fsmAdvancementAfterPacketsWereSent, hq, hstep, fsmFromReceiving, fsmFromWaitingForMetadata,
    fsmFromCheckLimit, fsmFromWaitingForMissingData, fsmFromTransferCompletion, fsmFromSendingFinishedPdu,
    fsmFromWaitingForFinishedAck, handleWaitingForFinishedAck, handlePositiveAckProcedures, getP, ht, hrc, hrun]

/-! ### the sender answers the NAK with exactly the missing tiles -/

open Source.C08 in
/-- **NAK with any number of valid requests at the sender that waits for the Finished PDU** -/
theorem C03_sender_answers_nak (env : Source.Env) (s : Source.SrcSt) (rc : RemoteCfg) (h : Hdr)
    (req : Source.PutReq) (src dst : String) (F : List UInt8) (seg : Nat) (conf : Hdr) (tid : Tid) (sos eos : Nat)
    (reqs : List (Nat × Nat))
    (ha : AdmissibleS env s rc h) (hW : WaitingFinS s req src F seg conf rc tid) (hdst : req.dst = some dst)
    (hseg0 : 0 < seg) (hv : ∀ r ∈ reqs, ValidReq s.p.progress r) :
    Source.stateMachine env (some (.nak h sos eos reqs)) s =
      .ok () (afterNak s (reqs.flatMap (answer s.p rc req src dst F))) := by
  have hadm : Source.checkInsertedPacket env (.nak h sos eos reqs) s = .ok () s := by
    msimp [Source.checkInsertedPacket, Pdu.hdr, ha.hdir, ha.hsrc, ha.hrc, ha.hdst, ha.hseq, Pdu.kind,
      Route.getPacketDestination, ha.hmode, hW.hstep]
  exact C08_nak_call env s rc req src dst F h sos eos reqs hadm hW.hbusy hW.hqueue ha.hmode
    (Or.inr (Or.inr hW.hstep)) hW.hreq hW.hsrc hdst hW.hrc hW.hfile (by rw [hW.hseg]; exact hseg0) hv

open Source.C08 in
/-- the chunks of a request cover exactly the requested range -/
theorem chunkRanges_cover (seg : Nat) (hs : 0 < seg) :
    ∀ (fuel cur missing : Nat), missing ≤ fuel →
      ∀ x, covered ((chunkRanges seg fuel cur missing).map (fun c => (c.1, c.1 + c.2))) x ↔
        (cur ≤ x ∧ x < cur + missing) := by
  intro fuel
  induction fuel with
  | zero =>
    intro cur missing hm x
    have : missing = 0 := by omega
    subst this
    simp [chunkRanges, covered]
  | succ fuel ih =>
    intro cur missing hm x
    unfold chunkRanges
    by_cases hpos : missing > 0
    · simp only [hpos, if_true, List.map_cons]
      have hrec := ih (cur + min missing seg) (missing - min missing seg) (by omega) x
      have hcons : covered ((cur, cur + min missing seg) ::
          (chunkRanges seg fuel (cur + min missing seg) (missing - min missing seg)).map (fun c => (c.1, c.1 + c.2))) x ↔
          ((cur ≤ x ∧ x < cur + min missing seg) ∨
           covered ((chunkRanges seg fuel (cur + min missing seg) (missing - min missing seg)).map
             (fun c => (c.1, c.1 + c.2))) x) := by
        simp only [covered, List.mem_cons]
        constructor
        · rintro ⟨q, hq | hq, h1, h2⟩
          · subst hq; exact Or.inl ⟨h1, h2⟩
          · exact Or.inr ⟨q, hq, h1, h2⟩
        · rintro (⟨h1, h2⟩ | ⟨q, hq, h1, h2⟩)
          · exact ⟨_, Or.inl rfl, h1, h2⟩
          · exact ⟨q, Or.inr hq, h1, h2⟩
      rw [hcons, hrec]
      omega
    · have : missing = 0 := by omega
      subst this
      simp [covered]

/-- the tiles with which the sender answers the requests of a listing -/
def ansTiles (seg : Nat) (L : Tracker.T) : List (Nat × Nat) :=
  L.flatMap fun r => (Source.C08.chunkRanges seg (r.2 - r.1) r.1 (r.2 - r.1)).map (fun c => (c.1, c.1 + c.2))

theorem covered_flatMap {α : Type} (L : List α) (f : α → List (Nat × Nat)) (x : Nat) :
    covered (L.flatMap f) x ↔ ∃ r ∈ L, covered (f r) x := by
  simp only [covered, List.mem_flatMap]
  constructor
  · rintro ⟨q, ⟨r, hr, hq⟩, h1, h2⟩; exact ⟨r, hr, q, hq, h1, h2⟩
  · rintro ⟨r, hr, q, hq, h1, h2⟩; exact ⟨q, ⟨r, hr, hq⟩, h1, h2⟩

/-- the answer tiles cover exactly what the listing denotes -/
theorem ansTiles_cover (seg : Nat) (hs : 0 < seg) (L : Tracker.T) (hw : WF L) (x : Nat) :
    covered (ansTiles seg L) x ↔ den L x := by
  have hlt := (C18.C18_wf_means_ascending_nonempty hw).1
  unfold ansTiles
  rw [covered_flatMap]
  simp only [den]
  constructor
  · rintro ⟨r, hr, hc⟩
    have := (chunkRanges_cover seg hs (r.2 - r.1) r.1 (r.2 - r.1) (Nat.le_refl _) x).1 hc
    have := hlt r hr
    exact ⟨r, hr, by omega, by omega⟩
  · rintro ⟨r, hr, h1, h2⟩
    refine ⟨r, hr, (chunkRanges_cover seg hs (r.2 - r.1) r.1 (r.2 - r.1) (Nat.le_refl _) x).2 ?_⟩
    have := hlt r hr
    omega

open Source.C08 in
/-- for a well-formed grid-aligned listing inside the file: the answer tiles are tiles of the grid, and
the PDUs the sender queues are their File Data PDUs -/
theorem ansTiles_spec (p : Source.Params) (rc : RemoteCfg) (req : Source.PutReq) (src dst : String)
    (F : List UInt8) (seg : Nat) (hs : 0 < seg) (hseg : p.segmentLen = seg) (L : Tracker.T) (hw : WF L)
    (hg : Bounds (OnGrid seg F.length) L) (hin : ∀ r ∈ L, r.2 ≤ F.length)
    (hA : ∀ r ∈ L, seg ∣ r.1) :
    L.flatMap (answer p rc req src dst F) =
      (ansTiles seg L).map (fun q => Source.mkFd p.conf q.1 (tileData F q.1 q.2)) ∧
    ∀ q ∈ ansTiles seg L, Tile seg F.length q.1 q.2 := by
  have hlt := (C18.C18_wf_means_ascending_nonempty hw).1
  constructor
  · unfold ansTiles
    rw [List.map_flatMap]
    apply List.flatMap_congr
    intro r hr
    have hne : r ≠ (0, 0) := by
      intro hc; have := hlt r hr; rw [hc] at this; simp at this
    have h1 := (C03_answer_is_tiles p.conf F seg r.1 r.2 hs (Nat.le_of_lt (hlt r hr)) (hA r hr) (hg r hr).2
      (hin r hr)).1
    simp only [answer, hne, if_false, hseg, h1, List.map_map]
    apply List.map_congr_left
    intro c _
    simp [Function.comp]
  · intro q hq
    simp only [ansTiles, List.mem_flatMap, List.mem_map] at hq
    obtain ⟨r, hr, c, hc, rfl⟩ := hq
    exact ((C03_answer_is_tiles (default : Hdr) F seg r.1 r.2 hs (Nat.le_of_lt (hlt r hr)) (hA r hr) (hg r hr).2
      (hin r hr)).2.1 c hc).1

/-! ### the receiver, all answers delivered -/

/-- File Data PDUs that arrive after the completion are ignored, one by one -/
theorem feedTiles_late (env : Env) (hd : Hdr) (F : List UInt8) (rc : RemoteCfg) (tm : Timer)
    (ha : AdmissibleA env rc hd) (hrun : tm.timedOut env.now = false) :
    ∀ (post : List (Nat × Nat)) (d : DestSt), d.state = .busy → d.step = .WAITING_FOR_FINISHED_ACK → d.queue = [] →
      d.p.conf.mode = .ack → d.p.remoteCfg = some rc → d.p.ackTimer = some tm →
      feedTiles env hd F post d = some d := by
  intro post
  induction post with
  | nil => intro d _ _ _ _ _ _; rfl
  | cons q post ih =>
    intro d h1 h2 h3 h4 h5 h6
    have := C03_late_file_data_noop env d rc hd q.1 (tileData F q.1 q.2) tm ha h1 h2 h3 h4 h5 h6 hrun
    simp only [feedTiles, this]
    exact ih d h1 h2 h3 h4 h5 h6

/-- as `feedTiles`, the user retrieving whatever a call queued before the next PDU is handed over -/
def feedTilesD (env : Env) (hd : Hdr) (F : List UInt8) : List (Nat × Nat) → DestSt → Option DestSt
  | [], d => some d
  | q :: rest, d =>
    match stateMachine env (some (.fd hd q.1 (tileData F q.1 q.2))) d with
    | .ok _ d' => feedTilesD env hd F rest (drained d')
    | .error _ _ => none

theorem drained_eq {d : DestSt} (h1 : d.queue = []) (h2 : d.numReady = 0) : drained d = d := by
  cases d; simp_all [drained]

theorem feedTilesD_append (env : Env) (hd : Hdr) (F : List UInt8) :
    ∀ (l1 l2 : List (Nat × Nat)) (d d' : DestSt), feedTilesD env hd F l1 d = some d' →
      feedTilesD env hd F (l1 ++ l2) d = feedTilesD env hd F l2 d' := by
  intro l1
  induction l1 with
  | nil => intro l2 d d' h; simp [feedTilesD] at h; subst h; rfl
  | cons q l1 ih =>
    intro l2 d d' h
    simp only [feedTilesD, List.cons_append] at h ⊢
    cases hc : stateMachine env (some (.fd hd q.1 (tileData F q.1 q.2))) d with
    | ok u d'' => rw [hc] at h; exact ih l2 _ d' h
    | error e d'' => rw [hc] at h; simp at h

/-- while nothing is queued by the calls, draining changes nothing: the `WaitG` phase -/
theorem feedTilesD_wait (env : Env) (hd : Hdr) (dst : String) (F crc : List UInt8) (seg : Nat)
    (rc : RemoteCfg) (t : Tid) (cks : Nat) (conf : Hdr) (hs : 0 < seg) (ha : AdmissibleA env rc hd) :
    ∀ (h2 : List (Nat × Nat)) (d : DestSt) (c : List UInt8) (h : List (Nat × Nat)) (tm : Timer),
      (∀ q ∈ h2, Tile seg F.length q.1 q.2) → WaitG d dst F c crc seg h rc t cks conf tm →
      (∃ x, x < F.length ∧ ¬ covered (h ++ h2) x) →
      feedTilesD env hd F h2 d = feedTiles env hd F h2 d := by
  intro h2
  induction h2 with
  | nil => intro d c h tm _ _ _; rfl
  | cons q h2 ih =>
    intro d c h tm hT hr hmiss
    have hTq := hT q List.mem_cons_self
    have hinv' := hr.hinv.tile hs hTq
    have hmark' : ((tsOf d.p).tile q.1 q.2).le = F.length := by
      rw [((tsOf d.p).tile_marker_of_lt (by show q.1 < d.p.lastEnd; rw [hr.hmark]; exact hTq.2.1)).1]
      exact hr.hmark
    have hmore : ((tsOf d.p).tile q.1 q.2).trk ≠ [] := by
      intro hnil
      obtain ⟨x, hx, hnc⟩ := hmiss
      have := (hinv'.trk_nil_iff).1 hnil x (by rw [hmark']; exact hx)
      apply hnc
      have h' : covered ((h ++ [(q.1, q.2)]) ++ h2) x := covered_mono this
      simpa [List.append_assoc] using h'
    obtain ⟨hcall, hr'⟩ := C03_resent_tile_any env d dst F c crc seg h rc t cks conf hd tm q.1 q.2 hs hr ha hTq hmore
    simp only [feedTilesD, feedTiles, hcall]
    rw [drained_eq hr'.hqueue hr'.hready]
    exact ih _ _ _ _ (fun r hr => hT r (List.mem_cons_of_mem _ hr)) hr' (by simpa [List.append_assoc] using hmiss)

/-- File Data PDUs that arrive after the completion are ignored, one by one (the user keeps retrieving) -/
theorem feedTilesD_late (env : Env) (hd : Hdr) (F : List UInt8) (rc : RemoteCfg) (tm : Timer)
    (ha : AdmissibleA env rc hd) (hrun : tm.timedOut env.now = false) :
    ∀ (post : List (Nat × Nat)) (d : DestSt), d.state = .busy → d.step = .WAITING_FOR_FINISHED_ACK → d.queue = [] →
      d.numReady = 0 → d.p.conf.mode = .ack → d.p.remoteCfg = some rc → d.p.ackTimer = some tm →
      feedTilesD env hd F post d = some d := by
  intro post
  induction post with
  | nil => intro d _ _ _ _ _ _ _; rfl
  | cons q post ih =>
    intro d h1 h2 h3 h3' h4 h5 h6
    have := C03_late_file_data_noop env d rc hd q.1 (tileData F q.1 q.2) tm ha h1 h2 h3 h4 h5 h6 hrun
    simp only [feedTilesD, this]
    rw [drained_eq h3 h3']
    exact ih d h1 h2 h3 h3' h4 h5 h6

/-- **Recovery from any loss, all retransmissions delivered** (receiver side): as
`C03_receiver_recovers_any_loss`, for any list `h2` of retransmitted tiles that together with `h1` covers the
file: the transfer completes at the tile of `h2` that delivers the last missing byte; the tiles after it
(if any) are ignored. -/
theorem C03_receiver_recovers_any_loss_all (env : Env) (hd : Hdr) (d0 : DestSt) (dst : String) (F crc : List UInt8)
    (seg m : Nat) (rc : RemoteCfg) (t : Tid) (cks : Nat) (conf : Hdr) (h1 h2 : List (Nat × Nat))
    (hs : 0 < seg) (hm1 : 1 ≤ m) (ha : AdmissibleA env rc hd)
    (hr0 : ReceivingA d0 dst [] rc t cks conf) (himm : rc.imm = false) (hpt0 : d0.p.procTimer = none)
    (hmax : maxSegReqs rc.maxPkt conf = some m) (hnak : rc.nakMs ≠ 0) (hms : rc.ackMs ≠ 0)
    (hT1 : ∀ q ∈ h1, Tile seg F.length q.1 q.2) (hT2 : ∀ q ∈ h2, Tile seg F.length q.1 q.2)
    (hmiss : ∃ x, x < F.length ∧ ¬ covered h1 x)
    (hall : ∀ x, x < F.length → covered (h1 ++ h2) x)
    (hver : cks = 15 ∨ ∀ fs : Fs, fs.get dst = some (.file F) →
      Fs.calcChecksum fs (Checksum.CksType.ofNat cks) dst F.length 4096 = .ok crc) :
    ∃ d1 d2 d3 dE,
      feedTiles env hd F h1 d0 = some d1 ∧
      stateMachine env (some (.eof hd ccNoError crc F.length none)) d1 = .ok () d2 ∧
      d2.queue = [mkAck conf dtEof ccNoError tsActive] ∧
      stateMachine env none (drained d2) = .ok () d3 ∧
      d3.queue = nakSequence conf F.length m false d3.p.trk ∧
      WF d3.p.trk ∧ Bounds (OnGrid seg F.length) d3.p.trk ∧
      (∀ x, den d3.p.trk x ↔ (x < F.length ∧ ¬ covered h1 x)) ∧
      feedTilesD env hd F h2 (drained d3) = some (drained dE) ∧
      dE.state = .busy ∧ dE.step = .WAITING_FOR_FINISHED_ACK ∧ dE.p.conf = conf ∧
      dE.queue = [mkFin conf ⟨ccNoError, dcComplete, fsRetained, none⟩] ∧
      dE.fs.get dst = some (.file F) ∧ (∀ q, q ≠ dst → dE.fs.get q = d0.fs.get q) ∧ dE.flts = [] ∧
      dE.inds.filter isFinished = d0.inds.filter isFinished ++
        (if env.cfg.indFinished then [.finished (some t) ⟨ccNoError, dcComplete, fsRetained, none⟩] else []) := by
  obtain ⟨pre, tl, post, hsplit, hmiss', hall'⟩ := completes_at F.length h2 h1 hmiss hall
  have hTpre : ∀ q ∈ pre, Tile seg F.length q.1 q.2 := fun q hq => hT2 q (by rw [hsplit]; simp [hq])
  have hTt : Tile seg F.length tl.1 tl.2 := hT2 tl (by rw [hsplit]; simp)
  -- the pieces, as in `C03_receiver_recovers_any_loss`
  obtain ⟨d1, c1, hf1, hR1, ho1, hfin1, -⟩ := C03_receiver_any_history env hd dst F seg rc t cks conf hs ha himm h1 d0 [] []
    hT1 (RecvG.ofReceivingA hr0 hpt0)
  simp only [List.nil_append] at hR1
  have heof := C03_eof_any env d1 dst F c1 crc seg h1 rc t cks conf hd hR1 ha
  have hA : AckedG (drained (afterEofG env d1 t crc F.length)) dst F c1 crc seg h1 rc t cks conf :=
    AckedG.ofRecvG hR1
  have hEofInv := hR1.hinv.eof
  have htrkne : (drained (afterEofG env d1 t crc F.length)).p.trk ≠ [] := by
    intro hnil
    have hco : ((tsOf d1.p).eof F.length).trk = [] := by
      show Tracker.coalesce (tailTrk (tsOf d1.p) F.length) = []
      have : tailTrk (tsOf d1.p) F.length = [] := hnil
      rw [this]; rfl
    obtain ⟨x, hx, hnc⟩ := hmiss
    exact hnc ((hEofInv.trk_nil_iff).1 hco x hx)
  have hdefc := C03_deferred_any env _ dst F c1 crc seg h1 rc t cks conf m hA hmax hnak htrkne
  have hW : WaitG (drained (afterDeferredG env (drained (afterEofG env d1 t crc F.length)) rc F.length m)) dst F c1
      crc seg h1 rc t cks conf ⟨env.now, rc.nakMs⟩ :=
    WaitG.ofAckedG hA (by omega)
      (by show d1.p.progress ≤ F.length; rw [hR1.hprog]; exact hR1.hinv.leSize)
      (by intro q hq; show q.2 ≤ d1.p.progress; rw [hR1.hprog]; exact hR1.hinv.hle q hq)
  obtain ⟨d4, c4, tm4, hf4, hR4, ho4, hfin4⟩ := C03_wait_any_history env hd dst F crc seg rc t cks conf hs ha pre _ c1 h1 _
    hTpre hW hmiss'
  have hlastc := C03_last_tile_completes env d4 dst F c4 crc seg (h1 ++ pre) rc t cks conf hd tm4 tl.1 tl.2 hs hR4 ha hTt
    hall' hms hver
  have hpos : 0 < rc.ackMs := by omega
  have hlate := feedTilesD_late env hd F rc ⟨env.now, rc.ackMs⟩ ha (by simp [Timer.timedOut]; omega) post
    (drained (afterLastG d4 dst F tl.1 tl.2 env t rc tm4)) hR4.hbusy rfl rfl rfl
    (by show d4.p.conf.mode = .ack; rw [hR4.hconf]; exact hR4.hmode)
    (by show d4.p.remoteCfg = some rc; exact hR4.hrc) rfl
  have hd3trk : (afterDeferredG env (drained (afterEofG env d1 t crc F.length)) rc F.length m).p.trk =
      ((tsOf d1.p).eof F.length).trk := by
    simp [afterDeferredG, drained, afterEofG, eofP, TS.eof, tailTrk, tsOf]
  refine ⟨d1, afterEofG env d1 t crc F.length, _, afterLastG d4 dst F tl.1 tl.2 env t rc tm4, hf1, heof, ?_, hdefc,
    ?_, ?_, ?_, ?_, ?_, hR4.hbusy, rfl, ?_, ?_, ?_, ?_, hR4.hflts, ?_⟩
  · simp [afterEofG, hR1.hconf]
  · simp [afterDeferredG, drained, afterEofG, eofP, hR1.hconf]
  · rw [hd3trk]; exact hEofInv.wf
  · rw [hd3trk]; exact hEofInv.grid
  · intro x; rw [hd3trk]; exact hEofInv.exact x
  · -- feeding pre, then the completing tile, then the ignored rest
    rw [hsplit]
    have hD4 : feedTilesD env hd F pre
        (drained (afterDeferredG env (drained (afterEofG env d1 t crc F.length)) rc F.length m)) = some d4 := by
      rw [feedTilesD_wait env hd dst F crc seg rc t cks conf hs ha pre _ c1 h1 _ hTpre hW hmiss']
      exact hf4
    rw [feedTilesD_append env hd F pre (tl :: post) _ d4 hD4]
    simp only [feedTilesD, hlastc]
    exact hlate
  · show d4.p.conf = conf
    exact hR4.hconf
  · simp [afterLastG, hR4.hconf]
  · simp [afterLastG, Fs.C17.get_set_same]
  · intro q hq
    have e1 : (afterLastG d4 dst F tl.1 tl.2 env t rc tm4).fs.get q = d4.fs.get q := by
      simp [afterLastG, Fs.C17.get_set_other _ _ _ _ hq]
    rw [e1, ho4 q hq]
    show d1.fs.get q = d0.fs.get q
    exact ho1 q hq
  · have e4 : d4.inds.filter isFinished = d0.inds.filter isFinished := by
      rw [hfin4]
      have : (drained (afterDeferredG env (drained (afterEofG env d1 t crc F.length)) rc F.length m)).inds.filter isFinished =
          d1.inds.filter isFinished := by
        simp only [drained, afterDeferredG, afterEofG, List.filter_append]
        cases env.cfg.indEofRecv <;> simp [isFinished]
      rw [this, hfin1]
    simp only [afterLastG, List.filter_append, e4]
    cases env.cfg.indSegRecv <;> cases env.cfg.indFinished <;> simp [isFinished]

/-- **From the EOF on, whatever the NAK mode was while the data arrived.**  The receiver is in `RecvG`
after some history `h1` that left something missing.  The EOF is acknowledged; the call after the retrieval
of the ACK issues the NAK sequence for exactly the undelivered bytes; retransmitted tiles `h2` arrive in
any order, `h1 ++ h2` covering the file; the transfer completes at the tile that delivers the last missing
byte, later tiles are ignored. -/
theorem C03_receiver_recovers_from (env : Env) (hd : Hdr) (d1 : DestSt) (dst : String) (F c1 crc : List UInt8)
    (seg m : Nat) (rc : RemoteCfg) (t : Tid) (cks : Nat) (conf : Hdr) (h1 h2 : List (Nat × Nat))
    (hs : 0 < seg) (hm1 : 1 ≤ m) (ha : AdmissibleA env rc hd)
    (hR1 : RecvG d1 dst F c1 seg h1 rc t cks conf)
    (hmax : maxSegReqs rc.maxPkt conf = some m) (hnak : rc.nakMs ≠ 0) (hms : rc.ackMs ≠ 0)
    (hT2 : ∀ q ∈ h2, Tile seg F.length q.1 q.2)
    (hmiss : ∃ x, x < F.length ∧ ¬ covered h1 x)
    (hall : ∀ x, x < F.length → covered (h1 ++ h2) x)
    (hver : cks = 15 ∨ ∀ fs : Fs, fs.get dst = some (.file F) →
      Fs.calcChecksum fs (Checksum.CksType.ofNat cks) dst F.length 4096 = .ok crc) :
    ∃ d2 d3 dE,
      stateMachine env (some (.eof hd ccNoError crc F.length none)) d1 = .ok () d2 ∧
      d2.queue = [mkAck conf dtEof ccNoError tsActive] ∧
      stateMachine env none (drained d2) = .ok () d3 ∧
      d3.queue = nakSequence conf F.length m false d3.p.trk ∧
      WF d3.p.trk ∧ Bounds (OnGrid seg F.length) d3.p.trk ∧
      (∀ x, den d3.p.trk x ↔ (x < F.length ∧ ¬ covered h1 x)) ∧
      feedTilesD env hd F h2 (drained d3) = some (drained dE) ∧
      dE.state = .busy ∧ dE.step = .WAITING_FOR_FINISHED_ACK ∧ dE.p.conf = conf ∧
      dE.queue = [mkFin conf ⟨ccNoError, dcComplete, fsRetained, none⟩] ∧
      dE.fs.get dst = some (.file F) ∧ (∀ q, q ≠ dst → dE.fs.get q = d1.fs.get q) ∧ dE.flts = [] ∧
      dE.inds.filter isFinished = d1.inds.filter isFinished ++
        (if env.cfg.indFinished then [.finished (some t) ⟨ccNoError, dcComplete, fsRetained, none⟩] else []) := by
  obtain ⟨pre, tl, post, hsplit, hmiss', hall'⟩ := completes_at F.length h2 h1 hmiss hall
  have hTpre : ∀ q ∈ pre, Tile seg F.length q.1 q.2 := fun q hq => hT2 q (by rw [hsplit]; simp [hq])
  have hTt : Tile seg F.length tl.1 tl.2 := hT2 tl (by rw [hsplit]; simp)
  have heof := C03_eof_any env d1 dst F c1 crc seg h1 rc t cks conf hd hR1 ha
  have hA : AckedG (drained (afterEofG env d1 t crc F.length)) dst F c1 crc seg h1 rc t cks conf :=
    AckedG.ofRecvG hR1
  have hEofInv := hR1.hinv.eof
  have htrkne : (drained (afterEofG env d1 t crc F.length)).p.trk ≠ [] := by
    intro hnil
    have hco : ((tsOf d1.p).eof F.length).trk = [] := by
      show Tracker.coalesce (tailTrk (tsOf d1.p) F.length) = []
      have : tailTrk (tsOf d1.p) F.length = [] := hnil
      rw [this]; rfl
    obtain ⟨x, hx, hnc⟩ := hmiss
    exact hnc ((hEofInv.trk_nil_iff).1 hco x hx)
  have hdefc := C03_deferred_any env _ dst F c1 crc seg h1 rc t cks conf m hA hmax hnak htrkne
  have hW : WaitG (drained (afterDeferredG env (drained (afterEofG env d1 t crc F.length)) rc F.length m)) dst F c1
      crc seg h1 rc t cks conf ⟨env.now, rc.nakMs⟩ :=
    WaitG.ofAckedG hA (by omega)
      (by show d1.p.progress ≤ F.length; rw [hR1.hprog]; exact hR1.hinv.leSize)
      (by intro q hq; show q.2 ≤ d1.p.progress; rw [hR1.hprog]; exact hR1.hinv.hle q hq)
  obtain ⟨d4, c4, tm4, hf4, hR4, ho4, hfin4⟩ := C03_wait_any_history env hd dst F crc seg rc t cks conf hs ha pre _ c1 h1 _
    hTpre hW hmiss'
  have hlastc := C03_last_tile_completes env d4 dst F c4 crc seg (h1 ++ pre) rc t cks conf hd tm4 tl.1 tl.2 hs hR4 ha hTt
    hall' hms hver
  have hpos : 0 < rc.ackMs := by omega
  have hlate := feedTilesD_late env hd F rc ⟨env.now, rc.ackMs⟩ ha (by simp [Timer.timedOut]; omega) post
    (drained (afterLastG d4 dst F tl.1 tl.2 env t rc tm4)) hR4.hbusy rfl rfl rfl
    (by show d4.p.conf.mode = .ack; rw [hR4.hconf]; exact hR4.hmode)
    (by show d4.p.remoteCfg = some rc; exact hR4.hrc) rfl
  have hd3trk : (afterDeferredG env (drained (afterEofG env d1 t crc F.length)) rc F.length m).p.trk =
      ((tsOf d1.p).eof F.length).trk := by
    simp [afterDeferredG, drained, afterEofG, eofP, TS.eof, tailTrk, tsOf]
  refine ⟨afterEofG env d1 t crc F.length, _, afterLastG d4 dst F tl.1 tl.2 env t rc tm4, heof, ?_, hdefc,
    ?_, ?_, ?_, ?_, ?_, hR4.hbusy, rfl, ?_, ?_, ?_, ?_, hR4.hflts, ?_⟩
  · simp [afterEofG, hR1.hconf]
  · simp [afterDeferredG, drained, afterEofG, eofP, hR1.hconf]
  · rw [hd3trk]; exact hEofInv.wf
  · rw [hd3trk]; exact hEofInv.grid
  · intro x; rw [hd3trk]; exact hEofInv.exact x
  · -- feeding pre, then the completing tile, then the ignored rest
    rw [hsplit]
    have hD4 : feedTilesD env hd F pre
        (drained (afterDeferredG env (drained (afterEofG env d1 t crc F.length)) rc F.length m)) = some d4 := by
      rw [feedTilesD_wait env hd dst F crc seg rc t cks conf hs ha pre _ c1 h1 _ hTpre hW hmiss']
      exact hf4
    rw [feedTilesD_append env hd F pre (tl :: post) _ d4 hD4]
    simp only [feedTilesD, hlastc]
    exact hlate
  · show d4.p.conf = conf
    exact hR4.hconf
  · simp [afterLastG, hR4.hconf]
  · simp [afterLastG, Fs.C17.get_set_same]
  · intro q hq
    have e1 : (afterLastG d4 dst F tl.1 tl.2 env t rc tm4).fs.get q = d4.fs.get q := by
      simp [afterLastG, Fs.C17.get_set_other _ _ _ _ hq]
    rw [e1, ho4 q hq]
    rfl
  · have e4 : d4.inds.filter isFinished = d1.inds.filter isFinished := by
      rw [hfin4]
      have : (drained (afterDeferredG env (drained (afterEofG env d1 t crc F.length)) rc F.length m)).inds.filter isFinished =
          d1.inds.filter isFinished := by
        simp only [drained, afterDeferredG, afterEofG, List.filter_append]
        cases env.cfg.indEofRecv <;> simp [isFinished]
      rw [this]
    simp only [afterLastG, List.filter_append, e4]
    cases env.cfg.indSegRecv <;> cases env.cfg.indFinished <;> simp [isFinished]


/-! ### both models composed -/

/-- the tile with index `i` of the sender's stream is the File Data PDU of the grid's tile `i` -/
theorem tile_is_fd (conf : Hdr) (F : List UInt8) (seg i : Nat) :
    Source.C07.tile conf F seg 0 i =
      .fd { conf with dir := .toRecv } (i * seg) (tileData F (i * seg) (min (i * seg + seg) F.length)) := by
  simp only [Source.C07.tile, Source.mkFd, Nat.zero_add, tileData]
  congr 1
  apply List.ext_getElem?
  intro j
  simp only [List.getElem?_take, List.getElem?_drop]
  by_cases h1 : j < seg
  · by_cases h2 : j < min (i * seg + seg) F.length - i * seg
    · simp [h1, h2]
    · simp only [h1, h2, if_true, if_false]
      rw [List.getElem?_eq_none (by omega)]
  · have h2 : ¬ j < min (i * seg + seg) F.length - i * seg := by omega
    simp [h1, h2]

theorem grid_tile (seg size i : Nat) (hi : i * seg < size) : Tile seg size (i * seg) (min (i * seg + seg) size) :=
  ⟨⟨i, Nat.mul_comm _ _⟩, hi, rfl⟩

/-- the byte at the start of tile `j` is delivered only by tile `j` -/
theorem start_covered_only_by_own (seg size : Nat) (hs : 0 < seg) (is : List Nat) (j : Nat)
    (hc : covered (is.map fun i => (i * seg, min (i * seg + seg) size)) (j * seg)) : j ∈ is := by
  obtain ⟨q, hq, h1, h2⟩ := hc
  simp only [List.mem_map] at hq
  obtain ⟨i, hi, rfl⟩ := hq
  simp only at h1 h2
  have h3 : j * seg < i * seg + seg := by omega
  have h4 : j * seg < (i + 1) * seg := by rw [Nat.add_mul, Nat.one_mul]; exact h3
  have h5 : j < i + 1 := Nat.lt_of_mul_lt_mul_right h4
  have h6 : i ≤ j := Nat.le_of_mul_le_mul_right h1 hs
  have : i = j := by omega
  subst this; exact hi

/-- a well-formed listing inside `[0, size)` has at most `size` ranges -/
theorem wf_length_le {lo size : Nat} : ∀ {L : Tracker.T}, WFfrom lo L → (∀ r ∈ L, r.2 ≤ size) → L.length + lo ≤ size ∨ L = [] := by
  intro L
  induction L generalizing lo with
  | nil => intro _ _; exact Or.inr rfl
  | cons r L ih =>
    intro hw hin
    obtain ⟨h1, h2, h3⟩ := hw
    have hr := hin r List.mem_cons_self
    rcases ih h3 (fun q hq => hin q (List.mem_cons_of_mem _ hq)) with h | h
    · left; simp; omega
    · subst h; left; simp; omega

open Source.C07 Source.C19 Source.C08 in
/-- **End to end with any loss pattern of File Data PDUs, deferred NAK mode: the two models composed.**
The sender emits Metadata, the `k` tiles and the EOF.  The Metadata and the EOF arrive; of the tiles,
those with the indices `is` arrive — any sub-multiset in any order, at least one tile never.  The
receiver acknowledges the EOF and — the ACK retrieved — issues one NAK PDU that requests exactly the
bytes no tile delivered.  The sender (the ACK of its EOF received) answers with exactly the missing
tiles.  They arrive; the receiver completes at the tile that delivers the last missing byte, verifies,
tells its user and emits the Finished PDU; the sender acknowledges it; both go idle.  Outcome as over a
fault-free link: the destination file is the source file, no other path touched, no fault, one
Transaction-Finished indication on each side. -/
theorem C03_end_to_end_any_loss (envS : Source.Env) (envD : Dest.Env) (s : Source.SrcSt) (d0 : Dest.DestSt)
    (req : Source.PutReq) (rcS rcD : RemoteCfg) (src dst : String) (F crc : List UInt8) (seg k m : Nat)
    (is : List Nat) (jlost : Nat) (now2 now3 now4 now5 : Nat)
    (hst : s.state = .busy) (hstep : s.step = .IDLE) (hq : s.queue = []) (hreq : s.putReq = some req)
    (hpmo : s.p.metadataOnly = false) (hsrc : req.src = some src) (hdst : req.dst = some dst)
    (hfile : s.fs.get src = some (.file F)) (hF : F ≠ []) (hprog : s.p.progress = 0)
    (hrc : s.p.remoteCfg = some rcS) (hrcid : rcS.entityId.val = req.destId.val)
    (hbits : s.prov.bits = 8 ∨ s.prov.bits = 16 ∨ s.prov.bits = 32)
    (hseg : Source.segLenOf rcS (startConf envS req rcS s (decide (F.length > 4294967295))) = some seg)
    (hseg0 : 0 < seg) (hmode : s.p.conf.mode = .ack) (hct : s.p.checkTimer = none)
    (hk : (k - 1) * seg < F.length ∧ F.length ≤ k * seg)
    (hcks : Checksum.calcChecksum (Checksum.CksType.ofNat rcS.cks) F F.length seg = .ok crc)
    (hnull : Checksum.CksType.ofNat rcS.cks ≠ .null) (hlen : crc.length = 4) (hack : rcS.ackMs ≠ 0)
    (ha : AdmissibleA envD rcD { startConf envS req rcS s (decide (F.length > 4294967295)) with dir := .toRecv })
    (hackD : rcD.ackMs ≠ 0) (hnak : rcD.nakMs ≠ 0) (himm : rcD.imm = false)
    (hmaxs : maxSegReqs rcD.maxPkt
      (let c := startConf envS req rcS s (decide (F.length > 4294967295))
       ⟨.toSend, c.mode, c.crc, c.large, c.src, c.dst, c.seq⟩) = some m) (hroom : F.length ≤ m)
    (hidle : d0.state = .idle) (hdq : d0.queue = []) (hdr : d0.numReady = 0) (hrej : d0.rejects = [])
    (hfl : d0.flts = []) (hnd : Fs.isDir d0.fs dst = false)
    (hok : (∃ old, d0.fs.get dst = some (.file old)) ∨
           (Fs.exists' d0.fs dst = false ∧ Fs.parentIsDir d0.fs dst = true))
    (his : ∀ i ∈ is, i < k) (hjl : jlost < k) (hjn : jlost ∉ is)
    (hverD : rcS.cks = 15 ∨ ∀ fs : Fs, fs.get dst = some (.file F) →
      Fs.calcChecksum fs (Checksum.CksType.ofNat rcS.cks) dst F.length 4096 = .ok crc) :
    let conf := startConf envS req rcS s (decide (F.length > 4294967295))
    let cd : Hdr := ⟨.toSend, conf.mode, conf.crc, conf.large, conf.src, conf.dst, conf.seq⟩
    let hdR : Hdr := { conf with dir := .toRecv }
    let fpOk : FinishedParams := ⟨ccNoError, dcComplete, fsRetained, none⟩
    let h1 := is.map fun i => (i * seg, min (i * seg + seg) F.length)
    ∃ pdus s3 dM d1 d2 s4 d3 s5 dE s6 d8 s7,
      -- sender: Metadata, tiles, EOF
      rounds envS (1 + k + 1) s = some (pdus, s3) ∧
      pdus = [Source.mkMd conf s.p.closure rcS.cks F.length (some src) (some dst) (some (req.msgs.getD []))] ++
          (List.range k).map (tile conf F seg 0) ++ [Source.mkEof conf ccNoError crc F.length] ∧
      -- receiver: the Metadata, the tiles that arrive (they are the sender's: `tile_is_fd`), the EOF
      Dest.stateMachine envD (some (Source.mkMd conf s.p.closure rcS.cks F.length (some src) (some dst)
        (some (req.msgs.getD [])))) d0 = .ok () dM ∧
      feedTiles envD hdR F h1 dM = some d1 ∧
      Dest.stateMachine envD (some (Source.mkEof conf ccNoError crc F.length)) d1 = .ok () d2 ∧
      d2.queue = [.ack cd dtEof ccNoError tsActive] ∧
      Source.stateMachine ⟨envS.cfg, now2⟩ (some (.ack cd dtEof ccNoError tsActive)) s3 = .ok () s4 ∧ s4.queue = [] ∧
      -- receiver: one NAK for exactly what is missing; sender: exactly the missing tiles
      Dest.stateMachine envD none (C02.drained d2) = .ok () d3 ∧
      d3.queue = [.nak cd 0 F.length d3.p.trk] ∧
      (∀ x, den d3.p.trk x ↔ (x < F.length ∧ ¬ covered h1 x)) ∧
      Source.stateMachine ⟨envS.cfg, now3⟩ (some (.nak cd 0 F.length d3.p.trk)) s4 = .ok () s5 ∧
      s5.queue = (ansTiles seg d3.p.trk).map (fun q => Source.mkFd conf q.1 (tileData F q.1 q.2)) ∧
      -- receiver: all of them, complete, Finished; sender acknowledges
      feedTilesD envD hdR F (ansTiles seg d3.p.trk) (C02.drained d3) = some (C02.drained dE) ∧ dE.queue = [.fin cd fpOk] ∧
      Source.stateMachine ⟨envS.cfg, now4⟩ (some (.fin cd fpOk)) (Source.C07.drained s5) = .ok () s6 ∧
      s6.queue = [Source.mkAck conf dtFinished ccNoError tsActive] ∧
      Dest.stateMachine envD (some (Source.mkAck conf dtFinished ccNoError tsActive)) (C02.drained dE) = .ok () d8 ∧
      Source.stateMachine ⟨envS.cfg, now5⟩ none (Source.C07.drained s6) = .ok () s7 ∧
      -- outcome
      s7.state = .idle ∧ d8.state = .idle ∧ s7.queue = [] ∧ d8.queue = [] ∧
      d8.fs.get dst = some (.file F) ∧ (∀ q, q ≠ dst → d8.fs.get q = d0.fs.get q) ∧ s7.fs = s.fs ∧
      d8.flts = [] ∧ s7.flts = s.flts ∧
      s7.inds.filter isFinished = s.inds.filter isFinished ++
        (if envS.cfg.indFinished then [.finished (some ⟨envS.cfg.entityId, ⟨s.prov.next, s.prov.bits / 8⟩⟩) fpOk]
         else []) ∧
      d8.inds.filter isFinished = d0.inds.filter isFinished ++
        (if envD.cfg.indFinished then [.finished (some ⟨conf.src, conf.seq⟩) fpOk] else []) := by
  intro conf cd hdR fpOk h1
  have hsrcv : conf.src.val = envS.cfg.entityId.val := by simp [conf, startConf]
  have hdstv : conf.dst.val = rcS.entityId.val := by simp [conf, startConf, hrcid]
  have hseqv : conf.seq.val = s.prov.next := by simp [conf, startConf]
  -- sender up to the point where it waits for the Finished PDU
  obtain ⟨s3, s4, hrun, h4, hW, hfs4, hfl4, hin4⟩ :=
    C03_sender_run_to_waiting envS s req rcS src dst F crc seg k cd ccNoError tsActive now2
      hst hstep hq hreq hpmo hsrc hdst hfile hF hprog hrc hbits hseg hseg0 hmode hct hk hcks hnull hlen hack
      rfl hsrcv hdstv hseqv
  -- receiver: Metadata
  obtain ⟨hmd, hRA⟩ := C02_metadata_ack envD d0 hdR rcD s.p.closure rcS.cks F.length src dst
    (some (req.msgs.getD [])) ha hidle hdq hdr hrej hfl hnd hok
  -- the tiles that arrive are tiles of the grid; tile `jlost` never arrives
  have hk1 : 1 ≤ k := by omega
  have hlt : ∀ i, i < k → i * seg < F.length := by
    intro i hi
    have : i * seg ≤ (k - 1) * seg := Nat.mul_le_mul_right _ (by omega)
    omega
  have hT1 : ∀ q ∈ h1, Tile seg F.length q.1 q.2 := by
    intro q hq
    simp only [h1, List.mem_map] at hq
    obtain ⟨i, hi, rfl⟩ := hq
    exact grid_tile seg F.length i (hlt i (his i hi))
  have hmiss : ∃ x, x < F.length ∧ ¬ covered h1 x :=
    ⟨jlost * seg, hlt jlost hjl, fun hc => hjn (start_covered_only_by_own seg F.length hseg0 is jlost hc)⟩
  -- the receiver's run, with all the sender's answers delivered: stated for the answer list below
  have hpt0 : (afterMdA envD d0 hdR rcD s.p.closure rcS.cks F.length src dst (some (req.msgs.getD []))).p.procTimer = none := by
    simp [afterMdA, mdParamsA]
  have hm1 : 1 ≤ m := by
    have : 0 < F.length := List.length_pos_iff.mpr hF
    omega
  -- first the part that does not depend on the answers: up to the NAK
  obtain ⟨d1, c1, hf1, hR1, ho1, hfin1, -⟩ := C03_receiver_any_history envD hdR dst F seg rcD ⟨hdR.src, hdR.seq⟩ rcS.cks
    cd hseg0 ha himm h1 _ [] [] hT1 (RecvG.ofReceivingA hRA hpt0)
  simp only [List.nil_append] at hR1
  have hEofInv := hR1.hinv.eof
  -- the listing after the EOF: well-formed, on the grid, inside the file, exactly the missing bytes
  let L := ((tsOf d1.p).eof F.length).trk
  have hLw : WF L := hEofInv.wf
  have hLg : Bounds (OnGrid seg F.length) L := hEofInv.grid
  have hLd : ∀ x, den L x ↔ (x < F.length ∧ ¬ covered h1 x) := hEofInv.exact
  have hLlt := (C18.C18_wf_means_ascending_nonempty hLw).1
  have hLin : ∀ r ∈ L, r.2 ≤ F.length := by
    intro r hr
    have hd : den L (r.2 - 1) := ⟨r, hr, by have := hLlt r hr; omega, by have := hLlt r hr; omega⟩
    have := ((hLd _).1 hd).1
    omega
  have hLA : ∀ r ∈ L, seg ∣ r.1 := by
    intro r hr
    rcases (hLg r hr).1 with h | h
    · exact h
    · have := hLlt r hr; have := hLin r hr; omega
  have hLne : L ≠ [] := by
    intro hnil
    obtain ⟨x, hx, hnc⟩ := hmiss
    have := (hLd x).2 ⟨hx, hnc⟩
    rw [hnil] at this
    simp at this
  have hLfit : L.length ≤ m := by
    rcases wf_length_le (lo := 0) hLw hLin with h | h
    · omega
    · exact absurd h hLne
  -- the answers
  obtain ⟨hans, hansT⟩ := ansTiles_spec s4.p rcS req src dst F seg hseg0 hW.hseg L hLw hLg hLin hLA
  have hall : ∀ x, x < F.length → covered (h1 ++ ansTiles seg L) x := by
    intro x hx
    by_cases hc : covered h1 x
    · exact covered_mono hc
    · have hd := (hLd x).2 ⟨hx, hc⟩
      have := (ansTiles_cover seg hseg0 L hLw x).2 hd
      obtain ⟨q, hq, q1, q2⟩ := this
      exact ⟨q, List.mem_append_right _ hq, q1, q2⟩
  obtain ⟨d1', d2, d3, dE, hf1', heof, hq2, hdef, hq3, -, -, hd3, hfeedD, hEb, hEs, hEc, hEq, hEfile, hEother, hEflts,
      hEinds⟩ :=
    C03_receiver_recovers_any_loss_all envD hdR _ dst F crc seg m rcD ⟨hdR.src, hdR.seq⟩ rcS.cks cd h1 (ansTiles seg L)
      hseg0 hm1 ha hRA himm hpt0 hmaxs hnak hackD hT1 hansT hmiss hall hverD
  have hd11 : d1' = d1 := by
    have := hf1'.symm.trans hf1
    simpa using this
  subst hd11
  -- the listing in `d3` is `L`
  have hd3L : d3.p.trk = L := by
    have hA : AckedG (C02.drained (afterEofG envD d1' ⟨hdR.src, hdR.seq⟩ crc F.length)) dst F c1 crc seg h1 rcD
        ⟨hdR.src, hdR.seq⟩ rcS.cks cd := AckedG.ofRecvG hR1
    have heof' := C03_eof_any envD d1' dst F c1 crc seg h1 rcD ⟨hdR.src, hdR.seq⟩ rcS.cks cd hdR hR1 ha
    have e2 : d2 = afterEofG envD d1' ⟨hdR.src, hdR.seq⟩ crc F.length := by
      have := heof.symm.trans heof'
      simpa using this
    have htrkne : (C02.drained (afterEofG envD d1' ⟨hdR.src, hdR.seq⟩ crc F.length)).p.trk ≠ [] := by
      intro hnil
      apply hLne
      show Tracker.coalesce (tailTrk (tsOf d1'.p) F.length) = []
      have : tailTrk (tsOf d1'.p) F.length = [] := hnil
      rw [this]; rfl
    have hdef' := C03_deferred_any envD _ dst F c1 crc seg h1 rcD ⟨hdR.src, hdR.seq⟩ rcS.cks cd m hA hmaxs hnak htrkne
    rw [e2] at hdef
    have e3 : d3 = afterDeferredG envD (C02.drained (afterEofG envD d1' ⟨hdR.src, hdR.seq⟩ crc F.length)) rcD F.length m := by
      have := hdef.symm.trans hdef'
      simpa using this
    rw [e3]
    simp [afterDeferredG, C02.drained, afterEofG, eofP, TS.eof, tailTrk, tsOf, L]
  rw [hd3L] at hq3 hd3
  have hnakq : d3.queue = [.nak cd 0 F.length L] := by
    rw [hq3, nakSequence_single cd F.length m L hLne hLfit]; rfl
  -- the sender serves the NAK
  have hadm : ∀ t, AdmissibleS ⟨envS.cfg, t⟩ s4 rcS cd := fun t =>
    { hdir := rfl, hsrc := hsrcv, hrc := hW.hrc, hdst := hdstv,
      hseq := by rw [hW.hconf],
      hmode := by rw [hW.hconf]; simp [conf, startConf, hmode] }
  have hvalid : ∀ r ∈ L, ValidReq s4.p.progress r := by
    intro r hr
    right
    rw [hW.hprog]
    exact ⟨Nat.le_of_lt (hLlt r hr), hLin r hr⟩
  have h5 := C03_sender_answers_nak ⟨envS.cfg, now3⟩ s4 rcS cd req src dst F seg conf _ 0 F.length L (hadm now3) hW hdst
    hseg0 hvalid
  rw [hans, hW.hconf] at h5
  -- closing: Finished to the sender (in its retransmission step), ACK to the receiver, completion
  have hadm5 : AdmissibleS ⟨envS.cfg, now4⟩ (Source.C07.drained (afterNak s4
      ((ansTiles seg L).map fun q => Source.mkFd conf q.1 (tileData F q.1 q.2)))) rcS cd :=
    { hdir := rfl, hsrc := hsrcv, hrc := hW.hrc, hdst := hdstv,
      hseq := by show cd.seq.val = s4.p.conf.seq.val; rw [hW.hconf],
      hmode := by show s4.p.conf.mode = .ack; rw [hW.hconf]; simp [conf, startConf, hmode] }
  have h6 := C03_sender_finished_any ⟨envS.cfg, now4⟩ _ rcS cd fpOk req hadm5 hW.hbusy
    (Or.inr (Or.inr ⟨rfl, by show some s4.step = some .WAITING_FOR_FINISHED; rw [hW.hstep]⟩)) rfl hW.hreq
  have hfa := C02_finished_acked envD (C02.drained dE) rcD hdR ccNoError tsActive ha hEb hEs rfl
    (by show dE.p.conf.mode = .ack; rw [hEc]; simp [cd, conf, startConf, hmode])
  have h7 := C02_source_completion ⟨envS.cfg, now5⟩ (Source.C07.drained (afterFinS (waitFinS
      (Source.C07.drained (afterNak s4 ((ansTiles seg L).map fun q => Source.mkFd conf q.1 (tileData F q.1 q.2))))) fpOk))
    fpOk _ req hW.hbusy rfl rfl hW.hreq rfl hW.htid
  refine ⟨_, s3, _, d1', d2, s4, d3, _, dE, _, idleOf (C02.drained dE), _, hrun, rfl, hmd, hf1, heof, ?_, h4, hW.hqueue, hdef,
    (by rw [hd3L]; exact hnakq), (by rw [hd3L]; exact hd3), (by rw [hd3L]; exact h5),
    ?_, (by rw [hd3L]; exact hfeedD), ?_, h6, ?_, ?_, h7, rfl, rfl, rfl, rfl, ?_, ?_, ?_, ?_, ?_, ?_, ?_⟩
  · rw [hq2]; simp [Dest.mkAck, dtEof, dtFinished, cd]
  · rw [hd3L]; simp [afterNak, hW.hqueue]
  · rw [hEq]; simp [Dest.mkFin, cd, fpOk]
  · show [Source.mkAck s4.p.conf dtFinished fpOk.cond tsActive] = _
    rw [hW.hconf]
  · simpa [Source.mkAck, dtFinished, hdR, idleOf] using hfa
  · show dE.fs.get dst = some (.file F); exact hEfile
  · intro q hq'
    show dE.fs.get q = d0.fs.get q
    rw [hEother q hq']
    simp [afterMdA, Fs.C17.get_set_other _ _ _ _ hq']
  · show s4.fs = s.fs; exact hfs4
  · show dE.flts = []; exact hEflts
  · show s4.flts = s.flts; exact hfl4
  · simp only [Source.C07.drained, afterFinS, waitFinS, afterNak, List.filter_append, hin4]
    cases envS.cfg.indFinished <;> simp [isFinished]
  · show dE.inds.filter isFinished = _
    rw [hEinds]
    simp [afterMdA, isFinished, hdR, fpOk]


/-! ## Any loss pattern, immediate NAK mode: the receiver while the file data arrives -/

/-- the immediate NAK a tile `[a, b)` triggers when it opens a gap behind the marker `le` -/
def immNak (conf : Hdr) (le a b : Nat) : List Pdu :=
  if a > le then [mkNak conf 0 b [(le, a)]] else []

/-- `_lost_segment_handling` in immediate NAK mode: `TS.tile`, and exactly the immediate NAK for the gap -/
theorem lsh_immediate (d : DestSt) (rc : RemoteCfg) (a b : Nat) (hab : a ≤ b)
    (hrc : d.p.remoteCfg = some rc) (himm : rc.imm = true) :
    lostSegmentHandling a (b - a) d =
      .ok () { d with p := withTs d.p ((tsOf d.p).tile a b),
                      queue := d.queue ++ immNak d.p.conf d.p.lastEnd a b,
                      numReady := d.numReady + (immNak d.p.conf d.p.lastEnd a b).length } := by
  have hb : a + (b - a) = b := by omega
  unfold lostSegmentHandling
  rw [hb]
  by_cases h1 : a > d.p.lastEnd
  · have h2 : a ≥ d.p.lastEnd := by omega
    by_cases h4 : b ≤ a
    · cases hr : Tracker.remove (Tracker.add d.p.trk (d.p.lastEnd, a)) a b <;>
        (msimp [getP, modP, addPacket, h1, h2, h4, hrc, himm, hr]
         (simp [withTs, tsOf, TS.tile, immNak, h1, h2, h4, hr] <;> rw [← hrc]))
    · msimp [getP, modP, addPacket, h1, h2, h4, hrc, himm]
      (simp [withTs, tsOf, TS.tile, immNak, h1, h2, h4] <;> rw [← hrc])
  · by_cases h2 : a ≥ d.p.lastEnd
    · by_cases h4 : b ≤ a
      · cases hr : Tracker.remove d.p.trk a b <;>
          (msimp [getP, modP, addPacket, h1, h2, h4, hrc, hr]
           (simp [withTs, tsOf, TS.tile, immNak, h1, h2, h4, hr] <;> rw [← hrc]))
      · msimp [getP, modP, addPacket, h1, h2, h4, hrc]
        (simp [withTs, tsOf, TS.tile, immNak, h1, h2, h4] <;> rw [← hrc])
    · by_cases h4 : b ≤ d.p.lastStart
      · cases hr : Tracker.remove d.p.trk a b <;>
          (msimp [getP, modP, addPacket, h1, h2, h4, hrc, hr]
           (simp [withTs, tsOf, TS.tile, immNak, h1, h2, h4, hr] <;> rw [← hrc]))
      · msimp [getP, modP, addPacket, h1, h2, h4, hrc]
        (simp [withTs, tsOf, TS.tile, immNak, h1, h2, h4] <;> rw [← hrc])

/-- state after a tile in immediate NAK mode: as in deferred mode, plus the NAK for the gap it opened -/
def afterTileGI (d : DestSt) (dst : String) (c data : List UInt8) (a b : Nat) (env : Env) (t : Tid) : DestSt :=
  { afterTileG d dst c data a b env t with
      queue := immNak d.p.conf d.p.lastEnd a b, numReady := (immNak d.p.conf d.p.lastEnd a b).length }

/-- **One File Data PDU, any position, immediate NAK mode.**  As `C03_tile_any`; in addition, a tile that
opens a gap behind the in-order marker is answered at once by exactly one NAK PDU, scope `(0, b)`, requesting
exactly the gap `[marker, a)` — bytes that no PDU of the history delivered
(`C06_immediate_nak_only_missing`); any other tile queues nothing. -/
theorem C03_tile_any_immediate (env : Env) (d : DestSt) (dst : String) (F c : List UInt8) (seg : Nat)
    (h : List (Nat × Nat)) (rc : RemoteCfg) (t : Tid) (cks : Nat) (conf hd : Hdr) (a b : Nat)
    (hs : 0 < seg) (hr : RecvG d dst F c seg h rc t cks conf) (ha : AdmissibleA env rc hd)
    (hT : Tile seg F.length a b) (himm : rc.imm = true) :
    stateMachine env (some (.fd hd a (tileData F a b))) d =
      .ok () (afterTileGI d dst c (tileData F a b) a b env t) ∧
    RecvG (drained (afterTileGI d dst c (tileData F a b) a b env t)) dst F (Fs.writeBytes c (tileData F a b) a) seg
      (h ++ [(a, b)]) rc t cks conf ∧
    (∀ x, d.p.lastEnd ≤ x → x < a → ¬ covered h x) := by
  have hab := hT.lt hs
  have hdl := tileData_length hT
  have hsum : a + (b - a) = b := by omega
  have hm : d.p.conf.mode = .ack := by rw [hr.hconf]; exact hr.hmode
  obtain ⟨hflen, hfcov⟩ := file_after_tile hs hr.hinv hT hr.hlen hr.hcov
  have hle' := (tsOf d.p).tile_le hs hr.hinv hT
  refine ⟨?_, ?_, ?_⟩
  · obtain ⟨st, stp, nr, p, q, fs, fl, rej, ind, flt⟩ := d
    have h1 := hr.hbusy; have h2 := hr.hstep; have h3 := hr.hready; have h4 := hr.hqueue; have h5 := hr.hrej
    have h6 := hr.htid; have h7 := hr.hname; have h8 := hr.hfile; have h9 := hr.hnoEof; have h10 := hr.hfin
    have h11 := hr.hrc
    try simp only at h1 h2 h3 h4 h5 h6 h7 h8 h9 h10 h11 hm
    subst h1 h2 h3 h4 h5
    cases hi : env.cfg.indSegRecv
    · have hl := lsh_immediate ⟨.busy, .RECEIVING_FILE_DATA, 0, p, [], fs, fl, [], ind, flt⟩ rc a b
        (Nat.le_of_lt hab) h11 himm
      try simp only at hl
      msimp [stateMachine, stateMachineWith, checkInsertedPacket, Pdu.hdr, ha.hdir, ha.hdst, ha.hsrc, Pdu.kind,
        Route.getPacketDestination, transmissionMode, hm, nonIdleFsm,
        fsmAdvancementAfterPacketsWereSent, fsmFromReceiving, handleFdOrEofPdu, handleFdPdu,
        fdIndication, hi, getP, emitInd, h6, fdLostSegments, hdl, hl,
        fdWrite, vfsWriteData, h7, withTs,
        Fs.writeData, h8, fdAfterWrite, sizeErrOf, modP, h9, hsum, fsmFromWaitingForMetadata,
        fsmFromCheckLimit, fsmFromWaitingForMissingData, fsmFromTransferCompletion, fsmFromSendingFinishedPdu,
        fsmFromWaitingForFinishedAck, afterTileGI, afterTileG, h10, tsOf]
    · have hl := lsh_immediate ⟨.busy, .RECEIVING_FILE_DATA, 0, p, [], fs, fl, [],
          ind ++ [.segRecv (some t) a (b - a)], flt⟩ rc a b (Nat.le_of_lt hab) h11 himm
      try simp only at hl
      msimp [stateMachine, stateMachineWith, checkInsertedPacket, Pdu.hdr, ha.hdir, ha.hdst, ha.hsrc, Pdu.kind,
        Route.getPacketDestination, transmissionMode, hm, nonIdleFsm,
        fsmAdvancementAfterPacketsWereSent, fsmFromReceiving, handleFdOrEofPdu, handleFdPdu,
        fdIndication, hi, getP, emitInd, h6, fdLostSegments, hdl, hl,
        fdWrite, vfsWriteData, h7, withTs,
        Fs.writeData, h8, fdAfterWrite, sizeErrOf, modP, h9, hsum, fsmFromWaitingForMetadata,
        fsmFromCheckLimit, fsmFromWaitingForMissingData, fsmFromTransferCompletion, fsmFromSendingFinishedPdu,
        fsmFromWaitingForFinishedAck, afterTileGI, afterTileG, h10, tsOf]
  · exact
      { hbusy := hr.hbusy, hstep := hr.hstep, hready := rfl, hqueue := rfl,
        hconf := by simp [drained, afterTileGI, afterTileG, withTs, hr.hconf], hmode := hr.hmode,
        hname := by simp [drained, afterTileGI, afterTileG, withTs, hr.hname],
        hfile := by simp [drained, afterTileGI, afterTileG, Fs.C17.get_set_same],
        hlen := by simp [drained, afterTileGI, afterTileG, withTs, hflen],
        hcov := hfcov,
        hprog := by
          show max b d.p.progress = ((tsOf d.p).tile a b).le
          rw [hle', hr.hprog]
          show max b d.p.lastEnd = max d.p.lastEnd b
          omega,
        hnoEof := by simp [drained, afterTileGI, afterTileG, withTs, hr.hnoEof],
        hrc := by simp [drained, afterTileGI, afterTileG, withTs, hr.hrc],
        htid := by simp [drained, afterTileGI, afterTileG, withTs, hr.htid], hrej := hr.hrej,
        hcks := by simp [drained, afterTileGI, afterTileG, withTs, hr.hcks],
        hcancel := by simp [drained, afterTileGI, afterTileG, withTs, hr.hcancel],
        hmo := by simp [drained, afterTileGI, afterTileG, withTs, hr.hmo], hflts := hr.hflts,
        hfin := by simp [drained, afterTileGI, afterTileG, withTs, hr.hfin],
        hmm := by simp [drained, afterTileGI, afterTileG, withTs, hr.hmm],
        hdef := by simp [drained, afterTileGI, afterTileG, withTs, hr.hdef],
        hpt := by simp [drained, afterTileGI, afterTileG, withTs, hr.hpt],
        hinv := by
          have := hr.hinv.tile hs hT
          simpa [drained, afterTileGI, afterTileG, withTs, tsOf] using this }
  · intro x h1 _ ⟨q, hq, _, q2⟩
    have := hr.hinv.hle q hq
    simp only [tsOf] at this
    omega

/-- the tiles of a history handed to the receiver one call each, the user retrieving what each call
queued; returns everything retrieved -/
def feedTilesOut (env : Env) (hd : Hdr) (F : List UInt8) : List (Nat × Nat) → DestSt → Option (List Pdu × DestSt)
  | [], d => some ([], d)
  | q :: rest, d =>
    match stateMachine env (some (.fd hd q.1 (tileData F q.1 q.2))) d with
    | .ok _ d' =>
      match feedTilesOut env hd F rest (drained d') with
      | some (out, d'') => some (d'.queue ++ out, d'')
      | none => none
    | .error _ _ => none

/-- **Any history of File Data PDUs, immediate NAK mode.**  Every call returns; the receiver stays in
`RecvG` for the growing history; everything it emits on the way is an immediate NAK PDU
`nak conf 0 b [(le, a)]` for a gap `[le, a)` opened by a tile `[a, b)`, and at the moment it is emitted no
PDU delivered so far had delivered any byte of that gap. -/
theorem C03_receiver_any_history_immediate (env : Env) (hd : Hdr) (dst : String) (F : List UInt8) (seg : Nat)
    (rc : RemoteCfg) (t : Tid) (cks : Nat) (conf : Hdr) (hs : 0 < seg) (ha : AdmissibleA env rc hd)
    (himm : rc.imm = true) :
    ∀ (h2 : List (Nat × Nat)) (d : DestSt) (c : List UInt8) (h : List (Nat × Nat)),
      (∀ q ∈ h2, Tile seg F.length q.1 q.2) → RecvG d dst F c seg h rc t cks conf →
      ∃ d' c' out, feedTilesOut env hd F h2 d = some (out, d') ∧ RecvG d' dst F c' seg (h ++ h2) rc t cks conf ∧
        (∀ p ∈ out, ∃ pre le a b, pre <+: h2 ∧ p = mkNak conf 0 b [(le, a)] ∧ le < a ∧ a < b ∧ b ≤ F.length ∧
          ∀ x, le ≤ x → x < a → ¬ covered (h ++ pre) x) ∧
        (∀ q, q ≠ dst → d'.fs.get q = d.fs.get q) := by
  intro h2
  induction h2 with
  | nil => intro d c h _ hr; exact ⟨d, c, [], rfl, by simpa using hr, by simp, fun _ _ => rfl⟩
  | cons q h2 ih =>
    intro d c h hT hr
    have hTq := hT q List.mem_cons_self
    obtain ⟨hcall, hr', hgap⟩ := C03_tile_any_immediate env d dst F c seg h rc t cks conf hd q.1 q.2 hs hr ha hTq himm
    obtain ⟨d', c', out, hf, hR, hout, hother⟩ := ih _ _ _ (fun r hr => hT r (List.mem_cons_of_mem _ hr)) hr'
    refine ⟨d', c', (afterTileGI d dst c (tileData F q.1 q.2) q.1 q.2 env t).queue ++ out, ?_, ?_, ?_, ?_⟩
    · simp only [feedTilesOut, hcall, hf]
    · simpa [List.append_assoc] using hR
    · intro p hp
      rcases List.mem_append.mp hp with hp | hp
      · -- the NAK of this very call
        simp only [afterTileGI, immNak] at hp
        split at hp
        · rename_i hgt
          simp at hp
          refine ⟨[], d.p.lastEnd, q.1, q.2, List.nil_prefix, ?_, hgt, hTq.lt hs, hTq.le_size, ?_⟩
          · rw [hp, hr.hconf]
          · intro x h1 h2'; simpa using hgap x h1 h2'
        · simp at hp
      · obtain ⟨pre, le, a, b, hpre, e, h1, h2', h3, h4⟩ := hout p hp
        refine ⟨q :: pre, le, a, b, ?_, e, h1, h2', h3, ?_⟩
        · exact List.prefix_cons_inj q |>.mpr hpre
        · intro x hx1 hx2
          have := h4 x hx1 hx2
          simpa [List.append_assoc] using this
    · intro p hp
      rw [hother p hp]
      simp [drained, afterTileGI, afterTileG, Fs.C17.get_set_other _ _ _ _ hp]


/-- **Recovery from any loss when the immediate NAKs were lost too** (receiver side, immediate NAK
mode).  While the File Data PDUs of `h1` arrive, every gap is requested at once
(`C03_receiver_any_history_immediate`) — suppose none of those NAKs gets through.  Then, after the EOF, the
deferred procedure requests exactly what is still undelivered, and the run ends as in deferred mode. -/
theorem C03_receiver_recovers_any_loss_immediate (env : Env) (hd : Hdr) (d0 : DestSt) (dst : String)
    (F crc : List UInt8) (seg m : Nat) (rc : RemoteCfg) (t : Tid) (cks : Nat) (conf : Hdr)
    (h1 h2 : List (Nat × Nat)) (hs : 0 < seg) (hm1 : 1 ≤ m) (ha : AdmissibleA env rc hd)
    (hr0 : ReceivingA d0 dst [] rc t cks conf) (himm : rc.imm = true) (hpt0 : d0.p.procTimer = none)
    (hmax : maxSegReqs rc.maxPkt conf = some m) (hnak : rc.nakMs ≠ 0) (hms : rc.ackMs ≠ 0)
    (hT1 : ∀ q ∈ h1, Tile seg F.length q.1 q.2) (hT2 : ∀ q ∈ h2, Tile seg F.length q.1 q.2)
    (hmiss : ∃ x, x < F.length ∧ ¬ covered h1 x)
    (hall : ∀ x, x < F.length → covered (h1 ++ h2) x)
    (hver : cks = 15 ∨ ∀ fs : Fs, fs.get dst = some (.file F) →
      Fs.calcChecksum fs (Checksum.CksType.ofNat cks) dst F.length 4096 = .ok crc) :
    ∃ d1 out d2 d3 dE,
      feedTilesOut env hd F h1 d0 = some (out, d1) ∧
      (∀ p ∈ out, ∃ pre le a b, pre <+: h1 ∧ p = mkNak conf 0 b [(le, a)] ∧ le < a ∧ a < b ∧ b ≤ F.length ∧
        ∀ x, le ≤ x → x < a → ¬ covered pre x) ∧
      stateMachine env (some (.eof hd ccNoError crc F.length none)) d1 = .ok () d2 ∧
      d2.queue = [mkAck conf dtEof ccNoError tsActive] ∧
      stateMachine env none (drained d2) = .ok () d3 ∧
      d3.queue = nakSequence conf F.length m false d3.p.trk ∧
      (∀ x, den d3.p.trk x ↔ (x < F.length ∧ ¬ covered h1 x)) ∧
      feedTilesD env hd F h2 (drained d3) = some (drained dE) ∧
      dE.queue = [mkFin conf ⟨ccNoError, dcComplete, fsRetained, none⟩] ∧
      dE.fs.get dst = some (.file F) ∧ (∀ q, q ≠ dst → dE.fs.get q = d0.fs.get q) ∧ dE.flts = [] := by
  obtain ⟨d1, c1, out, hf1, hR1, hout, ho1⟩ := C03_receiver_any_history_immediate env hd dst F seg rc t cks conf hs ha
    himm h1 d0 [] [] hT1 (RecvG.ofReceivingA hr0 hpt0)
  simp only [List.nil_append] at hR1 hout
  obtain ⟨d2, d3, dE, heof, hq2, hdef, hq3, -, -, hd3, hfeed, -, -, -, hEq, hEfile, hEother, hEflts, -⟩ :=
    C03_receiver_recovers_from env hd d1 dst F c1 crc seg m rc t cks conf h1 h2 hs hm1 ha hR1 hmax hnak hms hT2
      hmiss hall hver
  exact ⟨d1, out, d2, d3, dE, hf1, hout, heof, hq2, hdef, hq3, hd3, hfeed, hEq, hEfile,
    fun q hq => by rw [hEother q hq, ho1 q hq], hEflts⟩


/-! ### the NAK sequence is lost (any number of times below the limit), any loss pattern -/

/-- **From the waiting state to completion**: retransmitted tiles `h2` in any order, `h ++ h2` covering the
file: completion at the tile that delivers the last missing byte; later tiles are ignored.  (The tile calls
are made at the clock value `env.now`; the completing call starts the Finished timer there.) -/
theorem C03_wait_recovers (env : Env) (hd : Hdr) (d : DestSt) (dst : String) (F c crc : List UInt8)
    (seg : Nat) (rc : RemoteCfg) (t : Tid) (cks : Nat) (conf : Hdr) (tm : Timer) (h h2 : List (Nat × Nat))
    (hs : 0 < seg) (ha : AdmissibleA env rc hd) (hW : WaitG d dst F c crc seg h rc t cks conf tm)
    (hms : rc.ackMs ≠ 0) (hT2 : ∀ q ∈ h2, Tile seg F.length q.1 q.2)
    (hmiss : ∃ x, x < F.length ∧ ¬ covered h x) (hall : ∀ x, x < F.length → covered (h ++ h2) x)
    (hver : cks = 15 ∨ ∀ fs : Fs, fs.get dst = some (.file F) →
      Fs.calcChecksum fs (Checksum.CksType.ofNat cks) dst F.length 4096 = .ok crc) :
    ∃ dE, feedTilesD env hd F h2 d = some (drained dE) ∧
      dE.state = .busy ∧ dE.step = .WAITING_FOR_FINISHED_ACK ∧ dE.p.conf = conf ∧
      dE.queue = [mkFin conf ⟨ccNoError, dcComplete, fsRetained, none⟩] ∧
      dE.fs.get dst = some (.file F) ∧ (∀ q, q ≠ dst → dE.fs.get q = d.fs.get q) ∧ dE.flts = [] ∧
      dE.inds.filter isFinished = d.inds.filter isFinished ++
        (if env.cfg.indFinished then [.finished (some t) ⟨ccNoError, dcComplete, fsRetained, none⟩] else []) := by
  obtain ⟨pre, tl, post, hsplit, hmiss', hall'⟩ := completes_at F.length h2 h hmiss hall
  have hTpre : ∀ q ∈ pre, Tile seg F.length q.1 q.2 := fun q hq => hT2 q (by rw [hsplit]; simp [hq])
  have hTt : Tile seg F.length tl.1 tl.2 := hT2 tl (by rw [hsplit]; simp)
  obtain ⟨d4, c4, tm4, hf4, hR4, ho4, hfin4⟩ := C03_wait_any_history env hd dst F crc seg rc t cks conf hs ha pre d c h tm
    hTpre hW hmiss'
  have hlastc := C03_last_tile_completes env d4 dst F c4 crc seg (h ++ pre) rc t cks conf hd tm4 tl.1 tl.2 hs hR4 ha hTt
    hall' hms hver
  have hpos : 0 < rc.ackMs := by omega
  have hlate := feedTilesD_late env hd F rc ⟨env.now, rc.ackMs⟩ ha (by simp [Timer.timedOut]; omega) post
    (drained (afterLastG d4 dst F tl.1 tl.2 env t rc tm4)) hR4.hbusy rfl rfl rfl
    (by show d4.p.conf.mode = .ack; rw [hR4.hconf]; exact hR4.hmode)
    (by show d4.p.remoteCfg = some rc; exact hR4.hrc) rfl
  refine ⟨afterLastG d4 dst F tl.1 tl.2 env t rc tm4, ?_, hR4.hbusy, rfl, ?_, ?_, ?_, ?_, hR4.hflts, ?_⟩
  · rw [hsplit]
    have hD4 : feedTilesD env hd F pre d = some d4 := by
      rw [feedTilesD_wait env hd dst F crc seg rc t cks conf hs ha pre d c h tm hTpre hW hmiss']
      exact hf4
    rw [feedTilesD_append env hd F pre (tl :: post) d d4 hD4]
    simp only [feedTilesD, hlastc]
    exact hlate
  · show d4.p.conf = conf
    exact hR4.hconf
  · simp [afterLastG, hR4.hconf]
  · simp [afterLastG, Fs.C17.get_set_same]
  · intro q hq
    have e1 : (afterLastG d4 dst F tl.1 tl.2 env t rc tm4).fs.get q = d4.fs.get q := by
      simp [afterLastG, Fs.C17.get_set_other _ _ _ _ hq]
    rw [e1, ho4 q hq]
  · simp only [afterLastG, List.filter_append, hfin4]
    cases env.cfg.indSegRecv <;> cases env.cfg.indFinished <;> simp [isFinished]

/-- state after an expiry of the NAK timer below the limit: the NAK sequence issued again -/
def afterNakExpiryG (env : Env) (d : DestSt) (size m : Nat) (tm : Timer) : DestSt :=
  { d with queue := nakSequence d.p.conf size m false d.p.trk,
           numReady := (nakSequence d.p.conf size m false d.p.trk).length,
           p := { d.p with nakCounter := d.p.nakCounter + 1, procTimer := some (tm.reset env.now) } }

/-- **An expiry of the NAK timer below the limit, any loss pattern (whole call)**: exactly the NAK
sequence of the current listing is issued again — still exactly the undelivered bytes —, the counter
grows by one, the timer restarts; file, listing, indications untouched. -/
theorem C03_nak_expiry_any (env : Env) (d : DestSt) (dst : String) (F c crc : List UInt8) (seg : Nat)
    (h : List (Nat × Nat)) (rc : RemoteCfg) (t : Tid) (cks : Nat) (conf : Hdr) (tm : Timer) (m : Nat)
    (hr : WaitG d dst F c crc seg h rc t cks conf tm) (hmax : maxSegReqs rc.maxPkt conf = some m)
    (hexp : tm.timedOut env.now = true) (hlim : d.p.nakCounter + 1 ≠ rc.nakLim)
    (hmiss : ∃ x, x < F.length ∧ ¬ covered h x) :
    stateMachine env none d = .ok () (afterNakExpiryG env d F.length m tm) ∧
    WaitG (drained (afterNakExpiryG env d F.length m tm)) dst F c crc seg h rc t cks conf (tm.reset env.now) := by
  have hmax' : maxSegReqs rc.maxPkt d.p.conf = some m := by rw [hr.hconf]; exact hmax
  have hmark := hr.hmark
  have htrk : d.p.trk ≠ [] := by
    intro hnil
    obtain ⟨x, hx, hnc⟩ := hmiss
    have := (hr.hinv.trk_nil_iff).1 hnil x (by show x < d.p.lastEnd; rw [hmark]; exact hx)
    exact hnc this
  have hlen0 : ¬ d.p.trk.length = 0 := fun hc => htrk (List.eq_nil_of_length_eq_zero hc)
  have hbusyT : tm.busy env.now = false := by simp [Timer.busy, hexp]
  constructor
  · unfold stateMachine
    generalize (stateMachineWith env none (stateMachineWith env none (throw Err.recursionError))) = rec
    msimp [stateMachineWith, hr.hbusy, nonIdleFsm, fsmAdvancementAfterPacketsWereSent, hr.hqueue, hr.hstep,
      fsmFromReceiving, fsmFromWaitingForMetadata, fsmFromCheckLimit, fsmFromWaitingForMissingData,
      deferredLostSegmentHandling, getP, hr.hdef, hr.hcancel, hr.hrc, hr.hfse, hlen0, htrk, hr.hmm, hr.hpt,
      hbusyT, Timer.busy, hexp, hlim, hmax', addPackets, modP, hr.hready,
      fsmFromTransferCompletion, fsmFromSendingFinishedPdu, fsmFromWaitingForFinishedAck, afterNakExpiryG]
  · exact
      { hbusy := hr.hbusy, hstep := hr.hstep, hready := rfl, hqueue := rfl, hconf := hr.hconf, hmode := hr.hmode,
        hname := hr.hname, hfile := hr.hfile, hlenle := hr.hlenle, hcov := hr.hcov, hprog1 := hr.hprog1,
        hprog2 := hr.hprog2, hcrc := hr.hcrc, hfse := hr.hfse, hrc := hr.hrc, htid := hr.htid, hrej := hr.hrej,
        hcks := hr.hcks, hcancel := hr.hcancel, hmo := hr.hmo, hflts := hr.hflts, hfin := hr.hfin, hmm := hr.hmm,
        hdef := hr.hdef, hpt := rfl, htm := by simpa [Timer.reset] using hr.htm, hmark := hr.hmark,
        hinv := hr.hinv }

/-- the receiver called at each of the given times with nothing arriving, its queue retrieved after each call -/
def nakRoundsG (cfg : LocalCfg) : List Nat → DestSt → Option (List (List Pdu) × DestSt)
  | [], d => some ([], d)
  | tt :: ts, d =>
    match stateMachine ⟨cfg, tt⟩ none d with
    | .error _ _ => none
    | .ok _ d' =>
      match nakRoundsG cfg ts (drained d') with
      | none => none
      | some (outs, d'') => some (d'.queue :: outs, d'')

/-- **Any number of NAK timer expiries below the limit, any loss pattern**: each re-issues exactly the
NAK sequence of the (unchanged) listing; the receiver keeps waiting. -/
theorem C03_nak_expiries_any (cfg : LocalCfg) (dst : String) (F crc : List UInt8) (seg : Nat)
    (h : List (Nat × Nat)) (rc : RemoteCfg) (t : Tid) (cks : Nat) (conf : Hdr) (m : Nat)
    (hmax : maxSegReqs rc.maxPkt conf = some m) (hmiss : ∃ x, x < F.length ∧ ¬ covered h x) :
    ∀ (times : List Nat) (d : DestSt) (c : List UInt8) (tm : Timer),
      WaitG d dst F c crc seg h rc t cks conf tm → C04.Expiring tm.timeout tm.start times →
      d.p.nakCounter + times.length < rc.nakLim →
      ∃ d' outs, nakRoundsG cfg times d = some (outs, d') ∧
        WaitG d' dst F c crc seg h rc t cks conf ⟨C04.lastOr tm.start times, tm.timeout⟩ ∧
        outs = List.replicate times.length (nakSequence conf F.length m false d.p.trk) ∧
        d'.p.trk = d.p.trk ∧ d'.fs = d.fs ∧ d'.inds = d.inds ∧
        d'.p.nakCounter = d.p.nakCounter + times.length := by
  intro times
  induction times with
  | nil =>
    intro d c tm hr _ _
    exact ⟨d, [], rfl, by simpa [C04.lastOr] using hr, rfl, rfl, rfl, rfl, rfl⟩
  | cons x xs ih =>
    intro d c tm hr hexp hlim
    simp only [C04.Expiring] at hexp
    simp only [List.length_cons] at hlim
    obtain ⟨hcall, hW⟩ := C03_nak_expiry_any ⟨cfg, x⟩ d dst F c crc seg h rc t cks conf tm m hr hmax
      (by simp [Timer.timedOut]; exact hexp.1) (by omega) hmiss
    obtain ⟨d', outs, hrest, hW', hout, htrk, hfs, hin, hnc⟩ := ih (drained (afterNakExpiryG ⟨cfg, x⟩ d F.length m tm)) c
      (tm.reset x) hW (by simpa [Timer.reset] using hexp.2)
      (by show d.p.nakCounter + 1 + xs.length < rc.nakLim; omega)
    refine ⟨d', (afterNakExpiryG ⟨cfg, x⟩ d F.length m tm).queue :: outs, ?_, ?_, ?_, ?_, ?_, ?_, ?_⟩
    · simp only [nakRoundsG, hcall, hrest]
    · simpa [C04.lastOr, Timer.reset] using hW'
    · rw [hout]
      simp [afterNakExpiryG, drained, hr.hconf, List.replicate_succ]
    · rw [htrk]; rfl
    · rw [hfs]; rfl
    · rw [hin]; rfl
    · rw [hnc]; simp [afterNakExpiryG, drained]; omega


/-- **Recovery from any loss of File Data PDUs although the NAK sequence was lost as well** (receiver
side).  After the history `h1` and the EOF the deferred procedure issues the NAK sequence; it does not get
through; at each of the expiries `times` of the NAK timer (fewer than the limit) exactly the same sequence
is issued again; then the retransmissions `h2` arrive (at the clock value `tL`), in any order, and the
transfer completes at the tile that delivers the last missing byte. -/
theorem C03_receiver_recovers_naks_lost (env : Env) (hd : Hdr) (d1 : DestSt) (dst : String) (F c1 crc : List UInt8)
    (seg m : Nat) (rc : RemoteCfg) (t : Tid) (cks : Nat) (conf : Hdr) (h1 h2 : List (Nat × Nat))
    (times : List Nat) (tL : Nat)
    (hs : 0 < seg) (hm1 : 1 ≤ m) (ha : AdmissibleA env rc hd)
    (hR1 : RecvG d1 dst F c1 seg h1 rc t cks conf) (hnc : d1.p.nakCounter = 0)
    (hmax : maxSegReqs rc.maxPkt conf = some m) (hnak : rc.nakMs ≠ 0) (hms : rc.ackMs ≠ 0)
    (hT2 : ∀ q ∈ h2, Tile seg F.length q.1 q.2)
    (hmiss : ∃ x, x < F.length ∧ ¬ covered h1 x)
    (hall : ∀ x, x < F.length → covered (h1 ++ h2) x)
    (hexp : C04.Expiring rc.nakMs env.now times) (hlim : times.length < rc.nakLim)
    (hver : cks = 15 ∨ ∀ fs : Fs, fs.get dst = some (.file F) →
      Fs.calcChecksum fs (Checksum.CksType.ofNat cks) dst F.length 4096 = .ok crc) :
    ∃ d2 d3 d4 outs dE,
      stateMachine env (some (.eof hd ccNoError crc F.length none)) d1 = .ok () d2 ∧
      stateMachine env none (drained d2) = .ok () d3 ∧
      d3.queue = nakSequence conf F.length m false d3.p.trk ∧
      (∀ x, den d3.p.trk x ↔ (x < F.length ∧ ¬ covered h1 x)) ∧
      nakRoundsG env.cfg times (drained d3) = some (outs, d4) ∧
      outs = List.replicate times.length d3.queue ∧
      feedTilesD ⟨env.cfg, tL⟩ hd F h2 d4 = some (drained dE) ∧
      dE.queue = [mkFin conf ⟨ccNoError, dcComplete, fsRetained, none⟩] ∧
      dE.fs.get dst = some (.file F) ∧ (∀ q, q ≠ dst → dE.fs.get q = d1.fs.get q) ∧ dE.flts = [] ∧
      dE.inds.filter isFinished = d1.inds.filter isFinished ++
        (if env.cfg.indFinished then [.finished (some t) ⟨ccNoError, dcComplete, fsRetained, none⟩] else []) := by
  have heof := C03_eof_any env d1 dst F c1 crc seg h1 rc t cks conf hd hR1 ha
  have hA : AckedG (drained (afterEofG env d1 t crc F.length)) dst F c1 crc seg h1 rc t cks conf :=
    AckedG.ofRecvG hR1
  have hEofInv := hR1.hinv.eof
  have htrkne : (drained (afterEofG env d1 t crc F.length)).p.trk ≠ [] := by
    intro hnil
    have hco : ((tsOf d1.p).eof F.length).trk = [] := by
      show Tracker.coalesce (tailTrk (tsOf d1.p) F.length) = []
      have : tailTrk (tsOf d1.p) F.length = [] := hnil
      rw [this]; rfl
    obtain ⟨x, hx, hnc'⟩ := hmiss
    exact hnc' ((hEofInv.trk_nil_iff).1 hco x hx)
  have hdefc := C03_deferred_any env _ dst F c1 crc seg h1 rc t cks conf m hA hmax hnak htrkne
  have hW : WaitG (drained (afterDeferredG env (drained (afterEofG env d1 t crc F.length)) rc F.length m)) dst F c1
      crc seg h1 rc t cks conf ⟨env.now, rc.nakMs⟩ :=
    WaitG.ofAckedG hA (by omega)
      (by show d1.p.progress ≤ F.length; rw [hR1.hprog]; exact hR1.hinv.leSize)
      (by intro q hq; show q.2 ≤ d1.p.progress; rw [hR1.hprog]; exact hR1.hinv.hle q hq)
  have hd3trk : (afterDeferredG env (drained (afterEofG env d1 t crc F.length)) rc F.length m).p.trk =
      ((tsOf d1.p).eof F.length).trk := by
    simp [afterDeferredG, drained, afterEofG, eofP, TS.eof, tailTrk, tsOf]
  obtain ⟨d4, outs, hrounds, hW4, houts, htrk4, hfs4, hin4, -⟩ := C03_nak_expiries_any env.cfg dst F crc seg h1 rc t cks
    conf m hmax hmiss times _ c1 ⟨env.now, rc.nakMs⟩ hW hexp
    (by show d1.p.nakCounter + times.length < rc.nakLim; rw [hnc]; omega)
  have haL : AdmissibleA ⟨env.cfg, tL⟩ rc hd := ⟨ha.hdir, ha.hdst, ha.hsrc, ha.hmode⟩
  obtain ⟨dE, hfeed, -, -, -, hEq, hEfile, hEother, hEflts, hEinds⟩ := C03_wait_recovers ⟨env.cfg, tL⟩ hd d4 dst F c1 crc seg
    rc t cks conf _ h1 h2 hs haL hW4 hms hT2 hmiss hall hver
  refine ⟨afterEofG env d1 t crc F.length, _, d4, outs, dE, heof, hdefc, ?_, ?_, hrounds, ?_, hfeed, hEq, hEfile, ?_,
    hEflts, ?_⟩
  · simp [afterDeferredG, drained, afterEofG, eofP, hR1.hconf]
  · intro x; rw [hd3trk]; exact hEofInv.exact x
  · rw [houts]
    simp [afterDeferredG, drained, afterEofG, eofP, hR1.hconf]
  · intro q hq
    rw [hEother q hq, hfs4]
    rfl
  · rw [hEinds, hin4]
    have : (drained (afterDeferredG env (drained (afterEofG env d1 t crc F.length)) rc F.length m)).inds.filter isFinished =
        d1.inds.filter isFinished := by
      simp only [drained, afterDeferredG, afterEofG, List.filter_append]
      cases env.cfg.indEofRecv <;> simp [isFinished]
    rw [this]

end AnyLoss

end Cfdp.C03

/-! ## the hypotheses of the composed theorems are satisfiable (non-vacuity) -/

namespace Cfdp.C03.Ex
open Cfdp Cfdp.Dest Cfdp.C02

def F : List UInt8 := [1, 2, 3, 4, 5]
def rcD : RemoteCfg :=   -- the sender as the receiver knows it
  { entityId := ⟨1, 2⟩, maxSeg := some 2, maxPkt := 256, closure := false, crc := false, mode := .ack,
    cks := 3, ackMs := 1000, ackLim := 3, chkLim := 3, disp := false, imm := false, nakMs := 1000, nakLim := 3 }
def rcS : RemoteCfg := { rcD with entityId := ⟨2, 2⟩ }   -- the receiver as the sender knows it
def envS : Source.Env := ⟨⟨⟨1, 2⟩, true, true, true, true, [rcS], 1000⟩, 0⟩
def envD : Dest.Env := ⟨⟨⟨2, 2⟩, true, true, true, true, [rcD], 1000⟩, 0⟩
def req : Source.PutReq := ⟨⟨2, 2⟩, some "/a", some "/b", none, none, none⟩
def s : Source.SrcSt :=
  { state := .busy, putReq := some req, fs := [("/a", .file F)],
    p := { remoteCfg := some rcS, conf := { ({} : Source.Params).conf with mode := .ack, dst := ⟨2, 2⟩ } } }
def d0 : Dest.DestSt := { fs := [("/b", .file [9])] }


/-- the state `s` is the one `put_request` produces from a new handler -/
example : ∃ s', Source.putRequest envS req ({ fs := [("/a", .file F)] } : Source.SrcSt) = .ok true s' ∧
    s'.state = s.state ∧ s'.step = s.step ∧ s'.putReq = s.putReq ∧ s'.p.remoteCfg = s.p.remoteCfg ∧
    s'.p.conf.mode = s.p.conf.mode := by
  refine ⟨_, rfl, ?_⟩
  decide

/-- **The hypotheses of `C03_end_to_end_single_loss` are satisfiable**: a 5-byte file, segment
length 2 (three tiles), the first tile lost (`j = 0`, `r = 1`), CRC-32. -/
example : True := by
  have h := C03_end_to_end_single_loss envS envD s d0 req rcS rcD "/a" "/b" F [71, 11, 153, 244] 2 0 1 29
    1 2 3 4 1 2 3
    rfl rfl rfl rfl rfl rfl rfl rfl (by decide) rfl rfl rfl (by decide) (by decide) (by decide) rfl rfl
    (by decide) (by decide +kernel) (by decide) rfl (by decide)
    ⟨rfl, rfl, by decide, rfl⟩ (by decide) (by decide) rfl (by decide) (by decide)
    rfl rfl rfl rfl rfl (by decide) (Or.inl ⟨[9], rfl⟩)
  trivial

/-- the hypotheses of `C02_end_to_end_ack` are satisfiable: the same transfer without a loss -/
example : True := by
  have h := C02_end_to_end_ack envS envD s d0 req rcS rcD "/a" "/b" F [71, 11, 153, 244] 2 3
    1 2 3 1 2
    rfl rfl rfl rfl rfl rfl rfl rfl (by decide) rfl rfl rfl (by decide) (by decide) (by decide) rfl rfl
    (by decide) (by decide +kernel) (by decide) rfl (by decide)
    ⟨rfl, rfl, by decide, rfl⟩ (by decide)
    rfl rfl rfl rfl rfl (by decide) (Or.inl ⟨[9], rfl⟩)
  trivial

/-- the hypotheses of `C03_end_to_end_ack_eof_loss` are satisfiable -/
example : True := by
  have h := C03_end_to_end_ack_eof_loss envS envD s d0 req rcS rcD "/a" "/b" F [71, 11, 153, 244] 2 3
    1 2 3 4
    rfl rfl rfl rfl rfl rfl rfl rfl (by decide) rfl rfl rfl (by decide) (by decide) (by decide) rfl rfl
    (by decide) (by decide +kernel) (by decide) rfl (by decide)
    ⟨rfl, rfl, by decide, rfl⟩ (by decide)
    rfl rfl rfl rfl rfl (by decide) (Or.inl ⟨[9], rfl⟩)
  trivial

/-- the hypotheses of `C03_end_to_end_eof_loss` are satisfiable: the timer (1000 ms, started at 0)
has expired at 1000, the limit is 3 -/
example : True := by
  have h := C03_end_to_end_eof_loss envS envD s d0 req rcS rcD "/a" "/b" F [71, 11, 153, 244] 2 3
    1000 1001 1002 1003 1004 1005 1000
    rfl rfl rfl rfl rfl rfl rfl rfl (by decide) rfl rfl rfl (by decide) (by decide) (by decide) rfl rfl
    (by decide) (by decide +kernel) (by decide) rfl (by decide) (by decide) (by decide)
    ⟨rfl, rfl, by decide, rfl⟩ (by decide)
    rfl rfl rfl rfl rfl (by decide) (Or.inl ⟨[9], rfl⟩)
  trivial

/-- the hypotheses of `C03_end_to_end_naks_lost` are satisfiable: two NAKs lost (expiries at 1000 and
2000 after the first issue at 0), NAK limit 3 -/
example : True := by
  have h := C03_end_to_end_naks_lost envS envD s d0 req rcS rcD "/a" "/b" F [71, 11, 153, 244] 2 0 1 29
    1 0 2001 2002 2003 2004 2005 [1000, 2000]
    rfl rfl rfl rfl rfl rfl rfl rfl (by decide) rfl rfl rfl (by decide) (by decide) (by decide) rfl rfl
    (by decide) (by decide +kernel) (by decide) rfl (by decide)
    ⟨rfl, rfl, by decide, rfl⟩ (by decide) (by decide) rfl (by decide) (by decide)
    (by simp [C04.Expiring, rcD]) (by decide)
    rfl rfl rfl rfl rfl (by decide) (Or.inl ⟨[9], rfl⟩)
  trivial

/-- the hypotheses of `C03_end_to_end_retransmission_lost` are satisfiable -/
example : True := by
  have h := C03_end_to_end_retransmission_lost envS envD s d0 req rcS rcD "/a" "/b" F [71, 11, 153, 244] 2 0 1 29
    1 0 5 1001 1002 1003 1004 1005 [1000]
    rfl rfl rfl rfl rfl rfl rfl rfl (by decide) rfl rfl rfl (by decide) (by decide) (by decide) rfl rfl
    (by decide) (by decide +kernel) (by decide) rfl (by decide)
    ⟨rfl, rfl, by decide, rfl⟩ (by decide) (by decide) rfl (by decide) (by decide)
    (by simp [C04.Expiring, rcD]) (by decide)
    rfl rfl rfl rfl rfl (by decide) (Or.inl ⟨[9], rfl⟩)
  trivial

/-- the hypotheses of `C03_end_to_end_single_loss_immediate` are satisfiable: immediate NAK mode, the
first of three tiles lost -/
example : True := by
  have h := C03_end_to_end_single_loss_immediate envS ⟨{ envD.cfg with remotes := [{ rcD with imm := true }] }, 0⟩ s d0 req
    rcS { rcD with imm := true } "/a" "/b" F [71, 11, 153, 244] 2 0 0
    1 2 3 4 5 6 7
    rfl rfl rfl rfl rfl rfl rfl rfl (by decide) rfl rfl rfl (by decide) (by decide) (by decide) rfl rfl
    (by decide) (by decide +kernel) (by decide) rfl (by decide)
    ⟨rfl, rfl, by decide, rfl⟩ (by decide) rfl
    rfl rfl rfl rfl rfl (by decide) (Or.inl ⟨[9], rfl⟩)
  trivial

/-- the hypotheses of `C03_end_to_end_metadata_loss` are satisfiable: the Metadata PDU of the 5-byte
transfer in three tiles is lost -/
example : True := by
  have h := C03_end_to_end_metadata_loss envS envD s d0 req rcS rcD "/a" "/b" F [71, 11, 153, 244] 2 2 29
    1 2 3 4 5 6 7
    rfl rfl rfl rfl rfl rfl rfl rfl (by decide) rfl rfl rfl (by decide) (by decide) (by decide) rfl rfl
    (by decide) (by decide +kernel) (by decide) rfl (by decide)
    ⟨rfl, rfl, by decide, rfl⟩ (by decide) (by decide) rfl (by decide) (by decide)
    rfl rfl rfl rfl rfl (by decide) (Or.inl ⟨[9], rfl⟩)
  trivial

/-- the hypotheses of `C03_end_to_end_last_tile_loss` are satisfiable: the third (1-byte) tile is lost -/
example : True := by
  have h := C03_end_to_end_last_tile_loss envS envD s d0 req rcS rcD "/a" "/b" F [71, 11, 153, 244] 2 2 29
    1 2 3 4 5 6 7
    rfl rfl rfl rfl rfl rfl rfl rfl (by decide) rfl rfl rfl (by decide) (by decide) (by decide) rfl rfl
    (by decide) (by decide +kernel) (by decide) rfl (by decide)
    ⟨rfl, rfl, by decide, rfl⟩ (by decide) (by decide) (by decide) (by decide)
    rfl rfl rfl rfl rfl (by decide) (Or.inl ⟨[9], rfl⟩)
  trivial

section AnyLossEx
open Cfdp.C06

def hdrD : Hdr := ⟨.toRecv, .ack, false, false, ⟨1, 2⟩, ⟨2, 2⟩, ⟨0, 2⟩⟩

/-- the hypotheses of `C03_receiver_recovers_any_loss` are satisfiable: 5 bytes in segments of 2; the last
tile overtakes the first, the middle one is lost; after the NAK the first tile arrives once more, then the
missing one -/
example : True := by
  obtain ⟨-, hR⟩ := C02_metadata_ack envD d0 hdrD rcD false 3 5 "/a" "/b" none ⟨rfl, rfl, by decide, rfl⟩
    rfl rfl rfl rfl rfl (by decide) (Or.inl ⟨[9], rfl⟩)
  have h := C03_receiver_recovers_any_loss envD hdrD _ "/b" F [71, 11, 153, 244] 2 29 rcD ⟨⟨1, 2⟩, ⟨0, 2⟩⟩ 3 _
    [(4, 5), (0, 2)] [(0, 2)] 2 4 (by decide) (by decide) ⟨rfl, rfl, by decide, rfl⟩ hR rfl rfl (by decide)
    (by decide) (by decide)
    (by intro q hq; simp at hq; rcases hq with rfl | rfl
        · exact ⟨⟨2, rfl⟩, by decide, rfl⟩
        · exact ⟨⟨0, rfl⟩, by decide, rfl⟩)
    (by intro q hq; simp at hq; subst hq; exact ⟨⟨0, rfl⟩, by decide, rfl⟩)
    ⟨⟨1, rfl⟩, by decide, rfl⟩
    ⟨2, by decide, by simp [covered]⟩
    (by intro x hx
        have : x = 0 ∨ x = 1 ∨ x = 2 ∨ x = 3 ∨ x = 4 := by simp [F] at hx; omega
        rcases this with rfl | rfl | rfl | rfl | rfl <;> simp [covered])
    (Or.inr (by
      intro fs hfs
      simp only [Fs.calcChecksum, hfs]
      decide +kernel))
  trivial


/-- the hypotheses of `C03_end_to_end_any_loss` are satisfiable: 5 bytes in three tiles; the last tile
arrives first, then the first; the middle one never (`jlost = 1`) -/
example : True := by
  have h := C03_end_to_end_any_loss envS envD s d0 req rcS rcD "/a" "/b" F [71, 11, 153, 244] 2 3 29 [2, 0] 1
    1 2 3 4
    rfl rfl rfl rfl rfl rfl rfl rfl (by decide) rfl rfl rfl (by decide) (by decide) (by decide) rfl rfl
    (by decide) (by decide +kernel) (by decide) rfl (by decide)
    ⟨rfl, rfl, by decide, rfl⟩ (by decide) (by decide) rfl (by decide) (by decide)
    rfl rfl rfl rfl rfl (by decide) (Or.inl ⟨[9], rfl⟩)
    (by decide) (by decide) (by decide)
    (Or.inr (by
      intro fs hfs
      simp only [Fs.calcChecksum, hfs]
      decide +kernel))
  trivial

/-- `C03_receiver_recovers_naks_lost` applies: the last tile overtakes, the middle one is lost; the NAK
sequence is lost twice (expiries at 1000 and 2000, limit 3); the retransmissions arrive at 2500 -/
example : True := by
  obtain ⟨-, hR⟩ := C02_metadata_ack envD d0 hdrD rcD false 3 5 "/a" "/b" none ⟨rfl, rfl, by decide, rfl⟩
    rfl rfl rfl rfl rfl (by decide) (Or.inl ⟨[9], rfl⟩)
  obtain ⟨d1, c1, -, hR1, -, -, hnc⟩ := C03_receiver_any_history envD hdrD "/b" F 2 rcD ⟨⟨1, 2⟩, ⟨0, 2⟩⟩ 3 _ (by decide)
    ⟨rfl, rfl, by decide, rfl⟩ rfl [(4, 5), (0, 2)] _ [] []
    (by intro q hq; simp at hq; rcases hq with rfl | rfl
        · exact ⟨⟨2, rfl⟩, by decide, rfl⟩
        · exact ⟨⟨0, rfl⟩, by decide, rfl⟩)
    (RecvG.ofReceivingA hR rfl)
  have h := C03_receiver_recovers_naks_lost envD hdrD d1 "/b" F c1 [71, 11, 153, 244] 2 29 rcD ⟨⟨1, 2⟩, ⟨0, 2⟩⟩ 3 _
    [(4, 5), (0, 2)] [(2, 4)] [1000, 2000] 2500 (by decide) (by decide) ⟨rfl, rfl, by decide, rfl⟩
    (by simpa using hR1) (by rw [hnc]; rfl) (by decide) (by decide) (by decide)
    (by intro q hq; simp at hq; subst hq; exact ⟨⟨1, rfl⟩, by decide, rfl⟩)
    ⟨2, by decide, by simp [covered]⟩
    (by intro x hx
        have : x = 0 ∨ x = 1 ∨ x = 2 ∨ x = 3 ∨ x = 4 := by simp [F] at hx; omega
        rcases this with rfl | rfl | rfl | rfl | rfl <;> simp [covered])
    (by simp [C04.Expiring, envD, rcD]) (by decide)
    (Or.inr (by
      intro fs hfs
      simp only [Fs.calcChecksum, hfs]
      decide +kernel))
  trivial

def rcDI : RemoteCfg := { rcD with imm := true }
def envDI : Dest.Env := ⟨⟨⟨2, 2⟩, true, true, true, true, [rcDI], 1000⟩, 0⟩

/-- `C03_receiver_recovers_any_loss_immediate` applies (immediate NAK mode): the last tile arrives first —
an immediate NAK for `[0, 4)` is emitted and lost —, then the first tile; after the EOF the deferred
procedure requests `[2, 4)`; the middle tile arrives -/
example : True := by
  obtain ⟨-, hR⟩ := C02_metadata_ack envDI d0 hdrD rcDI false 3 5 "/a" "/b" none ⟨rfl, rfl, by decide, rfl⟩
    rfl rfl rfl rfl rfl (by decide) (Or.inl ⟨[9], rfl⟩)
  have h := C03_receiver_recovers_any_loss_immediate envDI hdrD _ "/b" F [71, 11, 153, 244] 2 29 rcDI ⟨⟨1, 2⟩, ⟨0, 2⟩⟩ 3 _
    [(4, 5), (0, 2)] [(2, 4)] (by decide) (by decide) ⟨rfl, rfl, by decide, rfl⟩ hR rfl rfl (by decide)
    (by decide) (by decide)
    (by intro q hq; simp at hq; rcases hq with rfl | rfl
        · exact ⟨⟨2, rfl⟩, by decide, rfl⟩
        · exact ⟨⟨0, rfl⟩, by decide, rfl⟩)
    (by intro q hq; simp at hq; subst hq; exact ⟨⟨1, rfl⟩, by decide, rfl⟩)
    ⟨2, by decide, by simp [covered]⟩
    (by intro x hx
        have : x = 0 ∨ x = 1 ∨ x = 2 ∨ x = 3 ∨ x = 4 := by simp [F] at hx; omega
        rcases this with rfl | rfl | rfl | rfl | rfl <;> simp [covered])
    (Or.inr (by
      intro fs hfs
      simp only [Fs.calcChecksum, hfs]
      decide +kernel))
  trivial

end AnyLossEx

end Cfdp.C03.Ex
