import CfdpVerif.Props.C04
import CfdpVerif.Props.C06
import CfdpVerif.Props.C08
import CfdpVerif.Props.C17
/-!
# C03 — acknowledged mode recovers from bounded loss, duplication and reordering

The full statement is a liveness property of two communicating state machines under an adversarial
link; it is NOT proved here as one theorem (DESIGN.md §6 C03, stage 4).  Proved are the safety half
(`Props/C01`: no fault schedule turns into a wrong success) and every recovery mechanism the
argument of DESIGN.md Appendix D uses, each for all states and inputs:

* a gap is requested at once / the deferred procedure requests exactly the tracker's content and
  re-issues on every NAK-timer expiry below the limit (`C06_immediate_nak`, `C06_nak_sequence_exact`,
  `C04_nak_expiry_reissues`, `C04_nak_progress_resets`);
* every valid request is served exactly, invalid ones are refused without side effect
  (`C08_valid_request_served`, `C08_segment_chunks`, `C08_invalid_request_rejected`), and the sender
  resumes where it was (`C08_resume`);
* EOF and Finished are re-sent on every expiry until acknowledged
  (`C04_source_expiry_resends`, `C04_dest_expiry_resends`);
* duplicates are harmless: re-writing the same bytes at the same offset does not change the file
  (`C03_duplicate_write_idempotent`);
* the repairs of the recovery paths hold in the model: EOF before Metadata keeps the checksum
  (`C03_eof_before_metadata_keeps_checksum`), late Metadata keeps the deferred procedure running
  (`C03_late_metadata_keeps_procedure`), File Data after the EOF while Metadata is missing does not
  shrink the lost-segment list (`C03_fd_after_eof_without_metadata_ignored`).
The recovery claim itself is explored exhaustively for ≤ 2 faults on small transfers and sampled
beyond, on implementation and model (see MANIFEST / evidence).
-/
set_option linter.unusedSimpArgs false
set_option linter.unusedVariables false

namespace Cfdp.C03

open Cfdp Cfdp.Dest

/-- writing the same payload at the same offset twice is the same as writing it once -/
theorem C03_duplicate_write_idempotent (old d : List UInt8) (o : Nat) :
    Fs.writeBytes (Fs.writeBytes old d o) d o = Fs.writeBytes old d o := by
  by_cases hd : d = []
  · subst hd; simp [Fs.writeBytes]
  · apply List.ext_getElem?
    intro i
    rw [Fs.C17.write_get _ d o i hd, Fs.C17.write_get old d o i hd]
    by_cases h1 : i < o
    · simp only [h1, if_true]
      rw [Fs.C17.padded_get, Fs.C17.padded_get]
      -- below the offset the first write kept the old bytes / the zero fill
      have hlen : o + d.length ≤ (Fs.writeBytes old d o).length := by
        have hne : d.isEmpty = false := by cases d <;> simp_all
        have hpl := Fs.C17.padded_len old o
        simp only [Fs.writeBytes, hne, Bool.false_eq_true, if_false]
        have : (if o > old.length then old ++ List.replicate (o - old.length) 0 else old) = Fs.C17.padded old o := rfl
        rw [this]
        simp; omega
      have hi : i < (Fs.writeBytes old d o).length := by omega
      simp only [hi, if_true]
      rw [Fs.C17.write_get old d o i hd, Fs.C17.padded_get]
      simp [h1]
    · simp only [h1, if_false]
      by_cases h2 : i < o + d.length
      · simp [h2]
      · simp only [h2, if_false]
        rw [Fs.C17.padded_get, Fs.C17.padded_get]
        have : ¬ i < o := h1
        simp only [this, if_false]
        by_cases h3 : i < (Fs.writeBytes old d o).length
        · simp only [h3, if_true]
          rw [Fs.C17.write_get old d o i hd, Fs.C17.padded_get]
          simp [h1, h2]
        · simp only [h3, if_false]
          have : (Fs.writeBytes old d o)[i]? = none := List.getElem?_eq_none (by omega)
          rw [Fs.C17.write_get old d o i hd, Fs.C17.padded_get] at this
          simp [h1, h2] at this
          by_cases h4 : i < old.length
          · simp [h4] at this; omega
          · simp [h4]

/-- an EOF that overtakes the Metadata keeps its checksum and size for the final verification -/
theorem C03_eof_before_metadata_keeps_checksum (env : Env) (d d' : DestSt) (cks : List UInt8) (size : Nat)
    (h : handleEofWithoutPreviousMetadata env ccNoError cks size d = .ok () d') :
    d'.p.crc32 = cks ∧ d'.p.fileSizeEof = some size ∧ d'.p.metadataMissing = true ∧
    d'.step = .SENDING_EOF_ACK_PDU ∧ (0 < size → d'.p.trk = [(0, size)]) := by
  unfold handleEofWithoutPreviousMetadata at h
  cases hi : env.cfg.indEofRecv <;> cases ht : d.p.tid <;> by_cases hs : size > 0 <;>
    msimp [hi, ht, hs, modP, getP, emitInd, prepareEofAckPacket, addPacket, Tracker.add] at h <;>
    (try (subst h; simp [hs]))

/-- the Metadata arriving after the EOF (deferred procedure active) leaves the receiver in the step
that keeps the NAK timer and the completion check running -/
theorem C03_late_metadata_keeps_procedure (env : Env) (d d' : DestSt) (h : Hdr) (cl : Bool) (c sz : Nat)
    (sn dn : String) (m : Option (List Msg))
    (hcall : handleWaitingForMissingMetadata env (some (.md h cl c sz (some sn) (some dn) m)) d = .ok () d')
    (hdef : (stateOf (handleMetadataPacket h cl c sz (some sn) (some dn) m d)).p.deferredActive = true)
    (hstep : (stateOf (handleMetadataPacket h cl c sz (some sn) (some dn) m d)).step = .RECEIVING_FILE_DATA) :
    d'.step = .WAITING_FOR_MISSING_DATA ∧ d'.p.nakCounter = 0 := by
  unfold handleWaitingForMissingMetadata at hcall
  cases hm : handleMetadataPacket h cl c sz (some sn) (some dn) m d with
  | error e s1 => msimp [hm] at hcall
  | ok u s1 =>
    rw [hm] at hdef hstep
    simp at hdef hstep
    cases hpt : s1.p.procTimer with
    | none => msimp [hm, getP, hdef, resetNakActivityParameters, hpt] at hcall
    | some t =>
      msimp [hm, getP, hdef, resetNakActivityParameters, hpt, modP, hstep] at hcall
      subst hcall
      simp

/-- File Data that arrives after the EOF while the Metadata is still missing changes nothing: the
whole file stays listed as lost (it is re-requested together with the Metadata) -/
theorem C03_fd_after_eof_without_metadata_ignored (env : Env) (d : DestSt) (h : Hdr) (off : Nat)
    (data : List UInt8) (fse : Nat) (hf : d.p.fileSizeEof = some fse) :
    handleWaitingForMissingMetadata env (some (.fd h off data)) d = .ok () d := by
  msimp [handleWaitingForMissingMetadata, getP, hf]

end Cfdp.C03
