import CfdpVerif.Model.World
import CfdpVerif.Lemmas.Monad
import CfdpVerif.Lemmas.FreshDest
import CfdpVerif.Lemmas.FreshSource
import CfdpVerif.Props.C10
/-!
# C11 — transactions are isolated from earlier transactions and other handler instances

* Every way a transaction ends goes through `_reset_internal`, which installs a parameter block
  equal to that of a newly constructed handler (`C11_dest_reset_fresh`, `C11_source_reset_fresh`);
  a transaction start at the receiver additionally re-creates the block (`C11_dest_start_fresh`).
* What survives a reset — residual queue, packets-ready counter, the source's remembered request
  and resume step, the sequence provider — is dead: the next accepted put request overwrites it
  before it is read (`C11_source_put_forgets_history`), so the transaction behaves as on a new
  handler up to the sequence number.
* Handler instances share nothing: an operation on one handler of a `World` leaves every other
  handler object untouched (`C11_instances_independent`); in particular the lost-segment tracker is
  a field of the per-transaction block (`Dest.Params.trk`), not of the world.
-/
set_option linter.unusedSimpArgs false
set_option linter.unusedVariables false

namespace Cfdp.C11

open Cfdp Cfdp.World

/-- receiver: after `_reset_internal` the handler is idle with the parameter block of a new handler
(lost segments, counters, timers, names, finished parameters all at their defaults) -/
theorem C11_dest_reset_fresh (d : Dest.DestSt) (b : Bool) :
    ∃ d', Dest.resetInternal b d = .ok () d' ∧ d'.state = .idle ∧ d'.step = .IDLE ∧
      d'.p = ({} : Dest.Params) ∧ d'.p.trk = [] ∧ d'.fs = d.fs ∧ d'.faults = d.faults := by
  refine ⟨{ d with p := {}, state := .idle, step := .IDLE, queue := if b then [] else d.queue },
    by msimp [Dest.resetInternal], rfl, rfl, rfl, rfl, rfl, rfl⟩

/-- receiver: starting a transaction (from Metadata, File Data or EOF) first installs a fresh block,
whatever the previous transaction left behind -/
theorem C11_dest_start_fresh (env : Dest.Env) (h : Hdr) (d : Dest.DestSt) (hidle : d.state = .idle) :
    Dest.commonFirstPacketNotMetadataPduHandler env h d =
      Dest.commonFirstPacketNotMetadataPduHandler env h { d with p := {} } := by
  msimp [Dest.commonFirstPacketNotMetadataPduHandler, Dest.commonFirstPacketHandler, Dest.modP, hidle]

theorem C11_dest_start_transaction_fresh (env : Dest.Env) (h : Hdr) (cl : Bool) (c sz : Nat)
    (sn dn : Option String) (m : Option (List Msg)) (d : Dest.DestSt) (hidle : d.state = .idle) :
    Dest.startTransaction env h cl c sz sn dn m d =
      Dest.startTransaction env h cl c sz sn dn m { d with p := {} } := by
  msimp [Dest.startTransaction, Dest.commonFirstPacketHandler, Dest.modP, hidle]

/-- sender: after `_reset_internal` the handler is idle with the parameter block of a new handler -/
theorem C11_source_reset_fresh (s : Source.SrcSt) (b : Bool) :
    ∃ s', Source.resetInternal b s = .ok () s' ∧ s'.state = .idle ∧ s'.step = .IDLE ∧
      s'.p = ({} : Source.Params) ∧ s'.p.fileSize = 0 ∧ s'.p.checkTimer = none ∧
      s'.p.condCodeEof = none := by
  refine ⟨{ s with step := .IDLE, state := .idle, p := {}, queue := if b then [] else s.queue },
    by msimp [Source.resetInternal], rfl, rfl, rfl, rfl, rfl, rfl⟩

/-- sender: an accepted put request on an idle handler with a fresh block yields a state whose
transaction-relevant part — state, step, remembered request, packets-ready counter and the whole
parameter block — is a function of the request and the configuration alone: nothing of the history
(previous request, counter, resume step) is read.  Carried along unchanged: filestore, fault table,
provider, residual queue. -/
theorem C11_source_put_forgets_history (env : Source.Env) (req : Source.PutReq) (s : Source.SrcSt)
    (rc : RemoteCfg) (hidle : s.state = .idle) (hp : s.p = ({} : Source.Params))
    (hsrc : ∀ src, req.src = some src → Fs.exists' s.fs src = true)
    (hrc : lookupRemote env.cfg.remotes req.destId.val = some rc) :
    Source.putRequest env req s =
      .ok true { s with state := .busy, putReq := some req, numReady := 0,
                        p := { ({} : Source.Params) with
                                 remoteCfg := some rc,
                                 conf := { Hdr.empty with dst := req.destId, mode := req.mode.getD rc.mode },
                                 closure := req.closure.getD rc.closure } } := by
  cases hs : req.src with
  | none => msimp [Source.putRequest, hidle, hp, hs, hrc, Source.modP]
  | some src => msimp [Source.putRequest, hidle, hp, hs, hrc, Source.modP, hsrc src hs]

/-! ### instances -/

theorem find_set_other (w : World) (h : Handler) (n : String) (hn : (h.name == n) = false) :
    findHandler (setHandlerSt w h) n = findHandler w n := by
  unfold findHandler setHandlerSt
  simp only
  induction w.handlers with
  | nil => rfl
  | cons x xs ih =>
    simp only [List.map_cons, List.find?_cons]
    by_cases hx : (x.name == h.name) = true
    · have hxn : (x.name == n) = false := by
        have : x.name = h.name := by simpa using hx
        rw [this]; exact hn
      rw [if_pos hx]
      simp only [hn, hxn]
      exact ih
    · rw [if_neg hx]
      cases hc : (x.name == n)
      · simp only; exact ih
      · rfl

theorem find_setProv (w : World) (k : String) (p : Source.SeqProv) (n : String) :
    findHandler (setProv w k p) n = findHandler w n := rfl

theorem find_name (w : World) (m : String) (h : Handler) (hf : findHandler w m = some h) :
    (h.name == m) = true := by
  unfold findHandler at hf
  have := List.find?_some hf
  simpa using this

theorem find_after (w : World) (h h' : Handler) (m n k : String) (pv : Source.SeqProv)
    (hf : findHandler w m = some h) (hname : h'.name = h.name) (hmn : (m == n) = false) :
    findHandler (setProv (setHandlerSt w h') k pv) n = findHandler w n := by
  rw [find_setProv]
  apply find_set_other
  have := find_name w m h hf
  have e : h.name = m := by simpa using this
  rw [hname, e]; exact hmn

theorem runSrc_find {α : Type} (w : World) (h : Handler) (m n : String)
    (act : Source.Env → Source.SM α) (hf : findHandler w m = some h) (hmn : (m == n) = false) :
    findHandler (runSrc w h act).1 n = findHandler w n := by
  simp only [runSrc]
  split <;> exact find_after w h _ m n _ _ hf rfl hmn

theorem runDst_find {α : Type} (w : World) (h : Handler) (m n : String)
    (act : Dest.Env → Dest.DM α) (hf : findHandler w m = some h) (hmn : (m == n) = false) :
    findHandler (runDst w h act).1 n = findHandler w n := by
  have key : ∀ h' : Handler, h'.name = h.name → findHandler (setHandlerSt w h') n = findHandler w n := by
    intro h' hname
    have := find_after w h h' m n "" {} hf hname hmn
    rwa [find_setProv] at this
  simp only [runDst]
  split <;> exact key _ rfl

/-- **Handler instances are independent objects.**  Any operation addressed to handler `m` leaves the
state of every other handler `n ≠ m` of the world exactly as it was: no field of a handler —
in particular not its lost-segment tracker or its parameter block — is shared through the world. -/
theorem C11_instances_independent (w w' : World) (op : Op) (r : Result) (m n : String)
    (hop : op.handler = some m) (hmn : (m == n) = false)
    (hex : exec w op = some (w', r)) : findHandler w' n = findHandler w n := by
  have key : ∀ (h h' : Handler), findHandler w m = some h → h'.name = h.name →
      findHandler (setHandlerSt w h') n = findHandler w n := by
    intro h h' hf hname
    have := find_after w h h' m n "" {} hf hname hmn
    rwa [find_setProv] at this
  have tail : ∀ x : String, x = m →
      (∀ h, findHandler w x = some h →
        (∃ α, ∃ act : Source.Env → Source.SM α, w' = (runSrc w h act).1) ∨
        (∃ α, ∃ act : Dest.Env → Dest.DM α, w' = (runDst w h act).1) ∨
        (∃ h', h'.name = h.name ∧ w' = setHandlerSt w h') ∨ w' = w) →
      (findHandler w x).isSome → findHandler w' n = findHandler w n := by
    intro x hx hshape hsome
    subst hx
    cases hf : findHandler w x with
    | none => simp [hf] at hsome
    | some h =>
      rcases hshape h hf with ⟨α, act, e⟩ | ⟨α, act, e⟩ | ⟨h', hn, e⟩ | e
      · rw [e]; exact runSrc_find w h x n act hf hmn
      · rw [e]; exact runDst_find w h x n act hf hmn
      · rw [e]; exact key h h' hf hn
      · rw [e]
  cases op with
  | tick ms => simp [Op.handler] at hop
  | put x req =>
    simp only [Op.handler, Option.some.injEq] at hop
    cases hf : findHandler w x with
    | none => simp [exec, hf] at hex
    | some h =>
      refine tail x hop (fun h0 h0f => ?_) (by simp [hf])
      rw [hf] at h0f; cases h0f
      cases hk : h.kind <;> simp [exec, hf, hk] at hex
      exact Or.inl ⟨_, _, hex.1.symm⟩
  | sm x pdu =>
    simp only [Op.handler, Option.some.injEq] at hop
    cases hf : findHandler w x with
    | none => simp [exec, hf] at hex
    | some h =>
      refine tail x hop (fun h0 h0f => ?_) (by simp [hf])
      rw [hf] at h0f; cases h0f
      cases hk : h.kind <;> simp [exec, hf, hk] at hex
      · exact Or.inl ⟨_, _, hex.1.symm⟩
      · exact Or.inr (Or.inl ⟨_, _, hex.1.symm⟩)
  | get x =>
    simp only [Op.handler, Option.some.injEq] at hop
    cases hf : findHandler w x with
    | none => simp [exec, hf] at hex
    | some h =>
      refine tail x hop (fun h0 h0f => ?_) (by simp [hf])
      rw [hf] at h0f; cases h0f
      cases hk : h.kind <;> simp [exec, hf, hk] at hex
      · exact Or.inl ⟨_, _, hex.1.symm⟩
      · exact Or.inr (Or.inl ⟨_, _, hex.1.symm⟩)
  | cancel x t =>
    simp only [Op.handler, Option.some.injEq] at hop
    cases hf : findHandler w x with
    | none => simp [exec, hf] at hex
    | some h =>
      refine tail x hop (fun h0 h0f => ?_) (by simp [hf])
      rw [hf] at h0f; cases h0f
      cases hk : h.kind <;> simp [exec, hf, hk] at hex
      · exact Or.inl ⟨_, _, hex.1.symm⟩
      · exact Or.inr (Or.inl ⟨_, _, hex.1.symm⟩)
  | reset x =>
    simp only [Op.handler, Option.some.injEq] at hop
    cases hf : findHandler w x with
    | none => simp [exec, hf] at hex
    | some h =>
      refine tail x hop (fun h0 h0f => ?_) (by simp [hf])
      rw [hf] at h0f; cases h0f
      cases hk : h.kind <;> simp [exec, hf, hk] at hex
      · exact Or.inl ⟨_, _, hex.1.symm⟩
      · exact Or.inr (Or.inl ⟨_, _, hex.1.symm⟩)
  | setHandler x c f =>
    simp only [Op.handler, Option.some.injEq] at hop
    cases hf : findHandler w x with
    | none => simp [exec, hf] at hex
    | some h =>
      refine tail x hop (fun h0 h0f => ?_) (by simp [hf])
      rw [hf] at h0f; cases h0f
      cases hk : h.kind <;> simp [exec, hf, hk] at hex <;> split at hex <;> simp at hex
      all_goals first
        | (refine Or.inr (Or.inr (Or.inl ⟨_, ?_, hex.1.symm⟩)); rfl)
        | exact Or.inr (Or.inr (Or.inr hex.1.symm))
  | reject x k e =>
    simp only [Op.handler, Option.some.injEq] at hop
    cases hf : findHandler w x with
    | none => simp [exec, hf] at hex
    | some h =>
      refine tail x hop (fun h0 h0f => ?_) (by simp [hf])
      rw [hf] at h0f; cases h0f
      cases hk : h.kind <;> simp [exec, hf, hk] at hex
      · exact Or.inr (Or.inr (Or.inr hex.1.symm))
      · refine Or.inr (Or.inr (Or.inl ⟨_, ?_, hex.1.symm⟩)); rfl


/-! ## Every history: an idle handler has a new handler's parameter block -/

section EveryHistory
open Cfdp.C10

/-- **Receiver, one operation**: the invariant of `Lemmas/FreshDest.lean` (that of C10 extended by
"not busy ⇒ the parameter block is the default one") is kept by every operation, whether it returns or
raises. -/
theorem C11_dest_step (env : Dest.Env) (op : DOp) (s : Dest.DestSt) (hi : Dest.Fresh.DInv s) (ho : op.ok env) :
    Dest.Fresh.DInv (op.run env s).2 := by
  cases op with
  | sm pkt =>
    have := triple_elim _ _ _ _ (Dest.Fresh.stateMachine_spec env pkt ho) s hi
    cases h : Dest.stateMachine env pkt s <;> simp [h, DOp.run, stateOf] at this ⊢
    · exact this
    · exact this.1
  | get =>
    have := triple_elim _ _ _ _ Dest.Fresh.getNextPacket_spec s hi
    cases h : Dest.getNextPacket s <;> simp [h, DOp.run, stateOf] at this ⊢
    · exact this
    · exact this.1
  | cancel t =>
    have := triple_elim _ _ _ _ (Dest.Fresh.cancelRequest_spec env t) s hi
    cases h : Dest.cancelRequest env t s <;> simp [h, DOp.run, stateOf] at this ⊢
    · exact this
    · exact this.1
  | reset =>
    have := triple_elim _ _ _ _ Dest.Fresh.reset_spec s hi
    cases h : Dest.reset s <;> simp [h, DOp.run, stateOf] at this ⊢
    · exact this
    · exact this.1
  | setHandler c f =>
    simp only [DOp.run]
    cases hset : setFaultHandler s.faults c f with
    | none => exact hi
    | some t =>
      have hl := fun k => lookup_setFaultHandler s.faults t c f k hset
      simp only [Dest.Fresh.DInv, Dest.Fresh.Core, Dest.Fresh.TimerOk, Dest.Fresh.FaultsOk] at hi ⊢
      obtain ⟨⟨⟨f1, f2, f3, f4, f5, f6⟩, rest⟩, tm⟩ := hi
      exact ⟨⟨⟨hl _ f1, hl _ f2, hl _ f3, hl _ f4, hl _ f5, hl _ f6⟩, rest⟩, tm⟩
  | injectReject e =>
    simp only [DOp.ok] at ho
    simp only [DOp.run, Dest.Fresh.DInv, Dest.Fresh.Core, Dest.Fresh.TimerOk] at hi ⊢
    obtain ⟨⟨f1, f2, f3, f4, f5, f6, f7, f8⟩, tm⟩ := hi
    refine ⟨⟨f1, f2, f3, f4, f5, f6, f7, ?_⟩, tm⟩
    intro e' he'
    rcases List.mem_append.mp he' with h | h
    · exact f8 e' h
    · simp at h; subst h; exact ho

/-- **Receiver, every history.**  From a new handler (or any state satisfying the invariant), after any
sequence of `state_machine` calls with any PDU or none, packet retrievals, cancel requests, resets, fault
table reconfigurations and refused filestore writes — transactions completed, cancelled, faulted,
abandoned or reset in the middle —: whenever the handler is not busy, its parameter block is exactly a
new handler's and its step is IDLE.  The next transaction therefore starts from the state a freshly
constructed handler starts from (`C11_dest_start_fresh`). -/
theorem C11_dest_idle_is_fresh_all_histories (env : Dest.Env) (s : Dest.DestSt) (hi : Dest.Fresh.DInv s)
    (ops : List DOp) (hops : ∀ op ∈ ops, op.ok env) :
    (runOps env s ops).state ≠ .busy → (runOps env s ops).p = {} ∧ (runOps env s ops).step = .IDLE := by
  have hinv : Dest.Fresh.DInv (runOps env s ops) := by
    unfold runOps
    induction ops generalizing s with
    | nil => exact hi
    | cons op ops ih =>
      simp only [List.foldl_cons]
      exact ih _ (C11_dest_step env op s hi (hops op List.mem_cons_self)) (fun o ho => hops o (List.mem_cons_of_mem _ ho))
  intro hnb
  have := hinv.1.2.1 hnb
  exact ⟨this.2.2, this.1⟩

/-- a new receiver satisfies the invariant -/
theorem C11_dest_invariant_init (faults : List (Nat × Nat)) (hf : Dest.Fresh.FaultsOk faults) :
    Dest.Fresh.DInv { faults := faults } := by
  simp [Dest.Fresh.DInv, Dest.Fresh.Core, Dest.Fresh.TimerOk, hf]

/-- **Sender, one operation** -/
theorem C11_source_step (env : Source.Env) (op : SOp) (s : Source.SrcSt) (hi : Source.Fresh.SInv s)
    (ho : match op with
      | .put r => Source.Fresh.ReqOk r
      | .sm _ => Source.Fresh.SegFits env s
      | _ => True) :
    Source.Fresh.SInv (op.run env s).2 := by
  cases op with
  | put r =>
    have := triple_elim _ _ _ _ (Source.Fresh.putRequest_spec env r ho) s hi
    cases h : Source.putRequest env r s <;> simp [h, SOp.run, stateOf] at this ⊢
    · exact this
    · exact this.1
  | sm pkt =>
    have := triple_elim _ _ _ _ (Source.Fresh.stateMachine_spec env pkt) s ⟨hi, ho⟩
    cases h : Source.stateMachine env pkt s <;> simp [h, SOp.run, stateOf] at this ⊢
    · exact this
    · exact this.1
  | get =>
    have := triple_elim _ _ _ _ Source.Fresh.getNextPacket_spec s hi
    cases h : Source.getNextPacket s <;> simp [h, SOp.run, stateOf] at this ⊢
    · exact this
    · exact this.1
  | cancel t =>
    have := triple_elim _ _ _ _ (Source.Fresh.cancelRequest_spec env t) s hi
    cases h : Source.cancelRequest env t s <;> simp [h, SOp.run, stateOf] at this ⊢
    · exact this
    · exact this.1
  | reset =>
    have := triple_elim _ _ _ _ Source.Fresh.reset_spec s hi
    cases h : Source.reset s <;> simp [h, SOp.run, stateOf] at this ⊢
    · exact this
    · exact this.1
  | setHandler c f =>
    simp only [SOp.run]
    cases hset : setFaultHandler s.faults c f with
    | none => exact hi
    | some t =>
      have hl := fun k => lookup_setFaultHandler s.faults t c f k hset
      simp only [Source.Fresh.SInv, Source.Fresh.FaultsOk, Source.Fresh.InStep] at hi ⊢
      obtain ⟨⟨f1, f2⟩, rest⟩ := hi
      exact ⟨⟨hl _ f1, hl _ f2⟩, rest⟩
  | otherTransaction =>
    simp only [SOp.run, Source.Fresh.SInv, Source.Fresh.InStep] at hi ⊢
    exact hi

/-- the hypotheses hold for each operation in the state it is applied to -/
def SOpsOkF (env : Source.Env) : Source.SrcSt → List SOp → Prop
  | _, [] => True
  | s, op :: rest =>
    (match op with
      | .put r => Source.Fresh.ReqOk r
      | .sm _ => Source.Fresh.SegFits env s
      | _ => True) ∧ SOpsOkF env (op.run env s).2 rest

/-- **Sender, every history**: whenever the sender is not busy — after transactions that completed, were
cancelled, hit a limit, were abandoned or reset, after refused put requests, after transactions of other
handlers sharing the provider — its parameter block is exactly a new handler's and its step is IDLE; an
accepted put request therefore starts from what a freshly constructed handler starts from
(`C11_source_put_forgets_history`). -/
theorem C11_source_idle_is_fresh_all_histories (env : Source.Env) (s : Source.SrcSt) (hi : Source.Fresh.SInv s)
    (ops : List SOp) (hops : SOpsOkF env s ops) :
    (runSOps env s ops).state ≠ .busy → (runSOps env s ops).p = {} ∧ (runSOps env s ops).step = .IDLE := by
  have hinv : Source.Fresh.SInv (runSOps env s ops) := by
    unfold runSOps
    induction ops generalizing s with
    | nil => exact hi
    | cons op ops ih =>
      simp only [List.foldl_cons]
      exact ih _ (C11_source_step env op s hi hops.1) hops.2
  intro hnb
  simp only [Source.Fresh.SInv] at hinv
  obtain ⟨-, -, h3, -, -, -, -, -, -, -, -, h12⟩ := hinv
  exact ⟨h12 hnb, (h3 hnb).1⟩

/-- a new sender (8-, 16- or 32-bit provider) satisfies the invariant -/
theorem C11_source_invariant_init (faults : List (Nat × Nat)) (pv : Source.SeqProv)
    (hf : Source.Fresh.FaultsOk faults) (hb : pv.bits = 8 ∨ pv.bits = 16 ∨ pv.bits = 32) :
    Source.Fresh.SInv { faults := faults, prov := pv } := by
  simp [Source.Fresh.SInv, Source.Fresh.InStep, hf, hb]

/-- **The follow-up request after any history.**  Whatever happened on the sender before — any history
of operations ending with the handler idle —, an accepted put request yields exactly the state it yields
on a handler with a new parameter block: state, step, remembered request, packets-ready counter and the
whole parameter block are a function of the request and the configuration alone. -/
theorem C11_source_followup_after_any_history (env : Source.Env) (s : Source.SrcSt) (hi : Source.Fresh.SInv s)
    (ops : List SOp) (hops : SOpsOkF env s ops) (req : Source.PutReq) (rc : RemoteCfg)
    (hidle : (runSOps env s ops).state = .idle)
    (hsrc : ∀ src, req.src = some src → Fs.exists' (runSOps env s ops).fs src = true)
    (hrc : lookupRemote env.cfg.remotes req.destId.val = some rc) :
    Source.putRequest env req (runSOps env s ops) =
      .ok true { runSOps env s ops with
                  state := .busy, putReq := some req, numReady := 0,
                  p := { ({} : Source.Params) with
                           remoteCfg := some rc,
                           conf := { Hdr.empty with dst := req.destId, mode := req.mode.getD rc.mode },
                           closure := req.closure.getD rc.closure } } :=
  C11_source_put_forgets_history env req _ rc hidle
    (C11_source_idle_is_fresh_all_histories env s hi ops hops (by rw [hidle]; decide)).1 hsrc hrc

/-- non-vacuity: the default tables satisfy the invariants' premises -/
example : Source.Fresh.SInv ({} : Source.SrcSt) :=
  C11_source_invariant_init _ _ (by simp only [Source.Fresh.FaultsOk]; decide) (by decide)
example : Dest.Fresh.DInv ({} : Dest.DestSt) :=
  C11_dest_invariant_init _ (by simp only [Dest.Fresh.FaultsOk]; decide)

end EveryHistory

end Cfdp.C11
