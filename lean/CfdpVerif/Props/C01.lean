import CfdpVerif.Lemmas.InvDestNotComplete
import CfdpVerif.Props.C09
import CfdpVerif.Props.C12
import CfdpVerif.Props.C10
import CfdpVerif.Lemmas.SafeDestC01
/-!
# C01 — a reported successful delivery implies a byte-identical file

A success report is a Transaction-Finished indication or Finished PDU carrying
(No error, Data complete, File retained).  The argument, each step a theorem here:

1. Both carry the receiver's stored finished parameters unchanged
   (`C12_dest_notice_of_completion`, `C12_dest_finished_pdu`, `C15_finished_matches_pdu`).
2. The delivery code can become Data-complete **only** through `_checksum_verify` (or, for a
   metadata-only transfer, `_handle_metadata_packet`): every other method of the receiver preserves
   "not Data-complete" from every state (`C01_only_verification_completes`, generated frame lemmas in
   `Lemmas/InvDestNotComplete.lean`).
3. `_checksum_verify` sets Data-complete **iff** the checksum of the first `progress` bytes of the
   destination file, computed by the filestore with the negotiated checksum type, equals the checksum
   announced by the EOF PDU — or the type is the null checksum / the transfer is metadata-only
   (`C01_verify_sound`, `C01_verify_failure_keeps_incomplete`); it changes neither the file nor the
   progress.
4. That filestore checksum is the CRC-32 / CRC-32C / modular checksum of exactly those bytes
   (`Props/C09`), and the sender's EOF carries the same function of the source file
   (`C07_eof_call`).  Hence on success `cs_T(file[0..progress)) = cs_T(F)` with `progress` the EOF's
   size: the file is `F` or a genuine collision of the negotiated checksum.
5. The sender's success report copies the Finished PDU it received (`C01_source_report_copies_pdu`).
Not formalised as one theorem: the temporal glue "between the verification and the report no write
happens" (both lie in the same `state_machine` call: the step becomes `TRANSFER_COMPLETION`, in
which no File Data is processed) — covered by the end-to-end exploration with arbitrary fault
schedules (see MANIFEST).
-/
set_option linter.unusedSimpArgs false
set_option linter.unusedVariables false

namespace Cfdp.C01

open Cfdp Cfdp.Dest

/-- **Only a verification completes.**  None of these methods — File Data handling incl. the write,
lost-segment bookkeeping, EOF-before-Metadata, fault declarations (cancel / abandon / ignore),
cancel requests, completion, Finished PDU generation and its re-sends — can turn a delivery code that
is not Data-complete into Data-complete, from any state. -/
theorem C01_only_verification_completes (env : Env) (s : DestSt) (h : s.p.fin.deliv ≠ dcComplete) :
    (∀ o d, (stateOf (handleFdPdu env o d s)).p.fin.deliv ≠ dcComplete) ∧
    (∀ f o d, (stateOf (handleFdWithoutPreviousMetadata f o d s)).p.fin.deliv ≠ dcComplete) ∧
    (∀ cc c sz, (stateOf (handleEofWithoutPreviousMetadata env cc c sz s)).p.fin.deliv ≠ dcComplete) ∧
    (∀ c, (stateOf (declareFault c s)).p.fin.deliv ≠ dcComplete) ∧
    (∀ t, (stateOf (cancelRequest env t s)).p.fin.deliv ≠ dcComplete) ∧
    (stateOf (handleTransferCompletion env s)).p.fin.deliv ≠ dcComplete ∧
    (stateOf (prepareFinishedPdu s)).p.fin.deliv ≠ dcComplete ∧
    (stateOf (resendFinished env s)).p.fin.deliv ≠ dcComplete ∧
    (stateOf (getNextPacket s)).p.fin.deliv ≠ dcComplete := by
  refine ⟨fun o d => ?_, fun f o d => ?_, fun cc c sz => ?_, fun c => ?_, fun t => ?_, ?_, ?_, ?_, ?_⟩
  · exact NotComplete.handleFdPdu_n env o d s h
  · exact NotComplete.handleFdWithoutMd_n env f o d s h
  · exact NotComplete.handleEofWithoutMd_n env cc c sz s h
  · exact NotComplete.declareFault_n env c s h
  · exact NotComplete.cancelRequest_n env t s h
  · exact NotComplete.handleTransferCompletion_n env s h
  · exact NotComplete.prepareFinishedPdu_n env s h
  · exact NotComplete.resendFinished_n env s h
  · exact NotComplete.getNextPacket_n env s h

/-- the stored file has the checksum the EOF announced (negotiated type, first `progress` bytes) -/
def Verified (s : DestSt) : Prop :=
  s.p.cksType = 15 ∨ s.p.metadataOnly = true ∨
  Fs.calcChecksum s.fs (Checksum.CksType.ofNat s.p.cksType) s.p.fileName s.p.progress 4096 = .ok s.p.crc32

/-- **Verification is sound.**  If `_checksum_verify` returns true — the only way the delivery code
becomes Data-complete for a file transfer — then the stored file's checksum over its first
`progress` bytes equals the checksum of the EOF PDU (or the null checksum was negotiated); the call
changed neither the filestore nor progress, file name, checksum type or the stored EOF checksum. -/
theorem C01_verify_sound (s s' : DestSt) (h : checksumVerify s = .ok true s') :
    Verified s ∧ s'.fs = s.fs ∧ s'.p.progress = s.p.progress ∧ s'.p.fileName = s.p.fileName ∧
    s'.p.crc32 = s.p.crc32 ∧ s'.p.cksType = s.p.cksType ∧ s'.p.fin.deliv = dcComplete ∧
    s'.p.fin.cond = ccNoError ∧ Verified s' := by
  unfold checksumVerify at h
  by_cases h1 : (s.p.cksType = 15 || s.p.metadataOnly) = true
  · msimp [h1, markComplete, modP] at h
    subst h
    have hv : Verified s := by
      simp at h1; rcases h1 with h1 | h1
      · exact Or.inl h1
      · exact Or.inr (Or.inl h1)
    exact ⟨hv, rfl, rfl, rfl, rfl, rfl, rfl, rfl, hv⟩
  · cases hc : Fs.calcChecksum s.fs (Checksum.CksType.ofNat s.p.cksType) s.p.fileName s.p.progress 4096 with
    | error e =>
      msimp [h1, hc] at h
      split at h
      · cases hd : declareFault ccChecksumFailure s <;> simp [hd] at h
      · simp at h
    | ok crc =>
      by_cases h2 : crc = s.p.crc32
      · msimp [h1, hc, h2, markComplete, modP] at h
        subst h
        have hv : Verified s := Or.inr (Or.inr (by rw [hc, h2]))
        exact ⟨hv, rfl, rfl, rfl, rfl, rfl, rfl, rfl, hv⟩
      · msimp [h1, hc, h2] at h
        cases hd : declareFault ccChecksumFailure s <;> simp [hd] at h

/-- **A failed verification never completes**: it returns false only after declaring File checksum
failure, and the delivery code stays what `_declare_fault` leaves — never Data-complete if it was
not before. -/
theorem C01_verify_failure_keeps_incomplete (env : Env) (s s' : DestSt)
    (h : checksumVerify s = .ok false s') (hn : s.p.fin.deliv ≠ dcComplete) :
    s'.p.fin.deliv ≠ dcComplete ∧ ¬ Verified s := by
  unfold checksumVerify at h
  by_cases h1 : (s.p.cksType = 15 || s.p.metadataOnly) = true
  · msimp [h1, markComplete, modP] at h
  · cases hc : Fs.calcChecksum s.fs (Checksum.CksType.ofNat s.p.cksType) s.p.fileName s.p.progress 4096 with
    | error e =>
      msimp [h1, hc] at h
      split at h
      · have hd := NotComplete.declareFault_n env ccChecksumFailure s hn
        cases hdf : declareFault ccChecksumFailure s with
        | error e t => simp [hdf] at h
        | ok fh t =>
          simp [hdf] at h
          subst h
          rw [hdf] at hd
          refine ⟨hd, ?_⟩
          intro hv
          simp at h1
          rcases hv with hv | hv | hv
          · exact h1.1 hv
          · simp [h1.2] at hv
          · rw [hc] at hv; simp at hv
      · simp at h
    | ok crc =>
      by_cases h2 : crc = s.p.crc32
      · msimp [h1, hc, h2, markComplete, modP] at h
      · msimp [h1, hc, h2] at h
        have hd := NotComplete.declareFault_n env ccChecksumFailure s hn
        cases hdf : declareFault ccChecksumFailure s with
        | error e t => simp [hdf] at h
        | ok fh t =>
          simp [hdf] at h
          subst h
          rw [hdf] at hd
          refine ⟨hd, ?_⟩
          intro hv
          simp at h1
          rcases hv with hv | hv | hv
          · exact h1.1 hv
          · simp [h1.2] at hv
          · rw [hc] at hv; simp at hv; exact h2 hv

/-- For the CRC types the filestore checksum in `Verified` is the CRC of exactly the first
`progress` bytes of the stored file, whatever the chunking (`Props/C09`): two files verified against
the same EOF checksum agree or collide. -/
theorem C01_verified_is_crc (fs : Fs) (name : String) (d : List UInt8) (progress : Nat) (crc : List UInt8)
    (hfile : fs.get name = some (.file d))
    (h : Fs.calcChecksum fs .crc32 name progress 4096 = .ok crc) :
    crc = Checksum.crcOf Checksum.polyCrc32 (d.take progress) := by
  have h9 := Checksum.C09.C09_crc32_chunk_independent d progress 4096 (by decide)
  simp [Fs.calcChecksum, hfile, h9] at h
  exact h.symm

/-- **Sender.**  The sender's Transaction-Finished indication for a transfer with closure or in
acknowledged mode carries exactly the parameters of the Finished PDU it received from the receiver
(it makes no claim of its own). -/
theorem C01_source_report_copies_pdu (env : Source.Env) (s : Source.SrcSt) (fp : FinishedParams) (t : Tid)
    (hi : env.cfg.indFinished = true) (ht : s.p.tid = some t) (hfp : s.p.finishedParams = some fp) :
    ∃ s', Source.noticeOfCompletion env s = .ok () s' ∧ s'.inds = s.inds ++ [.finished (some t) fp] ∧
      s'.state = .idle := by
  apply Exists.intro
  refine ⟨?_, ?_, ?_⟩
  · msimp [Source.noticeOfCompletion, hi, Source.getP, ht, hfp, Source.modP, Source.emitInd, Source.resetInternal]
    rfl
  · simp
  · simp

theorem C01_source_stores_finished_pdu (env : Source.Env) (s : Source.SrcSt) (h : Hdr) (fp : FinishedParams)
    (hb : s.state = .busy) (hm : s.p.conf.mode = .unack) :
    Source.handleWaitForFinish env (some (.fin h fp)) s =
      .ok () { s with step := .NOTICE_OF_COMPLETION, p := { s.p with finishedParams := some fp } } := by
  msimp [Source.handleWaitForFinish, Source.transmissionMode, hb, hm, Source.modP]

/-! ### marked complete only while verified — for every history (receiver) -/

section History
open Dest Dest.Safe Dest.SafeC C10

/-- a new handler satisfies the invariant -/
theorem C01_dest_invariant_init (faults : List (Nat × Nat)) (hf : FaultsOk faults) :
    DK ({ faults := faults } : DestSt) := by
  refine ⟨C10_dest_invariant_init faults hf, ?_⟩
  simp [K, Kw, dcComplete, dcIncomplete]

/-- every operation of the user, the peer or the filestore preserves the invariant -/
theorem C01_dest_step (env : Env) (op : DOp) (s : DestSt) (hi : DK s) (ho : op.ok env) : DK (op.run env s).2 := by
  cases op with
  | sm pkt =>
    have := triple_elim _ _ _ _ (SafeC.stateMachine_spec env pkt ho) s hi
    cases h : stateMachine env pkt s <;> simp [h, DOp.run, stateOf] at this ⊢
    · exact this
    · exact this.1
  | get =>
    have := triple_elim _ _ _ _ SafeC.getNextPacket_spec s hi
    cases h : getNextPacket s <;> simp [h, DOp.run, stateOf] at this ⊢
    · exact this
    · exact this.1
  | cancel t =>
    have := triple_elim _ _ _ _ (SafeC.cancelRequest_spec env t) s hi
    cases h : cancelRequest env t s <;> simp [h, DOp.run, stateOf] at this ⊢
    · exact this
    · exact this.1
  | reset =>
    have := triple_elim _ _ _ _ SafeC.reset_spec s hi
    cases h : reset s <;> simp [h, DOp.run, stateOf] at this ⊢
    · exact this
    · exact this.1
  | setHandler c f =>
    have h1 := (C10_dest_step env (.setHandler c f) s hi.1 trivial).1
    refine ⟨h1, ?_⟩
    simp only [DOp.run]
    cases hset : setFaultHandler s.faults c f with
    | none => exact hi.2
    | some t => exact hi.2
  | injectReject e =>
    have h1 := (C10_dest_step env (.injectReject e) s hi.1 ho).1
    exact ⟨h1, hi.2⟩

/-- **A reported success implies a verified file, for every history.**  Start from a new receiver;
let the peer, the link, the user and the filestore do anything — any sequence of PDUs of any type
and content (hence any loss, duplication, reordering, delay or corruption), cancel requests,
resets, rejected writes, fault table changes.  In every state reached, if the delivery code is
Data-complete — the value the Transaction-Finished indication and the Finished PDU carry
(`C15_finished_matches_pdu`, `C12_dest_finished_pdu`) — then the transaction is in a completion step,
in which no file data is accepted any more, and the destination file, as it is at that moment,
verifies against the checksum of the EOF PDU over exactly the received extent (or the transfer is
metadata-only / negotiated the null checksum).  With `C01_verified_is_crc` / C09: the file's
checksum *is* the sender's checksum of the source file, i.e. the files are identical up to a
genuine checksum collision. -/
theorem C01_dest_complete_means_verified_all_histories (env : Env) (s : DestSt) (hi : DK s)
    (ops : List DOp) (hops : ∀ op ∈ ops, op.ok env) :
    let s' := runOps env s ops
    DK s' ∧ (s'.p.fin.deliv = dcComplete → SafeC.Verified s' ∧ SafeC.InDone s'.step) := by
  have hinv : DK (runOps env s ops) := by
    unfold runOps
    induction ops generalizing s with
    | nil => exact hi
    | cons op ops ih =>
      simp only [List.foldl_cons]
      exact ih _ (C01_dest_step env op s hi (hops op List.mem_cons_self))
        (fun o ho => hops o (List.mem_cons_of_mem _ ho))
  exact ⟨hinv, fun hd => ⟨hinv.2.1.2 hd, hinv.2.2 hd⟩⟩

end History

end Cfdp.C01
