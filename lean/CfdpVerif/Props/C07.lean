import CfdpVerif.Props.C19
/-!
# C07 — the source emits a conformant, complete and size-bounded PDU stream

Model: `Model/Source.lean`, `Model/Pdu.lean`.  The run considered is the undisturbed one: after an
accepted put request the user alternates `state_machine()` and draining the queue; no inbound PDUs.
-/
set_option linter.unusedSimpArgs false

namespace Cfdp.Source.C07

open Cfdp Cfdp.Source Cfdp.Source.C19
open Cfdp.Route (Mode Dir)

/-! ### segment length and header -/

/-- every PDU header of the transaction: both entity ids have the larger of the two widths, the
CRC flag is the configured one, the direction is towards the receiver -/
theorem C07_header (env : Env) (req : PutReq) (rc : RemoteCfg) (s : SrcSt) (large : Bool) :
    let c := startConf env req rc s large
    c.src.width = c.dst.width ∧ c.src.width = max env.cfg.entityId.width req.destId.width ∧
    c.src.val = env.cfg.entityId.val ∧ c.dst.val = req.destId.val ∧ c.crc = rc.crc ∧
    c.mode = s.p.conf.mode ∧ c.dir = .toRecv := by
  simp [startConf]

/-- the PDU constructors keep every header field except the direction, which is the one proper to
the PDU type -/
theorem C07_pdu_headers (h : Hdr) (closure : Bool) (cks size off cond : Nat) (sn dn : Option String)
    (m : Option (List Msg)) (d c4 : List UInt8) :
    (mkMd h closure cks size sn dn m).hdr = { h with dir := .toRecv } ∧
    (mkFd h off d).hdr = { h with dir := .toRecv } ∧
    (mkEof h cond c4 size).hdr = { h with dir := .toRecv } ∧
    (mkAck h dtFinished cond tsActive).hdr = { h with dir := .toRecv } := by
  simp [mkMd, mkFd, mkEof, mkAck, Pdu.hdr]

/-- A File Data PDU carrying at most `seg` bytes, `seg` being the effective segment length, never
exceeds the maximum packet length. -/
theorem C07_file_data_len (rc : RemoteCfg) (conf : Hdr) (seg off : Nat) (d : List UInt8)
    (hseg : segLenOf rc conf = some seg) (hd : d.length ≤ seg) :
    (mkFd conf off d).packetLen ≤ rc.maxPkt := by
  have h := C19_segment_length rc conf seg hseg
  simp only [mkFd, Pdu.packetLen, Hdr.len, Hdr.fss, Hdr.crcLen] at *
  omega

/-- EOF and ACK PDUs respect the maximum packet length whenever it leaves room for them (the
explicit guard; see DESIGN.md §9 #14 for configurations below it). -/
theorem C07_eof_ack_len (conf : Hdr) (maxPkt cond size : Nat) (c4 : List UInt8)
    (hguard : conf.len + 1 + 1 + 4 + conf.fss + conf.crcLen ≤ maxPkt) :
    (mkEof conf cond c4 size).packetLen ≤ maxPkt ∧
    (mkAck conf dtFinished cond tsActive).packetLen ≤ maxPkt := by
  simp only [mkEof, mkAck, Pdu.packetLen, Hdr.len, Hdr.fss, Hdr.crcLen, flocLen] at *
  constructor <;> (split at hguard <;> split at hguard <;> simp_all <;> omega)

/-! ### tiling arithmetic -/

/-- invariant of the progress counter while file data is being sent -/
def TileInv (p : Params) : Prop :=
  0 < p.segmentLen ∧ p.progress ≤ p.fileSize ∧ (p.progress % p.segmentLen = 0 ∨ p.progress = p.fileSize)

/-- the length read for the next File Data PDU is exactly the next tile: the smaller of the segment
length and what is left; it is positive, and the progress stays on the grid -/
theorem C07_read_len_is_tile (p : Params) (h : TileInv p) (hlt : p.progress < p.fileSize) :
    readLen p = min p.segmentLen (p.fileSize - p.progress) ∧ 0 < readLen p ∧
    readLen p ≤ p.segmentLen ∧ p.progress + readLen p ≤ p.fileSize ∧
    TileInv { p with progress := p.progress + readLen p } := by
  obtain ⟨hs, hle, hgrid⟩ := h
  have hmod : p.progress % p.segmentLen = 0 := by
    rcases hgrid with h | h
    · exact h
    · omega
  unfold readLen TileInv
  by_cases h1 : p.fileSize < p.segmentLen
  · -- the whole file fits into one segment: progress is 0
    have h0 : p.progress = 0 := by
      have : p.progress < p.segmentLen := by omega
      have := Nat.mod_eq_of_lt this
      omega
    simp [h1, h0]
    omega
  · by_cases h2 : p.progress + p.segmentLen > p.fileSize
    · simp [h1, h2]
      repeat' apply And.intro
      all_goals first | omega | exact hs | (right; omega)
    · simp [h1, h2]
      repeat' apply And.intro
      all_goals first | omega | exact hs | exact Or.inl hmod

/-! ### one call, one PDU -/

/-- state reached by `state_machine()` when the next tile has been queued -/
def afterTile (s : SrcSt) (F : List UInt8) : SrcSt :=
  { s with step := .SENDING_FILE_DATA,
           queue := [mkFd s.p.conf s.p.progress ((F.drop s.p.progress).take (readLen s.p))],
           numReady := s.numReady + 1,
           p := { s.p with progress := s.p.progress + readLen s.p } }

/-- **One File Data PDU per call.**  With the queue drained and data left to send, a call in step
`SENDING_METADATA` or `SENDING_FILE_DATA` queues exactly one File Data PDU: offset = progress,
payload = the next `readLen` bytes of the file; progress advances by that length. -/
theorem C07_file_data_call (env : Env) (s : SrcSt) (req : PutReq) (src : String) (F : List UInt8)
    (hst : s.state = .busy) (hstep : s.step = .SENDING_FILE_DATA ∨ s.step = .SENDING_METADATA)
    (hq : s.queue = []) (hreq : s.putReq = some req) (hsrc : req.src = some src)
    (hfile : s.fs.get src = some (.file F)) (hprog : s.p.progress < s.p.fileSize)
    (hmo : s.p.metadataOnly = false) :
    stateMachine env none s = .ok () (afterTile s F) := by
  have hne : s.p.progress ≠ s.p.fileSize := by omega
  rcases hstep with hstep | hstep <;>
  msimp [stateMachine, fsmNonIdle, fsmAdvancementAfterPacketsWereSent, fsmFromSendingFileData,
    sendingFileDataFsm, handleRetransmission, transmissionMode, prepareProgressingFileDataPdu,
    prepareFileDataPdu, getP, modP, addPacket, Fs.readData, afterTile, hst, hstep, hq, hreq, hsrc,
    hfile, hprog, hmo, hne]

/-! ### the undisturbed run: call, drain, call, drain, … -/

/-- `get_next_packet` until it returns `None` -/
def drained (s : SrcSt) : SrcSt := { s with queue := [], numReady := s.numReady - s.queue.length }

/-- one round of the undisturbed run: `state_machine()`, then the user retrieves every queued PDU.
`none` = the call raised. -/
def round (env : Env) (s : SrcSt) : Option (List Pdu × SrcSt) :=
  match stateMachine env none s with
  | .ok _ s' => some (s'.queue, drained s')
  | .error _ _ => none

def rounds (env : Env) : Nat → SrcSt → Option (List Pdu × SrcSt)
  | 0, s => some ([], s)
  | k + 1, s =>
    match round env s with
    | none => none
    | some (out, s') =>
      match rounds env k s' with
      | none => none
      | some (out', s'') => some (out ++ out', s'')

/-- rounds compose -/
theorem rounds_add (env : Env) : ∀ (a b : Nat) (s : SrcSt),
    rounds env (a + b) s =
      match rounds env a s with
      | none => none
      | some (o1, s1) =>
        match rounds env b s1 with
        | none => none
        | some (o2, s2) => some (o1 ++ o2, s2) := by
  intro a
  induction a with
  | zero =>
    intro b s
    simp only [Nat.zero_add, rounds]
    cases rounds env b s with
    | none => rfl
    | some x => simp
  | succ a ih =>
    intro b s
    have : a + 1 + b = (a + b) + 1 := by omega
    rw [this]
    simp only [rounds]
    cases hr : round env s with
    | none => rfl
    | some x =>
      obtain ⟨o, s1⟩ := x
      simp only
      rw [ih b s1]
      cases rounds env a s1 with
      | none => rfl
      | some y =>
        obtain ⟨o1, s2⟩ := y
        simp only
        cases rounds env b s2 with
        | none => rfl
        | some z => simp [List.append_assoc]

/-- draining really is repeated `get_next_packet`: each call returns the head of the queue -/
theorem C07_drain_step (s : SrcSt) (p : Pdu) (q : List Pdu) (h : s.queue = p :: q) :
    getNextPacket s = .ok (some p) { s with queue := q, numReady := s.numReady - 1 } ∧
    drained { s with queue := q, numReady := s.numReady - 1 } = drained s := by
  constructor
  · msimp [getNextPacket, h]
  · simp [drained, h]; omega

/-- the state of a sender that is in the middle of the file -/
structure Sending (s : SrcSt) (req : PutReq) (src : String) (F : List UInt8) : Prop where
  hbusy : s.state = .busy
  hstep : s.step = .SENDING_FILE_DATA ∨ s.step = .SENDING_METADATA
  hqueue : s.queue = []
  hreq : s.putReq = some req
  hsrc : req.src = some src
  hfile : s.fs.get src = some (.file F)
  hsize : s.p.fileSize = F.length
  hnotMo : s.p.metadataOnly = false
  hinv : TileInv s.p

theorem take_min_length {α : Type} (l : List α) (a : Nat) : l.take (min a l.length) = l.take a := by
  by_cases h : a ≤ l.length
  · rw [Nat.min_eq_left h]
  · have h' : l.length ≤ a := by omega
    rw [Nat.min_eq_right h', List.take_of_length_le (Nat.le_refl _), List.take_of_length_le h']

/-- what tiling the file leaves untouched -/
def Frame (s s' : SrcSt) : Prop :=
  s'.p.remoteCfg = s.p.remoteCfg ∧ s'.p.tid = s.p.tid ∧ s'.p.closure = s.p.closure ∧ s'.inds = s.inds ∧
  s'.flts = s.flts ∧ s'.fs = s.fs ∧ s'.p.finishedParams = s.p.finishedParams ∧ s'.state = s.state ∧
  s'.p.fileSize = s.p.fileSize ∧ s'.putReq = s.putReq ∧ s'.p.metadataOnly = s.p.metadataOnly ∧
  s'.queue = [] ∧ s'.faults = s.faults ∧ s'.prov = s.prov ∧ s'.p.checkTimer = s.p.checkTimer ∧
  s'.p.condCodeEof = s.p.condCodeEof

/-- the i-th tile after `prog`, as a File Data PDU -/
def tile (conf : Hdr) (F : List UInt8) (seg prog i : Nat) : Pdu :=
  mkFd conf (prog + i * seg) ((F.drop (prog + i * seg)).take seg)

/-- **Tiling, by induction on the number of calls.**  From any state in the middle of the file
(progress on the segment grid), `k` rounds emit exactly the next `k` tiles — one File Data PDU per
call, in ascending order, offsets `progress + i·seg`, payload the file's bytes at that offset, at
most `seg` bytes each — as long as the k-th of them still starts inside the file. -/
theorem C07_stream_tiles (env : Env) (req : PutReq) (src : String) (F : List UInt8) :
    ∀ (k : Nat) (s : SrcSt), Sending s req src F →
      (k = 0 ∨ s.p.progress + (k - 1) * s.p.segmentLen < F.length) →
      ∃ s', rounds env k s =
          some ((List.range k).map (tile s.p.conf F s.p.segmentLen s.p.progress), s') ∧
        (s'.p.progress = min F.length (s.p.progress + k * s.p.segmentLen)) ∧
        s'.p.conf = s.p.conf ∧ s'.p.segmentLen = s.p.segmentLen ∧
        (k = 0 ∨ s'.step = .SENDING_FILE_DATA) ∧ Sending s' req src F ∧ Frame s s' := by
  intro k
  induction k with
  | zero =>
    intro s hs _
    exact ⟨s, by simp [rounds], by simp [hs.hinv.2.1, ← hs.hsize], rfl, rfl, Or.inl rfl, hs,
      by simp [Frame, hs.hqueue]⟩
  | succ k ih =>
    intro s hs hk
    have hlt : s.p.progress < s.p.fileSize := by
      rw [hs.hsize]; rcases hk with h | h
      · omega
      · exact Nat.lt_of_le_of_lt (Nat.le_add_right _ _) h
    have hcall := C07_file_data_call env s req src F hs.hbusy hs.hstep hs.hqueue hs.hreq hs.hsrc hs.hfile hlt hs.hnotMo
    obtain ⟨hrl, hpos, hle, hle2, hinv'⟩ := C07_read_len_is_tile s.p hs.hinv hlt
    -- the state after the call, drained
    have hs' : Sending (drained (afterTile s F)) req src F :=
      { hbusy := by simp [drained, afterTile, hs.hbusy], hstep := by simp [drained, afterTile],
        hqueue := by simp [drained], hreq := by simp [drained, afterTile, hs.hreq], hsrc := hs.hsrc,
        hfile := by simp [drained, afterTile, hs.hfile], hsize := by simp [drained, afterTile, hs.hsize],
        hnotMo := by simp [drained, afterTile, hs.hnotMo], hinv := by simpa [drained, afterTile] using hinv' }
    have hk' : k = 0 ∨ (drained (afterTile s F)).p.progress + (k - 1) * (drained (afterTile s F)).p.segmentLen
        < F.length := by
      by_cases hk0 : k = 0
      · exact Or.inl hk0
      · right
        have h := hk.resolve_left (by omega)
        simp only [drained, afterTile, Nat.add_sub_cancel] at *
        have hseg : s.p.progress + s.p.segmentLen ≤ s.p.progress + k * s.p.segmentLen :=
          Nat.add_le_add_left (Nat.le_mul_of_pos_left _ (by omega)) _
        have hrl' : readLen s.p = s.p.segmentLen := by rw [hrl, hs.hsize]; omega
        rw [hrl']
        have : s.p.progress + s.p.segmentLen + (k - 1) * s.p.segmentLen = s.p.progress + k * s.p.segmentLen := by
          have : k = (k - 1) + 1 := by omega
          rw [this, Nat.add_mul]; simp; omega
        omega
    obtain ⟨s'', hr, hp, hc, hsg, hst, hS, hFr⟩ := ih _ hs' hk'
    -- the PDU queued by the call is tile 0 …
    have htake : (F.drop s.p.progress).take (min s.p.segmentLen (F.length - s.p.progress)) =
        (F.drop s.p.progress).take s.p.segmentLen := by
      rw [← List.length_drop]; exact take_min_length _ _
    have hq : (afterTile s F).queue = [tile s.p.conf F s.p.segmentLen s.p.progress 0] := by
      simp only [afterTile, tile, Nat.zero_mul, Nat.add_zero]
      rw [hrl, hs.hsize, htake]
    -- … and the later tiles are the tiles after the new progress
    have hshift : ∀ i, k ≠ 0 → tile (drained (afterTile s F)).p.conf F (drained (afterTile s F)).p.segmentLen
        (drained (afterTile s F)).p.progress i = tile s.p.conf F s.p.segmentLen s.p.progress (i + 1) := by
      intro i hk0
      have h := hk.resolve_left (by omega)
      have hrl' : readLen s.p = s.p.segmentLen := by
        rw [hrl, hs.hsize]
        have hseg : s.p.progress + s.p.segmentLen ≤ s.p.progress + k * s.p.segmentLen :=
          Nat.add_le_add_left (Nat.le_mul_of_pos_left _ (by omega)) _
        simp at h; omega
      simp only [drained, afterTile, tile]
      rw [hrl']
      have : s.p.progress + s.p.segmentLen + i * s.p.segmentLen = s.p.progress + (i + 1) * s.p.segmentLen := by
        rw [Nat.add_mul]; omega
      rw [this]
    refine ⟨s'', ?_, ?_, ?_, ?_, ?_, hS, by simpa [Frame, drained, afterTile] using hFr⟩
    · simp only [rounds, round, hcall, hr, hq]
      rw [List.range_succ_eq_map, List.map_cons, List.map_map]
      congr 1
      simp only [List.singleton_append]
      congr 2
      apply List.map_congr_left
      intro i hi
      have hk0 : k ≠ 0 := by intro h0; subst h0; simp at hi
      simpa [Function.comp] using hshift i hk0
    · rw [hp]; simp only [drained, afterTile]
      rw [hrl, hs.hsize]
      have : (k + 1) * s.p.segmentLen = s.p.segmentLen + k * s.p.segmentLen := by rw [Nat.add_mul]; omega
      rw [this]
      by_cases hx : s.p.segmentLen ≤ F.length - s.p.progress
      · rw [Nat.min_eq_left hx]; congr 1; omega
      · have h1 : min s.p.segmentLen (F.length - s.p.progress) = F.length - s.p.progress := by omega
        rw [h1]; omega
    · rw [hc]; simp [drained, afterTile]
    · rw [hsg]; simp [drained, afterTile]
    · right
      rcases hst with h0 | h
      · subst h0; simp [rounds] at hr; rw [← hr]; simp [drained, afterTile]
      · exact h

/-! ### first call: Metadata; last call: EOF -/

/-- state after the first call for a file transfer -/
def afterMetadata (env : Env) (s : SrcSt) (req : PutReq) (rc : RemoteCfg) (src dst : String)
    (F : List UInt8) (seg : Nat) : SrcSt :=
  let conf := startConf env req rc s (decide (F.length > 4294967295))
  let tid : Tid := ⟨env.cfg.entityId, ⟨s.prov.next, s.prov.bits / 8⟩⟩
  { s with step := .SENDING_METADATA, numReady := s.numReady + 1,
           queue := [mkMd conf s.p.closure rc.cks F.length (some src) (some dst) (some (req.msgs.getD []))],
           prov := { s.prov with next := (s.prov.next + 1) % provWrap s.prov.bits },
           inds := s.inds ++ [.tx tid (checkForOriginatingId req.msgs)],
           p := { s.p with fileSize := F.length, conf := conf, segmentLen := seg, tid := some tid } }

/-- **First call.**  The first `state_machine()` after an accepted put request for an existing
non-empty file starts the transaction and queues exactly the Metadata PDU, carrying the true file
size, both names, the configured checksum type and the resolved closure flag; the Transaction
indication is issued before any PDU; the sender is then ready to tile the file from offset 0. -/
theorem C07_metadata_call (env : Env) (s : SrcSt) (req : PutReq) (rc : RemoteCfg) (src dst : String)
    (F : List UInt8) (seg : Nat)
    (hst : s.state = .busy) (hstep : s.step = .IDLE) (hq : s.queue = [])
    (hreq : s.putReq = some req) (hpmo : s.p.metadataOnly = false)
    (hsrc : req.src = some src) (hdst : req.dst = some dst)
    (hfile : s.fs.get src = some (.file F)) (hF : F ≠ []) (hprog : s.p.progress = 0)
    (hrc : s.p.remoteCfg = some rc) (hbits : s.prov.bits = 8 ∨ s.prov.bits = 16 ∨ s.prov.bits = 32)
    (hseg : segLenOf rc (startConf env req rc s (decide (F.length > 4294967295))) = some seg)
    (hseg0 : 0 < seg) :
    stateMachine env none s = .ok () (afterMetadata env s req rc src dst F seg) ∧
    Sending (drained (afterMetadata env s req rc src dst F seg)) req src F := by
  have hex : Fs.exists' s.fs src = true := by simp [Fs.exists', hfile]
  have hsz : Fs.fileSize s.fs src = .ok F.length := by simp [Fs.fileSize, hfile]
  have hne : F.length ≠ 0 := by simpa using hF
  have hb : ¬((¬s.prov.bits = 8 ∧ ¬s.prov.bits = 16) ∧ ¬s.prov.bits = 32) := by omega
  unfold startConf at hseg
  constructor
  · msimp [stateMachine, fsmNonIdle, fsmAdvancementAfterPacketsWereSent, transactionStart,
      prepareMetadataPdu, addPacket, hst, hstep, hq, hreq, hpmo, hsrc, hdst, hex, hsz, hne, hrc,
      modP, getP, emitInd, hb, hseg, startConf, PutReq.metadataOnly, afterMetadata]
  · exact { hbusy := by simp [drained, afterMetadata, hst], hstep := by simp [drained, afterMetadata],
            hqueue := by simp [drained], hreq := by simp [drained, afterMetadata, hreq], hsrc := hsrc,
            hfile := by simp [drained, afterMetadata, hfile],
            hsize := by simp [drained, afterMetadata], hnotMo := by simp [drained, afterMetadata, hpmo],
            hinv := by simp [drained, afterMetadata, TileInv, hprog, hseg0] }

/-- **Last call.**  When the whole file has been sent and retrieved, the next call queues exactly the
EOF PDU: condition No error, file size = the file's length, checksum = the filestore's checksum of
the whole file (which `Props/C09` proves to be the checksum of the file's bytes); an enabled
EOF-Sent indication is issued, a disabled one is not. -/
theorem C07_eof_call (env : Env) (s : SrcSt) (req : PutReq) (rc : RemoteCfg) (src : String)
    (F cks : List UInt8) (tid : Tid)
    (hst : s.state = .busy) (hstep : s.step = .SENDING_FILE_DATA) (hq : s.queue = [])
    (hreq : s.putReq = some req) (hsrc : req.src = some src) (hmo : s.p.metadataOnly = false)
    (hfile : s.fs.get src = some (.file F)) (hsize : s.p.fileSize = F.length)
    (hprog : s.p.progress = s.p.fileSize) (hrc : s.p.remoteCfg = some rc) (htid : s.p.tid = some tid)
    (hcks : Checksum.calcChecksum (Checksum.CksType.ofNat rc.cks) F F.length s.p.segmentLen = .ok cks)
    (hnull : Checksum.CksType.ofNat rc.cks ≠ .null) (hlen : cks.length = 4)
    (hack : 0 < rc.ackMs) (hchk : 0 < env.cfg.chkMs) :
    ∃ s', stateMachine env none s = .ok () s' ∧
      s'.queue = [mkEof s.p.conf ccNoError cks F.length] ∧
      s'.inds = s.inds ++ (if env.cfg.indEofSent then [.eofSent tid] else []) ++
        (if s.p.conf.mode = .unack ∧ s.p.closure = false ∧ env.cfg.indFinished
          then [.finished (some tid) (s.p.finishedParams.getD ⟨ccNoError, dcComplete, fsUnreported, none⟩)]
          else []) ∧
      (s.p.conf.mode = .unack → s.p.closure = false → s'.state = .idle ∧ s'.step = .IDLE) ∧
      (s.p.conf.mode = .ack → s'.state = .busy ∧ s'.step = .WAITING_FOR_EOF_ACK) ∧
      s'.fs = s.fs ∧ s'.flts = s.flts := by
  have hc : Fs.calcChecksum s.fs (Checksum.CksType.ofNat rc.cks) src F.length s.p.segmentLen = .ok cks := by
    simp [Fs.calcChecksum, hnull, hfile, hcks]
  have hnt1 : rc.ackMs ≠ 0 := by omega
  have hnt2 : env.cfg.chkMs ≠ 0 := by omega
  cases hm : s.p.conf.mode <;> cases hcl : s.p.closure <;> cases hi : env.cfg.indEofSent <;>
    cases hf : env.cfg.indFinished <;>
  · apply Exists.intro
    constructor
    · msimp [stateMachine, fsmNonIdle, fsmAdvancementAfterPacketsWereSent, fsmFromSendingFileData,
        fsmFromSendingEof, fsmFromWaitingForEofAck, fsmFromWaitingForFinished, fsmFromNoticeOfCompletion,
        checksumCalculation, prepareEofPdu, handleEofSent, startPositiveAckProcedure, handleWaitingForAck,
        handleRetransmission, handlePositiveAckProcedures, handleWaitForFinish, noticeOfCompletion,
        resetInternal, transmissionMode, Timer.timedOut,
        getP, modP, addPacket, emitInd, hst, hstep, hq, hreq, hsrc, hmo, hsize, hprog, hrc, htid, hc, hlen,
        hm, hcl, hi, hf, hnt1, hnt2]
      rfl
    · simp

/-! ### non-vacuity: a concrete transfer runs through the three theorems -/

def exEnv : Env := ⟨⟨⟨1, 2⟩, true, true, true, true,
  [⟨⟨2, 2⟩, some 4, 64, false, false, .unack, 0, 1000, 2, 2, false, true, 1000, 2⟩], 1000⟩, 0⟩

def exReq : PutReq := ⟨⟨2, 2⟩, some "/f", some "/g", none, none, none⟩

def exInit : SrcSt := { fs := [("/f", .file [1, 2, 3, 4, 5, 6, 7, 8, 9])] }

/-- put request, then four rounds: Metadata, tiles (0,4) (4,4) (8,1); the fifth round is the EOF with
size 9 and the modular checksum of the nine bytes -/
example :
    (match putRequest exEnv exReq exInit with
     | .ok _ s => (rounds exEnv 5 s).map (·.1)
     | .error _ _ => none) =
    some [mkMd ⟨.toRecv, .unack, false, false, ⟨1, 2⟩, ⟨2, 2⟩, ⟨0, 2⟩⟩ false 0 9 (some "/f") (some "/g") (some []),
          mkFd ⟨.toRecv, .unack, false, false, ⟨1, 2⟩, ⟨2, 2⟩, ⟨0, 2⟩⟩ 0 [1, 2, 3, 4],
          mkFd ⟨.toRecv, .unack, false, false, ⟨1, 2⟩, ⟨2, 2⟩, ⟨0, 2⟩⟩ 4 [5, 6, 7, 8],
          mkFd ⟨.toRecv, .unack, false, false, ⟨1, 2⟩, ⟨2, 2⟩, ⟨0, 2⟩⟩ 8 [9],
          mkEof ⟨.toRecv, .unack, false, false, ⟨1, 2⟩, ⟨2, 2⟩, ⟨0, 2⟩⟩ 0 [15, 8, 10, 12] 9] := by
  decide +kernel

/-! ## The whole stream of one put request -/

/-- payload of a File Data PDU (empty for the other PDUs) -/
def payload : Pdu → List UInt8
  | .fd _ _ d => d
  | _ => []

/-- the tiles of `F` put together are `F` -/
theorem tiles_flatten (conf : Hdr) (F : List UInt8) (seg : Nat) :
    ∀ k, (((List.range k).map (tile conf F seg 0)).map payload).flatten = F.take (k * seg) := by
  intro k
  induction k with
  | zero => simp
  | succ k ih =>
    rw [List.range_succ, List.map_append, List.map_append, List.flatten_append, ih]
    simp only [List.map_cons, List.map_nil, List.flatten_cons, List.flatten_nil, List.append_nil, tile, mkFd,
      payload, Nat.zero_add]
    rw [Nat.add_mul, Nat.one_mul, List.take_add]

/-- **The whole stream (non-empty file, any mode).**  After an accepted put request for a non-empty
file `F`, `1 + k + 1` calls (each followed by the retrieval of what it queued; `k` = number of
tiles) emit exactly: the Metadata PDU (true size, both names, checksum type, closure flag), then `k`
File Data PDUs — one per call, offsets `0, seg, 2·seg, …`, each at most `seg` bytes —, then the EOF
PDU with the file's size and checksum.  The payloads, put together in order, are exactly `F`: every
byte once, none twice, none missing.  No call raises. -/
theorem C07_whole_stream (env : Env) (s : SrcSt) (req : PutReq) (rc : RemoteCfg) (src dst : String)
    (F cks : List UInt8) (seg k : Nat)
    (hst : s.state = .busy) (hstep : s.step = .IDLE) (hq : s.queue = []) (hreq : s.putReq = some req)
    (hpmo : s.p.metadataOnly = false) (hsrc : req.src = some src) (hdst : req.dst = some dst)
    (hfile : s.fs.get src = some (.file F)) (hF : F ≠ []) (hprog : s.p.progress = 0)
    (hrc : s.p.remoteCfg = some rc) (hbits : s.prov.bits = 8 ∨ s.prov.bits = 16 ∨ s.prov.bits = 32)
    (hseg : segLenOf rc (startConf env req rc s (decide (F.length > 4294967295))) = some seg) (hseg0 : 0 < seg)
    (hk : (k - 1) * seg < F.length ∧ F.length ≤ k * seg)
    (hcks : Checksum.calcChecksum (Checksum.CksType.ofNat rc.cks) F F.length seg = .ok cks)
    (hnull : Checksum.CksType.ofNat rc.cks ≠ .null) (hlen : cks.length = 4)
    (hack : 0 < rc.ackMs) (hchk : 0 < env.cfg.chkMs) :
    let conf := startConf env req rc s (decide (F.length > 4294967295))
    let md := mkMd conf s.p.closure rc.cks F.length (some src) (some dst) (some (req.msgs.getD []))
    let tiles := (List.range k).map (tile conf F seg 0)
    ∃ s', rounds env (1 + k + 1) s = some ([md] ++ tiles ++ [mkEof conf ccNoError cks F.length], s') ∧
      (tiles.map payload).flatten = F ∧ (∀ p ∈ tiles, (payload p).length ≤ seg) := by
  intro conf md tiles
  have hk1 : 1 ≤ k := by
    rcases Nat.eq_zero_or_pos k with h0 | h0
    · subst h0
      have : F.length = 0 := by have := hk.2; omega
      exact absurd (List.eq_nil_of_length_eq_zero this) hF
    · exact h0
  obtain ⟨hcall1, hS1⟩ := C07_metadata_call env s req rc src dst F seg hst hstep hq hreq hpmo hsrc hdst hfile hF
    hprog hrc hbits hseg hseg0
  obtain ⟨s2, hr2, hp2, hc2, hsg2, hst2, hS2, hFr2⟩ := C07_stream_tiles env req src F k _ hS1
    (Or.inr (by simp only [drained, afterMetadata, hprog, Nat.zero_add]; exact hk.1))
  have hstep2 : s2.step = .SENDING_FILE_DATA := hst2.resolve_left (by omega)
  have hprog2 : s2.p.progress = s2.p.fileSize := by
    rw [hp2, hS2.hsize]; simp only [drained, afterMetadata, hprog, Nat.zero_add]
    exact Nat.min_eq_left hk.2
  simp only [Frame] at hFr2
  obtain ⟨f1, f2, f3, f4, f5, f6, f7, f8, f9, f10, f11, f12, f13, f14, f15, f16⟩ := hFr2
  obtain ⟨s3, hcall3, hq3, -, -, -, -, -⟩ := C07_eof_call env s2 req rc src F cks
    ⟨env.cfg.entityId, ⟨s.prov.next, s.prov.bits / 8⟩⟩ hS2.hbusy hstep2 hS2.hqueue hS2.hreq hS2.hsrc hS2.hnotMo
    hS2.hfile hS2.hsize hprog2 (by rw [f1]; simp [drained, afterMetadata, hrc]) (by rw [f2]; simp [drained, afterMetadata])
    (by rw [hsg2]; simpa [drained, afterMetadata] using hcks) hnull hlen hack hchk
  refine ⟨drained s3, ?_, ?_, ?_⟩
  · rw [rounds_add env (1 + k) 1 s, rounds_add env 1 k s]
    simp only [rounds, round, hcall1, hr2, hcall3, hq3]
    simp [drained, afterMetadata, hprog, hc2, conf, md, tiles]
  · rw [tiles_flatten]; exact List.take_of_length_le hk.2
  · intro p hp
    simp only [tiles, List.mem_map, List.mem_range] at hp
    obtain ⟨i, -, rfl⟩ := hp
    simp only [tile, mkFd, payload, List.length_take]
    omega


/-- the sender after the first call for an empty file -/
def afterMetadataE (env : Env) (s : SrcSt) (req : PutReq) (rc : RemoteCfg) (src dst : String) (seg : Nat) : SrcSt :=
  let conf := startConf env req rc s false
  let tid : Tid := ⟨env.cfg.entityId, ⟨s.prov.next, s.prov.bits / 8⟩⟩
  { s with step := .SENDING_METADATA, numReady := s.numReady + 1,
           queue := [mkMd conf s.p.closure rc.cks 0 (some src) (some dst) (some (req.msgs.getD []))],
           prov := { s.prov with next := (s.prov.next + 1) % provWrap s.prov.bits },
           inds := s.inds ++ [.tx tid (checkForOriginatingId req.msgs)],
           p := { s.p with emptyFile := true, conf := conf, segmentLen := seg, tid := some tid } }

/-- **Empty file, first call**: exactly the Metadata PDU, announcing size 0 -/
theorem C07_metadata_call_empty (env : Env) (s : SrcSt) (req : PutReq) (rc : RemoteCfg) (src dst : String)
    (seg : Nat)
    (hst : s.state = .busy) (hstep : s.step = .IDLE) (hq : s.queue = [])
    (hreq : s.putReq = some req) (hpmo : s.p.metadataOnly = false)
    (hsrc : req.src = some src) (hdst : req.dst = some dst)
    (hfile : s.fs.get src = some (.file [])) (hsz0 : s.p.fileSize = 0)
    (hrc : s.p.remoteCfg = some rc) (hbits : s.prov.bits = 8 ∨ s.prov.bits = 16 ∨ s.prov.bits = 32)
    (hseg : segLenOf rc (startConf env req rc s false) = some seg) :
    stateMachine env none s = .ok () (afterMetadataE env s req rc src dst seg) := by
  have hex : Fs.exists' s.fs src = true := by simp [Fs.exists', hfile]
  have hsz : Fs.fileSize s.fs src = .ok 0 := by simp [Fs.fileSize, hfile]
  have hb : ¬((¬s.prov.bits = 8 ∧ ¬s.prov.bits = 16) ∧ ¬s.prov.bits = 32) := by omega
  unfold startConf at hseg
  msimp [stateMachine, fsmNonIdle, fsmAdvancementAfterPacketsWereSent, transactionStart,
    prepareMetadataPdu, addPacket, hst, hstep, hq, hreq, hpmo, hsrc, hdst, hex, hsz, hsz0, hrc,
    modP, getP, emitInd, hb, hseg, startConf, PutReq.metadataOnly, afterMetadataE]

/-- **Empty file, second call**: exactly the EOF PDU, size 0 and the checksum of no bytes; no File
Data PDU is ever built -/
theorem C07_eof_call_empty (env : Env) (s : SrcSt) (req : PutReq) (rc : RemoteCfg) (src : String)
    (cks : List UInt8) (tid : Tid)
    (hst : s.state = .busy) (hstep : s.step = .SENDING_METADATA) (hq : s.queue = [])
    (hreq : s.putReq = some req) (hsrc : req.src = some src) (hmo : s.p.metadataOnly = false)
    (hempty : s.p.emptyFile = true)
    (hfile : s.fs.get src = some (.file [])) (hsize : s.p.fileSize = 0) (hprog : s.p.progress = 0)
    (hrc : s.p.remoteCfg = some rc) (htid : s.p.tid = some tid)
    (hcks : Checksum.calcChecksum (Checksum.CksType.ofNat rc.cks) [] 0 s.p.segmentLen = .ok cks)
    (hnull : Checksum.CksType.ofNat rc.cks ≠ .null) (hlen : cks.length = 4)
    (hack : 0 < rc.ackMs) (hchk : 0 < env.cfg.chkMs) :
    ∃ s', stateMachine env none s = .ok () s' ∧ s'.queue = [mkEof s.p.conf ccNoError cks 0] ∧ s'.fs = s.fs ∧
      s'.flts = s.flts := by
  have hfc : Fs.calcChecksum s.fs (Checksum.CksType.ofNat rc.cks) src 0 s.p.segmentLen = .ok cks := by
    simp [Fs.calcChecksum, hfile, hnull, hcks]
  have hnt1 : rc.ackMs ≠ 0 := by omega
  have hnt2 : env.cfg.chkMs ≠ 0 := by omega
  cases hm : s.p.conf.mode <;> cases hcl : s.p.closure <;> cases hi : env.cfg.indEofSent <;>
    cases hf : env.cfg.indFinished <;>
  · apply Exists.intro
    constructor
    · msimp [stateMachine, fsmNonIdle, fsmAdvancementAfterPacketsWereSent, fsmFromSendingFileData,
        sendingFileDataFsm, hempty,
        fsmFromSendingEof, fsmFromWaitingForEofAck, fsmFromWaitingForFinished, fsmFromNoticeOfCompletion,
        checksumCalculation, prepareEofPdu, handleEofSent, startPositiveAckProcedure, handleWaitingForAck,
        handleRetransmission, handlePositiveAckProcedures, handleWaitForFinish, noticeOfCompletion,
        resetInternal, transmissionMode, Timer.timedOut,
        getP, modP, addPacket, emitInd, hst, hstep, hq, hreq, hsrc, hmo, hsize, hprog, hrc, htid, hfc, hlen,
        hm, hcl, hi, hf, hnt1, hnt2]
      rfl
    · simp

/-- **The whole stream of an empty file**: two calls, exactly the Metadata PDU (size 0) and the EOF
PDU (size 0, checksum of no bytes) — never a File Data PDU. -/
theorem C07_whole_stream_empty (env : Env) (s : SrcSt) (req : PutReq) (rc : RemoteCfg) (src dst : String)
    (cks : List UInt8) (seg : Nat)
    (hst : s.state = .busy) (hstep : s.step = .IDLE) (hq : s.queue = []) (hreq : s.putReq = some req)
    (hpmo : s.p.metadataOnly = false) (hsrc : req.src = some src) (hdst : req.dst = some dst)
    (hfile : s.fs.get src = some (.file [])) (hsz0 : s.p.fileSize = 0) (hprog : s.p.progress = 0)
    (hrc : s.p.remoteCfg = some rc) (hbits : s.prov.bits = 8 ∨ s.prov.bits = 16 ∨ s.prov.bits = 32)
    (hseg : segLenOf rc (startConf env req rc s false) = some seg)
    (hcks : Checksum.calcChecksum (Checksum.CksType.ofNat rc.cks) [] 0 seg = .ok cks)
    (hnull : Checksum.CksType.ofNat rc.cks ≠ .null) (hlen : cks.length = 4)
    (hack : 0 < rc.ackMs) (hchk : 0 < env.cfg.chkMs) :
    ∃ s', rounds env 2 s =
      some ([mkMd (startConf env req rc s false) s.p.closure rc.cks 0 (some src) (some dst) (some (req.msgs.getD [])),
             mkEof (startConf env req rc s false) ccNoError cks 0], s') := by
  have h1 := C07_metadata_call_empty env s req rc src dst seg hst hstep hq hreq hpmo hsrc hdst hfile hsz0 hrc hbits hseg
  obtain ⟨s2, h2, hq2, -, -⟩ := C07_eof_call_empty env (drained (afterMetadataE env s req rc src dst seg)) req rc src cks
    ⟨env.cfg.entityId, ⟨s.prov.next, s.prov.bits / 8⟩⟩ (by simp [drained, afterMetadataE, hst])
    (by simp [drained, afterMetadataE]) (by simp [drained]) (by simp [drained, afterMetadataE, hreq]) hsrc
    (by simp [drained, afterMetadataE, hpmo]) (by simp [drained, afterMetadataE])
    (by simp [drained, afterMetadataE, hfile]) (by simp [drained, afterMetadataE, hsz0])
    (by simp [drained, afterMetadataE, hprog]) (by simp [drained, afterMetadataE, hrc])
    (by simp [drained, afterMetadataE]) (by simpa [drained, afterMetadataE] using hcks) hnull hlen hack hchk
  refine ⟨drained s2, ?_⟩
  simp only [rounds, round, h1, h2, hq2]
  simp [drained, afterMetadataE]

/-- the sender after the first call of a metadata-only request -/
def afterMetadataMo (env : Env) (s : SrcSt) (req : PutReq) (rc : RemoteCfg) (seg : Nat) : SrcSt :=
  let conf := startConf env req rc s s.p.conf.large
  let tid : Tid := ⟨env.cfg.entityId, ⟨s.prov.next, s.prov.bits / 8⟩⟩
  { s with step := .SENDING_METADATA, numReady := s.numReady + 1,
           queue := [mkMd conf s.p.closure 15 0 none none (some (req.msgs.getD []))],
           prov := { s.prov with next := (s.prov.next + 1) % provWrap s.prov.bits },
           inds := s.inds ++ [.tx tid (checkForOriginatingId req.msgs)],
           p := { s.p with metadataOnly := true, conf := conf, segmentLen := seg, tid := some tid } }

/-- **Metadata-only request, first call**: exactly one Metadata PDU — no file names, size 0, the null
checksum type, the request's messages — and the filestore is not consulted at all. -/
theorem C07_metadata_only_call (env : Env) (s : SrcSt) (req : PutReq) (rc : RemoteCfg) (seg : Nat)
    (hst : s.state = .busy) (hstep : s.step = .IDLE) (hq : s.queue = [])
    (hreq : s.putReq = some req) (hsrc : req.src = none) (hdst : req.dst = none)
    (hrc : s.p.remoteCfg = some rc) (hbits : s.prov.bits = 8 ∨ s.prov.bits = 16 ∨ s.prov.bits = 32)
    (hseg : segLenOf rc (startConf env req rc s s.p.conf.large) = some seg) :
    stateMachine env none s = .ok () (afterMetadataMo env s req rc seg) := by
  have hb : ¬((¬s.prov.bits = 8 ∧ ¬s.prov.bits = 16) ∧ ¬s.prov.bits = 32) := by omega
  unfold startConf at hseg
  msimp [stateMachine, fsmNonIdle, fsmAdvancementAfterPacketsWereSent, transactionStart,
    prepareMetadataPdu, addPacket, hst, hstep, hq, hreq, hsrc, hdst, hrc,
    modP, getP, emitInd, hb, hseg, startConf, PutReq.metadataOnly, afterMetadataMo]

/-- **Metadata-only request, second call**: nothing more is sent — no File Data, no EOF; the sender
waits for the Finished PDU (closure requested or acknowledged mode) or completes at once. -/
theorem C07_metadata_only_second_call (env : Env) (s : SrcSt) (req : PutReq) (tid : Tid)
    (hst : s.state = .busy) (hstep : s.step = .SENDING_METADATA) (hq : s.queue = [])
    (hreq : s.putReq = some req) (hmo : s.p.metadataOnly = true) (hempty : s.p.emptyFile = false)
    (hct : s.p.checkTimer = none) (htid : s.p.tid = some tid) :
    ∃ s', stateMachine env none s = .ok () s' ∧ s'.queue = [] ∧ s'.fs = s.fs ∧ s'.flts = s.flts ∧
      ((s.p.closure = true ∨ s.p.conf.mode = .ack) → s'.step = .WAITING_FOR_FINISHED ∧ s'.state = .busy) ∧
      (s.p.closure = false → s.p.conf.mode = .unack → s'.state = .idle ∧ s'.step = .IDLE) := by
  cases hm : s.p.conf.mode <;> cases hcl : s.p.closure <;> cases hf : env.cfg.indFinished <;>
  · apply Exists.intro
    constructor
    · msimp [stateMachine, fsmNonIdle, fsmAdvancementAfterPacketsWereSent, fsmFromSendingFileData,
        sendingFileDataFsm, hempty,
        fsmFromSendingEof, fsmFromWaitingForEofAck, fsmFromWaitingForFinished, fsmFromNoticeOfCompletion,
        handleRetransmission, handleWaitForFinish, noticeOfCompletion,
        resetInternal, transmissionMode, getP, modP, addPacket, emitInd, hst, hstep, hq, hreq, hmo, htid, hct,
        hm, hcl, hf]
      rfl
    · simp [hq]

/-! ### non-vacuity: the empty file and the metadata-only request, run -/

def exInitE : SrcSt := { fs := [("/f", .file [])] }

example :
    (match putRequest exEnv exReq exInitE with
     | .ok _ s => (rounds exEnv 3 s).map (·.1)
     | .error _ _ => none) =
    some [mkMd ⟨.toRecv, .unack, false, false, ⟨1, 2⟩, ⟨2, 2⟩, ⟨0, 2⟩⟩ false 0 0 (some "/f") (some "/g") (some []),
          mkEof ⟨.toRecv, .unack, false, false, ⟨1, 2⟩, ⟨2, 2⟩, ⟨0, 2⟩⟩ 0 [0, 0, 0, 0] 0] := by
  decide +kernel

def exReqMo : PutReq := ⟨⟨2, 2⟩, none, none, none, none, some [.plain [1, 2]]⟩

example :
    (match putRequest exEnv exReqMo exInitE with
     | .ok _ s => (rounds exEnv 3 s).map (·.1)
     | .error _ _ => none) =
    some [mkMd ⟨.toRecv, .unack, false, false, ⟨1, 2⟩, ⟨2, 2⟩, ⟨0, 2⟩⟩ false 15 0 none none (some [.plain [1, 2]])] := by
  decide +kernel

end Cfdp.Source.C07
