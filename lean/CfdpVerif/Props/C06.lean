import CfdpVerif.Props.C18
import CfdpVerif.Model.Dest
import CfdpVerif.Lemmas.Monad
/-!
# C06 — NAKs request exactly what is missing

The receiver's knowledge of what is missing *is* its lost-segment tracker, whose listing denotes
exactly the set of bytes added and not yet removed (`Props/C18`).  Proved here, for every tracker
content, header configuration and maximum packet length:

* the NAK sequence of the deferred procedure requests, taken together and in order, exactly the
  tracker's ranges — preceded by the metadata request `(0,0)` iff Metadata is missing — nothing else
  and nothing twice (`C06_nak_sequence_exact`);
* every NAK PDU of the sequence has scope `(0, EOF file size)`, carries between 1 and the per-PDU
  maximum of requests, and its encoded length respects the maximum packet length
  (`C06_nak_sequence_pdus`, `C06_nak_len`);
* nothing missing ⇒ no NAK, and the transfer proceeds to completion (`C06_nothing_missing`);
* the immediate NAK for a gap requests exactly the gap `[last_end, offset)`, with a scope that
  encloses it (`C06_immediate_nak`).
The link "tracker = bytes not stored" (`Inv_trk` of DESIGN.md §6) is NOT proved here; it is explored
by the grid-history suites with an independent interval model (see MANIFEST / evidence).
-/
set_option linter.unusedSimpArgs false
set_option linter.unusedVariables false

namespace Cfdp.C06

open Cfdp Cfdp.Dest

/-- segment requests of a NAK PDU -/
def reqsOf : Pdu → List (Nat × Nat)
  | .nak _ _ _ r => r
  | _ => []

def flat (l : List Pdu) : List (Nat × Nat) := (l.map reqsOf).flatten

@[simp] theorem flat_append (a b : List Pdu) : flat (a ++ b) = flat a ++ flat b := by
  simp [flat]

/-- a NAK PDU of the deferred procedure: towards the sender, scope `(0, eos)`, `1..m` requests -/
def GoodNak (conf : Hdr) (eos m : Nat) (p : Pdu) : Prop :=
  ∃ r, p = .nak { conf with dir := .toSend } 0 eos r ∧ 1 ≤ r.length ∧ r.length ≤ m

theorem splitReqs_spec (conf : Hdr) (eos m : Nat) (hm : 1 ≤ m) :
    ∀ (reqs cur : List (Nat × Nat)) (out : List Pdu), cur.length ≤ m →
      (flat (splitReqs conf eos m reqs cur out).2 ++ (splitReqs conf eos m reqs cur out).1 =
        flat out ++ cur ++ reqs) ∧
      (splitReqs conf eos m reqs cur out).1.length ≤ m ∧
      (reqs ≠ [] → (splitReqs conf eos m reqs cur out).1 ≠ []) ∧
      (∀ p ∈ (splitReqs conf eos m reqs cur out).2, p ∈ out ∨ GoodNak conf eos m p) := by
  intro reqs
  induction reqs with
  | nil =>
    intro cur out h
    refine ⟨by simp [splitReqs], by simpa [splitReqs] using h, by simp, fun p hp => Or.inl ?_⟩
    simpa [splitReqs] using hp
  | cons r rest ih =>
    intro cur out h
    unfold splitReqs
    by_cases hc : cur.length ≥ m
    · simp only [hc, if_true]
      have := ih [r] (out ++ [mkNak conf 0 eos cur]) (by simp; omega)
      obtain ⟨h1, h2, h3, h4⟩ := this
      refine ⟨?_, h2, ?_, ?_⟩
      · rw [h1]; simp [flat, reqsOf, mkNak]
      · intro _
        by_cases hr : rest = []
        · subst hr; simp [splitReqs]
        · exact h3 hr
      · intro p hp
        rcases h4 p hp with h | h
        · simp at h
          rcases h with h | h
          · exact Or.inl h
          · right; exact ⟨cur, by rw [h]; rfl, by omega, by omega⟩
        · exact Or.inr h
    · simp only [hc, if_false]
      have := ih (cur ++ [r]) out (by simp; omega)
      obtain ⟨h1, h2, h3, h4⟩ := this
      refine ⟨?_, h2, ?_, h4⟩
      · rw [h1]; simp
      · intro _
        by_cases hr : rest = []
        · subst hr; simp [splitReqs]
        · exact h3 hr

/-- **Exactness of the deferred NAK sequence.**  The segment requests of the NAK PDUs of one
(re-)issue, concatenated in order, are exactly: the metadata request `(0,0)` iff Metadata is
missing, followed by the tracker's ranges in ascending order — each exactly once. -/
theorem C06_nak_sequence_exact (conf : Hdr) (fse m : Nat) (hm : 1 ≤ m) (mm : Bool) (trk : Tracker.T) :
    flat (nakSequence conf fse m mm trk) = (if mm then [(0, 0)] else []) ++ trk := by
  unfold nakSequence
  have hinit : (if mm then [((0 : Nat), (0 : Nat))] else []).length ≤ m := by
    cases mm <;> simp <;> omega
  obtain ⟨h1, _, _, _⟩ := splitReqs_spec conf fse m hm trk (if mm then [(0, 0)] else []) [] hinit
  simp only at h1 ⊢
  by_cases hr : (splitReqs conf fse m trk (if mm = true then [(0, 0)] else []) []).1.length > 0
  · simp only [hr, if_true, flat_append]
    have : flat [mkNak conf 0 fse (splitReqs conf fse m trk (if mm = true then [(0, 0)] else []) []).1] =
        (splitReqs conf fse m trk (if mm = true then [(0, 0)] else []) []).1 := by
      simp [flat, reqsOf, mkNak]
    rw [this, h1]; simp [flat]
  · have hnil : (splitReqs conf fse m trk (if mm = true then [(0, 0)] else []) []).1 = [] := by
      cases h : (splitReqs conf fse m trk (if mm = true then [(0, 0)] else []) []).1 with
      | nil => rfl
      | cons a b => rw [h] at hr; simp at hr
    simp only [hr, if_false, List.append_nil]
    rw [hnil, List.append_nil] at h1
    rw [h1]; simp [flat]

/-- every PDU of the sequence: a NAK towards the sender with scope `(0, EOF file size)` and between
one and `m` requests -/
theorem C06_nak_sequence_pdus (conf : Hdr) (fse m : Nat) (hm : 1 ≤ m) (mm : Bool) (trk : Tracker.T) :
    ∀ p ∈ nakSequence conf fse m mm trk, GoodNak conf fse m p := by
  unfold nakSequence
  have hinit : (if mm then [((0 : Nat), (0 : Nat))] else []).length ≤ m := by
    cases mm <;> simp <;> omega
  obtain ⟨_, h2, _, h4⟩ := splitReqs_spec conf fse m hm trk (if mm then [(0, 0)] else []) [] hinit
  intro p hp
  simp only at hp
  rcases List.mem_append.mp hp with h | h
  · rcases h4 p h with h' | h'
    · simp at h'
    · exact h'
  · by_cases hl : (splitReqs conf fse m trk (if mm = true then [(0, 0)] else []) []).1.length > 0
    · rw [if_pos hl] at h
      simp at h
      exact ⟨_, by rw [h]; rfl, by omega, h2⟩
    · rw [if_neg hl] at h
      simp at h

/-- **Length bound.**  With `m` the per-PDU maximum computed from the maximum packet length
(`get_max_seg_reqs_for_max_packet_size_and_pdu_cfg`), every NAK PDU of the deferred sequence has an
encoded length of at most the maximum packet length. -/
theorem C06_nak_len (conf : Hdr) (fse m maxPkt : Nat) (p : Pdu)
    (hmax : maxSegReqs maxPkt conf = some m) (hp : GoodNak conf fse m p) : p.packetLen ≤ maxPkt := by
  obtain ⟨r, rfl, _, hr⟩ := hp
  unfold maxSegReqs at hmax
  simp only at hmax
  split at hmax
  · simp at hmax
  · rename_i hb
    simp at hmax
    subst hmax
    simp only [Pdu.packetLen, Hdr.len, Hdr.fss, Hdr.crcLen] at *
    have hf : 0 < 2 * (if conf.large = true then 8 else 4) := by split <;> omega
    have := Nat.div_mul_le_self (maxPkt - (4 + conf.src.width + conf.dst.width + conf.seq.width + 1 +
      (if conf.crc = true then 2 else 0) + 2 * (if conf.large = true then 8 else 4)))
      (2 * (if conf.large = true then 8 else 4))
    have hmul : r.length * (2 * (if conf.large = true then 8 else 4)) ≤
        (maxPkt - (4 + conf.src.width + conf.dst.width + conf.seq.width + 1 +
          (if conf.crc = true then 2 else 0) + 2 * (if conf.large = true then 8 else 4))) /
          (2 * (if conf.large = true then 8 else 4)) * (2 * (if conf.large = true then 8 else 4)) :=
      Nat.mul_le_mul_right _ hr
    omega

/-- **Nothing missing ⇒ no NAK, proceed to completion.**  With an empty tracker and the Metadata
present, the deferred procedure queues nothing, verifies the checksum and moves to transfer
completion (the queue is exactly as before). -/
theorem C06_nothing_missing (env : Env) (d : DestSt) (rc : RemoteCfg) (fse : Nat)
    (ha : d.p.deferredActive = true) (hnc : d.p.canceled = false)
    (hrc : d.p.remoteCfg = some rc) (hf : d.p.fileSizeEof = some fse)
    (htrk : d.p.trk = []) (hmd : d.p.metadataMissing = false) (hnull : d.p.cksType = 15)
    (hb : d.state = .busy) :
    deferredLostSegmentHandling env d =
      .ok () { d with step := .TRANSFER_COMPLETION,
                      p := { d.p with deferredActive := false,
                                      fin := { d.p.fin with deliv := dcComplete, cond := ccNoError } } } := by
  msimp [deferredLostSegmentHandling, getP, ha, hnc, hrc, hf, htrk, hmd, checksumVerify, hnull, markComplete, modP, hb]

/-- **Immediate NAK.**  A File Data PDU beyond the end of the last in-order segment makes the gap
`[last_end, offset)` lost; in immediate mode exactly that gap is requested at once, in a NAK whose
scope `(0, offset + length)` encloses it (`last_end < offset ≤ offset + length`). -/
theorem C06_immediate_nak (d : DestSt) (rc : RemoteCfg) (off len : Nat)
    (hrc : d.p.remoteCfg = some rc) (himm : rc.imm = true) (hgt : off > d.p.lastEnd) (hlen : 0 < len) :
    ∃ d', lostSegmentHandling off len d = .ok () d' ∧
      d'.queue = d.queue ++ [mkNak d.p.conf 0 (off + len) [(d.p.lastEnd, off)]] ∧
      d'.p.trk = Tracker.add d.p.trk (d.p.lastEnd, off) ∧ d.p.lastEnd < off ∧ off ≤ off + len := by
  have hl : ¬ off + len ≤ off := by omega
  apply Exists.intro
  refine ⟨?_, ?_, ?_, hgt, by omega⟩
  · msimp [lostSegmentHandling, getP, hgt, hrc, himm, modP, addPacket, Nat.le_of_lt hgt, hl]
    rfl
  · simp
  · simp

/-- a File Data PDU that does not lie beyond the last in-order segment requests nothing -/
theorem C06_no_nak_without_gap (d : DestSt) (off len : Nat) (hle : off ≤ d.p.lastEnd) :
    (stateOf (lostSegmentHandling off len d)).queue = d.queue := by
  have hng : ¬ off > d.p.lastEnd := by omega
  unfold lostSegmentHandling
  cases hrm : Tracker.remove d.p.trk off (off + len) <;>
    msimp [getP, hng, modP, hrm] <;> (repeat' split) <;> simp [stateOf, hrm]

end Cfdp.C06
